(** C12 - the Lehmer gcd / extended gcd of integer/src/gcd/lehmer.rs (value-level as-is model GrlLehmer.v):
    every step of the outer loops preserves the gcd (the cosequence matrix of lehmer_guess is unimodular)
    and the Bezout congruences x = -+t0*rhs, y = +-t1*rhs (mod lhs); the guess loop ends within w + 1
    iterations and the outer loops within x + y iterations; gcd_large returns the gcd, gcd_ext_large
    returns (g, s, t) with g = gcd = s*x + t*y (sign bookkeeping of line 486 included), for every
    word size w >= 2 and every MIN_DWORD_GUESS_LEN. *)
From Dashu Require Import Base.Prelude Int.GrlSpec Int.GrlModel Int.GrlSpecProof Int.GrlGcdProof Int.GrlLehmer.
From Coq Require Import Znumtheory.
Open Scope Z_scope.

(** * one half-step of lehmer_guess *)
Lemma lehmer_half_step : forall B L u0 u1 v0 v1 num den sub r s t,
  lehmer_half B L u0 u1 v0 v1 num den sub = HStep r s t ->
  den <> 0 /\ r = u0 + num / den * v0 /\ s = u1 + num / den * v1 /\ t = num - num / den * den
  /\ r <= L /\ s <= L /\ s <= t.
Proof.
  intros B L u0 u1 v0 v1 num den sub r s t. unfold lehmer_half.
  destruct (Z.eqb_spec den 0); [discriminate|].
  destruct (Z.ltb_spec L (num / den)); [discriminate|].
  destruct (negb _); [discriminate|].
  destruct (Z.ltb_spec L (u0 + num / den * v0)); [discriminate|].
  destruct (Z.ltb_spec L (u1 + num / den * v1)); [discriminate|]. cbn [orb].
  destruct (Z.ltb_spec (num - num / den * den) (u1 + num / den * v1)); [discriminate|].
  destruct (negb _); [discriminate|].
  destruct (_ <? _); [discriminate|].
  intros E. injection E as <- <- <-. repeat split; try assumption; lia.
Qed.

Lemma lehmer_half_no_fuel : forall B L u0 u1 v0 v1 num den sub r,
  lehmer_half B L u0 u1 v0 v1 num den sub = HPanic r -> r = DivideBy0 \/ r = Undocumented.
Proof.
  intros B L u0 u1 v0 v1 num den sub r. unfold lehmer_half.
  repeat match goal with |- context [if ?c then _ else _] => destruct c end; intros E; try discriminate;
  injection E as <-; auto.
Qed.

(** * the cosequence matrix: entries in [0, L], determinant 1 *)
Definition ginv (L a b c d : Z) : Prop :=
  0 <= a <= L /\ 0 <= b <= L /\ 0 <= c <= L /\ 0 <= d <= L /\ a * d - b * c = 1.

Lemma half_quot_nonneg : forall num den, 0 <= num -> 0 <= den -> 0 <= num / den.
Proof. intros. apply Z_div_nonneg_nonneg; lia. Qed.

(** the guess keeps the matrix unimodular with entries in [0, L] *)
Lemma guess_loop_inv : forall fuel B L a b c d xb yb a' b' c' d',
  0 <= xb -> 0 <= yb -> ginv L a b c d ->
  lehmer_guess_loop fuel B L a b c d xb yb = Ok (a', b', c', d') -> ginv L a' b' c' d'.
Proof.
  induction fuel as [|k IH]; intros B L a b c d xb yb a' b' c' d' Hx Hy G; [discriminate|].
  cbn [lehmer_guess_loop].
  destruct (yb =? 0); [intros E; injection E as <- <- <- <-; exact G|].
  destruct (lehmer_half B L a b c d xb yb c) as [|?|r s t] eqn:H1; [intros E; injection E as <- <- <- <-; exact G|discriminate|].
  destruct (lehmer_half_step _ _ _ _ _ _ _ _ _ _ _ _ H1) as [Hd [Er [Es [Et [Hr [Hs Hst]]]]]].
  destruct G as [Ga [Gb [Gc [Gd Gdet]]]].
  pose proof (half_quot_nonneg xb yb Hx Hy) as Hq. set (q := xb / yb) in *.
  assert (0 <= q * c) by (apply Z.mul_nonneg_nonneg; lia).
  assert (0 <= q * d) by (apply Z.mul_nonneg_nonneg; lia).
  assert (ginv L r s c d) as G1.
  { assert (r * d - s * c = 1) as D1.
    { rewrite Er, Es. replace ((a + q * c) * d - (b + q * d) * c) with (a * d - b * c) by ring. exact Gdet. }
    unfold ginv. repeat split; first [exact D1 | lia]. }
  assert (0 <= t) as Ht.
  { rewrite Et. unfold q. pose proof (Z.mod_pos_bound xb yb ltac:(lia)). rewrite Z.mod_eq in * by lia. lia. }
  destruct (t =? s); [intros E; injection E as <- <- <- <-; exact G1|].
  destruct (lehmer_half B L d c s r yb t c) as [|?|r2 s2 t2] eqn:H2; [intros E; injection E as <- <- <- <-; exact G1|discriminate|].
  destruct (lehmer_half_step _ _ _ _ _ _ _ _ _ _ _ _ H2) as [Hd2 [Er2 [Es2 [Et2 [Hr2 [Hs2 Hst2]]]]]].
  pose proof (half_quot_nonneg yb t Hy Ht) as Hq2. set (q2 := yb / t) in *.
  destruct G1 as [Ga1 [Gb1 [_ [_ Gdet1]]]].
  assert (0 <= q2 * s) by (apply Z.mul_nonneg_nonneg; lia).
  assert (0 <= q2 * r) by (apply Z.mul_nonneg_nonneg; lia).
  assert (ginv L r s s2 r2) as G2.
  { assert (r * r2 - s * s2 = 1) as D2.
    { rewrite Er2, Es2. replace (r * (d + q2 * s) - s * (c + q2 * r)) with (r * d - s * c) by ring. exact Gdet1. }
    unfold ginv. repeat split; first [exact D2 | lia]. }
  destruct (t2 =? s2); [intros E; injection E as <- <- <- <-; exact G2|].
  apply IH; [lia| |exact G2].
  rewrite Et2. unfold q2. pose proof (Z.mod_pos_bound yb t ltac:(lia)). rewrite Z.mod_eq in * by lia. lia.
Qed.

(** b + d at least doubles in every full iteration and stays below 2^w: at most w iterations *)
Lemma guess_loop_total : forall fuel B L w k a b c d xb yb, 0 <= k -> 2 * L < 2 ^ w ->
  ginv L a b c d -> 0 <= yb <= xb -> 2 ^ k <= b + d -> (Z.to_nat (w - k) < fuel)%nat ->
  lehmer_guess_loop fuel B L a b c d xb yb <> OutOfFuel.
Proof.
  induction fuel as [|f IH]; intros B L w k a b c d xb yb Hk HL G Hxy Hbd Hf; [lia|].
  destruct G as [Ga [Gb [Gc [Gd Gdet]]]].
  assert (k < w) as Hkw.
  { destruct (Z.lt_ge_cases k w); [assumption|exfalso].
    assert (2 ^ w <= 2 ^ k) by (apply Z.pow_le_mono_r; lia). lia. }
  cbn [lehmer_guess_loop].
  destruct (yb =? 0); [discriminate|].
  destruct (lehmer_half B L a b c d xb yb c) as [|?|r s t] eqn:H1; [discriminate|discriminate|].
  destruct (lehmer_half_step _ _ _ _ _ _ _ _ _ _ _ _ H1) as [Hd [Er [Es [Et [Hr [Hs Hst]]]]]].
  assert (1 <= xb / yb) as Hq by (apply Z.div_le_lower_bound; lia). set (q := xb / yb) in *.
  pose proof (Z.mod_pos_bound xb yb ltac:(lia)) as Hm. rewrite Z.mod_eq in Hm by lia. fold q in Hm.
  assert (d <= q * d) by (replace d with (1 * d) at 1 by ring; apply Z.mul_le_mono_nonneg_r; lia).
  assert (0 <= q * c) by (apply Z.mul_nonneg_nonneg; lia).
  destruct (t =? s); [discriminate|].
  destruct (lehmer_half B L d c s r yb t c) as [|?|r2 s2 t2] eqn:H2; [discriminate|discriminate|].
  destruct (lehmer_half_step _ _ _ _ _ _ _ _ _ _ _ _ H2) as [Hd2 [Er2 [Es2 [Et2 [Hr2 [Hs2 Hst2]]]]]].
  assert (0 < t) as Ht by lia.
  assert (1 <= yb / t) as Hq2 by (apply Z.div_le_lower_bound; lia). set (q2 := yb / t) in *.
  pose proof (Z.mod_pos_bound yb t ltac:(lia)) as Hm2. rewrite Z.mod_eq in Hm2 by lia. fold q2 in Hm2.
  assert (s <= q2 * s) by (replace s with (1 * s) at 1 by ring; apply Z.mul_le_mono_nonneg_r; lia).
  assert (0 <= q2 * r) by (apply Z.mul_nonneg_nonneg; lia).
  destruct (t2 =? s2); [discriminate|].
  apply (IH B L w (k + 1)); try lia.
  - assert (r * r2 - s * s2 = 1) as D2.
    { rewrite Er2, Es2. replace (r * (d + q2 * s) - s * (c + q2 * r)) with (r * d - s * c) by ring.
      rewrite Er, Es. replace ((a + q * c) * d - (b + q * d) * c) with (a * d - b * c) by ring. exact Gdet. }
    unfold ginv. repeat split; first [exact D2 | lia].
  - rewrite Z.pow_add_r, Z.pow_1_r by lia. lia.
Qed.

(** * results of the two guesses *)
Lemma coeff_limit_facts : forall w, 2 <= w -> 1 <= coeff_limit w /\ 2 * coeff_limit w < 2 ^ w.
Proof.
  intros w Hw. unfold coeff_limit.
  assert (2 ^ w = 2 * 2 ^ (w - 1)) as E by (replace w with (1 + (w - 1)) at 1 by lia; rewrite Z.pow_add_r by lia; reflexivity).
  assert (2 ^ 1 <= 2 ^ (w - 1)) by (apply Z.pow_le_mono_r; lia). change (2 ^ 1) with 2 in *. lia.
Qed.

Lemma ginv_init : forall L, 1 <= L -> ginv L 1 0 0 1.
Proof. intros L HL. unfold ginv. lia. Qed.

Lemma lehmer_guess_inv : forall w xb yb a b c d, 2 <= w -> 0 <= yb ->
  lehmer_guess w xb yb = Ok (a, b, c, d) -> ginv (coeff_limit w) a b c d.
Proof.
  intros w xb yb a b c d Hw Hy. unfold lehmer_guess. destruct (Z.ltb_spec xb yb); [discriminate|].
  apply guess_loop_inv; [lia|lia|apply ginv_init; apply coeff_limit_facts; lia].
Qed.

Lemma lehmer_guess_dword_inv : forall w xb yb a b c d, 2 <= w -> 0 <= yb ->
  lehmer_guess_dword w xb yb = Ok (a, b, c, d) -> ginv (coeff_limit w) a b c d.
Proof.
  intros w xb yb a b c d Hw Hy. unfold lehmer_guess_dword. destruct (Z.ltb_spec xb yb); [discriminate|].
  destruct (lehmer_guess_loop _ _ _ 1 0 0 1 xb yb) as [[[[a0 b0] c0] d0]|?|?|] eqn:E; cbn [rbind]; try discriminate.
  assert (0 <= xb) as Hx by lia.
  pose proof (guess_loop_inv _ _ _ _ _ _ _ _ _ _ _ _ _ Hx Hy (ginv_init _ (proj1 (coeff_limit_facts w Hw))) E) as G.
  destruct (coeff_limit_facts w Hw) as [_ HL]. destruct G as [Ga [Gb [Gc [Gd Gdet]]]].
  intros E2. injection E2 as <- <- <- <-. rewrite !Z.mod_small by lia. unfold ginv. lia.
Qed.

Lemma lehmer_guess_total : forall w xb yb, 2 <= w -> 0 <= yb -> lehmer_guess w xb yb <> OutOfFuel.
Proof.
  intros w xb yb Hw Hy. unfold lehmer_guess. destruct (Z.ltb_spec xb yb); [discriminate|].
  apply (guess_loop_total _ _ _ w 0); try lia.
  - apply coeff_limit_facts; lia.
  - apply ginv_init. apply coeff_limit_facts; lia.
  - unfold guess_fuel. lia.
Qed.

Lemma lehmer_guess_dword_total : forall w xb yb, 2 <= w -> 0 <= yb -> lehmer_guess_dword w xb yb <> OutOfFuel.
Proof.
  intros w xb yb Hw Hy. unfold lehmer_guess_dword. destruct (Z.ltb_spec xb yb); [discriminate|].
  assert (0 <= yb <= xb) as Hxy by lia. assert (2 ^ 0 <= 0 + 1) as H0 by (cbn; lia).
  assert (Z.to_nat (w - 0) < guess_fuel w)%nat as Hf by (unfold guess_fuel; lia).
  pose proof (guess_loop_total (guess_fuel w) (2 ^ (2 * w)) (coeff_limit w) w 0 1 0 0 1 xb yb (Z.le_refl 0)
    (proj2 (coeff_limit_facts w Hw)) (ginv_init _ (proj1 (coeff_limit_facts w Hw))) Hxy H0 Hf) as T.
  destruct (lehmer_guess_loop _ _ _ 1 0 0 1 xb yb) as [[[[a0 b0] c0] d0]|?|?|]; cbn [rbind]; try discriminate. congruence.
Qed.

Lemma pow2_nonneg : forall e, 0 <= 2 ^ e.
Proof. intros. apply Z.pow_nonneg. lia. Qed.

Lemma hwn_nonneg : forall w x y, 0 <= w -> 0 <= snd (highest_word_normalized w x y).
Proof.
  intros w x y Hw. unfold highest_word_normalized. cbn [snd].
  apply Z_div_nonneg_nonneg; [|apply pow2_nonneg].
  apply Z.mod_pos_bound. apply Z.pow_pos_nonneg; lia.
Qed.

Lemma hdn_nonneg : forall w x y, 0 <= w -> 0 <= y -> 0 <= snd (highest_dword_normalized w x y).
Proof.
  intros w x y Hw Hy. unfold highest_dword_normalized.
  assert (0 < 2 ^ (2 * w)) as HP by (apply Z.pow_pos_nonneg; lia).
  assert (forall v0 v12, 0 <= v12 ->
    0 <= Z.lor ((v0 * 2 ^ (leading_zeros w (top_word w x) + w)) mod 2 ^ (2 * w)) (Z.shiftr v12 (w - leading_zeros w (top_word w x)))) as Hhi.
  { intros v0 v12 H12. apply Z.lor_nonneg. split; [apply Z.mod_pos_bound; exact HP | apply Z.shiftr_nonneg; exact H12]. }
  assert (0 <= slice_dword w y (wlen w x - 3)) as S1 by (unfold slice_dword; apply Z.mod_pos_bound; exact HP).
  assert (0 <= highest_dword w y) as S2 by (unfold highest_dword; apply Z_div_nonneg_nonneg; [lia|apply pow2_nonneg]).
  assert (0 <= top_word w y) as S3 by (unfold top_word; apply Z_div_nonneg_nonneg; [lia|apply pow2_nonneg]).
  destruct (_ =? 0); [cbn [snd]; apply Hhi; exact S1|].
  destruct (_ =? 1); [cbn [snd]; apply Hhi; exact S2|].
  destruct (_ =? 2); cbn [snd]; apply Hhi; [exact S3|lia].
Qed.

(** whichever guess is used, the matrix is unimodular with entries in [0, COEFF_LIMIT], and the guess terminates *)
Lemma lehmer_guess_for_inv : forall mdl w x y a b c d, 2 <= w -> 0 <= y ->
  lehmer_guess_for mdl w x y = Ok (a, b, c, d) -> ginv (coeff_limit w) a b c d.
Proof.
  intros mdl w x y a b c d Hw Hy. unfold lehmer_guess_for. destruct (_ <? _).
  - pose proof (hwn_nonneg w x y ltac:(lia)) as Hn. destruct (highest_word_normalized w x y) as [xh yh]. cbn [snd] in Hn.
    apply lehmer_guess_inv; assumption.
  - pose proof (hdn_nonneg w x y ltac:(lia) Hy) as Hn. destruct (highest_dword_normalized w x y) as [xh yh]. cbn [snd] in Hn.
    apply lehmer_guess_dword_inv; assumption.
Qed.

Lemma lehmer_guess_for_total : forall mdl w x y, 2 <= w -> 0 <= y -> lehmer_guess_for mdl w x y <> OutOfFuel.
Proof.
  intros mdl w x y Hw Hy. unfold lehmer_guess_for. destruct (_ <? _).
  - pose proof (hwn_nonneg w x y ltac:(lia)) as Hn. destruct (highest_word_normalized w x y) as [xh yh]. cbn [snd] in Hn.
    apply lehmer_guess_total; assumption.
  - pose proof (hdn_nonneg w x y ltac:(lia) Hy) as Hn. destruct (highest_dword_normalized w x y) as [xh yh]. cbn [snd] in Hn.
    apply lehmer_guess_dword_total; assumption.
Qed.

(** * a unimodular step preserves the gcd *)
Lemma gcd_unimodular : forall a b c d x y, a * d - b * c = 1 ->
  Z.gcd (a * x - b * y) (d * y - c * x) = Z.gcd x y.
Proof.
  intros a b c d x y Hdet. set (x' := a * x - b * y). set (y' := d * y - c * x).
  assert (x = d * x' + b * y') as Ex.
  { unfold x', y'. replace (d * (a * x - b * y) + b * (d * y - c * x)) with ((a * d - b * c) * x) by ring. rewrite Hdet. ring. }
  assert (y = c * x' + a * y') as Ey.
  { unfold x', y'. replace (c * (a * x - b * y) + a * (d * y - c * x)) with ((a * d - b * c) * y) by ring. rewrite Hdet. ring. }
  apply Z.divide_antisym_nonneg; try apply Z.gcd_nonneg.
  - apply Z.gcd_greatest.
    + rewrite Ex. apply Z.divide_add_r; apply Z.divide_mul_r; [apply Z.gcd_divide_l|apply Z.gcd_divide_r].
    + rewrite Ey. apply Z.divide_add_r; apply Z.divide_mul_r; [apply Z.gcd_divide_l|apply Z.gcd_divide_r].
  - apply Z.gcd_greatest.
    + unfold x'. apply Z.divide_sub_r; apply Z.divide_mul_r; [apply Z.gcd_divide_l|apply Z.gcd_divide_r].
    + unfold y'. apply Z.divide_sub_r; apply Z.divide_mul_r; [apply Z.gcd_divide_r|apply Z.gcd_divide_l].
Qed.

(** * one iteration of the main loops *)
Lemma lehmer_iter_euclid : forall mdl w x y q r, lehmer_iter mdl w x y = Ok (StEuclid q r) -> q = x / y /\ r = x mod y.
Proof.
  intros mdl w x y q r. unfold lehmer_iter.
  destruct (lehmer_guess_for mdl w x y) as [[[[a b] c] d]|?|?|]; cbn [rbind]; try discriminate.
  destruct (b =? 0); [intros E; injection E as <- <-; auto|].
  destruct (_ || _); discriminate.
Qed.

Lemma lehmer_iter_lehmer : forall mdl w x y a b c d x' y', 2 <= w -> 0 <= y ->
  lehmer_iter mdl w x y = Ok (StLehmer a b c d x' y') ->
  ginv (coeff_limit w) a b c d /\ 1 <= b /\ x' = a * x - b * y /\ y' = d * y - c * x /\ 0 <= x' /\ 0 <= y'.
Proof.
  intros mdl w x y a b c d x' y' Hw Hy. unfold lehmer_iter.
  destruct (lehmer_guess_for mdl w x y) as [[[[a0 b0] c0] d0]|?|?|] eqn:G; cbn [rbind]; try discriminate.
  pose proof (lehmer_guess_for_inv _ _ _ _ _ _ _ _ Hw Hy G) as I.
  destruct (Z.eqb_spec b0 0); [discriminate|].
  destruct (Z.ltb_spec (a0 * x - b0 * y) 0); [discriminate|].
  destruct (Z.ltb_spec (d0 * y - c0 * x) 0); [discriminate|]. cbn [orb].
  intros E. injection E as <- <- <- <- <- <-. destruct I as [? [? ?]]. repeat split; try lia; tauto.
Qed.

Lemma lehmer_iter_total : forall mdl w x y, 2 <= w -> 0 <= y -> lehmer_iter mdl w x y <> OutOfFuel.
Proof.
  intros mdl w x y Hw Hy. unfold lehmer_iter. pose proof (lehmer_guess_for_total mdl w x y Hw Hy) as T.
  destruct (lehmer_guess_for mdl w x y) as [[[[a b] c] d]|?|?|]; cbn [rbind]; try discriminate; [|congruence].
  destruct (b =? 0); [discriminate|]. destruct (_ || _); discriminate.
Qed.

Lemma wlen_pos_nonzero : forall w y ml, 0 <= ml -> wlen w y <=? ml = false -> y <> 0.
Proof. intros w y ml Hml H e. subst y. unfold wlen in H. cbn in H. apply Z.leb_gt in H. lia. Qed.

(** * gcd_in_place: the loop keeps the gcd; [x + y] strictly decreases *)
Lemma lehmer_loop_inv : forall fuel mdl w ml x y sw x' y' sw', 2 <= w -> 0 <= ml -> 0 <= x -> 0 <= y ->
  lehmer_loop fuel mdl w ml x y sw = Ok (x', y', sw') ->
  Z.gcd x' y' = Z.gcd x y /\ 0 <= x' /\ 0 <= y'.
Proof.
  induction fuel as [|k IH]; intros mdl w ml x y sw x' y' sw' Hw Hml Hx Hy; [discriminate|].
  cbn [lehmer_loop]. destruct (wlen w y <=? ml) eqn:Hl; [intros E; injection E as <- <- <-; auto|].
  pose proof (wlen_pos_nonzero _ _ _ Hml Hl) as Hy0.
  destruct (lehmer_iter mdl w x y) as [[q r|a b c d x1 y1]|?|?|] eqn:It; try discriminate.
  - destruct (lehmer_iter_euclid _ _ _ _ _ _ It) as [-> ->].
    pose proof (Z.mod_pos_bound x y ltac:(lia)) as Hm.
    intros E. destruct (IH _ _ _ _ _ _ _ _ _ Hw Hml Hy (proj1 Hm) E) as [G [P1 P2]].
    split; [|auto]. rewrite G, Z.gcd_comm, Z.gcd_mod by exact Hy0. apply Z.gcd_comm.
  - destruct (lehmer_iter_lehmer _ _ _ _ _ _ _ _ _ _ Hw Hy It) as [I [Hb [Ex [Ey [Px Py]]]]].
    assert (Z.gcd x1 y1 = Z.gcd x y) as G1 by (rewrite Ex, Ey; apply gcd_unimodular; apply I).
    destruct (x1 <=? y1); intros E.
    + destruct (IH _ _ _ _ _ _ _ _ _ Hw Hml Py Px E) as [G [P1 P2]]. split; [|auto]. rewrite G, Z.gcd_comm. exact G1.
    + destruct (IH _ _ _ _ _ _ _ _ _ Hw Hml Px Py E) as [G [P1 P2]]. split; [|auto]. rewrite G. exact G1.
Qed.

(** the sum of the pair strictly decreases: fuel x + y + 1 is always enough *)
Lemma lehmer_step_sum : forall L a b c d x y, ginv L a b c d -> 1 <= b ->
  0 <= a * x - b * y -> 0 <= d * y - c * x -> (a * x - b * y) + (d * y - c * x) <= x.
Proof.
  intros L a b c d x y [Ga [Gb [Gc [Gd Gdet]]]] Hb Hx Hy. set (x' := a * x - b * y) in *. set (y' := d * y - c * x) in *.
  assert (x = d * x' + b * y') as Ex.
  { unfold x', y'. replace (d * (a * x - b * y) + b * (d * y - c * x)) with ((a * d - b * c) * x) by ring. rewrite Gdet. ring. }
  assert (1 <= d).
  { destruct (Z.eq_dec d 0) as [e|e]; [|lia]. rewrite e in Gdet. assert (0 <= b * c) by (apply Z.mul_nonneg_nonneg; lia). lia. }
  assert (1 * x' <= d * x') by (apply Z.mul_le_mono_nonneg_r; lia).
  assert (1 * y' <= b * y') by (apply Z.mul_le_mono_nonneg_r; lia). lia.
Qed.

Theorem lehmer_loop_total : forall fuel mdl w ml x y sw, 2 <= w -> 0 <= ml -> 0 <= y <= x ->
  x + y < Z.of_nat fuel -> lehmer_loop fuel mdl w ml x y sw <> OutOfFuel.
Proof.
  induction fuel as [|k IH]; intros mdl w ml x y sw Hw Hml [Hy Hyx] Hf; [lia|].
  cbn [lehmer_loop]. destruct (wlen w y <=? ml) eqn:Hl; [discriminate|].
  pose proof (wlen_pos_nonzero _ _ _ Hml Hl) as Hy0.
  pose proof (lehmer_iter_total mdl w x y Hw Hy) as T.
  destruct (lehmer_iter mdl w x y) as [[q r|a b c d x1 y1]|?|?|] eqn:It; try discriminate; [| |congruence].
  - destruct (lehmer_iter_euclid _ _ _ _ _ _ It) as [-> ->].
    pose proof (Z.mod_pos_bound x y ltac:(lia)) as Hm.
    assert (1 <= x / y) by (apply Z.div_le_lower_bound; lia).
    assert (x mod y <= x - y) by (rewrite Z.mod_eq by lia; assert (y * 1 <= y * (x / y)) by (apply Z.mul_le_mono_nonneg_l; lia); lia).
    apply IH; lia.
  - destruct (lehmer_iter_lehmer _ _ _ _ _ _ _ _ _ _ Hw Hy It) as [I [Hb [Ex [Ey [Px Py]]]]].
    pose proof (lehmer_step_sum _ _ _ _ _ x y I Hb ltac:(lia) ltac:(lia)) as Hs. rewrite <- Ex, <- Ey in Hs.
    destruct (Z.leb_spec x1 y1); apply IH; lia.
Qed.

(** * gcd_large: the answer is the gcd *)
Theorem gcd_in_place_gen_correct : forall lf pf mdl w lhs rhs g sw, 2 <= w -> 0 <= rhs ->
  gcd_in_place_gen lf pf mdl w lhs rhs = Ok (g, sw) -> g = Z.gcd lhs rhs.
Proof.
  intros lf pf mdl w lhs rhs g sw Hw Hr. unfold gcd_in_place_gen. destruct (Z.ltb_spec lhs rhs); [discriminate|].
  destruct (lehmer_loop lf mdl w 2 lhs rhs false) as [[[x y] s]|?|?|] eqn:E; cbn [rbind]; try discriminate.
  assert (0 <= 2) as H02 by lia. assert (0 <= lhs) as Hl0 by lia.
  destruct (lehmer_loop_inv _ _ _ _ _ _ _ _ _ _ Hw H02 Hl0 Hr E) as [G [Px Py]].
  destruct (Z.eqb_spec y 0) as [e|e].
  - intros E2. injection E2 as <- <-. rewrite <- G, e, Z.gcd_0_r, Z.abs_eq; lia.
  - pose proof (Z.mod_pos_bound x y ltac:(lia)) as Hm.
    assert (forall bits g0, prim_gcd_asis pf bits (x mod y) y = Ok g0 -> g0 = Z.gcd lhs rhs) as P.
    { intros bits g0 Eg. pose proof (prim_gcd_asis_correct _ _ _ _ _ (proj1 Hm) Py Eg) as Sp. unfold gcd_spec in Sp.
      destruct (_ && _); [discriminate|]. injection Sp as <-. rewrite <- G. rewrite Z.gcd_mod by exact e. apply Z.gcd_comm. }
    destruct (_ =? 0).
    + destruct (prim_gcd_asis pf w (x mod y) y) eqn:Eg; cbn [rbind]; try discriminate.
      intros E2. injection E2 as <- <-. eapply P; eassumption.
    + destruct (prim_gcd_asis pf (2 * w) (x mod y) y) eqn:Eg; cbn [rbind]; try discriminate.
      intros E2. injection E2 as <- <-. eapply P; eassumption.
Qed.

Theorem lehmer_gcd_gen_correct : forall lf pf mdl w a b g, 2 <= w -> 0 <= a -> 0 <= b ->
  lehmer_gcd_gen lf pf mdl w a b = Ok g -> g = Z.gcd a b.
Proof.
  intros lf pf mdl w a b g Hw Ha Hb. unfold lehmer_gcd_gen. destruct (Z.eqb_spec a b) as [e|e].
  - intros E. injection E as <-. subst b. rewrite Z.gcd_diag, Z.abs_eq; lia.
  - destruct (Z.ltb_spec b a).
    + destruct (gcd_in_place_gen lf pf mdl w a b) as [[g0 sw]|?|?|] eqn:E; cbn [rbind]; try discriminate.
      intros E2. injection E2 as <-. cbn [fst]. eapply gcd_in_place_gen_correct; eassumption.
    + destruct (gcd_in_place_gen lf pf mdl w b a) as [[g0 sw]|?|?|] eqn:E; cbn [rbind]; try discriminate.
      intros E2. injection E2 as <-. cbn [fst]. rewrite Z.gcd_comm. eapply gcd_in_place_gen_correct; eassumption.
Qed.

(** * the cofactors returned by the primitive extended gcd have opposite signs (or one is zero) *)
Lemma euclid_ext_signs : forall fuel lr r ls s lt t g cs ct sg, 0 < r -> 0 <= lr -> (sg = 1 \/ sg = -1) ->
  0 <= sg * ls -> sg * s <= 0 -> sg * lt <= 0 -> 0 <= sg * t ->
  euclid_ext fuel lr r ls s lt t = Ok (g, cs, ct) -> cs * ct <= 0.
Proof.
  induction fuel as [|k IH]; intros lr r ls s lt t g cs ct sg Hr Hlr Hsg H1 H2 H3 H4; [discriminate|].
  cbn [euclid_ext]. cbv zeta.
  assert (0 <= lr / r) as Hq by (apply Z.div_pos; lia). set (quo := lr / r) in *.
  pose proof (Z.mod_pos_bound lr r Hr) as Hm. rewrite Z.mod_eq in Hm by lia. fold quo in Hm.
  replace (lr - quo * r) with (lr - r * quo) by ring.
  destruct (Z.eqb_spec (lr - r * quo) 0) as [e|e].
  - intros E. injection E as <- <- <-. destruct Hsg as [-> | ->].
    + apply Z.mul_nonpos_nonneg; lia.
    + rewrite Z.mul_comm. apply Z.mul_nonpos_nonneg; lia.
  - destruct Hsg as [-> | ->].
    + assert (quo * s <= 0) by (apply Z.mul_nonneg_nonpos; lia).
      assert (0 <= quo * t) by (apply Z.mul_nonneg_nonneg; lia).
      apply (IH _ _ _ _ _ _ _ _ _ (-1)); lia.
    + assert (0 <= quo * s) by (apply Z.mul_nonneg_nonneg; lia).
      assert (quo * t <= 0) by (apply Z.mul_nonneg_nonpos; lia).
      apply (IH _ _ _ _ _ _ _ _ _ 1); lia.
Qed.

Lemma prim_gcd_ext_signs : forall fuel a b g s t, 0 <= a -> 0 <= b ->
  prim_gcd_ext_asis fuel a b = Ok (g, s, t) -> s * t <= 0.
Proof.
  intros fuel a b g s t Ha Hb H. unfold prim_gcd_ext_asis in H.
  destruct (Z.eqb_spec a 0) as [A0|A0]; destruct (Z.eqb_spec b 0) as [B0|B0]; cbn [andb] in H; try discriminate.
  - injection H as <- <- <-. lia.
  - injection H as <- <- <-. lia.
  - assert (0 < a) as Pa by lia. assert (0 < b) as Pb by lia.
    pose proof (tz_lor a b Pa Pb) as TL. destruct (strip2_spec a Pa) as [_ [_ [_ Ta]]]. destruct (strip2_spec b Pb) as [_ [_ [_ Tb]]].
    set (sh := tz (Z.lor a b)) in *.
    destruct (pow2_tz_divides a sh Pa ltac:(lia)) as [Ea Pa1]. destruct (pow2_tz_divides b sh Pb ltac:(lia)) as [Eb Pb1].
    set (a1 := a / 2 ^ sh) in *. set (b1 := b / 2 ^ sh) in *.
    destruct (Z.leb_spec b1 a1) as [L|L].
    + destruct (Z.eqb_spec b1 1) as [B1|B1]; [injection H as <- <- <-; lia|].
      destruct (euclid_ext fuel a1 b1 1 0 0 1) as [[[g1 ca] cb]| | |] eqn:E; cbn [rbind] in H; try discriminate.
      injection H as <- <- <-. apply (euclid_ext_signs _ _ _ _ _ _ _ _ _ _ 1) in E; lia.
    + destruct (Z.eqb_spec a1 1) as [A1|A1]; [injection H as <- <- <-; lia|].
      destruct (euclid_ext fuel b1 a1 1 0 0 1) as [[[g1 cb] ca]| | |] eqn:E; cbn [rbind] in H; try discriminate.
      injection H as <- <- <-. apply (euclid_ext_signs _ _ _ _ _ _ _ _ _ _ 1) in E; lia.
Qed.

(** * gcd_ext_in_place: x and y stay congruent to -+t0*rhs, +-t1*rhs modulo lhs *)
Definition sg (sw : bool) : Z := if sw then 1 else -1.
Lemma sg_negb : forall sw, sg (negb sw) = - sg sw. Proof. destruct sw; reflexivity. Qed.

Definition einv (lhs rhs x y t0 t1 : Z) (sw : bool) : Prop :=
  0 <= x /\ 0 <= y /\ Z.gcd x y = Z.gcd lhs rhs /\
  (lhs | x - sg sw * t0 * rhs) /\ (lhs | y + sg sw * t1 * rhs).

Lemma einv_euclid : forall lhs rhs x y t0 t1 sw, y <> 0 -> einv lhs rhs x y t0 t1 sw ->
  einv lhs rhs y (x mod y) t1 (t0 + x / y * t1) (negb sw).
Proof.
  intros lhs rhs x y t0 t1 sw Hy [Px [Py [G [D1 D2]]]]. pose proof (Z.mod_pos_bound x y ltac:(lia)) as Hm.
  unfold einv. rewrite sg_negb. split; [lia|]. split; [lia|]. split; [|split].
  - rewrite <- G, Z.gcd_comm, Z.gcd_mod by exact Hy. apply Z.gcd_comm.
  - replace (y - - sg sw * t1 * rhs) with (y + sg sw * t1 * rhs) by ring. exact D2.
  - rewrite Z.mod_eq by exact Hy. set (q := x / y).
    replace (x - y * q + - sg sw * (t0 + q * t1) * rhs) with ((x - sg sw * t0 * rhs) - q * (y + sg sw * t1 * rhs)) by ring.
    apply Z.divide_sub_r; [exact D1 | apply Z.divide_mul_r; exact D2].
Qed.

Lemma einv_lehmer : forall lhs rhs x y t0 t1 sw a b c d, a * d - b * c = 1 ->
  0 <= a * x - b * y -> 0 <= d * y - c * x -> einv lhs rhs x y t0 t1 sw ->
  einv lhs rhs (a * x - b * y) (d * y - c * x) (a * t0 + b * t1) (c * t0 + d * t1) sw.
Proof.
  intros lhs rhs x y t0 t1 sw a b c d Hdet Hx' Hy' [Px [Py [G [D1 D2]]]].
  unfold einv. split; [exact Hx'|]. split; [exact Hy'|]. split; [|split].
  - rewrite <- G. apply gcd_unimodular. exact Hdet.
  - replace (a * x - b * y - sg sw * (a * t0 + b * t1) * rhs) with (a * (x - sg sw * t0 * rhs) - b * (y + sg sw * t1 * rhs)) by ring.
    apply Z.divide_sub_r; apply Z.divide_mul_r; assumption.
  - replace (d * y - c * x + sg sw * (c * t0 + d * t1) * rhs) with (d * (y + sg sw * t1 * rhs) - c * (x - sg sw * t0 * rhs)) by ring.
    apply Z.divide_sub_r; apply Z.divide_mul_r; assumption.
Qed.

Lemma einv_swap : forall lhs rhs x y t0 t1 sw, einv lhs rhs x y t0 t1 sw -> einv lhs rhs y x t1 t0 (negb sw).
Proof.
  intros lhs rhs x y t0 t1 sw [Px [Py [G [D1 D2]]]]. unfold einv. rewrite sg_negb.
  split; [exact Py|]. split; [exact Px|]. split; [rewrite Z.gcd_comm; exact G|]. split.
  - replace (y - - sg sw * t1 * rhs) with (y + sg sw * t1 * rhs) by ring. exact D2.
  - replace (x + - sg sw * t0 * rhs) with (x - sg sw * t0 * rhs) by ring. exact D1.
Qed.

Lemma lehmer_ext_loop_inv : forall fuel mdl w cap lhs rhs x y t0 t1 sw x' y' t0' t1' sw', 2 <= w ->
  einv lhs rhs x y t0 t1 sw ->
  lehmer_ext_loop fuel mdl w cap x y t0 t1 sw = Ok (x', y', t0', t1', sw') ->
  einv lhs rhs x' y' t0' t1' sw'.
Proof.
  induction fuel as [|k IH]; intros mdl w cap lhs rhs x y t0 t1 sw x' y' t0' t1' sw' Hw I; [discriminate|].
  cbn [lehmer_ext_loop]. destruct (wlen w y <=? 1) eqn:Hl; [intros E; injection E as <- <- <- <- <-; exact I|].
  pose proof (wlen_pos_nonzero _ _ 1 ltac:(lia) Hl) as Hy0.
  assert (0 <= y) as Py by apply I.
  destruct (lehmer_iter mdl w x y) as [[q r|a b c d x1 y1]|?|?|] eqn:It; try discriminate.
  - destruct (lehmer_iter_euclid _ _ _ _ _ _ It) as [-> ->].
    destruct (_ <? _); [discriminate|]. apply IH; [exact Hw|]. apply einv_euclid; assumption.
  - destruct (lehmer_iter_lehmer _ _ _ _ _ _ _ _ _ _ Hw Py It) as [G [Hb [Ex [Ey [Px1 Py1]]]]].
    assert (einv lhs rhs x1 y1 (a * t0 + b * t1) (c * t0 + d * t1) sw) as I1.
    { rewrite Ex, Ey. apply einv_lehmer; try (rewrite <- ?Ex, <- ?Ey; assumption). apply G. }
    destruct (_ || _); [discriminate|].
    destruct (x1 <=? y1); apply IH; try exact Hw; [apply einv_swap|]; exact I1.
Qed.

Theorem lehmer_ext_loop_total : forall fuel mdl w cap x y t0 t1 sw, 2 <= w -> 0 <= y <= x ->
  x + y < Z.of_nat fuel -> lehmer_ext_loop fuel mdl w cap x y t0 t1 sw <> OutOfFuel.
Proof.
  induction fuel as [|k IH]; intros mdl w cap x y t0 t1 sw Hw [Hy Hyx] Hf; [lia|].
  cbn [lehmer_ext_loop]. destruct (wlen w y <=? 1) eqn:Hl; [discriminate|].
  pose proof (wlen_pos_nonzero _ _ 1 ltac:(lia) Hl) as Hy0.
  pose proof (lehmer_iter_total mdl w x y Hw Hy) as T.
  destruct (lehmer_iter mdl w x y) as [[q r|a b c d x1 y1]|?|?|] eqn:It; try discriminate; [| |congruence].
  - destruct (lehmer_iter_euclid _ _ _ _ _ _ It) as [-> ->].
    pose proof (Z.mod_pos_bound x y ltac:(lia)) as Hm.
    assert (1 <= x / y) by (apply Z.div_le_lower_bound; lia).
    assert (x mod y <= x - y) by (rewrite Z.mod_eq by lia; assert (y * 1 <= y * (x / y)) by (apply Z.mul_le_mono_nonneg_l; lia); lia).
    destruct (_ <? _); [discriminate|]. apply IH; lia.
  - destruct (lehmer_iter_lehmer _ _ _ _ _ _ _ _ _ _ Hw Hy It) as [I [Hb [Ex [Ey [Px Py]]]]].
    pose proof (lehmer_step_sum _ _ _ _ _ x y I Hb ltac:(lia) ltac:(lia)) as Hs. rewrite <- Ex, <- Ey in Hs.
    destruct (_ || _); [discriminate|].
    destruct (Z.leb_spec x1 y1); apply IH; lia.
Qed.

(** * the ending of gcd_ext_in_place: g = gcd and g = b * rhs (mod lhs), b = +-|b| *)
Lemma signed_sg : forall sw m, signed (sign_of_swapped sw) m = sg sw * m.
Proof. destruct sw; intros; unfold signed, sign_of_swapped, sg; cbn; lia. Qed.

Theorem gcd_ext_in_place_gen_correct : forall lf pf mdl w lhs rhs g bm bs, 2 <= w -> 0 <= rhs ->
  gcd_ext_in_place_gen true lf pf mdl w lhs rhs = Ok (g, bm, bs) ->
  g = Z.gcd lhs rhs /\ (lhs | g - signed bs bm * rhs).
Proof.
  intros lf pf mdl w lhs rhs g bm bs Hw Hr. unfold gcd_ext_in_place_gen. destruct (Z.ltb_spec lhs rhs); [discriminate|].
  assert (einv lhs rhs lhs rhs 0 1 false) as I0.
  { unfold einv, sg. split; [lia|]. split; [lia|]. split; [reflexivity|]. split.
    - replace (lhs - -1 * 0 * rhs) with (lhs * 1) by ring. apply Z.divide_factor_l.
    - replace (rhs + -1 * 1 * rhs) with 0 by ring. apply Z.divide_0_r. }
  destruct (lehmer_ext_loop _ _ _ _ lhs rhs 0 1 false) as [[[[[x y] t0] t1] sw]|?|?|] eqn:E; cbn [rbind]; try discriminate.
  pose proof (lehmer_ext_loop_inv _ _ _ _ _ _ _ _ _ _ _ _ _ _ _ _ Hw I0 E) as [Px [Py [G [D1 D2]]]].
  destruct (Z.eqb_spec y 0) as [e|e].
  - destruct (_ <? _); [discriminate|]. intros E2. injection E2 as <- <- <-. split.
    + rewrite <- G, e, Z.gcd_0_r, Z.abs_eq; lia.
    + rewrite signed_sg. exact D1.
  - destruct (_ <? _); [discriminate|]. destruct (_ <=? _); [discriminate|].
    pose proof (Z.mod_pos_bound x y ltac:(lia)) as Hm.
    destruct (prim_gcd_ext_asis pf (x mod y) y) as [[[g0 cx] cy]|?|?|] eqn:Eg; cbn [rbind]; try discriminate.
    destruct (_ <=? _); [discriminate|]. intros E2. injection E2 as <- <- <-.
    pose proof (prim_gcd_ext_asis_correct _ _ _ _ _ _ (proj1 Hm) Py Eg) as Cert.
    destruct (gcd_ext_cert_complete _ _ _ _ _ Cert) as [Eg0 Bz].
    pose proof (prim_gcd_ext_signs _ _ _ _ _ _ (proj1 Hm) Py Eg) as Sg.
    split.
    + rewrite Eg0, <- G. rewrite Z.gcd_mod by exact e. apply Z.gcd_comm.
    + (* congruence *)
      set (q := x / y) in *. set (t0' := t0 + q * t1) in *.
      assert (lhs | x mod y - sg sw * t0' * rhs) as D1'.
      { rewrite Z.mod_eq by exact e. fold q. unfold t0'.
        replace (x - y * q - sg sw * (t0 + q * t1) * rhs) with ((x - sg sw * t0 * rhs) - q * (y + sg sw * t1 * rhs)) by ring.
        apply Z.divide_sub_r; [exact D1 | apply Z.divide_mul_r; exact D2]. }
      rewrite signed_sg.
      assert (sg (xorb sw (ext_sign_flip true cx cy)) * (Z.abs cx * t0' + Z.abs cy * t1) = sg sw * (cx * t0' - cy * t1)) as Eb.
      { unfold ext_sign_flip.
        destruct (Z.ltb_spec cx 0) as [Cn|Cp]; cbn [orb].
        - assert (0 <= cy).
          { destruct (Z.lt_ge_cases cy 0); [exfalso|lia]. assert (0 < cx * cy) by (apply Z.mul_neg_neg; lia). lia. }
          replace (xorb sw true) with (negb sw) by (destruct sw; reflexivity). rewrite sg_negb.
          rewrite (Z.abs_neq cx), (Z.abs_eq cy) by lia. ring.
        - destruct (Z.eqb_spec cx 0) as [C0|C0]; cbn [andb].
          + subst cx. destruct (Z.ltb_spec 0 cy).
            * replace (xorb sw true) with (negb sw) by (destruct sw; reflexivity). rewrite sg_negb.
              rewrite (Z.abs_eq cy) by lia. cbn [Z.abs]. ring.
            * replace (xorb sw false) with sw by (destruct sw; reflexivity).
              rewrite (Z.abs_neq cy) by lia. cbn [Z.abs]. ring.
          + assert (cy <= 0).
            { destruct (Z.lt_ge_cases 0 cy); [exfalso|lia]. assert (0 < cx * cy) by (apply Z.mul_pos_pos; lia). lia. }
            replace (xorb sw false) with sw by (destruct sw; reflexivity).
            rewrite (Z.abs_eq cx), (Z.abs_neq cy) by lia. ring. }
      change ((cx <? 0) || (cx =? 0) && (0 <? cy)) with (ext_sign_flip true cx cy). rewrite Eb. rewrite <- Bz.
      replace (cx * (x mod y) + cy * y - sg sw * (cx * t0' - cy * t1) * rhs)
        with (cx * (x mod y - sg sw * t0' * rhs) + cy * (y + sg sw * t1 * rhs)) by ring.
      apply Z.divide_add_r; apply Z.divide_mul_r; assumption.
Qed.

(** * gcd_ext_large: (g, s, t) with g = gcd(x, y) = s*x + t*y *)
Theorem lehmer_gcd_ext_gen_correct : forall lf pf mdl w x y g s t, 2 <= w -> 0 <= x -> 0 <= y ->
  lehmer_gcd_ext_gen true lf pf mdl w x y = Ok (g, s, t) -> g = Z.gcd x y /\ s * x + t * y = g.
Proof.
  intros lf pf mdl w x y g s t Hw Hx Hy. unfold lehmer_gcd_ext_gen.
  destruct (Z.eqb_spec x y) as [e|e].
  { intros E. injection E as <- <- <-. subst y. rewrite Z.gcd_diag, Z.abs_eq by lia. lia. }
  set (swp := x <? y).
  assert (exists lhs rhs, (if swp then (y, x) else (x, y)) = (lhs, rhs) /\ 0 <= rhs < lhs /\
            Z.gcd lhs rhs = Z.gcd x y /\ (swp = true -> lhs = y /\ rhs = x) /\ (swp = false -> lhs = x /\ rhs = y))
    as [lhs [rhs [El [Hlr [Gl [Ht Hf]]]]]].
  { unfold swp. destruct (Z.ltb_spec x y).
    - exists y, x. repeat split; try lia; try discriminate. apply Z.gcd_comm.
    - exists x, y. repeat split; try lia; discriminate. }
  rewrite El.
  destruct (gcd_ext_in_place_gen true lf pf mdl w lhs rhs) as [[[g0 bm] bs]|?|?|] eqn:E; cbn [rbind]; try discriminate.
  destruct (gcd_ext_in_place_gen_correct _ _ _ _ _ _ _ _ _ Hw (proj1 Hlr) E) as [Eg D].
  set (residue := match bs with Negative => rhs * bm + g0 | Positive => rhs * bm - g0 end).
  destruct (residue <? 0); [discriminate|].
  assert (lhs | residue) as Dr.
  { unfold residue. destruct bs; unfold signed, sgnz in D.
    - replace (rhs * bm - g0) with (- (g0 - 1 * bm * rhs)) by ring. apply Z.divide_opp_r. exact D.
    - replace (rhs * bm + g0) with (g0 - -1 * bm * rhs) by ring. exact D. }
  assert (forall am, (if wlen w rhs + wlen w bm + 1 <? wlen w lhs then (if residue =? 0 then Ok 0 else Panic Undocumented)
            else if negb (residue mod lhs * 2 ^ leading_zeros w (top_word w lhs) mod 2 ^ w =? 0) then Panic Undocumented
            else Ok (residue / lhs)) = Ok am -> residue = am * lhs) as Ha.
  { intros am. destruct (wlen w rhs + wlen w bm + 1 <? wlen w lhs).
    - destruct (Z.eqb_spec residue 0); [|discriminate]. intros E2. injection E2 as <-. lia.
    - destruct (negb _); [discriminate|]. intros E2. injection E2 as <-.
      destruct Dr as [k ->]. rewrite Z.div_mul by lia. reflexivity. }
  match goal with |- rbind ?ar _ = _ -> _ => destruct ar as [am|?|?|] eqn:Ea; cbn [rbind]; try discriminate end.
  specialize (Ha am eq_refl).
  assert (signed (sign_neg bs) am * lhs + signed bs bm * rhs = g0) as Bz.
  { unfold residue in Ha. destruct bs; unfold signed, sign_neg, sgnz; lia. }
  destruct swp eqn:Es; intros E2; injection E2 as <- <- <-.
  - destruct (Ht eq_refl) as [-> ->]. split; [rewrite Eg; exact Gl|lia].
  - destruct (Hf eq_refl) as [-> ->]. split; [rewrite Eg; exact Gl|lia].
Qed.

(** the models run by the oracle *)
Theorem lehmer_gcd_asis_correct : forall fuel w x y g, 2 <= w -> 0 <= x -> 0 <= y ->
  lehmer_gcd_asis fuel w x y = Ok g -> g = Z.gcd x y.
Proof. intros fuel w x y g. apply lehmer_gcd_gen_correct. Qed.

Theorem lehmer_gcd_ext_asis_correct : forall fuel w x y g s t, 2 <= w -> 0 <= x -> 0 <= y ->
  lehmer_gcd_ext_asis fuel w x y = Ok (g, s, t) -> gcd_ext_cert x y g s t = true.
Proof.
  intros fuel w x y g s t Hw Hx Hy E. destruct (lehmer_gcd_ext_gen_correct _ _ _ _ _ _ _ _ _ Hw Hx Hy E) as [G B].
  apply mk_gcd_ext_cert; assumption.
Qed.

(** non-vacuity: three-word operands, a Lehmer step and Euclidean steps are taken *)
Example lehmer_gcd_ext_example :
  lehmer_gcd_ext_asis 100 64 (3 * (2 ^ 190 + 7)) (3 * (2 ^ 170 + 11)) =
    Ok (3, 719771309233117819383827041610838999826134039460871, -754734920350425750578215823984127115081688326561716722320).
Proof. vm_compute. reflexivity. Qed.
