(** C02 round 4 - debug assertions must not carry side effects.  coq/gen/DivAssertsGen.v lists every debug_assert*! of
    integer/src/{div/*.rs, div_const.rs, div_ops.rs, mul/*.rs} (regenerated on every run) with a flag "the argument contains a call
    that writes through a slice / buffer".  Such an assertion is only admissible in the form of the crate's own
    debug_assert_zero!, whose definition (helper_macros.rs) evaluates the argument OUTSIDE the debug_assert and therefore in
    every build; a plain debug_assert!/debug_assert_eq! would drop the operation when debug assertions are off (release builds).
    Finite table: decided by computation. *)
From Coq Require Import String List Bool.
From DashuGen Require Import DivAssertsGen.
Import ListNotations.

Definition assert_row_ok (r : string * nat * assert_macro * bool) : bool :=
  let '(_, _, m, eff) := r in
  if eff then match m with MDebugAssertZero => debug_assert_zero_always_evaluates | _ => false end else true.

Theorem div_asserts_no_lost_side_effect : forallb assert_row_ok debug_asserts_gen = true.
Proof. vm_compute. reflexivity. Qed.

(** non-vacuity: the list is not empty and does contain assertions with side effects (the un-normalising shifts among them) *)
Example div_asserts_nonvacuous :
  andb (Nat.leb 10 (length (filter (fun r => snd r) debug_asserts_gen))) (Nat.leb 50 (length debug_asserts_gen)) = true.
Proof. vm_compute. reflexivity. Qed.
