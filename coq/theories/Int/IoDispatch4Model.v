(** C07 (round 4): the converters of IoModel.v with every DISPATCH decision (which path for which radix /
    length / representation, the loop conditions and split points of the divide-and-conquer parser, the
    length shortcut of the printer's squaring loop, the width formula of the power-of-two printer) read
    from coq/gen/IoDispatch4.v, i.e. from the functions tools/translate_c07_r4.py regenerates from
    parse/*.rs and fmt/*.rs on every run.  The path bodies are the ones of IoModel.v.  Definitions only
    (IoDispatch4Proofs.v proves them equal to the hand transcription and hence to the specification). *)
From Dashu Require Import Base.Prelude Base.Words Int.IoSpec Int.IoModel.
From DashuGen Require Import Params IoDispatch4.
Open Scope Z_scope.

Section Dispatch.
Variable w : Z.

(* ---- parser ---- *)
Fixpoint parse_dc_gen (r chunk_bytes : Z) (ps : list Z) (s : list Z) : result Z :=
  match ps with
  | [] => parse_chunk w r s
  | p :: rest =>
    let lo_len := gen4_parse_dc_lo_len chunk_bytes (len rest) in
    if gen4_parse_dc_direct (len s) lo_len then parse_dc_gen r chunk_bytes rest s
    else
      let k := Z.to_nat (len s - lo_len) in
      rbind (parse_dc_gen r chunk_bytes rest (firstn k s)) (fun hi =>
      rbind (parse_dc_gen r chunk_bytes rest (skipn k s)) (fun lo => Ok (hi * p + lo)))
  end.

Fixpoint parse_powers_gen (fuel : nat) (chunk_bytes n : Z) (ps : list Z) : list Z :=
  match fuel, ps with
  | S f, prev :: _ =>
    if gen4_parse_more_powers chunk_bytes n (len ps) then parse_powers_gen f chunk_bytes n (prev * prev :: ps) else ps
  | _, _ => ps
  end.

Definition parse_large_np2_gen (r : Z) (s : list Z) : result Z :=
  let '(dpw, R) := radix_info w r in
  let chunk_bytes := gen4_parse_chunk_bytes dpw in
  parse_dc_gen r chunk_bytes (parse_powers_gen (Z.to_nat (blen (len s))) chunk_bytes (len s) [R ^ gen4_parse_chunk_len]) s.

Definition parse_np2_gen (r : Z) (s : list Z) : result Z :=
  let '(dpw, R) := radix_info w r in
  let bytes := if existsb (fun c => c =? 95) s then filter (fun c => negb (c =? 95)) s else s in
  let path := gen4_parse_np2_path (len bytes) dpw in
  if path =? 0 then parse_word_np2 r bytes
  else if path =? 1 then parse_chunk w r bytes
  else parse_large_np2_gen r bytes.

Definition parse_p2_gen (r : Z) (s : list Z) : result Z :=
  let lr := log_radix r in
  if gen4_parse_p2_path (len s) w lr =? 0 then p2_parse_word w r lr (rev_fast s) 0 0
  else rmap (value w) (p2_parse_large w r lr (rev_fast s) [] 0 0).

Definition body_gen (r : Z) (s : list Z) : result Z :=
  if forallb (fun c => c =? 95) s then Err E_NoDigits
  else let s' := strip_zeros s in
       if gen4_parse_route (is_pow2 r) =? 0 then parse_p2_gen r s' else parse_np2_gen r s'.

(* ---- printer ---- *)
Fixpoint fmt_powers_gen (fuel : nat) (x : Z) (ps : list Z) : list Z :=
  match fuel, ps with
  | S f, prev :: _ =>
    if gen4_fmt_sq_stop (wlen w prev) (wlen w x) then ps
    else let new := prev * prev in if new >? x then ps else fmt_powers_gen f x (new :: ps)
  | _, _ => ps
  end.

Definition prepared_large_gen (r x : Z) : list Z :=
  let '(dpw, R) := radix_info w r in
  let chunk_power := R ^ gen4_fmt_chunk_len in
  if chunk_power >? x then prepared_medium w r x
  else large_split w r (fmt_powers_gen (Z.to_nat (blen x)) x [chunk_power]) true x [].

Definition digits_np2_gen (r x : Z) : list Z :=
  let '(dpw, R) := radix_info w r in
  let path := gen4_fmt_np2_path (x <? Bw w * Bw w) (x <? Bw w) (wlen w x) dpw in
  if path =? 0 then prepared_word w r x 1
  else if path =? 1 then prepared_dword w r x
  else if path =? 2 then prepared_medium w r x
  else prepared_large_gen r x.

(** PreparedWord / PreparedDword of fmt/power_two.rs share one formula in IoModel (p2_small_digits) *)
Definition p2_small_digits_gen (lr x : Z) : list Z :=
  rev (map (fun i => (x / 2 ^ (Z.of_nat i * lr)) mod 2 ^ lr) (seq 0 (Z.to_nat (gen4_p2_width (blen x) lr)))).

Definition digits_p2_gen (r x : Z) : list Z :=
  let path := gen4_fmt_p2_path (x <? Bw w * Bw w) (x <? Bw w) in
  if (path =? 0) || (path =? 1) then p2_small_digits_gen (log_radix r) x else p2_large_digits w (log_radix r) x.

Definition digits_gen (r x : Z) : list Z :=
  if gen4_fmt_route (is_pow2 r) =? 0 then digits_p2_gen r x else digits_np2_gen r x.

End Dispatch.

(* ---- layout: InRadixWriter::format_prepared as the translator's symbolic run of its output statements ---- *)
Definition align_id (a : option align) : Z :=
  match a with None => 0 | Some ALeft => 1 | Some ARight => 2 | Some ACenter => 3 end.

Definition format_prepared_gen (f : fmtflags) (neg : bool) (prefix digits : list Z) : list Z :=
  gen4_layout neg (f_plus f) (f_zero f) (align_id (f_align f)) (f_width f) (f_fill f) prefix digits.
