(** C17 (round 3) - the storage machine extended by the buffer handling of
      pow        (pow.rs: IBig::pow, TypedReprRef::pow, pow_word_base, pow_dword_base, pow_large_base)
      sqr        (mul_ops.rs: TypedReprRef::sqr, square_dword_spilled, square_large)
      gcd        (gcd_ops.rs: gcd_large_dword, gcd_large - every call form goes through the borrowed form)
      div_rem    (div_ops.rs: DivRem for TypedReprRef x TypedReprRef, div_rem_large_dword, div_rem_large)
      next_power_of_two, clear_high_bits, split_bits (bits.rs)
    DEFINITIONS ONLY (executable); proofs in StorageOps2Proofs.v.  Conventions as in StorageModel.v: every
    assert!/debug_assert!/bounds precondition is an explicit guard, word contents enter at value level.
    Additional guard codes: 17 Option::unwrap on an empty buffer (last_mut().unwrap()).

    What is NOT a guard here (value-level facts, subject of C01/C12): inside pow_large_base the
    debug_assert!(len >= 2) of mul_large / square_large on the intermediate powers (they are >= B^4);
    the Lehmer kernel gcd::gcd_in_place enters as a section variable [gk] constrained by its contract
    (the returned length is at most the length of the buffer the result is stored in). *)
From Dashu Require Import Base.Prelude Base.Words Int.StorageModel.
From DashuGen Require Import StorageGen.
Open Scope Z_scope.

Section Ops2.
Variable w : Z.
Variable M : Z.

Notation Bw := (Bw w).
Notation val := (val w).
Notation tow := (tow w).

Definition one : repr := RInline Positive 1 0 1.

(** Repr::from_ref *)
Definition from_ref (a : targ) : M_ repr :=
  match small_of a with
  | Some d => ret (from_dword w d)
  | None => b <- buffer_from M (twords a) ;; from_buffer w M b
  end.

(* ------------------------------------------------------------------ mul_ops.rs: sqr *)
Definition square_large (ws : list Z) : M_ repr :=
  let n := len ws in
  let r := gen_square_large_request n in      (* words.len() * 2, regenerated from mul_ops.rs *)
  guard 13 (2 <=? n) ;;;
  b <- allocate M r ;; b1 <- push_repeat b 0 r ;; from_buffer w M (setws b1 (tow r (val ws * val ws))).

Definition sqr_ref (a : targ) : M_ repr :=
  match small_of a with
  | Some d =>
      if d <? Bw then ret (from_dword w (d * d))
      else let p := d * d in
           b0 <- allocate M gen_square_dword_spilled_request ;; b1 <- push b0 (p mod Bw) ;; b2 <- push b1 ((p / Bw) mod Bw) ;;
           b3 <- push b2 ((p / Bw ^ 2) mod Bw) ;; b4 <- push b3 ((p / Bw ^ 3) mod Bw) ;; from_buffer w M b4
  | None => square_large (twords a)
  end.

(* ------------------------------------------------------------------ pow.rs *)
(** math::max_exp_in_word at value level: the largest k with base^k < B, and base^k *)
Fixpoint max_exp_loop (fuel : nat) (base k pw : Z) : Z * Z :=
  match fuel with
  | O => (k, pw)
  | S f => if pw * base <? Bw then max_exp_loop f base (k + 1) (pw * base) else (k, pw)
  end.
Definition max_exp_in_word (base : Z) : Z * Z := max_exp_loop (Z.to_nat w) base 1 base.

(** `res = square(res)`: tmp = memory.allocate_slice_copy(&res) - the copy must fit the first part (sc words) of the
    scratch block, guard 40; what follows in that block is the subject of ScratchModel.v (pow_square_scratch) -,
    res.fill(0), res.push_zeros(res.len()), sqr::sqr(&mut res, tmp) (debug_assert!(a.len() >= 2)) *)
Definition pow_square (sc : Z) (res : buffer) : M_ buffer :=
  let n := len (bws res) in let v := val (bws res) in
  guard 40 (n <=? sc) ;;;
  r <- push_repeat res 0 n ;; guard 13 (2 <=? n) ;;; ret (setws r (tow (2 * n) (v * v))).

(** the loop of pow_word_base from bit p down to bit 0 of the exponent *)
Fixpoint pow_word_loop (sc : Z) (p : nat) (e wbase : Z) (res : buffer) : M_ buffer :=
  res1 <- (if Z.testbit e (Z.of_nat p) then
             let n := len (bws res) in let v := val (bws res) * wbase in
             push_resizing M (setws res (tow n v)) (v / Bw ^ n)
           else ret res) ;;
  match p with
  | O => ret res1
  | S p' => r <- pow_square sc res1 ;; pow_word_loop sc p' e wbase r
  end.

Definition is_pow2 (x : Z) : bool := 2 ^ Z.log2 x =? x.

Definition pow_word_base (base e : Z) : M_ repr :=
  guard 13 (1 <? e) ;;;
  if base =? 0 then ret zero
  else if base =? 1 then ret one
  else if base =? 2 then set_bit w M (TSmall 0) e
  else if is_pow2 base then set_bit w M (TSmall 0) (e * Z.log2 base)
  else
    let wexp := fst (max_exp_in_word base) in let wbase := snd (max_exp_in_word base) in
    if e <? wexp then ret (from_word (base ^ e))
    else if e <? 2 * wexp then ret (from_dword w (wbase * base ^ (e - wexp)))
    else
      let ex := e / wexp in let er := e mod wexp in
      res <- allocate M (gen_pow_word_request ex) ;;          (* Buffer::allocate(exp + 1), regenerated from pow.rs *)
      let p := Z.log2 ex + 1 - 2 in
      guard 14 (0 <=? p) ;;;
      let sq := wbase * wbase in
      r1 <- push res (sq mod Bw) ;; r2 <- push r1 (sq / Bw) ;;
      r3 <- pow_word_loop (gen_pow_word_scratch_copy ex) (Z.to_nat p) ex wbase r2 ;;
      let n := len (bws r3) in let v := val (bws r3) * base ^ er in
      r4 <- push_resizing M (setws r3 (tow n v)) (v / Bw ^ n) ;;
      from_buffer w M r4.

Fixpoint pow_dword_loop (sc : Z) (p : nat) (e base : Z) (res : buffer) : M_ buffer :=
  res1 <- (if Z.testbit e (Z.of_nat p) then
             let n := len (bws res) in let v := val (bws res) * base in let carry := v / Bw ^ n in
             let res' := setws res (tow n v) in
             if 0 <? carry then r <- push res' (carry mod Bw) ;; push_resizing M r (carry / Bw) else ret res'
           else ret res) ;;
  match p with
  | O => ret res1
  | S p' => r <- pow_square sc res1 ;; pow_dword_loop sc p' e base r
  end.

Definition pow_dword_base (base e : Z) : M_ repr :=
  guard 13 ((1 <? e) && (Bw <=? base)) ;;;
  res <- allocate M (gen_pow_dword_request e) ;;           (* Buffer::allocate(2 * exp), regenerated from pow.rs *)
  let p := Z.log2 e + 1 - 2 in
  guard 14 (0 <=? p) ;;;
  let sq := base * base in
  r1 <- push res (sq mod Bw) ;; r2 <- push r1 ((sq / Bw) mod Bw) ;;
  r3 <- push r2 ((sq / Bw ^ 2) mod Bw) ;; r4 <- push r3 ((sq / Bw ^ 3) mod Bw) ;;
  r5 <- pow_dword_loop (gen_pow_dword_scratch_copy e) (Z.to_nat p) e base r4 ;;
  from_buffer w M r5.

(** mul_large / square_large as called by pow_large_base (see the header: no guard 13 on the intermediate powers) *)
Definition mul_large_nd (lhs rhs : list Z) : M_ repr :=
  let n := gen_mul_large_request (len lhs) (len rhs) in
  b <- allocate M n ;; b1 <- push_repeat b 0 n ;; from_buffer w M (setws b1 (tow n (val lhs * val rhs))).

Fixpoint pow_large_loop (p : nat) (e : Z) (base : list Z) (res : repr) : M_ repr :=
  res1 <- (if Z.testbit e (Z.of_nat p) then r <- mul_large_nd (rwords res) base ;; repr_drop res ;;; ret r else ret res) ;;
  match p with
  | O => ret res1
  | S p' => r <- mul_large_nd (rwords res1) (rwords res1) ;; repr_drop res1 ;;; pow_large_loop p' e base r
  end.

Definition pow_large_base (base : list Z) (e : Z) : M_ repr :=
  guard 13 (1 <? e) ;;;
  let p := Z.log2 e + 1 - 2 in
  guard 14 (0 <=? p) ;;;
  res <- square_large base ;;
  pow_large_loop (Z.to_nat p) e base res.

(** TypedReprRef::pow *)
Definition pow_ref (a : targ) (e : Z) : M_ repr :=
  if e =? 0 then ret one
  else if e =? 1 then from_ref a
  else if e =? 2 then sqr_ref a
  else match small_of a with
       | Some d => if d <? Bw then pow_word_base d e else pow_dword_base d e
       | None => pow_large_base (twords a) e
       end.

(** trailing_zeros().unwrap_or(0) of a magnitude *)
Definition tzeros (v : Z) : Z := Z.log2 (Z.land v (- v)).
Definition tvalue (a : targ) : Z := match small_of a with Some d => d | None => val (twords a) end.
(** a value as a borrowed operand *)
Definition as_ref (r : repr) : targ := typed_ref w (view_of r).

(** IBig::pow / UBig::pow on a borrowed operand: the factor 2^shift is removed first *)
Definition pow_top (s : sign) (a : targ) (e : Z) : M_ repr :=
  let sg := match s with Negative => if Z.odd e then Negative else Positive | Positive => Positive end in
  let shift := tzeros (tvalue a) in
  r <- (if shift =? 0 then pow_ref a e
        else t <- shr_mag w M a shift ;; r1 <- pow_ref (as_ref t) e ;; r2 <- shl_mag w M (typed w r1) (e * shift) ;;
             repr_drop t ;;; ret r2) ;;
  ret (with_sign r sg).

(* ------------------------------------------------------------------ gcd_ops.rs *)
(** the kernel gcd::gcd_in_place(lhs, rhs) -> (len, swapped), lhs > rhs *)
Variable gk : list Z -> list Z -> Z * bool.

Definition gcd_large_dword (ws : list Z) (d : Z) : M_ repr :=
  if d =? 0 then b <- buffer_from M ws ;; from_buffer w M b
  else let r := val ws mod d in
       if d <? Bw then ret (from_word (if r =? 0 then d else Z.gcd r d))
       else ret (from_dword w (if r =? 0 then d else Z.gcd r d)).

(** cmp::cmp_in_place: by length, then from the most significant word *)
Definition cmp_words (a b : list Z) : comparison :=
  if len a <? len b then Lt else if len b <? len a then Gt else Z.compare (val a) (val b).

Definition gcd_large (w0 w1 : list Z) : M_ repr :=
  l <- buffer_from M w0 ;; r <- buffer_from M w1 ;;
  match cmp_words w0 w1 with
  | Eq => res <- from_buffer w M l ;; drop_buffer r ;;; ret res
  | c =>
      let big := match c with Lt => r | _ => l end in
      let small := match c with Lt => l | _ => r end in
      let g := Z.gcd (val w0) (val w1) in
      let k := gk (bws big) (bws small) in
      if snd k then s1 <- truncate small (fst k) ;; res <- from_buffer w M (setws s1 (tow (fst k) g)) ;; drop_buffer big ;;; ret res
      else b1 <- truncate big (fst k) ;; res <- from_buffer w M (setws b1 (tow (fst k) g)) ;; drop_buffer small ;;; ret res
  end.

(** Gcd for every combination of owned / borrowed operands: computed on the borrowed forms, the owned
    operands are dropped afterwards.  UBig::gcd(0, 0) panics before anything is allocated. *)
Definition gcd_mag (a b : targ) : M_ outcome :=
  if (tvalue a =? 0) && (tvalue b =? 0) && (match small_of a, small_of b with Some _, Some _ => true | _, _ => false end)
  then release a ;;; release b ;;; ret (Thrown GcdZeroZero)
  else
    r <- (match small_of a, small_of b with
          | Some x, Some y => ret (from_dword w (Z.gcd x y))
          | Some x, None => gcd_large_dword (twords b) x
          | None, Some y => gcd_large_dword (twords a) y
          | None, None => gcd_large (twords a) (twords b)
          end) ;;
    release a ;;; release b ;;; ret (Done r).

(* ------------------------------------------------------------------ div_ops.rs: div_rem of two borrowed operands *)
Inductive outcome2 := Done2 (q r : repr) | Thrown2 (why : reason).

Definition div_rem_large (lhs rhs : buffer) : M_ (repr * repr) :=
  let n := len (bws rhs) in
  l1 <- div_rem_in_lhs w M lhs rhs ;;
  guard 16 (n <=? len (bws l1)) ;;;
  let rm := val (bws lhs) mod val (bws rhs) in
  l2 <- erase_front l1 n ;;
  q <- from_buffer w M l2 ;; r <- from_buffer w M (setws rhs (tow n rm)) ;; ret (q, r).

Definition div_rem_ref (a b : targ) : M_ outcome2 :=
  match small_of a, small_of b with
  | Some x, Some y => if y =? 0 then ret (Thrown2 DivideBy0) else ret (Done2 (from_dword w (x / y)) (from_dword w (x mod y)))
  | Some x, None => ret (Done2 zero (from_dword w x))
  | None, Some y =>
      bf <- buffer_from M (twords a) ;;
      if y =? 0 then drop_buffer bf ;;; ret (Thrown2 DivideBy0)
      else let v := val (twords a) in
           q <- from_buffer w M (setws bf (tow (len (bws bf)) (v / y))) ;;
           ret (Done2 q (if y <? Bw then from_word (v mod y) else from_dword w (v mod y)))
  | None, None =>
      if len (twords b) <=? len (twords a) then
        l <- buffer_from M (twords a) ;; r <- buffer_from M (twords b) ;; qr <- div_rem_large l r ;; ret (Done2 (fst qr) (snd qr))
      else b0 <- buffer_from M (twords a) ;; r <- from_buffer w M b0 ;; ret (Done2 zero r)
  end.

(* ------------------------------------------------------------------ bits.rs *)
(** u128::checked_next_power_of_two / the value of next_power_of_two *)
Definition next_pow2 (v : Z) : Z := if v <=? 1 then 1 else 2 ^ (Z.log2 (v - 1) + 1).

Definition next_power_of_two (a : targ) : M_ repr :=
  match a with
  | TSmall d | TRefSmall d =>
      if next_pow2 d <? Bw * Bw then ret (from_dword w (next_pow2 d))
      else b <- allocate M 3 ;; b1 <- push_repeat b 0 2 ;; b2 <- push b1 1 ;; from_buffer w M b2
  | TLarge b =>
      let n := len (bws b) in let np := next_pow2 (val (bws b)) in
      guard 17 (0 <? n) ;;;
      b1 <- push_resizing M (setws b (tow n np)) (np / Bw ^ n) ;; from_buffer w M b1
  | TRefLarge _ => bad 30
  end.

Definition clear_high_bits_large (b : buffer) (n : Z) : M_ repr :=
  let nw := (n + w - 1) / w in
  if nw >? len (bws b) then from_buffer w M b
  else b1 <- truncate b nw ;;
       guard 17 ((n mod w =? 0) || (0 <? len (bws b1))) ;;;
       from_buffer w M (setws b1 (tow nw (val (bws b) mod 2 ^ n))).

Definition clear_high_bits (a : targ) (n : Z) : M_ repr :=
  match a with
  | TSmall d | TRefSmall d => if n <? 2 * w then ret (from_dword w (d mod 2 ^ n)) else ret (from_dword w d)
  | TLarge b => clear_high_bits_large b n
  | TRefLarge _ => bad 30
  end.

Definition split_bits (a : targ) (n : Z) : M_ (repr * repr) :=
  match a with
  | TSmall d | TRefSmall d =>
      if n <? 2 * w then ret (from_dword w (d mod 2 ^ n), from_dword w (d / 2 ^ n)) else ret (from_dword w d, zero)
  | TLarge b =>
      if n =? 0 then r <- from_buffer w M b ;; ret (zero, r)
      else hi <- shr_large_ref w M (bws b) n ;; lo <- clear_high_bits_large b n ;; ret (lo, hi)
  | TRefLarge _ => bad 30
  end.

(* ------------------------------------------------------------------ the extended pool machine *)
Inductive op2 :=
| O1 (o : op)
| OPow (d a : nat) (e : Z)
| OSqr (d a : nat)
| OGcd (d : nat) (a b : opnd)
| ODivRem (d e : nat) (a b : nat)
| ONextPow2 (d : nat)
| OClearHigh (d : nat) (n : Z)
| OSplit (d e : nat) (a : nat) (n : Z).

Definition store_out2 (d e : nat) (o : outcome2) (pool : list repr) : M_ (list repr * option reason) :=
  match o with
  | Done2 q r => p <- store d q pool ;; p' <- store e r p ;; ret (p', None)
  | Thrown2 y => ret (pool, Some y)
  end.

Definition step2 (o : op2) (pool : list repr) : M_ (list repr * option reason) :=
  match o with
  | O1 o => step w M o pool
  | OPow d a e =>
      let '((s, x), p1) := fetch w (ByRef a) pool in
      r <- pow_top s x e ;; p <- store d r p1 ;; ret (p, None)
  | OSqr d a =>
      let '((_, x), p1) := fetch w (ByRef a) pool in
      r <- sqr_ref x ;; p <- store d r p1 ;; ret (p, None)
  | OGcd d a b =>
      let '((_, x), p1) := fetch w a pool in
      let '((_, y), p2) := fetch w b p1 in
      o <- gcd_mag x y ;; store_out d o p2
  | ODivRem d e a b =>
      let '((_, x), p1) := fetch w (ByRef a) pool in
      let '((_, y), p2) := fetch w (ByRef b) p1 in
      o <- div_rem_ref x y ;; store_out2 d e o p2
  | ONextPow2 d =>
      let '((_, x), p1) := fetch w (ByVal d) pool in
      r <- next_power_of_two x ;; p <- store d r p1 ;; ret (p, None)
  | OClearHigh d n =>
      let '((_, x), p1) := fetch w (ByVal d) pool in
      r <- clear_high_bits x n ;; p <- store d r p1 ;; ret (p, None)
  | OSplit d e a n =>
      let '((_, x), p1) := fetch w (ByVal a) pool in
      lh <- split_bits x n ;; p <- store d (fst lh) p1 ;; p' <- store e (snd lh) p ;; ret (p', None)
  end.

Fixpoint run2 (ops : list op2) (pool : list repr) : M_ (list repr) :=
  match ops with
  | [] => ret pool
  | o :: rest => pr <- step2 o pool ;; run2 rest (fst pr)
  end.

End Ops2.

(** the instance of the gcd kernel used for execution: the length of the normalized gcd (clamped to the
    buffer the result is stored in - the contract), the side given by the caller *)
Definition gk_inst (w : Z) (sw : bool) (big small : list Z) : Z * bool :=
  (Z.min (nwords_of w (Z.gcd (Words.value w big) (Words.value w small))) (len (if sw then small else big)), sw).
