(** C12 round 4 - the word loops of lehmer_step / lehmer_ext_step (integer/src/gcd/lehmer.rs, word-level
    models GrlLehmerW.v) compute the value-level linear updates of GrlLehmer.v, for every word size w >= 2,
    every length and all words:
      - no intermediate SignedDoubleWord / DoubleWord result overflows when the coefficients are <= COEFF_LIMIT,
        the carries stay in SignedWord / Word;
      - lehmer_step: if a*x - b*y and d*y - c*x are non-negative and the new x fits the words of y (what the
        guess guarantees, GrlLehmerGuessProof.v) the slices hold exactly these two values afterwards - the
        extra step for the top word of a longer x, both debug_asserts and the case x_carry == 0 included;
      - lehmer_ext_step: the first [len] words and the carries hold a*x + b*y and c*x + d*y. *)
From Dashu Require Import Base.Prelude Int.GrlSpec Int.GrlModel Int.GrlLehmer Int.GrlLehmerProof Int.GrlLehmerGuessProof Int.GrlLehmerW.
From Coq Require Import List.
Import ListNotations.
Open Scope Z_scope.

Lemma carry_zero : forall Q v c, 0 <= v < Q -> 0 <= v + c * Q < Q -> c = 0.
Proof.
  intros Q v c Hv Hs. destruct (Z.lt_trichotomy c 0) as [Hc|[Hc|Hc]]; [exfalso|exact Hc|exfalso].
  - assert (c * Q <= -1 * Q) by (apply Z.mul_le_mono_nonneg_r; lia). lia.
  - assert (1 * Q <= c * Q) by (apply Z.mul_le_mono_nonneg_r; lia). lia.
Qed.

Section Words.
Variable w : Z.
Hypothesis Hw : 2 <= w.
Let W := 2 ^ w.
Let H := 2 ^ (w - 1).
Let L := coeff_limit w.

Lemma W2H : W = 2 * H.
Proof. unfold W, H. replace w with (1 + (w - 1)) at 1 by lia. rewrite Z.pow_add_r by lia. reflexivity. Qed.
Lemma L_H : L = H - 1.
Proof. reflexivity. Qed.
Lemma H_ge2 : 2 <= H.
Proof. unfold H. assert (2 ^ 1 <= 2 ^ (w - 1)) by (apply Z.pow_le_mono_r; lia). change (2 ^ 1) with 2 in *. lia. Qed.
Lemma Whalf : W / 2 = H.
Proof. rewrite W2H. rewrite Z.mul_comm. apply Z.div_mul. lia. Qed.
Lemma W_pos : 0 < W.
Proof. pose proof W2H. pose proof H_ge2. lia. Qed.

Definition wordl (l : list Z) : Prop := Forall (fun v => 0 <= v < W) l.
Definition cbound (c : Z) : Prop := - H <= c <= H - 1.

Lemma wval_bound : forall l, wordl l -> 0 <= wval W l < W ^ Z.of_nat (length l).
Proof.
  pose proof W_pos as PW.
  induction l as [|x r IH]; intros Hl.
  - cbn. lia.
  - inversion Hl as [|? ? Hx Hr]; subst. specialize (IH Hr).
    cbn [wval length]. rewrite Nat2Z.inj_succ, Z.pow_succ_r by lia.
    assert (0 <= W * wval W r) by (apply Z.mul_nonneg_nonneg; lia).
    assert (W * (wval W r + 1) <= W * W ^ Z.of_nat (length r)) by (apply Z.mul_le_mono_nonneg_l; lia).
    lia.
Qed.

Lemma wval_app : forall l1 l2, wval W (l1 ++ l2) = wval W l1 + W ^ Z.of_nat (length l1) * wval W l2.
Proof.
  induction l1 as [|x r IH]; intros l2.
  - cbn [app wval length]. change (Z.of_nat 0) with 0. rewrite Z.pow_0_r. ring.
  - cbn [app wval length]. rewrite IH, Nat2Z.inj_succ, Z.pow_succ_r by lia. ring.
Qed.

Lemma fits_sd_true : forall v, - (H * W) <= v < H * W -> fits_sd W v = true.
Proof.
  intros v Hv. unfold fits_sd. rewrite Whalf. apply andb_true_intro. split; [apply Z.leb_le|apply Z.ltb_lt]; lia.
Qed.

Lemma fits_ud_true : forall v, 0 <= v < W * W -> fits_ud W v = true.
Proof.
  intros v Hv. unfold fits_ud. apply andb_true_intro. split; [apply Z.leb_le|apply Z.ltb_lt]; lia.
Qed.

Lemma prod_bound : forall p u, 0 <= p <= L -> 0 <= u < W -> 0 <= p * u <= (H - 1) * (2 * H - 1).
Proof.
  intros p u Hp Hu. pose proof W2H. pose proof L_H. pose proof H_ge2. split.
  - apply Z.mul_nonneg_nonneg; lia.
  - apply Z.mul_le_mono_nonneg; lia.
Qed.

(** one word of lehmer_step: no overflow, the carry is a SignedWord *)
Lemma sd_lin_ok : forall p u q v cr, 0 <= p <= L -> 0 <= q <= L -> 0 <= u < W -> 0 <= v < W -> cbound cr ->
  sd_lin W p u q v cr = Ok ((p * u - q * v + cr) mod W, (p * u - q * v + cr) / W)
  /\ cbound ((p * u - q * v + cr) / W).
Proof.
  intros p u q v cr Hp Hq Hu Hv Hc. unfold cbound in *.
  pose proof (prod_bound p u Hp Hu) as B1. pose proof (prod_bound q v Hq Hv) as B2.
  pose proof W2H as EW. pose proof H_ge2 as HH. pose proof W_pos as PW.
  assert (H * W = 2 * (H * H)) as EHW by (rewrite EW; ring).
  assert ((H - 1) * (2 * H - 1) = 2 * (H * H) - 3 * H + 1) as EP by ring.
  unfold sd_lin.
  set (pu := p * u) in *. set (qv := q * v) in *.
  clearbody pu qv. clear Hp Hq Hu Hv.
  rewrite (fits_sd_true pu), (fits_sd_true qv), (fits_sd_true (pu - qv)), (fits_sd_true (pu - qv + cr)) by lia.
  cbn [andb]. split; [reflexivity|]. split.
  - apply Z.div_le_lower_bound; [lia|]. rewrite EW. replace (2 * H * - H) with (- (2 * (H * H))) by ring. lia.
  - assert ((pu - qv + cr) / W < H); [|lia]. apply Z.div_lt_upper_bound; [lia|]. rewrite EW.
    replace (2 * H * H) with (2 * (H * H)) by ring. lia.
Qed.

(** one word of lehmer_ext_step *)
Lemma ud_lin_ok : forall p u q v cr, 0 <= p <= L -> 0 <= q <= L -> 0 <= u < W -> 0 <= v < W -> 0 <= cr < W ->
  ud_lin W p u q v cr = Ok ((p * u + q * v + cr) mod W, (p * u + q * v + cr) / W)
  /\ 0 <= (p * u + q * v + cr) / W < W.
Proof.
  intros p u q v cr Hp Hq Hu Hv Hc.
  pose proof (prod_bound p u Hp Hu) as B1. pose proof (prod_bound q v Hq Hv) as B2.
  pose proof W2H as EW. pose proof H_ge2 as HH. pose proof W_pos as PW.
  assert (W * W = 4 * (H * H)) as EWW by (rewrite EW; ring).
  assert ((H - 1) * (2 * H - 1) = 2 * (H * H) - 3 * H + 1) as EP by ring.
  unfold ud_lin.
  set (pu := p * u) in *. set (qv := q * v) in *.
  clearbody pu qv. clear Hp Hq Hu Hv.
  rewrite (fits_ud_true pu), (fits_ud_true qv), (fits_ud_true (pu + qv)), (fits_ud_true (pu + qv + cr)) by lia.
  cbn [andb]. split; [reflexivity|]. split.
  - apply Z.div_pos; lia.
  - apply Z.div_lt_upper_bound; lia.
Qed.

Section Coeff.
Variables a b c d : Z.
Hypothesis Ha : 0 <= a <= L.
Hypothesis Hb : 0 <= b <= L.
Hypothesis Hc : 0 <= c <= L.
Hypothesis Hd : 0 <= d <= L.

(** * the loop of lehmer_step over the common words *)
Lemma lstep_loop_spec : forall xl ys tl cx cy, length xl = length ys -> wordl xl -> wordl ys -> cbound cx -> cbound cy ->
  exists xl1 ys1 cxf cyf,
    lstep_loop W a b c d (xl ++ tl) ys cx cy = Ok (xl1 ++ tl, ys1, cxf, cyf) /\
    length xl1 = length xl /\ length ys1 = length ys /\ wordl xl1 /\ wordl ys1 /\ cbound cxf /\ cbound cyf /\
    wval W xl1 + cxf * W ^ Z.of_nat (length xl) = a * wval W xl - b * wval W ys + cx /\
    wval W ys1 + cyf * W ^ Z.of_nat (length xl) = d * wval W ys - c * wval W xl + cy.
Proof.
  pose proof W_pos as PW.
  induction xl as [|x xl IH]; intros ys tl cx cy Hlen Hxl Hys Hcx Hcy.
  - destruct ys as [|y ys]; [|discriminate].
    exists [], [], cx, cy. cbn [app length wval]. change (Z.of_nat 0) with 0. rewrite Z.pow_0_r.
    split; [destruct tl; reflexivity|]. unfold cbound in *. repeat split; try assumption; try constructor; lia.
  - destruct ys as [|y ys]; [discriminate|].
    inversion Hxl as [|? ? Hx Hxl']; subst. inversion Hys as [|? ? Hy Hys']; subst.
    cbn [app lstep_loop].
    destruct (sd_lin_ok a x b y cx Ha Hb Hx Hy Hcx) as [E1 C1].
    destruct (sd_lin_ok d y c x cy Hd Hc Hy Hx Hcy) as [E2 C2].
    rewrite E1, E2.
    set (t1 := a * x - b * y + cx) in *. set (t2 := d * y - c * x + cy) in *.
    assert (length xl = length ys) as Hlen' by (cbn [length] in Hlen; lia).
    destruct (IH ys tl (t1 / W) (t2 / W) Hlen' Hxl' Hys' C1 C2) as [xl1 [ys1 [cxf [cyf [E [L1 [L2 [W1 [W2 [B1 [B2 [V1 V2]]]]]]]]]]]].
    rewrite E.
    exists (t1 mod W :: xl1), (t2 mod W :: ys1), cxf, cyf.
    split; [reflexivity|]. cbn [length]. split; [lia|]. split; [lia|].
    split; [constructor; [apply Z.mod_pos_bound; lia|exact W1]|].
    split; [constructor; [apply Z.mod_pos_bound; lia|exact W2]|].
    split; [exact B1|]. split; [exact B2|].
    rewrite Nat2Z.inj_succ, Z.pow_succ_r by lia. cbn [wval].
    set (Q := W ^ Z.of_nat (length xl)) in *.
    pose proof (Z.div_mod t1 W ltac:(lia)) as D1. pose proof (Z.div_mod t2 W ltac:(lia)) as D2.
    split.
    + replace (t1 mod W + W * wval W xl1 + cxf * (W * Q)) with (t1 mod W + W * (wval W xl1 + cxf * Q)) by ring.
      rewrite V1. unfold t1 in D1 |- *. lia.
    + replace (t2 mod W + W * wval W ys1 + cyf * (W * Q)) with (t2 mod W + W * (wval W ys1 + cyf * Q)) by ring.
      rewrite V2. unfold t2 in D2 |- *. lia.
Qed.

(** * the loop of lehmer_ext_step over the first [len] words *)
Lemma lext_loop_spec : forall xl yl xt yt cx cy, length xl = length yl -> wordl xl -> wordl yl ->
  0 <= cx < W -> 0 <= cy < W ->
  exists xl1 yl1 cxf cyf,
    lext_loop W a b c d (length xl) (xl ++ xt) (yl ++ yt) cx cy = Ok (xl1 ++ xt, yl1 ++ yt, cxf, cyf) /\
    length xl1 = length xl /\ length yl1 = length yl /\ wordl xl1 /\ wordl yl1 /\ 0 <= cxf < W /\ 0 <= cyf < W /\
    wval W xl1 + cxf * W ^ Z.of_nat (length xl) = a * wval W xl + b * wval W yl + cx /\
    wval W yl1 + cyf * W ^ Z.of_nat (length xl) = c * wval W xl + d * wval W yl + cy.
Proof.
  pose proof W_pos as PW.
  induction xl as [|x xl IH]; intros yl xt yt cx cy Hlen Hxl Hyl Hcx Hcy.
  - destruct yl as [|y yl]; [|discriminate].
    exists [], [], cx, cy. cbn [app length wval lext_loop]. change (Z.of_nat 0) with 0. rewrite Z.pow_0_r.
    split; [reflexivity|]. repeat split; try assumption; try constructor; lia.
  - destruct yl as [|y yl]; [discriminate|].
    inversion Hxl as [|? ? Hx Hxl']; subst. inversion Hyl as [|? ? Hy Hyl']; subst.
    cbn [app length lext_loop].
    destruct (ud_lin_ok a x b y cx Ha Hb Hx Hy Hcx) as [E1 C1].
    destruct (ud_lin_ok c x d y cy Hc Hd Hx Hy Hcy) as [E2 C2].
    rewrite E1, E2.
    set (t1 := a * x + b * y + cx) in *. set (t2 := c * x + d * y + cy) in *.
    assert (length xl = length yl) as Hlen' by (cbn [length] in Hlen; lia).
    destruct (IH yl xt yt (t1 / W) (t2 / W) Hlen' Hxl' Hyl' C1 C2) as [xl1 [yl1 [cxf [cyf [E [L1 [L2 [W1 [W2 [B1 [B2 [V1 V2]]]]]]]]]]]].
    rewrite E.
    exists (t1 mod W :: xl1), (t2 mod W :: yl1), cxf, cyf.
    split; [reflexivity|]. cbn [length]. split; [lia|]. split; [lia|].
    split; [constructor; [apply Z.mod_pos_bound; lia|exact W1]|].
    split; [constructor; [apply Z.mod_pos_bound; lia|exact W2]|].
    split; [exact B1|]. split; [exact B2|].
    rewrite Nat2Z.inj_succ, Z.pow_succ_r by lia. cbn [wval].
    set (Q := W ^ Z.of_nat (length xl)) in *.
    pose proof (Z.div_mod t1 W ltac:(lia)) as D1. pose proof (Z.div_mod t2 W ltac:(lia)) as D2.
    split.
    + replace (t1 mod W + W * wval W xl1 + cxf * (W * Q)) with (t1 mod W + W * (wval W xl1 + cxf * Q)) by ring.
      rewrite V1. unfold t1 in D1 |- *. lia.
    + replace (t2 mod W + W * wval W yl1 + cyf * (W * Q)) with (t2 mod W + W * (wval W yl1 + cyf * Q)) by ring.
      rewrite V2. unfold t2 in D2 |- *. lia.
Qed.
End Coeff.

Lemma coeff_check : forall a b c d, ginv L a b c d ->
  negb ((a <=? L) && (b <=? L) && (c <=? L) && (d <=? L)) = false.
Proof.
  intros a b c d [Ga [Gb [Gc [Gd _]]]].
  rewrite (proj2 (Z.leb_le a L)), (proj2 (Z.leb_le b L)), (proj2 (Z.leb_le c L)), (proj2 (Z.leb_le d L)) by lia. reflexivity.
Qed.

Lemma wordl_app : forall l1 l2, wordl (l1 ++ l2) <-> wordl l1 /\ wordl l2.
Proof. intros. apply Forall_app. Qed.

(** * lehmer_step *)
Theorem lstep_words_correct : forall a b c d xs ys, wordl xs -> wordl ys -> ginv L a b c d ->
  (length xs = length ys \/ length xs = S (length ys)) ->
  0 <= a * wval W xs - b * wval W ys < W ^ Z.of_nat (length ys) ->
  0 <= d * wval W ys - c * wval W xs ->
  exists xs1 ys1, lstep_words w a b c d xs ys = Ok (xs1, ys1) /\
    length xs1 = length xs /\ length ys1 = length ys /\ wordl xs1 /\ wordl ys1 /\
    wval W xs1 = a * wval W xs - b * wval W ys /\ wval W ys1 = d * wval W ys - c * wval W xs.
Proof.
  intros a b c d xs ys Hxs Hys G Hlen Hx' Hy'.
  pose proof W_pos as PW. pose proof H_ge2 as HH.
  pose proof (ginv_pos _ _ _ _ _ G) as [Pa Pd].
  pose proof G as [Ga [Gb [Gc [Gd Gdet]]]].
  set (X := wval W xs) in *. set (Y := wval W ys) in *.
  set (n := length ys) in *. set (Q := W ^ Z.of_nat n) in *.
  pose proof (wval_bound ys Hys) as BY. fold Y n Q in BY.
  (* the new y is at most the old one *)
  assert (d * Y - c * X < Q) as Hy'Q.
  { assert (Y = c * (a * X - b * Y) + a * (d * Y - c * X)) as EY.
    { replace (c * (a * X - b * Y) + a * (d * Y - c * X)) with ((a * d - b * c) * Y) by ring. rewrite Gdet. ring. }
    assert (0 <= c * (a * X - b * Y)) by (apply Z.mul_nonneg_nonneg; lia).
    assert (1 * (d * Y - c * X) <= a * (d * Y - c * X)) by (apply Z.mul_le_mono_nonneg_r; lia). lia. }
  unfold lstep_words. fold W L.
  assert (negb ((Z.of_nat n <=? Z.of_nat (length xs)) && (Z.of_nat (length xs) - Z.of_nat n <=? 1)) = false) as Ck1.
  { rewrite (proj2 (Z.leb_le _ _)), (proj2 (Z.leb_le _ _)) by (destruct Hlen; lia). reflexivity. }
  fold n. rewrite Ck1, (coeff_check _ _ _ _ G).
  (* split x into the words zipped with y and the rest *)
  set (xl := firstn n xs). set (tl := skipn n xs).
  assert (xs = xl ++ tl) as Exs by (symmetry; apply firstn_skipn).
  assert (length xl = n) as Lxl by (unfold xl; apply firstn_length_le; destruct Hlen; lia).
  assert (length tl = (length xs - n)%nat) as Ltl by (unfold tl; apply skipn_length).
  assert (wordl xl /\ wordl tl) as [Wxl Wtl] by (apply wordl_app; rewrite <- Exs; exact Hxs).
  assert (cbound 0) as C0 by (unfold cbound; lia).
  destruct (lstep_loop_spec a b c d Ga Gb Gc Gd xl ys tl 0 0 Lxl Wxl Hys C0 C0)
    as [xl1 [ys1 [cxf [cyf [E [L1 [L2 [W1 [W2 [B1 [B2 [V1 V2]]]]]]]]]]]].
  rewrite Exs, E. rewrite Lxl in V1, V2. fold Q in V1, V2. rewrite !Z.add_0_r in V1, V2. fold Y in V1, V2.
  pose proof (wval_bound xl1 W1) as BX1. rewrite L1, Lxl in BX1. fold Q in BX1.
  pose proof (wval_bound ys1 W2) as BY1. rewrite L2 in BY1. fold n Q in BY1.
  assert (X = wval W xl + Q * wval W tl) as EX by (unfold X; rewrite Exs, wval_app, Lxl; reflexivity).
  destruct tl as [|xt tl'].
  - (* x and y have the same length *)
    cbn [wval] in EX. rewrite Z.mul_0_r, Z.add_0_r in EX. rewrite <- EX in V1, V2.
    assert (cxf = 0) as -> by (apply (carry_zero Q (wval W xl1)); [exact BX1|rewrite V1; exact Hx']).
    assert (cyf = 0) as -> by (apply (carry_zero Q (wval W ys1)); [exact BY1|rewrite V2; lia]).
    cbn [Z.eqb]. exists (xl1 ++ []), ys1. split; [reflexivity|].
    rewrite !app_nil_r. rewrite app_nil_r in Exs. rewrite <- Exs in Lxl.
    split; [lia|]. split; [exact L2|]. split; [exact W1|]. split; [exact W2|]. lia.
  - (* x has one word more *)
    assert (tl' = []) as -> by (destruct tl'; [reflexivity|cbn [length] in Ltl; destruct Hlen; lia]).
    assert (0 <= xt < W) as Hxt by (inversion Wtl; assumption).
    cbn [wval] in EX. rewrite Z.mul_0_r, Z.add_0_r in EX.
    assert (wval W xl1 + (cxf + a * xt) * Q = a * X - b * Y) as V1'.
    { rewrite EX. replace (a * (wval W xl + Q * xt) - b * Y) with (a * wval W xl - b * Y + a * xt * Q) by ring.
      rewrite <- V1. ring. }
    assert (wval W ys1 + (cyf - c * xt) * Q = d * Y - c * X) as V2'.
    { rewrite EX. replace (d * Y - c * (wval W xl + Q * xt)) with (d * Y - c * wval W xl - c * xt * Q) by ring.
      rewrite <- V2. ring. }
    assert (cxf + a * xt = 0) as Z1 by (apply (carry_zero Q (wval W xl1)); [exact BX1|rewrite V1'; exact Hx']).
    assert (cyf - c * xt = 0) as Z2 by (apply (carry_zero Q (wval W ys1)); [exact BY1|rewrite V2'; lia]).
    rewrite Z1, Z.mul_0_l, Z.add_0_r in V1'. rewrite Z2, Z.mul_0_l, Z.add_0_r in V2'.
    assert (length (xl1 ++ [xt]) = length (xl ++ [xt])) as LL by (rewrite !app_length, L1; reflexivity).
    destruct (Z.eqb_spec cxf 0) as [e0|e0].
    + (* no carry: the top word is zero already *)
      assert (xt = 0) as ->.
      { assert (a * xt = 0) as E0 by lia. apply Z.mul_eq_0 in E0. destruct E0; lia. }
      exists (xl1 ++ [0]), ys1. split; [reflexivity|]. split; [exact LL|]. split; [exact L2|].
      split; [apply wordl_app; split; [exact W1|constructor; [lia|constructor]]|]. split; [exact W2|].
      split; [|exact V2']. rewrite wval_app. cbn [wval]. lia.
    + destruct (xl1 ++ [xt]) as [|h r] eqn:Ene.
      { apply app_eq_nil in Ene. destruct Ene as [_ Ene]. discriminate. }
      rewrite <- Ene. rewrite last_last, removelast_last.
      assert (cyf =? c * xt = true) as -> by (apply Z.eqb_eq; lia). cbn [negb].
      replace (a * xt + cxf) with 0 by lia.
      assert (fits_sd W (a * xt) = true) as ->.
      { apply fits_sd_true. pose proof (prod_bound a xt ltac:(lia) Hxt) as PB. pose proof W2H as EW.
        assert (H * W = 2 * (H * H)) by (rewrite EW; ring).
        assert ((H - 1) * (2 * H - 1) = 2 * (H * H) - 3 * H + 1) by ring. lia. }
      assert (fits_sd W 0 = true) as ->.
      { apply fits_sd_true. assert (0 < H * W) by (apply Z.mul_pos_pos; lia). lia. }
      cbn [andb negb]. rewrite Z.div_0_l, Z.mod_0_l by lia. cbn [Z.eqb negb].
      exists (xl1 ++ [0]), ys1. split; [reflexivity|].
      split; [rewrite !app_length, L1; reflexivity|]. split; [exact L2|].
      split; [apply wordl_app; split; [exact W1|constructor; [lia|constructor]]|]. split; [exact W2|].
      split; [|exact V2']. rewrite wval_app. cbn [wval]. lia.
Qed.

(** * lehmer_ext_step: the carries are returned, nothing panics *)
Theorem lext_words_correct : forall a b c d len xs ys, wordl xs -> wordl ys ->
  0 <= a <= L -> 0 <= b <= L -> 0 <= c <= L -> 0 <= d <= L ->
  (len <= length xs)%nat -> (len <= length ys)%nat ->
  exists xl1 yl1 cx cy,
    lext_words w a b c d (Z.of_nat len) xs ys = Ok (xl1 ++ skipn len xs, yl1 ++ skipn len ys, cx, cy) /\
    length xl1 = len /\ length yl1 = len /\ wordl xl1 /\ wordl yl1 /\ 0 <= cx < W /\ 0 <= cy < W /\
    wval W xl1 + cx * W ^ Z.of_nat len = a * wval W (firstn len xs) + b * wval W (firstn len ys) /\
    wval W yl1 + cy * W ^ Z.of_nat len = c * wval W (firstn len xs) + d * wval W (firstn len ys).
Proof.
  intros a b c d len xs ys Hxs Hys Ha Hb Hc Hd Lx Ly. pose proof W_pos as PW.
  unfold lext_words. fold W L.
  assert (negb ((0 <=? Z.of_nat len) && (Z.of_nat len <=? Z.of_nat (length xs)) && (Z.of_nat len <=? Z.of_nat (length ys))) = false) as ->.
  { rewrite (proj2 (Z.leb_le _ _)), (proj2 (Z.leb_le _ _)), (proj2 (Z.leb_le _ _)) by lia. reflexivity. }
  assert (negb ((a <=? L) && (b <=? L) && (c <=? L) && (d <=? L)) = false) as ->.
  { rewrite (proj2 (Z.leb_le a L)), (proj2 (Z.leb_le b L)), (proj2 (Z.leb_le c L)), (proj2 (Z.leb_le d L)) by lia. reflexivity. }
  rewrite Nat2Z.id.
  set (xl := firstn len xs). set (yl := firstn len ys).
  assert (length xl = len) as Lxl by (unfold xl; apply firstn_length_le; exact Lx).
  assert (length yl = len) as Lyl by (unfold yl; apply firstn_length_le; exact Ly).
  assert (wordl xl) as Wxl by (apply (proj1 (wordl_app xl (skipn len xs))); unfold xl; rewrite firstn_skipn; exact Hxs).
  assert (wordl yl) as Wyl by (apply (proj1 (wordl_app yl (skipn len ys))); unfold yl; rewrite firstn_skipn; exact Hys).
  destruct (lext_loop_spec a b c d Ha Hb Hc Hd xl yl (skipn len xs) (skipn len ys) 0 0 ltac:(lia) Wxl Wyl ltac:(lia) ltac:(lia))
    as [xl1 [yl1 [cxf [cyf [E [L1 [L2 [W1 [W2 [B1 [B2 [V1 V2]]]]]]]]]]]].
  rewrite Lxl in E. unfold xl, yl in E. rewrite !firstn_skipn in E.
  exists xl1, yl1, cxf, cyf. split; [exact E|].
  rewrite Lxl in V1, V2. rewrite !Z.add_0_r in V1, V2.
  split; [lia|]. split; [lia|]. repeat split; try assumption; lia.
Qed.
End Words.
