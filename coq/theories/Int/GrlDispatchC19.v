(** C12 round 5 - the word-size-specific dispatch models of C19 (Serde/WordRunsModel2.v: wr_gcd, wr_gcdext, wr_ilog,
    wr_nthroot; read-only) ARE the regenerated dispatch tables of coq/gen/GrlDispatchGen.v run on C19's / C12's kernels:
    one generated table shared by both properties. *)
From Coq Require Import List Bool.
From Dashu Require Import Base.Prelude Int.GrlSpec Int.GrlModel Int.GrlLehmer Int.GrlKsqrt Int.IoSpec.
From Dashu Require Import Serde.WordRunsModel Serde.WordRunsModel2.
From Dashu Require Import Int.GrlDispatch.
From DashuGen Require Import GrlDispatchGen.
Open Scope Z_scope.

Theorem wr_gcd_is_table : forall fuel w a b,
  wr_gcd fuel w a b =
  run_arm (prim_gcd_asis fuel (2 * w)) (wr_gcd_large_dword fuel w) (lehmer_gcd_asis fuel w) (fun g => g)
          (lookup2 gcd_dispatch_gen (wr_small w (Z.abs a)) (wr_small w (Z.abs b))) (Z.abs a) (Z.abs b).
Proof.
  intros. rewrite <- gcd_dispatch_is_source. unfold wr_gcd, gcd_dispatch.
  destruct (wr_small w (Z.abs a)), (wr_small w (Z.abs b)); reflexivity.
Qed.

Definition swap_st (r : Z * Z * Z) : Z * Z * Z := let '(g, s, t) := r in (g, t, s).

Theorem wr_gcdext_is_table : forall fuel w x y,
  wr_gcdext fuel w x y =
  run_arm (prim_gcd_ext_asis fuel) (wr_gcd_ext_large_dword fuel) (lehmer_gcd_ext_asis fuel w) swap_st
          (lookup2 gcd_ext_dispatch_gen_0 (wr_small w x) (wr_small w y)) x y.
Proof.
  intros. rewrite <- (proj1 (gcd_ext_dispatch_is_source _ _ _ swap_st _ _ _ _)). unfold wr_gcdext, gcd_ext_dispatch.
  destruct (wr_small w x), (wr_small w y); reflexivity.
Qed.

Theorem wr_ilog_is_table : forall fuel w x b,
  wr_ilog fuel w x b =
  let D := 2 ^ (2 * w) in
  let shortcut := if x =? 0 then Some (Panic LogOperand) else if b <? D then ilog_shortcuts x b else None in
  match shortcut with
  | Some r => r
  | None =>
      let est := wr_ilog_est x b in
      run_log_arm (fun x b => rmap fst (log_dword_asis fuel D est x b))
                  (fun x b => rbind (max_exp_in_word_asis w b) (fun we => rmap fst (log_word_base_asis fuel w est (fst we) x b)))
                  (fun x b => rmap fst (log_large_asis fuel est x b))
                  (Ok 0) (Ok 1) (fun b => b <? 2 ^ w)
                  (lookup2 log_dispatch_gen (wr_small w x) (wr_small w b)) x b
  end.
Proof.
  intros. unfold wr_ilog. cbv zeta. destruct (if x =? 0 then _ else _); [reflexivity|].
  rewrite <- log_dispatch_is_source. unfold log_dispatch.
  destruct (wr_small w x), (wr_small w b); reflexivity.
Qed.

Theorem wr_nthroot_is_table : forall fuel w x n,
  wr_nthroot fuel w x n =
  run_nth (Ok x) (wr_sqrt w x)
          (if bit_len x =? 0 then Ok 0 else if bit_len x <=? n then Ok 1 else newton_root fuel x n)
          (lookup_n nth_root_dispatch_gen n).
Proof. intros. rewrite <- nth_dispatch_is_source. reflexivity. Qed.
