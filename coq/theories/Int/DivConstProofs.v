(** C02 - rem_by_dword, Rem for TypedRepr, and division through a prepared ConstDivisor
    (div_const.rs::repr: the divisor stored normalised with its shift, the Small x Single/Double arms,
    rem_dword / rem_large with the repaired unshifted branch): all equal the floor quotient and
    remainder, i.e. the ConstDivisor forms give the same results as plain division.
    Relative to the contracts of num-modular's primitives and of the multiplication kernel. *)
From Dashu Require Import Base.Prelude Base.Words Int.DivWordModel Int.DivWordProofs Int.DivSimpleProofs
  Int.DivLargeProofs Int.DivDCProofs Int.DivReprProofs Int.DivDCTotal.
Open Scope Z_scope.

Section DivConst.
Variable w : Z.
Hypothesis w_pos : 0 < w.
Notation B := (Words.B w).
Notation value := (Words.value w).
Notation wf := (Words.wf w).

Local Lemma Bpos : 0 < B. Proof. apply B_pos; lia. Qed.
Local Notation Bpow_pos := (DivWordProofs.Bpow_pos w w_pos).

(** *** arithmetic helpers *)
Lemma div_scaled a d s : 0 < d -> 0 <= s ->
  (a * 2 ^ s) / (d * 2 ^ s) = a / d /\ ((a * 2 ^ s) mod (d * 2 ^ s)) / 2 ^ s = a mod d.
Proof.
  intros Hd Hs. pose proof (pow2_pos s Hs) as Hp. split.
  - apply Z.div_mul_cancel_r; lia.
  - rewrite Z.mul_mod_distr_r by lia. apply Z.div_mul. lia.
Qed.

(** remainder modulo a multiple, then modulo the divisor *)
Lemma mod_scaled_mod x rhs s : 0 < rhs -> 0 <= s ->
  (((x mod (rhs * 2 ^ s)) * 2 ^ s) mod (rhs * 2 ^ s)) / 2 ^ s = x mod rhs.
Proof.
  intros Hr Hs. pose proof (pow2_pos s Hs) as Hp.
  destruct (div_scaled (x mod (rhs * 2 ^ s)) rhs s Hr Hs) as [_ ->].
  rewrite Z.rem_mul_r by lia.
  rewrite (Z.mul_comm rhs ((x / rhs) mod 2 ^ s)), Z.mod_add by lia. apply Z.mod_mod. lia.
Qed.

(** dividing [v] by [dn] in two 2-by-1 steps (high part first) *)
Lemma two_step dn v : 0 < dn ->
  (v mod B + B * ((v / B) mod dn)) mod dn = v mod dn /\
  (v mod B + B * ((v / B) mod dn)) / dn + B * ((v / B) / dn) = v / dn.
Proof.
  intros Hd. pose proof Bpos as HB.
  pose proof (Z.div_mod v B ltac:(lia)) as H1. pose proof (Z.div_mod (v / B) dn ltac:(lia)) as H2.
  set (X := v mod B + B * ((v / B) mod dn)).
  assert (v = X + (B * ((v / B) / dn)) * dn) as Hv by (unfold X; rewrite H1 at 1; rewrite H2 at 1; ring).
  split.
  - rewrite Hv at 1. symmetry. apply Z.mod_add. lia.
  - rewrite Hv at 2. rewrite Z.div_add by lia. reflexivity.
Qed.

Lemma shl_dword_spec a s : 0 <= a -> 0 <= s ->
  forall lo mid hi, shl_dword w a s = (lo, mid, hi) ->
  lo = (a * 2 ^ s) mod B /\ mid + B * hi = (a * 2 ^ s) / B /\ 0 <= lo < B.
Proof.
  intros Ha Hs lo mid hi E. pose proof Bpos as HB. unfold shl_dword in E. inversion E; subst; clear E.
  set (v := a * 2 ^ s). split; [reflexivity|]. split.
  - rewrite <- Z.div_div by lia. pose proof (Z.div_mod (v / B) B ltac:(lia)). lia.
  - apply Z.mod_pos_bound. lia.
Qed.

Lemma lzw1_facts d : 0 < d < B ->
  let s := lzw w 1 d in 0 <= s < w /\ norm1 w (d * 2 ^ s) /\ 0 < 2 ^ s /\ 2 ^ s <= d * 2 ^ s.
Proof.
  intros Hd. pose proof (lzw_spec w w_pos 1 d ltac:(lia) ltac:(rewrite Z.pow_1_r; lia)) as (Hs & Hn1 & Hn2).
  rewrite Z.pow_1_r, Z.mul_1_l in *. cbn zeta. pose proof (pow2_pos (lzw w 1 d) ltac:(lia)) as Hp.
  split; [exact Hs|]. split; [unfold norm1; lia|]. split; [exact Hp | nia].
Qed.

Lemma lzw2_facts d : B <= d < B * B ->
  let s := lzw w 2 d in 0 <= s < w /\ norm2 w (d * 2 ^ s) /\ 0 < 2 ^ s /\ B * 2 ^ s <= d * 2 ^ s.
Proof.
  intros Hd. pose proof Bpos as HB. assert (B ^ 2 = B * B) as HB2 by ring.
  pose proof (lzw_spec w w_pos 2 d ltac:(lia) ltac:(rewrite HB2; nia)) as (Hs & Hn1 & Hn2). rewrite HB2 in *.
  cbn zeta. set (s := lzw w 2 d) in *. pose proof (pow2_pos s ltac:(lia)) as Hp.
  assert (s < w) as Hsw.
  { destruct (Z.lt_ge_cases s w) as [|Hge]; [assumption|exfalso].
    assert (2 ^ w <= 2 ^ s) by (apply Z.pow_le_mono_r; lia). unfold Words.B in *. nia. }
  split; [lia|]. split; [unfold norm2; lia|]. split; [exact Hp | nia].
Qed.

Variable div1by1 : Z -> Z -> Z * Z.
Variable div2by1 : Z -> Z -> Z * Z.
Variable div2by2 : Z -> Z -> Z * Z.
Variable div3by2 : Z -> Z -> Z -> Z * Z.
Variable div4by2 : Z -> Z -> Z -> Z * Z.
Hypothesis div1by1_ok : forall d a, norm1 w d -> 0 <= a < B -> div1by1 d a = (a / d, a mod d).
Hypothesis div2by1_ok : forall d a, norm1 w d -> 0 <= a < d * B -> div2by1 d a = (a / d, a mod d).
Hypothesis div2by2_ok : forall d a, norm2 w d -> 0 <= a < B * B -> div2by2 d a = (a / d, a mod d).
Hypothesis div3by2_ok : forall d lo hi, norm2 w d -> 0 <= lo < B -> 0 <= hi < d ->
  div3by2 d lo hi = ((lo + B * hi) / d, (lo + B * hi) mod d).
Hypothesis div4by2_ok : forall d lo hi, norm2 w d -> 0 <= lo < B * B -> 0 <= hi < d ->
  div4by2 d lo hi = ((lo + B * B * hi) / d, (lo + B * B * hi) mod d).

(** *** fast_rem_by_normalized_dword and rem_by_dword *)
Lemma rem_dword_chunks_snd d : forall n be rem, (length be <= n)%nat ->
  rem_dword_chunks w div3by2 div4by2 d be rem = snd (dword_chunks w div3by2 div4by2 d be rem).
Proof.
  induction n as [|n IH]; intros be rem Hn.
  - destruct be; [reflexivity | cbn [length] in Hn; lia].
  - destruct be as [|hi [|lo rest]]; [reflexivity | cbn [rem_dword_chunks dword_chunks]; destruct (div3by2 d hi rem); reflexivity |].
    cbn [rem_dword_chunks dword_chunks]. destruct (div4by2 d (lo + B * hi) rem) as [q r]. cbn [snd].
    rewrite IH by (cbn [length] in Hn; lia). destruct (dword_chunks w div3by2 div4by2 d rest r). reflexivity.
Qed.

Lemma rem_dword_loop_spec d ws : norm2 w d -> wf ws -> (2 <= length ws)%nat ->
  rem_dword_loop w div2by2 div3by2 div4by2 d ws = value ws mod d.
Proof.
  intros Hd Hwf Hlen. pose proof Bpos as HB. unfold rem_dword_loop.
  destruct (rev_top2 ws Hlen) as (hi & lo & be & Er & Ews). rewrite Er.
  assert (wf (rev be) /\ (0 <= lo < B) /\ (0 <= hi < B)) as (Hwbe & Hlo & Hhi).
  { rewrite Ews in Hwf. apply wf_app in Hwf. destruct Hwf as [H1 H2]. apply wf_cons in H2. destruct H2 as [H2 H3].
    apply wf_cons in H3. destruct H3 as [H3 _]. auto. }
  assert (wf be) as Hwbe' by (rewrite <- (rev_involutive be); apply wf_rev; exact Hwbe).
  rewrite div2by2_ok by (auto; nia). cbn [snd].
  destruct Hd as [Hd1 Hd2]. assert (0 < d) as Hdpos by nia.
  pose proof (Z.mod_pos_bound (lo + B * hi) d Hdpos) as Hmb. pose proof (Z.div_mod (lo + B * hi) d ltac:(lia)) as Hdm.
  rewrite (rem_dword_chunks_snd d (length be)) by lia.
  destruct (dword_chunks w div3by2 div4by2 d be ((lo + B * hi) mod d)) as [qs r] eqn:E. cbn [snd].
  destruct (dword_chunks_spec w w_pos div3by2 div4by2 div3by2_ok div4by2_ok d ltac:(unfold norm2; lia) (length be) be _ ltac:(lia) Hwbe' Hmb _ _ E)
    as (Hv & Hr & _ & _).
  assert (value ws = value_be w be + B ^ len be * (lo + B * hi)) as Hvws.
  { rewrite Ews, value_app. cbn [Words.value]. fold B. rewrite value_be_rev. unfold len. rewrite rev_length. ring. }
  apply Z.mod_unique with (value_be w qs + B ^ len be * ((lo + B * hi) / d)); [left; lia|].
  rewrite Hvws. rewrite Hdm at 1. nia.
Qed.

Theorem rem_by_dword_correct ws rhs : wf ws -> (2 <= length ws)%nat -> B <= rhs < B * B ->
  rem_by_dword w div2by2 div3by2 div4by2 ws rhs = value ws mod rhs.
Proof.
  intros Hwf Hlen Hrhs. pose proof Bpos as HB. unfold rem_by_dword.
  destruct (is_pow2 rhs) eqn:Ep.
  - destruct (is_pow2_true rhs ltac:(lia) Ep) as [Hr2 Hk0]. set (k := Z.log2 rhs) in *.
    assert (w <= k < 2 * w) as Hk.
    { unfold Words.B in Hrhs. rewrite <- Z.pow_add_r in Hrhs by lia. rewrite Hr2 in Hrhs. destruct Hrhs as [H1 H2].
      apply Z.pow_le_mono_r_iff in H1; try lia. apply Z.pow_lt_mono_r_iff in H2; lia. }
    destruct ws as [|w0 [|w1 rest]]; try (cbn [length] in Hlen; lia). cbn [nth Words.value]. fold B.
    rewrite Hr2. replace (2 ^ k - 1) with (Z.ones k) by (rewrite Z.ones_equiv; lia). rewrite Z.land_ones by lia.
    assert (B * B = 2 ^ k * 2 ^ (2 * w - k)) as HBB.
    { unfold Words.B. rewrite <- !Z.pow_add_r by lia. f_equal. lia. }
    replace (w0 + B * (w1 + B * value rest)) with (w0 + B * w1 + (value rest * 2 ^ (2 * w - k)) * 2 ^ k) by (replace (B * (w1 + B * value rest)) with (B * w1 + (B * B) * value rest) by ring; rewrite HBB; ring).
    rewrite Z.mod_add by (pose proof (pow2_pos k ltac:(lia)); lia). reflexivity.
  - pose proof (lzw2_facts rhs Hrhs) as (Hs & Hd & Hp & HsB). set (s := lzw w 2 rhs) in *. set (d := rhs * 2 ^ s) in *.
    rewrite (rem_dword_loop_spec d ws Hd Hwf Hlen).
    destruct Hd as [Hd1 Hd2]. assert (0 < d) as Hdpos by nia.
    pose proof (Z.mod_pos_bound (value ws) d Hdpos) as Hmb.
    set (v := value ws mod d * 2 ^ s).
    assert (2 ^ s <= B) as H2s by nia.
    assert (0 <= v / B < d) as Hvb.
    { split; [apply Z.div_pos; unfold v; nia | apply Z.div_lt_upper_bound; unfold v; nia]. }
    rewrite div3by2_ok by (unfold norm2; auto; try apply Z.mod_pos_bound; lia). cbn [snd].
    replace (v mod B + B * (v / B)) with v by (pose proof (Z.div_mod v B ltac:(lia)); lia).
    unfold v, d. apply mod_scaled_mod; lia.
Qed.

Variable mul_sub : list Z -> list Z -> list Z -> list Z * Z.
Hypothesis mul_sub_ok : forall c a b c' k, wf c -> wf a -> wf b -> length c = (length a + length b)%nat ->
  mul_sub c a b = (c', k) ->
  wf c' /\ length c' = length c /\ value c' + B ^ len c * k = value c - value a * value b.
Variable T : nat.
Hypothesis T_ge : (2 <= T)%nat.

Local Notation large_correct := (div_rem_large_correct w w_pos div3by2 div3by2_ok mul_sub mul_sub_ok T T_ge).

(** the multi-word arm shared by all four dispatchers *)
Lemma large_arm a b : B * B <= a -> B * B <= b -> (length (words_of w b) <= length (words_of w a))%nat ->
  exists q r, div_rem_large w div3by2 mul_sub T (fuel_for (words_of w a)) (words_of w a) (words_of w b) = Ok (q, r) /\
              value q = a / b /\ value r = a mod b.
Proof.
  intros Ha Hb Hle. pose proof Bpos as HB.
  destruct (words_of_spec w w_pos a ltac:(nia)) as (Hwa & Hva & Hla).
  destruct (words_of_spec w w_pos b ltac:(nia)) as (Hwb & Hvb & Hlb).
  pose proof (nwords_ge3 w w_pos b Hb) as Hnb.
  destruct (large_correct (fuel_for (words_of w a)) (words_of w a) (words_of w b) Hwa Hwb ltac:(lia) Hle
              (words_of_top w w_pos b ltac:(nia)) ltac:(unfold fuel_for; lia)) as (q & r & E & Hq & Hr & _).
  exists q, r. rewrite Hva, Hvb in *. auto.
Qed.

(** *** Rem for TypedRepr *)
Theorem repr_rem_correct a b : 0 <= a -> 0 < b ->
  repr_rem w div1by1 div2by1 div2by2 div3by2 div4by2 mul_sub T a b = Ok (a mod b).
Proof.
  intros Ha Hb. pose proof Bpos as HB. unfold repr_rem.
  destruct (Z.eqb_spec b 0) as [|_]; [lia|].
  destruct (Z.ltb_spec a (B * B)) as [Hsa|Hla].
  { destruct (Z.ltb_spec b (B * B)); [reflexivity|]. f_equal. symmetry. apply Z.mod_small. lia. }
  destruct (words_of_spec w w_pos a Ha) as (Hwa & Hva & Hla').
  pose proof (nwords_ge3 w w_pos a Hla) as Hna.
  destruct (Z.ltb_spec b B) as [Hb1|Hb1].
  { f_equal. rewrite (rem_by_word_correct w w_pos div1by1 div2by1 div1by1_ok div2by1_ok (words_of w a) b Hwa) by
      (try lia; intros E0; rewrite E0 in Hla'; cbn in Hla'; lia). rewrite Hva. reflexivity. }
  destruct (Z.ltb_spec b (B * B)) as [Hb2|Hb2].
  { f_equal. rewrite (rem_by_dword_correct (words_of w a) b Hwa) by lia. rewrite Hva. reflexivity. }
  destruct (Nat.leb_spec (length (words_of w b)) (length (words_of w a))) as [Hle|Hgt].
  - destruct (large_arm a b Hla Hb2 Hle) as (q & r & -> & _ & Hr). cbn [rbind]. rewrite Hr. reflexivity.
  - destruct (words_of_spec w w_pos b ltac:(lia)) as (_ & _ & Hlb).
    assert (a < b) by (apply (nwords_lt w w_pos); lia).
    f_equal. symmetry. apply Z.mod_small. lia.
Qed.

(** *** ConstDivisor: DivRem *)
Theorem const_div_rem_correct a d : 0 <= a -> 0 < d ->
  const_div_rem w div2by1 div3by2 div4by2 mul_sub T a d = Ok (a / d, a mod d).
Proof.
  intros Ha Hd. pose proof Bpos as HB. unfold const_div_rem.
  destruct (Z.eqb_spec d 0) as [|_]; [lia|].
  destruct (Z.ltb_spec d B) as [Hd1|Hd1].
  { pose proof (lzw1_facts d ltac:(lia)) as (Hs & Hn & Hp & Hsd). set (s := lzw w 1 d) in *. set (dn := d * 2 ^ s) in *.
    destruct (Z.ltb_spec a (B * B)) as [Hsa|Hla].
    - destruct (shl_dword w a s) as [[lo mid] hi] eqn:Esh.
      destruct (shl_dword_spec a s Ha ltac:(lia) _ _ _ Esh) as (Hlo & Hmh & Hlob). set (v := a * 2 ^ s) in *.
      destruct Hn as [Hn1 Hn2]. assert (0 < dn) as Hdn by nia.
      assert (0 <= v / B < dn * B) as Hvb.
      { split; [apply Z.div_pos; unfold v; nia | apply Z.div_lt_upper_bound; unfold v; nia]. }
      rewrite Hmh. rewrite div2by1_ok by (unfold norm1; auto).
      pose proof (Z.mod_pos_bound (v / B) dn Hdn) as Hmb.
      rewrite div2by1_ok by (unfold norm1; try split; nia).
      destruct (two_step dn v Hdn) as [Hm Hq]. rewrite <- Hlo in Hm, Hq.
      destruct (div_scaled a d s Hd ltac:(lia)) as [Hq' Hr']. fold v dn in Hq', Hr'.
      rewrite Hm, Hq, Hq', Hr'. reflexivity.
    - destruct (words_of_spec w w_pos a Ha) as (Hwa & Hva & _).
      destruct (fast_div_by_word w div2by1 (words_of w a) s dn) as [q r] eqn:E.
      destruct (fast_div_by_word_spec w w_pos div2by1 div2by1_ok (words_of w a) d Hwa ltac:(lia) _ _ E) as (Hq & Hr & _).
      rewrite Hq, Hr, Hva. reflexivity. }
  destruct (Z.ltb_spec d (B * B)) as [Hd2|Hd2].
  { pose proof (lzw2_facts d ltac:(lia)) as (Hs & Hn & Hp & HsB). set (s := lzw w 2 d) in *. set (dn := d * 2 ^ s) in *.
    destruct (Z.ltb_spec a (B * B)) as [Hsa|Hla].
    - destruct (shl_dword w a s) as [[lo mid] hi] eqn:Esh.
      destruct (shl_dword_spec a s Ha ltac:(lia) _ _ _ Esh) as (Hlo & Hmh & Hlob). set (v := a * 2 ^ s) in *.
      assert (0 <= v / B < dn) as Hvb.
      { split; [apply Z.div_pos; unfold v; nia | apply Z.div_lt_upper_bound; unfold v; nia]. }
      rewrite Hmh. rewrite div3by2_ok by auto.
      replace (lo + B * (v / B)) with v by (rewrite Hlo; pose proof (Z.div_mod v B ltac:(lia)); lia).
      destruct (div_scaled a d s Hd ltac:(lia)) as [Hq' Hr']. fold v dn in Hq', Hr'. rewrite Hq', Hr'. reflexivity.
    - destruct (words_of_spec w w_pos a Ha) as (Hwa & Hva & Hla').
      pose proof (nwords_ge3 w w_pos a Hla) as Hna.
      destruct (fast_div_by_dword w div3by2 div4by2 (words_of w a) s dn) as [q r] eqn:E.
      destruct (fast_div_by_dword_spec w w_pos div3by2 div4by2 div3by2_ok div4by2_ok (words_of w a) d Hwa ltac:(lia) ltac:(lia) _ _ E)
        as (Hq & Hr & _).
      rewrite Hq, Hr, Hva. reflexivity. }
  destruct (Z.ltb_spec a (B * B)) as [Hsa|Hla].
  { rewrite Z.div_small, Z.mod_small by lia. reflexivity. }
  destruct (Nat.ltb_spec (length (words_of w a)) (length (words_of w d))) as [Hlt|Hge].
  - destruct (words_of_spec w w_pos a Ha) as (_ & _ & Hla'). destruct (words_of_spec w w_pos d ltac:(lia)) as (_ & _ & Hld).
    assert (a < d) by (apply (nwords_lt w w_pos); lia).
    rewrite Z.div_small, Z.mod_small by lia. reflexivity.
  - destruct (large_arm a d Hla Hd2 Hge) as (q & r & -> & Hq & Hr). cbn [rbind]. rewrite Hq, Hr. reflexivity.
Qed.

(** *** ConstDivisor: Rem (rem_dword / rem_large of ConstSingleDivisor and ConstDoubleDivisor) *)
Theorem const_rem_correct a d : 0 <= a -> 0 < d ->
  const_rem w div1by1 div2by1 div2by2 div3by2 div4by2 mul_sub T a d = Ok (a mod d).
Proof.
  intros Ha Hd. pose proof Bpos as HB. unfold const_rem.
  destruct (Z.eqb_spec d 0) as [|_]; [lia|].
  destruct (Z.ltb_spec d B) as [Hd1|Hd1].
  { pose proof (lzw1_facts d ltac:(lia)) as (Hs & Hn & Hp & Hsd). set (s := lzw w 1 d) in *. set (dn := d * 2 ^ s) in *.
    pose proof Hn as [Hn1 Hn2]. assert (0 < dn) as Hdn by nia.
    destruct (Z.ltb_spec a (B * B)) as [Hsa|Hla].
    - destruct (Z.eqb_spec s 0) as [Hs0|Hs0].
      + assert (dn = d) as Hdd by (unfold dn; rewrite Hs0, Z.pow_0_r; lia).
        assert (0 <= a / B < B) as Hab by (split; [apply Z.div_pos; lia | apply Z.div_lt_upper_bound; lia]).
        rewrite div1by1_ok by auto. cbn [snd].
        pose proof (Z.mod_pos_bound (a / B) dn Hdn) as Hmb. pose proof (Z.mod_pos_bound a B HB) as Hmb2.
        rewrite div2by1_ok by (auto; nia). cbn [snd].
        destruct (two_step dn a Hdn) as [Hm _]. rewrite Hm, Hdd. reflexivity.
      + destruct (shl_dword w a s) as [[n0 n1] n2] eqn:Esh.
        destruct (shl_dword_spec a s Ha ltac:(lia) _ _ _ Esh) as (Hlo & Hmh & Hlob). set (v := a * 2 ^ s) in *.
        assert (0 <= v / B < dn * B) as Hvb.
        { split; [apply Z.div_pos; unfold v; nia | apply Z.div_lt_upper_bound; unfold v; nia]. }
        rewrite Hmh. rewrite (div2by1_ok dn (v / B)) by auto. cbn [snd].
        pose proof (Z.mod_pos_bound (v / B) dn Hdn) as Hmb.
        rewrite div2by1_ok by (auto; nia). cbn [snd].
        destruct (two_step dn v Hdn) as [Hm _]. rewrite <- Hlo in Hm. rewrite Hm.
        destruct (div_scaled a d s Hd ltac:(lia)) as [_ Hr']. fold v dn in Hr'. rewrite Hr'. reflexivity.
    - destruct (words_of_spec w w_pos a Ha) as (Hwa & Hva & Hla').
      pose proof (nwords_ge3 w w_pos a Hla) as Hna.
      rewrite (rem_word_loop_spec w w_pos div1by1 div2by1 div1by1_ok div2by1_ok dn (words_of w a) Hn Hwa) by
        (intros E0; rewrite E0 in Hla'; cbn in Hla'; lia).
      rewrite Hva. f_equal.
      destruct (Z.eqb_spec s 0) as [Hs0|Hs0].
      + unfold dn. rewrite Hs0, Z.pow_0_r, Z.mul_1_r, Z.div_1_r. reflexivity.
      + pose proof (Z.mod_pos_bound a dn Hdn) as Hmb.
        assert (2 ^ s <= B) as H2s by nia.
        rewrite div2by1_ok by (auto; nia). cbn [snd]. unfold dn. apply mod_scaled_mod; lia. }
  destruct (Z.ltb_spec d (B * B)) as [Hd2|Hd2].
  { pose proof (lzw2_facts d ltac:(lia)) as (Hs & Hn & Hp & HsB). set (s := lzw w 2 d) in *. set (dn := d * 2 ^ s) in *.
    pose proof Hn as [Hn1 Hn2]. assert (0 < dn) as Hdn by nia.
    destruct (Z.ltb_spec a (B * B)) as [Hsa|Hla].
    - destruct (Z.eqb_spec s 0) as [Hs0|Hs0].
      + assert (dn = d) as Hdd by (unfold dn; rewrite Hs0, Z.pow_0_r; lia).
        rewrite div2by2_ok by (auto; lia). cbn [snd]. rewrite Hdd. reflexivity.
      + destruct (shl_dword w a s) as [[n0 n1] n2] eqn:Esh.
        destruct (shl_dword_spec a s Ha ltac:(lia) _ _ _ Esh) as (Hlo & Hmh & Hlob). set (v := a * 2 ^ s) in *.
        assert (0 <= v / B < dn) as Hvb.
        { split; [apply Z.div_pos; unfold v; nia | apply Z.div_lt_upper_bound; unfold v; nia]. }
        rewrite Hmh. rewrite div3by2_ok by auto. cbn [snd].
        replace (n0 + B * (v / B)) with v by (rewrite Hlo; pose proof (Z.div_mod v B ltac:(lia)); lia).
        destruct (div_scaled a d s Hd ltac:(lia)) as [_ Hr']. fold v dn in Hr'. rewrite Hr'. reflexivity.
    - destruct (words_of_spec w w_pos a Ha) as (Hwa & Hva & Hla').
      pose proof (nwords_ge3 w w_pos a Hla) as Hna.
      rewrite (rem_dword_loop_spec dn (words_of w a) Hn Hwa) by lia.
      rewrite Hva. f_equal.
      destruct (Z.eqb_spec s 0) as [Hs0|Hs0].
      + unfold dn. rewrite Hs0, Z.pow_0_r, Z.mul_1_r, Z.div_1_r. reflexivity.
      + pose proof (Z.mod_pos_bound a dn Hdn) as Hmb.
        destruct (shl_dword w (a mod dn) s) as [[r0 r1] r2] eqn:Esh.
        destruct (shl_dword_spec (a mod dn) s ltac:(lia) ltac:(lia) _ _ _ Esh) as (Hlo & Hmh & Hlob).
        set (v := a mod dn * 2 ^ s) in *.
        assert (2 ^ s <= B) as H2s by nia.
        assert (0 <= v / B < dn) as Hvb.
        { split; [apply Z.div_pos; unfold v; nia | apply Z.div_lt_upper_bound; unfold v; nia]. }
        rewrite Hmh. rewrite div3by2_ok by auto. cbn [snd].
        replace (r0 + B * (v / B)) with v by (rewrite Hlo; pose proof (Z.div_mod v B ltac:(lia)); lia).
        unfold v, dn. apply mod_scaled_mod; lia. }
  destruct (Z.ltb_spec a (B * B)) as [Hsa|Hla].
  { rewrite Z.mod_small by lia. reflexivity. }
  destruct (Nat.ltb_spec (length (words_of w a)) (length (words_of w d))) as [Hlt|Hge].
  - destruct (words_of_spec w w_pos a Ha) as (_ & _ & Hla'). destruct (words_of_spec w w_pos d ltac:(lia)) as (_ & _ & Hld).
    assert (a < d) by (apply (nwords_lt w w_pos); lia).
    rewrite Z.mod_small by lia. reflexivity.
  - destruct (large_arm a d Hla Hd2 Hge) as (q & r & -> & _ & Hr). cbn [rbind]. rewrite Hr. reflexivity.
Qed.

(** division through a ConstDivisor = plain division, at the word level *)
Corollary const_equals_plain a d : 0 <= a -> 0 < d ->
  const_div_rem w div2by1 div3by2 div4by2 mul_sub T a d = repr_div_rem w div2by1 div3by2 div4by2 mul_sub T a d /\
  const_rem w div1by1 div2by1 div2by2 div3by2 div4by2 mul_sub T a d =
    repr_rem w div1by1 div2by1 div2by2 div3by2 div4by2 mul_sub T a d.
Proof.
  intros Ha Hd. rewrite const_div_rem_correct, const_rem_correct, repr_rem_correct by assumption.
  rewrite (repr_div_rem_correct w w_pos div3by2 div3by2_ok mul_sub mul_sub_ok T T_ge div2by1 div4by2 div2by1_ok div4by2_ok a d Ha Hd).
  split; reflexivity.
Qed.

End DivConst.

(** *** the repaired defect F01 (commit 423c909) stays refuted.  Before the repair
    ConstSingleDivisor::rem_dword with stored shift 0 passed the whole double word to div_rem_2by1,
    whose debug assertion a_hi < divisor (the precondition of [contract_2by1]) fails for a high word
    >= divisor: modelled as the Undocumented panic. *)
Definition const_rem_single_unshifted_defective (w : Z) (div2by1 : Z -> Z -> Z * Z) (a d : Z) : result Z :=
  if a / Words.B w <? d then Ok (snd (div2by1 d a)) else Panic Undocumented.

Lemma const_rem_single_unshifted_defective_refuted :
  let a := (2 ^ 64 - 1) * 2 ^ 64 + 5 in let d := 2 ^ 64 - 1 in
  norm1 64 d /\ lzw 64 1 d = 0 /\ 0 <= a < Words.B 64 * Words.B 64 /\
  const_rem_single_unshifted_defective 64 (fun d a => (a / d, a mod d)) a d = Panic Undocumented /\
  const_rem_single_unshifted_defective 64 (fun d a => (a / d, a mod d)) a d <> Ok (a mod d) /\
  a mod d = 5.
Proof. vm_compute. repeat split; try discriminate; try reflexivity; intros H; discriminate H. Qed.
