(** C01 (L0): karatsuba::add_signed_mul_same_len meets the kernel contract for every word size
    w >= 8 and every length n >= 2 (the code requires n >= MIN_LEN = 3), given that the recursive
    multiplier meets it on all shorter equal-length operands. *)
From Dashu Require Import Base.Prelude Base.Words Int.RingAdd Int.RingAddProofs Int.RingMul Int.RingMulProofs.
Open Scope Z_scope.

Section KaraProofs.
Variable w : Z.
Hypothesis w_ge : 8 <= w.
Let w_pos : 0 < w. Proof. lia. Qed.
Notation BB := (B w).
Notation val := (value w).
Notation wfw := (wf w).

(** the recursive same-length multiplier is correct below length [n] *)
Definition same_ok (rec_same : mulfn) (n : nat) : Prop :=
  forall c s a b, pre w c a b -> length a = length b -> (length a < n)%nat -> mul_ok w rec_same c s a b.

Lemma half_facts (n : nat) : (2 <= n)%nat ->
  let mid := ((n + 1) / 2)%nat in (mid < n /\ n <= 2 * mid /\ 3 * mid <= 2 * n /\ 1 <= mid)%nat.
Proof.
  intros Hn mid. subst mid.
  pose proof (Nat.div_mod (n + 1) 2 ltac:(lia)). pose proof (Nat.mod_upper_bound (n + 1) 2 ltac:(lia)). lia.
Qed.

Lemma slice_all (n : nat) (l : list Z) : n = length l -> slice 0 n l = l.
Proof. intros ->. unfold slice. cbn [skipn]. apply firstn_all. Qed.

Theorem karatsuba_ok (rec_same : mulfn) c s a b :
  pre w c a b -> length a = length b -> (2 <= length a)%nat -> same_ok rec_same (length a) ->
  mul_ok w (karatsuba_same_len w rec_same) c s a b.
Proof.
  intros (Hc & Ha & Hb & L) Lab Hn Hrec. pose proof (B_ge_256 w w_ge) as HB256.
  unfold mul_ok, karatsuba_same_len. cbv zeta.
  destruct (half_facts (length a) Hn) as (M1 & M2 & M3 & M4). cbv zeta in M1, M2, M3, M4.
  set (n := length a) in *. set (mid := ((n + 1) / 2)%nat) in *.
  set (a_lo := firstn mid a). set (a_hi := skipn mid a). set (b_lo := firstn mid b). set (b_hi := skipn mid b).
  assert (Lalo : length a_lo = mid) by (subst a_lo; rewrite firstn_length_le; lia).
  assert (Lblo : length b_lo = mid) by (subst b_lo; rewrite firstn_length_le; lia).
  assert (Lahi : length a_hi = (n - mid)%nat) by (subst a_hi; rewrite skipn_length; lia).
  assert (Lbhi : length b_hi = (n - mid)%nat) by (subst b_hi; rewrite skipn_length; lia).
  assert (Walo : wfw a_lo) by (apply wf_firstn; auto). assert (Wblo : wfw b_lo) by (apply wf_firstn; auto).
  assert (Wahi : wfw a_hi) by (apply wf_skipn; auto). assert (Wbhi : wfw b_hi) by (apply wf_skipn; auto).
  assert (Sa : val a = val a_lo + BB ^ Z.of_nat mid * val a_hi).
  { rewrite (firstn_skipn_val w mid a). fold a_lo a_hi. unfold len. rewrite Lalo. reflexivity. }
  assert (Sb : val b = val b_lo + BB ^ Z.of_nat mid * val b_hi).
  { rewrite (firstn_skipn_val w mid b). fold b_lo b_hi. unfold len. rewrite Lblo. reflexivity. }
  (* a_lo * b_lo *)
  assert (Z0 : wfw (repeat 0 (2 * mid))) by apply wf_repeat_zero, w_pos.
  destruct (product_ok w w_ge rec_same (2 * mid) a_lo b_lo Walo Wblo ltac:(lia)) as (c_lo & E0 & Llo & Wlo & Vlo).
  { apply Hrec; [repeat split; auto; rewrite repeat_length; lia | lia | lia]. }
  rewrite E0. cbv beta iota.
  destruct (add_signed_same_len_in_place w (slice 0 (2 * mid) c) s c_lo) as [s0 k0] eqn:E1.
  destruct (step_signed_same w w_ge c 0 (2 * mid) s c_lo s0 k0 ltac:(lia) Hc Wlo Llo E1) as (L1 & W1 & K1 & V1).
  set (c1 := splice 0 s0 c) in *.
  destruct (add_signed_same_len_in_place w (slice mid (2 * mid) c1) s c_lo) as [s1 k1] eqn:E2.
  destruct (step_signed_same w w_ge c1 mid (2 * mid) s c_lo s1 k1 ltac:(lia) W1 Wlo Llo E2) as (L2 & W2 & K2 & V2).
  set (c2 := splice mid s1 c1) in *.
  (* a_hi * b_hi *)
  destruct (product_ok w w_ge rec_same (2 * (n - mid)) a_hi b_hi Wahi Wbhi ltac:(lia)) as (c_hi & E3 & Lhi & Whi & Vhi).
  { apply Hrec; [repeat split; auto; [apply wf_repeat_zero, w_pos | rewrite repeat_length; lia] | lia | lia]. }
  rewrite E3. cbv beta iota.
  destruct (add_signed_same_len_in_place w (slice (2 * mid) (length c2 - 2 * mid) c2) s c_hi) as [s2 k2] eqn:E4.
  destruct (step_signed_same w w_ge c2 (2 * mid) (length c2 - 2 * mid) s c_hi s2 k2 ltac:(lia) W2 Whi ltac:(lia) E4) as (L3 & W3 & K3 & V3).
  set (c3 := splice (2 * mid) s2 c2) in *.
  destruct (add_signed_in_place w (slice mid (2 * mid) c3) s c_hi) as [s3 k3] eqn:E5.
  destruct (step_signed w w_ge c3 mid (2 * mid) s c_hi s3 k3 ltac:(lia) W3 Whi ltac:(lia) E5) as (L4 & W4 & K4 & V4).
  set (c4 := splice mid s3 c3) in *.
  (* the differences *)
  destruct (sub_in_place_with_sign w a_lo a_hi) as [a_diff sa] eqn:E6.
  destruct (sub_in_place_with_sign_spec w w_pos a_lo a_hi ltac:(lia) Walo Wahi _ _ E6) as (Lad & Wad & Vad).
  destruct (sub_in_place_with_sign w b_lo b_hi) as [b_diff sb] eqn:E7.
  destruct (sub_in_place_with_sign_spec w w_pos b_lo b_hi ltac:(lia) Wblo Wbhi _ _ E7) as (Lbd & Wbd & Vbd).
  destruct (step_mul w w_ge rec_same c4 mid (2 * mid) (sign_mul (sign_neg s) (sign_mul sa sb)) a_diff b_diff
              ltac:(lia) W4 Wad Wbd ltac:(lia)) as (s4 & k4 & E8 & L5 & W5 & K5 & V5).
  { apply Hrec; [repeat split; auto; [apply wf_slice; auto | rewrite slice_length; lia] | lia | lia]. }
  rewrite E8. set (c5 := splice mid s4 c4) in *.
  (* carries *)
  destruct (add_signed_word_in_place w (slice (2 * mid) mid c5) k0) as [s5 k5] eqn:E9.
  destruct (step_signed_word w w_ge c5 (2 * mid) mid k0 s5 k5 ltac:(lia) W5 ltac:(lia) E9) as (L6 & W6 & K6 & _ & V6).
  specialize (K6 ltac:(lia)). set (c6 := splice (2 * mid) s5 c5) in *.
  destruct (add_signed_word_in_place w (slice (3 * mid) (length c6 - 3 * mid) c6) (k1 + k3 + k4 + k5)) as [s6 k6] eqn:E10.
  destruct (step_signed_word w w_ge c6 (3 * mid) (length c6 - 3 * mid) (k1 + k3 + k4 + k5) s6 k6 ltac:(lia) W6 ltac:(lia) E10)
    as (L7 & W7 & _ & _ & V7).
  exists (splice (3 * mid) s6 c6), (k2 + k6). split; [reflexivity|]. split; [lia|]. split; [exact W7|].
  (* the arithmetic *)
  rewrite V7, V6, V5, V4, V3, V2, V1.
  rewrite sgnz_mul, sgnz_mul, sgnz_neg. unfold signed in Vad, Vbd.
  replace (- sgnz s * (sgnz sa * sgnz sb) * (val a_diff * val b_diff))
    with (- sgnz s * ((sgnz sa * val a_diff) * (sgnz sb * val b_diff))) by ring.
  rewrite Vad, Vbd, Vlo, Vhi, Sa, Sb.
  assert (P2n : BB ^ len c = BB ^ Z.of_nat (3 * mid) * BB ^ Z.of_nat (length c6 - 3 * mid)).
  { rewrite <- pow_nat_add. unfold len. f_equal. f_equal. lia. }
  assert (P2n' : BB ^ len c = BB ^ Z.of_nat (2 * mid) * BB ^ Z.of_nat (length c2 - 2 * mid)).
  { rewrite <- pow_nat_add. unfold len. f_equal. f_equal. lia. }
  replace (3 * mid)%nat with (mid + (mid + mid))%nat in * by lia.
  replace (2 * mid)%nat with (mid + mid)%nat in * by lia.
  rewrite !pow_nat_add in *. cbn [Z.of_nat] in *. rewrite ?Z.pow_0_r in *.
  set (X := BB ^ Z.of_nat mid) in *.
  set (Y2 := BB ^ Z.of_nat (length c2 - (mid + mid))) in *.
  set (Y3 := BB ^ Z.of_nat (length c6 - (mid + (mid + mid)))) in *.
  set (P := BB ^ len c) in *.
  assert (H2 : k2 * (X * X * Y2) = k2 * P) by (rewrite P2n'; ring).
  assert (H6 : k6 * (X * (X * X) * Y3) = k6 * P) by (rewrite P2n; ring).
  clearbody X Y2 Y3 P. clear - H2 H6.
  ring_simplify. ring_simplify in H2. ring_simplify in H6. lia.
Qed.

End KaraProofs.
