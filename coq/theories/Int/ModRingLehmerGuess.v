(** C13 (round 4) - TOTALITY of C12's as-is model of the Lehmer extended gcd (GrlLehmer.v), part 1: lehmer_guess.
    C12 (GrlLehmerProof.v) proves partial correctness: IF gcd_ext_in_place returns, the result is the gcd with the
    Bezout congruence.  The modular inverse needs more: the function returns for every operand pair (no debug assertion,
    no overflowing word operation, no negative intermediate value) and the cofactor is below lhs.  This file proves
    the facts about lehmer_guess / lehmer_guess_dword this needs, for every word size:
      * no checked word operation of the loop overflows and no division by zero happens (the `fits` tests of the model);
      * the returned matrix (a, b, c, d), relative to the guessed top parts X0 >= Y0:  X0' = a X0 - b Y0 >= b and
        Y0' = d Y0 - c X0 >= c  (so the full-length results a x - b y, d y - c x are not negative);
      * its SHAPE: after an odd number of half steps  a >= c, b >= d and X0' + a + c <= Y0'  (the exact Jebelean test:
        the full-length results come out in the order x' <= y');  after an even number  c >= a, d >= b and, with Q the
        last quotient,  c <= (Q+1) a, d <= (Q+1) b, 2Q <= X0' - b.
    The second-half test of the source subtracts `c` where Jebelean's condition has `b` (GrlLehmer.v says so): the
    order x' > y' is then NOT guaranteed after an even number of half steps, the code compares and swaps, and the
    cofactors can be in the order t0 > t1.  The even shape above is what still bounds them (ModRingLehmerProofs.v). *)
From Dashu Require Import Base.Prelude Int.GrlSpec Int.GrlModel Int.GrlLehmer Int.GrlLehmerProof.
Open Scope Z_scope.

(** one half step: no panic under the range facts, and everything the accepted step says (incl. the last test) *)
Lemma half_ok : forall B L u0 u1 v0 v1 num den sub,
  den <> 0 ->
  (let q := num / den in
   0 <= q * v0 /\ u0 + q * v0 < B /\ 0 <= u0 /\ 0 <= q * v1 /\ u1 + q * v1 < B /\ 0 <= u1 /\
   0 <= q * den /\ q * den <= num /\ num < B) ->
  (let q := num / den in
   u0 + q * v0 <= L -> u1 + q * v1 <= L -> u1 + q * v1 <= num - q * den ->
   0 <= (num - q * den) + (u0 + q * v0) < B /\ 0 <= den - sub < B) ->
  match lehmer_half B L u0 u1 v0 v1 num den sub with
  | HPanic _ => False
  | HBreak => True
  | HStep r s t => let q := num / den in
      r = u0 + q * v0 /\ s = u1 + q * v1 /\ t = num - q * den /\ r <= L /\ s <= L /\ s <= t /\ t + r <= den - sub
  end.
Proof.
  intros B L u0 u1 v0 v1 num den sub Hd H1 H2. unfold lehmer_half.
  destruct (Z.eqb_spec den 0); [contradiction|]. cbv zeta in H1, H2. set (q := num / den) in *.
  destruct (Z.ltb_spec L q); [exact I|].
  destruct H1 as (A1 & A2 & A3 & A4 & A5 & A6 & A7 & A8 & A9).
  assert (fits B (q * v0) && fits B (u0 + q * v0) && fits B (q * v1) && fits B (u1 + q * v1)
          && fits B (q * den) && fits B (num - q * den) = true) as F.
  { unfold fits. repeat (apply andb_true_intro; split); try (apply Z.leb_le; lia); apply Z.ltb_lt; lia. }
  rewrite F. cbn [negb].
  destruct (Z.ltb_spec L (u0 + q * v0)); [exact I|].
  destruct (Z.ltb_spec L (u1 + q * v1)); [exact I|]. cbn [orb].
  destruct (Z.ltb_spec (num - q * den) (u1 + q * v1)); [exact I|].
  destruct (H2 ltac:(lia) ltac:(lia) ltac:(lia)) as [[B1 B2] [B3 B4]].
  assert (fits B (num - q * den + (u0 + q * v0)) && fits B (den - sub) = true) as F2.
  { unfold fits. repeat (apply andb_true_intro; split); try (apply Z.leb_le; lia); apply Z.ltb_lt; lia. }
  rewrite F2. cbn [negb].
  destruct (Z.ltb_spec (den - sub) (num - q * den + (u0 + q * v0))); [exact I|].
  cbv zeta. repeat split; lia.
Qed.

(** the shapes *)
Definition odd_shape (a b c d xb yb : Z) : Prop := c <= a /\ d <= b /\ 1 <= b /\ xb + a + c <= yb.
Definition even_shape (a b c d xb yb : Z) : Prop :=
  a <= c /\ b <= d /\ 1 <= b /\ exists Q, 1 <= Q /\ c <= (Q + 1) * a /\ d <= (Q + 1) * b /\ 2 * Q <= xb - b.

(** what the guess returns, relative to the top parts X0, Y0 it was run on *)
Definition guess_post (L X0 Y0 a b c d : Z) : Prop :=
  ginv L a b c d /\ b <= a * X0 - b * Y0 /\ c <= d * Y0 - c * X0 /\
  (b = 0 \/ odd_shape a b c d (a * X0 - b * Y0) (d * Y0 - c * X0) \/ even_shape a b c d (a * X0 - b * Y0) (d * Y0 - c * X0)).

(** the state at the head of the loop *)
Definition head_inv (L X0 Y0 a b c d xb yb : Z) : Prop :=
  ginv L a b c d /\ xb = a * X0 - b * Y0 /\ yb = d * Y0 - c * X0 /\ b <= xb /\ c <= yb /\ 0 <= yb <= xb /\
  ((a = 1 /\ b = 0 /\ c = 0 /\ d = 1) \/ (a <= b /\ c <= d /\ even_shape a b c d xb yb)).

Lemma ginv_pos : forall L a b c d, ginv L a b c d -> 1 <= a /\ 1 <= d.
Proof.
  intros L a b c d (Ga & Gb & Gc & Gd & Gdet). assert (0 <= b * c) by (apply Z.mul_nonneg_nonneg; lia).
  assert (a * d <> 0) as Hn by lia. split.
  - destruct (Z.eq_dec a 0) as [e|]; [rewrite e in Hn; lia|lia].
  - destruct (Z.eq_dec d 0) as [e|]; [rewrite e, Z.mul_0_r in Hn; lia|lia].
Qed.

(** r * y <= M, 1 <= r, 1 <= y  ->  r + y <= M + 1 *)
Lemma sum_le_prod : forall r y M, 1 <= r -> 1 <= y -> r * y <= M -> r + y <= M + 1.
Proof.
  intros r y M Hr Hy H. assert (0 <= (r - 1) * (y - 1)) as P by (apply Z.mul_nonneg_nonneg; lia).
  replace ((r - 1) * (y - 1)) with (r * y - r - y + 1) in P by ring. lia.
Qed.

(** q * k * y <= k * x when q = x / y *)
Lemma quot_mul_le : forall x y k, 0 < y -> 0 <= x -> 0 <= k -> x / y * k * y <= k * x.
Proof.
  intros x y k Hy Hx Hk. pose proof (Z.mul_div_le x y Hy) as H.
  replace (x / y * k * y) with (k * (y * (x / y))) by ring. apply Z.mul_le_mono_nonneg_l; assumption.
Qed.

Theorem guess_loop_ok : forall fuel B L X0 Y0 a b c d xb yb,
  1 <= L -> L < B -> 0 <= Y0 -> X0 < B ->
  head_inv L X0 Y0 a b c d xb yb ->
  match lehmer_guess_loop fuel B L a b c d xb yb with
  | Ok (a', b', c', d') => guess_post L X0 Y0 a' b' c' d'
  | OutOfFuel => True
  | _ => False
  end.
Proof.
  induction fuel as [|k IH]; intros B L X0 Y0 a b c d xb yb HL HLB HY0 HXB HI; [exact I|].
  cbn [lehmer_guess_loop].
  destruct HI as (G & Exb & Eyb & Hbx & Hcy & [Hy0 Hyx] & Shape).
  pose proof (ginv_pos _ _ _ _ _ G) as [Pa Pd].
  pose proof G as (Ga & Gb & Gc & Gd & Gdet).
  (* the exits that return the head state *)
  assert (guess_post L X0 Y0 a b c d) as PostHead.
  { unfold guess_post. rewrite <- Exb, <- Eyb. split; [exact G|]. split; [exact Hbx|]. split; [exact Hcy|].
    destruct Shape as [(_ & -> & _ & _) | (_ & _ & Ev)]; [left; reflexivity | right; right; exact Ev]. }
  destruct (Z.eqb_spec yb 0) as [Y0e|Y0n]; [exact PostHead|].
  (* identities *)
  assert (d * xb + b * yb = X0) as I1.
  { rewrite Exb, Eyb. replace (d * (a * X0 - b * Y0) + b * (d * Y0 - c * X0)) with ((a * d - b * c) * X0) by ring. rewrite Gdet. ring. }
  assert (c * xb + a * yb = Y0) as I2.
  { rewrite Exb, Eyb. replace (c * (a * X0 - b * Y0) + a * (d * Y0 - c * X0)) with ((a * d - b * c) * Y0) by ring. rewrite Gdet. ring. }
  assert (1 <= yb) as Py by lia.
  assert (1 <= xb / yb) as Hq by (apply Z.div_le_lower_bound; lia).
  set (q := xb / yb) in *.
  pose proof (Z.mul_div_le xb yb ltac:(lia)) as Hqy. fold q in Hqy.
  pose proof (Z.mod_pos_bound xb yb ltac:(lia)) as Hm. rewrite Z.mod_eq in Hm by lia. fold q in Hm.
  pose proof (quot_mul_le xb yb c ltac:(lia) ltac:(lia) ltac:(lia)) as Q1. fold q in Q1.
  pose proof (quot_mul_le xb yb d ltac:(lia) ltac:(lia) ltac:(lia)) as Q2. fold q in Q2.
  assert (0 <= q * c) as Nqc by (apply Z.mul_nonneg_nonneg; lia).
  assert (0 <= q * d) as Nqd by (apply Z.mul_nonneg_nonneg; lia).
  assert (0 <= d * xb) as Ndx by (apply Z.mul_nonneg_nonneg; lia).
  assert (0 <= c * xb) as Ncx by (apply Z.mul_nonneg_nonneg; lia).
  assert (0 <= a * yb) as Nay by (apply Z.mul_nonneg_nonneg; lia).
  assert (0 <= b * yb) as Nby by (apply Z.mul_nonneg_nonneg; lia).
  assert ((a + q * c) * yb <= Y0) as R1.
  { replace ((a + q * c) * yb) with (a * yb + q * c * yb) by ring. lia. }
  assert ((b + q * d) * yb <= X0) as R2.
  { replace ((b + q * d) * yb) with (b * yb + q * d * yb) by ring. lia. }
  assert (a + q * c <= Y0) as R1'.
  { assert ((a + q * c) * 1 <= (a + q * c) * yb) by (apply Z.mul_le_mono_nonneg_l; lia). lia. }
  assert (b + q * d <= X0) as R2'.
  { assert ((b + q * d) * 1 <= (b + q * d) * yb) by (apply Z.mul_le_mono_nonneg_l; lia). lia. }
  assert (xb <= X0) as HxX.
  { assert (1 * xb <= d * xb) by (apply Z.mul_le_mono_nonneg_r; lia). lia. }
  assert (Y0 <= X0) as HYX.
  { (* X0 - Y0 = (d - c) xb + (b - a) yb, non-negative in both shapes *)
    destruct Shape as [(-> & -> & -> & ->) | (Hab & Hcd & _)]; [lia|].
    assert (c * xb <= d * xb) by (apply Z.mul_le_mono_nonneg_r; lia).
    assert (a * yb <= b * yb) by (apply Z.mul_le_mono_nonneg_r; lia). lia. }
  pose proof (half_ok B L a b c d xb yb c Y0n) as H1.
  cbv zeta in H1. fold q in H1.
  specialize (H1 ltac:(replace (q * yb) with (yb * q) by ring; repeat split; lia)).
  assert (a + q * c <= L -> b + q * d <= L -> b + q * d <= xb - q * yb ->
          0 <= xb - q * yb + (a + q * c) < B /\ 0 <= yb - c < B) as H1b.
  { intros _ _ _. split; [|lia].
    pose proof (sum_le_prod (a + q * c) yb Y0 ltac:(lia) Py R1). lia. }
  specialize (H1 H1b). clear H1b.
  destruct (lehmer_half B L a b c d xb yb c) as [|?|a1 b1 xb1] eqn:E1; [exact PostHead|contradiction|].
  destruct H1 as (Ea1 & Eb1 & Exb1 & La1 & Lb1 & Hbx1 & T1).
  (* the state after the first half step *)
  assert (a1 * d - b1 * c = 1) as Det1.
  { rewrite Ea1, Eb1. replace ((a + q * c) * d - (b + q * d) * c) with (a * d - b * c) by ring. exact Gdet. }
  assert (ginv L a1 b1 c d) as G1 by (unfold ginv; repeat split; first [exact Det1 | lia]).
  assert (xb1 = a1 * X0 - b1 * Y0) as Exb1'.
  { rewrite Exb1, Ea1, Eb1, Exb, Eyb. ring. }
  assert (a1 <= b1 /\ c <= d) as [Hab1 Hcd1].
  { destruct Shape as [(-> & -> & -> & ->) | (Hab & Hcd & _)]; [lia|].
    assert (q * c <= q * d) by (apply Z.mul_le_mono_nonneg_l; lia). lia. }
  assert (c <= a1) as Hca1.
  { assert (1 * c <= q * c) by (apply Z.mul_le_mono_nonneg_r; lia). lia. }
  assert (d <= b1) as Hdb1.
  { assert (1 * d <= q * d) by (apply Z.mul_le_mono_nonneg_r; lia). lia. }
  assert (odd_shape a1 b1 c d xb1 yb) as Odd by (unfold odd_shape; lia).
  assert (guess_post L X0 Y0 a1 b1 c d) as PostOdd.
  { unfold guess_post. rewrite <- Exb1', <- Eyb. split; [exact G1|]. split; [exact Hbx1|]. split; [exact Hcy|]. right; left; exact Odd. }
  destruct (Z.eqb_spec xb1 b1) as [|Nxb]; [exact PostOdd|].
  (* second half *)
  assert (1 <= xb1) as Px1 by lia.
  assert (d * xb1 + b1 * yb = X0) as J1.
  { rewrite Exb1, Eb1. replace (d * (xb - q * yb) + (b + q * d) * yb) with (d * xb + b * yb) by ring. exact I1. }
  assert (c * xb1 + a1 * yb = Y0) as J2.
  { rewrite Exb1, Ea1. replace (c * (xb - q * yb) + (a + q * c) * yb) with (c * xb + a * yb) by ring. exact I2. }
  assert (xb1 < yb) as Hxy1 by lia.
  assert (1 <= a1) as Pa1 by lia.
  clear - IH HL HLB HY0 HXB G1 Det1 Exb1' Eyb Hbx1 Hcy T1 Hab1 Hcd1 Hca1 Hdb1 PostOdd Px1 J1 J2 Hxy1 Nxb HYX Py Pd Pa1.
  pose proof G1 as (Ga1 & Gb1 & Gc & Gd & _).
  assert (1 <= yb / xb1) as Hq2 by (apply Z.div_le_lower_bound; lia).
  set (q2 := yb / xb1) in *.
  pose proof (Z.mul_div_le yb xb1 ltac:(lia)) as Hq2y. fold q2 in Hq2y.
  pose proof (Z.mod_pos_bound yb xb1 ltac:(lia)) as Hm2. rewrite Z.mod_eq in Hm2 by lia. fold q2 in Hm2.
  pose proof (quot_mul_le yb xb1 b1 ltac:(lia) ltac:(lia) ltac:(lia)) as Q3. fold q2 in Q3.
  pose proof (quot_mul_le yb xb1 a1 ltac:(lia) ltac:(lia) ltac:(lia)) as Q4. fold q2 in Q4.
  assert (0 <= q2 * b1) as Nqb by (apply Z.mul_nonneg_nonneg; lia).
  assert (0 <= q2 * a1) as Nqa by (apply Z.mul_nonneg_nonneg; lia).
  assert (0 <= d * xb1) as Ndx1 by (apply Z.mul_nonneg_nonneg; lia).
  assert (0 <= c * xb1) as Ncx1 by (apply Z.mul_nonneg_nonneg; lia).
  assert (0 <= a1 * yb) as Nay1 by (apply Z.mul_nonneg_nonneg; lia).
  assert (0 <= b1 * yb) as Nby1 by (apply Z.mul_nonneg_nonneg; lia).
  assert ((d + q2 * b1) * xb1 <= X0) as S1.
  { replace ((d + q2 * b1) * xb1) with (d * xb1 + q2 * b1 * xb1) by ring. lia. }
  assert ((c + q2 * a1) * xb1 <= Y0) as S2.
  { replace ((c + q2 * a1) * xb1) with (c * xb1 + q2 * a1 * xb1) by ring. lia. }
  assert (d + q2 * b1 <= X0) as S1'.
  { assert ((d + q2 * b1) * 1 <= (d + q2 * b1) * xb1) by (apply Z.mul_le_mono_nonneg_l; lia). lia. }
  assert (c + q2 * a1 <= Y0) as S2'.
  { assert ((c + q2 * a1) * 1 <= (c + q2 * a1) * xb1) by (apply Z.mul_le_mono_nonneg_l; lia). lia. }
  assert (yb <= X0) as HyX.
  { assert (1 * yb <= b1 * yb) by (apply Z.mul_le_mono_nonneg_r; lia). lia. }
  pose proof (half_ok B L d c b1 a1 yb xb1 c ltac:(lia)) as H2.
  cbv zeta in H2. fold q2 in H2.
  specialize (H2 ltac:(replace (q2 * xb1) with (xb1 * q2) by ring; repeat split; lia)).
  assert (d + q2 * b1 <= L -> c + q2 * a1 <= L -> c + q2 * a1 <= yb - q2 * xb1 ->
          0 <= yb - q2 * xb1 + (d + q2 * b1) < B /\ 0 <= xb1 - c < B) as H2b.
  { intros _ _ _. split; [|lia].
    pose proof (sum_le_prod (d + q2 * b1) xb1 X0 ltac:(lia) Px1 S1). lia. }
  specialize (H2 H2b). clear H2b.
  destruct (lehmer_half B L d c b1 a1 yb xb1 c) as [|?|d2 c2 yb2] eqn:E2; [exact PostOdd|contradiction|].
  destruct H2 as (Ed2 & Ec2 & Eyb2 & Ld2 & Lc2 & Hcy2 & T2).
  assert (a1 * d2 - b1 * c2 = 1) as Det2.
  { rewrite Ed2, Ec2. replace (a1 * (d + q2 * b1) - b1 * (c + q2 * a1)) with (a1 * d - b1 * c) by ring. exact Det1. }
  assert (ginv L a1 b1 c2 d2) as G2 by (unfold ginv; repeat split; first [exact Det2 | lia]).
  assert (yb2 = d2 * Y0 - c2 * X0) as Eyb2'.
  { rewrite Eyb2, Ed2, Ec2, Exb1', Eyb. ring. }
  assert (a1 <= c2) as Hac2.
  { assert (1 * a1 <= q2 * a1) by (apply Z.mul_le_mono_nonneg_r; lia). lia. }
  assert (b1 <= d2) as Hbd2.
  { assert (1 * b1 <= q2 * b1) by (apply Z.mul_le_mono_nonneg_r; lia). lia. }
  assert (c2 <= d2) as Hcd2.
  { assert (q2 * a1 <= q2 * b1) by (apply Z.mul_le_mono_nonneg_l; lia). lia. }
  assert (even_shape a1 b1 c2 d2 xb1 yb2) as Even.
  { unfold even_shape. split; [exact Hac2|]. split; [exact Hbd2|]. split; [lia|]. exists q2.
    split; [exact Hq2|]. split; [rewrite Ec2; lia|]. split; [rewrite Ed2; lia|].
    (* xb1 >= yb2 + d2 + c >= c2 + d2 + c, and c2 + d2 - b1 >= 2 q2 *)
    assert (q2 * 1 <= q2 * a1) by (apply Z.mul_le_mono_nonneg_l; lia).
    assert ((q2 - 1) * 1 <= (q2 - 1) * b1) by (apply Z.mul_le_mono_nonneg_l; lia).
    replace ((q2 - 1) * b1) with (q2 * b1 - b1) in * by ring. lia. }
  assert (guess_post L X0 Y0 a1 b1 c2 d2) as PostEven.
  { unfold guess_post. rewrite <- Exb1', <- Eyb2'. split; [exact G2|]. split; [exact Hbx1|]. split; [exact Hcy2|]. right; right; exact Even. }
  destruct (Z.eqb_spec yb2 c2); [exact PostEven|].
  apply (IH B L X0 Y0); try assumption.
  unfold head_inv. split; [exact G2|]. split; [exact Exb1'|]. split; [exact Eyb2'|]. split; [exact Hbx1|]. split; [exact Hcy2|].
  split; [lia|]. right. split; [exact Hab1|]. split; [exact Hcd2|]. exact Even.
Qed.

(** the two guesses, for top parts 0 <= Y0 <= X0 < B *)
Lemma head_init : forall L X0 Y0, 1 <= L -> 0 <= Y0 <= X0 -> head_inv L X0 Y0 1 0 0 1 X0 Y0.
Proof.
  intros L X0 Y0 HL H. unfold head_inv. split; [apply ginv_init; exact HL|]. repeat split; lia.
Qed.

Theorem lehmer_guess_ok : forall w X0 Y0, 2 <= w -> 0 <= Y0 <= X0 -> X0 < 2 ^ w ->
  exists a b c d, lehmer_guess w X0 Y0 = Ok (a, b, c, d) /\ guess_post (coeff_limit w) X0 Y0 a b c d.
Proof.
  intros w X0 Y0 Hw H HB. pose proof (coeff_limit_facts w Hw) as [L1 L2].
  pose proof (lehmer_guess_total w X0 Y0 Hw (proj1 H)) as T. unfold lehmer_guess in *.
  destruct (Z.ltb_spec X0 Y0); [lia|].
  pose proof (guess_loop_ok (guess_fuel w) (2 ^ w) (coeff_limit w) X0 Y0 1 0 0 1 X0 Y0 L1 ltac:(lia) (proj1 H) HB
                (head_init _ _ _ L1 H)) as P.
  destruct (lehmer_guess_loop _ _ _ 1 0 0 1 X0 Y0) as [[[[a b] c] d]|?|?|]; try contradiction; try congruence.
  exists a, b, c, d. split; [reflexivity|exact P].
Qed.

Theorem lehmer_guess_dword_ok : forall w X0 Y0, 2 <= w -> 0 <= Y0 <= X0 -> X0 < 2 ^ (2 * w) ->
  exists a b c d, lehmer_guess_dword w X0 Y0 = Ok (a, b, c, d) /\ guess_post (coeff_limit w) X0 Y0 a b c d.
Proof.
  intros w X0 Y0 Hw H HB. pose proof (coeff_limit_facts w Hw) as [L1 L2].
  pose proof (lehmer_guess_dword_total w X0 Y0 Hw (proj1 H)) as T. unfold lehmer_guess_dword in *.
  destruct (Z.ltb_spec X0 Y0); [lia|].
  assert (2 ^ w <= 2 ^ (2 * w)) as HP by (apply Z.pow_le_mono_r; lia).
  pose proof (guess_loop_ok (guess_fuel w) (2 ^ (2 * w)) (coeff_limit w) X0 Y0 1 0 0 1 X0 Y0 L1 ltac:(lia) (proj1 H) HB
                (head_init _ _ _ L1 H)) as P.
  destruct (lehmer_guess_loop _ _ _ 1 0 0 1 X0 Y0) as [[[[a b] c] d]|?|?|]; try contradiction; try (cbn [rbind] in T; congruence).
  cbn [rbind]. pose proof P as ((Ga & Gb & Gc & Gd & _) & _).
  exists a, b, c, d. rewrite !Z.mod_small by lia. split; [reflexivity|exact P].
Qed.
