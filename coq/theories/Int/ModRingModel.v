(** C13 - as-is model of integer/src/modular/{repr,convert,add,mul,pow,div,reducer}.rs and of the
    remainder functions of div_const.rs (definitions only; proofs in ModRingProofs.v).

    Level: values.  A ring element is its raw word content read as a number; the representation
    invariant is  raw = (x mod m) * 2^shift  (residues are stored pre-shifted by the normalisation
    shift of the divisor).  Branches, case splits on operand sizes, conditional subtractions with
    their carry flags, debug assertions (-> [Panic Undocumented]) and the calls into num-modular are
    transcribed; the multi-word kernels the code calls (mul::multiply, sqr::sqr,
    div::div_rem_in_place, div::fast_rem_by_normalized_word/dword, the gcd_ext family) enter by their contracts
    (value-level meaning) - they are the subject of C01/C02/C12.

    num-modular enters as section variables: [nm_div_rem_2by1], [nm_div_rem_3by2], [nm_invm]; the
    model checks the documented precondition of every call ([a_hi < divisor]) and panics when it is
    violated, exactly like the dependency's debug assertion. *)
From Dashu Require Import Base.Prelude Base.Words Int.ModRingSpec Int.ModRingPowModel.
Open Scope Z_scope.

Inductive kind := KSingle | KDouble | KLarge.

Definition kind_eqb (a b : kind) : bool :=
  match a, b with KSingle, KSingle | KDouble, KDouble | KLarge, KLarge => true | _, _ => false end.

(** ConstDivisor: modulus, normalisation shift, word count of the normalised divisor, identity *)
Record ring := mkring { r_kind : kind; r_m : Z; r_shift : Z; r_n : Z; r_id : Z }.

(** Reduced: raw content + the ring it points to *)
Record reduced := mkred { e_raw : Z; e_ring : ring }.

Definition bitlen (x : Z) : Z := if x <=? 0 then 0 else Z.log2 x + 1.

Section Model.
Variable w : Z.                                         (* WORD_BITS *)
Variable nm_div_rem_2by1 : Z -> Z -> Z * Z.             (* Normalized2by1Divisor{d}.div_rem_2by1(a) *)
Variable nm_div_rem_3by2 : Z -> Z -> Z -> Z * Z.        (* Normalized3by2Divisor{d}.div_rem_3by2(a_lo, a_hi) *)
Variable nm_invm : Z -> Z -> option Z.                  (* x.invm(&m) *)
Variable big_gcd_ext : Z -> Z -> Z * Z * sign.          (* gcd::gcd_ext_{word,dword,in_place}: (g, |b|, sign b) *)

Local Notation B := (2 ^ w).

Definition nwords (x : Z) : Z := (bitlen x + w - 1) / w.    (* locate_top_word_plus_one *)
Definition nd (r : ring) : Z := r_m r * 2 ^ r_shift r.      (* normalized_divisor *)
Definition tsize (r : ring) : Z := B ^ r_n r.               (* capacity of the raw container *)

(** ConstDivisor::new / from_word / from_dword *)
Definition new_ring (id m : Z) : result ring :=
  if m <=? 0 then Panic DivideBy0
  else if m <? B then Ok (mkring KSingle m (w - bitlen m) 1 id)
  else if m <? B * B then Ok (mkring KDouble m (2 * w - bitlen m) 2 id)
  else let n := nwords m in Ok (mkring KLarge m (n * w - bitlen m) n id).

(** is_valid (after the repair of F03 the multi-word test is strict as well) *)
Definition is_valid (r : ring) (raw : Z) : bool :=
  (0 <=? raw) && (raw mod 2 ^ r_shift r =? 0) && (raw <? nd r).

(** ReducedLarge::is_valid before the repair: cmp_same_len(..).is_le() *)
Definition is_valid_prefix (r : ring) (raw : Z) : bool :=
  (0 <=? raw) && (raw mod 2 ^ r_shift r =? 0) && (raw <=? nd r).

(** Reduced::from_single / from_double / from_large: debug_assert!(raw.is_valid(ring)) *)
Definition mk (r : ring) (raw : Z) : result reduced :=
  if is_valid r raw then Ok (mkred raw r) else Panic Undocumented.

(** ---------------- calls into num-modular ---------------- *)
Definition div_rem_1by1 (d a : Z) : Z * Z := if a <? d then (0, a) else (1, a - d).  (* also div_rem_2by2 *)

Definition call_2by1 (d a : Z) : result Z :=
  if a / B <? d then Ok (snd (nm_div_rem_2by1 d a)) else Panic Undocumented.

Definition call_3by2 (d a_lo a_hi : Z) : result Z :=
  if a_hi <? d then Ok (snd (nm_div_rem_3by2 d a_lo a_hi)) else Panic Undocumented.

(** div_rem_4by2(a_lo, a_hi): two 3by2 steps *)
Definition call_4by2 (d a : Z) : result Z :=
  let a_lo := a mod (B * B) in
  let a_hi := a / (B * B) in
  let a0 := a_lo mod B in
  let a1 := a_lo / B in
  rbind (call_3by2 d a1 a_hi) (fun r1 => call_3by2 d a0 r1).

(** math::shl_dword: (n0, n1, n2) with dw << shift = n0 + B n1 + B^2 n2; the code ORs the carry of
    the low word into the shifted high word - the bit ranges are disjoint, so this is an addition *)
Definition shl_dword (dw s : Z) : Z * Z * Z :=
  let lo := dw mod B in
  let hi := dw / B in
  let t := lo * 2 ^ s in
  let u := hi * 2 ^ s + t / B in
  (t mod B, u mod B, u / B).

(** ---------------- div_const.rs: (x << shift) % normalized divisor ---------------- *)
Definition s_rem_word (r : ring) (x : Z) : result Z :=
  if r_shift r =? 0 then Ok (snd (div_rem_1by1 (nd r) x))
  else call_2by1 (nd r) (x * 2 ^ r_shift r).

(** ConstSingleDivisor::rem_dword after the repair of F02 (the high word is reduced first) *)
Definition s_rem_dword (r : ring) (x : Z) : result Z :=
  if r_shift r =? 0 then
    let r1 := snd (div_rem_1by1 (nd r) (x / B)) in
    call_2by1 (nd r) (x mod B + B * r1)
  else
    let '(n0, n1, n2) := shl_dword x (r_shift r) in
    rbind (call_2by1 (nd r) (n1 + B * n2)) (fun r1 => call_2by1 (nd r) (n0 + B * r1)).

(** ... and before it: the whole double word went into div_rem_2by1 *)
Definition s_rem_dword_prefix (r : ring) (x : Z) : result Z :=
  if r_shift r =? 0 then call_2by1 (nd r) x
  else
    let '(n0, n1, n2) := shl_dword x (r_shift r) in
    rbind (call_2by1 (nd r) (n1 + B * n2)) (fun r1 => call_2by1 (nd r) (n0 + B * r1)).

(** rem_large: fast_rem_by_normalized_word (contract: words mod d), then the shift is applied *)
Definition s_rem_large (r : ring) (x : Z) : result Z :=
  let rem := x mod nd r in
  if r_shift r =? 0 then Ok rem else call_2by1 (nd r) (rem * 2 ^ r_shift r).

(** ReducedWord::from_ubig *)
Definition s_from_ubig (r : ring) (x : Z) : result Z :=
  if x <? B then s_rem_word r x else if x <? B * B then s_rem_dword r x else s_rem_large r x.

Definition d_rem_dword (r : ring) (x : Z) : result Z :=
  if r_shift r =? 0 then Ok (snd (div_rem_1by1 (nd r) x))
  else let '(n0, n1, n2) := shl_dword x (r_shift r) in call_3by2 (nd r) n0 (n1 + B * n2).

Definition d_rem_large (r : ring) (x : Z) : result Z :=
  let rem := x mod nd r in
  if r_shift r =? 0 then Ok rem
  else let '(r0, r1, r2) := shl_dword rem (r_shift r) in call_3by2 (nd r) r0 (r1 + B * r2).

Definition d_from_ubig (r : ring) (x : Z) : result Z :=
  if x <? B * B then d_rem_dword r x else d_rem_large r x.

(** ConstLargeDivisor::rem_repr / rem_large *)
Definition l_rem_repr (r : ring) (x : Z) : Z :=
  if x <? B * B then
    let '(lo, mid, hi) := shl_dword x (r_shift r) in lo + B * mid + B * B * hi
  else
    let len := nwords x + 1 in               (* the carry word is always pushed *)
    let v := x * 2 ^ r_shift r in
    if r_n r <=? len then v mod nd r else v.

(** IntoRing for UBig *)
Definition from_ubig (r : ring) (x : Z) : result reduced :=
  match r_kind r with
  | KSingle => rbind (s_from_ubig r x) (mk r)
  | KDouble => rbind (d_from_ubig r x) (mk r)
  | KLarge => mk r (l_rem_repr r x)
  end.

(** ---------------- add.rs ---------------- *)
(** num-modular Vanilla::add on an unsigned type of size T, and add_in_place / dbl_in_place of the
    multi-word ring (same shape: wrapped sum, carry flag, conditional subtraction, assertion) *)
Definition vanilla_add (T m l r : Z) : result Z :=
  let sum := (l + r) mod T in
  let overflow := T <=? l + r in
  if overflow || (m <=? sum) then
    let sum2 := (sum - m) mod T in
    let overflow2 := sum <? m in
    if Bool.eqb overflow overflow2 then Ok sum2 else Panic Undocumented
  else Ok sum.

Definition vanilla_sub (m l r : Z) : Z := if r <=? l then l - r else m - (r - l).
Definition vanilla_neg (m x : Z) : Z := if x =? 0 then 0 else m - x.

(** sub_in_place / sub_in_place_swap of the multi-word ring: wrapped difference, borrow, add back *)
Definition large_sub (T m l r : Z) : result Z :=
  let diff := (l - r) mod T in
  if l <? r then
    let s := diff + m in
    if T <=? s then Ok (s mod T) else Panic Undocumented
  else Ok diff.

(** negate_in_place *)
Definition large_neg (m x : Z) : result Z :=
  if x =? 0 then Ok x else if m <? x then Panic Undocumented else Ok (m - x).

Definition neg_asis (a : reduced) : result reduced :=
  let r := e_ring a in
  match r_kind r with
  | KLarge =>
      if is_valid r (e_raw a) then rbind (large_neg (nd r) (e_raw a)) (mk r) else Panic Undocumented
  | _ => mk r (vanilla_neg (nd r) (e_raw a))
  end.

(** IntoRing for IBig (and the signed primitives): reduce the magnitude, negate if negative *)
Definition reduce_asis (r : ring) (a : Z) : result reduced :=
  if 0 <=? a then from_ubig r a else rbind (from_ubig r (- a)) neg_asis.

(** check_same_ring_*: pointer identity, and the two representations must be of the same kind *)
Definition same_ring (a b : reduced) : bool :=
  kind_eqb (r_kind (e_ring a)) (r_kind (e_ring b)) && (r_id (e_ring a) =? r_id (e_ring b)).

Definition valid2 (r : ring) (a b : reduced) : bool := is_valid r (e_raw a) && is_valid r (e_raw b).

Definition add_asis (a b : reduced) : result reduced :=
  if same_ring a b then
    let r := e_ring a in
    match r_kind r with
    | KLarge =>
        if valid2 r a b then rbind (vanilla_add (tsize r) (nd r) (e_raw a) (e_raw b)) (fun v => Ok (mkred v r))
        else Panic Undocumented
    | _ => rbind (vanilla_add (tsize r) (nd r) (e_raw a) (e_raw b)) (fun v => Ok (mkred v r))
    end
  else Panic DifferentRings.

Definition sub_asis (a b : reduced) : result reduced :=
  if same_ring a b then
    let r := e_ring a in
    match r_kind r with
    | KLarge =>
        if valid2 r a b then rbind (large_sub (tsize r) (nd r) (e_raw a) (e_raw b)) (fun v => Ok (mkred v r))
        else Panic Undocumented
    | _ => Ok (mkred (vanilla_sub (nd r) (e_raw a) (e_raw b)) r)
    end
  else Panic DifferentRings.

Definition dbl_asis (a : reduced) : result reduced :=
  let r := e_ring a in
  match r_kind r with
  | KLarge =>
      if is_valid r (e_raw a) then rbind (vanilla_add (tsize r) (nd r) (e_raw a) (e_raw a)) (mk r)
      else Panic Undocumented
  | _ => rbind (vanilla_add (tsize r) (nd r) (e_raw a) (e_raw a)) (mk r)
  end.

(** ---------------- mul.rs ---------------- *)
Definition s_mul (r : ring) (x y : Z) : result Z := call_2by1 (nd r) (x / 2 ^ r_shift r * y).
Definition s_sqr (r : ring) (x : Z) : result Z := call_2by1 (nd r) (x * x / 2 ^ r_shift r).
Definition d_mul (r : ring) (x y : Z) : result Z := call_4by2 (nd r) (x / 2 ^ r_shift r * y).
Definition d_sqr (r : ring) (x : Z) : result Z := call_4by2 (nd r) (x * x / 2 ^ r_shift r).

(** mul_normalized: trim, multiply, shift right, then either a full division (na + nb > n) or one
    conditional subtraction *)
Definition l_mul_normalized (r : ring) (a b : Z) : Z :=
  let na := nwords a in
  let nb := nwords b in
  if (na =? 0) && (nb =? 0) then 0
  else
    let product := a * b / 2 ^ r_shift r in
    if r_n r <? na + nb then product mod nd r
    else if nd r <=? product then product - nd r else product.

Definition l_sqr_normalized (r : ring) (a : Z) : Z :=
  let na := nwords a in
  if na =? 0 then 0
  else
    let product := a * a / 2 ^ r_shift r in
    if r_n r <? na * 2 then product mod nd r
    else if nd r <=? product then product - nd r else product.

(** mul_in_place: identical operands take the squaring shortcut *)
Definition l_mul (r : ring) (a b : Z) : Z :=
  if a =? b then l_sqr_normalized r a else l_mul_normalized r a b.

Definition raw_mul (r : ring) (x y : Z) : result Z :=
  match r_kind r with KSingle => s_mul r x y | KDouble => d_mul r x y | KLarge => Ok (l_mul r x y) end.

Definition raw_sqr (r : ring) (x : Z) : result Z :=
  match r_kind r with KSingle => s_sqr r x | KDouble => d_sqr r x | KLarge => Ok (l_sqr_normalized r x) end.

Definition mul_asis (a b : reduced) : result reduced :=
  if same_ring a b then
    let r := e_ring a in rbind (raw_mul r (e_raw a) (e_raw b)) (fun v => Ok (mkred v r))
  else Panic DifferentRings.

Definition sqr_asis (a : reduced) : result reduced :=
  let r := e_ring a in rbind (raw_sqr r (e_raw a)) (mk r).

(** ---------------- pow.rs ---------------- *)
(** ReducedWord/Dword/Large::one after the repair of F01 ... *)
Definition raw_one (r : ring) : result Z :=
  match r_kind r with KSingle => s_rem_word r 1 | _ => Ok (2 ^ r_shift r) end.
(** ... and before it *)
Definition raw_one_prefix (r : ring) : result Z := Ok (2 ^ r_shift r).

Definition lift1 (f : Z -> result Z) (x : result Z) : result Z := rbind x f.
Definition lift2 (f : Z -> Z -> result Z) (x y : result Z) : result Z :=
  rbind x (fun a => rbind y (fun b => f a b)).

(** pow.rs uses mul_normalized (not the squaring shortcut) for table and window products *)
Definition pow_mul (r : ring) (x y : Z) : result Z :=
  match r_kind r with KLarge => Ok (l_mul_normalized r x y) | _ => raw_mul r x y end.

Definition flatten (x : result (result Z)) : result Z :=
  match x with Ok v => v | Panic p => Panic p | Err e => Err e | OutOfFuel => OutOfFuel end.

Definition raw_pow_with (one : ring -> result Z) (r : ring) (raw exp : Z) : result Z :=
  match r_kind r with
  | KLarge =>
      flatten (pow_large w (result Z) (one r) (lift1 (raw_sqr r)) (lift2 (pow_mul r)) (window_at w) (Ok raw) exp)
  | _ => pow_prim w (result Z) (one r) (lift1 (raw_sqr r)) (lift2 (pow_mul r)) (Ok raw) exp
  end.

Definition pow_asis (a : reduced) (exp : Z) : result reduced :=
  let r := e_ring a in rbind (raw_pow_with raw_one r (e_raw a) exp) (mk r).

Definition pow_asis_prefix (a : reduced) (exp : Z) : result reduced :=
  let r := e_ring a in rbind (raw_pow_with raw_one_prefix r (e_raw a) exp) (mk r).

(** ---------------- div.rs ---------------- *)
(** inv_large: unshift modulus and value, extended gcd, shift the cofactor back, fix its sign *)
Definition l_inv (r : ring) (raw : Z) : result (option Z) :=
  let modulus := nd r / 2 ^ r_shift r in
  let x := raw / 2 ^ r_shift r in
  if nwords x =? 0 then Ok None
  else
    let '(g, b, b_sign) := big_gcd_ext modulus x in
    if negb (g =? 1) then Ok None
    else
      let inv := b * 2 ^ r_shift r in
      if is_valid r inv then
        match b_sign with
        | Negative => rbind (large_neg (nd r) inv) (fun v => Ok (Some v))
        | Positive => Ok (Some inv)
        end
      else Panic Undocumented.

(** PreMulInv2by1/3by2::inv: residue(target).invm(&modulus).map(|v| v << shift) *)
Definition p_inv (r : ring) (raw : Z) : result (option Z) :=
  match nm_invm (raw / 2 ^ r_shift r) (nd r / 2 ^ r_shift r) with
  | Some v => Ok (Some (v * 2 ^ r_shift r))
  | None => Ok None
  end.

Definition inv_asis (a : reduced) : result (option reduced) :=
  let r := e_ring a in
  rbind (match r_kind r with KLarge => l_inv r (e_raw a) | _ => p_inv r (e_raw a) end)
        (fun o => match o with
                  | None => Ok None
                  | Some v => rbind (mk r v) (fun e => Ok (Some e))
                  end).

(** Div: match rhs.inv() { None => panic, Some(inv_rhs) => self * inv_rhs }; the ring check happens
    in the multiplication, i.e. after the inverse has been computed *)
Definition div_asis (a b : reduced) : result reduced :=
  rbind (inv_asis b) (fun o =>
    match o with
    | None => Panic NonInvertible
    | Some ib => mul_asis a ib
    end).

(** PartialEq *)
Definition eq_asis (a b : reduced) : result bool :=
  if same_ring a b then Ok (e_raw a =? e_raw b) else Panic DifferentRings.

(** ---------------- convert.rs: residue / modulus ---------------- *)
Definition residue_asis (a : reduced) : result Z :=
  let r := e_ring a in
  if is_valid r (e_raw a) then Ok (e_raw a / 2 ^ r_shift r) else Panic Undocumented.

Definition modulus_asis (a : reduced) : Z := nd (e_ring a) / 2 ^ r_shift (e_ring a).

(** ---------------- reducer.rs: impl Reducer<UBig> for ConstDivisor ---------------- *)
(** check: is the value a reduced form (below the normalised divisor, low bits clear)?
    [strict] = after the repair of F03; before it the multi-word test was cmp(..).is_le() and
    values of at most two words were accepted without a look at their low bits *)
Definition rd_check_with (strict : bool) (r : ring) (t : Z) : bool :=
  match r_kind r with
  | KSingle => (t <? B) && (t <? nd r) && (t mod 2 ^ r_shift r =? 0)
  | KDouble => (t <? B * B) && (t <? nd r) && (t mod 2 ^ r_shift r =? 0)
  | KLarge =>
      if t <? B * B then (if strict then t mod 2 ^ r_shift r =? 0 else true)
      else (if strict then t <? nd r else t <=? nd r) && (t mod 2 ^ r_shift r =? 0)
  end.
Definition rd_check := rd_check_with true.
Definition rd_check_prefix := rd_check_with false.

Definition rd_transform (r : ring) (x : Z) : result Z :=
  match r_kind r with
  | KSingle => s_from_ubig r x
  | KDouble => d_from_ubig r x
  | KLarge => Ok (l_rem_repr r x)
  end.

(** UBig subtraction panics on a negative result *)
Definition usub (a b : Z) : result Z := if a <? b then Panic NegativeUBig else Ok (a - b).

Definition rd_reduce_once_with (strict : bool) (r : ring) (t : Z) : result Z :=
  if negb (rd_check_with strict r t) then
    match r_kind r with
    | KLarge => if t <? B * B then Ok t else usub t (nd r)
    | _ => usub t (nd r)
    end
  else Ok t.

Definition rd_reduce_negate (r : ring) (t : Z) : result Z := usub (nd r) t.

Definition rd_add_with (strict : bool) (r : ring) (x y : Z) : result Z := rd_reduce_once_with strict r (x + y).
Definition rd_dbl_with (strict : bool) (r : ring) (x : Z) : result Z := rd_reduce_once_with strict r (x * 2).
Definition rd_add := rd_add_with true.
Definition rd_dbl := rd_dbl_with true.
Definition rd_sub (r : ring) (x y : Z) : result Z := if y <=? x then Ok (x - y) else rd_reduce_negate r (y - x).
Definition rd_neg (r : ring) (x : Z) : result Z := if x =? 0 then Ok x else rd_reduce_negate r x.

(** convert_from_normalized: try_into().unwrap() for the primitive rings, then from_* (is_valid) *)
Definition rd_from_normalized (r : ring) (t : Z) : result reduced :=
  match r_kind r with
  | KLarge => mk r t
  | _ => if t <? tsize r then mk r t else Panic Undocumented
  end.

Definition rd_mul (r : ring) (x y : Z) : result Z :=
  rbind (rd_from_normalized r x) (fun a => rbind (rd_from_normalized r y) (fun b =>
  rbind (mul_asis a b) (fun c => Ok (e_raw c)))).
Definition rd_sqr (r : ring) (x : Z) : result Z :=
  rbind (rd_from_normalized r x) (fun a => rbind (sqr_asis a) (fun c => Ok (e_raw c))).
Definition rd_pow (r : ring) (x e : Z) : result Z :=
  rbind (rd_from_normalized r x) (fun a => rbind (pow_asis a e) (fun c => Ok (e_raw c))).
Definition rd_inv (r : ring) (x : Z) : result (option Z) :=
  rbind (rd_from_normalized r x) (fun a => rbind (inv_asis a) (fun o =>
  Ok (match o with Some c => Some (e_raw c) | None => None end))).

Definition rd_residue (r : ring) (t : Z) : Z := t / 2 ^ r_shift r.
Definition rd_modulus (r : ring) : Z := nd r / 2 ^ r_shift r.
Definition rd_is_zero (t : Z) : bool := t =? 0.

End Model.

(** ---------------- the instance the oracle runs: 64-bit words, exact external functions ---------------- *)
Definition ex_2by1 (d a : Z) : Z * Z := (a / d, a mod d).
Definition ex_3by2 (d a_lo a_hi : Z) : Z * Z := ((a_lo + 2 ^ 64 * a_hi) / d, (a_lo + 2 ^ 64 * a_hi) mod d).
Definition ex_invm (x m : Z) : option Z := inv_spec m x.
(** an extended gcd in the shape of dashu's: cofactor magnitude and sign (always reported positive) *)
Definition ex_gcd_ext (lhs rhs : Z) : Z * Z * sign :=
  match inv_spec lhs rhs with
  | Some t => (1, t, Positive)
  | None => (Z.gcd lhs rhs, 0, Positive)
  end.
