(** C02 - num-modular's reciprocal division (as-is models in DivNumModular.v) is exact division:
    proofs of Moller-Granlund's Algorithm 4 (div_rem_2by1), Algorithm 5 (div_rem_3by2) and Algorithm 6
    (invert_double_word) with the wrapping arithmetic of the source, for EVERY word size w > 0, plus
    div_rem_1by1 / div_rem_2by2 / div_rem_4by2; every debug_assert! and every overflow-checked operation
    of these functions is shown not to fire under the documented precondition (normalised divisor,
    high part < divisor).  Consequently the five primitives satisfy the contracts of DivContracts.v. *)
From Dashu Require Import Base.Prelude Base.Words Int.DivNumModular Int.DivWordProofs Int.DivContracts.
Open Scope Z_scope.

Section P.
Variable w : Z.
Hypothesis w_pos : 0 < w.
Notation B := (Words.B w).
Local Lemma Bpos : 0 < B. Proof. apply B_pos; lia. Qed.
Local Lemma Bge2 : 2 <= B. Proof. apply B_ge_2; lia. Qed.
Notation norm1 := (DivWordProofs.norm1 w).
Notation norm2 := (DivWordProofs.norm2 w).

Lemma mod_eq a b q r : 0 <= r < b -> a = b * q + r -> a mod b = r.
Proof. intros H E. symmetry. apply (Z.mod_unique a b q r); [left; exact H | exact E]. Qed.
Lemma div_eq a b q r : 0 <= r < b -> a = b * q + r -> a / b = q.
Proof. intros H E. symmetry. apply (Z.div_unique a b q r); [left; exact H | exact E]. Qed.

(** generic: floor((N - 1) / d) = N/d-ish characterisation *)
Lemma recip_char N d q : 0 < d -> N - d <= q * d < N -> (N - 1) / d = q.
Proof. intros Hd H. apply (div_eq _ _ _ (N - 1 - q * d)); lia. Qed.

Lemma borrow_mask x y : 0 <= x < B -> 0 <= y < B ->
  wrapd w (x - y) / B = if x <? y then B - 1 else 0.
Proof.
  intros Hx Hy. pose proof Bpos as HB. unfold wrapd.
  destruct (Z.ltb_spec x y) as [L|L].
  - replace ((x - y) mod (B * B)) with (x - y + B * B).
    + apply (div_eq _ _ _ (x - y + B)); nia.
    + symmetry. apply (mod_eq _ _ (-1)); nia.
  - rewrite Z.mod_small by nia. apply Z.div_small. lia.
Qed.

Lemma land_mask_word d : 0 <= d < B -> Z.land (B - 1) d = d.
Proof.
  intros Hd. rewrite Z.land_comm. unfold Words.B. replace (2 ^ w - 1) with (Z.ones w) by (rewrite Z.ones_equiv; lia).
  rewrite Z.land_ones by lia. apply Z.mod_small. exact Hd.
Qed.

Lemma land_mask_dword d : 0 <= d < B * B -> Z.land (nm_merge w (B - 1) (B - 1)) d = d.
Proof.
  intros Hd. rewrite Z.land_comm. unfold nm_merge.
  replace (B - 1 + B * (B - 1)) with (Z.ones (w + w)).
  - rewrite Z.land_ones by lia. apply Z.mod_small. unfold Words.B in Hd. rewrite Z.pow_add_r by lia. exact Hd.
  - rewrite Z.ones_equiv, Z.pow_add_r by lia. unfold Words.B. lia.
Qed.

(** *** invert_word *)
Lemma invert_word_spec d : norm1 d ->
  let m := nm_invert_word w d in
  m = (B * B - 1) / d - B /\ 0 <= m < B /\ nm_invert_word_checks w d = true /\
  exists k, (m + B) * d = B * B - k /\ 1 <= k <= d.
Proof.
  intros [H1 H2]. pose proof Bge2 as HB.
  set (Q := (B * B - 1) / d).
  assert (HQ : B * B - 1 = d * Q + (B * B - 1) mod d) by (apply Z.div_mod; lia).
  pose proof (Z.mod_pos_bound (B * B - 1) d ltac:(lia)) as HR. fold Q in HQ.
  assert (HQ1 : B <= Q < 2 * B) by nia.
  unfold nm_invert_word, nm_invert_word_checks, nm_split. cbn [fst snd]. fold Q.
  assert (E1 : Q mod B = Q - B) by (apply (mod_eq _ _ 1); lia).
  assert (E2 : Q / B = 1) by (apply (div_eq _ _ _ (Q - B)); lia).
  rewrite E1, E2. repeat split; try lia.
  exists ((B * B - 1) mod d + 1). split; [|lia]. nia.
Qed.

(** *** Algorithm 4: the bounds of the candidate remainder *)
Lemma mg_2by1_core d m k alo ahi q0 q1 :
  B <= 2 * d -> d < B -> (m + B) * d = B * B - k -> 1 <= k <= d -> 0 <= m ->
  0 <= alo < B -> 0 <= ahi < d -> 0 <= q0 < B ->
  m * ahi + (alo + B * ahi) = q0 + B * q1 ->
  let rt := alo + B * ahi - (q1 + 1) * d in
  - d <= rt /\ q0 + 1 - B <= rt /\ (rt < B - d \/ rt < q0) /\ 0 <= q1 < B /\ rt < B.
Proof.
  intros H1 H2 Hm Hk Hm0 Hlo Hhi Hq0 Ht rt.
  assert (HB : 2 <= B) by apply Bge2.
  assert (E : B * rt = alo * (B - d) + k * ahi + q0 * d - B * d).
  { unfold rt. 
    assert (B * q1 * d = ((m + B) * ahi + alo - q0) * d) by nia.
    nia. }
  assert (0 <= q1) by nia.
  assert (q1 < B).
  { assert (m * ahi + (alo + B * ahi) < B * B); [|nia].
    assert ((m + B) * ahi <= (m + B) * (d - 1)) by nia. nia. }
  assert (L1 : - d <= rt) by nia.
  assert (L2 : q0 + 1 - B <= rt).
  { assert (B * (q0 - B) < B * rt); [|nia]. assert ((B - d) * (B - q0) > 0) by nia. nia. }
  assert (U : rt < B - d \/ rt < q0).
  { assert (B * rt < (B - d) * (B - d) + q0 * d) by nia.
    destruct (Z_le_gt_dec q0 (B - d)); [left|right]; nia. }
  repeat split; try lia.
Qed.

Lemma split_eq t : 0 <= t -> t = t mod B + B * (t / B) /\ 0 <= t mod B < B.
Proof. intros. pose proof Bpos. split; [pose proof (Z.div_mod t B); lia | apply Z.mod_pos_bound; lia]. Qed.

Lemma mod_shift a k : (a + k * B) mod B = a mod B.
Proof. pose proof Bpos. apply Z_mod_plus_full. Qed.

Theorem nm_div_rem_2by1_correct d a : norm1 d -> 0 <= a < d * B ->
  nm_div_rem_2by1 w (nm_2by1_new w d) a = (a / d, a mod d) /\
  nm_div_rem_2by1_checks w (nm_2by1_new w d) a = true.
Proof.
  intros Hn Ha. pose proof Hn as [H1 H2]. pose proof Bge2 as HB.
  destruct (invert_word_spec d Hn) as (_ & Hm & _ & k & Hk & Hkr).
  unfold nm_div_rem_2by1, nm_div_rem_2by1_checks, nm_2by1_body, nm_2by1_new, nm_split. cbn [n1_divisor n1_m fst snd].
  set (m := nm_invert_word w d) in *.
  set (alo := a mod B). set (ahi := a / B).
  destruct (split_eq a ltac:(lia)) as [Ea Halo]. fold alo ahi in Ea, Halo.
  assert (Hahi : 0 <= ahi < d) by nia.
  set (t := m * ahi + a).
  destruct (split_eq t ltac:(unfold t; nia)) as [Et Hq0].
  set (q0 := t mod B) in *. set (q1 := t / B) in *.
  destruct (mg_2by1_core d m k alo ahi q0 q1) as (L1 & L2 & U & Hq1 & U2); try lia.
  set (rt := alo + B * ahi - (q1 + 1) * d) in *.
  set (q := wrapw w (q1 + 1)).
  set (r := wrapw w (alo - wrapw w (q * d))).
  assert (Er : r = rt mod B).
  { unfold r, q, wrapw. rewrite Zminus_mod_idemp_r. rewrite <- (Zminus_mod_idemp_r alo).
    rewrite Zmult_mod_idemp_l. rewrite Zminus_mod_idemp_r.
    unfold rt. replace (alo + B * ahi - (q1 + 1) * d) with (alo - (q1 + 1) * d + ahi * B) by ring.
    rewrite mod_shift. reflexivity. }
  assert (Hr : 0 <= r < B) by (rewrite Er; apply Z.mod_pos_bound; lia).
  rewrite (borrow_mask q0 r) by lia.
  assert (Ht : t <? B * B = true) by (apply Z.ltb_lt; nia).
  assert (Hh : ahi <? d = true) by (apply Z.ltb_lt; lia).
  rewrite Ht, Hh. cbn [andb].
  assert (Ea2 : a = (q1 + 1) * d + rt) by (unfold rt; lia).
  destruct (Z_lt_ge_dec rt 0) as [Neg|Pos].
  - (* candidate remainder negative: decrement *)
    assert (Er2 : r = rt + B) by (rewrite Er; apply (mod_eq _ _ (-1)); lia).
    destruct (Z.ltb_spec q0 r) as [L|L]; [|lia].
    rewrite land_mask_word by lia.
    assert (Eq' : wrapw w (q + (B - 1)) = q1).
    { unfold q, wrapw. rewrite Zplus_mod_idemp_l. replace (q1 + 1 + (B - 1)) with (q1 + 1 * B) by ring.
      rewrite mod_shift. apply Z.mod_small. lia. }
    assert (Er' : wrapw w (r + d) = rt + d).
    { unfold wrapw. rewrite Er2. replace (rt + B + d) with (rt + d + 1 * B) by ring. rewrite mod_shift.
      apply Z.mod_small. lia. }
    rewrite Eq', Er'.
    destruct (Z.geb_spec (rt + d) d) as [G|G]; [lia|].
    split; [|reflexivity]. f_equal.
    + symmetry; apply (div_eq _ _ _ (rt + d)); lia.
    + symmetry; apply (mod_eq _ _ q1); lia.
  - assert (Er2 : r = rt) by (rewrite Er; apply Z.mod_small; lia).
    assert (Hq1' : q1 + 1 < B).
    { destruct (Z_lt_ge_dec (q1 + 1) B); auto. exfalso. nia. }
    assert (Eq : q = q1 + 1) by (unfold q, wrapw; apply Z.mod_small; lia).
    destruct (Z.ltb_spec q0 r) as [L|L].
    + rewrite land_mask_word by lia.
      assert (Eq' : wrapw w (q + (B - 1)) = q1).
      { rewrite Eq. unfold wrapw. replace (q1 + 1 + (B - 1)) with (q1 + 1 * B) by ring.
        rewrite mod_shift. apply Z.mod_small. lia. }
      assert (Er' : wrapw w (r + d) = rt + d) by (unfold wrapw; rewrite Er2; apply Z.mod_small; lia).
      rewrite Eq', Er'.
      destruct (Z.geb_spec (rt + d) d) as [G|G]; [|lia].
      assert (Hlt : q1 + 1 <? B = true) by (apply Z.ltb_lt; lia). rewrite Hlt.
      split; [|reflexivity]. f_equal.
      * symmetry; apply (div_eq _ _ _ rt); lia.
      * symmetry; apply (mod_eq _ _ (q1 + 1)); lia.
    + rewrite Z.land_0_l, !Z.add_0_r. unfold wrapw at 1 3 5. unfold wrapw at 2 3 4.
      rewrite !(Z.mod_small q), !(Z.mod_small r) by lia. rewrite Er2, Eq.
      destruct (Z.geb_spec rt d) as [G|G].
      * assert (Hq2 : q1 + 1 + 1 < B) by (destruct (Z_lt_ge_dec (q1 + 1 + 1) B); auto; exfalso; nia).
        assert (Hlt : q1 + 1 + 1 <? B = true) by (apply Z.ltb_lt; lia). rewrite Hlt.
        split; [|reflexivity]. f_equal.
        -- symmetry; apply (div_eq _ _ _ (rt - d)); lia.
        -- symmetry; apply (mod_eq _ _ (q1 + 1 + 1)); lia.
      * split; [|reflexivity]. f_equal.
        -- symmetry; apply (div_eq _ _ _ rt); lia.
        -- symmetry; apply (mod_eq _ _ (q1 + 1)); lia.
Qed.


(** *** Algorithm 6: invert_double_word *)
Lemma B_even : exists h, B = 2 * h /\ 0 < h.
Proof.
  exists (2 ^ (w - 1)). split.
  - unfold Words.B. replace w with (1 + (w - 1)) at 1 by lia. rewrite Z.pow_add_r by lia. reflexivity.
  - apply Z.pow_pos_nonneg; lia.
Qed.

Lemma norm2_high d : norm2 d -> norm1 (d / B) /\ 0 <= d mod B < B /\ d = d mod B + B * (d / B).
Proof.
  intros [H1 H2]. pose proof Bpos as HB. destruct B_even as (h & Eh & Hh).
  destruct (split_eq d ltac:(nia)) as [Ed H0]. repeat split; try lia.
  - assert (h <= d / B) by (apply Z.div_le_lower_bound; nia). lia.
  - apply Z.div_lt_upper_bound; lia.
Qed.

Lemma idw_phase1_spec d0 d1 : norm1 d1 -> 0 <= d0 < B ->
  forall v p ok, nm_idw_phase1 w d0 d1 = (v, p, ok) ->
  ok = true /\ 0 <= v < B /\ B - d1 <= p < B /\ (B + v) * d1 + d0 = p + B * B - B.
Proof.
  intros Hn Hd0 v p ok E. pose proof Hn as [H1 H2]. pose proof Bge2 as HB.
  destruct (invert_word_spec d1 Hn) as (_ & Hm & _ & k & Hk & Hkr).
  unfold nm_idw_phase1 in E. set (v0 := nm_invert_word w d1) in *.
  assert (Ew : wrapw w (d1 * v0) = B - k).
  { unfold wrapw. apply (mod_eq _ _ (B - 1 - d1)); nia. }
  rewrite Ew in E.
  destruct (Z.leb_spec B (B - k + d0)) as [C|C].
  - assert (Ep : wrapw w (B - k + d0) = d0 - k) by (unfold wrapw; apply (mod_eq _ _ 1); lia).
    rewrite Ep in E.
    assert (V1 : 1 <= v0) by (destruct (Z_lt_ge_dec v0 1); [exfalso; nia | lia]).
    destruct (Z.geb_spec (d0 - k) d1) as [G|G].
    + assert (V2 : 2 <= v0) by (destruct (Z_lt_ge_dec v0 2); [exfalso; nia | lia]).
      assert (Ep2 : wrapw w (d0 - k - d1 - d1) = d0 - k - d1 - d1 + B) by (unfold wrapw; apply (mod_eq _ _ (-1)); lia).
      rewrite Ep2 in E. inversion E; subst; clear E.
      split; [apply andb_true_intro; split; apply Z.leb_le; lia|]. split; [lia|]. split; [lia|]. nia.
    + assert (Ep2 : wrapw w (d0 - k - d1) = d0 - k - d1 + B) by (unfold wrapw; apply (mod_eq _ _ (-1)); lia).
      rewrite Ep2 in E. inversion E; subst; clear E.
      split; [apply andb_true_intro; split; [apply Z.leb_le; lia | reflexivity]|]. split; [lia|]. split; [lia|]. nia.
  - assert (Ep : wrapw w (B - k + d0) = B - k + d0) by (unfold wrapw; apply Z.mod_small; lia).
    rewrite Ep in E. inversion E; subst; clear E. split; [reflexivity|]. split; [lia|]. split; [lia|]. nia.
Qed.

Lemma idw_phase2_spec d d0 d1 v p : norm2 d -> d = d0 + B * d1 -> 0 <= d0 < B -> 0 <= v < B -> B - d1 <= p < B ->
  (B + v) * d1 + d0 = p + B * B - B ->
  forall v' ok, nm_idw_phase2 w d d0 v p = (v', ok) ->
  ok = true /\ 0 <= v' < B /\ exists k, (v' + B) * d = B * B * B - k /\ 1 <= k <= d.
Proof.
  intros [N1 N2] Ed Hd0 Hv Hp Inv v' ok E. pose proof Bge2 as HB.
  unfold nm_idw_phase2, nm_split in E.
  destruct (split_eq (v * d0) ltac:(nia)) as [Et Ht0].
  set (t0 := (v * d0) mod B) in *. set (t1 := (v * d0) / B) in *.
  assert (Ht1 : 0 <= t1 < B) by nia.
  assert (Y : (B + v) * d = B * B * B + B * (p + t1 - B) + t0) by nia.
  destruct (Z.leb_spec B (p + t1)) as [C|C].
  - assert (Ep : wrapw w (p + t1) = p + t1 - B) by (unfold wrapw; apply (mod_eq _ _ 1); lia).
    rewrite Ep in E. unfold nm_merge in E.
    assert (V1 : 1 <= v) by (destruct (Z_lt_ge_dec v 1); [exfalso; nia | lia]).
    destruct (Z.geb_spec (t0 + B * (p + t1 - B)) d) as [G|G]; inversion E; subst v' ok; clear E.
    + assert (V2 : 2 <= v) by (destruct (Z_lt_ge_dec v 2); [exfalso; nia | lia]).
      split; [apply andb_true_intro; split; apply Z.leb_le; lia|]. split; [lia|].
      exists (B * B * B - (v - 1 - 1 + B) * d). split; [ring|]. nia.
    + split; [apply Z.leb_le; lia|]. split; [lia|].
      exists (B * B * B - (v - 1 + B) * d). split; [ring|]. nia.
  - inversion E; subst v' ok; clear E. split; [reflexivity|]. split; [lia|].
    exists (B * B * B - (v + B) * d). split; [ring|]. nia.
Qed.

Theorem invert_double_word_spec d : norm2 d ->
  let v := nm_invert_double_word w d in
  0 <= v < B /\ (exists k, (v + B) * d = B * B * B - k /\ 1 <= k <= d) /\
  v = (B * B * B - 1) / d - B /\ nm_invert_double_word_checks w d = true.
Proof.
  intros Hn. destruct (norm2_high d Hn) as (Hn1 & Hd0 & Ed). pose proof Hn as [N1 N2]. pose proof Bge2 as HB.
  unfold nm_invert_double_word, nm_invert_double_word_checks, nm_invert_double_word_full, nm_split. cbn [snd].
  destruct (nm_idw_phase1 w (d mod B) (d / B)) as [[v p] ok1] eqn:E1.
  destruct (idw_phase1_spec _ _ Hn1 Hd0 _ _ _ E1) as (O1 & Hv & Hp & Inv).
  destruct (nm_idw_phase2 w d (d mod B) v p) as [v' ok2] eqn:E2.
  destruct (idw_phase2_spec d _ _ v p Hn Ed Hd0 Hv Hp Inv _ _ E2) as (O2 & Hv' & k & Hk & Hkr).
  cbn [fst snd]. split; [exact Hv'|]. split; [exists k; auto|]. split.
  - assert ((B * B * B - 1) / d = v' + B); [|lia]. apply recip_char; lia.
  - rewrite O1, O2. destruct (invert_word_spec _ Hn1) as (_ & _ & C & _). rewrite C. reflexivity.
Qed.


(** *** Algorithm 5: the bounds of the candidate remainder *)
Lemma mg_3by2_identity BB d v k u0 u1 u2 q0 q1 :
  (v + BB) * d = BB * BB * BB - k -> v * u2 + (u1 + BB * u2) = q0 + BB * q1 ->
  BB * (u0 + BB * (u1 + BB * u2) - (q1 + 1) * d) = u1 * (BB * BB - d) + u0 * BB + u2 * k + q0 * d - BB * d.
Proof.
  intros Hv Ht.
  assert (E1 : BB * q1 * d = ((v + BB) * d) * u2 + u1 * d - q0 * d).
  { replace (BB * q1) with ((v + BB) * u2 + u1 - q0) by lia. ring. }
  rewrite Hv in E1. lia.
Qed.

(** the heart of Theorem 3 of the paper: the candidate remainder cannot exceed both B^2 - d and q0 * B *)
Lemma mg_3by2_upper BB d c k u0 u1 u2 q0 M :
  2 <= BB -> c = BB * BB - d -> BB * BB <= 2 * d -> 0 < c -> 1 <= k <= d -> k <= BB * c ->
  0 <= u0 < BB -> 0 <= u1 < BB -> 0 <= u2 -> u1 + BB * u2 < d -> 0 <= q0 < BB ->
  M = u1 * c + u0 * BB + u2 * k ->
  BB * BB * BB - q0 * d <= M -> BB * d + q0 * c <= M -> False.
Proof.
  intros HB Ec N1 Hc Hk Kc Hu0 Hu1 Hu2 Hs Hq0 EM M1 M2.
  assert (F1 : 0 <= (BB - 1 - u1) * (BB * c - k)) by (apply Z.mul_nonneg_nonneg; lia).
  assert (F2 : 0 <= k * (d - 1 - u1 - BB * u2)) by (apply Z.mul_nonneg_nonneg; lia).
  assert (S0 : 0 < BB * BB) by (apply Z.mul_pos_pos; lia).
  assert (F3 : 0 <= (BB - 1 - u0) * (BB * BB)) by (apply Z.mul_nonneg_nonneg; lia).
  assert (M3 : M * BB <= (BB - 1) * BB * c + k * (d - BB) + (BB - 1) * BB * BB).
  { rewrite EM. lia. }
  assert (dB : BB <= d).
  { assert (0 <= (BB - 2) * BB) by (apply Z.mul_nonneg_nonneg; lia). lia. }
  assert (F4 : 0 <= (d - k) * (d - BB)) by (apply Z.mul_nonneg_nonneg; lia).
  assert (M4 : M * BB <= d * d + BB * BB * c - BB * BB).
  { assert ((BB - 1) * BB * c + d * (d - BB) + (BB - 1) * BB * BB = d * d + BB * BB * c - BB * BB) by (rewrite Ec; ring).
    lia. }
  assert (M5 : 0 <= (M - (BB * d + q0 * c)) * d) by (apply Z.mul_nonneg_nonneg; lia).
  assert (M6 : 0 <= (M - (BB * BB * BB - q0 * d)) * c) by (apply Z.mul_nonneg_nonneg; lia).
  assert (M7 : M * (BB * BB) >= BB * d * d + BB * BB * BB * c).
  { assert (M * (BB * BB) = M * d + M * c) by (rewrite Ec; ring). lia. }
  assert (M9 : 0 <= BB * (d * d + BB * BB * c - BB * BB - M * BB)) by (apply Z.mul_nonneg_nonneg; lia).
  assert (S1 : 0 < BB * (BB * BB)) by (apply Z.mul_pos_pos; lia).
  lia.
Qed.

Lemma mg_3by2_core d v k u0 u1 u2 q0 q1 :
  B * B <= 2 * d -> d < B * B -> (v + B) * d = B * B * B - k -> 1 <= k <= d -> 0 <= v ->
  0 <= u0 < B -> 0 <= u1 < B -> 0 <= u2 -> u1 + B * u2 < d -> 0 <= q0 < B ->
  v * u2 + (u1 + B * u2) = q0 + B * q1 ->
  let rt := u0 + B * (u1 + B * u2) - (q1 + 1) * d in
  - d <= rt /\ q0 * B - B * B < rt /\ (rt < B * B - d \/ rt < q0 * B) /\ 0 <= q1 < B /\ rt < B * B.
Proof.
  intros H1 H2 Hv Hk Hv0 Hu0 Hu1 Hu2 Hs Hq0 Ht rt.
  assert (HB : 2 <= B) by apply Bge2.
  pose proof (mg_3by2_identity B d v k u0 u1 u2 q0 q1 Hv Ht) as E. fold rt in E.
  set (c := B * B - d) in *.
  assert (Hc : 0 < c) by (unfold c; lia).
  assert (P1 : 0 <= u1 * c) by (apply Z.mul_nonneg_nonneg; lia).
  assert (P2 : 0 <= u0 * B) by (apply Z.mul_nonneg_nonneg; lia).
  assert (P3 : 0 <= u2 * k) by (apply Z.mul_nonneg_nonneg; lia).
  assert (P4 : 0 <= q0 * d) by (apply Z.mul_nonneg_nonneg; lia).
  assert (L1 : - d <= rt).
  { apply (Z.mul_le_mono_pos_l _ _ B); [lia|]. lia. }
  assert (L2 : q0 * B - B * B < rt).
  { assert (P5 : 0 < (B * B - d) * (B - q0)) by (apply Z.mul_pos_pos; lia).
    apply (Z.mul_lt_mono_pos_l B); [lia|]. unfold c in *. lia. }
  assert (Hq1 : 0 <= q1 < B).
  { assert (0 <= v * u2) by (apply Z.mul_nonneg_nonneg; lia).
    split.
    - destruct (Z_lt_ge_dec q1 0) as [N|]; [exfalso|lia].
      assert (0 <= B * (-1 - q1)) by (apply Z.mul_nonneg_nonneg; lia). lia.
    - destruct (Z_lt_ge_dec q1 B) as [|N]; [assumption|exfalso].
      assert (0 <= (q1 - B) * d) by (apply Z.mul_nonneg_nonneg; lia).
      assert (B * (u1 + B * u2) <= B * (d - 1)) by (apply Z.mul_le_mono_nonneg_l; lia).
      unfold rt in L1. lia. }
  assert (Kc : k <= B * c).
  { assert (0 <= v * d) by (apply Z.mul_nonneg_nonneg; lia). unfold c. lia. }
  assert (U : rt < c \/ rt < q0 * B).
  { destruct (Z_lt_ge_dec rt c) as [|G1]; [left; assumption|].
    destruct (Z_lt_ge_dec rt (q0 * B)) as [|G2]; [right; assumption|]. exfalso.
    apply (mg_3by2_upper B d c k u0 u1 u2 q0 (u1 * c + u0 * B + u2 * k) HB eq_refl H1 Hc Hk Kc Hu0 Hu1 Hu2 Hs Hq0 eq_refl).
    - assert (B * c <= B * rt) by (apply Z.mul_le_mono_nonneg_l; lia). unfold c in *. lia.
    - assert (B * (q0 * B) <= B * rt) by (apply Z.mul_le_mono_nonneg_l; lia). unfold c in *. lia. }
  split; [exact L1|]. split; [exact L2|]. split; [exact U|]. split; [exact Hq1|].
  destruct U as [U|U]; [unfold c in *; lia |].
  assert (q0 * B <= (B - 1) * B) by (apply Z.mul_le_mono_nonneg_r; lia). lia.
Qed.

Lemma wrapd_cong x y j : x = y + B * B * j -> wrapd w x = y mod (B * B).
Proof. intros ->. unfold wrapd. replace (y + B * B * j) with (y + j * (B * B)) by ring. apply Z_mod_plus_full. Qed.

Theorem nm_div_rem_3by2_correct d lo hi : norm2 d -> 0 <= lo < B -> 0 <= hi < d ->
  nm_div_rem_3by2 w (nm_3by2_new w d) lo hi = ((lo + B * hi) / d, (lo + B * hi) mod d) /\
  nm_div_rem_3by2_checks w (nm_3by2_new w d) lo hi = true.
Proof.
  intros Hn Hlo Hhi. pose proof Hn as [N1 N2]. pose proof Bge2 as HB.
  destruct (invert_double_word_spec d Hn) as (Hv & (k & Hk & Hkr) & _ & _).
  destruct (norm2_high d Hn) as (Hn1 & Hd0 & Ed).
  unfold nm_div_rem_3by2, nm_div_rem_3by2_checks, nm_3by2_body, nm_3by2_new, nm_split. cbn [n2_divisor n2_m fst snd].
  set (v := nm_invert_double_word w d) in *.
  set (d0 := d mod B) in *. set (d1 := d / B) in *.
  destruct (split_eq hi ltac:(lia)) as [Eh Hu1].
  set (u1 := hi mod B) in *. set (u2 := hi / B) in *.
  assert (Hu2 : 0 <= u2) by (apply Z.div_pos; lia).
  set (t := v * u2 + hi).
  assert (Ht0 : 0 <= t) by (unfold t; assert (0 <= v * u2) by (apply Z.mul_nonneg_nonneg; lia); lia).
  destruct (split_eq t Ht0) as [Et Hq0].
  set (q0 := t mod B) in *. set (q1 := t / B) in *.
  destruct (mg_3by2_core d v k lo u1 u2 q0 q1) as (L1 & L2 & U & Hq1 & U2); try lia.
  set (rt := lo + B * (u1 + B * u2) - (q1 + 1) * d) in *.
  set (e1 := q1 * d1). set (e2 := u1 - wrapw w e1).
  set (e3 := nm_merge w lo (wrapw w e2) - d0 * q1).
  set (r := wrapd w (wrapd w e3 - d)).
  assert (Er : r = rt mod (B * B)).
  { unfold r. apply (wrapd_cong _ _ (e1 / B - e2 / B - e3 / (B * B) - u2)).
    unfold wrapd. rewrite (Z.mod_eq e3 (B * B)) by nia.
    unfold e3, nm_merge, wrapw. rewrite (Z.mod_eq e2 B) by lia.
    unfold e2, wrapw. rewrite (Z.mod_eq e1 B) by lia. unfold e1, rt. rewrite Ed. ring. }
  assert (HBB : 0 < B * B) by (apply Z.mul_pos_pos; lia).
  assert (Hr : 0 <= r < B * B) by (rewrite Er; apply Z.mod_pos_bound; lia).
  assert (Hr1 : 0 <= r / B < B) by (split; [apply Z.div_pos; lia | apply Z.div_lt_upper_bound; lia]).
  rewrite (borrow_mask (r / B) q0) by lia.
  assert (Ht : t <? B * B = true).
  { apply Z.ltb_lt. assert (B * q1 <= B * (B - 1)) by (apply Z.mul_le_mono_nonneg_l; lia). lia. }
  assert (Hh : hi <? d = true) by (apply Z.ltb_lt; lia).
  rewrite Ht, Hh. cbn [andb].
  assert (Ea2 : lo + B * hi = (q1 + 1) * d + rt) by (unfold rt; lia).
  assert (Ha : lo + B * hi < d * B).
  { assert (B * hi <= B * (d - 1)) by (apply Z.mul_le_mono_nonneg_l; lia). lia. }
  destruct (Z_lt_ge_dec rt 0) as [Neg|Pos].
  - assert (Er2 : r = rt + B * B) by (rewrite Er; apply (mod_eq _ _ (-1)); lia).
    assert (q0 <= r / B) by (apply Z.div_le_lower_bound; lia).
    destruct (Z.ltb_spec (r / B) q0) as [L|L]; [lia|].
    replace (B - 1 - 0) with (B - 1) by ring. rewrite land_mask_dword by lia. rewrite Z.sub_0_r.
    assert (Eq' : wrapw w q1 = q1) by (unfold wrapw; apply Z.mod_small; lia).
    assert (Er' : wrapd w (r + d) = rt + d).
    { unfold wrapd. rewrite Er2. apply (mod_eq _ _ 1); lia. }
    rewrite Eq', Er'.
    destruct (Z.geb_spec (rt + d) d) as [G|G]; [lia|].
    split; [|reflexivity]. f_equal.
    + symmetry; apply (div_eq _ _ _ (rt + d)); lia.
    + symmetry; apply (mod_eq _ _ q1); lia.
  - assert (Er2 : r = rt) by (rewrite Er; apply Z.mod_small; lia).
    assert (Hq1' : q1 + 1 < B).
    { destruct (Z_lt_ge_dec (q1 + 1) B) as [|N]; auto; exfalso.
      assert (0 <= (q1 + 1 - B) * d) by (apply Z.mul_nonneg_nonneg; lia). lia. }
    destruct (Z.ltb_spec (r / B) q0) as [L|L].
    + (* keep the candidate q1 + 1 *)
      replace (B - 1 - (B - 1)) with 0 by ring. replace (nm_merge w 0 0) with 0 by (unfold nm_merge; ring). rewrite Z.land_0_l, !Z.add_0_r.
      assert (Eq' : wrapw w (q1 - (B - 1)) = q1 + 1) by (unfold wrapw; apply (mod_eq _ _ (-1)); lia).
      assert (Er' : wrapd w r = rt) by (unfold wrapd; rewrite Er2; apply Z.mod_small; lia).
      rewrite Eq', Er'.
      destruct (Z.geb_spec rt d) as [G|G].
      * assert (Hq2 : q1 + 1 + 1 < B).
        { destruct (Z_lt_ge_dec (q1 + 1 + 1) B) as [|N]; auto; exfalso.
          assert (0 <= (q1 + 1 + 1 - B) * d) by (apply Z.mul_nonneg_nonneg; lia). lia. }
        assert (Hlt : q1 + 1 + 1 <? B = true) by (apply Z.ltb_lt; lia). rewrite Hlt.
        split; [|reflexivity]. f_equal.
        -- symmetry; apply (div_eq _ _ _ (rt - d)); lia.
        -- symmetry; apply (mod_eq _ _ (q1 + 1 + 1)); lia.
      * split; [|reflexivity]. f_equal.
        -- symmetry; apply (div_eq _ _ _ rt); lia.
        -- symmetry; apply (mod_eq _ _ (q1 + 1)); lia.
    + (* high word of the remainder >= q0: add d back, the final test restores q1 + 1 *)
      assert (G0 : q0 * B <= rt).
      { rewrite <- Er2. assert (B * (r / B) <= r) by (apply Z.mul_div_le; lia).
        assert (q0 * B <= (r / B) * B) by (apply Z.mul_le_mono_nonneg_r; lia). lia. }
      assert (G1 : rt < B * B - d) by (destruct U; [assumption | lia]).
      replace (B - 1 - 0) with (B - 1) by ring. rewrite land_mask_dword by lia. rewrite Z.sub_0_r.
      assert (Eq' : wrapw w q1 = q1) by (unfold wrapw; apply Z.mod_small; lia).
      assert (Er' : wrapd w (r + d) = rt + d) by (unfold wrapd; rewrite Er2; apply Z.mod_small; lia).
      rewrite Eq', Er'.
      destruct (Z.geb_spec (rt + d) d) as [G|G]; [|lia].
      assert (Hlt : q1 + 1 <? B = true) by (apply Z.ltb_lt; lia). rewrite Hlt.
      split; [|reflexivity]. f_equal.
      * replace (rt + d - d) with rt by ring. symmetry; apply (div_eq _ _ _ rt); lia.
      * replace (rt + d - d) with rt by ring. symmetry; apply (mod_eq _ _ (q1 + 1)); lia.
Qed.


Theorem nm_div_rem_4by2_correct d lo hi : norm2 d -> 0 <= lo < B * B -> 0 <= hi < d ->
  nm_div_rem_4by2 w (nm_3by2_new w d) lo hi = ((lo + B * B * hi) / d, (lo + B * B * hi) mod d).
Proof.
  intros Hn Hlo Hhi. pose proof Hn as [N1 N2]. pose proof Bge2 as HB.
  unfold nm_div_rem_4by2, nm_split.
  destruct (split_eq lo ltac:(lia)) as [El Ha0]. set (a0 := lo mod B) in *. set (a1 := lo / B) in *.
  assert (Ha1 : 0 <= a1 < B) by (split; [apply Z.div_pos; lia | apply Z.div_lt_upper_bound; lia]).
  rewrite (proj1 (nm_div_rem_3by2_correct d a1 hi Hn Ha1 Hhi)).
  pose proof (Z.div_mod (a1 + B * hi) d ltac:(lia)) as E1.
  pose proof (Z.mod_pos_bound (a1 + B * hi) d ltac:(lia)) as R1.
  set (q1 := (a1 + B * hi) / d) in *. set (r1 := (a1 + B * hi) mod d) in *.
  rewrite (proj1 (nm_div_rem_3by2_correct d a0 r1 Hn Ha0 R1)).
  pose proof (Z.div_mod (a0 + B * r1) d ltac:(lia)) as E0.
  pose proof (Z.mod_pos_bound (a0 + B * r1) d ltac:(lia)) as R0.
  set (q0 := (a0 + B * r1) / d) in *. set (r0 := (a0 + B * r1) mod d) in *.
  unfold nm_merge. f_equal.
  - symmetry. apply (div_eq _ _ _ r0); [lia|]. rewrite El.
    replace (a0 + B * a1 + B * B * hi) with (a0 + B * (a1 + B * hi)) by ring. rewrite E1.
    replace (a0 + B * (d * q1 + r1)) with (a0 + B * r1 + B * d * q1) by ring. rewrite E0. ring.
  - symmetry. apply (mod_eq _ _ (q0 + B * q1)); [lia|]. rewrite El.
    replace (a0 + B * a1 + B * B * hi) with (a0 + B * (a1 + B * hi)) by ring. rewrite E1.
    replace (a0 + B * (d * q1 + r1)) with (a0 + B * r1 + B * d * q1) by ring. rewrite E0. ring.
Qed.

Theorem nm_div_rem_1by1_correct d a : norm1 d -> 0 <= a < B ->
  nm_div_rem_1by1 (nm_2by1_new w d) a = (a / d, a mod d).
Proof.
  intros [N1 N2] Ha. unfold nm_div_rem_1by1, nm_2by1_new. cbn [n1_divisor].
  destruct (Z.ltb_spec a d) as [L|L].
  - rewrite Z.div_small, Z.mod_small by lia. reflexivity.
  - f_equal; symmetry; [apply (div_eq _ _ _ (a - d)) | apply (mod_eq _ _ 1)]; lia.
Qed.

Theorem nm_div_rem_2by2_correct d a : norm2 d -> 0 <= a < B * B ->
  nm_div_rem_2by2 (nm_3by2_new w d) a = (a / d, a mod d).
Proof.
  intros [N1 N2] Ha. unfold nm_div_rem_2by2, nm_3by2_new. cbn [n2_divisor].
  destruct (Z.ltb_spec a d) as [L|L].
  - rewrite Z.div_small, Z.mod_small by lia. reflexivity.
  - f_equal; symmetry; [apply (div_eq _ _ _ (a - d)) | apply (mod_eq _ _ 1)]; lia.
Qed.

(** *** the contracts of DivContracts.v hold for the as-is models *)
Theorem nm1by1_contract : contract_1by1 w (nm1by1 w).
Proof. intros d a Hn Ha. apply nm_div_rem_1by1_correct; assumption. Qed.
Theorem nm2by1_contract : contract_2by1 w (nm2by1 w).
Proof. intros d a Hn Ha. apply nm_div_rem_2by1_correct; assumption. Qed.
Theorem nm2by2_contract : contract_2by2 w (nm2by2 w).
Proof. intros d a Hn Ha. apply nm_div_rem_2by2_correct; assumption. Qed.
Theorem nm3by2_contract : contract_3by2 w (nm3by2 w).
Proof. intros d lo hi Hn Hlo Hhi. apply nm_div_rem_3by2_correct; assumption. Qed.
Theorem nm4by2_contract : contract_4by2 w (nm4by2 w).
Proof. intros d lo hi Hn Hlo Hhi. apply nm_div_rem_4by2_correct; assumption. Qed.

(** no debug assertion and no overflow check of the three non-trivial functions can fire *)
Theorem nm_checks_hold :
  (forall d, norm1 d -> nm_invert_word_checks w d = true) /\
  (forall d, norm2 d -> nm_invert_double_word_checks w d = true) /\
  (forall d a, norm1 d -> 0 <= a < d * B -> nm_div_rem_2by1_checks w (nm_2by1_new w d) a = true) /\
  (forall d lo hi, norm2 d -> 0 <= lo < B -> 0 <= hi < d -> nm_div_rem_3by2_checks w (nm_3by2_new w d) lo hi = true).
Proof.
  split; [|split; [|split]].
  - intros d Hn. apply (invert_word_spec d Hn).
  - intros d Hn. apply (invert_double_word_spec d Hn).
  - intros d a Hn Ha. apply (nm_div_rem_2by1_correct d a Hn Ha).
  - intros d lo hi Hn Hlo Hhi. apply (nm_div_rem_3by2_correct d lo hi Hn Hlo Hhi).
Qed.

End P.

(** non-vacuity: 64-bit words (and the smallest word, w = 1) *)
Example nm_examples :
  (let d := 2 ^ 63 + 5 in let a := (2 ^ 63 + 4) * 2 ^ 64 + 77 in
   DivWordProofs.norm1 64 d /\ 0 <= a < d * Words.B 64 /\ nm2by1 64 d a = (a / d, a mod d)) /\
  (let d := 2 ^ 127 + 12345 in let hi := 2 ^ 127 + 12344 in
   DivWordProofs.norm2 64 d /\ 0 <= hi < d /\ nm3by2 64 d 99 hi = ((99 + 2 ^ 64 * hi) / d, (99 + 2 ^ 64 * hi) mod d) /\
   nm4by2 64 d (2 ^ 128 - 1) hi = ((2 ^ 128 - 1 + 2 ^ 128 * hi) / d, (2 ^ 128 - 1 + 2 ^ 128 * hi) mod d)) /\
  nm3by2 1 3 1 2 = (1, 2) /\ nm_invert_double_word 64 (2 ^ 128 - 1) = 0.
Proof. unfold DivWordProofs.norm1, DivWordProofs.norm2. vm_compute. repeat split; intro; discriminate. Qed.
