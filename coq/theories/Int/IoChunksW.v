(** C07 (round 3): convert.rs chunks_to_words / Repr::from_chunks at word level: per chunk
    `buffer[..len].copy_from_slice(chunk); buffer[len] = 0; shl_in_place(buffer[..=len], shift % WORD_BITS)`
    (C02's model of shift::shl_in_place, its carry is discarded by the code) and
    `debug_assert_zero!(add_in_place(&mut words_out[shift / WORD_BITS..], &buffer[..=len]))` (C01's model of
    add::add_in_place), with the allocation sizes of Repr::from_chunks.  For every word size, every chunk
    width and all chunks (wider than chunk_bits or not): no index is out of range, the discarded shift carry
    and the asserted addition carry are zero, and the words denote from_chunks_spec. *)
From Dashu Require Import Base.Prelude Base.Words Int.RingAdd Int.RingAddProofs Int.DivWordModel Int.DivWordProofs Int.IoSpec Int.IoModel.
Open Scope Z_scope.

Section C2W.
Variable w : Z.

Fixpoint c2w_loop (cb : Z) (buflen : nat) (i : Z) (chunks : list (list Z)) (out : list Z) : result (list Z) :=
  match chunks with
  | [] => Ok out
  | chunk :: rest =>
    let shift := i * cb in
    if (buflen <=? length chunk)%nat then Panic Undocumented                      (* buffer[chunk.len()] = 0 *)
    else
      let '(sh, _) := shl_in_place w (chunk ++ [0]) (shift mod w) in               (* the carry is not looked at *)
      let pos := Z.to_nat (shift / w) in
      if (length out <? pos + length sh)%nat then Panic Undocumented              (* slice start, split_at_mut *)
      else let '(sum, c) := add_in_place w (skipn pos out) sh in
           if c then Panic Undocumented                                            (* debug_assert_zero! *)
           else c2w_loop cb buflen (i + 1) rest (firstn pos out ++ sum)
  end.

(** Repr::from_chunks: result_len = max_len + (chunks.len() - 1) * chunk_bits + 1 words, buffer max_len + 1 words *)
Definition from_chunks_words (cb : Z) (chunks : list (list Z)) : result (list Z) :=
  if cb <=? 0 then Panic Undocumented
  else match chunks with
       | [] => Ok []
       | _ => let max_len := fold_right Nat.max 0%nat (map (@length Z) chunks) in
              let result_len := (max_len + (length chunks - 1) * Z.to_nat cb + 1)%nat in
              c2w_loop cb (max_len + 1) 0 chunks (repeat 0 result_len)
       end.

Hypothesis w_pos : 0 < w.
Notation B := (Words.B w).
Notation value := (Words.value w).
Notation wf := (Words.wf w).
Let HB : 0 < B := B_pos w w_pos.

Lemma Bpow k : 0 <= k -> B ^ k = 2 ^ (w * k).
Proof. intros. unfold Words.B. rewrite Z.pow_mul_r by lia. reflexivity. Qed.

Lemma value_split pos out : (pos <= length out)%nat ->
  value out = value (firstn pos out) + B ^ Z.of_nat pos * value (skipn pos out).
Proof.
  intros Hp. rewrite <- (firstn_skipn pos out) at 1. rewrite Words.value_app. unfold len. rewrite firstn_length. f_equal. f_equal. f_equal. lia.
Qed.

Lemma wf_firstn pos out : wf out -> wf (firstn pos out).
Proof. intros H. rewrite <- (firstn_skipn pos out) in H. apply wf_app in H. tauto. Qed.
Lemma wf_skipn pos out : wf out -> wf (skipn pos out).
Proof. intros H. rewrite <- (firstn_skipn pos out) in H. apply wf_app in H. tauto. Qed.

Section Loop.
Variable cb : Z.
Hypothesis cb_pos : 0 < cb.
Variable L : nat.         (* max_len *)
Variable n : Z.           (* chunks.len() *)
Variable RL : nat.        (* result_len *)
Hypothesis RL_ok : Z.of_nat L + (n - 1) * cb + 1 <= Z.of_nat RL.

Lemma c2w_loop_ok : forall chunks i out, 0 <= i -> i + len chunks = n ->
  Forall wf chunks -> Forall (fun c => (length c <= L)%nat) chunks ->
  wf out -> length out = RL -> value out < 2 ^ (w * Z.of_nat L + i * cb) ->
  exists out', c2w_loop cb (L + 1) i chunks out = Ok out' /\ wf out' /\ length out' = RL /\
    value out' = value out + 2 ^ (i * cb) * from_chunks_spec cb (map value chunks).
Proof.
  induction chunks as [|chunk rest IH]; intros i out Hi Hn Hwfc Hlc Hwf Hlen Hbound.
  - exists out. cbn [c2w_loop map from_chunks_spec]. repeat split; auto. lia.
  - apply Forall_cons_iff in Hwfc. destruct Hwfc as [Hwc Hwrest]. apply Forall_cons_iff in Hlc. destruct Hlc as [Hcl Hlrest].
    rewrite len_cons in Hn. assert (Hin : i <= n - 1) by (unfold len in Hn; lia).
    cbn [c2w_loop]. destruct (Nat.leb_spec (L + 1) (length chunk)) as [C|_]; [lia|].
    set (s := (i * cb) mod w). set (posz := (i * cb) / w).
    assert (Hic : 0 <= i * cb) by nia.
    assert (Hs : 0 <= s < w) by (apply Z.mod_pos_bound; lia).
    assert (Hposz : 0 <= posz) by (apply Z.div_pos; lia).
    assert (Hsplit : i * cb = w * posz + s) by (apply Z.div_mod; lia).
    (* the shift: nothing is carried out *)
    assert (Hwb : wf (chunk ++ [0])) by (apply wf_app; split; [exact Hwc | apply wf_cons; split; [lia | apply wf_nil]]).
    destruct (shl_in_place w (chunk ++ [0]) s) as [sh cy] eqn:Es.
    destruct (shl_in_place_spec w w_pos _ s Hwb Hs sh cy Es) as (Hv & Hwsh & Hlsh & Hcy).
    assert (Hvb : value (chunk ++ [0]) = value chunk) by (rewrite Words.value_app; cbn [Words.value]; lia).
    pose proof (Words.value_bounds w w_pos chunk Hwc) as Hcb.
    assert (Hlb : len (chunk ++ [0]) = len chunk + 1) by (unfold len; rewrite app_length; cbn [length]; lia).
    assert (P2s : 0 < 2 ^ s) by (apply Z.pow_pos_nonneg; lia).
    assert (S2 : 2 ^ s < B) by (unfold Words.B; apply Z.pow_lt_mono_r; lia).
    assert (Hcy0 : cy = 0).
    { rewrite Hvb, Hlb, Z.pow_add_r, Z.pow_1_r in Hv by (unfold len; lia).
      pose proof (Words.value_nonneg w w_pos sh Hwsh) as Hsh0.
      assert (0 < B ^ len chunk) by (apply Z.pow_pos_nonneg; unfold len; lia).
      destruct (Z.eq_dec cy 0) as [E|NE]; [exact E|exfalso]. assert (1 <= cy) by lia.
      assert (value chunk * 2 ^ s < B ^ len chunk * B) by nia. nia. }
    subst cy. rewrite Z.mul_0_r, Z.add_0_r, Hvb in Hv.
    (* positions *)
    set (pos := Z.to_nat posz).
    assert (Hpos : Z.of_nat pos = posz) by (unfold pos; lia).
    assert (Hposle : posz <= (n - 1) * cb).
    { assert (posz <= i * cb) by (unfold posz; apply Z.div_le_upper_bound; nia). nia. }
    assert (Hlsh' : length sh = (length chunk + 1)%nat) by (rewrite Hlsh, app_length; cbn [length]; lia).
    destruct (Nat.ltb_spec (length out) (pos + length sh)) as [C|Hfit]; [lia|].
    assert (Hwsk : wf (skipn pos out)) by (apply wf_skipn; exact Hwf).
    assert (Hlsk : length (skipn pos out) = (RL - pos)%nat) by (rewrite skipn_length; lia).
    destruct (add_in_place w (skipn pos out) sh) as [sum c] eqn:Ea.
    assert (Hle : (length sh <= length (skipn pos out))%nat) by lia.
    destruct (add_in_place_spec w w_pos (skipn pos out) sh Hle Hwsk Hwsh sum c Ea) as (Hls & Hwsum & Hvs).
    pose proof (value_split pos out ltac:(lia)) as Hvo. rewrite Hpos in Hvo.
    set (lo := value (firstn pos out)) in *. set (hi := value (skipn pos out)) in *.
    assert (Hlo0 : 0 <= lo) by (apply Words.value_nonneg; [exact w_pos | apply wf_firstn; exact Hwf]).
    assert (Hlenf : length (firstn pos out) = pos) by (rewrite firstn_length; lia).
    assert (Hpow : B ^ posz * 2 ^ s = 2 ^ (i * cb)).
    { rewrite Bpow by lia. assert (0 <= w * posz) by (apply Z.mul_nonneg_nonneg; lia). rewrite <- Z.pow_add_r by lia. f_equal. lia. }
    assert (PB : 0 < B ^ posz) by (apply Z.pow_pos_nonneg; lia).
    (* the new partial sum and its bound *)
    set (T := value out + 2 ^ (i * cb) * value chunk).
    assert (HT : lo + B ^ posz * (hi + value sh) = T) by (unfold T; rewrite Hvo, Hv, <- Hpow; ring).
    assert (Hcw : value chunk < 2 ^ (w * Z.of_nat L)).
    { rewrite <- Bpow by lia. assert (B ^ len chunk <= B ^ Z.of_nat L) by (apply Z.pow_le_mono_r; unfold len; lia). lia. }
    assert (P2i : 0 < 2 ^ (i * cb)) by (apply Z.pow_pos_nonneg; lia).
    assert (WL : 0 <= w * Z.of_nat L) by (apply Z.mul_nonneg_nonneg; lia).
    assert (HTb : T < 2 ^ (w * Z.of_nat L + i * cb + 1)).
    { unfold T. rewrite Z.pow_add_r, Z.pow_1_r by lia. rewrite Z.pow_add_r in Hbound by lia.
      rewrite Z.pow_add_r by lia. set (a := 2 ^ (w * Z.of_nat L)) in *. set (b := 2 ^ (i * cb)) in *.
      clear - Hbound Hcw P2i. nia. }
    assert (HTcap : T < B ^ Z.of_nat RL).
    { rewrite Bpow by lia. apply Z.lt_le_trans with (2 ^ (w * Z.of_nat L + i * cb + 1)); [exact HTb|].
      apply Z.pow_le_mono_r; [lia|].
      assert (H1 : i * cb <= (n - 1) * cb) by (apply Z.mul_le_mono_nonneg_r; lia).
      assert (H0 : 0 <= (n - 1) * cb) by (apply Z.mul_nonneg_nonneg; lia).
      pose proof (Z.mul_le_mono_nonneg_l _ _ w ltac:(lia) RL_ok) as H2.
      replace (w * (Z.of_nat L + (n - 1) * cb + 1)) with (w * Z.of_nat L + w * ((n - 1) * cb) + w) in H2 by ring.
      assert (H3 : (n - 1) * cb + 1 <= w * ((n - 1) * cb) + w).
      { set (t := (n - 1) * cb) in *. clear - H0 w_pos. nia. }
      lia. }
    assert (Hc : c = false).
    { destruct c; [exfalso|reflexivity]. cbn [b2z] in Hvs. rewrite Z.mul_1_l in Hvs.
      pose proof (Words.value_nonneg w w_pos sum Hwsum) as Hs0.
      assert (Elen : len (skipn pos out) = Z.of_nat RL - posz) by (unfold len; rewrite Hlsk; lia).
      rewrite Elen in Hvs.
      assert (B ^ Z.of_nat RL = B ^ posz * B ^ (Z.of_nat RL - posz)) by (rewrite <- Z.pow_add_r by lia; f_equal; lia).
      assert (B ^ (Z.of_nat RL - posz) <= hi + value sh) by lia.
      clear - HT HTcap H H0 Hlo0 PB. nia. }
    subst c. cbn [b2z] in Hvs. rewrite Z.mul_0_l, Z.add_0_r in Hvs.
    assert (Hnew : value (firstn pos out ++ sum) = T).
    { rewrite Words.value_app. unfold len. rewrite Hlenf, Hpos. fold lo. rewrite Hvs. exact HT. }
    destruct (IH (i + 1) (firstn pos out ++ sum) ltac:(lia) ltac:(lia) Hwrest Hlrest
                ltac:(apply wf_app; split; [apply wf_firstn; exact Hwf | exact Hwsum])
                ltac:(rewrite app_length, Hlenf, Hls, Hlsk; lia)
                ltac:(rewrite Hnew; apply Z.lt_le_trans with (2 ^ (w * Z.of_nat L + i * cb + 1)); [exact HTb | apply Z.pow_le_mono_r; nia]))
      as (out' & E & Hw' & Hl' & Hv').
    exists out'. split; [exact E|]. split; [exact Hw'|]. split; [exact Hl'|].
    rewrite Hv', Hnew. unfold T. cbn [map from_chunks_spec].
    replace ((i + 1) * cb) with (i * cb + cb) by ring. rewrite Z.pow_add_r by lia. ring.
Qed.
End Loop.

Lemma max_len_ge chunks : Forall (fun c : list Z => (length c <= fold_right Nat.max 0%nat (map (@length Z) chunks))%nat) chunks.
Proof.
  induction chunks as [|c t IH]; [constructor|]. cbn [map fold_right]. constructor; [lia|].
  eapply Forall_impl; [|exact IH]. cbn beta. intros. lia.
Qed.

(** Repr::from_chunks on word lists: total, and the words denote the specification *)
Theorem from_chunks_words_correct cb chunks : 0 < cb -> Forall wf chunks ->
  exists out, from_chunks_words cb chunks = Ok out /\ wf out /\ value out = from_chunks_spec cb (map value chunks).
Proof.
  intros Hcb Hwf. unfold from_chunks_words. destruct (Z.leb_spec cb 0); [lia|].
  destruct chunks as [|c t]; [exists []; repeat split; [apply wf_nil]|].
  set (chunks := c :: t) in *. set (L := fold_right Nat.max 0%nat (map (@length Z) chunks)).
  set (RL := (L + (length chunks - 1) * Z.to_nat cb + 1)%nat).
  destruct (c2w_loop_ok cb Hcb L (len chunks) RL ltac:(unfold RL, len, chunks; cbn [length]; nia) chunks 0 (repeat 0 RL)
              ltac:(lia) ltac:(lia) Hwf (max_len_ge chunks) (wf_repeat_zero w w_pos RL) (repeat_length _ _)
              ltac:(rewrite value_repeat_zero; apply Z.pow_pos_nonneg; nia)) as (out & E & Hw & _ & Hv).
  exists out. split; [exact E|]. split; [exact Hw|]. rewrite Hv, value_repeat_zero, Z.mul_0_l, Z.pow_0_r. lia.
Qed.
End C2W.

(** three chunks of 100 bits, one of them wider than the chunk width and one zero, 64-bit words *)
Example from_chunks_words_ex :
  rmap (Words.value 64) (from_chunks_words 64 100 [[5; 2 ^ 40]; [0]; [7; 9; 1]]) =
  Ok (from_chunks_spec 100 [5 + 2 ^ 64 * 2 ^ 40; 0; 7 + 2 ^ 64 * 9 + 2 ^ 128]).
Proof. vm_compute. reflexivity. Qed.

(** UBig::from_chunks: `u.as_words()` of every chunk (the words of a normalised magnitude), Repr::from_chunks, the value *)
Definition from_chunks_words_z (w cb : Z) (cs : list Z) : result Z :=
  rmap (Words.value w) (from_chunks_words w cb (map (fun c => to_words w (IoModel.nwords w c) c) cs)).
