(** C12 - what the certificates and specifications of GrlSpec.v mean (all inputs). *)
From Dashu Require Import Base.Prelude Int.GrlSpec.
From Coq Require Import Znumtheory.
Open Scope Z_scope.

Ltac bprop := repeat match goal with
  | H : (_ && _) = true |- _ => apply andb_prop in H; destruct H
  | H : (_ <=? _) = true |- _ => apply Z.leb_le in H
  | H : (_ <? _) = true |- _ => apply Z.ltb_lt in H
  | H : (_ =? _) = true |- _ => apply Z.eqb_eq in H
  | H : negb _ = true |- _ => apply negb_true_iff in H
  | H : (_ =? _) = false |- _ => apply Z.eqb_neq in H
  end.

Ltac btrue H :=
  repeat match type of H with
  | (_ && _) = true => let H1 := fresh H in apply andb_prop in H; destruct H as [H H1]
  end.

(** * gcd: a checked answer is THE gcd *)
Theorem gcd_ext_cert_complete : forall a b g s t,
  gcd_ext_cert a b g s t = true -> g = Z.gcd a b /\ s * a + t * b = g.
Proof.
  intros a b g s t H. unfold gcd_ext_cert in H. apply andb_prop in H. destruct H as [H H0].
  apply andb_prop in H. destruct H as [H H1]. apply andb_prop in H. destruct H as [H H2].
  apply Z.leb_le in H. apply Z.eqb_eq in H0, H1, H2. split; [|exact H0].
  destruct (Z.eq_dec g 0) as [E|NE].
  - rewrite E in *. rewrite Zmod_0_r in H1, H2. rewrite H1, H2. reflexivity.
  - apply Z.mod_divide in H1, H2; try exact NE.
    apply Z.divide_antisym_nonneg; [exact H | apply Z.gcd_nonneg | |].
    + apply Z.gcd_greatest; assumption.
    + rewrite <- H0. apply Z.divide_add_r; apply Z.divide_mul_r; [apply Z.gcd_divide_l | apply Z.gcd_divide_r].
Qed.

Example gcd_ext_cert_ex : gcd_ext_cert 12 18 6 (-1) 1 = true. Proof. reflexivity. Qed.

Theorem gcd_spec_ok : forall a b g, gcd_spec a b = Ok g ->
  0 <= g /\ (g | a) /\ (g | b) /\ (forall d, (d | a) -> (d | b) -> (d | g)).
Proof.
  intros a b g H. unfold gcd_spec in H. destruct ((a =? 0) && (b =? 0)); [discriminate|].
  injection H as <-. repeat split; [apply Z.gcd_nonneg | apply Z.gcd_divide_l | apply Z.gcd_divide_r | apply Z.gcd_greatest].
Qed.

Theorem gcd_spec_panic : forall a b, (exists r, gcd_spec a b = Panic r) <-> a = 0 /\ b = 0.
Proof.
  intros a b. unfold gcd_spec. split.
  - intros [r Hr]. destruct (Z.eqb_spec a 0), (Z.eqb_spec b 0); cbn [andb] in Hr; try discriminate. auto.
  - intros [-> ->]. cbn. eauto.
Qed.

(** * roots *)
Lemma pow_lt_inv : forall n a b, 0 < n -> 0 <= a -> 0 <= b -> a ^ n < b ^ n -> a < b.
Proof.
  intros n a b Hn Ha Hb H. destruct (Z_lt_le_dec a b) as [L|L]; [exact L|].
  assert (b ^ n <= a ^ n) by (apply Z.pow_le_mono_l; lia). lia.
Qed.

Theorem root_cert_unique : forall n x r r', 0 < n ->
  root_cert n x r = true -> root_cert n x r' = true -> r = r'.
Proof.
  intros n x r r' Hn H H'. unfold root_cert in *. bprop.
  assert (r < r' + 1) by (apply (pow_lt_inv n); lia).
  assert (r' < r + 1) by (apply (pow_lt_inv n); lia). lia.
Qed.

Theorem root_cert_meaning : forall n x r, root_cert n x r = true -> 0 <= r /\ r ^ n <= x < (r + 1) ^ n.
Proof.
  intros n x r H. unfold root_cert in H. bprop. lia.
Qed.

Theorem root_cert_sqrt : forall x r, root_cert 2 x r = true -> r = Z.sqrt x.
Proof.
  intros x r H. apply root_cert_meaning in H. destruct H as [H0 [H1 H2]].
  rewrite !Z.pow_2_r in *. symmetry. apply Z.sqrt_unique. unfold Z.succ. lia.
Qed.

Example root_cert_ex : root_cert 3 28 3 = true. Proof. reflexivity. Qed.

Theorem sqrt_rem_spec_ok : forall x, 0 <= x ->
  let '(s, r) := sqrt_rem_spec x in 0 <= s /\ s * s + r = x /\ 0 <= r <= 2 * s.
Proof.
  intros x Hx. unfold sqrt_rem_spec. pose proof (Z.sqrt_spec x Hx) as H. cbv zeta in H.
  pose proof (Z.sqrt_nonneg x). unfold Z.succ in H. nia.
Qed.

Theorem root_rem_cert_meaning : forall n x r e, root_rem_cert n x r e = true ->
  0 <= r /\ r ^ n <= x < (r + 1) ^ n /\ e = x - r ^ n /\ 0 <= e.
Proof.
  intros n x r e H. unfold root_rem_cert in H. apply andb_prop in H. destruct H as [H H0].
  apply root_cert_meaning in H. apply Z.eqb_eq in H0. lia.
Qed.

(** the signed root is truncated toward zero and carries the sign of the radicand *)
Theorem iroot_cert_meaning : forall n x r, iroot_cert n x r = true ->
  Z.abs r ^ n <= Z.abs x < (Z.abs r + 1) ^ n /\ 0 <= r * x.
Proof.
  intros n x r H. unfold iroot_cert in H. apply andb_prop in H. destruct H as [H H0].
  apply root_cert_meaning in H. apply Z.eqb_eq in H0.
  split; [lia|]. rewrite H0. destruct (Z.sgn_spec x) as [[? E]|[[? E]|[? E]]]; rewrite E; nia.
Qed.

Theorem iroot_cert_unique : forall n x r r', 0 < n ->
  iroot_cert n x r = true -> iroot_cert n x r' = true -> r = r'.
Proof.
  intros n x r r' Hn H H'. unfold iroot_cert in *. apply andb_prop in H, H'.
  destruct H as [H H0], H' as [H' H1].
  pose proof (root_cert_unique _ _ _ _ Hn H H') as E. apply Z.eqb_eq in H0, H1. rewrite H0, H1, E. reflexivity.
Qed.

Example iroot_cert_ex : iroot_cert 3 (-28) (-3) = true. Proof. reflexivity. Qed.

Theorem root_panic_documented : forall n x r, root_panic n x = Some r ->
  (r = RootZeroth /\ n = 0) \/ (r = RootNegative /\ x < 0 /\ Z.even n = true).
Proof.
  intros n x r. unfold root_panic. destruct (Z.eqb_spec n 0); [intros [= <-]; left; auto|].
  destruct (Z.ltb_spec x 0); cbn [andb]; [|discriminate]. destruct (Z.even n) eqn:E; [|discriminate].
  intros [= <-]. right. auto.
Qed.

(** * integer logarithm *)
Theorem ilog_cert_meaning : forall x b e, ilog_cert x b e = true -> 0 <= e /\ b ^ e <= Z.abs x < b ^ (e + 1).
Proof.
  intros x b e H. unfold ilog_cert in H. bprop. lia.
Qed.

Theorem ilog_cert_unique : forall x b e e', 2 <= b ->
  ilog_cert x b e = true -> ilog_cert x b e' = true -> e = e'.
Proof.
  intros x b e e' Hb H H'. apply ilog_cert_meaning in H, H'.
  destruct (Z.lt_trichotomy e e') as [L|[E|L]]; [|exact E|].
  - assert (b ^ (e + 1) <= b ^ e') by (apply Z.pow_le_mono_r; lia). lia.
  - assert (b ^ (e' + 1) <= b ^ e) by (apply Z.pow_le_mono_r; lia). lia.
Qed.

Example ilog_cert_ex : ilog_cert (-1000) 3 6 = true. Proof. reflexivity. Qed.

(** * remove *)
Theorem remove_cert_meaning : forall x f e rest, remove_cert x f e rest = true ->
  0 <= e /\ rest * f ^ e = x /\ rest mod f <> 0.
Proof.
  intros x f e rest H. unfold remove_cert in H. bprop. auto.
Qed.

Theorem remove_cert_unique : forall x f e rest e' rest', 2 <= f -> x <> 0 ->
  remove_cert x f e rest = true -> remove_cert x f e' rest' = true -> e = e' /\ rest = rest'.
Proof.
  intros x f e rest e' rest' Hf Hx H H'. apply remove_cert_meaning in H, H'.
  destruct H as [He [Hm Hn]], H' as [He' [Hm' Hn']].
  assert (forall e1 r1 e2 r2, 0 <= e1 -> e1 < e2 -> r1 * f ^ e1 = r2 * f ^ e2 -> r1 mod f = 0) as K.
  { intros e1 r1 e2 r2 H1 H2 E. replace e2 with (e1 + (1 + (e2 - e1 - 1))) in E by lia.
    rewrite !Z.pow_add_r, Z.pow_1_r in E by lia.
    assert (0 < f ^ e1) by (apply Z.pow_pos_nonneg; lia).
    assert (r1 = r2 * f ^ (e2 - e1 - 1) * f) as -> by nia. apply Z_mod_mult. }
  destruct (Z.lt_trichotomy e e') as [L|[E|L]].
  - exfalso. apply Hn. apply (K e rest e' rest'); lia.
  - subst e'. split; [reflexivity|]. assert (0 < f ^ e) by (apply Z.pow_pos_nonneg; lia). nia.
  - exfalso. apply Hn'. apply (K e' rest' e rest); lia.
Qed.

Lemma remove_loop_ok : forall fuel x f e, 2 <= f -> 0 < x -> 0 <= e -> Z.log2 x < Z.of_nat fuel ->
  let '(e', r) := remove_loop fuel x f e in e <= e' /\ r * f ^ (e' - e) = x /\ r mod f <> 0.
Proof.
  induction fuel as [|k IH]; intros x f e Hf Hx He Hl.
  - pose proof (Z.log2_nonneg x). cbn [Z.of_nat] in Hl. lia.
  - cbn [remove_loop]. destruct (Z.eqb_spec (x mod f) 0) as [E|NE].
    + assert (x = f * (x / f)) as Hd by (apply Z_div_exact_full_2; lia).
      assert (0 < x / f) by nia.
      assert (x / f < x) by nia.
      assert (Z.log2 (x / f) < Z.of_nat k).
      { destruct (Z.eq_dec (x / f) 0); [lia|].
        assert (Z.log2 (2 * (x / f)) <= Z.log2 x) by (apply Z.log2_le_mono; nia).
        rewrite Z.log2_double in H1 by lia. lia. }
      assert (0 <= e + 1) as He1 by lia.
      specialize (IH (x / f) f (e + 1) Hf H He1 H1).
      destruct (remove_loop k (x / f) f (e + 1)) as [e' r]. destruct IH as [I1 [I2 I3]].
      split; [lia|]. split; [|exact I3].
      replace (e' - e) with (1 + (e' - (e + 1))) by lia. rewrite Z.pow_add_r, Z.pow_1_r by lia. nia.
    + split; [lia|]. rewrite Z.sub_diag, Z.pow_0_r. split; [lia|exact NE].
Qed.

Theorem remove_spec_ok : forall x f e rest, 0 <= x -> remove_spec x f = Some (e, rest) ->
  remove_cert x f e rest = true.
Proof.
  intros x f e rest Hx H. unfold remove_spec in H. destruct (remove_none x f) eqn:N; [discriminate|].
  unfold remove_none in N. apply orb_false_iff in N. destruct N as [N1 N2].
  apply Z.eqb_neq in N1. apply Z.leb_gt in N2. injection H as H.
  pose proof (remove_loop_ok (Z.to_nat (Z.log2 x + 1)) x f 0) as K.
  rewrite H in K. pose proof (Z.log2_nonneg x).
  destruct K as [K1 [K2 K3]]; try lia. rewrite Z.sub_0_r in K2.
  unfold remove_cert. apply andb_true_intro. split; [apply andb_true_intro; split|].
  - apply Z.leb_le; exact K1.
  - apply Z.eqb_eq; exact K2.
  - apply negb_true_iff. apply Z.eqb_neq. exact K3.
Qed.

Theorem remove_none_documented : forall x f, 0 <= x -> 0 <= f ->
  (remove_spec x f = None <-> x = 0 \/ f = 0 \/ f = 1).
Proof.
  intros x f Hx Hf. unfold remove_spec, remove_none.
  destruct (Z.eqb_spec x 0), (Z.leb_spec f 1); cbn [orb]; split; intros K; try discriminate; try reflexivity; lia.
Qed.

Example remove_spec_ex : remove_spec 72 2 = Some (3, 9). Proof. reflexivity. Qed.

(** * brackets *)
Definition bk_ok (b : bracket) (X : Z) : Prop :=
  let '(lo, hi, e) := b in 0 <= lo /\ 0 <= e /\ lo * 2 ^ e <= X <= hi * 2 ^ e.

Lemma bk_trunc_ok : forall prec b X, bk_ok b X -> bk_ok (bk_trunc prec b) X.
Proof.
  intros prec [[lo hi] e] X H. unfold bk_trunc.
  destruct (Z.leb_spec (Z.log2 hi + 1 - prec) 0) as [L|L]; [exact H|].
  set (s := Z.log2 hi + 1 - prec) in *. unfold bk_ok in *. destruct H as [H0 [H1 [H2 H3]]].
  rewrite !Z.shiftr_div_pow2, Z.shiftl_mul_pow2 by lia.
  assert (0 < 2 ^ s) as Hs by (apply Z.pow_pos_nonneg; lia).
  assert (0 < 2 ^ e) as He by (apply Z.pow_pos_nonneg; lia).
  rewrite Z.pow_add_r by lia.
  pose proof (Z.div_mod lo (2 ^ s) ltac:(lia)) as D1. pose proof (Z.mod_pos_bound lo (2 ^ s) Hs) as B1.
  pose proof (Z.div_mod hi (2 ^ s) ltac:(lia)) as D2. pose proof (Z.mod_pos_bound hi (2 ^ s) Hs) as B2.
  assert (0 <= lo / 2 ^ s) by (apply Z.div_pos; lia).
  split; [assumption|]. split; [lia|]. split; [nia|].
  destruct (Z.eqb_spec (hi / 2 ^ s * 2 ^ s) hi) as [E|NE]; nia.
Qed.

Lemma bk_sqr_ok : forall prec b X, bk_ok b X -> bk_ok (bk_sqr prec b) (X * X).
Proof.
  intros prec [[lo hi] e] X H. unfold bk_sqr. apply bk_trunc_ok. unfold bk_ok in *.
  destruct H as [H0 [H1 [H2 H3]]].
  assert (0 < 2 ^ e) as He by (apply Z.pow_pos_nonneg; lia).
  replace (2 * e) with (e + e) by lia. rewrite Z.pow_add_r by lia.
  split; [nia|]. split; [lia|]. split; nia.
Qed.

Lemma bk_pow2k_ok : forall prec k b X, bk_ok b X -> bk_ok (bk_pow2k prec k b) (X ^ (2 ^ Z.of_nat k)).
Proof.
  induction k as [|k IH]; intros b X H.
  - cbn [bk_pow2k Z.of_nat]. rewrite Z.pow_0_r, Z.pow_1_r. exact H.
  - cbn [bk_pow2k]. rewrite Nat2Z.inj_succ, Z.pow_succ_r by lia.
    rewrite Z.pow_mul_r by (try apply Z.pow_nonneg; lia). rewrite Z.pow_2_r.
    apply IH. apply bk_sqr_ok. exact H.
Qed.

Lemma bk_of_ok : forall prec x, 0 <= x -> bk_ok (bk_of prec x) x.
Proof. intros prec x H. unfold bk_of. apply bk_trunc_ok. unfold bk_ok. rewrite Z.pow_0_r. lia. Qed.

Lemma scaled_le_spec : forall a ea b eb, 0 <= a -> 0 <= b -> 0 <= ea -> 0 <= eb ->
  (scaled_le a ea b eb = true <-> a * 2 ^ ea <= b * 2 ^ eb).
Proof.
  intros a ea b eb Ha Hb Hea Heb. unfold scaled_le.
  destruct (Z.leb_spec ea eb) as [L|L].
  - assert (2 ^ eb = 2 ^ ea * 2 ^ (eb - ea)) as EE by (rewrite <- Z.pow_add_r by lia; f_equal; lia).
    rewrite EE.
    assert (0 < 2 ^ ea) by (apply Z.pow_pos_nonneg; lia).
    assert (0 < 2 ^ (eb - ea)) by (apply Z.pow_pos_nonneg; lia).
    destruct (Z.eqb_spec b 0) as [E|NE].
    + subst b. rewrite Z.eqb_eq. nia.
    + destruct (Z.ltb_spec (Z.log2 a) (eb - ea)) as [K|K].
      * split; [intros _|reflexivity].
        destruct (Z.eq_dec a 0); [nia|].
        assert (a < 2 ^ (eb - ea)).
        { apply Z.log2_lt_pow2; lia. }
        nia.
      * rewrite Z.shiftl_mul_pow2 by lia. rewrite Z.leb_le. nia.
  - assert (2 ^ ea = 2 ^ eb * 2 ^ (ea - eb)) as EE by (rewrite <- Z.pow_add_r by lia; f_equal; lia).
    rewrite EE.
    assert (0 < 2 ^ eb) by (apply Z.pow_pos_nonneg; lia).
    assert (0 < 2 ^ (ea - eb)) by (apply Z.pow_pos_nonneg; lia).
    destruct (Z.eqb_spec a 0) as [E|NE].
    + subst a. split; [intros _; nia|reflexivity].
    + destruct (Z.ltb_spec (Z.log2 b) (ea - eb)) as [K|K].
      * split; [discriminate|intros C; exfalso].
        destruct (Z.eq_dec b 0); [nia|].
        assert (b < 2 ^ (ea - eb)) by (apply Z.log2_lt_pow2; lia). nia.
      * rewrite Z.shiftl_mul_pow2 by lia. rewrite Z.leb_le. nia.
Qed.

(** soundness of the bracket decision of   m / 2^k <= log2 (p / q) *)
Theorem log2_lb_dec_sound : forall prec m k p q b, 0 <= p -> 0 <= q ->
  log2_lb_dec prec m k p q = Some b -> (if b then log2_lb_holds m k p q else ~ log2_lb_holds m k p q).
Proof.
  intros prec m k p q b Hp Hq H. unfold log2_lb_dec in H.
  pose proof (bk_pow2k_ok prec k _ _ (bk_of_ok prec p Hp)) as BP.
  pose proof (bk_pow2k_ok prec k _ _ (bk_of_ok prec q Hq)) as BQ.
  destruct (bk_pow2k prec k (bk_of prec p)) as [[pl ph] pe].
  destruct (bk_pow2k prec k (bk_of prec q)) as [[ql qh] qe].
  unfold bk_ok in BP, BQ. destruct BP as [P0 [P1 [P2 P3]]], BQ as [Q0 [Q1 [Q2 Q3]]].
  set (P := p ^ 2 ^ Z.of_nat k) in *. set (Q := q ^ 2 ^ Z.of_nat k) in *.
  assert (0 < 2 ^ pe) by (apply Z.pow_pos_nonneg; lia).
  assert (0 < 2 ^ qe) by (apply Z.pow_pos_nonneg; lia).
  assert (0 <= ph) by nia. assert (0 <= qh) by nia.
  assert (0 < 2 ^ Z.max m 0) as Hmp by (apply Z.pow_pos_nonneg; lia).
  assert (0 < 2 ^ Z.max (- m) 0) as Hmn by (apply Z.pow_pos_nonneg; lia).
  unfold log2_lb_holds. fold P Q.
  destruct (scaled_le qh (qe + Z.max m 0) pl (pe + Z.max (- m) 0)) eqn:E1.
  - injection H as <-. apply scaled_le_spec in E1; try lia.
    rewrite !Z.pow_add_r in E1 by lia. nia.
  - destruct (scaled_le ql (qe + Z.max m 0) ph (pe + Z.max (- m) 0)) eqn:E2; cbn [negb] in H; [discriminate|].
    injection H as <-. intros C.
    assert (scaled_le ql (qe + Z.max m 0) ph (pe + Z.max (- m) 0) = true); [|congruence].
    apply scaled_le_spec; try lia. rewrite !Z.pow_add_r by lia. nia.
Qed.

Theorem log2_lb_exact_spec : forall m k p q, log2_lb_exact m k p q = true <-> log2_lb_holds m k p q.
Proof. intros. unfold log2_lb_exact, log2_lb_holds. apply Z.leb_le. Qed.

Example log2_lb_dec_ex : log2_lb_dec 64 13295629 23 3 1 = Some true /\ log2_lb_dec 64 (-13295630) 23 1 3 = Some true.
Proof. split; vm_compute; reflexivity. Qed.
