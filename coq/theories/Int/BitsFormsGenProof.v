(** C09 (round 3): the fragments regenerated from bits.rs / shift_ops.rs / helper_macros.rs on every run
    (coq/gen/BitsFormsGen.v, tools/translate_c09_r3.py) against the hand-written models.
    (a) the 16 Small/Large dispatch functions ARE repr_bitand / repr_bitor / repr_bitxor / repr_and_not;
    (b) every Big x primitive instance that declares `-> $t` is `&` with an unsigned primitive, hence every
        instance of the table returns Z op (primitive forms never panic);
    (c) the operand handling of the form macros is what Int/BitsForms.v assumes;
    (d) the buffer requests of the bit kernels are exactly the number of words pushed (never exceeded, always
        sufficient), within the capacity Buffer::allocate reserves (C17's default_capacity). *)
From Dashu Require Import Base.Prelude Base.Words Int.BitsSpec Int.BitsSign Int.BitsWords Int.BitsKernels Int.BitsKernelsBase
  Int.BitsLogicProofs Int.BitsSignedProofs Int.BitsForms Int.BitsFormsProofs.
From Dashu Require Int.StorageModel Int.StorageProofs.
From DashuGen Require Import BitsFormsGen.
Open Scope Z_scope.

(* ------------------------------------------------------------------ (a) dispatch *)

(** Each arm of a regenerated dispatch function is, up to the order of the operands of a commutative
    operator and the choice of the buffer that is kept, an arm of the hand-written model for SOME ownership;
    the proof tries them all, so that a refactoring which keeps the semantics keeps the proof. *)
Section Dispatch.
Variable w : Z.
Hypothesis w_pos : 0 < w.

Ltac arm f a b Ha Hb :=
  first [ exact (ubig_op_canonical w w_pos VV f a b Ha Hb) | exact (ubig_op_canonical w w_pos VR f a b Ha Hb)
        | exact (ubig_op_canonical w w_pos RV f a b Ha Hb) | exact (ubig_op_canonical w w_pos RR f a b Ha Hb)
        | rewrite (zop_comm f (bvalue w a) (bvalue w b));
          first [ exact (ubig_op_canonical w w_pos VV f b a Hb Ha) | exact (ubig_op_canonical w w_pos VR f b a Hb Ha)
                | exact (ubig_op_canonical w w_pos RV f b a Hb Ha) | exact (ubig_op_canonical w w_pos RR f b a Hb Ha) ] ].
Ltac split_ifs := repeat match goal with |- context [if ?c then _ else _] => destruct c end.
Ltac dispatch f :=
  let a := fresh "a" in let b := fresh "b" in let Ha := fresh "Ha" in let Hb := fresh "Hb" in
  intros a b Ha Hb; destruct a, b; split_ifs;
  match goal with |- _ = to_brepr w (zop f (bvalue w ?x) (bvalue w ?y)) => arm f x y Ha Hb end.

Theorem gen_bitand_correct : forall o a b, brepr_ok w a -> brepr_ok w b ->
  (match o with VV => gen_bitand_vv | VR => gen_bitand_vr | RV => gen_bitand_rv | RR => gen_bitand_rr end) w a b
    = to_brepr w (zop OpAnd (bvalue w a) (bvalue w b)).
Proof. intros o; destruct o; unfold gen_bitand_rv; unfold gen_bitand_vv, gen_bitand_vr, gen_bitand_rr; dispatch OpAnd. Qed.

Theorem gen_bitor_correct : forall o a b, brepr_ok w a -> brepr_ok w b ->
  (match o with VV => gen_bitor_vv | VR => gen_bitor_vr | RV => gen_bitor_rv | RR => gen_bitor_rr end) w a b
    = to_brepr w (zop OpOr (bvalue w a) (bvalue w b)).
Proof. intros o; destruct o; unfold gen_bitor_rv; unfold gen_bitor_vv, gen_bitor_vr, gen_bitor_rr; dispatch OpOr. Qed.

Theorem gen_bitxor_correct : forall o a b, brepr_ok w a -> brepr_ok w b ->
  (match o with VV => gen_bitxor_vv | VR => gen_bitxor_vr | RV => gen_bitxor_rv | RR => gen_bitxor_rr end) w a b
    = to_brepr w (zop OpXor (bvalue w a) (bvalue w b)).
Proof. intros o; destruct o; unfold gen_bitxor_rv; unfold gen_bitxor_vv, gen_bitxor_vr, gen_bitxor_rr; dispatch OpXor. Qed.

Theorem gen_and_not_correct : forall o a b, brepr_ok w a -> brepr_ok w b ->
  (match o with VV => gen_and_not_vv | VR => gen_and_not_vr | RV => gen_and_not_rv | RR => gen_and_not_rr end) w a b
    = to_brepr w (Z.ldiff (bvalue w a) (bvalue w b)).
Proof.
  intros o a b Ha Hb; destruct o; unfold gen_and_not_vv, gen_and_not_vr, gen_and_not_rv, gen_and_not_rr;
    destruct a, b; exact (repr_and_not_canonical w w_pos _ _ Ha Hb).
Qed.

(** the regenerated dispatch computes the two's-complement operation and builds the canonical Repr,
    for all four ownership combinations *)
Theorem gen_dispatch_correct : forall o a b, brepr_ok w a -> brepr_ok w b ->
  (match o with VV => gen_bitand_vv | VR => gen_bitand_vr | RV => gen_bitand_rv | RR => gen_bitand_rr end) w a b
    = to_brepr w (Z.land (bvalue w a) (bvalue w b)) /\
  (match o with VV => gen_bitor_vv | VR => gen_bitor_vr | RV => gen_bitor_rv | RR => gen_bitor_rr end) w a b
    = to_brepr w (Z.lor (bvalue w a) (bvalue w b)) /\
  (match o with VV => gen_bitxor_vv | VR => gen_bitxor_vr | RV => gen_bitxor_rv | RR => gen_bitxor_rr end) w a b
    = to_brepr w (Z.lxor (bvalue w a) (bvalue w b)) /\
  (match o with VV => gen_and_not_vv | VR => gen_and_not_vr | RV => gen_and_not_rv | RR => gen_and_not_rr end) w a b
    = to_brepr w (Z.ldiff (bvalue w a) (bvalue w b)).
Proof.
  intros o a b Ha Hb. split; [exact (gen_bitand_correct o a b Ha Hb)|]. split; [exact (gen_bitor_correct o a b Ha Hb)|].
  split; [exact (gen_bitxor_correct o a b Ha Hb) | exact (gen_and_not_correct o a b Ha Hb)].
Qed.

(** in particular it agrees with the hand-written dispatch the other models are built on *)
Corollary gen_dispatch_is_model : forall o a b, brepr_ok w a -> brepr_ok w b ->
  (match o with VV => gen_bitand_vv | VR => gen_bitand_vr | RV => gen_bitand_rv | RR => gen_bitand_rr end) w a b = repr_bitand w o a b /\
  (match o with VV => gen_bitor_vv | VR => gen_bitor_vr | RV => gen_bitor_rv | RR => gen_bitor_rr end) w a b = repr_bitor w o a b /\
  (match o with VV => gen_bitxor_vv | VR => gen_bitxor_vr | RV => gen_bitxor_rv | RR => gen_bitxor_rr end) w a b = repr_bitxor w o a b /\
  (match o with VV => gen_and_not_vv | VR => gen_and_not_vr | RV => gen_and_not_rv | RR => gen_and_not_rr end) w a b = repr_and_not w a b.
Proof.
  intros o a b Ha Hb. rewrite gen_bitand_correct, gen_bitor_correct, gen_bitxor_correct, gen_and_not_correct by assumption.
  rewrite <- (ubig_op_canonical w w_pos o OpAnd a b Ha Hb), <- (ubig_op_canonical w w_pos o OpOr a b Ha Hb),
    <- (ubig_op_canonical w w_pos o OpXor a b Ha Hb), <- (repr_and_not_canonical w w_pos a b Ha Hb).
  repeat split.
Qed.

End Dispatch.

(* ------------------------------------------------------------------ (b) primitive table *)

Definition pty_bits (t : pty) : Z := match t with PUnsigned k | PSigned k => k end.

(** a row is admissible: `-> $t` exactly for `&` with an unsigned primitive; UBig only meets unsigned primitives *)
Definition prim_row_ok (r : bool * pty * bop * bool) : bool :=
  let '(ib, t, f, rp) := r in
  Bool.eqb rp (match f with OpAnd => pty_unsigned t | _ => false end) && (ib || pty_unsigned t).

Theorem gen_prim_table_ok usz : forallb prim_row_ok (gen_prim_table usz) = true.
Proof. reflexivity. Qed.

Lemma gen_prim_table_bits usz : 0 <= usz -> Forall (fun r => 0 <= pty_bits (snd (fst (fst r)))) (gen_prim_table usz).
Proof. intros H. unfold gen_prim_table. repeat constructor; cbn [fst snd pty_bits]; lia. Qed.

Lemma prim_row_ret ib t f rp : prim_row_ok (ib, t, f, rp) = true -> 0 <= pty_bits t -> ret_prim_ok f rp t.
Proof.
  unfold prim_row_ok. intros H Hb E. subst rp. apply andb_true_iff in H. destruct H as [H _].
  destruct f; cbn in H; try discriminate. destruct t as [k|k]; cbn in H; try discriminate.
  split; [reflexivity | exists k; split; [exact Hb | reflexivity]].
Qed.

(** every instance of impl_bit_ops_primitive_with_ubig / _unsigned_with_ibig / _signed_with_ibig, every form:
    the answer is Z.land / Z.lor / Z.lxor of the operand values, in particular never a panic *)
Theorem prim_forms_table_correct w usz : 0 < w -> 0 <= usz -> forall ib t f rp, In (ib, t, f, rp) (gen_prim_table usz) ->
  forall pf s x p, mag_ok w s x -> (ib = false -> s = Positive) -> pty_in t p = true ->
    (if ib then ibig_prim_asis w pf f rp t s x p else ubig_prim_asis w pf f rp t x p) = Ok (zop f (signed s (bvalue w x)) p).
Proof.
  intros Hw Hu ib t f rp Hin pf s x p Hx Hs Hp.
  pose proof (proj1 (forallb_forall _ _) (gen_prim_table_ok usz) _ Hin) as Hrow.
  pose proof (proj1 (Forall_forall _ _) (gen_prim_table_bits usz Hu) _ Hin) as Hbits. cbn [fst snd] in Hbits.
  pose proof (prim_row_ret ib t f rp Hrow Hbits) as Hret.
  destruct ib.
  - apply (ibig_prim_asis_correct w Hw); assumption.
  - rewrite (Hs eq_refl). rewrite signed_pos.
    unfold prim_row_ok in Hrow. apply andb_true_iff in Hrow. destruct Hrow as [_ Hun]. cbn [orb] in Hun.
    assert (Hp0 : 0 <= p).
    { apply (pty_in_spec t p) in Hp. destruct t; cbn in Hun; [cbn [pty_lo] in Hp; lia | discriminate]. }
    apply (ubig_prim_asis_correct w Hw); [apply Hx | exact Hp | exact Hp0 | exact Hret].
Qed.

Example prim_table_nonvacuous : In (true, PUnsigned 8, OpAnd, true) (gen_prim_table 64) /\
  ibig_prim_asis 64 (PF_prim_big true) OpAnd true (PUnsigned 8) Negative (BSmall 1) 255 = Ok 255.
Proof. split; [cbn; tauto | vm_compute; reflexivity]. Qed.

(* ------------------------------------------------------------------ (c) operand handling of the form macros *)

Theorem gen_form_arms_ok :
  Forall (fun r => own_of_pform (fst r) = snd r) (gen_binop_prim_arms ++ gen_commutative_prim_arms) /\
  (forall pf, In pf (map fst (gen_binop_prim_arms ++ gen_commutative_prim_arms))) /\
  Forall (fun o => o = VV) gen_assign_prim_arms /\
  Forall (fun r => assign_own (fst r) = snd r) gen_assign_by_taking_arms /\
  map fst gen_assign_by_taking_arms = [false; true].
Proof.
  split; [repeat constructor|]. split; [intros [[|]|[|]]; cbn; tauto|].
  split; [repeat constructor|]. split; [repeat constructor | reflexivity].
Qed.

(** impl_shifts: `<< &usize` / `>> &usize` forward to the by-value count keeping the ownership of the shifted
    operand; every Assign form shifts the taken value (by value) *)
Theorem gen_shift_arms_ok :
  Forall (fun r => let '(is_shl, is_assign, cref, by_ref) := r in is_assign = true -> by_ref = false) gen_shift_arms /\
  (forall is_shl by_ref, In (is_shl, false, true, by_ref) gen_shift_arms) /\
  (forall is_shl cref, In (is_shl, true, cref, false) gen_shift_arms) /\
  length gen_shift_arms = 8%nat.
Proof.
  split; [repeat constructor; cbn; congruence|].
  split; [intros [|] [|]; cbn; tauto|]. split; [intros [|] [|]; cbn; tauto | reflexivity].
Qed.

(* ------------------------------------------------------------------ (d) buffer requests *)

Lemma shl_loop_length w s : forall ws c, length (fst (shl_loop w s ws c)) = length ws.
Proof.
  induction ws as [|x r IH]; intros c; cbn [shl_loop]; [reflexivity|].
  specialize (IH (Z.shiftl x s / B w)). destruct (shl_loop w s r (Z.shiftl x s / B w)) as [r' c'].
  cbn [fst length] in *. rewrite IH. reflexivity.
Qed.

Lemma shl_in_place_length w ws s : length (fst (shl_in_place w ws s)) = length ws.
Proof. unfold shl_in_place. destruct (s =? 0); [reflexivity | apply shl_loop_length]. Qed.

(** the buffers handed to Repr::from_buffer by the allocating kernels *)
Definition shl_large_ref_buf (w : Z) (ws : list Z) (rhs : Z) : list Z :=
  let '(r, c) := shl_in_place w ws (rhs mod w) in (repeat 0 (Z.to_nat (rhs / w)) ++ r) ++ [c].
Definition shl_dword_spilled_buf (w dw rhs : Z) : list Z :=
  let '(n0, n1, n2) := math_shl_dword w dw (rhs mod w) in repeat 0 (Z.to_nat (rhs / w)) ++ [n0; n1; n2].
Definition shl_one_spilled_buf (w rhs : Z) : list Z := repeat 0 (Z.to_nat (rhs / w)) ++ [Z.shiftl 1 (rhs mod w)].
Definition with_bit_dword_spilled_buf (w d n : Z) : list Z :=
  [d mod B w; d / B w] ++ repeat 0 (Z.to_nat (n / w - 2)) ++ [Z.shiftl 1 (n mod w)].
Definition with_bit_large_grown_buf (w : Z) (buf : list Z) (n : Z) : list Z :=
  buf ++ repeat 0 (Z.to_nat (n / w - len buf)) ++ [Z.shiftl 1 (n mod w)].

Theorem kernel_buffers_are_model w :
  (forall ws rhs, shl_large_ref w ws rhs = from_buffer w (shl_large_ref_buf w ws rhs)) /\
  (forall dw rhs, shl_dword_spilled w dw rhs = from_buffer w (shl_dword_spilled_buf w dw rhs)) /\
  (forall rhs, shl_one_spilled w rhs = from_buffer w (shl_one_spilled_buf w rhs)) /\
  (forall d n, with_bit_dword_spilled w d n = from_buffer w (with_bit_dword_spilled_buf w d n)) /\
  (forall buf n, len buf <= n / w -> with_bit_large w buf n = from_buffer w (with_bit_large_grown_buf w buf n)).
Proof.
  split; [|split; [|split; [|split]]].
  - intros ws rhs. unfold shl_large_ref, shl_large_ref_buf. destruct (shl_in_place w ws (rhs mod w)); reflexivity.
  - intros dw rhs. unfold shl_dword_spilled, shl_dword_spilled_buf.
    destruct (math_shl_dword w dw (rhs mod w)) as [[n0 n1] n2]; reflexivity.
  - reflexivity.
  - reflexivity.
  - intros buf n H. unfold with_bit_large, with_bit_large_grown_buf. destruct (Z.ltb_spec (n / w) (len buf)); [lia | reflexivity].
Qed.

Section Requests.
Variable w : Z.
Hypothesis w_pos : 0 < w.
Variable M : Z.           (* Buffer::MAX_CAPACITY *)
Hypothesis M_big : 8 <= M.

Lemma len_rep (x : Z) k : 0 <= k -> len (repeat x (Z.to_nat k)) = k.
Proof. intros H. unfold len. rewrite repeat_length. lia. Qed.

Lemma div_w_nonneg r : 0 <= r -> 0 <= r / w.
Proof. intros. apply Z.div_pos; lia. Qed.

(** [fits M pushed request]: the words pushed after Buffer::allocate(request) stay within the request (so a
    fortiori within the capacity default_capacity(request) >= request that allocate reserves: no
    `assert!(len < capacity)` of Buffer::push / push_zeros / push_slice can trip) *)
Definition fits (pushed request : Z) : Prop :=
  pushed <= request /\ (0 <= request <= M -> pushed <= StorageModel.default_capacity M request).

Lemma fits_intro pushed request : pushed <= request -> fits pushed request.
Proof.
  intros H. split; [exact H|]. intros HM. pose proof (StorageProofs.default_capacity_bounds M M_big request HM). lia.
Qed.

Lemma req_shl_large_ref ws rhs : 0 <= rhs -> fits (len (shl_large_ref_buf w ws rhs)) (bkreq_shl_large_ref_request (rhs / w) (len ws)).
Proof.
  intros H. apply fits_intro. unfold shl_large_ref_buf. pose proof (shl_in_place_length w ws (rhs mod w)) as L.
  destruct (shl_in_place w ws (rhs mod w)) as [r c]. cbn [fst] in L.
  rewrite !len_app, len_rep by (apply div_w_nonneg; lia). unfold bkreq_shl_large_ref_request, len. cbn [length]. rewrite L. lia.
Qed.

Lemma req_shl_dword_spilled dw rhs : 0 <= rhs -> fits (len (shl_dword_spilled_buf w dw rhs)) (bkreq_shl_dword_spilled_request (rhs / w)).
Proof.
  intros H. apply fits_intro. unfold shl_dword_spilled_buf. destruct (math_shl_dword w dw (rhs mod w)) as [[n0 n1] n2].
  rewrite len_app, len_rep by (apply div_w_nonneg; lia). unfold bkreq_shl_dword_spilled_request, len. cbn [length]. lia.
Qed.

Lemma req_shl_one_spilled rhs : 0 <= rhs ->
  fits (len (shl_one_spilled_buf w rhs)) (bkreq_shl_one_spilled_request (rhs / w)) /\ bkreq_shl_one_spilled_zeros (rhs / w) = rhs / w.
Proof.
  intros H. split; [apply fits_intro|]; unfold shl_one_spilled_buf; try rewrite len_app, len_rep by (apply div_w_nonneg; lia);
  unfold bkreq_shl_one_spilled_request, bkreq_shl_one_spilled_zeros, len; cbn [length]; lia.
Qed.

Lemma req_with_bit_dword_spilled d n : 2 * w <= n ->
  fits (len (with_bit_dword_spilled_buf w d n)) (bkreq_with_bit_dword_spilled_request (n / w)) /\
  0 <= bkreq_with_bit_dword_spilled_zeros (n / w) /\ bkreq_with_bit_dword_spilled_zeros (n / w) = n / w - 2.
Proof.
  intros H. assert (2 <= n / w) by (apply Z.div_le_lower_bound; lia).
  split; [apply fits_intro|]; unfold with_bit_dword_spilled_buf; try rewrite !len_app, len_rep by lia;
  unfold bkreq_with_bit_dword_spilled_request, bkreq_with_bit_dword_spilled_zeros, len; cbn [length]; lia.
Qed.

(** with_bit_large: after ensure_capacity(reserve) the capacity is at least the reserve (the buffer is
    reallocated to default_capacity(reserve) >= reserve when it was smaller), which the pushes do not exceed *)
Lemma req_with_bit_large buf n : len buf <= n / w ->
  len (with_bit_large_grown_buf w buf n) <= bkreq_with_bit_large_reserve (n / w) /\
  0 <= bkreq_with_bit_large_zeros (n / w) (len buf) /\ bkreq_with_bit_large_zeros (n / w) (len buf) = n / w - len buf.
Proof.
  intros H. unfold with_bit_large_grown_buf. rewrite !len_app, len_rep by lia.
  unfold bkreq_with_bit_large_reserve, bkreq_with_bit_large_zeros, len in *. cbn [length]. lia.
Qed.

Theorem bit_kernel_requests_suffice :
  (forall ws rhs, 0 <= rhs -> fits (len (shl_large_ref_buf w ws rhs)) (bkreq_shl_large_ref_request (rhs / w) (len ws))) /\
  (forall dw rhs, 0 <= rhs -> fits (len (shl_dword_spilled_buf w dw rhs)) (bkreq_shl_dword_spilled_request (rhs / w))) /\
  (forall rhs, 0 <= rhs -> fits (len (shl_one_spilled_buf w rhs)) (bkreq_shl_one_spilled_request (rhs / w)) /\
                           bkreq_shl_one_spilled_zeros (rhs / w) = rhs / w) /\
  (forall d n, 2 * w <= n -> fits (len (with_bit_dword_spilled_buf w d n)) (bkreq_with_bit_dword_spilled_request (n / w)) /\
      0 <= bkreq_with_bit_dword_spilled_zeros (n / w) /\ bkreq_with_bit_dword_spilled_zeros (n / w) = n / w - 2) /\
  (forall buf n, len buf <= n / w -> len (with_bit_large_grown_buf w buf n) <= bkreq_with_bit_large_reserve (n / w) /\
      0 <= bkreq_with_bit_large_zeros (n / w) (len buf) /\ bkreq_with_bit_large_zeros (n / w) (len buf) = n / w - len buf).
Proof.
  split; [exact req_shl_large_ref|]. split; [exact req_shl_dword_spilled|]. split; [exact req_shl_one_spilled|].
  split; [exact req_with_bit_dword_spilled | exact req_with_bit_large].
Qed.

(** shl_large shifts in place exactly when push(carry) and push_zeros_front(shift_words) fit the capacity:
    the test is sufficient (no assertion of Buffer trips) *)
Theorem shl_large_in_place_test cap ln sw : 0 <= ln -> 0 <= sw ->
  bkreq_shl_large_needs ln sw <= cap -> ln < cap /\ sw <= cap - (ln + 1).
Proof. intros Hl Hs. unfold bkreq_shl_large_needs. lia. Qed.

(** bitor_large / bitxor_large: after ensure_capacity(rhs.len()) the tail rhs[len..] fits *)
Theorem bitor_tail_fits ln rhs_len cap : ln < rhs_len -> bkreq_bitor_large_reserve rhs_len <= cap ->
  bkreq_bitxor_large_reserve rhs_len <= cap -> rhs_len - ln <= cap - ln.
Proof. unfold bkreq_bitor_large_reserve, bkreq_bitxor_large_reserve. lia. Qed.

End Requests.
