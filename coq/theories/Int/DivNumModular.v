(** C02 - as-is models of the reciprocal-division primitives of the external crate num-modular 0.6.5
    (src/barrett.rs: Normalized2by1Divisor, Normalized3by2Divisor; src/word.rs: split / merge / wmul),
    which dashu-int uses as math::FastDivideNormalized / FastDivideNormalized2.
    Moller, Granlund, "Improved division by invariant integers": Algorithm 4 (div_rem_2by1),
    Algorithm 5 (div_rem_3by2), Algorithm 6 (invert_double_word).

    Word = integers mod B = 2^w, DoubleWord = integers mod B^2, for ANY w > 0.  Wrapping operations are
    written [wrapw] / [wrapd]; operations the source writes with the plain (overflow-checked in the
    verification profile) operators `+`, `-`, `+= 1`, `-= 1` are written unwrapped and collected in the
    boolean `..._checks` next to each function, which also carries the function's debug_assert!s;
    DivNumModularProofs.v shows that every check holds under the documented precondition.
    Definitions only. *)
From Dashu Require Import Base.Prelude Base.Words.
Open Scope Z_scope.

Section NumModular.
Variable w : Z.
Notation B := (Words.B w).

(** word.rs *)
Definition wrapw (x : Z) : Z := x mod B.
Definition wrapd (x : Z) : Z := x mod (B * B).
Definition nm_split (dw : Z) : Z * Z := (dw mod B, dw / B).          (* (low, high) *)
Definition nm_merge (lo hi : Z) : Z := lo + B * hi.                  (* extend(lo) | extend(hi) << BITS *)

(** *** Normalized2by1Divisor { divisor, m } *)
Record nm_div1 : Type := { n1_divisor : Z; n1_m : Z }.

(** invert_word: `split(<$D>::MAX / extend(divisor)).0`, debug_assert!(_hi == 1) *)
Definition nm_invert_word (d : Z) : Z := fst (nm_split ((B * B - 1) / d)).
Definition nm_invert_word_checks (d : Z) : bool := snd (nm_split ((B * B - 1) / d)) =? 1.

(** new: assert!(divisor.leading_zeros() == 0) is the caller's obligation (norm1) *)
Definition nm_2by1_new (d : Z) : nm_div1 := {| n1_divisor := d; n1_m := nm_invert_word d |}.

Definition nm_div_rem_1by1 (s : nm_div1) (a : Z) : Z * Z :=
  if a <? n1_divisor s then (0, a) else (1, a - n1_divisor s).

(** the values of div_rem_2by1 before the final `if r >= self.divisor` *)
Definition nm_2by1_body (s : nm_div1) (a : Z) : Z * Z * Z * Z :=
  let d := n1_divisor s in
  let '(a_lo, a_hi) := nm_split a in
  let t := n1_m s * a_hi + a in                              (* wmul(self.m, a_hi) + a : checked *)
  let '(q0, q1) := nm_split t in
  let q := wrapw (q1 + 1) in
  let r := wrapw (a_lo - wrapw (q * d)) in
  let decrease := snd (nm_split (wrapd (q0 - r))) in          (* extend(q0).wrapping_sub(extend(r)) *)
  let q := wrapw (q + decrease) in
  let r := wrapw (r + Z.land decrease d) in
  (t, a_hi, q, r).

Definition nm_div_rem_2by1 (s : nm_div1) (a : Z) : Z * Z :=
  let d := n1_divisor s in
  let '(_, _, q, r) := nm_2by1_body s a in
  if r >=? d then (q + 1, r - d) else (q, r).                (* q += 1; r -= d : checked *)

Definition nm_div_rem_2by1_checks (s : nm_div1) (a : Z) : bool :=
  let d := n1_divisor s in
  let '(t, a_hi, q, r) := nm_2by1_body s a in
  (a_hi <? d) && (t <? B * B) && (if r >=? d then q + 1 <? B else true).

(** *** Normalized3by2Divisor { divisor, m } *)
Record nm_div2 : Type := { n2_divisor : Z; n2_m : Z }.

(** invert_double_word (Algorithm 6), first half: the reciprocal of d1 corrected for d0.
    Returns (v, p, every `v -= 1` stayed non-negative). *)
Definition nm_idw_phase1 (d0 d1 : Z) : Z * Z * bool :=
  let v := nm_invert_word d1 in
  let s := wrapw (d1 * v) + d0 in                             (* d1.wrapping_mul(v).overflowing_add(d0) *)
  let p := wrapw s in let c := B <=? s in
  if c then
    let v1 := v - 1 in
    let '(v2, p2, ok) := if p >=? d1 then (v1 - 1, p - d1, (1 <=? v1)) else (v1, p, true) in
    (v2, wrapw (p2 - d1), (1 <=? v) && ok)
  else (v, p, true).

(** second half: the correction for the low word of (B + v) * d *)
Definition nm_idw_phase2 (d d0 v p : Z) : Z * bool :=
  let '(t0, t1) := nm_split (v * d0) in                       (* extend(v) * extend(d0) *)
  let s := p + t1 in                                          (* p.overflowing_add(t1) *)
  let p := wrapw s in let c := B <=? s in
  if c then
    let v1 := v - 1 in
    if nm_merge t0 p >=? d then (v1 - 1, (1 <=? v) && (1 <=? v1)) else (v1, (1 <=? v))
  else (v, true).

Definition nm_invert_double_word_full (d : Z) : Z * bool :=
  let '(d0, d1) := nm_split d in
  let '(v, p, ok1) := nm_idw_phase1 d0 d1 in
  let '(v', ok2) := nm_idw_phase2 d d0 v p in (v', ok1 && ok2).
Definition nm_invert_double_word (d : Z) : Z := fst (nm_invert_double_word_full d).
Definition nm_invert_double_word_checks (d : Z) : bool :=
  snd (nm_invert_double_word_full d) && nm_invert_word_checks (snd (nm_split d)).

Definition nm_3by2_new (d : Z) : nm_div2 := {| n2_divisor := d; n2_m := nm_invert_double_word d |}.

Definition nm_div_rem_2by2 (s : nm_div2) (a : Z) : Z * Z :=
  if a <? n2_divisor s then (0, a) else (1, a - n2_divisor s).

(** the values of div_rem_3by2 before the final `if r >= self.divisor` *)
Definition nm_3by2_body (s : nm_div2) (a_lo a_hi : Z) : Z * Z * Z :=
  let d := n2_divisor s in
  let '(a1, a2) := nm_split a_hi in
  let '(d0, d1) := nm_split d in
  let t := n2_m s * a2 + a_hi in                              (* wmul(self.m, a2) + a_hi : checked *)
  let '(q0, q1) := nm_split t in
  let r1 := wrapw (a1 - wrapw (q1 * d1)) in
  let t2 := d0 * q1 in                                        (* wmul(d0, q1) *)
  let r := wrapd (wrapd (nm_merge a_lo r1 - t2) - d) in
  let r1 := snd (nm_split r) in
  let decrease := snd (nm_split (wrapd (r1 - q0))) in
  let q1 := wrapw (q1 - decrease) in
  let nd := B - 1 - decrease in                               (* !decrease *)
  let r := wrapd (r + Z.land (nm_merge nd nd) d) in
  (t, q1, r).

Definition nm_div_rem_3by2 (s : nm_div2) (a_lo a_hi : Z) : Z * Z :=
  let d := n2_divisor s in
  let '(_, q1, r) := nm_3by2_body s a_lo a_hi in
  if r >=? d then (q1 + 1, r - d) else (q1, r).

Definition nm_div_rem_3by2_checks (s : nm_div2) (a_lo a_hi : Z) : bool :=
  let d := n2_divisor s in
  let '(t, q1, r) := nm_3by2_body s a_lo a_hi in
  (a_hi <? d) && (t <? B * B) && (if r >=? d then q1 + 1 <? B else true).

Definition nm_div_rem_4by2 (s : nm_div2) (a_lo a_hi : Z) : Z * Z :=
  let '(a0, a1) := nm_split a_lo in
  let '(q1, r1) := nm_div_rem_3by2 s a1 a_hi in
  let '(q0, r0) := nm_div_rem_3by2 s a0 r1 in
  (nm_merge q0 q1, r0).

(** *** the five primitives in the shape the kernels of DivWordModel.v take them: the divisor the
    FastDivideNormalized(2) value was built from (`::new(d)`) is the first argument *)
Definition nm1by1 (d a : Z) : Z * Z := nm_div_rem_1by1 (nm_2by1_new d) a.
Definition nm2by1 (d a : Z) : Z * Z := nm_div_rem_2by1 (nm_2by1_new d) a.
Definition nm2by2 (d a : Z) : Z * Z := nm_div_rem_2by2 (nm_3by2_new d) a.
Definition nm3by2 (d lo hi : Z) : Z * Z := nm_div_rem_3by2 (nm_3by2_new d) lo hi.
Definition nm4by2 (d lo hi : Z) : Z * Z := nm_div_rem_4by2 (nm_3by2_new d) lo hi.

End NumModular.
