(** C13 (round 5) - the bodies REGENERATED from integer/src/modular/{add,repr}.rs (coq/gen/ModRingBodiesGen.v, written by
    tools/translate_c13_r5.py on every run) are the hand models the theorems of rounds 2-4 are about: the in-place kernels of
    the multi-word ring with their debug assertions (ModRingWords.v), ReducedLarge::is_valid, Clone for ReducedRepr
    (ModRingClone.v).  Every word size, every ring, every operand - no premise.  An edit of the source (dropping the zero
    guard of negate_in_place, the `*ring = src_ring` of clone_from, another kernel, another assertion) changes the generated
    definition and one of these equalities no longer holds. *)
From Dashu Require Import Base.Prelude Base.Words Int.DivWordModel Int.ModRingModel Int.ModRingPowModel Int.ModRingWords Int.ModRingConv Int.ModRingInst Int.ModRingClone.
From DashuGen Require Import ModRingBodiesGen.
Open Scope Z_scope.

Lemma is_valid_gen_eq w R raw : is_valid_gen w (lr_nd R) (lr_shift R) raw = wl_is_valid R raw.
Proof. reflexivity. Qed.

Theorem negate_in_place_gen_eq w R raw : negate_in_place_gen w (lr_nd R) (lr_shift R) raw = wl_negate_in_place w R raw.
Proof.
  unfold negate_in_place_gen, wl_negate_in_place. rewrite is_valid_gen_eq.
  destruct (wl_is_valid R raw); [|reflexivity]. destruct (all_zero raw); reflexivity.
Qed.

Theorem add_in_place_gen_eq w R lhs rhs : add_in_place_gen w (lr_nd R) (lr_shift R) lhs rhs = wl_add_in_place w R lhs rhs.
Proof. unfold add_in_place_gen, wl_add_in_place. rewrite !is_valid_gen_eq. reflexivity. Qed.

Theorem dbl_in_place_gen_eq w R raw : dbl_in_place_gen w (lr_nd R) (lr_shift R) raw = wl_dbl_in_place w R raw.
Proof. unfold dbl_in_place_gen, wl_dbl_in_place. rewrite !is_valid_gen_eq. reflexivity. Qed.

Theorem sub_in_place_gen_eq w R lhs rhs : sub_in_place_gen w (lr_nd R) (lr_shift R) lhs rhs = wl_sub_in_place w R lhs rhs.
Proof. unfold sub_in_place_gen, wl_sub_in_place. rewrite !is_valid_gen_eq. reflexivity. Qed.

(** sub_in_place_swap (rhs = lhs - rhs, stored in rhs): the same words as sub_in_place *)
Theorem sub_in_place_swap_gen_eq w R lhs rhs : sub_in_place_swap_gen w (lr_nd R) (lr_shift R) lhs rhs = wl_sub_in_place w R lhs rhs.
Proof. unfold sub_in_place_swap_gen, wl_sub_in_place. rewrite !is_valid_gen_eq. reflexivity. Qed.

(** Clone for ReducedRepr: clone rebuilds the element, clone_from makes the destination the source - value AND ring *)
Theorem clone_gen_eq x : clone_gen x = clone_asis x.
Proof. unfold clone_gen, clone_asis. destruct x as [raw ring]. cbn. destruct (r_kind ring); reflexivity. Qed.

Theorem clone_from_gen_eq dst src : clone_from_gen dst src = clone_from_asis dst src.
Proof.
  unfold clone_from_gen, clone_from_asis. rewrite clone_gen_eq. unfold clone_asis.
  destruct (_ && _); [destruct src; reflexivity | reflexivity].
Qed.

(** all of it in one statement (pinned as C13_gen_bodies) *)
Theorem gen_bodies_eq w R : forall a b,
  is_valid_gen w (lr_nd R) (lr_shift R) a = wl_is_valid R a /\
  negate_in_place_gen w (lr_nd R) (lr_shift R) a = wl_negate_in_place w R a /\
  add_in_place_gen w (lr_nd R) (lr_shift R) a b = wl_add_in_place w R a b /\
  dbl_in_place_gen w (lr_nd R) (lr_shift R) a = wl_dbl_in_place w R a /\
  sub_in_place_gen w (lr_nd R) (lr_shift R) a b = wl_sub_in_place w R a b /\
  sub_in_place_swap_gen w (lr_nd R) (lr_shift R) a b = wl_sub_in_place w R a b.
Proof.
  intros a b. split; [apply is_valid_gen_eq|]. split; [apply negate_in_place_gen_eq|]. split; [apply add_in_place_gen_eq|].
  split; [apply dbl_in_place_gen_eq|]. split; [apply sub_in_place_gen_eq | apply sub_in_place_swap_gen_eq].
Qed.

(** ---------------- reducer.rs: Reducer<UBig> for ConstDivisor at value level ---------------- *)
(** reduce_once (`if !self.check(&target)`: Single / Double subtract the normalised divisor, Large subtracts it from a
    multi-word target only), reduce_negate (normalised divisor - target in every arm), add / dbl / sub / neg *)
Theorem reduce_once_gen_eq w r t : reduce_once_gen w r t = rd_reduce_once_with w true r t.
Proof. unfold reduce_once_gen, rd_reduce_once_with. destruct (negb _); [|reflexivity]. destruct (r_kind r); reflexivity. Qed.

Theorem reduce_negate_gen_eq w r t : reduce_negate_gen w r t = rd_reduce_negate r t.
Proof. unfold reduce_negate_gen, rd_reduce_negate. destruct (r_kind r); [reflexivity | reflexivity | destruct (_ <? _); reflexivity]. Qed.

Theorem rd_add_gen_eq w r x y : rd_add_gen w r x y = rd_add_with w true r x y.
Proof. unfold rd_add_gen, rd_add_with. apply reduce_once_gen_eq. Qed.

Theorem rd_dbl_gen_eq w r x : rd_dbl_gen w r x = rd_dbl_with w true r x.
Proof. unfold rd_dbl_gen, rd_dbl_with. rewrite reduce_once_gen_eq. reflexivity. Qed.

(** `lhs - rhs` / `rhs - lhs` on UBig panic when negative: under the `lhs >= rhs` test neither does *)
Theorem rd_sub_gen_eq w r x y : rd_sub_gen w r x y = rd_sub r x y.
Proof.
  unfold rd_sub_gen, rd_sub, usub. destruct (Z.leb_spec y x).
  - destruct (Z.ltb_spec x y); [lia | reflexivity].
  - destruct (Z.ltb_spec y x); [lia|]. cbn [rbind]. apply reduce_negate_gen_eq.
Qed.

Theorem rd_neg_gen_eq w r x : rd_neg_gen w r x = rd_neg r x.
Proof. unfold rd_neg_gen, rd_neg. destruct (x =? 0); [reflexivity | apply reduce_negate_gen_eq]. Qed.

Theorem gen_reducer_eq w r x y :
  reduce_once_gen w r x = rd_reduce_once_with w true r x /\ reduce_negate_gen w r x = rd_reduce_negate r x /\
  rd_add_gen w r x y = rd_add_with w true r x y /\ rd_dbl_gen w r x = rd_dbl_with w true r x /\
  rd_sub_gen w r x y = rd_sub r x y /\ rd_neg_gen w r x = rd_neg r x.
Proof.
  split; [apply reduce_once_gen_eq|]. split; [apply reduce_negate_gen_eq|]. split; [apply rd_add_gen_eq|].
  split; [apply rd_dbl_gen_eq|]. split; [apply rd_sub_gen_eq | apply rd_neg_gen_eq].
Qed.

(** ---------------- div.rs: inv_large after the extended gcd ---------------- *)
(** everything of inv_large after `let (is_g_one, b_sign) = match raw_len { .. };`: `if !is_g_one { return None; }`, the shift
    back by ring.shift (carry not looked at), debug_assert!(inv.is_valid(ring)), `if b_sign == Sign::Negative { negate_in_place }`,
    Some(inv).  [wl_inv_tail] is that part of the hand model wl_inv_large, which IS prefix + tail (by computation). *)
Section InvTail.
Variable w : Z.
Variable fgcd : Z -> Z -> Z * Z * sign.

Definition wl_inv_tail (R : lring) (is_g_one : bool) (b_sign : sign) (bw : list Z) : result (option (list Z)) :=
  if negb is_g_one then Ok None else
  let '(inv, _) := shl_in_place w bw (lr_shift R) in
  if wl_is_valid R inv then
    match b_sign with
    | Negative => rbind (wl_negate_in_place w R inv) (fun v => Ok (Some v))
    | Positive => Ok (Some inv)
    end
  else Panic Undocumented.

Lemma wl_inv_large_is_prefix_tail R raw :
  wl_inv_large w fgcd R raw =
  (let n := length (lr_nd R) in
   let '(modulus, c1) := shr_in_place w (lr_nd R) (lr_shift R) in
   if negb (c1 =? 0) then Panic Undocumented else
   let '(raw1, c2) := shr_in_place w raw (lr_shift R) in
   if negb (c2 =? 0) then Panic Undocumented else
   let raw_len := top_plus_one raw1 in
   if Nat.eqb raw_len 0 then Ok None else
   let '(g, b, b_sign) := fgcd (Words.value w modulus) (Words.value w (firstn raw_len raw1)) in
   let is_g_one :=
     if (raw_len <=? 2)%nat then g =? 1
     else let gw := to_words w raw_len g in Nat.eqb (top_plus_one gw) 1 && (hd 0 gw =? 1) in
   wl_inv_tail R is_g_one b_sign (to_words w n b)).
Proof. reflexivity. Qed.

Theorem inv_large_tail_gen_eq R g s bw : inv_large_tail_gen w (lr_nd R) (lr_shift R) g s bw = wl_inv_tail R g s bw.
Proof.
  unfold inv_large_tail_gen, wl_inv_tail. destruct (negb g); [reflexivity|].
  destruct (shl_in_place w bw (lr_shift R)) as [inv c]. rewrite is_valid_gen_eq.
  destruct (wl_is_valid R inv); [|reflexivity]. destruct s; [reflexivity|]. rewrite negate_in_place_gen_eq. reflexivity.
Qed.
End InvTail.

(** ---------------- pow.rs: the window read of large::pow_nontrivial ---------------- *)
(** word_idx / bit_idx, the two exponent words, `double_word(next_word, cur_word) >> (bit_idx + 1 + WORD_BITS - window_len)`,
    split_dword, `window &= ones_word(window_len)` = window_at of the hand model (the sliding-window theorems are about it),
    every word size (a literal 64 for WORD_BITS is not this function) *)
Theorem pow_window_gen_eq w exp bit wl : 0 <= wl -> pow_window_gen w exp bit wl = window_at w exp bit wl.
Proof.
  intros Hwl. unfold pow_window_gen, window_at, ones_word.
  replace (2 ^ wl - 1) with (Z.ones wl) by (rewrite Z.ones_equiv; lia).
  rewrite Z.land_ones by exact Hwl.
  replace (bit mod w + 1 + w - wl) with (bit mod w + 1 + w - wl) by reflexivity. reflexivity.
Qed.

Example pow_window_gen_run : pow_window_gen 32 (2 ^ 40 + 2 ^ 37 + 5) 40 4 = 9 /\ pow_window_gen 64 (2 ^ 70 + 2 ^ 69 + 2 ^ 3) 70 5 = 24.
Proof. vm_compute. split; reflexivity. Qed.

(** regression: the generated kernels run (3-word ring 2^130 + 12, shift 61): -0 = 0, -(1) = m - 1, (m - 1) + 1 = 0 *)
Example gen_bodies_run :
  let nd := [2 ^ 63; 1; 2 ^ 63] in
  negate_in_place_gen 64 nd 61 [0; 0; 0] = Ok [0; 0; 0] /\
  negate_in_place_gen 64 nd 61 [2 ^ 61; 0; 0] = Ok [2 ^ 63 - 2 ^ 61; 1; 2 ^ 63] /\
  add_in_place_gen 64 nd 61 [2 ^ 63 - 2 ^ 61; 1; 2 ^ 63] [2 ^ 61; 0; 0] = Ok [0; 0; 0] /\
  negate_in_place_gen 64 nd 61 [1; 0; 0] = Panic Undocumented.
Proof. vm_compute. repeat split; reflexivity. Qed.
