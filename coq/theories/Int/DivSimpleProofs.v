(** C02 - Knuth's algorithm D as implemented in div/simple.rs: the quotient-word step
    (3-by-2 estimate, multiply-subtract, at most one add-back) and the whole schoolbook division
    equal floor division, for every word size, every divisor length >= 2 and every dividend length. *)
From Dashu Require Import Base.Prelude Base.Words Int.DivWordModel Int.DivWordProofs.
Open Scope Z_scope.

(** *** the arithmetic heart: the 3-by-2 estimate is the true quotient word or one too large *)
Lemma knuth_estimate B P u3 ur v2 vr qh :
  2 <= B -> 1 <= P -> 0 <= ur < P -> 0 <= vr < P -> B * B <= 2 * v2 -> 0 <= u3 ->
  qh = u3 / v2 -> qh <= B ->
  (qh - 1) * (v2 * P + vr) <= u3 * P + ur < (qh + 1) * (v2 * P + vr).
Proof.
  intros HB HP Hur Hvr Hv2 Hu3 -> Hq.
  assert (0 < v2) as Hv2p by nia.
  pose proof (Z.div_mod u3 v2 ltac:(lia)) as Hdm. pose proof (Z.mod_pos_bound u3 v2 Hv2p) as Hmb.
  set (qh := u3 / v2) in *.
  assert (0 <= qh) as Hq0 by (apply Z.div_pos; lia).
  split.
  - destruct (Z.eq_dec qh 0) as [E|NE]; [rewrite E; nia|].
    assert ((qh - 1) * vr <= (qh - 1) * P) by nia.
    assert (qh * v2 <= u3) by lia.
    assert ((qh - 1) * (v2 * P + vr) <= (u3 - v2 + (qh - 1)) * P) by nia.
    assert (qh - 1 <= v2) by nia. nia.
  - assert (u3 + 1 <= (qh + 1) * v2) by lia.
    assert (u3 * P + ur < (u3 + 1) * P) by nia.
    assert ((u3 + 1) * P <= (qh + 1) * v2 * P) by nia. nia.
Qed.

(** two facts used by the correction step: the signed top word after the multiply-subtract is -1 or 0 *)
Lemma knuth_fix_neg N V X d w1 : 0 < N -> 0 <= V < N -> 0 <= w1 < N -> X = d * N + w1 -> - V <= X < V -> d <= -1 -> d = -1.
Proof. intros HN HV Hw -> HX Hd. destruct (Z.le_gt_cases d (-2)) as [H|H]; [exfalso|lia]. assert (d * N <= -2 * N) by nia. lia. Qed.
Lemma knuth_fix_nonneg N V X d w1 : 0 < N -> 0 <= V < N -> 0 <= w1 < N -> X = d * N + w1 -> - V <= X < V -> 0 <= d -> d = 0.
Proof. intros HN HV Hw -> HX Hd. destruct (Z.le_gt_cases 1 d) as [H|H]; [exfalso|lia]. assert (1 * N <= d * N) by nia. lia. Qed.

(** the `else` arm: when the top word equals the divisor's top word, B - 1 is the quotient word or one too large *)
Lemma knuth_max B Pn1 top v1 vr win V U :
  2 <= B -> 1 <= Pn1 -> B <= 2 * v1 -> 0 <= vr < Pn1 -> V = v1 * Pn1 + vr -> v1 <= top -> 0 <= win ->
  U = top * (B * Pn1) + win -> (B - 2) * V <= U.
Proof.
  intros HB HP Hv1 Hvr -> Ht Hw ->.
  assert ((B - 2) * (v1 * Pn1 + vr) <= (B - 2) * ((v1 + 1) * Pn1)) by nia.
  assert ((B - 2) * (v1 + 1) <= B * v1) by nia.
  assert ((B - 2) * ((v1 + 1) * Pn1) <= B * v1 * Pn1) by nia.
  assert (v1 * (B * Pn1) <= top * (B * Pn1)) by nia. nia.
Qed.

Section DivSimple.
Variable w : Z.
Hypothesis w_pos : 0 < w.
Notation B := (Words.B w).
Notation value := (Words.value w).
Notation wf := (Words.wf w).
Variable div3by2 : Z -> Z -> Z -> Z * Z.
Hypothesis div3by2_ok : forall d lo hi, norm2 w d -> 0 <= lo < B -> 0 <= hi < d ->
  div3by2 d lo hi = ((lo + B * hi) / d, (lo + B * hi) mod d).

Local Lemma Bpos : 0 < B. Proof. apply B_pos; lia. Qed.
Local Lemma Bge2 : 2 <= B. Proof. apply B_ge_2; lia. Qed.
Local Notation Bpow_pos := (DivWordProofs.Bpow_pos w w_pos).
Local Lemma B_even : exists h, B = 2 * h.
Proof. exists (2 ^ (w - 1)). unfold Words.B. rewrite <- Z.pow_succ_r by lia. f_equal. lia. Qed.

(** *** list plumbing *)
Lemma skipn_skipn {A} x : forall y (l : list A), skipn x (skipn y l) = skipn (x + y) l.
Proof.
  induction y as [|y IH]; intros l.
  - rewrite Nat.add_0_r. reflexivity.
  - rewrite Nat.add_succ_r. destruct l as [|a l]; [rewrite !skipn_nil; reflexivity|]. cbn [skipn]. apply IH.
Qed.
Lemma wf_firstn j ws : wf ws -> wf (firstn j ws).
Proof. intros H. rewrite <- (firstn_skipn j ws) in H. apply wf_app in H. tauto. Qed.
Lemma wf_skipn j ws : wf ws -> wf (skipn j ws).
Proof. intros H. rewrite <- (firstn_skipn j ws) in H. apply wf_app in H. tauto. Qed.

Lemma value_split j ws : (j <= length ws)%nat ->
  value ws = value (firstn j ws) + B ^ Z.of_nat j * value (skipn j ws).
Proof.
  intros H. rewrite <- (firstn_skipn j ws) at 1. rewrite value_app. unfold len. rewrite firstn_length_le by lia. reflexivity.
Qed.

Lemma value_lt ws : wf ws -> 0 <= value ws < B ^ len ws.
Proof. apply value_bounds. lia. Qed.

Lemma len_skipn {A} j (ws : list A) : len (skipn j ws) = len ws - Z.of_nat (min j (length ws)).
Proof. unfold len. rewrite skipn_length. lia. Qed.

(** a divisor is normalised when its top bit is set *)
Definition normalized_top (rhs : list Z) : Prop := B ^ len rhs <= 2 * value rhs.

(** decomposition of a value at its two top words *)
Lemma top2_split ws : wf ws -> (2 <= length ws)%nat ->
  value ws = value (firstn (length ws - 2) ws) + B ^ (len ws - 2) * highest_dword w ws /\
  0 <= value (firstn (length ws - 2) ws) < B ^ (len ws - 2) /\ 0 <= highest_dword w ws < B * B.
Proof.
  intros Hwf Hl. unfold highest_dword, top_words.
  rewrite (value_split (length ws - 2) ws) at 1 by lia.
  replace (Z.of_nat (length ws - 2)) with (len ws - 2) by (unfold len; lia).
  split; [reflexivity|]. split.
  - pose proof (value_lt (firstn (length ws - 2) ws) (wf_firstn _ _ Hwf)) as H.
    unfold len in H at 1. rewrite firstn_length_le in H by lia.
    replace (Z.of_nat (length ws - 2)) with (len ws - 2) in H by (unfold len; lia). exact H.
  - pose proof (value_lt (skipn (length ws - 2) ws) (wf_skipn _ _ Hwf)) as H.
    rewrite len_skipn in H. replace (len ws - Z.of_nat (min (length ws - 2) (length ws))) with 2 in H by (unfold len; lia).
    replace (B ^ 2) with (B * B) in H by ring. exact H.
Qed.

Lemma top1_of_top2 ws : wf ws -> (2 <= length ws)%nat -> highest_word w ws = highest_dword w ws / B.
Proof.
  intros Hwf Hl. unfold highest_word, highest_dword, top_words. pose proof Bpos as HB.
  set (l2 := skipn (length ws - 2) ws).
  assert (length l2 = 2%nat) as Hl2 by (unfold l2; rewrite skipn_length; lia).
  assert (wf l2) as Hw2 by (apply wf_skipn; exact Hwf).
  assert (skipn (length ws - 1) ws = skipn 1 l2) as E.
  { unfold l2. rewrite skipn_skipn. f_equal. lia. }
  rewrite E. rewrite (value_split 1 l2) by lia.
  pose proof (value_lt (firstn 1 l2) (wf_firstn _ _ Hw2)) as H1. unfold len in H1. rewrite firstn_length_le in H1 by lia.
  change (Z.of_nat 1) with 1 in *. rewrite Z.pow_1_r in *.
  apply Z.div_unique with (value (firstn 1 l2)); [left; lia | ring].
Qed.

Lemma top_words_skipn k j (ws : list Z) : (k + j <= length ws)%nat -> top_words k (skipn j ws) = top_words k ws.
Proof. intros H. unfold top_words. rewrite skipn_skipn, skipn_length. f_equal. lia. Qed.

(** *** one quotient word *)
Theorem div_rem_highest_word_correct top lo rhs :
  wf lo -> wf rhs -> (2 <= length rhs)%nat -> (length rhs <= length lo)%nat -> 0 <= top < B ->
  normalized_top rhs ->
  let n := length rhs in let k := (length lo - n)%nat in
  top * B ^ Z.of_nat n + value (skipn k lo) < value rhs * B ->
  forall q lo', div_rem_highest_word w div3by2 top lo rhs = (q, lo') ->
  0 <= q < B /\ wf lo' /\ length lo' = length lo /\ firstn k lo' = firstn k lo /\
  q = (top * B ^ Z.of_nat n + value (skipn k lo)) / value rhs /\
  value (skipn k lo') = (top * B ^ Z.of_nat n + value (skipn k lo)) mod value rhs.
Proof.
  intros Hwlo Hwr Hn2 Hnl Htop Hnorm n k Hpre q lo' E.
  pose proof Bpos as HB. pose proof Bge2 as HB2.
  unfold div_rem_highest_word in E. fold n in E. fold k in E.
  set (win := skipn k lo) in *. set (low := firstn k lo) in *.
  assert (wf win) as Hwwin by (apply wf_skipn; exact Hwlo).
  assert (wf low) as Hwlow by (apply wf_firstn; exact Hwlo).
  assert (length win = n) as Hlwin by (unfold win; rewrite skipn_length; unfold k; lia).
  assert (length low = k) as Hllow by (unfold low; rewrite firstn_length_le; unfold k; lia).
  set (V := value rhs) in *. set (U := top * B ^ Z.of_nat n + value win) in *.
  (* decompositions at the two top words *)
  destruct (top2_split rhs Hwr Hn2) as (HV & Hvr & Hv2). fold V in HV. fold n in HV, Hvr.
  destruct (top2_split win Hwwin ltac:(lia)) as (HW & Hwr2 & Hw2). rewrite Hlwin in HW, Hwr2.
  assert (len rhs = Z.of_nat n) as Hlenr by reflexivity.
  assert (len win = Z.of_nat n) as Hlenw by (unfold len; lia).
  rewrite Hlenr in *. rewrite Hlenw in *.
  assert (highest_dword w lo = highest_dword w win) as Hhd.
  { unfold highest_dword, win. rewrite top_words_skipn; [reflexivity | unfold k; lia]. }
  rewrite Hhd in E.
  set (v2 := highest_dword w rhs) in *. set (w2 := highest_dword w win) in *.
  set (vr := value (firstn (n - 2) rhs)) in *. set (wr := value (firstn (n - 2) win)) in *.
  set (P := B ^ (Z.of_nat n - 2)) in *.
  assert (1 <= P) as HP by (pose proof (Bpow_pos (Z.of_nat n - 2) ltac:(lia)); unfold P; lia).
  assert (B ^ Z.of_nat n = B * B * P) as HBn.
  { unfold P. replace (Z.of_nat n) with (2 + (Z.of_nat n - 2)) at 1 by lia. rewrite Z.pow_add_r by lia. ring. }
  unfold normalized_top in Hnorm. rewrite Hlenr, HBn in Hnorm. fold V in Hnorm.
  assert (B * B <= 2 * v2) as Hv2n.
  { destruct (Z.le_gt_cases (B * B) (2 * v2)) as [|Hlt]; [assumption|exfalso].
    destruct B_even as [h Hh]. rewrite Hh in Hlt, Hnorm.
    assert (v2 + 1 <= 2 * h * h) by nia. assert (V < (v2 + 1) * P) by nia.
    assert ((v2 + 1) * P <= 2 * h * h * P) by nia. nia. }
  assert (0 < V) as HVpos by nia.
  rewrite (top1_of_top2 rhs Hwr Hn2) in E. fold v2 in E.
  pose proof (Z.div_mod v2 B ltac:(lia)) as Hv2dm. pose proof (Z.mod_pos_bound v2 B HB) as Hv2mb.
  set (v1 := v2 / B) in *.
  assert (0 <= v1 < B) as Hv1 by (unfold v1; split; [apply Z.div_pos; lia | apply Z.div_lt_upper_bound; lia]).
  pose proof (Z.div_mod w2 B ltac:(lia)) as Hw2dm. pose proof (Z.mod_pos_bound w2 B HB) as Hw2mb.
  assert (0 <= w2 / B < B) as Hw2d by (split; [apply Z.div_pos; lia | apply Z.div_lt_upper_bound; lia]).
  (* the estimate *)
  set (qh := if top <? v1 then fst (div3by2 v2 (w2 mod B) (w2 / B + B * top)) else B - 1) in *.
  assert (U = (w2 + B * B * top) * P + wr) as HU by (unfold U; rewrite HBn, HW; ring).
  assert (0 <= qh < B /\ (qh - 1) * V <= U < (qh + 1) * V) as (Hqh & Hest).
  { unfold qh. destruct (Z.ltb_spec top v1) as [Hlt|Hge].
    - rewrite div3by2_ok by (unfold norm2; try split; nia). cbn [fst].
      replace (w2 mod B + B * (w2 / B + B * top)) with (w2 + B * B * top) by lia.
      set (u3 := w2 + B * B * top).
      assert (0 <= u3) by (unfold u3; nia).
      assert (u3 < v2 * B) as Hu3 by (unfold u3; nia).
      assert (0 <= u3 / v2 < B) as Hq by (split; [apply Z.div_pos; lia | apply Z.div_lt_upper_bound; lia]).
      split; [exact Hq|]. rewrite HU, HV. fold u3. replace (vr + P * v2) with (v2 * P + vr) by ring.
      apply (knuth_estimate B P u3 wr v2 vr (u3 / v2)); try lia; reflexivity.
    - split; [lia|]. replace (B - 1 + 1) with B by lia. split; [|lia].
      replace (B - 1 - 1) with (B - 2) by lia.
      assert (B <= 2 * v1) as Hv1n.
      { destruct B_even as [h Hh]. rewrite Hh in *. nia. }
      pose proof (value_lt win Hwwin) as [Hw0 _].
      apply (knuth_max B (B * P) top v1 (v2 mod B * P + vr) (value win) V U);
        [lia | nia | exact Hv1n | nia | rewrite HV; rewrite Hv2dm at 1; ring | lia | exact Hw0 | unfold U; rewrite HBn; ring]. }
  destruct (sub_mul_word w win qh rhs) as [win1 borrow] eqn:E1.
  destruct (sub_mul_word_spec w w_pos win qh rhs Hwwin Hwr ltac:(lia) Hqh _ _ E1) as (Hs & Hww1 & Hlw1 & Hbor).
  rewrite Hlenw in Hs. fold V in Hs.
  pose proof (value_lt win1 Hww1) as Hvw1. unfold len in Hvw1. rewrite Hlw1, Hlwin in Hvw1.
  pose proof (Bpow_pos (Z.of_nat n) ltac:(lia)) as HBnp.
  assert (V < B ^ Z.of_nat n) as HVlt by (pose proof (value_lt rhs Hwr) as Hx; rewrite Hlenr in Hx; unfold V; lia).
  assert (U - qh * V = (top - borrow) * B ^ Z.of_nat n + value win1) as HUq by (unfold U; nia).
  destruct (Z.gtb_spec borrow top) as [Hgt|Hle].
  - (* q-hat one too large: add back *)
    destruct (add_same_len w win1 rhs) as [win2 c] eqn:E2. inversion E; subst q lo'; clear E.
    destruct (add_same_len_spec w w_pos win1 rhs Hww1 Hwr ltac:(lia) _ _ E2) as (Ha & Hww2 & Hlw2 & Hc).
    replace (len win1) with (Z.of_nat n) in Ha by (unfold len; lia). fold V in Ha.
    pose proof (value_lt win2 Hww2) as Hvw2. unfold len in Hvw2. rewrite Hlw2, Hlw1, Hlwin in Hvw2.
    assert (0 <= V) as HV0 by (pose proof (value_lt rhs Hwr); unfold V; lia).
    assert (- V <= U - qh * V < V) as HX by lia.
    assert (top - borrow = -1) as Htb
      by (apply (knuth_fix_neg (B ^ Z.of_nat n) V (U - qh * V) (top - borrow) (value win1)); lia).
    rewrite Htb in HUq.
    assert (U - qh * V < 0) as Hneg by lia.
    assert (c = 1) as -> by (destruct (Z.eq_dec c 0) as [Hc0|Hc0]; [exfalso; rewrite Hc0 in Ha; lia | lia]).
    assert (value win2 = U - (qh - 1) * V) as Hr by lia.
    assert (0 <= value win2 < V) as Hrange by lia.
    assert (1 <= qh) by (destruct (Z.le_gt_cases 1 qh) as [Hq1|Hq1]; [exact Hq1 | exfalso; assert (qh = 0) as Hq0 by lia; rewrite Hq0 in Hneg; lia]).
    split; [lia|]. split; [apply wf_app; split; assumption|].
    split; [rewrite app_length, <- (firstn_skipn k lo), app_length; fold win low; lia|].
    split; [rewrite firstn_app, Hllow, Nat.sub_diag; cbn [firstn]; rewrite app_nil_r; apply firstn_all2; lia|].
    rewrite skipn_app, Hllow, Nat.sub_diag. cbn [skipn]. rewrite skipn_all2 by lia. cbn [app].
    split.
    + apply Z.div_unique with (value win2); [left; lia | lia].
    + apply Z.mod_unique with (qh - 1); [left; lia | lia].
  - inversion E; subst q lo'; clear E.
    assert (0 <= V) as HV0 by (pose proof (value_lt rhs Hwr); unfold V; lia).
    assert (- V <= U - qh * V < V) as HX by lia.
    assert (top - borrow = 0) as Htb
      by (apply (knuth_fix_nonneg (B ^ Z.of_nat n) V (U - qh * V) (top - borrow) (value win1)); lia).
    rewrite Htb in HUq.
    assert (0 <= U - qh * V) as Hnn by lia.
    assert (value win1 = U - qh * V) as Hr by lia.
    assert (0 <= value win1 < V) as Hrange by lia.
    split; [lia|]. split; [apply wf_app; split; assumption|].
    split; [rewrite app_length, <- (firstn_skipn k lo), app_length; fold win low; lia|].
    split; [rewrite firstn_app, Hllow, Nat.sub_diag; cbn [firstn]; rewrite app_nil_r; apply firstn_all2; lia|].
    rewrite skipn_app, Hllow, Nat.sub_diag. cbn [skipn]. rewrite skipn_all2 by lia. cbn [app].
    split.
    + apply Z.div_unique with (value win1); [left; lia | lia].
    + apply Z.mod_unique with qh; [left; lia | lia].
Qed.

(** *** the loop over the quotient words *)
Lemma simple_loop_correct rhs : wf rhs -> (2 <= length rhs)%nat -> normalized_top rhs ->
  forall k lhs, wf lhs -> length lhs = (length rhs + k)%nat -> value (skipn k lhs) < value rhs ->
  let res := simple_loop w div3by2 k lhs rhs in
  wf res /\ length res = length lhs /\
  value (firstn (length rhs) res) = value lhs mod value rhs /\
  value (skipn (length rhs) res) = value lhs / value rhs.
Proof.
  intros Hwr Hn2 Hnorm. pose proof Bpos as HB. set (n := length rhs) in *. set (V := value rhs) in *.
  assert (0 < V) as HVpos.
  { unfold normalized_top in Hnorm. pose proof (Bpow_pos (len rhs) ltac:(unfold len; lia)). fold V in Hnorm. lia. }
  induction k as [|k IH]; intros lhs Hwl Hlen Hinv; cbn [simple_loop].
  - cbn [skipn] in Hinv. pose proof (value_lt lhs Hwl) as Hv.
    split; [exact Hwl|]. split; [reflexivity|].
    rewrite firstn_all2 by lia. rewrite skipn_all2 by lia. cbn [value].
    split; [symmetry; apply Z.mod_small; lia | symmetry; apply Z.div_small; lia].
  - destruct (exists_last (l := lhs)) as (lo & top & ->); [intros ->; cbn [length] in Hlen; lia|].
    rewrite last_last, removelast_last.
    apply wf_app in Hwl. destruct Hwl as [Hwlo Hwtop]. apply wf_cons in Hwtop. destruct Hwtop as [Htop _].
    rewrite app_length in Hlen. cbn [length] in Hlen.
    assert (length lo = (n + k)%nat) as Hllo by lia.
    (* the invariant gives the step's precondition *)
    assert (skipn (S k) (lo ++ [top]) = skipn (S k) lo ++ [top]) as Esk.
    { rewrite skipn_app. replace (S k - length lo)%nat with 0%nat by lia. reflexivity. }
    rewrite Esk, value_app in Hinv. cbn [value] in Hinv. fold B in Hinv.
    rewrite len_skipn in Hinv. replace (len lo - Z.of_nat (min (S k) (length lo))) with (Z.of_nat n - 1) in Hinv by (unfold len; lia).
    assert (wf (skipn k lo)) as Hwsk by (apply wf_skipn; exact Hwlo).
    pose proof (value_split 1 (skipn k lo) ltac:(rewrite skipn_length; lia)) as Hsp.
    rewrite skipn_skipn in Hsp. replace (1 + k)%nat with (S k) in Hsp by lia.
    pose proof (value_lt (firstn 1 (skipn k lo)) (wf_firstn _ _ Hwsk)) as Hf1.
    unfold len in Hf1. rewrite firstn_length_le in Hf1 by (rewrite skipn_length; lia).
    change (Z.of_nat 1) with 1 in *. rewrite Z.pow_1_r in *.
    assert (B ^ Z.of_nat n = B * B ^ (Z.of_nat n - 1)) as HBn.
    { replace (Z.of_nat n) with (1 + (Z.of_nat n - 1)) at 1 by lia. rewrite Z.pow_add_r by lia. ring. }
    assert (top * B ^ Z.of_nat n + value (skipn k lo) < V * B) as Hpre.
    { rewrite Hsp, HBn. nia. }
    destruct (div_rem_highest_word w div3by2 top lo rhs) as [q lo'] eqn:E.
    replace k with (length lo - n)%nat in Hpre at 1 by lia.
    destruct (div_rem_highest_word_correct top lo rhs Hwlo Hwr Hn2 ltac:(lia) Htop Hnorm Hpre _ _ E)
      as (Hq & Hwlo' & Hllo' & Hfirst & Hqv & Hrv).
    fold n in Hfirst, Hqv, Hrv. replace (length lo - n)%nat with k in * by lia. fold V in Hqv, Hrv.
    set (U := top * B ^ Z.of_nat n + value (skipn k lo)) in *.
    pose proof (Z.mod_pos_bound U V HVpos) as Hmb. pose proof (Z.div_mod U V ltac:(lia)) as Hdm.
    specialize (IH lo' Hwlo' ltac:(lia) ltac:(lia)). cbn zeta in IH.
    destruct IH as (Hwres & Hlres & Hrem & Hquo).
    set (res := simple_loop w div3by2 k lo' rhs) in *.
    split; [apply wf_app; split; [exact Hwres | apply wf_cons; split; [lia | apply wf_nil]]|].
    split; [rewrite !app_length; cbn [length]; lia|].
    rewrite firstn_app. replace (n - length res)%nat with 0%nat by lia. cbn [firstn]. rewrite app_nil_r.
    rewrite skipn_app. replace (n - length res)%nat with 0%nat by lia. cbn [skipn]. rewrite (value_app w (skipn n res) [q]). cbn [value]. fold B.
    rewrite len_skipn. replace (len res - Z.of_nat (min n (length res))) with (Z.of_nat k) by (unfold len; lia).
    rewrite Hrem, Hquo.
    (* value (lo ++ [top]) = value lo' + q * V * B^k *)
    pose proof (value_split k lo ltac:(lia)) as Hlo. pose proof (value_split k lo' ltac:(lia)) as Hlo'.
    rewrite Hfirst in Hlo'.
    assert (value (lo ++ [top]) = value lo' + q * V * B ^ Z.of_nat k) as Htot.
    { rewrite value_app. cbn [value]. fold B. unfold len. rewrite Hllo, Nat2Z.inj_add, Z.pow_add_r by lia.
      rewrite Hlo, Hlo', Hrv, Hqv. unfold U in *. nia. }
    pose proof (Z.mod_pos_bound (value lo') V HVpos) as Hmb'. pose proof (Z.div_mod (value lo') V ltac:(lia)) as Hdm'.
    rewrite Htot. split.
    + apply Z.mod_unique with (value lo' / V + B ^ Z.of_nat k * q); [left; lia | nia].
    + apply Z.div_unique with (value lo' mod V); [left; lia | nia].
Qed.

(** *** simple::div_rem_in_place *)
Theorem simple_div_rem_correct lhs rhs :
  wf lhs -> wf rhs -> (2 <= length rhs)%nat -> (length rhs <= length lhs)%nat -> normalized_top rhs ->
  forall res carry, simple_div_rem w div3by2 lhs rhs = (res, carry) ->
  wf res /\ length res = length lhs /\
  value (firstn (length rhs) res) = value lhs mod value rhs /\
  value (skipn (length rhs) res) + B ^ Z.of_nat (length lhs - length rhs) * Z.b2z carry = value lhs / value rhs.
Proof.
  intros Hwl Hwr Hn2 Hnl Hnorm res carry E. pose proof Bpos as HB.
  unfold simple_div_rem in E. set (n := length rhs) in *. set (k := (length lhs - n)%nat) in *.
  set (win := skipn k lhs) in *. set (low := firstn k lhs) in *. set (V := value rhs) in *.
  assert (wf win) as Hwwin by (apply wf_skipn; exact Hwl).
  assert (wf low) as Hwlow by (apply wf_firstn; exact Hwl).
  assert (length win = n) as Hlwin by (unfold win; rewrite skipn_length; unfold k; lia).
  assert (length low = k) as Hllow by (unfold low; rewrite firstn_length_le; unfold k; lia).
  pose proof (value_split k lhs ltac:(unfold k; lia)) as Hsp. fold win low in Hsp.
  pose proof (value_lt win Hwwin) as Hvwin. unfold len in Hvwin. rewrite Hlwin in Hvwin.
  assert (0 < V) as HVpos.
  { unfold normalized_top in Hnorm. pose proof (Bpow_pos (len rhs) ltac:(unfold len; lia)). fold V in Hnorm. lia. }
  unfold normalized_top in Hnorm. fold V in Hnorm. replace (len rhs) with (Z.of_nat n) in Hnorm by reflexivity.
  rewrite (cmp_same_len_spec w w_pos win rhs Hwwin Hwr ltac:(lia)) in E. fold V in E.
  pose proof (Bpow_pos (Z.of_nat k) ltac:(lia)) as HBk.
  destruct (Z.compare_spec (value win) V) as [Heq|Hlt|Hgt].
  - (* equal: carry, remainder window becomes zero *)
    destruct (sub_same_len w win rhs) as [win' b] eqn:Es. cbn [fst] in E. inversion E; subst res carry; clear E.
    destruct (sub_same_len_spec w w_pos win rhs Hwwin Hwr ltac:(lia) _ _ Es) as (Hs & Hww' & Hlw' & Hb).
    replace (len win) with (Z.of_nat n) in Hs by (unfold len; lia). fold V in Hs.
    pose proof (value_lt win' Hww') as Hvw'. unfold len in Hvw'. rewrite Hlw', Hlwin in Hvw'.
    assert (b = 0) by nia. subst b.
    assert (wf (low ++ win')) as Hwl1 by (apply wf_app; split; assumption).
    assert (length (low ++ win') = (n + k)%nat) as Hll1 by (rewrite app_length; lia).
    assert (skipn k (low ++ win') = win') as Esk.
    { rewrite skipn_app, Hllow, Nat.sub_diag. cbn [skipn]. rewrite skipn_all2 by lia. reflexivity. }
    destruct (simple_loop_correct rhs Hwr Hn2 ltac:(unfold normalized_top; fold V; exact Hnorm) k (low ++ win') Hwl1 Hll1
                ltac:(rewrite Esk; fold V; lia)) as (Hwres & Hlres & Hrem & Hquo).
    fold n V in Hrem, Hquo.
    assert (value (low ++ win') = value lhs - B ^ Z.of_nat k * V) as Hv1.
    { rewrite value_app. unfold len. rewrite Hllow. rewrite Hsp. nia. }
    split; [exact Hwres|]. split; [rewrite Hlres, Hll1; unfold k; lia|].
    rewrite Hrem, Hquo, Hv1. cbn [Z.b2z].
    replace (value lhs - B ^ Z.of_nat k * V) with (value lhs + (- B ^ Z.of_nat k) * V) by ring.
    rewrite Z.mod_add, Z.div_add by lia. split; [reflexivity | ring].
  - inversion E; subst res carry; clear E.
    destruct (simple_loop_correct rhs Hwr Hn2 ltac:(unfold normalized_top; fold V; exact Hnorm) k lhs Hwl ltac:(unfold k; lia)
                ltac:(fold win V; lia)) as (Hwres & Hlres & Hrem & Hquo).
    fold n V in Hrem, Hquo.
    split; [exact Hwres|]. split; [exact Hlres|]. rewrite Hrem, Hquo. cbn [Z.b2z]. split; [reflexivity | ring].
  - destruct (sub_same_len w win rhs) as [win' b] eqn:Es. cbn [fst] in E. inversion E; subst res carry; clear E.
    destruct (sub_same_len_spec w w_pos win rhs Hwwin Hwr ltac:(lia) _ _ Es) as (Hs & Hww' & Hlw' & Hb).
    replace (len win) with (Z.of_nat n) in Hs by (unfold len; lia). fold V in Hs.
    pose proof (value_lt win' Hww') as Hvw'. unfold len in Hvw'. rewrite Hlw', Hlwin in Hvw'.
    assert (b = 0) by nia. subst b.
    assert (wf (low ++ win')) as Hwl1 by (apply wf_app; split; assumption).
    assert (length (low ++ win') = (n + k)%nat) as Hll1 by (rewrite app_length; lia).
    assert (skipn k (low ++ win') = win') as Esk.
    { rewrite skipn_app, Hllow, Nat.sub_diag. cbn [skipn]. rewrite skipn_all2 by lia. reflexivity. }
    destruct (simple_loop_correct rhs Hwr Hn2 ltac:(unfold normalized_top; fold V; exact Hnorm) k (low ++ win') Hwl1 Hll1
                ltac:(rewrite Esk; fold V; lia)) as (Hwres & Hlres & Hrem & Hquo).
    fold n V in Hrem, Hquo.
    assert (value (low ++ win') = value lhs - B ^ Z.of_nat k * V) as Hv1.
    { rewrite value_app. unfold len. rewrite Hllow. rewrite Hsp. nia. }
    split; [exact Hwres|]. split; [rewrite Hlres, Hll1; unfold k; lia|].
    rewrite Hrem, Hquo, Hv1. cbn [Z.b2z].
    replace (value lhs - B ^ Z.of_nat k * V) with (value lhs + (- B ^ Z.of_nat k) * V) by ring.
    rewrite Z.mod_add, Z.div_add by lia. split; [reflexivity | ring].
Qed.

End DivSimple.
