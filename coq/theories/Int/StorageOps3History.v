(** C17 (round 4) - every step of the machine of StorageOps3.v (the old steps + sqrt, sqrt_rem, the ring steps, signed bit
    operations, IBig shifts, the parsers with their error exits, the chunk round trip) preserves the invariant of the whole
    pool, fails no guard, frees every block exactly once and leaks nothing - also when the step ends in a documented panic
    (division by zero in ConstDivisor::new after the operands were taken, sqrt of a negative number) or a parse error -,
    lifted by induction to all finite histories.  The only state-dependent premise: the words a sqrt step reads are word
    digits (what every value of the library is; the machine keeps word contents abstract elsewhere). *)
From Dashu Require Import Base.Prelude Base.Words Int.StorageModel Int.StorageProofs Int.StorageArith Int.StorageHistory
  Int.StorageOps2 Int.StorageOps2Proofs Int.StorageOps3 Int.StorageOps3Proofs Int.StorageOps3Bits Int.StorageOps3Sqrt.
From DashuGen Require Import StorageGen StorageGen4.
From Coq Require Import Permutation.
Open Scope Z_scope.

Section Ops3History.
Variable w : Z.
Variable M : Z.
Hypothesis w_big : 2 <= w.
Hypothesis M_big : 8 <= M.
Variable gk : list Z -> list Z -> Z * bool.
Hypothesis gk_ok : forall l r, 0 <= fst (gk l r) <= len (if snd (gk l r) then r else l).
Variable jv : list Z -> Z.

Let w_pos : 0 < w. Proof. lia. Qed.

Notation ReprInv := (ReprInv M).
Notation TargInv := (TargInv M).
Notation StateInv := (StateInv M).

Definition op3_ok (n : nat) (o : op3) : Prop :=
  match o with
  | O2 o => op2_ok w M n o
  | OSqrt d a => (d < n)%nat /\ (a < n)%nat
  | OSqrtRem d e a => (d < n)%nat /\ (e < n)%nat /\ (a < n)%nat
  | ORing _ d x y md ex => (d < n)%nat /\ (x < n)%nat /\ (y < n)%nat /\ (md < n)%nat
  | OSBit _ d a b => (d < n)%nat /\ opnd_ok n a /\ opnd_ok n b
  | ONot d a => (d < n)%nat /\ opnd_ok n a
  | OIShl d a k | OIShr d a k => (d < n)%nat /\ opnd_ok n a /\ 0 <= k
  | OParse2 d _ lr _ => (d < n)%nat /\ 0 < lr <= w
  | OParseN d _ _ _ => (d < n)%nat
  | OChunks d k => (d < n)%nat /\ 0 < k
  | OGrowFail d k => (d < n)%nat /\ 0 <= k
  end.
(** the premise on the state: a value whose square root is taken consists of word digits *)
Definition op3_pre (o : op3) (pool : list repr) : Prop :=
  match o with
  | OSqrt _ a | OSqrtRem _ _ a => Words.wf w (rwords (get a pool))
  | _ => True
  end.

Lemma targwf_ref r : ReprInv r -> Words.wf w (rwords r) -> TargWf w (typed_ref w (view_of r)).
Proof. intros HR Hw. destruct r as [s lo hi cap|s b]; cbn [view_of typed_ref TargWf]; [exact I|]. cbn [rwords] in Hw. destruct HR as (_ & H & _). split; assumption. Qed.

Lemma as_borrow_inv x : TargInv x -> TargInv (as_borrow x).
Proof. destruct x as [d|b|d|ws]; cbn [as_borrow StorageArith.TargInv]; tauto. Qed.

Lemma wp_store_opt d s o pool m :
  (d < length pool)%nat -> Forall ReprInv pool ->
  match o with Some r => Own (rblks r ++ blocks pool) m /\ ReprInv r | None => Own (blocks pool) m end ->
  safe (store_opt d s o pool) m (fun pr m' => StateInv (fst pr) m' /\ length (fst pr) = length pool).
Proof.
  intros Hd HI Ho. destruct o as [r|]; cbn [store_opt].
  - destruct Ho as [HO HR]. apply (wp_store_out M d (Done (with_sign r s)) pool (length pool)); auto.
    split; [rewrite rblks_with_sign; exact HO | apply ReprInv_with_sign; exact HR].
  - apply safe_ret. cbn [fst]. split; [split; assumption | reflexivity].
Qed.

Theorem step3_safe o pool m :
  op3_ok (length pool) o -> op3_pre o pool -> StateInv pool m ->
  safe (step3 w M gk jv o pool) m (fun pr m' => StateInv (fst pr) m' /\ length (fst pr) = length pool).
Proof.
  intros Hok Hpre HS. destruct o; cbn [op3_ok op3_pre] in *; cbn [step3].
  - apply (step2_safe w M w_pos M_big gk gk_ok); assumption.
  - (* OSqrt *)
    destruct HS as [HI HO]. destruct Hok as (Hd & Ha).
    destruct (fetch_ref w M a pool Ha HI) as (s & x & E & Tx & Bx). rewrite E.
    assert (TargWf w x) as Wx.
    { cbn [fetch] in E. injection E as _ <-. apply targwf_ref; [apply (get_inv M); exact HI | exact Hpre]. }
    apply safe_bind. eapply (wp_isqrt_top w M w_big M_big jv s x (blocks pool)); [exact HO | exact Tx | exact Wx | exact Bx |].
    intros o m1 Ho. apply (wp_store_out M); auto.
  - (* OSqrtRem *)
    destruct HS as [HI HO]. destruct Hok as (Hd & He & Ha).
    destruct (fetch_ref w M a pool Ha HI) as (s & x & E & Tx & Bx). rewrite E.
    assert (TargWf w x) as Wx.
    { cbn [fetch] in E. injection E as _ <-. apply targwf_ref; [apply (get_inv M); exact HI | exact Hpre]. }
    apply safe_bind. eapply (wp_sqrt_rem_ref w M w_big M_big jv x (blocks pool)); [exact HO | exact Tx | exact Wx | exact Bx |].
    intros q r m1 HO1 HRq HRr. cbn [fst snd]. apply (wp_store2 M); auto.
  - (* ORing *)
    destruct HS as [HI HO]. destruct Hok as (Hd & Hx & Hy & Hm).
    destruct (fetch w (ByVal x) pool) as [[sx tx] p1] eqn:E1.
    destruct (fetch_spec w M (ByVal x) pool sx tx p1 Hx HI E1) as (L1 & I1 & T1 & P1 & R1).
    destruct (fetch w (ByVal y) p1) as [[sy ty] p2] eqn:E2. rewrite <- L1 in Hy.
    destruct (fetch_spec w M (ByVal y) p1 sy ty p2 Hy I1 E2) as (L2 & I2 & T2 & P2 & R2).
    destruct (fetch w (ByVal m0) p2) as [[sm tm] p3] eqn:E3. rewrite <- L1, <- L2 in Hm.
    destruct (fetch_spec w M (ByVal m0) p2 sm tm p3 Hm I2 E3) as (L3 & I3 & T3 & P3 & R3).
    apply safe_bind. eapply (wp_ring_step w M M_big k sx tx sy ty tm ex (blocks p3)); auto.
    + eapply Own_perm; [|exact HO]. eapply perm_trans; [exact P1|]. apply Permutation_app_head.
      eapply perm_trans; [exact P2|]. apply Permutation_app_head. exact P3.
    + intros o m1 Ho. apply (wp_store_out M); auto; lia.
  - (* OSBit *)
    destruct HS as [HI HO]. destruct Hok as (Hd & Ha & Hb).
    destruct (fetch w a pool) as [[s0 x] p1] eqn:E1.
    destruct (fetch_spec w M a pool s0 x p1 Ha HI E1) as (L1 & I1 & T1 & P1 & _).
    destruct (fetch w b p1) as [[s1 y] p2] eqn:E2. rewrite <- L1 in Hb.
    destruct (fetch_spec w M b p1 s1 y p2 Hb I1 E2) as (L2 & I2 & T2 & P2 & _).
    apply safe_bind. eapply (wp_sbit_top w M M_big f s0 x s1 y (blocks p2)); auto.
    + eapply Own_perm; [|exact HO]. eapply perm_trans; [exact P1|]. apply Permutation_app_head. exact P2.
    + intros r m1 HO1 HR. apply (wp_store_out M d (Done r) p2 (length pool)); auto; lia.
  - (* ONot *)
    destruct HS as [HI HO]. destruct Hok as (Hd & Ha).
    destruct (fetch w a pool) as [[s0 x] p1] eqn:E1.
    destruct (fetch_spec w M a pool s0 x p1 Ha HI E1) as (L1 & I1 & T1 & P1 & _).
    apply safe_bind. eapply (wp_not_top w M M_big s0 x (blocks p1)); auto.
    + eapply Own_perm; [exact P1 | exact HO].
    + intros r m1 HO1 HR. apply (wp_store_out M d (Done r) p1 (length pool)); auto; lia.
  - (* OIShl *)
    destruct HS as [HI HO]. destruct Hok as (Hd & Ha & Hk).
    destruct (fetch w a pool) as [[s0 x] p1] eqn:E1.
    destruct (fetch_spec w M a pool s0 x p1 Ha HI E1) as (L1 & I1 & T1 & P1 & _).
    apply safe_bind. eapply (wp_ishl_top w M w_pos M_big s0 x n (blocks p1)); auto.
    + eapply Own_perm; [exact P1 | exact HO].
    + intros r m1 HO1 HR. apply (wp_store_out M d (Done r) p1 (length pool)); auto; lia.
  - (* OIShr *)
    destruct HS as [HI HO]. destruct Hok as (Hd & Ha & Hk).
    destruct (fetch w a pool) as [[s0 x] p1] eqn:E1.
    destruct (fetch_spec w M a pool s0 x p1 Ha HI E1) as (L1 & I1 & T1 & P1 & _).
    apply safe_bind. eapply (wp_ishr_top w M w_pos M_big s0 x n (blocks p1)); auto.
    + eapply Own_perm; [exact P1 | exact HO].
    + intros o m1 Ho. apply (wp_store_out M); auto; lia.
  - (* OParse2 *)
    destruct HS as [HI HO]. destruct Hok as (Hd & Hlr).
    apply safe_bind. eapply (wp_parse2 w M w_pos M_big lr items (blocks pool)); [exact HO | exact Hlr |].
    intros o m1 Ho. apply wp_store_opt; auto.
  - (* OParseN *)
    destruct HS as [HI HO].
    apply safe_bind. eapply (wp_parse_n w M M_big rpw gs (blocks pool)); [exact HO |].
    intros o m1 Ho. apply wp_store_opt; auto.
  - (* OChunks *)
    destruct HS as [HI HO]. destruct Hok as (Hd & Hk).
    destruct (fetch w (ByVal d) pool) as [[s0 x] p1] eqn:E1.
    destruct (fetch_spec w M (ByVal d) pool s0 x p1 Hd HI E1) as (L1 & I1 & T1 & P1 & R1).
    apply safe_bind. eapply (wp_chunks_rt w M w_pos M_big (as_borrow x) k (tblks x ++ blocks p1)); [| apply as_borrow_inv; exact T1 | exact Hk |].
    + eapply Own_perm; [exact P1 | exact HO].
    + intros r m1 HO1 HR.
      apply safe_bind. eapply wp_release; [apply Own_swap_app'; exact HO1|]. intros m2 HO2.
      apply (wp_store_out M d (Done (with_sign r s0)) p1 (length pool)); auto; try lia.
      split; [rewrite rblks_with_sign; exact HO2 | apply ReprInv_with_sign; exact HR].
  - (* OGrowFail *)
    destruct HS as [HI HO]. destruct Hok as (Hd & Hk).
    destruct (fetch w (ByVal d) pool) as [[s0 x] p1] eqn:E1.
    destruct (fetch_spec w M (ByVal d) pool s0 x p1 Hd HI E1) as (L1 & I1 & T1 & P1 & R1).
    apply safe_bind. eapply (wp_set_bit_fail w M w_pos M_big x n (blocks p1)); auto.
    + eapply Own_perm; [exact P1 | exact HO].
    + intros o m1 Ho. apply (wp_store_out M); auto; lia.
Qed.

(** the premises of the steps hold along the run of a history (the state-dependent one is about the state the step meets) *)
Fixpoint pre_along (n : nat) (ops : list op3) (pool : list repr) (m : mem) : Prop :=
  match ops with
  | [] => True
  | o :: rest => op3_ok n o /\ op3_pre o pool /\
                 forall pr m', step3 w M gk jv o pool m = Ok (pr, m') -> pre_along n rest (fst pr) m'
  end.

Theorem run3_safe ops : forall pool m,
  pre_along (length pool) ops pool m -> StateInv pool m ->
  safe (run3 w M gk jv ops pool) m (fun pool' m' => StateInv pool' m' /\ length pool' = length pool).
Proof.
  induction ops as [|o rest IH]; intros pool m Hpre HS; cbn [run3].
  - apply safe_ret. auto.
  - destruct Hpre as (Hok & Hp & Hnext).
    pose proof (step3_safe o pool m Hok Hp HS) as Hstep.
    unfold safe, bind in *. destruct (step3 w M gk jv o pool m) as [[pr m1]| | |] eqn:E; try exact Hstep.
    destruct Hstep as [HS1 HL1]. specialize (Hnext pr m1 eq_refl). rewrite <- HL1 in Hnext.
    specialize (IH (fst pr) m1 Hnext HS1). cbn beta.
    destruct (run3 w M gk jv rest (fst pr) m1) as [[pool' m']| | |]; try exact IH. destruct IH as [H1 H2]. split; [exact H1 | lia].
Qed.

Corollary history3_safe n ops :
  pre_along n ops (repeat zero n) mem0 ->
  safe (run3 w M gk jv ops (repeat zero n)) mem0
       (fun pool m => StateInv pool m /\ safe (drop_all pool) m (fun _ m' => forall p, blk m' p = None)).
Proof.
  intros H. eapply safe_mono.
  - apply run3_safe; [rewrite repeat_length; exact H | apply StateInv_init].
  - intros pool m [HS _]. split; [exact HS|]. apply drop_all_safe. exact (proj2 HS).
Qed.

(** histories without sqrt steps need no premise on the state *)
Definition no_sqrt (o : op3) : Prop := match o with OSqrt _ _ | OSqrtRem _ _ _ => False | _ => True end.

Lemma pre_along_static n ops : forall pool m,
  length pool = n -> StateInv pool m -> Forall (fun o => op3_ok n o /\ no_sqrt o) ops -> pre_along n ops pool m.
Proof.
  induction ops as [|o rest IH]; intros pool m Hn HS Hops; cbn [pre_along]; [exact I|].
  inversion Hops as [|? ? [Ho Hns] Hrest]; subst. split; [exact Ho|]. split; [destruct o; cbn in *; tauto|].
  intros pr m' E. assert (op3_pre o pool) as Hp by (destruct o; cbn in *; tauto).
  pose proof (step3_safe o pool m Ho Hp HS) as Hs. unfold safe in Hs. rewrite E in Hs. destruct Hs as [HS1 HL1].
  apply IH; [exact HL1 | exact HS1 | exact Hrest].
Qed.

Corollary history3_static_safe n ops :
  Forall (fun o => op3_ok n o /\ no_sqrt o) ops ->
  safe (run3 w M gk jv ops (repeat zero n)) mem0
       (fun pool m => StateInv pool m /\ safe (drop_all pool) m (fun _ m' => forall p, blk m' p = None)).
Proof.
  intros H. apply history3_safe. apply pre_along_static; [apply repeat_length | apply StateInv_init | exact H].
Qed.

End Ops3History.
