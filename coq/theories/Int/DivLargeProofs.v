(** C02 - the large-operand driver of div/mod.rs and div_ops.rs::repr on top of the division kernel:
    normalisation shift + top-word quotient carry (div_rem_unshifted_in_place), shift back of the
    remainder (div_rem_large) and the dispatch over operand sizes (TypedRepr DivRem / Div).
    The kernel (div::div_rem_in_place, schoolbook or divide and conquer) enters through its
    contract [kernel_post], which DivSimpleProofs proves for the schoolbook algorithm and
    DivDCProofs for Burnikel-Ziegler.  Every word size w > 0, every length. *)
From Dashu Require Import Base.Prelude Base.Words Int.DivWordModel Int.DivWordProofs Int.DivSimpleProofs.
Open Scope Z_scope.

Section DivLarge.
Variable w : Z.
Hypothesis w_pos : 0 < w.
Notation B := (Words.B w).
Notation value := (Words.value w).
Notation wf := (Words.wf w).
Notation normalized_top := (DivSimpleProofs.normalized_top w).

Local Lemma Bpos : 0 < B. Proof. apply B_pos; lia. Qed.
Local Notation Bpow_pos := (DivWordProofs.Bpow_pos w w_pos).
Local Notation value_lt := (DivSimpleProofs.value_lt w w_pos).
Local Notation value_split := (DivSimpleProofs.value_split w).
Local Notation wf_firstn := (DivSimpleProofs.wf_firstn w).
Local Notation wf_skipn := (DivSimpleProofs.wf_skipn w).

(** what `lhs = [lhs % rhs, lhs / rhs]` + returned carry means *)
Definition kernel_post (lhs rhs res : list Z) (c : bool) : Prop :=
  wf res /\ length res = length lhs /\
  value (firstn (length rhs) res) = value lhs mod value rhs /\
  value (skipn (length rhs) res) + B ^ Z.of_nat (length lhs - length rhs) * Z.b2z c = value lhs / value rhs.

Definition kernel_pre (lhs rhs : list Z) : Prop :=
  wf lhs /\ wf rhs /\ (2 <= length rhs)%nat /\ (length rhs <= length lhs)%nat /\ normalized_top rhs.

Lemma normalized_top_pos rhs : normalized_top rhs -> 0 < value rhs.
Proof.
  unfold DivSimpleProofs.normalized_top. intros H.
  pose proof (Bpow_pos (len rhs) ltac:(unfold len; lia)). lia.
Qed.

Lemma firstn_app_exact {A} (a b : list A) k : length a = k -> firstn k (a ++ b) = a.
Proof. intros <-. rewrite firstn_app, Nat.sub_diag, firstn_all. cbn [firstn]. apply app_nil_r. Qed.
Lemma skipn_app_exact {A} (a b : list A) k : length a = k -> skipn k (a ++ b) = b.
Proof. intros <-. rewrite skipn_app, Nat.sub_diag, skipn_all. reflexivity. Qed.

(** a window that is smaller than the divisor gives a quotient without carry *)
Lemma kernel_post_no_carry lhs rhs res c : wf lhs -> (length rhs <= length lhs)%nat -> 0 < value rhs ->
  value (skipn (length lhs - length rhs) lhs) < value rhs ->
  kernel_post lhs rhs res c -> c = false.
Proof.
  intros Hwl Hnl HV Hwin (Hwr & Hl & _ & Hq). pose proof Bpos as HB.
  set (k := (length lhs - length rhs)%nat) in *.
  pose proof (value_split k lhs ltac:(unfold k; lia)) as Hsp.
  pose proof (value_lt (firstn k lhs) (wf_firstn _ _ Hwl)) as Hf. unfold len in Hf. rewrite firstn_length_le in Hf by (unfold k; lia).
  pose proof (value_lt (skipn (length rhs) res) (wf_skipn _ _ Hwr)) as Hs.
  pose proof (Bpow_pos (Z.of_nat k) ltac:(lia)) as HBk.
  assert (value lhs / value rhs < B ^ Z.of_nat k) as Hlt.
  { apply Z.div_lt_upper_bound; [lia|]. rewrite Hsp. nia. }
  destruct c; [cbn [Z.b2z] in Hq; lia | reflexivity].
Qed.

Variable div3by2 : Z -> Z -> Z -> Z * Z.
Hypothesis div3by2_ok : forall d lo hi, norm2 w d -> 0 <= lo < B -> 0 <= hi < d ->
  div3by2 d lo hi = ((lo + B * hi) / d, (lo + B * hi) mod d).
Variable mul_sub : list Z -> list Z -> list Z -> list Z * Z.
Variable T : nat.
Notation dip := (div_rem_in_place w div3by2 mul_sub T).

(** the schoolbook kernel satisfies the contract, and the dispatcher runs it below the threshold *)
Lemma simple_kernel_post lhs rhs : kernel_pre lhs rhs ->
  kernel_post lhs rhs (fst (simple_div_rem w div3by2 lhs rhs)) (snd (simple_div_rem w div3by2 lhs rhs)).
Proof.
  intros (Hwl & Hwr & Hn2 & Hnl & Hnorm).
  destruct (simple_div_rem w div3by2 lhs rhs) as [res c] eqn:E. cbn [fst snd].
  exact (simple_div_rem_correct w w_pos div3by2 div3by2_ok lhs rhs Hwl Hwr Hn2 Hnl Hnorm res c E).
Qed.

Lemma dip_simple_path fuel lhs rhs : (length rhs <= T \/ length lhs - length rhs <= T)%nat ->
  dip fuel lhs rhs = Ok (simple_div_rem w div3by2 lhs rhs).
Proof.
  intros H. unfold div_rem_in_place.
  assert (((length rhs <=? T) || (length lhs - length rhs <=? T))%nat = true) as ->; [|reflexivity].
  apply orb_true_iff. destruct H; [left | right]; apply Nat.leb_le; assumption.
Qed.

(** *** div_rem_unshifted_in_place reduces to ONE kernel call on operands of the same lengths that
    satisfy the kernel's precondition; its result is then the floor quotient / remainder of the
    shifted dividend, the top quotient word being q_top + carry < B *)
Lemma div_rem_unshifted_reduce fuel lhs rhs s :
  kernel_pre lhs rhs -> 0 <= s < w ->
  exists lhs2 qt, kernel_pre lhs2 rhs /\ length lhs2 = length lhs /\
    div_rem_unshifted w div3by2 mul_sub T fuel lhs rhs s =
      rbind (dip fuel lhs2 rhs) (fun '(lhs3, ov) => Ok (lhs3, qt + Z.b2z ov)) /\
    forall lhs3 ov, kernel_post lhs2 rhs lhs3 ov ->
      0 <= qt + Z.b2z ov < B /\
      value (firstn (length rhs) lhs3) = (value lhs * 2 ^ s) mod value rhs /\
      value (skipn (length rhs) lhs3) + B ^ Z.of_nat (length lhs - length rhs) * (qt + Z.b2z ov) = (value lhs * 2 ^ s) / value rhs.
Proof.
  intros Hpre Hs. pose proof Hpre as (Hwl & Hwr & Hn2 & Hnl & Hnorm). pose proof Bpos as HB.
  unfold div_rem_unshifted.
  destruct (shl_in_place w lhs s) as [lhs1 cy] eqn:E1.
  destruct (shl_in_place_spec w w_pos lhs s Hwl Hs _ _ E1) as (Hv1 & Hw1 & Hl1 & Hcy).
  set (n := length rhs) in *. set (k := (length lhs - n)%nat) in *. set (V := value rhs) in *.
  pose proof (normalized_top_pos rhs Hnorm) as HVpos. fold V in HVpos.
  unfold DivSimpleProofs.normalized_top in Hnorm. fold V in Hnorm. replace (len rhs) with (Z.of_nat n) in Hnorm by reflexivity.
  pose proof (Bpow_pos (Z.of_nat n) ltac:(lia)) as HBn. pose proof (Bpow_pos (Z.of_nat k) ltac:(lia)) as HBk.
  assert (len lhs = Z.of_nat n + Z.of_nat k) as Hlen by (unfold len, k; lia).
  rewrite Hlen, Z.pow_add_r in Hv1 by lia.
  pose proof (pow2_pos s ltac:(lia)) as Hps.
  assert (2 * 2 ^ s <= B) as H2s.
  { rewrite (B_split w s) by lia.
    assert (2 ^ 1 <= 2 ^ (w - s)) by (apply Z.pow_le_mono_r; lia). rewrite Z.pow_1_r in *. nia. }
  destruct (Z.gtb_spec cy 0) as [Hgt|Hle].
  - destruct (div_rem_highest_word w div3by2 cy lhs1 rhs) as [q lhs2] eqn:E2.
    assert (length lhs1 - n = k)%nat as Hk1 by (unfold k; lia).
    pose proof (value_lt (skipn k lhs1) (wf_skipn _ _ Hw1)) as Hwin.
    unfold len in Hwin. rewrite skipn_length in Hwin. replace (Z.of_nat (length lhs1 - k)) with (Z.of_nat n) in Hwin by (unfold k; lia).
    assert (cy * B ^ Z.of_nat n + value (skipn k lhs1) < V * B) as Hpre1.
    { assert ((cy + 1) * B ^ Z.of_nat n <= 2 ^ s * B ^ Z.of_nat n) by nia.
      assert (2 * (2 ^ s * B ^ Z.of_nat n) <= B * B ^ Z.of_nat n) by nia. nia. }
    rewrite <- Hk1 in Hpre1 at 1.
    destruct (div_rem_highest_word_correct w w_pos div3by2 div3by2_ok cy lhs1 rhs Hw1 Hwr Hn2 ltac:(lia) ltac:(lia)
                ltac:(unfold DivSimpleProofs.normalized_top; fold V; exact Hnorm) Hpre1 _ _ E2)
      as (Hq & Hw2 & Hl2 & Hfirst & Hqv & Hrv).
    fold n in Hfirst, Hqv, Hrv. rewrite Hk1 in Hfirst, Hqv, Hrv. fold V in Hqv, Hrv.
    set (U := cy * B ^ Z.of_nat n + value (skipn k lhs1)) in *.
    exists lhs2, q.
    assert (kernel_pre lhs2 rhs) as Hpre2 by (repeat split; try assumption; lia).
    split; [exact Hpre2|]. split; [lia|]. split; [reflexivity|].
    intros lhs3 ov Hpost.
    pose proof (Z.mod_pos_bound U V HVpos) as Hmb. pose proof (Z.div_mod U V ltac:(lia)) as Hdm.
    assert (ov = false) as ->.
    { apply (kernel_post_no_carry lhs2 rhs lhs3 ov Hw2 ltac:(lia) HVpos); [|exact Hpost].
      fold n. replace (length lhs2 - n)%nat with k by lia. fold V. lia. }
    destruct Hpost as (Hw3 & Hl3 & Hrem & Hquo). fold n V in Hrem, Hquo.
    pose proof (value_split k lhs1 ltac:(unfold k; lia)) as Hs1. pose proof (value_split k lhs2 ltac:(unfold k; lia)) as Hs2.
    rewrite Hfirst in Hs2.
    assert (value lhs * 2 ^ s = value lhs2 + (B ^ Z.of_nat k * q) * V) as Htot by (unfold U in *; nia).
    cbn [Z.b2z] in *. replace (length lhs2 - n)%nat with k in Hquo by lia.
    split; [lia|].
    rewrite Hrem, Htot, Z.mod_add, Z.div_add by lia. split; [reflexivity | lia].
  - assert (cy = 0) by lia. subst cy.
    exists lhs1, 0.
    assert (kernel_pre lhs1 rhs) as Hpre2 by (repeat split; try assumption; lia).
    split; [exact Hpre2|]. split; [lia|]. split; [reflexivity|].
    intros lhs3 ov (Hw3 & Hl3 & Hrem & Hquo). fold n V in Hrem, Hquo.
    replace (length lhs1 - n)%nat with k in Hquo by (unfold k; lia).
    assert (value lhs1 = value lhs * 2 ^ s) as Hv by lia. rewrite Hv in *.
    split; [destruct ov; cbn [Z.b2z]; pose proof (B_ge_2 w ltac:(lia)); lia|].
    split; [exact Hrem | lia].
Qed.

(** normalize: the shift by the leading zeros of the top word loses nothing and sets the top bit *)
Lemma normalize_spec rhs : wf rhs -> (2 <= length rhs)%nat -> 0 < highest_word w rhs ->
  let s := lzw w 1 (highest_word w rhs) in
  0 <= s < w /\ 0 < value rhs /\
  exists rhs1, shl_in_place w rhs s = (rhs1, 0) /\ wf rhs1 /\ length rhs1 = length rhs /\
               value rhs1 = value rhs * 2 ^ s /\ normalized_top rhs1.
Proof.
  intros Hwr Hn2 Htop. pose proof Bpos as HB. set (n := length rhs) in *. set (V := value rhs) in *.
  set (x := highest_word w rhs) in *.
  pose proof (value_split (n - 1) rhs ltac:(lia)) as Hsp. fold V in Hsp.
  assert (x = value (skipn (n - 1) rhs)) as Hx by (unfold x, highest_word, top_words; fold n; reflexivity).
  rewrite <- Hx in Hsp.
  pose proof (value_lt (firstn (n - 1) rhs) (wf_firstn _ _ Hwr)) as Hlo.
  unfold len in Hlo. rewrite firstn_length_le in Hlo by lia.
  pose proof (value_lt (skipn (n - 1) rhs) (wf_skipn _ _ Hwr)) as Hxb. rewrite <- Hx in Hxb.
  unfold len in Hxb. rewrite skipn_length in Hxb. replace (Z.of_nat (length rhs - (n - 1))) with 1 in Hxb by (fold n; lia).
  rewrite Z.pow_1_r in Hxb.
  pose proof (lzw_spec w w_pos 1 x ltac:(lia) ltac:(rewrite Z.pow_1_r; lia)) as (Hs & Hn1 & Hn2').
  rewrite Z.pow_1_r, Z.mul_1_l in *. cbn zeta. set (s := lzw w 1 x) in *.
  pose proof (pow2_pos s ltac:(lia)) as Hps. pose proof (pow2_pos (w - s) ltac:(lia)) as Hpq.
  pose proof (B_split w s ltac:(lia)) as HBs.
  assert ((x + 1) * 2 ^ s <= B) as Hx1.
  { assert (x * 2 ^ s < 2 ^ (w - s) * 2 ^ s) as Hlt by (rewrite <- HBs; lia).
    assert (x < 2 ^ (w - s)) by nia. rewrite HBs. nia. }
  set (P := B ^ Z.of_nat (n - 1)) in *.
  assert (0 < P) as HP by (apply Bpow_pos; lia).
  assert (B ^ Z.of_nat n = B * P) as HBn.
  { unfold P. replace (Z.of_nat n) with (1 + Z.of_nat (n - 1)) by lia. rewrite Z.pow_add_r, Z.pow_1_r by lia. reflexivity. }
  destruct (shl_in_place w rhs s) as [rhs1 c1] eqn:E1.
  destruct (shl_in_place_spec w w_pos rhs s Hwr Hs _ _ E1) as (Hv1 & Hw1 & Hl1 & Hc1).
  replace (len rhs) with (Z.of_nat n) in Hv1 by reflexivity. fold V in Hv1. rewrite HBn in Hv1.
  pose proof (value_lt rhs1 Hw1) as Hr1. unfold len in Hr1. rewrite Hl1 in Hr1. fold n in Hr1. rewrite HBn in Hr1.
  assert (V * 2 ^ s < B * P) as Hfit by nia.
  assert (c1 = 0) by nia. subst c1.
  split; [exact Hs|]. split; [nia|]. exists rhs1. split; [reflexivity|]. split; [exact Hw1|]. split; [exact Hl1|].
  split; [lia|]. unfold DivSimpleProofs.normalized_top, len. rewrite Hl1. fold n. rewrite HBn. nia.
Qed.

(** shift::shr_in_place by 0 <= s < w bits of an exact multiple of 2^s *)
Lemma shr_back ws s v : wf ws -> 0 <= s < w -> value ws = v * 2 ^ s ->
  forall r c, shr_in_place w ws s = (r, c) -> value r = v /\ wf r /\ length r = length ws.
Proof.
  intros Hwf Hs Hv r c E. pose proof (pow2_pos s ltac:(lia)) as Hps.
  destruct (Z.eq_dec s 0) as [Hs0|Hs0].
  - unfold shr_in_place in E. rewrite Hs0 in E. destruct (Z.eqb_spec 0 w) as [|_]; [lia|]. cbn in E.
    inversion E; subst. rewrite Z.pow_0_r in Hv. split; [lia | split; [assumption | reflexivity]].
  - destruct (shr_in_place_spec w w_pos ws s Hwf ltac:(lia) _ _ E) as (k' & _ & Hk' & Hv' & Hwq & Hlq).
    split; [nia | split; [exact Hwq | lia]].
Qed.

(** *** div_ops.rs::repr::div_rem_large reduces to one kernel call as well *)
Lemma div_rem_large_reduce fuel lhs rhs :
  wf lhs -> wf rhs -> (2 <= length rhs)%nat -> (length rhs <= length lhs)%nat -> 0 < highest_word w rhs ->
  exists lhs2 rhs1, kernel_pre lhs2 rhs1 /\ length lhs2 = length lhs /\ length rhs1 = length rhs /\
    ((exists x, dip fuel lhs2 rhs1 = Ok x) -> exists qr, div_rem_large w div3by2 mul_sub T fuel lhs rhs = Ok qr) /\
    ((forall res c, dip fuel lhs2 rhs1 = Ok (res, c) -> kernel_post lhs2 rhs1 res c) ->
     forall q r, div_rem_large w div3by2 mul_sub T fuel lhs rhs = Ok (q, r) ->
       value q = value lhs / value rhs /\ value r = value lhs mod value rhs /\
       wf q /\ wf r /\ length r = length rhs /\ length q = (length lhs - length rhs + 1)%nat).
Proof.
  intros Hwl Hwr Hn2 Hnl Htop. pose proof Bpos as HB.
  destruct (normalize_spec rhs Hwr Hn2 Htop) as (Hs & HVpos & rhs1 & E1 & Hw1 & Hl1 & Hvr1 & Hnorm1).
  unfold div_rem_large. set (s := lzw w 1 (highest_word w rhs)) in *. rewrite E1.
  set (n := length rhs) in *. set (V := value rhs) in *.
  assert (kernel_pre lhs rhs1) as Hpre by (repeat split; try assumption; lia).
  destruct (div_rem_unshifted_reduce fuel lhs rhs1 s Hpre Hs) as (lhs2 & qt & Hpre2 & Hl2 & Ered & Hfin).
  rewrite Ered. rewrite Hl1 in Hfin. fold n in Hfin. rewrite Hvr1 in Hfin.
  exists lhs2, rhs1. split; [exact Hpre2|]. split; [exact Hl2|]. split; [exact Hl1|]. split.
  - intros ([lhs3 ov] & E3). rewrite E3. cbn [rbind].
    destruct (shr_in_place w (firstn n lhs3) s) as [r1 c2]. eexists. reflexivity.
  - intros Hsound q r E.
    destruct (dip fuel lhs2 rhs1) as [[lhs3 ov]| | |] eqn:E3; cbn [rbind] in E; try discriminate.
    pose proof (Hsound lhs3 ov eq_refl) as Hpost.
    destruct (Hfin lhs3 ov Hpost) as (Hqt & Hrem & Hquo).
    destruct Hpost as (Hw3 & Hl3 & _ & _).
    pose proof (pow2_pos s ltac:(lia)) as Hps.
    rewrite Z.mul_mod_distr_r in Hrem by lia. rewrite Z.div_mul_cancel_r in Hquo by lia.
    destruct (shr_in_place w (firstn n lhs3) s) as [r1 c2] eqn:E4. inversion E; subst q r; clear E.
    assert (wf (firstn n lhs3)) as Hwf3 by (apply wf_firstn; exact Hw3).
    assert (length (firstn n lhs3) = n) as Hlf3 by (rewrite firstn_length_le; lia).
    destruct (shr_back (firstn n lhs3) s (value lhs mod V) Hwf3 Hs Hrem _ _ E4) as (Hr & Hwr1 & Hlr1).
    rewrite value_app. cbn [value]. fold B. unfold len. rewrite skipn_length, Hl3, Hl2.
    split; [lia|]. split; [exact Hr|]. split; [|split; [exact Hwr1 | split; [lia|]]].
    + apply wf_app. split; [apply wf_skipn; exact Hw3|]. apply wf_cons. split; [lia | apply wf_nil].
    + rewrite app_length, skipn_length. cbn [length]. lia.
Qed.

End DivLarge.
