(** C02 round 4 - the entry points built only from REGENERATED code (Int/DivKernelsInst.v over coq/gen/DivKernelsGen.v and
    DivReprGen.v, with num-modular's reciprocal division and C01's multiplication transcribed) return the floor quotient and
    the remainder, for every word size w >= 8 and all operands - nothing assumed.  These are the functions the oracle runs
    next to the implementation on every case with a dividend of more than two words. *)
From Dashu Require Import Base.Prelude Base.Words Int.DivWordModel Int.DivWordProofs Int.DivConstProofs Int.DivReprProofs Int.DivContracts
  Int.DivNumModular Int.DivNumModularProofs Int.DivSrcInst Int.DivSrcInstProofs Int.DivOwn Int.DivOwnProofs
  Int.DivKernelsBase Int.DivKernelsGenProofs Int.DivReprGenProofs Int.DivKernelsInst.
From DashuGen Require Import DivKernelsGen DivReprGen.
Open Scope Z_scope.

Section GenSpec.
Variable w : Z.
Hypothesis w_ge : 8 <= w.
Notation B := (Words.B w).

Local Lemma w_pos : 0 < w. Proof. lia. Qed.
Local Lemma Bpos : 0 < B. Proof. apply B_pos; lia. Qed.

Lemma tvalue_repr_of v : 0 <= v -> tvalue w (repr_of w v) = v.
Proof.
  intros Hv. unfold repr_of. destruct (v <? B * B); [reflexivity|]. cbn [tvalue].
  apply (words_of_spec w w_pos v Hv).
Qed.

Theorem g_div_rem_small_correct a b : B * B <= a -> 0 < b < B * B -> g_div_rem_small w a b = (a / b, a mod b).
Proof.
  intros Ha Hb. pose proof Bpos as HB. pose proof w_pos as Hw. unfold g_div_rem_small.
  destruct (words_of_spec w Hw a ltac:(nia)) as (Hwa & Hva & Hla). pose proof (nwords_ge3 w Hw a Ha) as Hna.
  destruct (Z.ltb_spec b B) as [Hb1|Hb1].
  - rewrite div_by_word_gen_eq by lia. cbn [Pnm prims_of p2by1].
    destruct (div_by_word w (nm2by1 w) (words_of w a) b) as [q r] eqn:E.
    destruct (div_by_word_correct w Hw (nm2by1 w) (nm2by1_contract w Hw) _ b Hwa ltac:(lia) q r E) as (Hq & Hr & _).
    rewrite Hq, Hr, Hva. reflexivity.
  - rewrite (div_by_dword_gen_eq w Hw) by (assumption || lia). cbn [Pnm prims_of p3by2 p4by2].
    destruct (div_by_dword w (nm3by2 w) (nm4by2 w) (words_of w a) b) as [q r] eqn:E.
    destruct (div_by_dword_correct w Hw (nm3by2 w) (nm4by2 w) (nm3by2_contract w Hw) (nm4by2_contract w Hw) _ b Hwa ltac:(lia) ltac:(lia) q r E)
      as (Hq & Hr & _).
    rewrite Hq, Hr, Hva. reflexivity.
Qed.

Theorem g_rem_small_correct a b : B * B <= a -> 0 < b < B * B -> g_rem_small w a b = a mod b.
Proof.
  intros Ha Hb. pose proof Bpos as HB. pose proof w_pos as Hw. unfold g_rem_small.
  destruct (words_of_spec w Hw a ltac:(nia)) as (Hwa & Hva & Hla). pose proof (nwords_ge3 w Hw a Ha) as Hna.
  destruct (Z.ltb_spec b B) as [Hb1|Hb1].
  - rewrite rem_by_word_gen_eq by lia. cbn [Pnm prims_of p1by1 p2by1].
    rewrite (rem_by_word_correct w Hw (nm1by1 w) (nm2by1 w) (nm1by1_contract w) (nm2by1_contract w Hw) _ b Hwa) by
      (try lia; intros E0; rewrite E0 in Hla; cbn in Hla; lia).
    rewrite Hva. reflexivity.
  - rewrite (rem_by_dword_gen_eq w Hw) by lia. cbn [Pnm prims_of p2by2 p3by2 p4by2].
    rewrite (rem_by_dword_correct w Hw (nm2by2 w) (nm3by2 w) (nm4by2 w) (nm2by2_contract w) (nm3by2_contract w Hw) (nm4by2_contract w Hw) _ b Hwa) by lia.
    rewrite Hva. reflexivity.
Qed.

Theorem g_large_correct a b : B * B <= b -> (nwords w b <= nwords w a)%nat ->
  g_div_rem_large w a b = (a / b, a mod b) /\ g_div_large w a b = a / b /\ g_rem_large w a b = a mod b.
Proof.
  intros Hb Hle. pose proof Bpos as HB. pose proof w_pos as Hw.
  assert (Ha : B * B <= a).
  { destruct (Z.lt_ge_cases a (B * B)) as [Hlt|]; [exfalso|assumption].
    pose proof (nwords_ge3 w Hw b Hb). destruct (Z.le_gt_cases a 0) as [Hz|Hp].
    - unfold nwords in Hle at 2. destruct (Z.leb_spec a 0); lia.
    - destruct (nwords_spec w Hw a Hp) as (_ & Hlo & _).
      assert (B ^ 2 <= B ^ (Z.of_nat (nwords w a) - 1)) by (apply Z.pow_le_mono_r; lia). replace (B ^ 2) with (B * B) in * by ring. lia. }
  destruct (words_of_spec w Hw a ltac:(nia)) as (Hwa & Hva & Hla). destruct (words_of_spec w Hw b ltac:(nia)) as (Hwb & Hvb & Hlb).
  pose proof (nwords_ge3 w Hw b Hb) as Hnb.
  assert (Hne : words_of w b <> []) by (intros E0; rewrite E0 in Hlb; cbn in Hlb; lia).
  assert (Hll : (length (words_of w b) <= length (words_of w a))%nat) by lia.
  pose proof (c01_mul_sub_contract w w_ge) as Hms.
  destruct (in_lhs_spec w Hw (nm3by2 w) (nm3by2_contract w Hw) (c01_mul_sub w) Hms Ts Ts_ge a b Ha Hb Hll) as (l & rhs1 & s & E & Hq & Hr).
  assert (Hq0 : 0 <= a / b) by (apply Z.div_pos; nia). pose proof (Z.mod_pos_bound a b ltac:(nia)) as Hm.
  unfold g_div_rem_large, g_div_large, g_rem_large.
  rewrite (div_rem_large_gen_eq w (Pnm w) _ _ (repr_of w (a / b), repr_of w (a mod b)) Hne Hll).
  2:{ unfold t_div_rem_large. cbn [Pnm prims_of p3by2 pmul_sub]. change div_threshold_simple_nat with Ts. rewrite E. cbn [rbind].
      destruct (shr_in_place w (firstn (length rhs1) l) s) as [r1 c1]. cbn [fst] in Hr. rewrite Hq, Hr. reflexivity. }
  rewrite (div_large_gen_eq w (Pnm w) _ _ (repr_of w (a / b)) Hne Hll).
  2:{ unfold t_div_large. cbn [Pnm prims_of p3by2 pmul_sub]. change div_threshold_simple_nat with Ts. rewrite E. cbn [rbind]. rewrite Hq. reflexivity. }
  rewrite (rem_large_gen_eq w (Pnm w) _ _ (repr_of w (a mod b)) Hne Hll).
  2:{ unfold t_rem_large. cbn [Pnm prims_of p3by2 pmul_sub]. change div_threshold_simple_nat with Ts. rewrite E. cbn [rbind].
      destruct (shr_in_place w (firstn (length rhs1) l) s) as [r1 c1]. cbn [fst] in Hr. rewrite Hr. reflexivity. }
  rewrite !tvalue_repr_of by lia. repeat split.
Qed.

End GenSpec.

(** non-vacuity at w = 64 and w = 32: word, power-of-two double word, double word, multi-word divisors *)
Example g_examples :
  g_div_rem_small 64 (2 ^ 200 + 12345) 10 = ((2 ^ 200 + 12345) / 10, (2 ^ 200 + 12345) mod 10) /\
  g_div_rem_small 64 (2 ^ 200 + 12345) (2 ^ 100) = (2 ^ 100, 12345) /\
  g_rem_small 32 (2 ^ 200 + 12345) (2 ^ 40 + 1) = (2 ^ 200 + 12345) mod (2 ^ 40 + 1) /\
  g_div_rem_large 32 (2 ^ 300 + 7) (2 ^ 100 - 3) = ((2 ^ 300 + 7) / (2 ^ 100 - 3), (2 ^ 300 + 7) mod (2 ^ 100 - 3)).
Proof. vm_compute. repeat split. Qed.

(** non-vacuity of the premises of the `generated = hand model` theorems (exact-arithmetic instance, w = 8): a word divisor,
    a double-word divisor with an odd number of words below the top (3-by-2, one 4-by-2 chunk, odd tail), the schoolbook kernel on
    a dividend that needs the q-hat correction, and the tail of the divide-and-conquer step with a negative remainder (add-back) *)
Example gen_eq_examples :
  let P := Px 8 in
  div_by_word_in_place_gen P 8 [5; 7; 9; 200] 10 = div_by_word 8 (p2by1 P) [5; 7; 9; 200] 10 /\
  div_by_dword_in_place_gen P 8 [1; 2; 3; 4; 5; 6] 300 = div_by_dword 8 (p3by2 P) (p4by2 P) [1; 2; 3; 4; 5; 6] 300 /\
  fst (div_by_dword_in_place_gen P 8 [1; 2; 3; 4; 5; 6] 300) <> [1; 2; 3; 4; 5; 6] /\
  rem_by_dword_gen P 8 [1; 2; 3; 4; 5; 6] 300 = Words.value 8 [1; 2; 3; 4; 5; 6] mod 300 /\
  simple_div_rem_in_place_gen P 8 [255; 255; 255; 0; 128] [1; 0; 128] (highest_dword 8 [1; 0; 128]) =
    simple_div_rem 8 (p3by2 P) [255; 255; 255; 0; 128] [1; 0; 128] /\
  dc_tail 8 P [0; 0; 0; 2] [5; 0; 128] 3 1 false = Ok ([251; 255; 127; 1], false) /\
  dc_small_quotient_tail_gen P 8 [0; 0; 0; 2] [5; 0; 128] 3 1 0 = ([251; 255; 127; 1], false).
Proof. vm_compute. repeat split; discriminate. Qed.
