(** C01 (scratch memory): the scratch words consumed by the multipliers (Int/RingScratch.v) never exceed what
    their callers allocate (the formulas of memory_requirement_up_to / _exact, regenerated from the source into
    DashuGen.MulMemory), for EVERY operand length and every threshold pair with 1 <= T_simple, 15 <= T_kara:
      Karatsuba   f(n) <= 2 n + 2 ceil_log2 n                       (induction as sketched in karatsuba.rs)
      Toom-3      f(n) <= 4 n + 20 (k - 2)  whenever n <= 3^k + 2   (the "4n + 20 log_3 (n - 2.5)" of toom_3.rs,
                  with the logarithm replaced by any k that bounds it), and 20 (k - 2) <= 13 ceil_log2 n for a
                  suitable k because 2^20 < 3^13 (the "20 log_3 n < 13 log_2 n" of the comment)
      unbalanced  mul::add_signed_mul consumes at most the formula of the shorter length (the formula is monotone)
    The fuel of the definitions suffices (any fuel above the length gives the same value). *)
From Coq Require Import ZArith Lia.
From Dashu Require Import Base.Prelude Int.RingScratch.
From DashuGen Require Import Params MulMemory.
Open Scope Z_scope.

(** ------------------------------------------------------------------ math::ceil_log2 *)
Lemma clog2_small n : n <= 1 -> ceil_log2 n = 0.
Proof. intros H. unfold ceil_log2, bit_len_z. destruct (Z.leb_spec (n - 1) 0); lia. Qed.

Lemma clog2_big n : 2 <= n -> ceil_log2 n = Z.log2 (n - 1) + 1.
Proof. intros H. unfold ceil_log2, bit_len_z. destruct (Z.leb_spec (n - 1) 0); lia. Qed.

Lemma clog2_nonneg n : 0 <= ceil_log2 n.
Proof.
  destruct (Z.le_gt_cases n 1) as [H|H]; [rewrite clog2_small; lia|].
  rewrite clog2_big by lia. pose proof (Z.log2_nonneg (n - 1)). lia.
Qed.

Lemma clog2_spec n : 1 <= n -> n <= 2 ^ ceil_log2 n.
Proof.
  intros H. destruct (Z.le_gt_cases n 1) as [H1|H1].
  - rewrite clog2_small by lia. rewrite Z.pow_0_r. lia.
  - rewrite clog2_big by lia. destruct (Z.log2_spec (n - 1) ltac:(lia)) as [_ Hi].
    replace (Z.log2 (n - 1) + 1) with (Z.succ (Z.log2 (n - 1))) by lia. lia.
Qed.

Lemma clog2_le_pow n j : 0 <= j -> n <= 2 ^ j -> ceil_log2 n <= j.
Proof.
  intros Hj H. destruct (Z.le_gt_cases n 1) as [H1|H1]; [rewrite clog2_small; lia|].
  rewrite clog2_big by lia. assert (Z.log2 (n - 1) < j); [|lia].
  apply Z.log2_lt_pow2; lia.
Qed.

Lemma clog2_mono a b : a <= b -> ceil_log2 a <= ceil_log2 b.
Proof.
  intros H. destruct (Z.le_gt_cases b 0) as [Hb|Hb].
  - rewrite (clog2_small a), (clog2_small b); lia.
  - apply clog2_le_pow; [apply clog2_nonneg|]. pose proof (clog2_spec b ltac:(lia)). lia.
Qed.

Lemma clog2_ge1 n : 2 <= n -> 1 <= ceil_log2 n.
Proof. intros H. rewrite clog2_big by lia. pose proof (Z.log2_nonneg (n - 1)). lia. Qed.

Lemma clog2_half n : 2 <= n -> ceil_log2 ((n + 1) / 2) + 1 <= ceil_log2 n.
Proof.
  intros H. pose proof (clog2_ge1 n H) as Hc. pose proof (clog2_spec n ltac:(lia)) as Hs.
  set (c := ceil_log2 n) in *.
  assert (E : 2 ^ c = 2 * 2 ^ (c - 1)).
  { replace c with (Z.succ (c - 1)) at 1 by lia. rewrite Z.pow_succ_r by lia. reflexivity. }
  assert (ceil_log2 ((n + 1) / 2) <= c - 1); [|lia].
  apply clog2_le_pow; [lia|].
  pose proof (Z.div_mod (n + 1) 2 ltac:(lia)). pose proof (Z.mod_pos_bound (n + 1) 2 ltac:(lia)). lia.
Qed.

Lemma clog2_le_self n : 1 <= n -> ceil_log2 n <= n.
Proof. intros H. apply clog2_le_pow; [lia|]. pose proof (Z.pow_gt_lin_r 2 n ltac:(lia) ltac:(lia)). lia. Qed.

(** 2^c <= 3^k for k = 13 c / 20 + 2, because 2^20 < 3^13 *)
Lemma pow2_le_pow3 c : 0 <= c -> 2 ^ c <= 3 ^ (13 * c / 20 + 2).
Proof.
  intros Hc. set (k := 13 * c / 20 + 2).
  pose proof (Z.div_mod (13 * c) 20 ltac:(lia)) as D. pose proof (Z.mod_pos_bound (13 * c) 20 ltac:(lia)) as M.
  assert (Hk : 0 <= k /\ 13 * c <= 20 * k) by (subst k; lia). destruct Hk as [Hk0 Hk].
  destruct (Z.le_gt_cases (2 ^ c) (3 ^ k)) as [G|G]; [exact G|exfalso].
  assert (P3 : 0 < 3 ^ k) by (apply Z.pow_pos_nonneg; lia).
  assert (L : (3 ^ k) ^ 20 < (2 ^ c) ^ 20) by (apply Z.pow_lt_mono_l; lia).
  rewrite <- !Z.pow_mul_r in L by lia.
  assert (R : 2 ^ (c * 20) <= 3 ^ (k * 20)).
  { apply Z.le_trans with (3 ^ (13 * c)).
    - replace (c * 20) with (20 * c) by lia. rewrite !Z.pow_mul_r by lia.
      apply Z.pow_le_mono_l. split; [apply Z.pow_nonneg; lia|]. vm_compute. discriminate.
    - apply Z.pow_le_mono_r; lia. }
  lia.
Qed.

Section ScratchProofs.
Variable T_simple T_kara CHUNK : Z.
Hypothesis T_simple_ok : 1 <= T_simple.
Hypothesis T_kara_ok : 15 <= T_kara.
Hypothesis CHUNK_ok : 1 <= CHUNK.
Notation nsame := (need_same T_simple T_kara).
Notation ngen := (need_gen T_simple T_kara CHUNK).
Notation K := karatsuba_memory_words.
Notation TM := toom3_memory_words.
Notation M := (alloc_up_to T_simple T_kara).

Lemma K_eq n : K n = 2 * n + 2 * ceil_log2 n.
Proof. reflexivity. Qed.
Lemma TM_eq n : TM n = 4 * n + 13 * ceil_log2 n.
Proof. reflexivity. Qed.

Lemma K_mono a b : a <= b -> K a <= K b.
Proof. intros H. rewrite !K_eq. pose proof (clog2_mono a b H). lia. Qed.

(** ---- one Karatsuba level *)
Lemma kara_need_le (rec : Z -> Z) n : 2 <= n ->
  (forall m, 1 <= m < n -> rec m <= K m) -> kara_need rec n <= K n.
Proof.
  intros Hn Hrec. unfold kara_need. cbv zeta.
  pose proof (Z.div_mod (n + 1) 2 ltac:(lia)) as D. pose proof (Z.mod_pos_bound (n + 1) 2 ltac:(lia)) as Md.
  set (mid := (n + 1) / 2) in *.
  assert (Hm : 1 <= mid < n) by lia. assert (Hm' : 1 <= n - mid <= mid) by lia.
  pose proof (Hrec mid Hm) as R1. pose proof (Hrec (n - mid) ltac:(lia)) as R2.
  pose proof (K_mono (n - mid) mid ltac:(lia)) as Km.
  pose proof (clog2_half n Hn) as Ch. fold mid in Ch. rewrite !K_eq in *.
  repeat apply Z.max_lub; lia.
Qed.

Lemma need_same_kara : forall fuel n, 0 <= n <= T_kara -> 0 <= nsame fuel n <= K n.
Proof.
  induction fuel as [|f IH]; intros n Hn; cbn [need_same].
  - rewrite K_eq. pose proof (clog2_nonneg n). lia.
  - destruct (Z.leb_spec n T_simple) as [H1|H1]; [rewrite K_eq; pose proof (clog2_nonneg n); lia|].
    destruct (Z.leb_spec n T_kara) as [H2|H2]; [|lia].
    split.
    + unfold kara_need. cbv zeta.
      pose proof (Z.div_mod (n + 1) 2 ltac:(lia)) as D. pose proof (Z.mod_pos_bound (n + 1) 2 ltac:(lia)) as Md.
      pose proof (IH ((n + 1) / 2) ltac:(lia)). lia.
    + apply kara_need_le; [lia|]. intros m Hm. apply IH. lia.
Qed.

(** ---- one Toom-3 level: if the recursive products need at most 4 m + 20 (k - 3) ... *)
Lemma toom_need_le (rec : Z -> Z) n k : 16 <= n -> n <= 3 ^ k + 2 -> 3 <= k ->
  (forall m, 1 <= m <= (n + 2) / 3 + 1 -> rec m <= 4 * m + 20 * (k - 3)) ->
  toom_need rec n <= 4 * n + 20 * (k - 2).
Proof.
  intros Hn Hk Hk3 Hrec. unfold toom_need. cbv zeta.
  pose proof (Z.div_mod (n + 2) 3 ltac:(lia)) as D. pose proof (Z.mod_pos_bound (n + 2) 3 ltac:(lia)) as Md.
  set (n3 := (n + 2) / 3) in *.
  pose proof (Hrec (n3 + 1) ltac:(lia)) as R1. pose proof (Hrec n3 ltac:(lia)) as R0.
  pose proof (Hrec (n - 2 * n3) ltac:(lia)) as Rs.
  repeat apply Z.max_lub; lia.
Qed.

Lemma third_le_pow n k : 16 <= n -> n <= 3 ^ k + 2 -> 3 <= k /\ (n + 2) / 3 + 1 <= 3 ^ (k - 1) + 2.
Proof.
  intros Hn Hk.
  assert (Hk3 : 3 <= k).
  { destruct (Z.le_gt_cases 3 k) as [G|G]; [exact G|exfalso].
    destruct (Z.le_gt_cases 0 k) as [G0|G0].
    - assert (3 ^ k <= 3 ^ 2) by (apply Z.pow_le_mono_r; lia). change (3 ^ 2) with 9 in *. lia.
    - rewrite Z.pow_neg_r in Hk by lia. lia. }
  split; [exact Hk3|].
  assert (E : 3 ^ k = 3 * 3 ^ (k - 1)).
  { replace k with (Z.succ (k - 1)) at 1 by lia. rewrite Z.pow_succ_r by lia. reflexivity. }
  pose proof (Z.div_mod (n + 2) 3 ltac:(lia)) as D. pose proof (Z.mod_pos_bound (n + 2) 3 ltac:(lia)) as Md. lia.
Qed.

(** f(n) <= 4 n + 20 (k - 2) whenever n <= 3^k + 2 *)
Lemma need_same_toom : forall fuel k n, 2 <= k -> 1 <= n <= 3 ^ k + 2 -> nsame fuel n <= 4 * n + 20 * (k - 2).
Proof.
  induction fuel as [|f IH]; intros k n Hk Hn; cbn [need_same]; [lia|].
  destruct (Z.leb_spec n T_simple) as [H1|H1]; [lia|].
  destruct (Z.leb_spec n T_kara) as [H2|H2].
  - assert (kara_need (nsame f) n <= K n).
    { apply kara_need_le; [lia|]. intros m Hm. apply need_same_kara. lia. }
    rewrite K_eq in H. pose proof (clog2_le_self n ltac:(lia)). lia.
  - destruct (third_le_pow n k ltac:(lia) ltac:(lia)) as (Hk3 & Hthird).
    apply toom_need_le; try lia.
    intros m Hm. replace (k - 3) with ((k - 1) - 2) by lia. apply IH; lia.
Qed.

(** there is a k with n <= 3^k + 2 and 20 (k - 2) <= 13 ceil_log2 n *)
Lemma log3_witness n : 1 <= n -> exists k, 2 <= k /\ n <= 3 ^ k + 2 /\ 20 * (k - 2) <= 13 * ceil_log2 n.
Proof.
  intros Hn. pose proof (clog2_nonneg n) as Hc. exists (13 * ceil_log2 n / 20 + 2).
  pose proof (Z.div_mod (13 * ceil_log2 n) 20 ltac:(lia)) as D. pose proof (Z.mod_pos_bound (13 * ceil_log2 n) 20 ltac:(lia)) as Md.
  split; [lia|]. split; [|lia].
  pose proof (pow2_le_pow3 (ceil_log2 n) Hc). pose proof (clog2_spec n Hn). lia.
Qed.

Lemma need_same_toom_formula fuel n : 1 <= n -> nsame fuel n <= TM n.
Proof.
  intros Hn. destruct (log3_witness n Hn) as (k & Hk & Hp & Hl).
  pose proof (need_same_toom fuel k n Hk ltac:(lia)). rewrite TM_eq. lia.
Qed.

(** ---- mul::add_signed_mul_same_len never needs more than memory_requirement_up_to *)
Theorem need_same_le fuel n : 0 <= n -> 0 <= nsame fuel n <= M n.
Proof.
  intros Hn. unfold alloc_up_to.
  destruct (Z.leb_spec n T_simple) as [H1|H1].
  - destruct fuel; cbn [need_same]; [lia|]. destruct (Z.leb_spec n T_simple); lia.
  - destruct (Z.leb_spec n T_kara) as [H2|H2]; [apply need_same_kara; lia|].
    split; [|apply need_same_toom_formula; lia].
    destruct fuel; cbn [need_same]; [lia|].
    destruct (Z.leb_spec n T_simple); [lia|]. destruct (Z.leb_spec n T_kara); [lia|].
    unfold toom_need. cbv zeta.
    pose proof (Z.div_mod (n + 2) 3 ltac:(lia)) as D. pose proof (Z.mod_pos_bound (n + 2) 3 ltac:(lia)) as Md.
    assert (0 <= nsame fuel ((n + 2) / 3)).
    { destruct (Z.leb_spec ((n + 2) / 3) T_kara); [apply need_same_kara; lia|].
      clear - T_simple_ok T_kara_ok. generalize ((n + 2) / 3). induction fuel; intros z; cbn [need_same]; [lia|].
      destruct (Z.leb_spec z T_simple); [lia|]. destruct (Z.leb_spec z T_kara).
      - unfold kara_need. cbv zeta. pose proof (IHfuel ((z + 1) / 2)).
        pose proof (Z.div_mod (z + 1) 2 ltac:(lia)). pose proof (Z.mod_pos_bound (z + 1) 2 ltac:(lia)). lia.
      - unfold toom_need. cbv zeta. pose proof (IHfuel ((z + 2) / 3)).
        pose proof (Z.div_mod (z + 2) 3 ltac:(lia)). pose proof (Z.mod_pos_bound (z + 2) 3 ltac:(lia)). lia. }
    lia.
Qed.

(** the formula is monotone: memory for "up to" n words serves every shorter operand *)
Lemma M_mono a b : 0 <= a <= b -> M a <= M b.
Proof.
  intros H. unfold alloc_up_to.
  pose proof (clog2_mono a b ltac:(lia)) as Cm. pose proof (clog2_nonneg a). pose proof (clog2_nonneg b).
  destruct (Z.leb_spec a T_simple), (Z.leb_spec b T_simple), (Z.leb_spec a T_kara), (Z.leb_spec b T_kara);
    repeat rewrite K_eq; repeat rewrite TM_eq; lia.
Qed.

Lemma M_nonneg a : 0 <= a -> 0 <= M a.
Proof.
  intros H. unfold alloc_up_to. pose proof (clog2_nonneg a).
  destruct (Z.leb_spec a T_simple), (Z.leb_spec a T_kara); repeat rewrite K_eq; repeat rewrite TM_eq; lia.
Qed.

(** the multipliers' own same-length entry points (the chunk function of helpers::..split_into_chunks) *)
Lemma kara_step_le lb : T_simple < lb <= T_kara -> kara_need (nsame (Z.to_nat lb)) lb <= M lb.
Proof.
  intros H. unfold alloc_up_to. destruct (Z.leb_spec lb T_simple); [lia|]. destruct (Z.leb_spec lb T_kara); [|lia].
  apply kara_need_le; [lia|]. intros m Hm. apply need_same_kara. lia.
Qed.

Lemma toom_step_le lb : T_simple < lb -> T_kara < lb -> toom_need (nsame (Z.to_nat lb)) lb <= M lb.
Proof.
  intros H0 H. unfold alloc_up_to. destruct (Z.leb_spec lb T_simple); [lia|]. destruct (Z.leb_spec lb T_kara); [lia|].
  destruct (log3_witness lb ltac:(lia)) as (k & Hk & Hp & Hl).
  destruct (third_le_pow lb k ltac:(lia) Hp) as (Hk3 & Hthird).
  pose proof (toom_need_le (nsame (Z.to_nat lb)) lb k ltac:(lia) Hp Hk3) as T.
  rewrite TM_eq. assert (toom_need (nsame (Z.to_nat lb)) lb <= 4 * lb + 20 * (k - 2)); [|lia].
  apply T. intros m Hm. replace (k - 3) with ((k - 1) - 2) by lia. apply need_same_toom; lia.
Qed.

(** ---- mul::add_signed_mul (any two lengths) never needs more than memory_requirement_exact(_, min) *)
Theorem need_gen_le : forall fuel la lb, 0 <= la -> 0 <= lb -> 0 <= ngen fuel la lb <= M (Z.min la lb).
Proof.
  induction fuel as [|f IH]; intros la lb Ha Hb; cbn [need_gen].
  - pose proof (M_nonneg (Z.min la lb) ltac:(lia)). lia.
  - assert (Tail : forall r l, 0 <= r -> 0 <= l -> 0 <= tail_need (ngen f) r l <= M (Z.min r l)).
    { intros r l Hr Hl. unfold tail_need. destruct (Z.leb_spec l r); [apply IH; lia|].
      destruct (Z.ltb_spec 0 r); [rewrite Z.min_comm; apply IH; lia|]. pose proof (M_nonneg (Z.min r l) ltac:(lia)). lia. }
    assert (Ord : forall a b, 0 <= b <= a ->
      0 <= (if b <=? T_simple then if a <=? CHUNK then 0 else tail_need (ngen f) (a mod CHUNK) b
            else if b <=? T_kara then Z.max (kara_need (nsame (Z.to_nat b)) b) (tail_need (ngen f) (a mod b) b)
            else Z.max (toom_need (nsame (Z.to_nat b)) b) (tail_need (ngen f) (a mod b) b)) <= M b).
    { intros a b Hab. pose proof (M_nonneg b ltac:(lia)) as Mb.
      destruct (Z.leb_spec b T_simple) as [H1|H1].
      - destruct (Z.leb_spec a CHUNK); [lia|].
        pose proof (Z.mod_pos_bound a CHUNK ltac:(lia)).
        pose proof (Tail (a mod CHUNK) b ltac:(lia) ltac:(lia)) as T.
        pose proof (M_mono (Z.min (a mod CHUNK) b) b ltac:(lia)). lia.
      - pose proof (Z.mod_pos_bound a b ltac:(lia)).
        pose proof (Tail (a mod b) b ltac:(lia) ltac:(lia)) as T.
        pose proof (M_mono (Z.min (a mod b) b) b ltac:(lia)).
        destruct (Z.leb_spec b T_kara) as [H2|H2].
        + pose proof (kara_step_le b ltac:(lia)). split; [apply Z.max_le_iff; right; lia | apply Z.max_lub; lia].
        + pose proof (toom_step_le b ltac:(lia) ltac:(lia)). split; [apply Z.max_le_iff; right; lia | apply Z.max_lub; lia]. }
    destruct (Z.ltb_spec la lb) as [Hlt|Hge].
    + rewrite Z.min_l by lia. apply Ord. lia.
    + rewrite Z.min_r by lia. apply Ord. lia.
Qed.

(** ---- the fuel passed by the definitions suffices: more fuel changes nothing *)
Lemma need_same_fuel : forall f1 f2 n, n < Z.of_nat f1 -> n < Z.of_nat f2 -> nsame f1 n = nsame f2 n.
Proof.
  induction f1 as [|f1 IH]; intros f2 n H1 H2.
  - destruct f2; cbn [need_same]; [reflexivity|]. destruct (Z.leb_spec n T_simple); [reflexivity|lia].
  - destruct f2 as [|f2]; cbn [need_same].
    + destruct (Z.leb_spec n T_simple); [reflexivity|lia].
    + destruct (Z.leb_spec n T_simple) as [|Hs]; [reflexivity|].
      destruct (Z.leb_spec n T_kara) as [|Hk].
      * unfold kara_need. cbv zeta.
        pose proof (Z.div_mod (n + 1) 2 ltac:(lia)). pose proof (Z.mod_pos_bound (n + 1) 2 ltac:(lia)).
        rewrite (IH f2 ((n + 1) / 2)) by lia. rewrite (IH f2 (n - (n + 1) / 2)) by lia. reflexivity.
      * unfold toom_need. cbv zeta.
        pose proof (Z.div_mod (n + 2) 3 ltac:(lia)). pose proof (Z.mod_pos_bound (n + 2) 3 ltac:(lia)).
        rewrite (IH f2 ((n + 2) / 3 + 1)) by lia. rewrite (IH f2 ((n + 2) / 3)) by lia.
        rewrite (IH f2 (n - 2 * ((n + 2) / 3))) by lia. reflexivity.
Qed.

Theorem mul_same_need_le n : 0 <= n -> 0 <= mul_same_need T_simple T_kara n <= M n.
Proof. intros H. unfold mul_same_need. apply need_same_le; exact H. Qed.

Theorem mul_need_le la lb : 0 <= la -> 0 <= lb -> 0 <= mul_need T_simple T_kara CHUNK la lb <= M (Z.min la lb).
Proof. intros Ha Hb. unfold mul_need. apply need_gen_le; auto. Qed.

End ScratchProofs.

(** ------------------------------------------------------------------ with the source's thresholds and formulas *)
Lemma alloc_up_to_source total n : mul_memory_words_up_to total n = alloc_up_to mul_threshold_simple mul_threshold_karatsuba n.
Proof. reflexivity. Qed.

Lemma source_scratch_thresholds : 1 <= mul_threshold_simple /\ 15 <= mul_threshold_karatsuba /\ 1 <= mul_simple_chunk_len.
Proof. unfold mul_threshold_simple, mul_threshold_karatsuba, mul_simple_chunk_len. lia. Qed.
Lemma source_thresholds_ordered : mul_threshold_simple <= mul_threshold_karatsuba.
Proof. unfold mul_threshold_simple, mul_threshold_karatsuba. lia. Qed.

(** mul_ops.rs mul_large: MemoryAllocation::new(mul::memory_requirement_exact(res_len, min(la, lb))) suffices *)
Theorem mul_scratch_sufficient la lb : 0 <= la -> 0 <= lb ->
  0 <= mul_need mul_threshold_simple mul_threshold_karatsuba mul_simple_chunk_len la lb
    <= mul_memory_words_exact (la + lb) (Z.min la lb).
Proof.
  intros Ha Hb. destruct source_scratch_thresholds as (A1 & A2 & A3).
  unfold mul_memory_words_exact. rewrite alloc_up_to_source. apply mul_need_le; auto.
Qed.

(** mul_ops.rs square_large / pow.rs: MemoryAllocation::new(sqr::memory_requirement_exact(len)) suffices *)
Theorem sqr_scratch_sufficient n : 0 <= n ->
  0 <= sqr_need mul_threshold_simple mul_threshold_karatsuba sqr_max_len_simple n <= sqr_memory_words n.
Proof.
  intros Hn. destruct source_scratch_thresholds as (A1 & A2 & A3).
  unfold sqr_need, sqr_memory_words. destruct (Z.leb_spec n sqr_max_len_simple); [lia|].
  rewrite alloc_up_to_source. apply mul_same_need_le; auto.
Qed.

(** sqr::memory_requirement_exact is monotone (pow.rs reserves it for exp / 2 + 1 words and squares shorter buffers) *)
Theorem sqr_memory_words_mono a b : 0 <= a <= b -> sqr_memory_words a <= sqr_memory_words b.
Proof.
  intros H. destruct source_scratch_thresholds as (A1 & A2 & A3). unfold sqr_memory_words.
  pose proof (M_mono mul_threshold_simple mul_threshold_karatsuba A1 A2 a b H) as Mm.
  pose proof (M_nonneg mul_threshold_simple mul_threshold_karatsuba A1 A2 b ltac:(lia)) as Mb.
  rewrite !alloc_up_to_source.
  destruct (Z.leb_spec a sqr_max_len_simple), (Z.leb_spec b sqr_max_len_simple); lia.
Qed.

(** the kernels as verif_hooks::mul_kernel allocates for them (which = 0 dispatch, 1 schoolbook, 2 Karatsuba,
    3 Toom-3; la >= lb and lb in the kernel's size class, as mul::add_signed_mul guarantees) *)
Theorem kernel_scratch_sufficient which la lb : 0 <= lb <= la ->
  (which = 1 -> lb <= mul_threshold_simple) ->
  (which = 2 -> mul_threshold_simple < lb <= mul_threshold_karatsuba) -> (which = 3 -> mul_threshold_karatsuba < lb) ->
  0 <= which <= 3 ->
  kernel_need which la lb <= kernel_alloc which la lb.
Proof.
  intros Hl H1 H2 H3 Hw. destruct source_scratch_thresholds as (A1 & A2 & A3).
  unfold kernel_need, kernel_alloc. cbv zeta.
  pose proof (need_gen_le _ _ _ A1 A2 A3 (S (Z.to_nat (la + lb)))) as G.
  set (gen := need_gen mul_threshold_simple mul_threshold_karatsuba mul_simple_chunk_len (S (Z.to_nat (la + lb)))) in *.
  assert (Tail : forall r, 0 <= r -> tail_need gen r lb <= alloc_up_to mul_threshold_simple mul_threshold_karatsuba (Z.min r lb)).
  { intros r Hr. unfold tail_need. destruct (Z.leb_spec lb r); [apply G; lia|].
    destruct (Z.ltb_spec 0 r); [rewrite Z.min_comm; apply G; lia|]. apply M_nonneg; lia. }
  assert (Mono : forall r, 0 <= r -> alloc_up_to mul_threshold_simple mul_threshold_karatsuba (Z.min r lb)
                                      <= alloc_up_to mul_threshold_simple mul_threshold_karatsuba lb).
  { intros r Hr. apply M_mono; lia. }
  destruct (Z.eqb_spec which 0) as [->|N0]; [apply mul_scratch_sufficient; lia|].
  destruct (Z.eqb_spec which 1) as [->|N1].
  { destruct (Z.leb_spec la mul_simple_chunk_len); [lia|].
    pose proof (Z.mod_pos_bound la mul_simple_chunk_len ltac:(lia)).
    pose proof (Tail (la mod mul_simple_chunk_len) ltac:(lia)) as T. pose proof (Mono (la mod mul_simple_chunk_len) ltac:(lia)) as Mo.
    specialize (H1 eq_refl). unfold alloc_up_to in Mo at 2. destruct (Z.leb_spec lb mul_threshold_simple); lia. }
  destruct (Z.eqb_spec which 2) as [->|N2].
  { specialize (H2 eq_refl). pose proof (Z.mod_pos_bound la lb ltac:(lia)).
    pose proof (Tail (la mod lb) ltac:(lia)) as T. pose proof (Mono (la mod lb) ltac:(lia)) as Mo.
    pose proof (kara_step_le _ _ A1 A2 lb H2) as Ks.
    unfold alloc_up_to in Mo at 2, Ks. destruct (Z.leb_spec lb mul_threshold_simple); [lia|].
    destruct (Z.leb_spec lb mul_threshold_karatsuba); [|lia]. apply Z.max_lub; lia. }
  assert (which = 3) by lia. subst which. specialize (H3 eq_refl). pose proof (Z.mod_pos_bound la lb ltac:(lia)).
  pose proof (Tail (la mod lb) ltac:(lia)) as T. pose proof (Mono (la mod lb) ltac:(lia)) as Mo.
  pose proof source_thresholds_ordered as Ord. pose proof (toom_step_le _ _ A1 A2 lb ltac:(lia) H3) as Ks.
  unfold alloc_up_to in Mo at 2, Ks. destruct (Z.leb_spec lb mul_threshold_simple); [lia|].
  destruct (Z.leb_spec lb mul_threshold_karatsuba); [lia|]. apply Z.max_lub; lia.
Qed.

(** non-vacuity / sanity: the consumption at the thresholds of the source, and the margin of the formulas *)
Example scratch_examples :
  mul_same_need 24 192 24 = 0 /\ mul_same_need 24 192 25 = 26 /\ mul_memory_words_up_to 50 25 = 60 /\
  mul_same_need 24 192 192 = 336 /\ mul_memory_words_up_to 384 192 = 400 /\
  mul_same_need 24 192 193 = 8 * 66 + mul_same_need 24 192 66 /\ mul_same_need 24 192 193 = 628 /\ mul_memory_words_up_to 386 193 = 876 /\
  mul_need 24 192 1024 1000 193 = mul_same_need 24 192 193 /\
  mul_same_need 24 192 20000 = 79870 /\ mul_memory_words_up_to 40000 20000 = 80195 /\
  sqr_need 24 192 30 30 = 0 /\ sqr_need 24 192 30 31 = 32.
Proof. vm_compute. repeat split; reflexivity. Qed.
