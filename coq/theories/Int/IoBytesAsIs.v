(** C07: convert.rs TypedReprRef::to_le_bytes and to_signed_le_bytes (after the repair of F01) produce
    exactly the specification encodings on all their paths: double word (slice of the fixed array),
    word buffer (whole words then the used bytes of the top word), negative values (two's complement
    of the double word; flipped words of magnitude-1, length taken from the magnitude), and the extra
    sign byte.  Any word size that is a whole number of bytes, every integer. *)
From Dashu Require Import Base.Prelude Base.Words Int.IoSpec Int.IoModel Int.IoDigits Int.IoBytes Int.IoRadix Int.IoPow2 Int.IoChunks.
Open Scope Z_scope.

(* ---------------------------------------------------------------- bytes are determined by length and value *)
Lemma le_bytes_mod k x : le_bytes_n k (x mod 256 ^ Z.of_nat k) = le_bytes_n k x.
Proof.
  pose proof (le_bytes_of_value (le_bytes_n k x) (le_bytes_n_ok k x)) as H.
  rewrite le_bytes_n_length, le_bytes_n_value in H. exact H.
Qed.

Lemma bytes_determined bs k X : bytes_ok bs -> length bs = k -> le_value bs = X mod 256 ^ Z.of_nat k -> bs = le_bytes_n k X.
Proof.
  intros Hok Hl Hv. transitivity (le_bytes_n (length bs) (le_value bs)); [symmetry; apply le_bytes_of_value; exact Hok|].
  rewrite Hl, Hv. apply le_bytes_mod.
Qed.

Lemma le_bytes_congr k x y : x mod 256 ^ Z.of_nat k = y mod 256 ^ Z.of_nat k -> le_bytes_n k x = le_bytes_n k y.
Proof. intros H. rewrite <- (le_bytes_mod k x), <- (le_bytes_mod k y), H. reflexivity. Qed.

Lemma firstn_le_bytes k : forall N x, (k <= N)%nat -> firstn k (le_bytes_n N x) = le_bytes_n k x.
Proof.
  induction k as [|k IH]; intros N x H; [reflexivity|]. destruct N as [|N]; [lia|].
  cbn [le_bytes_n firstn]. rewrite IH by lia. reflexivity.
Qed.

Lemma le_bytes_snoc k : forall x, le_bytes_n (S k) x = le_bytes_n k x ++ [(x / 256 ^ Z.of_nat k) mod 256].
Proof.
  induction k as [|k IH]; intros x.
  - cbn [le_bytes_n app Z.of_nat]. rewrite Z.pow_0_r, Z.div_1_r. reflexivity.
  - change (le_bytes_n (S (S k)) x) with (x mod 256 :: le_bytes_n (S k) (x / 256)). rewrite IH.
    change (le_bytes_n (S k) x) with (x mod 256 :: le_bytes_n k (x / 256)). cbn [app]. f_equal. f_equal. f_equal.
    rewrite Z.div_div by (try apply Z.pow_pos_nonneg; lia). rewrite Nat2Z.inj_succ, Z.pow_succ_r by lia. reflexivity.
Qed.

Lemma bytes_ok_app a b : bytes_ok a -> bytes_ok b -> bytes_ok (a ++ b).
Proof. intros. apply Forall_app. split; assumption. Qed.

Lemma blen_unique x b : 0 < x -> 2 ^ (b - 1) <= x < 2 ^ b -> blen x = b.
Proof.
  intros Hx H. unfold blen. destruct (Z.leb_spec x 0); [lia|].
  assert (0 <= b - 1).
  { destruct (Z.le_gt_cases 0 (b - 1)) as [?|Hn]; [assumption|exfalso].
    assert (b <= 0) by lia. assert (2 ^ b <= 2 ^ 0) by (destruct (Z.eq_dec b 0) as [->|]; [lia|rewrite Z.pow_neg_r by lia; cbn; lia]).
    cbn in *. lia. }
  rewrite (Z.log2_unique x (b - 1)); [lia | lia|]. replace (Z.succ (b - 1)) with b by lia. exact H.
Qed.

Lemma blen_le x k : 0 <= k -> 0 <= x < 2 ^ k -> blen x <= k.
Proof.
  intros Hk Hx. destruct (Z.eq_dec x 0) as [->|]; [unfold blen; cbn; lia|].
  pose proof (blen_spec x ltac:(lia)) as [Hlo _]. pose proof (blen_pos x ltac:(lia)).
  destruct (Z.le_gt_cases (blen x) k) as [?|Hgt]; [assumption|exfalso].
  assert (2 ^ k <= 2 ^ (blen x - 1)) by (apply Z.pow_le_mono_r; lia). lia.
Qed.

Lemma blen_split m s : 0 <= s -> 0 < m / 2 ^ s -> blen m = s + blen (m / 2 ^ s).
Proof.
  intros Hs Ht. pose proof (pow2_pos s Hs) as Ps. set (t := m / 2 ^ s) in *.
  pose proof (blen_spec t Ht) as [Hlo Hhi]. pose proof (blen_pos t Ht) as Hb.
  pose proof (Z.div_mod m (2 ^ s) ltac:(lia)) as D. pose proof (Z.mod_pos_bound m (2 ^ s) Ps) as M. fold t in D.
  apply blen_unique; [nia|].
  replace (s + blen t - 1) with (s + (blen t - 1)) by lia. rewrite !Z.pow_add_r by lia. nia.
Qed.

(* ------------------------------------------------------------------------------------------ *)
Section BytesAsIs.
Variable w : Z.
Hypothesis w_pos : 0 < w.
Hypothesis w8 : w mod 8 = 0.

Let W := WBy w.
Lemma W_pos : 0 < W. Proof. unfold W, WBy. pose proof (Z.div_mod w 8 ltac:(lia)). lia. Qed.
Lemma w_is : w = 8 * W. Proof. unfold W, WBy. pose proof (Z.div_mod w 8 ltac:(lia)). lia. Qed.
Lemma Bw_256 : Bw w = 256 ^ W.
Proof. unfold Bw. rewrite w_is at 1. pose proof W_pos. rewrite pow256 by lia. reflexivity. Qed.

Let Wn := Z.to_nat W.

Lemma flat_bytes_length (g : Z -> Z) ws : length (flat_map (fun x => le_bytes_n Wn (g x)) ws) = (Wn * length ws)%nat.
Proof. induction ws as [|x t IH]; cbn [flat_map length]; [lia|]. rewrite app_length, le_bytes_n_length, IH. lia. Qed.

Lemma flat_bytes_ok (g : Z -> Z) ws : bytes_ok (flat_map (fun x => le_bytes_n Wn (g x)) ws).
Proof. induction ws as [|x t IH]; cbn [flat_map]; [constructor|]. apply bytes_ok_app; [apply le_bytes_n_ok | exact IH]. Qed.

Lemma flat_bytes_value (g : Z -> Z) ws : Forall (fun x => 0 <= g x < Bw w) ws ->
  le_value (flat_map (fun x => le_bytes_n Wn (g x)) ws) = value w (map g ws).
Proof.
  pose proof W_pos as HW. induction ws as [|x t IH]; intros H; cbn [flat_map map value]; [reflexivity|].
  inversion H as [|? ? Hx Ht]; subst. rewrite le_value_app, le_bytes_n_value, IH by exact Ht.
  unfold len. rewrite le_bytes_n_length. unfold Wn. rewrite Z2Nat.id by lia. rewrite <- Bw_256.
  rewrite Z.mod_small by exact Hx. reflexivity.
Qed.

Lemma value_flip ws : wf w ws -> value w (map (fun x => Bw w - 1 - x) ws) = Bw w ^ len ws - 1 - value w ws.
Proof.
  induction ws as [|x t IH]; intros H; cbn [map value].
  - unfold len. cbn. lia.
  - apply wf_cons in H. destruct H as [Hx Ht]. rewrite IH by exact Ht.
    rewrite len_cons, Z.pow_add_r, Z.pow_1_r by (try apply len_nonneg; lia). unfold Bw, B. ring.
Qed.

(** number of bytes of the top word that are used *)
Lemma top_bytes t : 0 < t < Bw w -> let j := W - (w - blen t) / 8 in
  0 < j <= W /\ j = byte_len t /\ t < 256 ^ j.
Proof.
  intros Ht j. pose proof W_pos as HW. pose proof w_is as Ew.
  assert (Hb : 0 < blen t <= w).
  { split; [apply blen_pos; lia | apply blen_le; [lia | unfold Bw in Ht; lia]]. }
  pose proof (Z.div_mod (w - blen t) 8 ltac:(lia)) as D. pose proof (Z.mod_pos_bound (w - blen t) 8 ltac:(lia)) as M.
  pose proof (Z.div_mod (blen t + 7) 8 ltac:(lia)) as D2. pose proof (Z.mod_pos_bound (blen t + 7) 8 ltac:(lia)) as M2.
  assert (Ej : j = byte_len t) by (unfold j, byte_len; lia).
  split; [unfold j; lia|]. split; [exact Ej|]. rewrite Ej. apply byte_len_covers. lia.
Qed.

Lemma to_words_snoc' k : forall x, to_words w (S k) x = to_words w k x ++ [(x / 2 ^ (w * Z.of_nat k)) mod 2 ^ w].
Proof.
  induction k as [|k IH]; intros x.
  - cbn [to_words app Z.of_nat]. rewrite Z.mul_0_r, Z.pow_0_r, Z.div_1_r. reflexivity.
  - change (to_words w (S (S k)) x) with (x mod B w :: to_words w (S k) (x / B w)). rewrite IH.
    change (to_words w (S k) x) with (x mod B w :: to_words w k (x / B w)). cbn [app]. f_equal. f_equal.
    replace (x / B w / 2 ^ (w * Z.of_nat k)) with (x / 2 ^ (w * Z.of_nat (S k))); [reflexivity|].
    unfold B. pose proof (pow2_pos w ltac:(lia)). pose proof (pow2_pos (w * Z.of_nat k) ltac:(nia)).
    rewrite Z.div_div by lia. rewrite <- Z.pow_add_r by nia. f_equal. f_equal. lia.
Qed.

(** the decomposition of a large magnitude into low words and a non-zero top word *)
Lemma large_shape m : 0 < m -> exists k, nwords w m = S k /\
  let top := m / 2 ^ (w * Z.of_nat k) in
  0 < top < Bw w /\ blen m = w * Z.of_nat k + blen top /\
  to_words w (S k) m = to_words w k m ++ [top].
Proof.
  intros Hm. pose proof (blen_spec m Hm) as [Hlo Hhi]. pose proof (blen_pos m Hm) as Hb.
  pose proof (Z.div_mod (blen m + w - 1) w ltac:(lia)) as D. pose proof (Z.mod_pos_bound (blen m + w - 1) w ltac:(lia)) as M.
  unfold nwords, wlen. set (n := (blen m + w - 1) / w) in *. assert (Hn : 1 <= n) by nia.
  exists (Z.to_nat (n - 1)). split; [lia|]. rewrite Z2Nat.id by lia. cbn zeta.
  set (s := w * (n - 1)). assert (Hs : 0 <= s < blen m) by (unfold s; nia).
  pose proof (pow2_pos s ltac:(lia)) as Ps.
  assert (Htop : 0 < m / 2 ^ s < Bw w).
  { split.
    - apply Z.div_str_pos. split; [lia|]. apply Z.le_trans with (2 ^ (blen m - 1)); [apply Z.pow_le_mono_r; lia | lia].
    - apply Z.div_lt_upper_bound; [lia|]. unfold Bw. rewrite <- Z.pow_add_r by lia.
      apply Z.lt_le_trans with (2 ^ blen m); [lia|]. apply Z.pow_le_mono_r; [lia|]. unfold s. nia. }
  split; [exact Htop|]. split; [apply blen_split; lia|].
  rewrite to_words_snoc'. rewrite Z2Nat.id by lia. fold s.
  f_equal. f_equal. apply Z.mod_small. unfold Bw in Htop. lia.
Qed.

Lemma small_len m : 0 <= m < Bw w * Bw w -> Z.to_nat (2 * W - (2 * w - blen m) / 8) = Z.to_nat (byte_len m) /\ byte_len m <= 2 * W.
Proof.
  intros Hm. pose proof W_pos as HW. pose proof w_is as Ew.
  assert (Hb : 0 <= blen m <= 2 * w).
  { split; [apply blen_nonneg|]. apply blen_le; [lia|]. unfold Bw in Hm. rewrite <- Z.pow_add_r in Hm by lia.
    replace (w + w) with (2 * w) in Hm by lia. exact Hm. }
  pose proof (Z.div_mod (2 * w - blen m) 8 ltac:(lia)) as D. pose proof (Z.mod_pos_bound (2 * w - blen m) 8 ltac:(lia)) as M.
  pose proof (Z.div_mod (blen m + 7) 8 ltac:(lia)) as D2. pose proof (Z.mod_pos_bound (blen m + 7) 8 ltac:(lia)) as M2.
  unfold byte_len. split; [f_equal|]; lia.
Qed.

(** TypedReprRef::to_le_bytes *)
Theorem to_le_bytes_asis_correct m : 0 <= m -> to_le_bytes_asis w m = to_le_bytes_spec m.
Proof.
  intros Hm. unfold to_le_bytes_asis, to_le_bytes_spec. fold W. pose proof W_pos as HW.
  destruct (Z.ltb_spec m (Bw w * Bw w)) as [Hs|Hl].
  - destruct (small_len m ltac:(lia)) as [E Hle]. rewrite E. apply firstn_le_bytes. lia.
  - assert (Hpos : 0 < m) by (pose proof (pow2_pos w ltac:(lia)); unfold Bw in Hl; nia).
    destruct (large_shape m Hpos) as (k & Ek & Htop & Hbl & Ews). cbn zeta in *.
    set (top := m / 2 ^ (w * Z.of_nat k)) in *. rewrite Ek, Ews.
    unfold words_to_le_bytes. rewrite removelast_last, last_last. fold W Wn.
    destruct (top_bytes top Htop) as (Hj & Ej & Hlt). unfold lzw. set (j := W - (w - blen top) / 8) in *.
    rewrite firstn_le_bytes by (unfold Wn; lia).
    apply bytes_determined.
    + apply bytes_ok_app; [apply (flat_bytes_ok (fun x => x)) | apply le_bytes_n_ok].
    + rewrite app_length, (flat_bytes_length (fun x => x)), le_bytes_n_length, to_words_length.
      (* W*k + j = byte_len m *)
      apply Nat2Z.inj. rewrite Nat2Z.inj_add, Nat2Z.inj_mul. unfold Wn. rewrite !Z2Nat.id by (try lia; unfold byte_len; apply Z.div_pos; pose proof (blen_nonneg m); lia).
      rewrite Ej. unfold byte_len. rewrite Hbl. rewrite w_is at 1.
      replace (8 * W * Z.of_nat k + blen top + 7) with (W * Z.of_nat k * 8 + (blen top + 7)) by ring.
      rewrite Z.div_add_l by lia. reflexivity.
    + rewrite le_value_app, (flat_bytes_value (fun x => x)), map_id, le_bytes_n_value.
      2:{ apply to_words_wf. exact w_pos. }
      rewrite to_words_value_mod by exact w_pos.
      unfold len. rewrite (flat_bytes_length (fun x => x)), to_words_length.
      rewrite Z2Nat.id by lia. rewrite (Z.mod_small top) by lia.
      assert (EB : 256 ^ Z.of_nat (Wn * k) = B w ^ Z.of_nat k).
      { rewrite Nat2Z.inj_mul. unfold Wn. rewrite Z2Nat.id by lia. rewrite Z.pow_mul_r by lia. rewrite <- Bw_256. reflexivity. }
      rewrite EB. rewrite Bpow by lia.
      pose proof (byte_len_covers m Hm). rewrite (Z.mod_small m (256 ^ Z.of_nat (Z.to_nat (byte_len m)))).
      2:{ rewrite Z2Nat.id by (unfold byte_len; apply Z.div_pos; pose proof (blen_nonneg m); lia). lia. }
      pose proof (Z.div_mod m (2 ^ (w * Z.of_nat k)) ltac:(pose proof (pow2_pos (w * Z.of_nat k) ltac:(nia)); lia)). fold top in H0. lia.
Qed.

(** negative, word buffer: flipped words of m-1, as many bytes as the magnitude m has *)
Lemma neg_large_main m : Bw w * Bw w <= m ->
  words_to_le_bytes w true (to_words w (nwords w m) (m - 1)) (lzw w (last (to_words w (nwords w m) m) 0) / 8)
  = le_bytes_n (Z.to_nat (byte_len m)) (- m).
Proof.
  intros Hl. pose proof W_pos as HW.
  assert (Hpos : 0 < m) by (pose proof (pow2_pos w ltac:(lia)); unfold Bw in Hl; nia).
  destruct (large_shape m Hpos) as (k & Ek & Htop & Hbl & Ews). cbn zeta in *.
  set (top := m / 2 ^ (w * Z.of_nat k)) in *. rewrite Ek, Ews, last_last.
  rewrite to_words_snoc'. unfold words_to_le_bytes. rewrite removelast_last, last_last. fold W Wn.
  destruct (top_bytes top Htop) as (Hj & Ej & Hlt). unfold lzw. set (j := W - (w - blen top) / 8) in *.
  cbn beta iota.
  pose proof (pow2_pos (w * Z.of_nat k) ltac:(nia)) as Pk. pose proof (pow2_pos w ltac:(lia)) as Pw.
  (* the top word of m-1 *)
  set (t1 := (m - 1) / 2 ^ (w * Z.of_nat k)).
  assert (Ht1 : 0 <= t1 <= top).
  { unfold t1, top. split; [apply Z.div_pos; lia | apply Z.div_le_mono; lia]. }
  rewrite (Z.mod_small t1) by (unfold Bw in Htop; lia).
  rewrite firstn_le_bytes by (unfold Wn; lia).
  assert (HL : Z.of_nat (Wn * k + Z.to_nat j) = byte_len m).
  { rewrite Nat2Z.inj_add, Nat2Z.inj_mul. unfold Wn. rewrite !Z2Nat.id by lia.
    rewrite Ej. unfold byte_len. rewrite Hbl. rewrite w_is at 1.
    replace (8 * W * Z.of_nat k + blen top + 7) with (W * Z.of_nat k * 8 + (blen top + 7)) by ring.
    rewrite Z.div_add_l by lia. reflexivity. }
  assert (HLn : (Wn * k + Z.to_nat j)%nat = Z.to_nat (byte_len m)) by lia.
  apply bytes_determined.
  - apply bytes_ok_app; [apply (flat_bytes_ok (fun x => Bw w - 1 - x)) | apply le_bytes_n_ok].
  - rewrite app_length, (flat_bytes_length (fun x => Bw w - 1 - x)), le_bytes_n_length, to_words_length. exact HLn.
  - rewrite le_value_app, (flat_bytes_value (fun x => Bw w - 1 - x)), le_bytes_n_value.
    2:{ pose proof (to_words_wf w w_pos k (m - 1)) as Hwf. unfold wf in Hwf.
        eapply Forall_impl; [|exact Hwf]. intros a Ha. unfold Bw, B in *. cbn beta in Ha. lia. }
    rewrite value_flip by (apply to_words_wf; exact w_pos).
    rewrite to_words_value_mod by exact w_pos.
    unfold len. rewrite (flat_bytes_length (fun x => Bw w - 1 - x)), !to_words_length.
    assert (EB : 256 ^ Z.of_nat (Wn * k) = 2 ^ (w * Z.of_nat k)).
    { rewrite Nat2Z.inj_mul. unfold Wn. rewrite Z2Nat.id by lia. rewrite Z.pow_mul_r by lia. rewrite <- Bw_256.
      unfold Bw. rewrite <- Z.pow_mul_r by lia. reflexivity. }
    rewrite EB.
    assert (EBk : Bw w ^ Z.of_nat k = 2 ^ (w * Z.of_nat k)) by (unfold Bw; rewrite <- Z.pow_mul_r by lia; reflexivity).
    change (B w) with (Bw w). rewrite !EBk. set (P := 2 ^ (w * Z.of_nat k)) in *.
    rewrite Z2Nat.id by lia.
    pose proof (Z.pow_pos_nonneg 256 j ltac:(lia) ltac:(lia)) as Pj.
    assert (Eflip : (Bw w - 1 - t1) mod 256 ^ j = 256 ^ j - 1 - t1).
    { symmetry. apply Z.mod_unique_pos with (256 ^ (W - j) - 1); [lia|].
      rewrite Bw_256. replace W with (j + (W - j)) at 1 by lia. rewrite Z.pow_add_r by lia. ring. }
    rewrite Eflip.
    pose proof (Z.div_mod (m - 1) P ltac:(lia)) as D1. fold t1 in D1.
    pose proof (Z.mod_pos_bound (m - 1) P Pk) as M1.
    assert (EP : 256 ^ Z.of_nat (Z.to_nat (byte_len m)) = P * 256 ^ j).
    { rewrite <- HLn, Nat2Z.inj_add, Z.pow_add_r, EB by lia. rewrite Z2Nat.id by lia. reflexivity. }
    rewrite EP.
    pose proof (byte_len_covers m ltac:(lia)) as Hc.
    rewrite <- (Z2Nat.id (byte_len m)) in Hc by lia. rewrite EP in Hc.
    apply Z.mod_unique_pos with (-1); nia.
Qed.

(** TypedReprRef::to_signed_le_bytes(negate) as used by IBig::to_le_bytes / to_be_bytes *)
Theorem to_signed_le_bytes_asis_correct v : to_signed_le_bytes_asis w v = to_signed_le_bytes_spec v.
Proof.
  unfold to_signed_le_bytes_asis, to_signed_le_bytes_gen, to_signed_le_bytes_spec. fold W.
  pose proof W_pos as HW. pose proof w_is as Ew. set (m := Z.abs v).
  destruct (Z.eqb_spec m 0) as [Em|Nm]; [destruct (Z.eqb_spec v 0); [reflexivity | unfold m in Em; lia]|].
  destruct (Z.eqb_spec v 0) as [?|Nv]; [unfold m in Nm; lia|].
  assert (Hm : 0 < m) by (unfold m; lia).
  pose proof (blen_pos m Hm) as Hb. pose proof (byte_len_covers m ltac:(lia)) as Hc.
  assert (HL : 1 <= byte_len m) by (unfold byte_len; apply Z.div_le_lower_bound; lia).
  set (L := byte_len m) in *. set (Ln := Z.to_nat L).
  pose proof (Z.pow_pos_nonneg 256 L ltac:(lia) ltac:(lia)) as PL.
  (* A: the main bytes are the low L bytes of v *)
  assert (A : (if v <? 0
               then if m <? Bw w * Bw w
                    then firstn (Z.to_nat (2 * W - (2 * w - blen m) / 8)) (le_bytes_n (Z.to_nat (2 * W)) (Bw w * Bw w - m))
                    else words_to_le_bytes w true (to_words w (nwords w m) (m - 1))
                           (lzw w (last (if true then to_words w (nwords w m) m else to_words w (nwords w m) (m - 1)) 0) / 8)
               else to_le_bytes_asis w m) = le_bytes_n Ln v).
  { destruct (Z.ltb_spec v 0) as [Hneg|Hnn].
    - assert (Ev : v = - m) by (unfold m; lia).
      destruct (Z.ltb_spec m (Bw w * Bw w)) as [Hs|Hl].
      + destruct (small_len m ltac:(lia)) as [E Hle]. rewrite E. fold L Ln. rewrite firstn_le_bytes by (unfold Ln; lia).
        apply le_bytes_congr. unfold Ln. rewrite Z2Nat.id by lia.
        assert (EBB : Bw w * Bw w = 256 ^ (2 * W - L) * 256 ^ L).
        { rewrite Bw_256, <- !Z.pow_add_r by lia. f_equal. lia. }
        rewrite EBB, Ev. replace (256 ^ (2 * W - L) * 256 ^ L - m) with (- m + 256 ^ (2 * W - L) * 256 ^ L) by ring.
        apply Z_mod_plus_full.
      + cbn iota. rewrite neg_large_main by exact Hl. rewrite Ev. reflexivity.
    - rewrite to_le_bytes_asis_correct by lia. unfold to_le_bytes_spec. fold L Ln. f_equal. unfold m. lia. }
  rewrite A. clear A.
  (* B: the sign byte is added exactly when the magnitude fills its top byte *)
  assert (Bz : ((if m <? Bw w * Bw w then 2 * w - blen m else lzw w (last (to_words w (nwords w m) m) 0)) mod 8 =? 0)
              = (blen m mod 8 =? 0)).
  { assert (Hgen : forall z c, z = 8 * c - blen m -> (z mod 8 =? 0) = (blen m mod 8 =? 0)).
    { intros z c ->. replace (8 * c - blen m) with (- blen m + c * 8) by ring. rewrite Z_mod_plus_full.
      pose proof (Z.div_mod (blen m) 8 ltac:(lia)). pose proof (Z.mod_pos_bound (blen m) 8 ltac:(lia)).
      pose proof (Z.div_mod (- blen m) 8 ltac:(lia)). pose proof (Z.mod_pos_bound (- blen m) 8 ltac:(lia)).
      destruct (Z.eqb_spec ((- blen m) mod 8) 0), (Z.eqb_spec (blen m mod 8) 0); try reflexivity; lia. }
    destruct (Z.ltb_spec m (Bw w * Bw w)) as [Hs|Hl].
    - apply (Hgen _ (2 * W)). lia.
    - destruct (large_shape m Hm) as (k & Ek & Htop & Hbl & Ews). cbn zeta in *.
      rewrite Ek, Ews, last_last. unfold lzw. apply (Hgen _ (W + W * Z.of_nat k)). rewrite Hbl. nia. }
  rewrite Bz. clear Bz. unfold signed_byte_len. fold m L.
  destruct (Z.eqb_spec (blen m mod 8) 0) as [E8|N8].
  - replace (Z.to_nat (L + 1)) with (S Ln) by (unfold Ln; lia).
    rewrite <- (le_bytes_mod (S Ln)). replace (Z.of_nat (S Ln)) with (L + 1) by (unfold Ln; lia).
    rewrite Z.mod_mod by (apply Z.pow_nonzero; lia).
    replace (L + 1) with (Z.of_nat (S Ln)) by (unfold Ln; lia). rewrite le_bytes_mod, le_bytes_snoc.
    f_equal. f_equal. unfold Ln. rewrite Z2Nat.id by lia.
    destruct (Z.ltb_spec v 0) as [Hneg|Hnn].
    + assert (Ev : v = - m) by (unfold m; lia).
      replace (v / 256 ^ L) with (-1); [reflexivity|]. apply Z.div_unique_pos with (256 ^ L - m); lia.
    + assert (Ev : v = m) by (unfold m; lia). rewrite Z.div_small by lia. reflexivity.
  - fold Ln. rewrite <- (le_bytes_mod Ln v). unfold Ln. rewrite Z2Nat.id by lia. reflexivity.
Qed.

(** IBig/UBig to_le_bytes followed by from_le_bytes, through the models: the identity *)
Theorem bytes_roundtrip_asis v : from_signed_le_bytes_asis w (to_signed_le_bytes_asis w v) = v.
Proof.
  rewrite to_signed_le_bytes_asis_correct. rewrite from_signed_le_bytes_asis_correct; [apply to_signed_le_bytes_roundtrip | exact w_pos | exact w8|].
  unfold to_signed_le_bytes_spec. destruct (v =? 0); [constructor | apply le_bytes_n_ok].
Qed.

Theorem ubytes_roundtrip_asis m : 0 <= m -> from_le_bytes_asis w (to_le_bytes_asis w m) = m.
Proof. intros Hm. rewrite to_le_bytes_asis_correct, from_le_bytes_asis_correct by assumption. apply to_le_bytes_roundtrip. exact Hm. Qed.

End BytesAsIs.

Example signed_bytes_examples :
  to_signed_le_bytes_asis 64 (- 2 ^ 128) = repeat 0 16 ++ [255] /\ to_signed_le_bytes_asis 64 (-128) = [128; 255] /\
  to_signed_le_bytes_asis 64 128 = [128; 0] /\ to_signed_le_bytes_asis 64 (2 ^ 200 - 1) = repeat 255 25 ++ [0].
Proof. repeat split; vm_compute; reflexivity. Qed.
