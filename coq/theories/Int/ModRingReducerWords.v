(** C13 (round 4) - num_modular::Reducer for ConstDivisor, the two helpers that were value level only, on WORD LISTS for
    the multi-word ring (integer/src/modular/reducer.rs, add_ops.rs; kernels: C01's as-is models in RingAdd.v):
      reduce_once(target)    `if !check(target)`: Small(s) -> target unchanged; Large(s) -> sub_large(s, normalized_divisor)
                             = `if lhs.len() < rhs.len() || add::sub_in_place(lhs, rhs) { panic_negative_ubig() }`
      reduce_negate(target)  Small(s) -> sub_large_dword(normalized_divisor.clone(), s): add::sub_dword_in_place,
                                         debug_assert!(!overflow);
                             Large(s) -> sub_large_ref_val(normalized_divisor, s): length test, sub_same_len_in_place_swap on
                                         the low words, the high words of the divisor pushed, `borrow && sub_one_in_place`.
    A UBig is its value; Large(s) is the canonical word list [words_of]; Repr::from_buffer normalises (the value).
    Definitions only (proofs: ModRingReducerWordsProofs.v). *)
From Dashu Require Import Base.Prelude Base.Words Int.RingAdd Int.DivWordModel Int.ModRingSpec Int.ModRingPowModel Int.ModRingModel
  Int.ModRingInst Int.ModRingWords Int.ModRingConv.
Open Scope Z_scope.

Section ReducerWords.
Variable w : Z.
Local Notation B := (Words.B w).
Local Notation value := (Words.value w).

Definition wl_rd_reduce_once (strict : bool) (R : lring) (r : ring) (t : Z) : result Z :=
  if negb (rd_check_with w strict r t) then
    if t <? B * B then Ok t
    else
      let s := words_of w t in
      if (length s <? length (lr_nd R))%nat then Panic NegativeUBig
      else let '(res, borrow) := sub_in_place w s (lr_nd R) in
           if borrow then Panic NegativeUBig else Ok (value res)
  else Ok t.

Definition wl_rd_reduce_negate (R : lring) (t : Z) : result Z :=
  if t <? B * B then
    let '(res, overflow) := sub_dword_in_place w (lr_nd R) t in
    if overflow then Panic Undocumented else Ok (value res)
  else
    let s := words_of w t in
    let n := length s in
    if (length (lr_nd R) <? n)%nat then Panic NegativeUBig
    else
      let '(lo, borrow) := sub_same_len_in_place_swap w (firstn n (lr_nd R)) s in
      let hi := skipn n (lr_nd R) in
      if borrow then
        let '(hi', b2) := sub_one_in_place w hi in
        if b2 then Panic NegativeUBig else Ok (value (lo ++ hi'))
      else Ok (value (lo ++ hi)).
End ReducerWords.

(** the 64-bit run: Reducer::add / dbl / sub / neg with the two helpers on word lists in the multi-word ring; result:
    the raw (pre-shifted) form *)
Definition h_reduce_once (R : lring) (r : ring) (t : Z) : result Z :=
  match r_kind r with KLarge => wl_rd_reduce_once 64 true R r t | _ => rd_reduce_once_with 64 true r t end.
Definition h_reduce_negate (R : lring) (r : ring) (t : Z) : result Z :=
  match r_kind r with KLarge => wl_rd_reduce_negate 64 R t | _ => rd_reduce_negate r t end.

Definition hrun_rd_lin (o : rdop) (m a b : Z) : result Z :=
  rbind (i_new 0 m) (fun r =>
  rbind (match r_kind r with KLarge => wl_new 64 m | _ => Ok (mklring [] 0) end) (fun R =>
  rbind (i_transform r a) (fun x => rbind (i_transform r b) (fun y =>
  match o with
  | RAdd => h_reduce_once R r (x + y)
  | RDbl => h_reduce_once R r (x * 2)
  | RSub => if y <=? x then Ok (x - y) else h_reduce_negate R r (y - x)
  | RNeg => if x =? 0 then Ok x else h_reduce_negate R r x
  | _ => Panic Undocumented
  end)))).
