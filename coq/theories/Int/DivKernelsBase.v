(** C02 round 4 - the ATOMS of the generated division kernels (coq/gen/DivKernelsGen.v, tools/translate_c02_r4.py).
    Every generated function is a composition of
      - the reciprocal-division primitives of num-modular and mul::add_signed_mul, collected in the record [div_prims]
        (instances: exact arithmetic DivWordInst.v, transcribed barrett.rs DivNumModular.v / C01's multiplication DivSrcInst.v),
      - kernels of OTHER source files (shift.rs, add.rs, mul/mod.rs, cmp.rs, math.rs, primitive.rs) in the form of the hand
        models of Int/DivWordModel.v (names k_*; a Rust `bool` carry is `c <> 0`),
      - core integer methods (leading_zeros, trailing_zeros, is_power_of_two) and slice methods (split_last, last).
    Definitions only. *)
From Dashu Require Import Base.Prelude Base.Words Int.DivWordModel.
From DashuGen Require Import Params.
Open Scope Z_scope.

Record div_prims := {
  p1by1 : Z -> Z -> Z * Z;          (* FastDivideNormalized::div_rem_1by1, the normalised divisor first *)
  p2by1 : Z -> Z -> Z * Z;          (* FastDivideNormalized::div_rem_2by1 *)
  p2by2 : Z -> Z -> Z * Z;          (* FastDivideNormalized2::div_rem_2by2 *)
  p3by2 : Z -> Z -> Z -> Z * Z;     (* FastDivideNormalized2::div_rem_3by2 (lo word, hi dword) *)
  p4by2 : Z -> Z -> Z -> Z * Z;     (* FastDivideNormalized2::div_rem_4by2 (lo dword, hi dword) *)
  pmul_sub : list Z -> list Z -> list Z -> list Z * Z   (* mul::add_signed_mul(c, Negative, a, b) *)
}.

(** <[Word]>::split_last: (last element, the rest) *)
Definition split_last (l : list Z) : option (Z * list Z) :=
  match l with [] => None | _ => Some (last l 0, removelast l) end.
(** primitive::split_hi_word (debug_assert!(len >= 2), unreachable on an empty slice) *)
Definition split_hi_word (l : list Z) : Z * list Z :=
  match split_last l with Some p => p | None => (0, []) end.

(** u64::trailing_zeros / u128::trailing_zeros of a positive value: 2^tz = gcd(x, 2^log2 x) *)
Definition trailing_zeros (x : Z) : Z := Z.log2 (Z.gcd x (2 ^ Z.log2 x)).

(** Ordering::is_ge *)
Definition cmp_is_ge (c : comparison) : bool := match c with Lt => false | _ => true end.

(** math::shr_word(w, shift) = (w >> shift, the bits shifted out in the high bits of a word) *)
Definition shr_word (w x s : Z) : Z * Z := (x / 2 ^ s, (x mod 2 ^ s) * 2 ^ (w - s)).

(** THRESHOLD_SIMPLE as a usize (gen/Params.v) *)
Definition div_threshold_simple_nat : nat := Z.to_nat div_threshold_simple.

(** shift.rs *)
Definition k_shl_in_place (w : Z) (ws : list Z) (s : Z) : list Z * Z := shl_in_place w ws s.
Definition k_shr_in_place (w : Z) (ws : list Z) (s : Z) : list Z * Z := shr_in_place w ws s.
Definition k_shr_one_word (w : Z) (ws : list Z) : list Z * Z := shr_one_word ws.
(** add.rs: the carry / borrow comes back as bool *)
Definition k_add_same_len (w : Z) (ws rhs : list Z) : list Z * bool :=
  let '(r, c) := add_same_len w ws rhs in (r, negb (c =? 0)).
Definition k_sub_same_len (w : Z) (ws rhs : list Z) : list Z * bool :=
  let '(r, c) := sub_same_len w ws rhs in (r, negb (c =? 0)).
Definition k_sub_one (w : Z) (ws : list Z) : list Z * bool :=
  let '(r, c) := sub_one w ws in (r, negb (c =? 0)).
(** mul/mod.rs *)
Definition k_sub_mul_word (w : Z) (ws : list Z) (mult : Z) (rhs : list Z) : list Z * Z := sub_mul_word w ws mult rhs.
Definition k_add_signed_mul (P : div_prims) (w : Z) (c : list Z) (s : sign) (a b : list Z) : list Z * Z :=
  match s with Negative => pmul_sub P c a b | Positive => (c, 0) end.
(** div/divide_conquer.rs::div_rem_in_place: the transcribed recursion of DivWordModel.v (the parts of it that are
    regenerated: dc_small_quotient_tail_gen) *)
Definition k_dc_div_rem (P : div_prims) (w : Z) (lhs rhs : list Z) (d : Z) : list Z * bool :=
  match dc_div_rem w (p3by2 P) (pmul_sub P) div_threshold_simple_nat (fuel_for lhs) lhs rhs with
  | Ok r => r
  | _ => (lhs, false)
  end.

(** the instances *)
Definition prims_of (d1 d2 d22 : Z -> Z -> Z * Z) (d3 d4 : Z -> Z -> Z -> Z * Z) (ms : list Z -> list Z -> list Z -> list Z * Z) : div_prims :=
  {| p1by1 := d1; p2by1 := d2; p2by2 := d22; p3by2 := d3; p4by2 := d4; pmul_sub := ms |}.
