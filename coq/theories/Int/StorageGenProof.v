(** C17 (round 3) - the regenerated fragments of coq/gen/StorageGen.v (tools/translate_c17_r3.py, re-read from
    buffer.rs / repr.rs / add_ops.rs / mul_ops.rs / shift_ops.rs on every run) tied to the hand-written
    storage machine, and the exact capacity arithmetic of Buffer stated over them.  A tie is an equation
    between a definition of StorageModel.v and the same text with the regenerated formula in place
    (reflexivity): an edit of the Rust source changes the generated side and breaks the equation. *)
From Dashu Require Import Base.Prelude Base.Words Int.StorageModel Int.StorageProofs.
From DashuGen Require Import StorageGen.
Open Scope Z_scope.

(* ------------------------------------------------------------------ buffer.rs *)
Lemma tie_default_capacity M n : default_capacity M n = gen_default_capacity M n.
Proof. reflexivity. Qed.
Lemma tie_max_compact_capacity M n : max_compact_capacity M n = gen_max_compact_capacity M n.
Proof. reflexivity. Qed.
Lemma tie_ensure_capacity M b n :
  ensure_capacity M b n = if gen_ensure_capacity_test (bcap b) n then reallocate M b n else ret b.
Proof. reflexivity. Qed.
Lemma tie_shrink_to_fit M b m :
  shrink_to_fit M b m = (max_compact_chk M (len (bws b)) ;;;
                         if gen_shrink_test M (bcap b) (len (bws b)) then reallocate M b (len (bws b)) else ret b) m.
Proof. unfold shrink_to_fit, max_compact_chk, bind, guard, ret. destruct (len (bws b) <=? M); reflexivity. Qed.
Lemma tie_allocate_raw M cap :
  allocate_raw M cap = (guard 1 (gen_allocate_raw_guard M cap) ;;; raw_alloc cap).
Proof. unfold allocate_raw, gen_allocate_raw_guard. rewrite Z.gtb_ltb. reflexivity. Qed.
Lemma tie_reallocate_raw b cap :
  reallocate_raw b cap =
  (guard 2 (gen_reallocate_raw_guard (len (bws b)) cap) ;;; deallocate_raw (bptr b) (bcap b) ;;; p <- raw_alloc cap ;; ret (mkbuf p (bws b) cap)).
Proof. unfold reallocate_raw, gen_reallocate_raw_guard. rewrite Z.gtb_ltb, Z.geb_leb. reflexivity. Qed.
(** Repr::clone / Buffer::clone request len words, Repr::clone_from reallocates outside the reuse window *)
Lemma tie_repr_clone_from M self s ws scap m :
  repr_clone_from M self (VHeap s ws scap) m =
  (let cap := rcap self in let src_len := len ws in
   mc <- max_compact_chk M src_len ;;
   pc <- (if gen_repr_clone_from_realloc M cap src_len
          then repr_drop self ;;; nc <- default_capacity_chk M (gen_repr_clone_from_request src_len) ;; p <- allocate_raw M nc ;; ret (p, nc)
          else match self with RHeap _ b => ret (bptr b, bcap b) | RInline _ _ _ _ => bad 21 end) ;;
   guard 22 (src_len <=? snd pc) ;;; ret (RHeap s (mkbuf (fst pc) ws (snd pc)))) m.
Proof.
  unfold repr_clone_from, gen_repr_clone_from_realloc, gen_repr_clone_from_request, max_compact_chk, bind, guard, ret. cbv zeta.
  destruct (len ws <=? M); reflexivity.
Qed.
Lemma tie_buffer_clone_from M cap src_len :
  gen_buffer_clone_from_reuse M cap src_len = negb (gen_repr_clone_from_realloc M cap src_len).
Proof.
  unfold gen_buffer_clone_from_reuse, gen_repr_clone_from_realloc.
  destruct (Z.geb_spec cap src_len); destruct (Z.leb_spec cap (gen_max_compact_capacity M src_len));
    destruct (Z.ltb_spec cap src_len); destruct (Z.gtb_spec cap (gen_max_compact_capacity M src_len)); try reflexivity; lia.
Qed.
Lemma tie_clone_requests n : gen_buffer_clone_request n = n /\ gen_repr_clone_from_request n = n.
Proof. split; reflexivity. Qed.

(* ------------------------------------------------------------------ requested capacities *)
Lemma tie_add_dword w M a b :
  add_dword w M a b =
  (let r := a + b in
   if r >=? Bw w * Bw w then b0 <- allocate M gen_add_dword_spilled_request ;; b1 <- push b0 (r mod Bw w) ;; b2 <- push b1 ((r / Bw w) mod Bw w) ;; b3 <- push b2 1 ;; from_buffer w M b3
   else ret (from_dword w r)).
Proof. reflexivity. Qed.
Lemma tie_mul_dword w M a b :
  mul_dword w M a b =
  (if (a <? Bw w) && (b <? Bw w) then ret (from_dword w (a * b))
   else let p := a * b in
        b0 <- allocate M gen_mul_dword_spilled_request ;; b1 <- push b0 (p mod Bw w) ;; b2 <- push b1 ((p / Bw w) mod Bw w) ;;
        b3 <- push b2 ((p / Bw w ^ 2) mod Bw w) ;; b4 <- push b3 ((p / Bw w ^ 3) mod Bw w) ;; from_buffer w M b4).
Proof. reflexivity. Qed.
Lemma tie_mul_large w M lhs rhs :
  mul_large w M lhs rhs =
  (let n := gen_mul_large_request (len lhs) (len rhs) in
   guard 13 ((2 <=? len lhs) && (2 <=? len rhs)) ;;;
   b <- allocate M n ;; b1 <- push_repeat b 0 n ;; from_buffer w M (setws b1 (tow w n (val w lhs * val w rhs)))).
Proof. reflexivity. Qed.
Lemma tie_shl_large w M b n :
  shl_large w M b n =
  (let sw := n / w in
   if gen_shl_large_realloc_test (bcap b) (len (bws b)) sw then r <- shl_large_ref w M (bws b) n ;; drop_buffer b ;;; ret r
   else b1 <- push b 0 ;; b2 <- push_zeros_front b1 sw ;; from_buffer w M (setws b2 (tow w (len (bws b2)) (val w (bws b) * 2 ^ n)))).
Proof. reflexivity. Qed.
Lemma tie_shl_large_ref w M ws n :
  shl_large_ref w M ws n =
  (let sw := n / w in
   b <- allocate M (gen_shl_large_ref_request sw (len ws)) ;; b1 <- push_repeat b 0 sw ;; b2 <- push_slice b1 ws ;;
   b3 <- push b2 0 ;; from_buffer w M (setws b3 (tow w (len (bws b3)) (val w ws * 2 ^ n)))).
Proof. reflexivity. Qed.
Lemma tie_shl_spilled_requests idx sw : gen_shl_one_spilled_request idx = idx + 1 /\ gen_shl_dword_spilled_request sw = sw + 3.
Proof. split; reflexivity. Qed.

(* ------------------------------------------------------------------ exact capacity arithmetic over the regenerated formulas *)
(** MAX_CAPACITY words hold at most usize::MAX bits (bit counts never overflow usize), and byte sizes stay
    below isize::MAX whenever a word has at least 16 bits *)
Theorem max_capacity_bits U wb : 0 < wb -> gen_max_capacity U wb * wb <= U.
Proof. intros H. unfold gen_max_capacity. rewrite Z.mul_comm. apply Z.mul_div_le. exact H. Qed.

Theorem max_capacity_bytes U wb : 16 <= wb -> 0 <= U -> gen_max_capacity U wb * (wb / 8) <= U / 2.
Proof.
  intros H HU. unfold gen_max_capacity.
  pose proof (Z.mul_div_le U wb ltac:(lia)). pose proof (Z.mul_div_le wb 8 ltac:(lia)).
  assert (0 <= U / wb) by (apply Z.div_pos; lia).
  assert (2 <= wb / 8) by (apply Z.div_le_lower_bound; lia).
  apply Z.div_le_lower_bound; [lia|].
  assert (8 * (wb / 8) <= wb) by lia.
  assert (2 * (U / wb * (wb / 8)) <= U / wb * wb); [|lia].
  assert (2 * (wb / 8) <= wb) by lia. nia.
Qed.

Lemma max_capacity_instances :
  gen_max_capacity (2 ^ 64 - 1) 64 = 2 ^ 58 - 1 + 1 - 1 /\ 8 <= gen_max_capacity (2 ^ 16 - 1) 16 /\ 8 <= gen_max_capacity (2 ^ 32 - 1) 32 /\ 8 <= gen_max_capacity (2 ^ 64 - 1) 64.
Proof. vm_compute. repeat split; discriminate. Qed.

(** the doc comment of default_capacity: "It should be between num_words and max_compact_capacity(num_words)" *)
Theorem gen_capacity_compact M n : 8 <= M -> 0 <= n <= M ->
  n <= gen_default_capacity M n <= gen_max_compact_capacity M n /\ 2 <= gen_default_capacity M n <= M.
Proof.
  intros HM H. unfold gen_default_capacity, gen_max_compact_capacity.
  assert (n / 8 <= n / 4) by (apply Z.div_le_compat_l; lia).
  assert (0 <= n / 8) by (apply Z.div_pos; lia).
  lia.
Qed.

(** a buffer that was just (re)allocated for its length is never shrunk by the next from_buffer, and one that
    ensure_capacity grew to hold n words neither (no allocation ping-pong) *)
Theorem gen_no_shrink_after_allocate M n : 8 <= M -> 0 <= n <= M -> gen_shrink_test M (gen_default_capacity M n) n = false.
Proof.
  intros HM H. unfold gen_shrink_test. destruct (Z.gtb_spec (gen_default_capacity M n) (gen_max_compact_capacity M n)); [|reflexivity].
  pose proof (gen_capacity_compact M n HM H). lia.
Qed.

(** Buffer::allocate(n): the capacity is exactly default_capacity(n); the only failure is the debug assertion
    n <= MAX_CAPACITY - the documented AllocateTooMuch panic of allocate_exact is unreachable through allocate,
    because default_capacity is clamped to MAX_CAPACITY *)
Theorem allocate_exact_outcome M n m : 8 <= M -> 0 <= n ->
  match allocate M n m with
  | Ok (b, m') => n <= M /\ bcap b = gen_default_capacity M n /\ bws b = [] /\ nlive m' = nlive m + 1 /\ nwords m' = nwords m + bcap b
  | Err e => e = 12 /\ M < n
  | Panic _ => False
  | OutOfFuel => False
  end.
Proof.
  intros HM Hn. unfold allocate, default_capacity_chk, bind, guard, ret.
  destruct (Z.leb_spec n M) as [Hle|Hgt]; [|split; [reflexivity | exact Hgt]].
  pose proof (gen_capacity_compact M n HM ltac:(lia)) as (_ & H2 & H3). rewrite tie_default_capacity.
  unfold allocate_exact. destruct (Z.gtb_spec (gen_default_capacity M n) M) as [Hg|Hg]; [lia|].
  unfold bind, allocate_raw, guard, raw_alloc, ret.
  destruct (Z.ltb_spec 0 (gen_default_capacity M n)); [|lia]. destruct (Z.leb_spec (gen_default_capacity M n) M); [|lia].
  cbn [andb bcap bws nlive nwords]. repeat split; auto.
Qed.

(** Buffer::ensure_capacity(n) on an owned buffer with len <= n <= MAX_CAPACITY: the exact new capacity *)
Theorem ensure_capacity_exact_outcome M b n F m : 8 <= M -> Own (bblk b :: F) m -> len (bws b) <= n <= M ->
  match ensure_capacity M b n m with
  | Ok (b', m') => bws b' = bws b /\ bcap b' = (if gen_ensure_capacity_test (bcap b) n then gen_default_capacity M n else bcap b) /\
                   (gen_ensure_capacity_test (bcap b) n = false -> b' = b /\ m' = m) /\ nlive m' = nlive m
  | _ => False
  end.
Proof.
  intros HM HO Hn. rewrite tie_ensure_capacity. destruct (gen_ensure_capacity_test (bcap b) n) eqn:E; [|cbn; auto].
  unfold gen_ensure_capacity_test in E. apply andb_prop in E. destruct E as [E1 E2]. apply Z.gtb_lt in E1. apply Z.gtb_lt in E2.
  pose proof (gen_capacity_compact M n HM ltac:(pose proof (len_nonneg (bws b)); lia)) as (H1 & H2 & H3).
  unfold reallocate, bind, guard, default_capacity_chk, ret.
  destruct (Z.leb_spec (len (bws b)) n); [|lia]. destruct (Z.leb_spec n M); [|lia].
  rewrite tie_default_capacity. unfold reallocate_raw, bind, guard.
  destruct (Z.ltb_spec 0 (gen_default_capacity M n)); [|lia]. destruct (Z.leb_spec (len (bws b)) (gen_default_capacity M n)); [|lia].
  cbn [andb]. destruct (Own_dealloc (bptr b) (bcap b) F m (nlive m - 1) (nwords m - bcap b) HO) as [Hb _].
  unfold deallocate_raw. rewrite Hb, Z.eqb_refl. unfold raw_alloc, ret. cbn [bws bcap nlive next blk].
  repeat split; auto; try discriminate; try lia.
Qed.

(** truncate / erase_front: pure length arithmetic, capacity and block untouched, exactly one guard each *)
Theorem truncate_exact b n m : 0 <= n ->
  truncate b n m = if n <=? len (bws b) then Ok (setws b (firstn (Z.to_nat n) (bws b)), m) else Err 8.
Proof. intros _. unfold truncate, bind, guard, ret. destruct (n <=? len (bws b)); reflexivity. Qed.
Theorem erase_front_exact b n m : 0 <= n ->
  erase_front b n m = if n <=? len (bws b) then Ok (setws b (skipn (Z.to_nat n) (bws b)), m) else Err 9.
Proof. intros _. unfold erase_front, bind, guard, ret. destruct (n <=? len (bws b)); reflexivity. Qed.

(** non-vacuity (64-bit build: MAX_CAPACITY = 2^58 - 1 ... as regenerated): the formulas on concrete lengths, the shrink
    rule at its edge, allocate within and beyond MAX_CAPACITY, ensure_capacity at equality and one beyond *)
Example gen_examples :
  let M := gen_max_capacity (2 ^ 64 - 1) 64 in
  M = 288230376151711743 /\ M * 64 <= 2 ^ 64 - 1 /\
  gen_default_capacity M 100 = 114 /\ gen_max_compact_capacity M 100 = 129 /\
  gen_shrink_test M 129 100 = false /\ gen_shrink_test M 130 100 = true /\ gen_default_capacity M M = M /\
  (match allocate M 3 mem0 with Ok (b, m) => bcap b = 5 /\ nlive m = 1 /\ nwords m = 5 | _ => False end) /\
  allocate M (M + 1) mem0 = Err 12 /\
  (match (b <- allocate M 3 ;; b1 <- push_slice b [1; 2; 3] ;; b2 <- ensure_capacity M b1 5 ;; ensure_capacity M b2 6) mem0 with
   | Ok (b, m) => bcap b = 8 /\ nlive m = 1 /\ nwords m = 8 | _ => False end).
Proof. vm_compute. repeat split; try reflexivity; discriminate. Qed.
