(** C07: the word loops under the text converters, on little-endian word lists (Base/Words.v):
    - PreparedMedium::new and PreparedLarge::write_chunk (fmt/non_power_two.rs): repeated
      div::fast_div_by_word_in_place by the normalised range_per_word + stripping of the top zero
      words (C02's model DivWordModel.fast_div_by_word and its proof are imported);
    - parse_chunk (parse/non_power_two.rs): mul::mul_word_in_place_with_carry + push of the carry
      (C01's model RingMul.mul_word_in_place_with_carry and its proof are imported).
    They are proved equal to the value-level models of IoModel.v (hence to the specification) for
    EVERY buffer and every text; the panics the loops could raise (index underflow of the
    unguarded strip loop, debug_assert!(buffer_len == 1), assert_eq!(buffer_len, 0), push beyond
    the allocated capacity) are part of the models and proved unreachable.
    num-modular's Normalized2by1Divisor::div_rem_2by1 enters by its contract (exact division). *)
From Dashu Require Import Base.Prelude Base.Words Int.IoSpec Int.IoModel Int.IoDigits Int.IoPrint Int.IoParse Int.IoRadix Int.IoPow2
  Int.DivWordModel Int.DivWordProofs Int.RingMul Int.RingMulProofs.
From DashuGen Require Import Params.
Open Scope Z_scope.

(* ------------------------------------------------------------------------------------------ *)
(** * models *)
Section WordsModel.
Variable w : Z.

(** Normalized2by1Divisor::div_rem_2by1 by its contract *)
Definition exact2by1 (d a : Z) : Z * Z := (a / d, a mod d).

(** div::fast_div_by_word_in_place(buffer, shift, fast_div_range_per_word) with
    shift = range_per_word.leading_zeros() *)
Definition fdiv_R (R : Z) (buf : list Z) : list Z * Z :=
  fast_div_by_word w exact2by1 buf (lzw w 1 R) (R * 2 ^ lzw w 1 R).

(** `while buffer_len != 0 && buffer[buffer_len - 1] == 0 { buffer_len -= 1 }` *)
Fixpoint strip_top (ws : list Z) : list Z :=
  match ws with
  | [] => []
  | x :: t => match strip_top t with [] => if x =? 0 then [] else [x] | t' => x :: t' end
  end.

(** PreparedMedium::new: the strip loop there has no `buffer_len != 0` guard (an all-zero quotient
    would index buffer[-1]); the loop ends with debug_assert!(buffer_len == 1) *)
Fixpoint medium_loop (fuel : nat) (R : Z) (buf groups : list Z) : result (Z * list Z) :=
  match fuel with
  | O => OutOfFuel
  | S f =>
    match buf with
    | [] => Panic Undocumented
    | [top] => Ok (top, groups)
    | _ => let '(q, rem) := fdiv_R R buf in
           match strip_top q with
           | [] => Panic Undocumented
           | q' => medium_loop f R q' (rem :: groups)
           end
    end
  end.

Definition prepared_medium_words (r : Z) (buf : list Z) : result (list Z) :=
  let '(dpw, R) := radix_info w r in
  rbind (medium_loop (S (Z.to_nat (w * len buf))) R buf [])
        (fun tg => Ok (prepared_word w r (fst tg) 1 ++ flat_map (fun g => prepared_word w r g dpw) (snd tg))).

(** PreparedLarge::write_chunk: exactly [k] = CHUNK_LEN divisions (on an empty buffer the division
    returns 0), then assert_eq!(buffer_len, 0); groups most significant first *)
Fixpoint chunk_loop (k : nat) (R : Z) (buf groups : list Z) : list Z * list Z :=
  match k with
  | O => (buf, groups)
  | S j => let '(q, rem) := fdiv_R R buf in chunk_loop j R (strip_top q) (rem :: groups)
  end.

Definition write_chunk_words (r : Z) (buf : list Z) : result (list Z) :=
  let '(dpw, R) := radix_info w r in
  let '(rest, gs) := chunk_loop (Z.to_nat fmt_chunk_len) R buf [] in
  match rest with
  | [] => Ok (flat_map (fun g => prepared_word w r g dpw) gs)
  | _ => Panic Undocumented
  end.

(** parse_chunk: Buffer::allocate(groups.len()); per group
    `carry = mul_word_in_place_with_carry(&mut buffer, range_per_word, next); if carry != 0 { buffer.push(carry) }`;
    a push beyond the capacity panics *)
Definition parse_chunk_step (cap : nat) (R : Z) (buf : list Z) (next : Z) : result (list Z) :=
  let '(b', c) := mul_word_in_place_with_carry w buf R next in
  if c =? 0 then Ok b' else if (length b' <? cap)%nat then Ok (b' ++ [c]) else Panic Undocumented.

Definition parse_chunk_words (r : Z) (s : list Z) : result (list Z) :=
  let '(dpw, R) := radix_info w r in
  let gs := rchunks (Z.to_nat dpw) s in
  fold_left (fun acc g => rbind acc (fun buf => rbind (parse_word_np2 r g) (fun n => parse_chunk_step (length gs) R buf n)))
            gs (Ok []).

End WordsModel.

(* ------------------------------------------------------------------------------------------ *)
(** * proofs *)
Section WordsProofs.
Variable w : Z.
Hypothesis w_ge : 8 <= w.
Let w_pos : 0 < w. Proof. lia. Qed.
Notation B := (Words.B w).
Notation value := (Words.value w).
Notation wf := (Words.wf w).

Lemma Bw_B : Bw w = B. Proof. reflexivity. Qed.
Let HB : 0 < B := B_pos w w_pos.

Lemma exact2by1_ok : forall d a, norm1 w d -> 0 <= a < d * B -> exact2by1 d a = (a / d, a mod d).
Proof. reflexivity. Qed.

(** the buffers the printers hold: non-empty, no most significant zero word except the single word 0
    (repr_to_chunk_buffer) *)
Definition topnz (ws : list Z) : Prop := last ws 0 <> 0.

Lemma strip_top_value ws : value (strip_top ws) = value ws.
Proof.
  induction ws as [|x t IH]; [reflexivity|]. cbn [strip_top Words.value].
  destruct (strip_top t) as [|y t'] eqn:E.
  - cbn [Words.value] in IH. rewrite <- IH. destruct (Z.eqb_spec x 0); cbn [Words.value]; lia.
  - rewrite <- IH. reflexivity.
Qed.

Lemma strip_top_wf ws : wf ws -> wf (strip_top ws).
Proof.
  induction ws as [|x t IH]; intros H; [exact H|]. apply wf_cons in H. destruct H as [Hx Ht]. cbn [strip_top].
  destruct (strip_top t) as [|y t'] eqn:E.
  - destruct (x =? 0); [apply wf_nil | apply wf_cons; split; [exact Hx | apply wf_nil]].
  - apply wf_cons. split; [exact Hx | apply IH; exact Ht].
Qed.

Lemma strip_top_length ws : (length (strip_top ws) <= length ws)%nat.
Proof.
  induction ws as [|x t IH]; [cbn; lia|]. cbn [strip_top].
  destruct (strip_top t) as [|y t'] eqn:E; [destruct (x =? 0); cbn [length]; lia | cbn [length] in *; lia].
Qed.

Lemma strip_top_topnz ws : strip_top ws <> [] -> topnz (strip_top ws).
Proof.
  unfold topnz. induction ws as [|x t IH]; [intros H; contradiction|]. cbn [strip_top].
  destruct (strip_top t) as [|y t'] eqn:E.
  - destruct (Z.eqb_spec x 0); [intros H; contradiction | intros _; cbn [last]; exact n].
  - intros _. specialize (IH ltac:(discriminate)). exact IH.
Qed.

Lemma strip_top_nil ws : wf ws -> strip_top ws = [] -> value ws = 0.
Proof. intros _ E. rewrite <- strip_top_value, E. reflexivity. Qed.

(** a buffer without top zero word: its length is fixed by its value *)
Lemma topnz_lower ws : wf ws -> ws <> [] -> topnz ws -> B ^ (len ws - 1) <= value ws.
Proof.
  unfold topnz. induction ws as [|x t IH]; intros Hwf Hne Ht; [contradiction|].
  apply wf_cons in Hwf. destruct Hwf as [Hx Hw']. destruct t as [|y t'].
  - cbn [last] in Ht. cbn [Words.value]. unfold len. cbn [length Z.of_nat]. rewrite Z.sub_diag, Z.pow_0_r. lia.
  - specialize (IH Hw' ltac:(discriminate) Ht). cbn [Words.value]. cbn [Words.value] in IH.
    unfold len in *. cbn [length] in *. rewrite !Nat2Z.inj_succ in *.
    replace (Z.succ (Z.succ (Z.of_nat (length t'))) - 1) with (Z.succ (Z.succ (Z.of_nat (length t')) - 1)) by lia.
    rewrite Z.pow_succ_r by lia. nia.
Qed.

Lemma two_words_ge_B x y t : wf (x :: y :: t) -> topnz (x :: y :: t) -> B <= value (x :: y :: t).
Proof.
  intros Hwf Ht. pose proof (topnz_lower _ Hwf ltac:(discriminate) Ht) as H.
  unfold len in H. cbn [length] in H. rewrite !Nat2Z.inj_succ in H.
  assert (B ^ 1 <= B ^ (Z.succ (Z.succ (Z.of_nat (length t))) - 1)) by (apply Z.pow_le_mono_r; lia).
  rewrite Z.pow_1_r in *. lia.
Qed.

Section WithRadix.
Variables r dpw R : Z.
Hypothesis r_ge_2 : 2 <= r.
Hypothesis Hinfo : radix_info w r = (dpw, R).
Hypothesis dpw_pos : 0 < dpw.
Hypothesis HR : R = r ^ dpw.
Hypothesis R_lt_B : R < Bw w.
Hypothesis B_le_RR : Bw w <= R * R.

Let R2 : 2 <= R := R_ge_2 r dpw R r_ge_2 dpw_pos HR.

Lemma fdiv_R_spec buf : wf buf -> forall q rem, fdiv_R w R buf = (q, rem) ->
  value q = value buf / R /\ rem = value buf mod R /\ wf q /\ length q = length buf.
Proof.
  intros Hwf q rem E. unfold fdiv_R in E.
  apply (fast_div_by_word_spec w w_pos exact2by1 exact2by1_ok buf R Hwf ltac:(rewrite <- Bw_B; lia) q rem E).
Qed.

Let pad (g : Z) : list Z := prepared_word w r g dpw.

(* ---------------------------------------------------------------- PreparedMedium *)
Lemma medium_loop_correct f : forall buf gs, wf buf -> buf <> [] -> (topnz buf \/ buf = [0]) -> value buf < 2 ^ Z.of_nat f ->
  exists top gs', medium_loop w (S f) R buf gs = Ok (top, gs') /\ 0 <= top < B /\
    digits_spec r top ++ flat_map pad gs' = digits_spec r (value buf) ++ flat_map pad gs.
Proof.
  induction f as [|f IH]; intros buf gs Hwf Hne Htop Hlt.
  - (* value 0: a single word *)
    cbn [Z.of_nat] in Hlt. rewrite Z.pow_0_r in Hlt.
    pose proof (value_nonneg w w_pos buf Hwf) as Hv0. assert (Hv : value buf = 0) by lia.
    destruct buf as [|x [|y t]]; [contradiction | |].
    + apply wf_cons in Hwf. destruct Hwf as [Hx _]. cbn [Words.value] in Hv.
      exists x, gs. cbn [medium_loop]. split; [reflexivity|]. split; [lia|]. cbn [Words.value]. replace (x + B * 0) with x by lia. reflexivity.
    + exfalso. destruct Htop as [Ht|Ht]; [|discriminate]. pose proof (two_words_ge_B x y t Hwf Ht). lia.
  - destruct buf as [|x [|y t]]; [contradiction | |].
    + apply wf_cons in Hwf. destruct Hwf as [Hx _].
      exists x, gs. cbn [medium_loop]. split; [reflexivity|]. split; [lia|]. cbn [Words.value]. replace (x + B * 0) with x by lia. reflexivity.
    + destruct Htop as [Ht|Ht]; [|discriminate].
      pose proof (two_words_ge_B x y t Hwf Ht) as Hge. set (buf := x :: y :: t) in *.
      change (medium_loop w (S (S f)) R buf gs) with
        (let '(q, rem) := fdiv_R w R buf in
         match strip_top q with [] => Panic Undocumented | q' => medium_loop w (S f) R q' (rem :: gs) end).
      destruct (fdiv_R w R buf) as [q rem] eqn:E.
      destruct (fdiv_R_spec buf Hwf q rem E) as (Hq & Hrem & Hwq & Hlq).
      assert (Hqpos : 0 < value buf / R) by (apply Z.div_str_pos; rewrite Bw_B in *; lia).
      destruct (strip_top q) as [|z q'] eqn:Es.
      { exfalso. pose proof (strip_top_nil q Hwq Es). lia. }
      rewrite <- Es.
      assert (Hdiv : value (strip_top q) < 2 ^ Z.of_nat f).
      { rewrite strip_top_value, Hq. rewrite Nat2Z.inj_succ, Z.pow_succ_r in Hlt by lia.
        apply Z.div_lt_upper_bound; [lia|]. assert (0 < 2 ^ Z.of_nat f) by (apply Z.pow_pos_nonneg; lia). nia. }
      destruct (IH (strip_top q) (rem :: gs) (strip_top_wf q Hwq) ltac:(rewrite Es; discriminate)
                   ltac:(left; apply strip_top_topnz; rewrite Es; discriminate) Hdiv) as (top & gs' & E1 & Ht1 & Hd).
      exists top, gs'. split; [exact E1|]. split; [exact Ht1|]. rewrite Hd.
      rewrite strip_top_value, Hq, Hrem. cbn [flat_map]. change (pad (value buf mod R)) with (prepared_word w r (value buf mod R) dpw).
      rewrite (prepared_word_pad w r dpw R r_ge_2 w_pos Hinfo dpw_pos HR R_lt_B B_le_RR) by (apply Z.mod_pos_bound; lia).
      rewrite app_assoc. f_equal. rewrite (HR' r dpw R r_ge_2 dpw_pos HR). symmetry. apply digits_spec_divmod; [exact r_ge_2|].
      rewrite <- (HR' r dpw R r_ge_2 dpw_pos HR). rewrite Bw_B in *. lia.
Qed.

Lemma value_lt_pow2 buf : wf buf -> value buf < 2 ^ Z.of_nat (Z.to_nat (w * len buf)).
Proof.
  intros Hwf. pose proof (Words.value_bounds w w_pos buf Hwf) as H. pose proof (len_nonneg buf).
  rewrite Z2Nat.id by nia. unfold Words.B in H. rewrite <- Z.pow_mul_r in H by lia. lia.
Qed.

(** PreparedMedium::new + write on the words = the value-level model = the specification digits *)
Theorem prepared_medium_words_correct buf : wf buf -> buf <> [] -> (topnz buf \/ buf = [0]) ->
  prepared_medium_words w r buf = Ok (prepared_medium w r (value buf)).
Proof.
  intros Hwf Hne Htop. unfold prepared_medium_words. rewrite Hinfo.
  destruct (medium_loop_correct (Z.to_nat (w * len buf)) buf [] Hwf Hne Htop (value_lt_pow2 buf Hwf)) as (top & gs' & E & Ht & Hd).
  rewrite E. cbn [rbind fst snd]. f_equal.
  rewrite (prepared_medium_correct w r dpw R r_ge_2 w_pos Hinfo dpw_pos HR R_lt_B B_le_RR) by (apply value_nonneg; assumption).
  rewrite (prepared_word_top w r dpw r_ge_2 w_pos dpw_pos) by (rewrite Bw_B; lia).
  fold pad. rewrite Hd. cbn [flat_map]. apply app_nil_r.
Qed.

(* ---------------------------------------------------------------- write_chunk *)
Lemma stripped_zero rest : wf rest -> (rest = [] \/ topnz rest) -> value rest = 0 -> rest = [].
Proof.
  intros Hwf [E|Ht] Hv; [exact E|]. destruct rest as [|x t]; [reflexivity|exfalso].
  pose proof (topnz_lower _ Hwf ltac:(discriminate) Ht) as H.
  assert (0 < B ^ (len (x :: t) - 1)) by (apply Z.pow_pos_nonneg; [lia | unfold len; cbn [length]; lia]). lia.
Qed.

Lemma chunk_loop_stripped k : forall buf gs, wf buf -> (buf = [] \/ topnz buf) ->
  let '(rest, gs') := chunk_loop w k R buf gs in
  wf rest /\ value rest = value buf / R ^ Z.of_nat k /\ (rest = [] \/ topnz rest) /\
  gs' = digits_pad k R (value buf) ++ gs.
Proof.
  induction k as [|k IH]; intros buf gs Hwf Hs.
  - cbn [chunk_loop]. split; [exact Hwf|]. split; [cbn [Z.of_nat]; rewrite Z.pow_0_r, Z.div_1_r; reflexivity|].
    split; [exact Hs | reflexivity].
  - cbn [chunk_loop]. destruct (fdiv_R w R buf) as [q rem] eqn:E.
    destruct (fdiv_R_spec buf Hwf q rem E) as (Hq & Hrem & Hwq & Hlq).
    assert (Hs' : strip_top q = [] \/ topnz (strip_top q)).
    { destruct (strip_top q) eqn:Es; [left; reflexivity | right; rewrite <- Es; apply strip_top_topnz; rewrite Es; discriminate]. }
    specialize (IH (strip_top q) (rem :: gs) (strip_top_wf q Hwq) Hs').
    destruct (chunk_loop w k R (strip_top q) (rem :: gs)) as [rest gs'].
    destruct IH as (H1 & H2 & H3 & H4). split; [exact H1|]. split; [|split; [exact H3|]].
    + rewrite H2, strip_top_value, Hq, Z.div_div by (try apply Z.pow_pos_nonneg; lia).
      rewrite Nat2Z.inj_succ, Z.pow_succ_r by lia. reflexivity.
    + rewrite H4, strip_top_value, Hq, Hrem. rewrite (digits_pad_S R).
      rewrite <- app_assoc. reflexivity.
Qed.

(** write_chunk on the words: CHUNK_LEN groups, the final assert_eq!(buffer_len, 0) holds *)
Theorem write_chunk_words_correct buf : wf buf -> (topnz buf \/ buf = [0]) -> value buf < R ^ fmt_chunk_len ->
  write_chunk_words w r buf = Ok (write_chunk w r (value buf)).
Proof.
  intros Hwf Htop Hlt. unfold write_chunk_words, write_chunk. rewrite Hinfo.
  assert (Hcl : Z.to_nat fmt_chunk_len = S (Nat.pred (Z.to_nat fmt_chunk_len))) by (unfold fmt_chunk_len; lia).
  rewrite Hcl at 1. cbn [chunk_loop]. destruct (fdiv_R w R buf) as [q rem] eqn:E.
  destruct (fdiv_R_spec buf Hwf q rem E) as (Hq & Hrem & Hwq & Hlq).
  assert (Hs' : strip_top q = [] \/ topnz (strip_top q)).
  { destruct (strip_top q) eqn:Es; [left; reflexivity | right; rewrite <- Es; apply strip_top_topnz; rewrite Es; discriminate]. }
  pose proof (chunk_loop_stripped (Nat.pred (Z.to_nat fmt_chunk_len)) (strip_top q) [rem] (strip_top_wf q Hwq) Hs') as H.
  destruct (chunk_loop w (Nat.pred (Z.to_nat fmt_chunk_len)) R (strip_top q) [rem]) as [rest gs'].
  destruct H as (H1 & H2 & H3 & H4).
  pose proof (value_nonneg w w_pos buf Hwf) as Hv0.
  assert (Hz : value rest = 0).
  { rewrite H2, strip_top_value, Hq, Z.div_div by (try apply Z.pow_pos_nonneg; lia).
    rewrite <- Z.pow_succ_r, <- Nat2Z.inj_succ, <- Hcl by lia. rewrite Z2Nat.id by (unfold fmt_chunk_len; lia).
    apply Z.div_small. lia. }
  rewrite (stripped_zero rest H1 H3 Hz). f_equal. f_equal.
  rewrite H4, strip_top_value, Hq, Hrem. rewrite Hcl at 2. rewrite (digits_pad_S R). reflexivity.
Qed.

(* ---------------------------------------------------------------- parse_chunk *)
Lemma raw_digits_range s : forall ds, raw_digits r s = Some ds -> in_range r ds.
Proof.
  induction s as [|c t IH]; intros ds H; cbn [raw_digits] in H.
  - inversion H. constructor.
  - destruct (digit_from_ascii r c) as [d|] eqn:Ed; [|discriminate]. destruct (raw_digits r t) as [ds'|]; [|discriminate].
    inversion H. constructor; [apply (digit_from_ascii_range r c d Ed) | apply IH; reflexivity].
Qed.

Lemma pw_bound g n : (length g <= Z.to_nat dpw)%nat -> pw r g = Ok n -> 0 <= n < R.
Proof.
  intros Hl H. unfold pw in H. destruct (raw_digits r g) as [ds|] eqn:Ed; [|discriminate]. inversion H; subst n.
  pose proof (IoDigits.value_bounds r r_ge_2 ds (raw_digits_range g ds Ed)) as Hb.
  pose proof (raw_digits_length r g ds Ed) as Hlen.
  assert (r ^ len ds <= R).
  { rewrite HR. apply Z.pow_le_mono_r; [lia|]. unfold len. lia. }
  lia.
Qed.

Lemma pw_cases g : (exists n, pw r g = Ok n) \/ pw r g = Err E_InvalidDigit.
Proof. unfold pw. destruct (raw_digits r g); [left; eexists; reflexivity | right; reflexivity]. Qed.

Section Fold.
Variable cap : nat.
Let stepw := (fun (acc : result (list Z)) (g : list Z) =>
  rbind acc (fun buf => rbind (parse_word_np2 r g) (fun n => parse_chunk_step w cap R buf n))).
Let stepz := (fun (acc : result Z) (g : list Z) =>
  rbind acc (fun a => rbind (parse_word_np2 r g) (fun n => Ok (a * R + n)))).

Lemma stepw_err gs : forall e, fold_left stepw gs (Err e) = Err e.
Proof. induction gs; intros e; cbn [fold_left]; [reflexivity | apply IHgs]. Qed.
Lemma stepz_err gs : forall e, fold_left stepz gs (Err e) = Err e.
Proof. induction gs; intros e; cbn [fold_left]; [reflexivity | apply IHgs]. Qed.

Lemma parse_chunk_step_ok buf n : wf buf -> 0 <= n < R -> (length buf < cap)%nat ->
  exists b', parse_chunk_step w cap R buf n = Ok b' /\ wf b' /\ value b' = value buf * R + n /\ (length b' <= S (length buf))%nat.
Proof.
  intros Hwf Hn Hcap. unfold parse_chunk_step, mul_word_in_place_with_carry.
  destruct (Z.eqb_spec R 0); [lia|].
  destruct (mul_word_loop w buf R n) as [b1 c] eqn:E.
  destruct (mul_word_loop_spec w w_ge buf R n Hwf ltac:(rewrite <- Bw_B; lia) ltac:(rewrite <- Bw_B; lia) b1 c E) as (Hl & Hw1 & Hc & Hv).
  destruct (Z.eqb_spec c 0) as [->|NZ].
  - exists b1. split; [reflexivity|]. split; [exact Hw1|]. split; [lia | lia].
  - destruct (Nat.ltb_spec (length b1) cap); [|lia].
    exists (b1 ++ [c]). split; [reflexivity|]. split; [apply wf_app; split; [exact Hw1 | apply wf_cons; split; [lia | apply wf_nil]]|].
    split; [|rewrite app_length; cbn [length]; lia].
    rewrite Words.value_app. cbn [Words.value]. replace (len b1) with (len buf) by (unfold len; lia). lia.
Qed.

Lemma parse_fold gs : forall buf, wf buf -> Forall (fun g => (length g <= Z.to_nat dpw)%nat) gs -> (length buf + length gs <= cap)%nat ->
  match fold_left stepw gs (Ok buf) with
  | Ok b' => wf b' /\ (length b' <= cap)%nat /\ fold_left stepz gs (Ok (value buf)) = Ok (value b')
  | Err e => fold_left stepz gs (Ok (value buf)) = Err e
  | _ => False
  end.
Proof.
  induction gs as [|g t IH]; intros buf Hwf Hf Hcap; cbn [fold_left].
  - split; [exact Hwf|]. split; [cbn [length] in Hcap; lia | reflexivity].
  - apply Forall_cons_iff in Hf. destruct Hf as [Hg Ht]. cbn [length] in Hcap.
    replace (stepz (Ok (value buf)) g) with (rbind (pw r g) (fun n => Ok (value buf * R + n)))
      by (unfold stepz; cbn [rbind]; rewrite (parse_word_np2_correct r 0); reflexivity).
    replace (stepw (Ok buf) g) with (rbind (pw r g) (fun n => parse_chunk_step w cap R buf n))
      by (unfold stepw; cbn [rbind]; rewrite (parse_word_np2_correct r 0); reflexivity).
    destruct (pw_cases g) as [[n En]|Ee].
    + rewrite En. cbn [rbind]. destruct (parse_chunk_step_ok buf n Hwf (pw_bound g n Hg En) ltac:(lia)) as (b' & E & Hw' & Hv & Hl).
      rewrite E, <- Hv. apply IH; [exact Hw' | exact Ht | lia].
    + rewrite Ee. cbn [rbind]. rewrite stepw_err, stepz_err. reflexivity.
Qed.
End Fold.

Lemma chunks_of_lengths k : forall fuel s, Forall (fun g : list Z => (length g <= k)%nat) (chunks_of fuel k s).
Proof.
  induction fuel as [|fuel IH]; intros s; cbn [chunks_of]; [constructor|].
  destruct s; [constructor|]. constructor; [apply firstn_le_length | apply IH].
Qed.

Lemma rchunks_lengths k s : (0 < k)%nat -> Forall (fun g : list Z => (length g <= k)%nat) (rchunks k s).
Proof.
  intros Hk. unfold rchunks. apply Forall_app. split; [|apply chunks_of_lengths].
  destruct (Nat.eqb (length s mod k) 0); [constructor|]. constructor; [|constructor].
  rewrite firstn_length. pose proof (Nat.mod_upper_bound (length s) k ltac:(lia)). lia.
Qed.

(** parse_chunk on the word buffer: the value (or the error) of the value-level model, the buffer
    stays well-formed and never outgrows the allocated capacity (no panic) *)
Theorem parse_chunk_words_correct s :
  match parse_chunk_words w r s with
  | Ok buf => wf buf /\ parse_chunk w r s = Ok (value buf)
  | Err e => parse_chunk w r s = Err e
  | _ => False
  end.
Proof.
  unfold parse_chunk_words, parse_chunk. rewrite Hinfo.
  pose proof (parse_fold (length (rchunks (Z.to_nat dpw) s)) (rchunks (Z.to_nat dpw) s) [] (wf_nil w)
                (rchunks_lengths (Z.to_nat dpw) s ltac:(lia)) ltac:(cbn [length]; lia)) as H.
  cbn [Words.value] in H.
  destruct (fold_left _ (rchunks (Z.to_nat dpw) s) (Ok [])) as [b'|p|e|]; [|exact H|exact H|exact H].
  destruct H as (H1 & _ & H3). split; [exact H1 | exact H3].
Qed.

End WithRadix.
End WordsProofs.

(* ------------------------------------------------------------------------------------------ *)
(** * closed statements: every word size >= 8 bits that is even, every radix below the word base *)
Section Closed.
Variables w r : Z.
Hypothesis w_ge : 8 <= w.
Hypothesis w_even : w mod 2 = 0.
Hypothesis r_ge_2 : 2 <= r.
Hypothesis r_lt_B : r < Bw w.

Theorem prepared_medium_words_total buf : Words.wf w buf -> buf <> [] -> (topnz buf \/ buf = [0]) ->
  prepared_medium_words w r buf = Ok (prepared_medium w r (Words.value w buf)).
Proof.
  destruct (radix_info_ok w r ltac:(lia) w_even r_ge_2 r_lt_B) as (dpw & R & Hinfo & Hd & HR & Hlt & Hle).
  pose proof (R_le_mul r r_ge_2 dpw R Hd HR).
  apply (prepared_medium_words_correct w w_ge r dpw R r_ge_2 Hinfo Hd HR Hlt ltac:(lia)).
Qed.

Theorem write_chunk_words_total buf : Words.wf w buf -> (topnz buf \/ buf = [0]) ->
  Words.value w buf < snd (radix_info w r) ^ fmt_chunk_len ->
  write_chunk_words w r buf = Ok (write_chunk w r (Words.value w buf)).
Proof.
  destruct (radix_info_ok w r ltac:(lia) w_even r_ge_2 r_lt_B) as (dpw & R & Hinfo & Hd & HR & Hlt & Hle).
  pose proof (R_le_mul r r_ge_2 dpw R Hd HR). rewrite Hinfo. cbn [snd].
  apply (write_chunk_words_correct w w_ge r dpw R r_ge_2 Hinfo Hd HR Hlt).
Qed.

Theorem parse_chunk_words_total s :
  match parse_chunk_words w r s with
  | Ok buf => Words.wf w buf /\ parse_chunk w r s = Ok (Words.value w buf)
  | Err e => parse_chunk w r s = Err e
  | _ => False
  end.
Proof.
  destruct (radix_info_ok w r ltac:(lia) w_even r_ge_2 r_lt_B) as (dpw & R & Hinfo & Hd & HR & Hlt & Hle).
  apply (parse_chunk_words_correct w w_ge r dpw R r_ge_2 Hinfo Hd HR Hlt).
Qed.
End Closed.

(** non-vacuity: three 64-bit words in decimal; a 16-group chunk; a 45-digit text *)
Example prepared_medium_words_ex :
  prepared_medium_words 64 10 [5; 7; 9] = Ok (digits_spec 10 (5 + 2 ^ 64 * 7 + 2 ^ 128 * 9)).
Proof. vm_compute. reflexivity. Qed.
Example write_chunk_words_ex :
  write_chunk_words 64 10 [123; 456] = Ok (write_chunk 64 10 (123 + 2 ^ 64 * 456)).
Proof. vm_compute. reflexivity. Qed.
Example parse_chunk_words_ex :
  rmap (Words.value 64) (parse_chunk_words 64 10 (repeat 57 45)) = Ok (10 ^ 45 - 1).
Proof. vm_compute. reflexivity. Qed.
