(** C09: trailing_ones of magnitudes and of negative numbers (trailing_ones_neg with
    trailing_zeros_large_shifted_by_one) at word level equal trailing_ones_spec of the signed
    value - for every word size. *)
From Dashu Require Import Base.Prelude Base.Words Int.BitsSpec Int.BitsWords Int.BitsKernels Int.BitsKernelsBase
  Int.BitsShiftProofs.
Open Scope Z_scope.

Section Trail.
Variable w : Z.
Hypothesis w_pos : 0 < w.
Notation B := (B w).
Notation value := (value w).
Notation wf := (wf w).

Lemma tz_of_pred_neg m : trailing_ones_spec (- m) = trailing_zeros_spec (m - 1).
Proof. unfold trailing_ones_spec. f_equal. unfold Z.lnot. rewrite <- Z.sub_1_r. lia. Qed.

(** the trailing zeros of a non-zero x below 2^k do not change when a multiple of 2^k is added *)
Lemma tz_mod_pow2 x k c : 0 <= k -> 0 < x < 2 ^ k -> trailing_zeros_spec (x + c * 2 ^ k) = trailing_zeros_spec x.
Proof.
  intros Hk Hx. destruct (trailing_zeros_spec x) as [j|] eqn:E.
  2:{ apply trailing_zeros_spec_none in E. lia. }
  apply trailing_zeros_spec_ok in E. destruct E as (Hj & E1 & E2).
  assert (Hjk : j < k).
  { destruct (Z.lt_ge_cases j k); [assumption|]. rewrite (high_bits_of_small x k j) in E1 by lia. discriminate. }
  assert (Hlow : forall i, 0 <= i < k -> Z.testbit (x + c * 2 ^ k) i = Z.testbit x i).
  { intros i Hi. rewrite <- (Z.mod_pow2_bits_low (x + c * 2 ^ k) k i) by lia.
    rewrite Z.mod_add by (apply Z.pow_nonzero; lia). apply Z.mod_pow2_bits_low. lia. }
  apply tz_char; [exact Hj | rewrite Hlow by lia; exact E1 | intros i Hi; rewrite Hlow by lia; apply E2; lia].
Qed.

Theorem repr_trailing_ones_correct r : brepr_ok w r -> trailing_ones_spec (bvalue w r) = Some (repr_trailing_ones w r).
Proof.
  intros Hk. destruct r as [d|ws]; cbn [repr_trailing_ones bvalue].
  - cbn [brepr_ok] in Hk. destruct (trailing_ones_spec d) as [k|] eqn:E; [reflexivity|].
    apply trailing_ones_spec_none in E. lia.
  - destruct Hk as (W & _). apply (trailing_ones_large_correct w w_pos). exact W.
Qed.

Lemma half_word x : 0 <= x < B -> 0 <= Z.shiftr x 1 < 2 ^ (w - 1) /\ x = 2 * Z.shiftr x 1 + x mod 2.
Proof.
  intros Hx. rewrite Z.shiftr_div_pow2, Z.pow_1_r by lia. pose proof (Z.div_mod x 2 ltac:(lia)) as Hdm.
  split; [|exact Hdm]. split; [apply Z.div_pos; lia|]. apply Z.div_lt_upper_bound; [lia|].
  replace (2 * 2 ^ (w - 1)) with (2 ^ w) by (rewrite <- Z.pow_succ_r by lia; f_equal; lia). rewrite <- (B_pow w). lia.
Qed.

Lemma land_1 x : Z.land x 1 = x mod 2.
Proof. change 1 with (Z.ones 1). rewrite Z.land_ones by lia. reflexivity. Qed.

Theorem trailing_ones_neg_large_correct ws : wf ws -> (2 <= length ws)%nat -> last ws 0 <> 0 ->
  repr_trailing_ones_neg w (BLarge ws) = trailing_ones_spec (- value ws).
Proof.
  intros Hw Hl Ht. pose proof (B_pos w w_pos) as HB. rewrite tz_of_pred_neg. cbn [repr_trailing_ones_neg].
  destruct ws as [|x r]; [cbn in Hl; lia|]. apply wf_cons in Hw. destruct Hw as [Hx Hr]. cbn [nth Words.value].
  assert (Hrne : r <> []) by (destruct r; [cbn in Hl; lia | discriminate]).
  assert (Hrl : last r 0 <> 0) by (destruct r; [contradiction | exact Ht]).
  pose proof (value_last_lower w w_pos r Hr Hrne Hrl) as Hlow.
  assert (Hvr : 0 < value r).
  { assert (0 < B ^ (len r - 1)) by (apply Z.pow_pos_nonneg; [lia | unfold len; destruct r; [contradiction | cbn [length]; lia]]). lia. }
  rewrite land_1. destruct (half_word x Hx) as [Hy Ex]. pose proof (Z.mod_pos_bound x 2 ltac:(lia)) as Hm.
  destruct (Z.eqb_spec (x mod 2) 0) as [E|E].
  - (* even magnitude: m - 1 is odd *)
    symmetry. apply tz_char; [lia | | intros; lia].
    rewrite Z.bit0_odd. replace (x + B * value r - 1) with ((x - 1) + value r * 2 ^ w) by (rewrite (B_pow w); ring).
    rewrite <- Z.bit0_odd, <- (Z.mod_pow2_bits_low _ w 0) by lia. rewrite Z.mod_add by (apply Z.pow_nonzero; lia).
    rewrite Z.mod_pow2_bits_low by lia. rewrite Z.bit0_odd. replace (x - 1) with (1 + 2 * (Z.shiftr x 1 - 1)) by lia.
    rewrite Z.odd_add_mul_2. reflexivity.
  - assert (Ex1 : x - 1 = 2 * Z.shiftr x 1) by lia. set (y := Z.shiftr x 1) in *.
    unfold trailing_zeros_large_shifted_by_one. fold y.
    destruct (Z.eq_dec y 0) as [Ey|Ey].
    + (* word 0 is exactly 1: the scan restarts at word 1 *)
      rewrite Ey. assert (Hw0 : word_tz w 0 = w) by reflexivity. rewrite !Hw0.
      destruct (Z.ltb_spec w (w - 1)); [lia|].
      replace (x + B * value r - 1) with (value (0 :: r)) by (cbn [Words.value]; lia).
      assert (W0 : wf (0 :: r)) by (apply wf_cons; split; [lia | exact Hr]).
      destruct (trailing_zeros_large_correct w w_pos (0 :: r) W0) as [T _]; [cbn [Words.value]; nia|].
      rewrite T. cbn [trailing_zeros_large]. rewrite Z.eqb_refl. f_equal. lia.
    + assert (Hyb : 0 < y < B).
      { split; [lia|]. apply Z.lt_le_trans with (2 ^ (w - 1)); [lia|]. rewrite (B_pow w). apply Z.pow_le_mono_r; lia. }
      destruct (word_tz_spec w y Hyb) as (K & K1 & K2). set (j := word_tz w y) in *.
      assert (Hj : j < w - 1).
      { destruct (Z.lt_ge_cases j (w - 1)); [assumption|]. rewrite (high_bits_of_small y (w - 1) j) in K1 by lia. discriminate. }
      destruct (Z.ltb_spec j (w - 1)); [|lia]. symmetry.
      replace (x + B * value r - 1) with (2 * y + B * value r) by lia.
      apply tz_char; [lia | |].
      * rewrite (testbit_low w w_pos) by lia. replace (j + 1) with (Z.succ j) by lia.
        rewrite Z.testbit_even_succ by lia. exact K1.
      * intros i Hi. rewrite (testbit_low w w_pos) by lia. destruct (Z.eq_dec i 0) as [->|Hi0]; [apply Z.testbit_even_0|].
        replace i with (Z.succ (i - 1)) by lia. rewrite Z.testbit_even_succ by lia. apply K2. lia.
Qed.

Theorem repr_trailing_ones_neg_correct r : brepr_ok w r -> 1 <= bvalue w r ->
  repr_trailing_ones_neg w r = trailing_ones_spec (- bvalue w r).
Proof.
  intros Hk H1. destruct r as [d|ws].
  - cbn [brepr_ok bvalue] in *. cbn [repr_trailing_ones_neg].
    destruct (Z.eqb_spec d 0); [lia|]. destruct (Z.eqb_spec d 1) as [->|Hd1]; [reflexivity|].
    unfold dword_not. rewrite Z.mod_small by lia. rewrite tz_of_pred_neg. unfold trailing_ones_spec. 
    replace (Z.lnot (B * B - 1 - d + 1)) with ((d - 1) + (-1) * 2 ^ (2 * w)).
    2:{ unfold Z.lnot. rewrite <- Z.sub_1_r, <- (BB_pow w w_pos). lia. }
    apply tz_mod_pow2; [lia|]. rewrite <- (BB_pow w w_pos). lia.
  - destruct Hk as (W & L & T). cbn [bvalue]. apply trailing_ones_neg_large_correct; [exact W | lia | exact T].
Qed.

Theorem ibig_trailing_ones_correct s r : brepr_ok w r -> (s = Negative -> 1 <= bvalue w r) ->
  ibig_trailing_ones w s r = trailing_ones_spec (signed s (bvalue w r)).
Proof.
  intros Hk Hn. unfold ibig_trailing_ones, signed. destruct s; cbn [sgnz].
  - rewrite Z.mul_1_l. symmetry. apply repr_trailing_ones_correct. exact Hk.
  - replace (-1 * bvalue w r) with (- bvalue w r) by lia. apply repr_trailing_ones_neg_correct; [exact Hk | apply Hn; reflexivity].
Qed.

End Trail.
