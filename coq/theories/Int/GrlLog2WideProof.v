(** C12 - the no_std log2 estimator for u32 / u64 / u128 / usize (GrlLog2Wide.v) encloses the binary
    logarithm of EVERY value, and the bit-level next_up / next_down of the source agree with their
    description on (mantissa, exponent) pairs. *)
From Dashu Require Import Base.Prelude Int.GrlSpec Int.GrlSpecProof Int.GrlLog2Tab Int.GrlLog2TabProof
  Int.GrlLog2Wide.
Open Scope Z_scope.

(** * 1. monotonicity of the integer statement  m / 2^k <= log2 (p / q)  in the bound *)

Lemma lb_holds_same_k : forall m1 m2 k p q, 0 <= p -> 0 <= q -> m1 <= m2 ->
  log2_lb_holds m2 k p q -> log2_lb_holds m1 k p q.
Proof.
  intros m1 m2 k p q Hp Hq Hm H. unfold log2_lb_holds in *.
  set (K := 2 ^ Z.of_nat k) in *.
  assert (0 <= p ^ K) as HP by (apply Z.pow_nonneg; exact Hp).
  assert (0 <= q ^ K) as HQ by (apply Z.pow_nonneg; exact Hq).
  assert (2 ^ Z.max m1 0 <= 2 ^ Z.max m2 0) as A by (apply Z.pow_le_mono_r; lia).
  assert (2 ^ Z.max (- m2) 0 <= 2 ^ Z.max (- m1) 0) as B by (apply Z.pow_le_mono_r; lia).
  assert (0 <= 2 ^ Z.max m1 0) as A0 by (apply Z.pow_nonneg; lia).
  apply Z.le_trans with (2 ^ Z.max m2 0 * q ^ K); [apply Z.mul_le_mono_nonneg_r; assumption|].
  apply Z.le_trans with (2 ^ Z.max (- m2) 0 * p ^ K); [exact H|].
  apply Z.mul_le_mono_nonneg_r; assumption.
Qed.

Lemma pow_2_succ_nat : forall (x : Z) (k : nat), x ^ (2 ^ Z.of_nat (S k)) = (x ^ (2 ^ Z.of_nat k)) ^ 2.
Proof.
  intros x k. rewrite Nat2Z.inj_succ, Z.pow_succ_r by lia.
  rewrite (Z.mul_comm 2). rewrite Z.pow_mul_r by (try apply Z.pow_nonneg; lia). reflexivity.
Qed.

Lemma pow2_max_double : forall m, 2 ^ Z.max (2 * m) 0 = (2 ^ Z.max m 0) ^ 2.
Proof.
  intros m. replace (Z.max (2 * m) 0) with (Z.max m 0 * 2) by lia.
  rewrite Z.pow_mul_r by lia. reflexivity.
Qed.

Lemma lb_holds_double : forall m k p q, 0 <= p -> 0 <= q ->
  (log2_lb_holds m k p q <-> log2_lb_holds (2 * m) (S k) p q).
Proof.
  intros m k p q Hp Hq. unfold log2_lb_holds.
  rewrite !pow_2_succ_nat. replace (- (2 * m)) with (2 * - m) by lia. rewrite !pow2_max_double.
  set (K := 2 ^ Z.of_nat k).
  assert (0 <= p ^ K) as HP by (apply Z.pow_nonneg; exact Hp).
  assert (0 <= q ^ K) as HQ by (apply Z.pow_nonneg; exact Hq).
  assert (0 < 2 ^ Z.max m 0) as A0 by (apply Z.pow_pos_nonneg; lia).
  assert (0 < 2 ^ Z.max (- m) 0) as B0 by (apply Z.pow_pos_nonneg; lia).
  set (A := 2 ^ Z.max m 0) in *. set (B := 2 ^ Z.max (- m) 0) in *.
  set (P := p ^ K) in *. set (Q := q ^ K) in *. rewrite !Z.pow_2_r.
  replace (A * A * (Q * Q)) with ((A * Q) * (A * Q)) by ring.
  replace (B * B * (P * P)) with ((B * P) * (B * P)) by ring.
  assert (0 <= A * Q) as X0 by (apply Z.mul_nonneg_nonneg; lia).
  assert (0 <= B * P) as Y0 by (apply Z.mul_nonneg_nonneg; lia).
  split; intros H.
  - apply Z.square_le_mono_nonneg; assumption.
  - apply Z.square_le_simpl_nonneg; assumption.
Qed.

Lemma lb_holds_scale : forall j m k p q, 0 <= p -> 0 <= q ->
  (log2_lb_holds m k p q <-> log2_lb_holds (m * 2 ^ Z.of_nat j) (k + j) p q).
Proof.
  induction j as [|j IH]; intros m k p q Hp Hq.
  - cbn [Z.of_nat]. rewrite Z.pow_0_r, Z.mul_1_r, Nat.add_0_r. reflexivity.
  - rewrite Nat2Z.inj_succ, Z.pow_succ_r by lia.
    replace (k + S j)%nat with (S (k + j)) by lia.
    replace (m * (2 * 2 ^ Z.of_nat j)) with (2 * (m * 2 ^ Z.of_nat j)) by ring.
    rewrite <- lb_holds_double by assumption. apply IH; assumption.
Qed.

(** a smaller dyadic bound (any denominators) is still a lower bound *)
Theorem log2_lb_holds_mono : forall m1 k1 m2 k2 p q, 0 <= p -> 0 <= q ->
  dy_le (m1, k1) (m2, k2) -> log2_lb_holds m2 k2 p q -> log2_lb_holds m1 k1 p q.
Proof.
  intros m1 k1 m2 k2 p q Hp Hq L H. unfold dy_le in L. cbn [fst snd] in L.
  apply (lb_holds_scale k2 m1 k1 p q Hp Hq).
  apply (proj1 (lb_holds_scale k1 m2 k2 p q Hp Hq)) in H.
  replace (k1 + k2)%nat with (k2 + k1)%nat by lia.
  revert H. apply lb_holds_same_k; assumption.
Qed.

(** a larger dyadic bound is still an upper bound *)
Theorem log2_ub_holds_mono : forall m1 k1 m2 k2 p q, 0 <= p -> 0 <= q ->
  dy_le (m1, k1) (m2, k2) -> log2_ub_holds m1 k1 p q -> log2_ub_holds m2 k2 p q.
Proof.
  intros m1 k1 m2 k2 p q Hp Hq L H. unfold log2_ub_holds in *.
  apply (log2_lb_holds_mono (- m2) k2 (- m1) k1 q p Hq Hp); [|exact H].
  unfold dy_le in *. cbn [fst snd] in *. lia.
Qed.

Example log2_lb_holds_mono_ex : dy_le (11, 3%nat) (3, 1%nat) /\ log2_lb_holds 3 1 3 1 /\ log2_lb_holds 11 3 3 1.
Proof.
  assert (dy_le (11, 3%nat) (3, 1%nat)) as L by (unfold dy_le; cbn; lia).
  assert (log2_lb_holds 3 1 3 1) as H by (unfold log2_lb_holds; cbn; lia).
  split; [exact L|]. split; [exact H|].
  exact (log2_lb_holds_mono 11 3 3 1 3 1 ltac:(lia) ltac:(lia) L H).
Qed.

Example log2_ub_holds_mono_ex : dy_le (13, 3%nat) (7, 2%nat) /\ log2_ub_holds 13 3 3 1 /\ log2_ub_holds 7 2 3 1.
Proof.
  assert (dy_le (13, 3%nat) (7, 2%nat)) as L by (unfold dy_le; cbn; lia).
  assert (log2_ub_holds 13 3 3 1) as H by (apply log2_lb_exact_spec; vm_compute; reflexivity).
  split; [exact L|]. split; [exact H|].
  exact (log2_ub_holds_mono 13 3 7 2 3 1 ltac:(lia) ltac:(lia) L H).
Qed.

(** * 2. next_up / next_down: the bit functions of the source and the (mantissa, exponent) description *)

Lemma land_clear_sign : forall b, Z.land b 0x7fffffff = b mod 2 ^ 31.
Proof. intros b. change 0x7fffffff with (Z.ones 31). apply Z.land_ones. lia. Qed.

(** a pattern ex * 2^23 + fr *)
Lemma pack_div_mod : forall ex fr, 0 <= fr < 2 ^ 23 ->
  (ex * 2 ^ 23 + fr) / 2 ^ 23 = ex /\ (ex * 2 ^ 23 + fr) mod 2 ^ 23 = fr.
Proof.
  intros ex fr H. split.
  - symmetry. apply (Z.div_unique _ _ ex fr); [left; exact H | ring].
  - symmetry. apply (Z.mod_unique _ _ ex fr); [left; exact H | ring].
Qed.

Lemma pos_pattern_bit31 : forall b, 0 <= b < 2 ^ 31 -> Z.testbit b 31 = false.
Proof.
  intros b H. apply Z.testbit_false; [lia|]. rewrite Z.div_small by exact H. reflexivity.
Qed.

Definition nf_ok (x : nf) : Prop := 2 ^ 23 <= fst x < 2 ^ 24 /\ -149 <= snd x <= 104.

(** positive normal patterns are exactly the nf values *)
Lemma nf_of_bits_ok : forall b, 2 ^ 23 <= b < 255 * 2 ^ 23 -> nf_ok (nf_of_bits b) /\ nf_bits (nf_of_bits b) = b.
Proof.
  intros b H. unfold nf_ok, nf_of_bits, nf_bits. cbn [fst snd].
  pose proof (Z.mod_pos_bound b (2 ^ 23) ltac:(lia)) as M.
  pose proof (Z.div_mod b (2 ^ 23) ltac:(lia)) as D.
  assert (1 <= b / 2 ^ 23) by (apply Z.div_le_lower_bound; lia).
  assert (b / 2 ^ 23 < 255) by (apply Z.div_lt_upper_bound; lia).
  repeat split; lia.
Qed.

Lemma nf_bits_range : forall x, nf_ok x -> 2 ^ 23 <= nf_bits x < 255 * 2 ^ 23 /\ nf_of_bits (nf_bits x) = x.
Proof.
  intros [m e] [Hm He]. cbn [fst snd] in Hm, He. unfold nf_bits, nf_of_bits.
  destruct (pack_div_mod (e + 150) (m - 2 ^ 23) ltac:(lia)) as [D M]. rewrite D, M.
  split; [lia|]. f_equal; lia.
Qed.

(** f32_decode of a positive normal pattern *)
Theorem f32_decode_nf : forall b, 2 ^ 23 <= b < 255 * 2 ^ 23 ->
  f32_decode b = FFin (fst (nf_of_bits b)) (snd (nf_of_bits b)).
Proof.
  intros b H. unfold f32_decode, nf_of_bits. cbn [fst snd].
  rewrite pos_pattern_bit31 by lia.
  assert (1 <= b / 2 ^ 23) by (apply Z.div_le_lower_bound; lia).
  assert (b / 2 ^ 23 < 255) by (apply Z.div_lt_upper_bound; lia).
  rewrite (Z.mod_small (b / 2 ^ 23) 256) by lia.
  destruct (Z.eqb_spec (b / 2 ^ 23) 255) as [E|_]; [lia|].
  destruct (Z.eqb_spec (b / 2 ^ 23) 0) as [E|_]; [lia|]. reflexivity.
Qed.

(** the source's next_up on a positive normal pattern (result still finite) is +1 unit in the last place *)
Theorem f32_next_up_bits_nf : forall b, 2 ^ 23 <= b < 255 * 2 ^ 23 - 1 ->
  f32_next_up_bits b = nf_bits (nf_next_up (nf_of_bits b)) /\
  f32_decode (f32_next_up_bits b) =
    FFin (fst (nf_next_up (nf_of_bits b))) (snd (nf_next_up (nf_of_bits b))).
Proof.
  intros b H.
  assert (f32_next_up_bits b = b + 1) as E.
  { unfold f32_next_up_bits. rewrite land_clear_sign, Z.mod_small by lia.
    destruct (Z.eqb_spec b 0) as [Z0|_]; [lia|]. rewrite Z.eqb_refl. reflexivity. }
  assert (nf_bits (nf_next_up (nf_of_bits b)) = b + 1) as E2.
  { unfold nf_of_bits, nf_next_up, nf_bits.
    pose proof (Z.mod_pos_bound b (2 ^ 23) ltac:(lia)) as M.
    pose proof (Z.div_mod b (2 ^ 23) ltac:(lia)) as D.
    destruct (Z.eqb_spec (b mod 2 ^ 23 + 2 ^ 23 + 1) (2 ^ 24)) as [C|C]; lia. }
  split; [rewrite E, E2; reflexivity|].
  rewrite E. rewrite f32_decode_nf by lia. rewrite <- E2.
  assert (nf_ok (nf_next_up (nf_of_bits b))) as OK.
  { destruct (nf_of_bits_ok b ltac:(lia)) as [[Om Oe] _]. unfold nf_ok, nf_next_up.
    destruct (nf_of_bits b) as [m e]. cbn [fst snd] in *.
    destruct (Z.eqb_spec (m + 1) (2 ^ 24)) as [C|C]; cbn [fst snd]; [|lia].
    (* carry into the exponent: e + 1 <= 104 because b + 1 is still finite *)
    assert (e + 1 <= 104); [|lia].
    destruct (Z_le_gt_dec (e + 1) 104) as [L|G]; [exact L|exfalso].
    assert (nf_bits (2 ^ 23, e + 1) = b + 1) as E3.
    { revert E2. unfold nf_next_up. destruct (Z.eqb_spec (m + 1) (2 ^ 24)); [auto|lia]. }
    unfold nf_bits in E3. lia. }
  rewrite (proj2 (nf_bits_range _ OK)). reflexivity.
Qed.

(** the source's next_down on a positive normal pattern above the smallest normal is -1 unit in the
    last place, the unit being halved when the value is a power of two *)
Theorem f32_next_down_bits_nf : forall b, 2 ^ 23 < b < 255 * 2 ^ 23 ->
  f32_next_down_bits b = nf_bits (nf_next_down (nf_of_bits b)) /\
  f32_decode (f32_next_down_bits b) =
    FFin (fst (nf_next_down (nf_of_bits b))) (snd (nf_next_down (nf_of_bits b))).
Proof.
  intros b H.
  assert (f32_next_down_bits b = b - 1) as E.
  { unfold f32_next_down_bits. rewrite land_clear_sign, Z.mod_small by lia.
    destruct (Z.eqb_spec b 0) as [Z0|_]; [lia|]. rewrite Z.eqb_refl. reflexivity. }
  assert (nf_bits (nf_next_down (nf_of_bits b)) = b - 1) as E2.
  { unfold nf_of_bits, nf_next_down, nf_bits.
    pose proof (Z.mod_pos_bound b (2 ^ 23) ltac:(lia)) as M.
    pose proof (Z.div_mod b (2 ^ 23) ltac:(lia)) as D.
    destruct (Z.eqb_spec (b mod 2 ^ 23 + 2 ^ 23) (2 ^ 23)) as [C|C]; lia. }
  split; [rewrite E, E2; reflexivity|].
  rewrite E. rewrite f32_decode_nf by lia. rewrite <- E2.
  assert (nf_ok (nf_next_down (nf_of_bits b))) as OK.
  { destruct (nf_of_bits_ok b ltac:(lia)) as [[Om Oe] _]. unfold nf_ok, nf_next_down.
    destruct (nf_of_bits b) as [m e] eqn:EB. cbn [fst snd] in *.
    destruct (Z.eqb_spec m (2 ^ 23)) as [C|C]; cbn [fst snd]; [|lia].
    assert (-149 <= e - 1); [|lia].
    destruct (Z_le_gt_dec (-149) (e - 1)) as [L|G]; [exact L|exfalso].
    assert (nf_bits (2 ^ 24 - 1, e - 1) = b - 1) as E3.
    { revert E2. unfold nf_next_down. destruct (Z.eqb_spec m (2 ^ 23)); [auto|lia]. }
    unfold nf_bits in E3. lia. }
  rewrite (proj2 (nf_bits_range _ OK)). reflexivity.
Qed.

(** what the description means: for v = m * 2^e, 2^23 <= m < 2^24 (so 2^(e+23) <= v < 2^(e+24)),
    next_up v = v + 2^e, again normalised *)
Theorem nf_next_up_value : forall m e, 2 ^ 23 <= m < 2 ^ 24 ->
  let '(m', e') := nf_next_up (m, e) in
  2 ^ 23 <= m' < 2 ^ 24 /\ e <= e' /\ m' * 2 ^ (e' - e) = m + 1.
Proof.
  intros m e H. unfold nf_next_up. destruct (Z.eqb_spec (m + 1) (2 ^ 24)) as [C|C].
  - replace (e + 1 - e) with 1 by lia. lia.
  - rewrite Z.sub_diag, Z.pow_0_r. lia.
Qed.

(** next_down v = v - 2^e, and v - 2^(e-1) when v = 2^(e+23) *)
Theorem nf_next_down_value : forall m e, 2 ^ 23 <= m < 2 ^ 24 ->
  let '(m', e') := nf_next_down (m, e) in
  2 ^ 23 <= m' < 2 ^ 24 /\ e' <= e /\ m' = m * 2 ^ (e - e') - 1 /\ (e' = e \/ (m = 2 ^ 23 /\ e' = e - 1)).
Proof.
  intros m e H. unfold nf_next_down. destruct (Z.eqb_spec m (2 ^ 23)) as [C|C].
  - replace (e - (e - 1)) with 1 by lia. lia.
  - rewrite Z.sub_diag, Z.pow_0_r. lia.
Qed.

Example f32_next_bits_ex :
  f32_next_up_bits 0x41800000 = 0x41800001 /\ f32_next_down_bits 0x41800000 = 0x417fffff /\
  f32_decode 0x41800000 = FFin (2 ^ 23) (-19) /\ f32_decode 0x417fffff = FFin (2 ^ 24 - 1) (-20) /\
  f32_next_up_bits 0 = 1 /\ f32_next_down_bits 0 = 0x80000001 /\ f32_next_up_bits 0x80000000 = 1 /\
  f32_next_up_bits 0xc1800000 = 0xc17fffff /\ f32_next_down_bits 0xc1800000 = 0xc1800001 /\
  f32_next_up_asis 0x7f800000 = Panic Undocumented /\ f32_next_down_asis 0x7fc00000 = Panic Undocumented.
Proof. repeat split; vm_compute; reflexivity. Qed.

(** * 3. the fixed point value M / 256 as an f32, and the direction of next_down / next_up *)

Lemma bitlen_spec : forall M, 0 < M -> 2 ^ (bitlen M - 1) <= M < 2 ^ bitlen M.
Proof.
  intros M H. unfold bitlen. replace (Z.log2 M + 1 - 1) with (Z.log2 M) by lia.
  pose proof (Z.log2_spec M H) as S. unfold Z.succ in S. exact S.
Qed.

Lemma bitlen_range : forall M c, 0 <= c -> 0 < M < 2 ^ c -> 1 <= bitlen M <= c.
Proof.
  intros M c Hc H. unfold bitlen. pose proof (Z.log2_nonneg M).
  assert (Z.log2 M < c) by (apply Z.log2_lt_pow2; lia). lia.
Qed.

(** side condition of line 214: M / 256 with 0 < M < 2^24 IS an f32 value (24 significant bits are
    enough), namely the positive normal value nf_of_fp8 M; so the IEEE sum lb/256 + shift, whose exact
    value is (lb + 256*shift) / 256, is computed without rounding *)
Theorem fp8_is_f32 : forall M, 0 < M < 2 ^ 24 ->
  let '(m, e) := nf_of_fp8 M in
  2 ^ 23 <= m < 2 ^ 24 /\ -31 <= e <= -8 /\ m * 2 ^ 8 = M * 2 ^ (- e) /\
  f32_decode (nf_bits (m, e)) = FFin m e.
Proof.
  intros M H. unfold nf_of_fp8.
  pose proof (bitlen_range M 24 ltac:(lia) H) as R. pose proof (bitlen_spec M ltac:(lia)) as S.
  set (L := bitlen M) in *.
  assert (2 ^ 23 = 2 ^ (L - 1) * 2 ^ (24 - L)) as E1 by (rewrite <- Z.pow_add_r by lia; f_equal; lia).
  assert (2 ^ 24 = 2 ^ L * 2 ^ (24 - L)) as E2 by (rewrite <- Z.pow_add_r by lia; f_equal; lia).
  assert (0 < 2 ^ (24 - L)) as P0 by (apply Z.pow_pos_nonneg; lia).
  assert (2 ^ 23 <= M * 2 ^ (24 - L) < 2 ^ 24) as Rm.
  { rewrite E1, E2. split; [apply Z.mul_le_mono_nonneg_r; lia | apply Z.mul_lt_mono_pos_r; lia]. }
  split; [exact Rm|]. split; [lia|]. split.
  - replace (- (L - 32)) with ((24 - L) + 8) by lia. rewrite Z.pow_add_r by lia. ring.
  - assert (nf_ok (M * 2 ^ (24 - L), L - 32)) as OK by (unfold nf_ok; cbn [fst snd]; lia).
    destruct (nf_bits_range _ OK) as [RB EB]. rewrite f32_decode_nf by exact RB. rewrite EB. reflexivity.
Qed.

Example fp8_is_f32_ex : nf_of_fp8 4096 = (2 ^ 23, -19) /\ nf_bits (nf_of_fp8 4096) = 0x41800000 /\
  nf_of_fp8 (4095 + 256 * 112) = (32767 * 2 ^ 9, -17).
Proof. repeat split; vm_compute; reflexivity. Qed.

(** next_down only lowers, next_up only raises (as dyadic fractions) *)
Lemma fp8_next_down_le : forall M, 0 < M < 2 ^ 24 ->
  dy_le (nf_dy (nf_next_down (nf_of_fp8 M))) (M, 8%nat).
Proof.
  intros M H. pose proof (fp8_is_f32 M H) as F. destruct (nf_of_fp8 M) as [m e].
  destruct F as [Rm [Re [V _]]]. unfold nf_next_down, dy_le.
  destruct (Z.eqb_spec m (2 ^ 23)) as [C|C]; cbn [nf_dy fst snd].
  - rewrite Z2Nat.id by lia. replace (- (e - 1)) with (1 + - e) by lia.
    rewrite Z.pow_add_r by lia. change (Z.of_nat 8) with 8. lia.
  - rewrite Z2Nat.id by lia. change (Z.of_nat 8) with 8. lia.
Qed.

Lemma fp8_next_up_ge : forall M, 0 < M < 2 ^ 24 ->
  dy_le (M, 8%nat) (nf_dy (nf_next_up (nf_of_fp8 M))).
Proof.
  intros M H. pose proof (fp8_is_f32 M H) as F. destruct (nf_of_fp8 M) as [m e].
  destruct F as [Rm [Re [V _]]]. unfold nf_next_up, dy_le.
  destruct (Z.eqb_spec (m + 1) (2 ^ 24)) as [C|C]; cbn [nf_dy fst snd].
  - rewrite Z2Nat.id by lia. change (Z.of_nat 8) with 8.
    replace (- e) with (1 + - (e + 1)) in V by lia. rewrite Z.pow_add_r in V by lia. lia.
  - rewrite Z2Nat.id by lia. change (Z.of_nat 8) with 8. lia.
Qed.

(** the mantissas of the answers fit 24 bits (the oracle can turn them into f32 patterns) *)
Lemma fp8_next_mantissas : forall M, 0 < M < 2 ^ 24 ->
  2 ^ 23 <= fst (nf_dy (nf_next_down (nf_of_fp8 M))) < 2 ^ 24 /\
  2 ^ 23 <= fst (nf_dy (nf_next_up (nf_of_fp8 M))) < 2 ^ 24.
Proof.
  intros M H. pose proof (fp8_is_f32 M H) as F. destruct (nf_of_fp8 M) as [m e].
  destruct F as [Rm _]. unfold nf_next_down, nf_next_up.
  destruct (Z.eqb_spec m (2 ^ 23)); destruct (Z.eqb_spec (m + 1) (2 ^ 24)); cbn [nf_dy fst]; lia.
Qed.

(** * 4. the shift argument *)

Lemma wide_split : forall n, 2 ^ 16 <= n ->
  let s := nostd_wide_shift n in let hi := nostd_wide_hi n in
  1 <= s /\ s = Z.log2 n - 15 /\ 2 ^ 15 <= hi < 2 ^ 16 /\ hi * 2 ^ s <= n < (hi + 1) * 2 ^ s.
Proof.
  intros n H. cbv zeta. unfold nostd_wide_hi, nostd_wide_shift, bitlen.
  assert (16 <= Z.log2 n) as L16 by (apply Z.log2_le_pow2; lia).
  pose proof (Z.log2_spec n ltac:(lia)) as S. unfold Z.succ in S.
  set (b := Z.log2 n) in *. replace (b + 1 - 16) with (b - 15) by lia.
  rewrite Z.shiftr_div_pow2 by lia.
  assert (0 < 2 ^ (b - 15)) as P0 by (apply Z.pow_pos_nonneg; lia).
  assert (2 ^ b = 2 ^ 15 * 2 ^ (b - 15)) as E1 by (rewrite <- Z.pow_add_r by lia; f_equal; lia).
  assert (2 ^ (b + 1) = 2 ^ 16 * 2 ^ (b - 15)) as E2 by (rewrite <- Z.pow_add_r by lia; f_equal; lia).
  pose proof (Z.div_mod n (2 ^ (b - 15)) ltac:(lia)) as D.
  pose proof (Z.mod_pos_bound n (2 ^ (b - 15)) P0) as M.
  split; [lia|]. split; [lia|]. split.
  - split; [apply Z.div_le_lower_bound; lia | apply Z.div_lt_upper_bound; lia].
  - set (hi := n / 2 ^ (b - 15)) in *. set (T := 2 ^ (b - 15)) in *. clearbody hi T. clear - D M. nia.
Qed.

Lemma wide_ub_check_all : forallb wide_ub_check (zrange 32768 (Z.to_nat 32768)) = true.
Proof. vm_cast_no_check (eq_refl true). Qed.

Lemma wide_range_check_all : forallb wide_range_check (zrange 32768 (Z.to_nat 32768)) = true.
Proof. vm_cast_no_check (eq_refl true). Qed.

(** the source's claim "the ceiling handled by the highest word will cover the requirement for ceiling
    the low bits": for every possible top word hi (2^15 <= hi < 2^16) the upper estimate of hi is an
    upper bound of log2 (hi + 1), i.e. (hi + 1)^256 <= 2^(ub hi)  (finite domain, by computation) *)
Theorem wide_ub_covers_low_bits : forall hi, 2 ^ 15 <= hi < 2 ^ 16 ->
  log2_ub_holds (nostd_wide_ub hi) 8 (hi + 1) 1.
Proof.
  intros hi H. pose proof wide_ub_check_all as A. rewrite forallb_forall in A.
  specialize (A hi (zrange_in' 32768 32768 hi ltac:(lia) ltac:(lia))). unfold wide_ub_check in A.
  destruct (log2_lb_dec 40 (- nostd_wide_ub hi) 8 1 (hi + 1)) as [[|]|] eqn:E; try discriminate.
  exact (log2_lb_dec_sound 40 (- nostd_wide_ub hi) 8 1 (hi + 1) true ltac:(lia) ltac:(lia) E).
Qed.

Theorem wide_top_range : forall hi, 2 ^ 15 <= hi < 2 ^ 16 ->
  15 * 256 <= log2_fp8 hi <= 4095 /\ 15 * 256 < nostd_wide_ub hi <= 4096.
Proof.
  intros hi H. pose proof wide_range_check_all as A. rewrite forallb_forall in A.
  specialize (A hi (zrange_in' 32768 32768 hi ltac:(lia) ltac:(lia))). unfold wide_range_check in A.
  apply andb_prop in A. destruct A as [A A4]. apply andb_prop in A. destruct A as [A A3].
  apply andb_prop in A. destruct A as [A1 A2].
  apply Z.leb_le in A1, A2, A4. apply Z.ltb_lt in A3. lia.
Qed.

(** the lower estimate of the top word (the wide code calls log2_fp8 also on hi = 2^15) *)
Theorem wide_lb_top : forall hi, 2 ^ 15 <= hi < 2 ^ 16 -> log2_lb_holds (log2_fp8 hi) 8 hi 1.
Proof.
  intros hi H. destruct (pow2b hi) eqn:P.
  - (* the only power of two in range is 2^15 *)
    unfold pow2b in P. apply andb_prop in P. destruct P as [_ P]. apply Z.eqb_eq in P.
    assert (Z.log2 hi = 15) as L.
    { apply Z.log2_unique; [lia|]. unfold Z.succ. lia. }
    rewrite L in P. subst hi. apply log2_lb_exact_spec. vm_compute. reflexivity.
  - pose proof (nostd_log2_u16_encloses hi ltac:(lia)) as E. unfold nostd_log2_u16 in E.
    destruct (Z.leb_spec hi 0xff) as [C|_]; [lia|]. rewrite P in E. exact (proj1 E).
Qed.

Lemma lb_shift : forall m0 s hi n, 0 <= m0 -> 0 <= s -> 0 <= hi -> hi * 2 ^ s <= n ->
  log2_lb_holds m0 8 hi 1 -> log2_lb_holds (m0 + 256 * s) 8 n 1.
Proof.
  intros m0 s hi n Hm Hs Hh Hn H.
  assert (Z.max m0 0 = m0) as E1 by lia. assert (Z.max (- m0) 0 = 0) as E2 by lia.
  assert (Z.max (m0 + 256 * s) 0 = m0 + s * 256) as E3 by lia.
  assert (Z.max (- (m0 + 256 * s)) 0 = 0) as E4 by lia.
  assert (0 <= 2 ^ s) as P0 by (apply Z.pow_nonneg; lia).
  assert (0 <= hi * 2 ^ s) as P1 by (apply Z.mul_nonneg_nonneg; assumption).
  unfold log2_lb_holds in *. rewrite E1, E2 in H. rewrite E3, E4.
  set (K := 2 ^ Z.of_nat 8) in *. assert (0 <= K) as HK by (unfold K; apply Z.pow_nonneg; lia).
  rewrite Z.pow_1_l in * by exact HK. rewrite Z.pow_0_r, Z.mul_1_r, Z.mul_1_l in *.
  rewrite Z.pow_add_r by (try apply Z.mul_nonneg_nonneg; assumption).
  replace (2 ^ (s * 256)) with ((2 ^ s) ^ K) by (unfold K; rewrite <- Z.pow_mul_r by lia; reflexivity).
  apply Z.le_trans with ((hi * 2 ^ s) ^ K).
  - rewrite Z.pow_mul_l. apply Z.mul_le_mono_nonneg_r; [apply Z.pow_nonneg; exact P0 | exact H].
  - apply Z.pow_le_mono_l. split; assumption.
Qed.

Lemma ub_shift : forall u0 s hi n, 0 <= u0 -> 0 <= s -> 0 <= hi -> 0 <= n < (hi + 1) * 2 ^ s ->
  log2_ub_holds u0 8 (hi + 1) 1 -> log2_ub_holds (u0 + 256 * s) 8 n 1.
Proof.
  intros u0 s hi n Hu Hs Hh [Hn0 Hn] H.
  assert (Z.max u0 0 = u0) as E1 by lia. assert (Z.max (- u0) 0 = 0) as E2 by lia.
  assert (Z.max (u0 + 256 * s) 0 = u0 + s * 256) as E3 by lia.
  assert (Z.max (- (u0 + 256 * s)) 0 = 0) as E4 by lia.
  assert (0 <= 2 ^ s) as P0 by (apply Z.pow_nonneg; lia).
  assert (n <= (hi + 1) * 2 ^ s) as Hn' by lia.
  unfold log2_ub_holds, log2_lb_holds in *. rewrite !Z.opp_involutive in *.
  rewrite E1, E2 in H. rewrite E3, E4.
  set (K := 2 ^ Z.of_nat 8) in *. assert (0 <= K) as HK by (unfold K; apply Z.pow_nonneg; lia).
  rewrite Z.pow_1_l in * by exact HK. rewrite Z.pow_0_r, Z.mul_1_r, Z.mul_1_l in *.
  rewrite Z.pow_add_r by (try apply Z.mul_nonneg_nonneg; assumption).
  replace (2 ^ (s * 256)) with ((2 ^ s) ^ K) by (unfold K; rewrite <- Z.pow_mul_r by lia; reflexivity).
  apply Z.le_trans with (((hi + 1) * 2 ^ s) ^ K).
  - apply Z.pow_le_mono_l. split; assumption.
  - rewrite Z.pow_mul_l. apply Z.mul_le_mono_nonneg_r; [apply Z.pow_nonneg; exact P0 | exact H].
Qed.

(** the two sums of line 214, before next_down / next_up, already enclose log2 n: for EVERY n >= 2^16
    (all widths at once; n need not even be a non-power of two)
      2^(lb + 256 shift) <= n^256 <= 2^(ub + 256 shift) *)
Theorem nostd_wide_sums_enclose : forall n, 2 ^ 16 <= n ->
  log2_lb_holds (nostd_wide_lb256 n) 8 n 1 /\ log2_ub_holds (nostd_wide_ub256 n) 8 n 1.
Proof.
  intros n H. pose proof (wide_split n H) as S. cbv zeta in S.
  destruct S as [S1 [_ [Rh [N1 N2]]]]. unfold nostd_wide_lb256, nostd_wide_ub256.
  set (s := nostd_wide_shift n) in *. set (hi := nostd_wide_hi n) in *.
  pose proof (wide_top_range hi Rh) as [T1 T2].
  split.
  - apply (lb_shift _ s hi n); try lia. apply wide_lb_top; exact Rh.
  - apply (ub_shift _ s hi n); try lia. apply wide_ub_covers_low_bits; exact Rh.
Qed.

Example nostd_wide_sums_ex : nostd_wide_hi 0x12345678 = 0x91a2 /\ nostd_wide_shift 0x12345678 = 13 /\
  nostd_wide_lb256 0x12345678 = 7215 /\ nostd_wide_ub256 0x12345678 = 7217.
Proof. repeat split; vm_compute; reflexivity. Qed.

(** the sums are positive and below 2^24 whenever the shift is below 65000 (u128: shift <= 112) *)
Lemma nostd_wide_sums_range : forall n, 2 ^ 16 <= n -> Z.log2 n < 65000 ->
  0 < nostd_wide_lb256 n < 2 ^ 24 /\ 0 < nostd_wide_ub256 n < 2 ^ 24.
Proof.
  intros n H L. pose proof (wide_split n H) as S. cbv zeta in S.
  destruct S as [S1 [S2 [Rh _]]]. unfold nostd_wide_lb256, nostd_wide_ub256.
  pose proof (wide_top_range _ Rh) as [T1 T2]. lia.
Qed.

Lemma log2_lt_128 : forall n, 0 < n < 2 ^ 128 -> Z.log2 n < 65000.
Proof. intros n H. assert (Z.log2 n < 128) by (apply Z.log2_lt_pow2; lia). lia. Qed.

(** * 5. the enclosure theorem *)

(** on u8 / u16 values the wide code answers exactly as the u16 code *)
Theorem nostd_log2_wide_u16 : forall n, 0 <= n <= 65535 -> nostd_log2_wide n = nostd_log2_u16 n.
Proof.
  intros n H. unfold nostd_log2_wide, nostd_log2_u16.
  destruct (Z.leb_spec n 0xff) as [C|C]; [reflexivity|].
  destruct (pow2b n); [reflexivity|].
  destruct (Z.leb_spec (bitlen n) 16) as [B|B]; [reflexivity|exfalso].
  unfold bitlen in B. assert (Z.log2 n < 16) by (apply Z.log2_lt_pow2; lia). lia.
Qed.

(** which branch a value >= 2^16 that is not a power of two takes *)
Lemma nostd_log2_wide_branch : forall n, 2 ^ 16 <= n -> pow2b n = false ->
  nostd_log2_wide n = Some (nf_dy (nf_next_down (nf_of_fp8 (nostd_wide_lb256 n))),
                            nf_dy (nf_next_up (nf_of_fp8 (nostd_wide_ub256 n)))).
Proof.
  intros n H P. unfold nostd_log2_wide. rewrite P.
  destruct (Z.leb_spec n 0xff) as [C|_]; [lia|].
  destruct (Z.leb_spec (bitlen n) 16) as [B|_]; [exfalso|reflexivity].
  unfold bitlen in B. assert (16 <= Z.log2 n) by (apply Z.log2_le_pow2; lia). lia.
Qed.

Lemma pow2_bounds_exact : forall b, 0 <= b -> log2_lb_holds b 0 (2 ^ b) 1 /\ log2_ub_holds b 0 (2 ^ b) 1.
Proof.
  intros b H. unfold log2_ub_holds, log2_lb_holds. cbn [Z.of_nat].
  rewrite Z.opp_involutive, Z.pow_0_r, !Z.pow_1_r.
  rewrite (Z.max_l b 0), (Z.max_r (- b) 0), Z.pow_0_r by lia. lia.
Qed.

(** every answer of the no_std estimator of the wide unsigned types encloses log2 n:
    None only for 0, otherwise  lm / 2^lk <= log2 n <= um / 2^uk  (integer statements of GrlSpec.v,
    read over the reals by GrlLog2Real.v).  The hypothesis on the bit length covers every width up to
    65000 bits (it keeps lb/256 + shift below 2^16, hence exact in f32). *)
Theorem nostd_log2_wide_encloses_gen : forall n, 0 <= n -> Z.log2 n < 65000 ->
  match nostd_log2_wide n with
  | None => n = 0
  | Some ((lm, lk), (um, uk)) => log2_lb_holds lm lk n 1 /\ log2_ub_holds um uk n 1
  end.
Proof.
  intros n H0 HL. destruct (Z_le_gt_dec n 65535) as [S|S].
  - rewrite nostd_log2_wide_u16 by lia. apply nostd_log2_u16_encloses. lia.
  - destruct (pow2b n) eqn:P.
    + unfold nostd_log2_wide. rewrite P. destruct (Z.leb_spec n 0xff) as [C|_]; [lia|].
      unfold pow2b in P. apply andb_prop in P. destruct P as [_ P]. apply Z.eqb_eq in P.
      pose proof (pow2_bounds_exact (Z.log2 n) (Z.log2_nonneg n)) as B. rewrite <- P in B. exact B.
    + rewrite nostd_log2_wide_branch by (try exact P; lia).
      pose proof (nostd_wide_sums_enclose n ltac:(lia)) as [EL EU].
      pose proof (nostd_wide_sums_range n ltac:(lia) HL) as [RL RU].
      pose proof (fp8_next_down_le _ RL) as DL. pose proof (fp8_next_up_ge _ RU) as DU.
      destruct (nf_dy (nf_next_down (nf_of_fp8 (nostd_wide_lb256 n)))) as [lm lk].
      destruct (nf_dy (nf_next_up (nf_of_fp8 (nostd_wide_ub256 n)))) as [um uk].
      split.
      * exact (log2_lb_holds_mono lm lk _ 8 n 1 ltac:(lia) ltac:(lia) DL EL).
      * exact (log2_ub_holds_mono _ 8 um uk n 1 ltac:(lia) ltac:(lia) DU EU).
Qed.

(** u32 / u64 / u128 / usize *)
Theorem nostd_log2_wide_encloses : forall n, 0 <= n < 2 ^ 128 ->
  match nostd_log2_wide n with
  | None => n = 0
  | Some ((lm, lk), (um, uk)) => log2_lb_holds lm lk n 1 /\ log2_ub_holds um uk n 1
  end.
Proof.
  intros n H. apply nostd_log2_wide_encloses_gen; [lia|].
  destruct (Z.eq_dec n 0) as [->|NZ]; [cbn; lia | apply log2_lt_128; lia].
Qed.

Example nostd_log2_wide_ex :
  nostd_log2_wide 0x12345678 = Some ((14776319, 19%nat), (14780417, 19%nat)) /\
  nostd_log2_wide 65537 = Some ((16777215, 20%nat), (8390657, 19%nat)) /\
  nostd_log2_wide (2 ^ 128 - 1) = Some ((16776703, 17%nat), (8388609, 16%nat)) /\
  nostd_log2_wide (2 ^ 100) = Some ((100, 0%nat), (100, 0%nat)) /\
  nostd_log2_wide 12345 = Some ((3478, 8%nat), (3480, 8%nat)) /\ nostd_log2_wide 0 = None.
Proof. repeat split; vm_compute; reflexivity. Qed.

(** * 6. the same answers as f32 bit patterns, through the source's own next_down / next_up *)

(** the patterns produced by the bit functions of the source decode (GrlSpec.f32_decode) to the
    (mantissa, exponent) pairs whose dyadic form nostd_log2_wide returns *)
Theorem nostd_wide_bits_decode : forall n, 2 ^ 16 <= n -> Z.log2 n < 65000 ->
  let lo := nf_next_down (nf_of_fp8 (nostd_wide_lb256 n)) in
  let up := nf_next_up (nf_of_fp8 (nostd_wide_ub256 n)) in
  nostd_wide_bits n = (nf_bits lo, nf_bits up) /\
  f32_decode (fst (nostd_wide_bits n)) = FFin (fst lo) (snd lo) /\
  f32_decode (snd (nostd_wide_bits n)) = FFin (fst up) (snd up) /\
  snd lo <= 0 /\ snd up <= 0.
Proof.
  intros n H HL. cbv zeta. unfold nostd_wide_bits. cbn [fst snd].
  pose proof (nostd_wide_sums_range n H HL) as [RL RU].
  pose proof (fp8_is_f32 _ RL) as FL. pose proof (fp8_is_f32 _ RU) as FU.
  destruct (nf_of_fp8 (nostd_wide_lb256 n)) as [ml el].
  destruct (nf_of_fp8 (nostd_wide_ub256 n)) as [mu eu].
  destruct FL as [Lm [Le _]]. destruct FU as [Um [Ue _]].
  assert (nf_ok (ml, el)) as OL by (unfold nf_ok; cbn [fst snd]; lia).
  assert (nf_ok (mu, eu)) as OU by (unfold nf_ok; cbn [fst snd]; lia).
  destruct (nf_bits_range _ OL) as [BL IL]. destruct (nf_bits_range _ OU) as [BU IU].
  assert (119 * 2 ^ 23 <= nf_bits (ml, el)) as BL' by (unfold nf_bits; lia).
  assert (nf_bits (mu, eu) < 143 * 2 ^ 23) as BU' by (unfold nf_bits; lia).
  destruct (f32_next_down_bits_nf (nf_bits (ml, el)) ltac:(lia)) as [D1 D2].
  destruct (f32_next_up_bits_nf (nf_bits (mu, eu)) ltac:(lia)) as [U1 U2].
  rewrite IL in D1, D2. rewrite IU in U1, U2.
  split; [rewrite D1, U1; reflexivity|]. split; [exact D2|]. split; [exact U2|].
  unfold nf_next_down, nf_next_up.
  destruct (Z.eqb_spec ml (2 ^ 23)); destruct (Z.eqb_spec (mu + 1) (2 ^ 24)); cbn [snd]; lia.
Qed.

Example nostd_wide_bits_ex :
  nostd_wide_bits 0x12345678 = (0x41e177ff, 0x41e18801) /\
  nostd_wide_bits 65537 = (0x417fffff, 0x41800801) /\
  nostd_wide_bits (2 ^ 128 - 1) = (0x42fffdff, 0x43000001).
Proof. repeat split; vm_compute; reflexivity. Qed.

(** * non-vacuity of the hypotheses used above *)
Example f32_next_bits_nf_ex :
  2 ^ 23 < 0x41800000 < 255 * 2 ^ 23 - 1 /\ nf_of_bits 0x41800000 = (2 ^ 23, -19) /\
  nf_next_up (2 ^ 23, -19) = (2 ^ 23 + 1, -19) /\ nf_next_down (2 ^ 23, -19) = (2 ^ 24 - 1, -20) /\
  nf_next_up (2 ^ 24 - 1, -20) = (2 ^ 23, -19) /\ nf_bits (2 ^ 24 - 1, -20) = 0x417fffff.
Proof. repeat split; first [lia | vm_compute; reflexivity]. Qed.

Example wide_ub_covers_low_bits_ex :
  2 ^ 15 <= 0xffff < 2 ^ 16 /\ nostd_wide_ub 0xffff = 4096 /\ nostd_wide_ub (2 ^ 15) = 3841 /\
  log2_fp8 (2 ^ 15) = 3840 /\ nostd_wide_ub 0x91a2 = 3889.
Proof. repeat split; first [lia | vm_compute; reflexivity]. Qed.

Example nostd_log2_wide_hyp_ex : 0 <= 0x12345678 < 2 ^ 128 /\ 2 ^ 16 <= 0x12345678 /\
  Z.log2 0x12345678 < 65000 /\ pow2b 0x12345678 = false.
Proof. repeat split; first [lia | vm_compute; reflexivity]. Qed.
