(** C12 - AS-IS model of the Karatsuba square root kernel (definitions only).
    Transcribed from integer/src/root.rs (sqrt_rem, sqrt_rem_42) and the caller
    integer/src/root_ops.rs (sqrt_rem_large).

    Level: Z-with-lengths.  A slice of [len] words is its value in [0, W^len), W = 2^w; every in-place
    primitive is modelled with its wrap-around and its carry / borrow flag exactly as the Rust helper
    returns it (add_in_place, sub_in_place, add_word_in_place, sub_one_in_place, add_mul_word_in_place,
    shr_in_place_with_carry, overflowing_add / overflowing_sub of double words); the i8 bookkeeping
    variable [c] is an integer (in the proof c*W^n + a_lo is the exact signed remainder at every step and
    |remainder| < 3*W^n, so c stays within -2..2 and the i8 never overflows).  Failed
    debug_asserts are [Panic Undocumented].  Taken through their contracts: DoubleWord::sqrt_rem
    (= Z.sqrt with remainder, C12 primitive roots), div::div_rem_in_place (remainder, quotient,
    quotient carry; proved in C02), sqr::sqr (= the square; C01). *)
From Dashu Require Import Base.Prelude.
Open Scope Z_scope.

Definition b2z (b : bool) : Z := if b then 1 else 0.

(** [M] = W^len: the number of values of the slice *)
Definition sub_ip (M x y : Z) : Z * bool := ((x - y) mod M, x <? y).   (* returns the borrow *)
Definition add_ip (M x y : Z) : Z * bool := ((x + y) mod M, M <=? x + y). (* returns the carry *)
(** [x as i8] for a Word x *)
Definition as_i8 (x : Z) : Z := (x + 128) mod 256 - 128.

Section K.
Variable w : Z.
Let W := 2 ^ w.

(** * fn sqrt_rem_42(b, a): a has exactly 4 words (root.rs:141-190) *)
Definition sqrt_rem_42 (A : Z) : result (Z * Z * bool) :=
  let a0 := A mod W in
  let a1 := (A / W) mod W in
  let hd := A / W ^ 2 in                                   (* highest_dword(a) *)
  let s1 := Z.sqrt hd in                                   (* (s1, r1) = highest_dword(a).sqrt_rem() *)
  let r1 := hd - s1 * s1 in
  if s1 =? 0 then Panic DivideBy0 else
  let r1_lo := r1 mod W in
  let r1_hi := r1 / W in
  let r0_hi := Z.lor ((r1_hi * 2 ^ (w - 1)) mod W) (r1_lo / 2) in   (* r1_hi << (WORD_BITS-1) | r1_lo >> 1 *)
  let r0_lo := Z.lor ((r1_lo * 2 ^ (w - 1)) mod W) (a1 / 2) in      (* r1_lo << (WORD_BITS-1) | a[1] >> 1 *)
  let r0 := r0_lo + r0_hi * W in
  let q := r0 / s1 in
  let u := r0 mod s1 in
  let '(q, u) := if 0 <? q / W then (q - 1, u + s1) else (q, u) in  (* if q >> WORD_BITS > 0 *)
  if W ^ 2 <=? u then Panic Undocumented else                        (* u += s1 overflow check *)
  let u := Z.lor ((u * 2) mod W ^ 2) (a1 mod 2) in                   (* u << 1 | (a[1] & 1) *)
  let q := q mod W in                                                (* q as Word *)
  let u_lo := u mod W in
  let u_hi := u / W in
  let s := q + s1 * W in                                             (* double_word(q, s1) *)
  let q2 := q * q in
  let '(r, borrow) := sub_ip (W ^ 2) (a0 + u_lo * W) q2 in           (* overflowing_sub *)
  let c := as_i8 u_hi - b2z borrow in
  if c <? 0 then
    let '(r, c1) := add_ip (W ^ 2) r s in
    if s =? 0 then Panic Undocumented else                           (* s -= 1 *)
    let s := s - 1 in
    let '(r, c2) := add_ip (W ^ 2) r s in
    Ok (s, r, 0 <? c + b2z c1 + b2z c2)
  else Ok (s, r, 0 <? c).

(** * fn sqrt_rem(b, a): a has 2n words, result (s, low n words of the remainder, its carry) *)
(** everything after the recursive call on the higher half, which returned [res].
    The slice sizes enter as numbers of values: [L] = W^split (b0, b1, q), [Hh] = W^h (s1, r1, u),
    [M] = W^n (a_lo, b), [LL] = W^(2*split) (q^2), [L2] = 2^(w*split-1) (the top bit of b[..split]),
    [oddn] = (2*split < n). *)
Definition kstep_abs (L Hh M LL L2 : Z) (oddn : bool) (A : Z) (res : Z * Z * bool) : result (Z * Z * bool) :=
  let b0 := A mod L in                                 (* a[..split] *)
  let b1 := (A / L) mod L in                           (* a[split..2*split] *)
  let '(s1, r1lo, r1_top) := res in
  (* if r1_top { carry = sub_in_place(a[2*split..split+n], b[split..]); debug_assert!(carry) } *)
  let '(r1', bo1) := if r1_top then sub_ip Hh r1lo s1 else (r1lo, true) in
  if negb bo1 then Panic Undocumented else
  (* FastDivideNormalized2::new(highest_dword(b)): the divisor must have its top bit set *)
  if s1 <? Hh / 2 then Panic Undocumented else
  (* step 2: div_rem_in_place(a[split..split+n], b[split..]) *)
  let D := b1 + r1' * L in
  let Q := D / s1 in
  let U := D mod s1 in
  let carry := L <=? Q in
  let Qlo := Q mod L in                                (* a_hi[..split], copied to b[..split] *)
  (* shr_in_place_with_carry(b[..split], 1, ((r1_top ^ carry) as Word) << (WORD_BITS - 1)) *)
  let qlow := Qlo / 2 + b2z (xorb r1_top carry) * L2 in
  let q_top := r1_top && carry in
  (* if a_hi[0] & 1 != 0 { c = add_in_place(a_lo[split..], b[split..]) } *)
  let '(ulo, c0) := if Z.odd Qlo then add_ip Hh U s1 else (U, false) in
  let alo := b0 + ulo * L in                           (* a_lo = a[..n] *)
  (* a_hi.fill(0); if !q_top { a_hi[..2*split] = q^2 } *)
  let q2 := if q_top then 0 else qlow * qlow in
  let '(ahi, c1) :=
    if oddn then (q2 + b2z q_top * LL, b2z c0)         (* a_hi[2*split] = q_top *)
    else (q2, b2z c0 - b2z q_top) in                   (* c -= q_top *)
  let '(alo, bo2) := sub_ip M alo ahi in               (* c -= sub_in_place(a_lo, a_hi) *)
  let c2 := c1 - b2z bo2 in
  let b := qlow + s1 * L in
  (* step 3 *)
  if c2 <? 0 then
    let '(s1', overflow) := add_ip Hh s1 (b2z q_top) in                  (* add_word_in_place(b[split..], q_top) *)
    let b := qlow + s1' * L in
    let t := alo + 2 * b in                            (* add_mul_word_in_place(a_lo, 2, b) *)
    let c3 := c2 + as_i8 (t / M) + 2 * b2z overflow in
    let '(alo, bo3) := sub_ip M (t mod M) 1 in         (* sub_one_in_place(a_lo) *)
    let c4 := c3 - b2z bo3 in
    let '(b, borrow) := sub_ip M b 1 in                (* sub_one_in_place(b) *)
    if xorb overflow borrow then Panic Undocumented else
    Ok (b, alo, 0 <? c4)
  else Ok (b, alo, 0 <? c2).

Definition kstep (n A : Z) (res : Z * Z * bool) : result (Z * Z * bool) :=
  let split := n / 2 in
  kstep_abs (W ^ split) (W ^ (n - split)) (W ^ n) (W ^ (2 * split)) (2 ^ (w * split - 1)) (2 * split <? n) A res.

Fixpoint ksqrt (fuel : nat) (n A : Z) : result (Z * Z * bool) :=
  match fuel with
  | O => OutOfFuel
  | S k =>
      if n <? 2 then Panic Undocumented                    (* debug_assert!(a.len() >= 4) *)
      else if n =? 2 then sqrt_rem_42 A
      else
        (* step 1: sqrt on the higher half a[2*split..], split = n / 2 *)
        rbind (ksqrt k (n - n / 2) (A / W ^ (2 * (n / 2)))) (kstep n A)
  end.

(** fuel that always suffices: the length at least halves (rounded up) and stops at 2 *)
Definition ksqrt_fuel (n : Z) : nat := Z.to_nat n.

(** * fn sqrt_rem_large(words, root_only = false) of root_ops.rs around the kernel.
    [x] has [len] >= 3 words.  Result (root, remainder). *)
Definition sqrt_rem_large_asis (x : Z) : result (Z * Z) :=
  let len := Z.log2 x / w + 1 in
  let lz := w * len - (Z.log2 x + 1) in                    (* words.last().leading_zeros() *)
  let shift := w * (len mod 2) + 2 * (lz / 2) in           (* lz & !1 *)
  let n := (len + 1) / 2 in
  let y := x * 2 ^ shift in                                (* shl_large_ref(words, shift): 2n words *)
  rbind (ksqrt (ksqrt_fuel n) n y) (fun res =>
    let '(s, rlo, r_top) := res in
    if shift =? 0 then Ok (s, rlo + b2z r_top * W ^ n)
    else
      let s0 := s mod 2 ^ (shift / 2) in                   (* out[0] & ((1 << shift/2) - 1) *)
      let t := rlo + 2 * s0 * s in                         (* add_mul_word_in_place(buffer[..n], 2*s0, out) *)
      let c1 := t / W ^ n in
      let '(t2, c2) := sub_ip (W ^ n) (t mod W ^ n) (s0 * s0) in      (* sub_dword_in_place *)
      let top := b2z r_top + c1 - b2z c2 in                (* buffer[n] = r_top as Word + c1 - c2 as Word *)
      if (top <? 0) || (W <=? top) then Panic Undocumented else
      let buf := t2 + top * W ^ n in
      let root := Z.shiftr s (shift / 2) in
      let buf := if w <=? shift then buf / W else buf in   (* shr_in_place_one_word; truncate *)
      Ok (root, Z.shiftr buf (shift mod w))).

End K.
