(** C17 (round 5) - the printers in a radix that is not a power of two (fmt/non_power_two.rs) keep every access to their
    fixed-size arrays in bounds: as-is models at VALUE level of
      PreparedWord::new      digits: [u8; MAX_WORD_DIGITS_NON_POW_2], `start_index -= 1` before each store
      PreparedMedium::new    repr_to_chunk_buffer copies the words into [Word; CHUNK_LEN]; low_groups[num_low_groups] for every
                             division by range_per_word; the inner `while buffer[buffer_len - 1] == 0` never reaches index -1
      write_chunk            the same buffer; after CHUNK_LEN divisions `assert_eq!(buffer_len, 0)`
      PreparedLarge::new     the dispatch test max_digits <= CHUNK_LEN * digits_per_word, the length test `2 * prev.len() - 1`,
                             the ladder of squares, the chain of divisions: every remainder is below its power, the top chunk
                             meets PreparedMedium's bound
      write_big_chunk        both halves are below the next lower power
    with every index / assertion / `usize` subtraction as a guard ([Err k]):
      160 low_groups index   161 buffer[buffer_len - 1] with buffer_len = 0   162 copy_from_slice beyond CHUNK_LEN
      163 assert_eq!(buffer_len, 0)   164 digits[start_index] with start_index = 0   165 `2 * prev.len() - 1` underflows
    The radix data: rpw = radix^dpw <= 2^w - 1 < radix^(dpw + 1) (max_exp_in_word).  Array lengths, tests and the exponent of the
    chunk power are REGENERATED (coq/gen/StorageGen5.v). *)
From Dashu Require Import Base.Prelude.
From DashuGen Require Import StorageGen5.
From Coq Require Import ZArith List Lia.
Import ListNotations.
Open Scope Z_scope.

Section Fmt.
Variable B : Z.        (* 2^w *)
Variable radix dpw rpw : Z.

(** number of words of x (0 for 0) - [fuel] words at most *)
Fixpoint wlen (fuel : nat) (x : Z) : Z :=
  match fuel with O => 0 | S f => if x =? 0 then 0 else 1 + wlen f (x / B) end.

(* ------------------------------------------------------------------ PreparedWord::new(word, radix, min_digits) *)
(** returns the width (number of digits stored); [cap] = the array length *)
Fixpoint word_digits (fuel : nat) (cap min_digits word start : Z) : result Z :=
  if (start >? cap - min_digits) || negb (word =? 0) then
    match fuel with
    | O => OutOfFuel
    | S f => if 0 <? start then word_digits f cap min_digits (word / radix) (start - 1) else Err 164
    end
  else Ok (cap - start).
Definition prepared_word (cap min_digits word : Z) : result Z := word_digits (Z.to_nat cap + 1) cap min_digits word cap.

(* ------------------------------------------------------------------ PreparedMedium::new *)
Fixpoint medium_loop (fuel : nat) (x n : Z) : result (Z * Z) :=
  if x <? B then Ok (x, n)                                     (* buffer_len <= 1 *)
  else match fuel with
       | O => OutOfFuel
       | S f =>
           if n <? gen5_fmt_low_groups_len then
             if x / rpw =? 0 then Err 161 else medium_loop f (x / rpw) (n + 1)
           else Err 160
       end.
(** (top word, num_low_groups) *)
Definition medium_new (len x : Z) : result (Z * Z) :=
  if len <=? gen5_fmt_chunk_buffer_len then medium_loop (Z.to_nat gen5_fmt_low_groups_len) x 0 else Err 162.

(* ------------------------------------------------------------------ write_chunk *)
Fixpoint chunk_loop (cnt : nat) (x : Z) : Z := match cnt with O => x | S c => chunk_loop c (x / rpw) end.
Definition write_chunk (len x : Z) : result unit :=
  if len <=? gen5_fmt_chunk_buffer_len then
    if chunk_loop (Z.to_nat gen5_fmt_chunk_len) x =? 0 then Ok tt else Err 163
  else Err 162.

(* ------------------------------------------------------------------ PreparedLarge *)
(** the ladder: [ps] holds the powers, the last pushed first *)
Fixpoint ladder (fuel : nat) (number nlen : Z) (wl : Z -> Z) (ps : list Z) : result (list Z) :=
  match ps with
  | [] => Err 30
  | prev :: _ =>
      if 1 <=? 2 * wl prev then
        if gen5_fmt_len_break (wl prev) nlen then Ok ps
        else if prev * prev >? number then Ok ps
        else match fuel with O => OutOfFuel | S f => ladder f number nlen wl (prev * prev :: ps) end
      else Err 165
  end.
(** the chain of divisions over the powers below the top one: returns (x, chunks) *)
Fixpoint chain (ps : list Z) (x : Z) (acc : list (Z * Z)) : Z * list (Z * Z) :=
  match ps with
  | [] => (x, acc)
  | p :: rest => if x >=? p then chain rest (x / p) ((p, x mod p) :: acc) else chain rest x acc
  end.
(** (top chunk value, [(power, remainder)]) - or the medium route when chunk_power > number *)
Definition large_new (fuel : nat) (wl : Z -> Z) (number : Z) : result (Z * list (Z * Z)) :=
  let cp := rpw ^ gen5_fmt_chunk_power_exp in
  if cp >? number then Ok (number, [])
  else match ladder fuel number (wl number) wl [cp] with
       | Ok (p :: rest) => Ok (chain rest (number / p) [(p, number mod p)])
       | Ok [] => Err 30
       | Panic r => Panic r | Err e => Err e | OutOfFuel => OutOfFuel
       end.

(** write_big_chunk(i, x): [ps] = radix_powers[i - 1], ..., radix_powers[0] *)
Fixpoint write_big (wl : Z -> Z) (ps : list Z) (x : Z) : result unit :=
  match ps with
  | [] => write_chunk (wl x) x
  | q :: rest => match write_big wl rest (x / q) with Ok _ => write_big wl rest (x mod q) | e => e end
  end.

(** fmt_non_power_two for a value of more than two words: the route and the width (number of digits written) *)
Definition fmt_dispatch (len : Z) : bool := gen5_fmt_medium_test (gen5_fmt_max_digits len dpw) dpw.

End Fmt.

(* ------------------------------------------------------------------ fmt/power_two.rs PreparedLarge: width and the first `bits` *)
(** math::ceil_div *)
Definition ceil_div5 (a b : Z) : Z := if a =? 0 then 0 else (a - 1) / b + 1.
Definition pow2_width (len w lz lr : Z) : result Z :=
  if lz <=? len * w then Ok (Z.max (ceil_div5 (gen5_fmt_pow2_bits len w lz) lr) gen5_fmt_pow2_min_width) else Err 166.   (* usize subtraction *)
(** `(self.width * log_radix - (len - 1) * WORD_BITS) as u32`: guard 166 the usize subtraction, 167 the value fits u32 *)
Definition pow2_first_bits (len w lz lr : Z) : result Z :=
  match pow2_width len w lz lr with
  | Ok width =>
      if (len - 1) * w <=? width * lr then
        let bits := gen5_fmt_pow2_first_bits width lr len w in
        if bits <? 2 ^ 32 then Ok bits else Err 167
      else Err 166
  | Panic r => Panic r | Err e => Err e | OutOfFuel => OutOfFuel
  end.
