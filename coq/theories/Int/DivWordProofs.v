(** C02 - proofs about the word-level kernels of DivWordModel.v: shifts, add/sub/sub_mul/cmp,
    division and remainder by a word, division by a double word (all shortcuts).
    For every word size w > 0; num-modular's primitives enter through their contracts. *)
From Dashu Require Import Base.Prelude Base.Words Int.DivWordModel.
Open Scope Z_scope.

Section DivWordProofs.
Variable w : Z.
Hypothesis w_pos : 0 < w.
Notation B := (Words.B w).
Notation value := (Words.value w).
Notation wf := (Words.wf w).

Variable div1by1 : Z -> Z -> Z * Z.
Variable div2by1 : Z -> Z -> Z * Z.
Variable div2by2 : Z -> Z -> Z * Z.
Variable div3by2 : Z -> Z -> Z -> Z * Z.
Variable div4by2 : Z -> Z -> Z -> Z * Z.

(** contracts of num-modular (Normalized2by1Divisor / Normalized3by2Divisor), d normalised *)
Definition norm1 (d : Z) : Prop := B <= 2 * d /\ d < B.
Definition norm2 (d : Z) : Prop := B * B <= 2 * d /\ d < B * B.
Hypothesis div1by1_ok : forall d a, norm1 d -> 0 <= a < B -> div1by1 d a = (a / d, a mod d).
Hypothesis div2by1_ok : forall d a, norm1 d -> 0 <= a < d * B -> div2by1 d a = (a / d, a mod d).
Hypothesis div2by2_ok : forall d a, norm2 d -> 0 <= a < B * B -> div2by2 d a = (a / d, a mod d).
Hypothesis div3by2_ok : forall d lo hi, norm2 d -> 0 <= lo < B -> 0 <= hi < d ->
  div3by2 d lo hi = ((lo + B * hi) / d, (lo + B * hi) mod d).
Hypothesis div4by2_ok : forall d lo hi, norm2 d -> 0 <= lo < B * B -> 0 <= hi < d ->
  div4by2 d lo hi = ((lo + B * B * hi) / d, (lo + B * B * hi) mod d).

Local Lemma Bpos : 0 < B. Proof. apply B_pos; lia. Qed.
Local Lemma Bge2 : 2 <= B. Proof. apply B_ge_2; lia. Qed.

Lemma B_split s : 0 <= s <= w -> B = 2 ^ (w - s) * 2 ^ s.
Proof. intros H. unfold Words.B. rewrite <- Z.pow_add_r by lia. f_equal. lia. Qed.

Lemma pow2_pos k : 0 <= k -> 0 < 2 ^ k.
Proof. intros. apply Z.pow_pos_nonneg; lia. Qed.

Lemma len_cons {A} (x : A) r : len (x :: r) = len r + 1.
Proof. unfold len. cbn [length]. lia. Qed.
Lemma len_nonneg {A} (l : list A) : 0 <= len l. Proof. unfold len. lia. Qed.
Lemma len_app {A} (a b : list A) : len (a ++ b) = len a + len b.
Proof. unfold len. rewrite app_length. lia. Qed.
Lemma Bpow_cons {A} (x : A) r : B ^ len (x :: r) = B * B ^ len r.
Proof. rewrite len_cons, Z.pow_add_r, Z.pow_1_r by (pose proof (len_nonneg r); lia). ring. Qed.
Lemma Bpow_pos k : 0 <= k -> 0 < B ^ k.
Proof. intros. apply Z.pow_pos_nonneg; [apply Bpos | lia]. Qed.

(** *** shifts *)
Lemma shl_loop_spec ws : forall s c, wf ws -> 0 < s < w -> 0 <= c < 2 ^ s ->
  forall r c', shl_loop w ws s c = (r, c') ->
  value r + B ^ len ws * c' = value ws * 2 ^ s + c /\ wf r /\ length r = length ws /\ 0 <= c' < 2 ^ s.
Proof.
  pose proof Bpos as HB.
  induction ws as [|x t IH]; intros s c Hwf Hs Hc r c' E; cbn [shl_loop] in E.
  - inversion E; subst. cbn [value]. unfold len; cbn [length Z.of_nat]. rewrite Z.pow_0_r.
    repeat split; try lia. apply wf_nil.
  - apply wf_cons in Hwf. destruct Hwf as [Hx Ht].
    destruct (shl_loop w t s (x * 2 ^ s / B)) as [r1 c1] eqn:E1. inversion E; subst; clear E.
    pose proof (pow2_pos s ltac:(lia)) as Hp. pose proof (pow2_pos (w - s) ltac:(lia)) as Hq.
    pose proof (B_split s ltac:(lia)) as HBs.
    assert (0 <= x * 2 ^ s / B < 2 ^ s) as Hc1.
    { split; [apply Z.div_pos; nia | apply Z.div_lt_upper_bound; nia]. }
    specialize (IH s _ Ht Hs Hc1 _ _ E1). destruct IH as (IHv & IHw & IHl & IHc).
    assert ((x * 2 ^ s) mod B = (x mod 2 ^ (w - s)) * 2 ^ s) as Hm.
    { rewrite HBs at 1. apply Z.mul_mod_distr_r; lia. }
    pose proof (Z.mod_pos_bound x (2 ^ (w - s)) Hq) as Hxm.
    pose proof (Z.div_mod (x * 2 ^ s) B ltac:(lia)) as Hdm.
    assert (0 <= (x * 2 ^ s) mod B + c < B) as Hword by (rewrite Hm; nia).
    rewrite Bpow_cons. cbn [value length].
    split; [|split; [apply wf_cons; split; [exact Hword | exact IHw] | split; lia]].
    assert (B * value r1 + B * (B ^ len t * c') = B * (value t * 2 ^ s) + B * (x * 2 ^ s / B)) as HH.
    { rewrite <- !Z.mul_add_distr_l. f_equal. exact IHv. }
    nia.
Qed.

Lemma shl_in_place_spec ws s : wf ws -> 0 <= s < w ->
  forall r c, shl_in_place w ws s = (r, c) ->
  value r + B ^ len ws * c = value ws * 2 ^ s /\ wf r /\ length r = length ws /\ 0 <= c < 2 ^ s.
Proof.
  intros Hwf Hs r c E. unfold shl_in_place in E. destruct (Z.eqb_spec s 0) as [->|Hne].
  - inversion E; subst. rewrite Z.pow_0_r. repeat split; try lia. exact Hwf.
  - pose proof (pow2_pos s ltac:(lia)).
    destruct (shl_loop_spec ws s 0 Hwf ltac:(lia) ltac:(lia) r c E) as (H1 & H2 & H3 & H4).
    repeat split; try lia; assumption.
Qed.

Lemma shr_loop_spec ws : forall s k, wf ws -> 0 < s < w -> 0 <= k < 2 ^ s ->
  forall r c, shr_loop w ws s (k * 2 ^ (w - s)) = (r, c) ->
  exists k', c = k' * 2 ^ (w - s) /\ 0 <= k' < 2 ^ s /\
             value r * 2 ^ s + k' = value ws + B ^ len ws * k /\ wf r /\ length r = length ws.
Proof.
  pose proof Bpos as HB.
  induction ws as [|x t IH]; intros s k Hwf Hs Hk r c E; cbn [shr_loop] in E.
  - inversion E; subst. exists k. cbn [value]. unfold len; cbn [length Z.of_nat]. rewrite Z.pow_0_r.
    repeat split; try lia. apply wf_nil.
  - apply wf_cons in Hwf. destruct Hwf as [Hx Ht].
    destruct (shr_loop w t s (k * 2 ^ (w - s))) as [r1 c1] eqn:E1. inversion E; subst; clear E.
    destruct (IH s k Ht Hs Hk _ _ E1) as (k1 & -> & Hk1 & Hv & Hw1 & Hl).
    pose proof (pow2_pos s ltac:(lia)) as Hp. pose proof (pow2_pos (w - s) ltac:(lia)) as Hq.
    pose proof (B_split s ltac:(lia)) as HBs.
    pose proof (Z.mod_pos_bound x (2 ^ s) Hp) as Hxm.
    pose proof (Z.div_mod x (2 ^ s) ltac:(lia)) as Hdm.
    assert (0 <= x / 2 ^ s < 2 ^ (w - s)) as Hxd.
    { split; [apply Z.div_pos; lia | apply Z.div_lt_upper_bound; nia]. }
    assert (0 <= x / 2 ^ s + k1 * 2 ^ (w - s) < B) as Hword by nia.
    exists (x mod 2 ^ s). rewrite Bpow_cons. cbn [value length].
    split; [reflexivity|]. split; [lia|]. split; [|split; [apply wf_cons; split; [exact Hword | exact Hw1] | lia]].
    assert (B * (value r1 * 2 ^ s) + B * k1 = B * value t + B * (B ^ len t * k)) as HH.
    { rewrite <- !Z.mul_add_distr_l. f_equal. exact Hv. }
    assert (k1 * 2 ^ (w - s) * 2 ^ s = B * k1) as HQ by (rewrite HBs; ring).
    nia.
Qed.

(** shr_in_place by 0 < s <= w bits: quotient by 2^s, the bits shifted out returned in the high bits *)
Lemma shr_in_place_spec ws s : wf ws -> 0 < s <= w ->
  forall r c, shr_in_place w ws s = (r, c) ->
  exists k', c = k' * 2 ^ (w - s) /\ 0 <= k' < 2 ^ s /\ value r * 2 ^ s + k' = value ws /\ wf r /\ length r = length ws.
Proof.
  intros Hwf Hs r c E. unfold shr_in_place in E. pose proof Bpos as HB.
  destruct (Z.eqb_spec s w) as [->|Hne].
  - unfold shr_one_word in E. destruct ws as [|x t].
    + inversion E; subst. exists 0. rewrite Z.sub_diag, Z.pow_0_r. cbn [value]. pose proof (pow2_pos w ltac:(lia)).
      repeat split; try lia. apply wf_nil.
    + inversion E; subst. apply wf_cons in Hwf. destruct Hwf as [Hx Ht]. exists c.
      rewrite Z.sub_diag, Z.pow_0_r. rewrite value_app. cbn [value]. fold B.
      repeat split; try lia.
      * apply wf_app. split; [exact Ht | apply wf_cons; split; [lia | apply wf_nil]].
      * rewrite app_length. cbn [length]. lia.
  - destruct (Z.eqb_spec s 0) as [->|Hne0]; [lia|].
    replace 0 with (0 * 2 ^ (w - s)) in E by lia.
    pose proof (pow2_pos s ltac:(lia)).
    destruct (shr_loop_spec ws s 0 Hwf ltac:(lia) ltac:(lia) r c E) as (k' & H1 & H2 & H3 & H4 & H5).
    exists k'. repeat split; try lia; assumption.
Qed.

(** *** add / sub / sub_mul / cmp on same-length slices *)
Lemma add_loop_spec ws : forall rhs c, wf ws -> wf rhs -> length ws = length rhs -> 0 <= c <= 1 ->
  forall r c', add_loop w ws rhs c = (r, c') ->
  value r + B ^ len ws * c' = value ws + value rhs + c /\ wf r /\ length r = length ws /\ 0 <= c' <= 1.
Proof.
  pose proof Bpos as HB. pose proof Bge2 as HB2.
  induction ws as [|a t IH]; intros [|b rhs] c Hw1 Hw2 Hl Hc r c' E; cbn [length] in Hl; try discriminate; cbn [add_loop] in E.
  - inversion E; subst. cbn [value]. unfold len; cbn [length Z.of_nat]. rewrite Z.pow_0_r. repeat split; try lia. apply wf_nil.
  - apply wf_cons in Hw1. apply wf_cons in Hw2. destruct Hw1 as [Ha Ht], Hw2 as [Hb Hr].
    destruct (add_loop w t rhs ((a + b + c) / B)) as [r1 c1] eqn:E1. inversion E; subst; clear E.
    assert (0 <= (a + b + c) / B <= 1) as Hc1.
    { split; [apply Z.div_pos; lia | apply Z.lt_succ_r; apply Z.div_lt_upper_bound; lia]. }
    destruct (IH rhs _ Ht Hr ltac:(lia) Hc1 _ _ E1) as (Hv & Hwr & Hlr & Hcc).
    pose proof (Z.div_mod (a + b + c) B ltac:(lia)). pose proof (Z.mod_pos_bound (a + b + c) B HB).
    rewrite Bpow_cons. cbn [value length].
    split; [nia|]. split; [apply wf_cons; split; [lia | exact Hwr]|]. split; lia.
Qed.

Lemma add_same_len_spec ws rhs : wf ws -> wf rhs -> length ws = length rhs ->
  forall r c, add_same_len w ws rhs = (r, c) ->
  value r + B ^ len ws * c = value ws + value rhs /\ wf r /\ length r = length ws /\ 0 <= c <= 1.
Proof.
  intros H1 H2 Hl r c E. destruct (add_loop_spec ws rhs 0 H1 H2 Hl ltac:(lia) r c E) as (A & A2 & A3 & A4).
  repeat split; try lia; assumption.
Qed.

Lemma sub_loop_spec ws : forall rhs c, wf ws -> wf rhs -> length ws = length rhs -> 0 <= c <= 1 ->
  forall r c', sub_loop w ws rhs c = (r, c') ->
  value r - B ^ len ws * c' = value ws - value rhs - c /\ wf r /\ length r = length ws /\ 0 <= c' <= 1.
Proof.
  pose proof Bpos as HB. pose proof Bge2 as HB2.
  induction ws as [|a t IH]; intros [|b rhs] c Hw1 Hw2 Hl Hc r c' E; cbn [length] in Hl; try discriminate; cbn [sub_loop] in E.
  - inversion E; subst. cbn [value]. unfold len; cbn [length Z.of_nat]. rewrite Z.pow_0_r. repeat split; try lia. apply wf_nil.
  - apply wf_cons in Hw1. apply wf_cons in Hw2. destruct Hw1 as [Ha Ht], Hw2 as [Hb Hr].
    destruct (sub_loop w t rhs (- ((a - b - c) / B))) as [r1 c1] eqn:E1. inversion E; subst; clear E.
    assert (-1 <= (a - b - c) / B <= 0) as Hc1.
    { split; [apply Z.div_le_lower_bound; lia | apply Z.lt_succ_r; apply Z.div_lt_upper_bound; lia]. }
    destruct (IH rhs (- ((a - b - c) / B)) Ht Hr ltac:(lia) ltac:(lia) _ _ E1) as (Hv & Hwr & Hlr & Hcc).
    pose proof (Z.div_mod (a - b - c) B ltac:(lia)). pose proof (Z.mod_pos_bound (a - b - c) B HB).
    rewrite Bpow_cons. cbn [value length].
    split; [nia|]. split; [apply wf_cons; split; [lia | exact Hwr]|]. split; lia.
Qed.

Lemma sub_same_len_spec ws rhs : wf ws -> wf rhs -> length ws = length rhs ->
  forall r c, sub_same_len w ws rhs = (r, c) ->
  value r - B ^ len ws * c = value ws - value rhs /\ wf r /\ length r = length ws /\ 0 <= c <= 1.
Proof.
  intros H1 H2 Hl r c E. destruct (sub_loop_spec ws rhs 0 H1 H2 Hl ltac:(lia) r c E) as (A & A2 & A3 & A4).
  repeat split; try lia; assumption.
Qed.

(** the carry_plus_max trick: every intermediate fits exactly in a double word *)
Lemma sub_mul_loop_spec ws : forall rhs mult cpm, wf ws -> wf rhs -> length ws = length rhs ->
  0 <= mult < B -> 0 <= cpm < B ->
  forall r c, sub_mul_loop w ws rhs mult cpm = (r, c) ->
  value r + B ^ len ws * (c - (B - 1)) = value ws + (cpm - (B - 1)) - mult * value rhs /\
  wf r /\ length r = length ws /\ 0 <= c < B.
Proof.
  pose proof Bpos as HB. pose proof Bge2 as HB2.
  induction ws as [|a t IH]; intros [|b rhs] mult cpm Hw1 Hw2 Hl Hm Hc r c E; cbn [length] in Hl; try discriminate; cbn [sub_mul_loop] in E.
  - inversion E; subst. cbn [value]. unfold len; cbn [length Z.of_nat]. rewrite Z.pow_0_r. repeat split; try lia. apply wf_nil.
  - apply wf_cons in Hw1. apply wf_cons in Hw2. destruct Hw1 as [Ha Ht], Hw2 as [Hb Hr].
    set (v := a + cpm + (B * (B - 1) - (B - 1)) - mult * b) in *.
    destruct (sub_mul_loop w t rhs mult (v / B)) as [r1 c1] eqn:E1. inversion E; subst; clear E.
    assert (0 <= v < B * B) as Hv by (unfold v; nia).
    assert (0 <= v / B < B) as Hc1.
    { split; [apply Z.div_pos; lia | apply Z.div_lt_upper_bound; lia]. }
    destruct (IH rhs mult _ Ht Hr ltac:(lia) Hm Hc1 _ _ E1) as (Hvv & Hwr & Hlr & Hcc).
    pose proof (Z.div_mod v B ltac:(lia)). pose proof (Z.mod_pos_bound v B HB).
    rewrite Bpow_cons. cbn [value length].
    split; [unfold v in *; nia|]. split; [apply wf_cons; split; [lia | exact Hwr]|]. split; lia.
Qed.

Lemma sub_mul_word_spec ws mult rhs : wf ws -> wf rhs -> length ws = length rhs -> 0 <= mult < B ->
  forall r borrow, sub_mul_word w ws mult rhs = (r, borrow) ->
  value r - B ^ len ws * borrow = value ws - mult * value rhs /\ wf r /\ length r = length ws /\ 0 <= borrow < B.
Proof.
  intros H1 H2 Hl Hm r borrow E. unfold sub_mul_word in E. pose proof Bpos as HB.
  destruct (Z.eqb_spec mult 0) as [->|Hne].
  - inversion E; subst. repeat split; try lia. exact H1.
  - destruct (sub_mul_loop w ws rhs mult (B - 1)) as [r1 c1] eqn:E1. inversion E; subst; clear E.
    destruct (sub_mul_loop_spec ws rhs mult (B - 1) H1 H2 Hl Hm ltac:(lia) _ _ E1) as (Hv & Hw & Hlr & Hc).
    split; [nia|]. split; [exact Hw|]. split; lia.
Qed.

Lemma cmp_same_len_spec a : forall b, wf a -> wf b -> length a = length b ->
  cmp_same_len a b = (value a ?= value b).
Proof.
  pose proof Bpos as HB.
  induction a as [|x t IH]; intros [|y s] Ha Hb Hl; cbn [length] in Hl; try discriminate; cbn [cmp_same_len value].
  - reflexivity.
  - apply wf_cons in Ha. apply wf_cons in Hb. destruct Ha as [Hx Ht], Hb as [Hy Hs].
    rewrite (IH s Ht Hs ltac:(lia)).
    destruct (Z.compare_spec (value t) (value s)) as [E|L|G].
    + rewrite E. destruct (Z.compare_spec x y); symmetry; [apply Z.compare_eq_iff | apply Z.compare_lt_iff | apply Z.compare_gt_iff]; lia.
    + symmetry. apply Z.compare_lt_iff. nia.
    + symmetry. apply Z.compare_gt_iff. nia.
Qed.

Lemma sub_one_spec ws : wf ws -> forall r b, sub_one w ws = (r, b) ->
  value r - B ^ len ws * b = value ws - 1 /\ wf r /\ length r = length ws /\ 0 <= b <= 1.
Proof.
  pose proof Bpos as HB. pose proof Bge2 as HB2.
  induction ws as [|x t IH]; intros Hwf r b E; cbn [sub_one] in E.
  - inversion E; subst. cbn [value]. unfold len; cbn [length Z.of_nat]. rewrite Z.pow_0_r. repeat split; try lia. apply wf_nil.
  - apply wf_cons in Hwf. destruct Hwf as [Hx Ht]. destruct (Z.eqb_spec x 0) as [->|Hne].
    + destruct (sub_one w t) as [r1 b1] eqn:E1. inversion E; subst; clear E.
      destruct (IH Ht _ _ eq_refl) as (Hv & Hw & Hl & Hb).
      rewrite Bpow_cons. cbn [value length].
      split; [nia|]. split; [apply wf_cons; split; [lia | exact Hw]|]. split; lia.
    + inversion E; subst. rewrite Bpow_cons. cbn [value length].
      split; [nia|]. split; [apply wf_cons; split; [lia | exact Ht]|]. split; lia.
Qed.

(** *** leading zeros / powers of two *)
Lemma lzw_spec k x : 0 < k -> 0 < x < B ^ k ->
  0 <= lzw w k x < k * w /\ B ^ k <= 2 * (x * 2 ^ lzw w k x) /\ x * 2 ^ lzw w k x < B ^ k.
Proof.
  intros Hk Hx. unfold lzw. pose proof (Z.log2_spec x ltac:(lia)) as [L1 L2].
  pose proof (Z.log2_nonneg x) as L0.
  assert (B ^ k = 2 ^ (k * w)) as HBk by (unfold Words.B; rewrite <- Z.pow_mul_r by lia; f_equal; lia).
  assert (Z.log2 x < k * w) as L3.
  { apply Z.log2_lt_pow2; [lia|]. rewrite <- HBk. lia. }
  set (s := k * w - 1 - Z.log2 x).
  assert (0 <= s) by (unfold s; lia).
  pose proof (pow2_pos s ltac:(lia)) as Hp.
  assert (2 ^ (k * w) = 2 * (2 ^ Z.log2 x * 2 ^ s)) as E1.
  { rewrite <- Z.pow_add_r by lia. rewrite <- Z.pow_succ_r by lia. f_equal. unfold s. lia. }
  assert (2 ^ (k * w) = 2 ^ Z.succ (Z.log2 x) * 2 ^ s) as E2.
  { rewrite <- Z.pow_add_r by lia. f_equal. unfold s. lia. }
  rewrite HBk. repeat split; try (unfold s; lia); nia.
Qed.

Lemma is_pow2_true x : 0 < x -> is_pow2 x = true -> x = 2 ^ Z.log2 x /\ 0 <= Z.log2 x.
Proof. unfold is_pow2. intros Hx E. apply Z.eqb_eq in E. split; [exact E | apply Z.log2_nonneg]. Qed.

Lemma log2_word x : 0 < x < B -> 0 <= Z.log2 x < w.
Proof.
  intros Hx. split; [apply Z.log2_nonneg|]. apply Z.log2_lt_pow2; [lia|]. unfold Words.B in Hx. lia.
Qed.

(** *** division by a word *)
Lemma div_word_loop_spec d ws : forall rem, norm1 d -> wf ws -> 0 <= rem < d ->
  forall q r, div_word_loop w div2by1 d ws rem = (q, r) ->
  value q * d + r = value ws + B ^ len ws * rem /\ 0 <= r < d /\ wf q /\ length q = length ws.
Proof.
  pose proof Bpos as HB.
  induction ws as [|x t IH]; intros rem Hd Hwf Hrem q r E; cbn [div_word_loop] in E.
  - inversion E; subst. cbn [value]. unfold len; cbn [length Z.of_nat]. rewrite Z.pow_0_r. repeat split; try lia. apply wf_nil.
  - apply wf_cons in Hwf. destruct Hwf as [Hx Ht].
    destruct (div_word_loop w div2by1 d t rem) as [qr rem1] eqn:E1.
    destruct (IH rem Hd Ht Hrem _ _ E1) as (Hv & Hr1 & Hwq & Hlq).
    destruct Hd as [Hd1 Hd2].
    rewrite div2by1_ok in E by (unfold norm1; try split; nia). inversion E; subst; clear E.
    pose proof (Z.div_mod (x + B * rem1) d ltac:(lia)) as Hdm.
    pose proof (Z.mod_pos_bound (x + B * rem1) d ltac:(lia)) as Hmb.
    assert (0 <= (x + B * rem1) / d < B) as Hq.
    { split; [apply Z.div_pos; nia | apply Z.div_lt_upper_bound; nia]. }
    rewrite Bpow_cons. cbn [value length].
    split; [nia|]. split; [lia|]. split; [apply wf_cons; split; [lia | exact Hwq] | lia].
Qed.

Lemma fast_div_by_word_spec ws rhs : wf ws -> 0 < rhs < B ->
  forall q r, fast_div_by_word w div2by1 ws (lzw w 1 rhs) (rhs * 2 ^ lzw w 1 rhs) = (q, r) ->
  value q = value ws / rhs /\ r = value ws mod rhs /\ wf q /\ length q = length ws.
Proof.
  intros Hwf Hrhs q r E. unfold fast_div_by_word in E.
  pose proof (lzw_spec 1 rhs ltac:(lia) ltac:(rewrite Z.pow_1_r; lia)) as (Hs & Hn1 & Hn2).
  rewrite Z.pow_1_r, Z.mul_1_l in *.
  set (s := lzw w 1 rhs) in *. set (d := rhs * 2 ^ s) in *.
  destruct (shl_in_place w ws s) as [ws1 c] eqn:E1.
  destruct (shl_in_place_spec ws s Hwf Hs _ _ E1) as (Hv1 & Hw1 & Hl1 & Hc).
  destruct (div_word_loop w div2by1 d ws1 c) as [q1 rem] eqn:E2. inversion E; subst; clear E.
  pose proof (pow2_pos s ltac:(lia)) as Hp.
  assert (norm1 d) as Hd by (unfold norm1; lia).
  assert (2 ^ s <= d) as Hsd by (unfold d; nia).
  destruct (div_word_loop_spec d ws1 c Hd Hw1 ltac:(lia) _ _ E2) as (Hv2 & Hr & Hwq & Hlq).
  assert (len ws1 = len ws) as Hlen by (unfold len; lia). rewrite Hlen in Hv2.
  assert (rem = 2 ^ s * (value ws - value q * rhs)) as Hrem by (unfold d in *; nia).
  assert (rem / 2 ^ s = value ws - value q * rhs) as Hrd.
  { rewrite Hrem. rewrite Z.mul_comm. apply Z.div_mul. lia. }
  assert (0 <= value ws - value q * rhs < rhs) as Hrange by (unfold d in *; nia).
  rewrite Hrd. split; [|split; [|split; [exact Hwq | lia]]].
  - apply Z.div_unique with (value ws - value q * rhs); [left; lia | ring].
  - apply Z.mod_unique with (value q); [left; lia | ring].
Qed.

Theorem div_by_word_correct ws rhs : wf ws -> 0 < rhs < B ->
  forall q r, div_by_word w div2by1 ws rhs = (q, r) ->
  value q = value ws / rhs /\ r = value ws mod rhs /\ wf q /\ length q = length ws.
Proof.
  intros Hwf Hrhs q r E. unfold div_by_word in E.
  destruct (Z.eqb_spec rhs 1) as [->|Hne1].
  - inversion E; subst. rewrite Z.div_1_r, Z.mod_1_r. repeat split; auto.
  - destruct (is_pow2 rhs) eqn:Ep.
    + destruct (is_pow2_true rhs ltac:(lia) Ep) as [Hr2 Hk0]. pose proof (log2_word rhs Hrhs) as Hk.
      set (k := Z.log2 rhs) in *.
      assert (k <> 0) by (intros E0; rewrite E0 in Hr2; cbn in Hr2; lia).
      destruct (shr_in_place w ws k) as [q1 rem] eqn:E1. inversion E; subst q r; clear E.
      destruct (shr_in_place_spec ws k Hwf ltac:(lia) _ _ E1) as (k' & -> & Hk' & Hv & Hwq & Hlq).
      pose proof (pow2_pos (w - k) ltac:(lia)) as Hq.
      rewrite Z.div_mul by lia. rewrite Hr2. split; [|split; [|split; assumption]].
      * apply Z.div_unique with k'; [left; lia | lia].
      * apply Z.mod_unique with (value q1); [left; lia | lia].
    + apply (fast_div_by_word_spec ws rhs Hwf Hrhs q r E).
Qed.

(** *** remainder by a word *)
Lemma rem_word_loop_spec d ws : norm1 d -> wf ws -> ws <> [] ->
  rem_word_loop w div1by1 div2by1 d ws = value ws mod d.
Proof.
  pose proof Bpos as HB. intros Hd.
  induction ws as [|x t IH]; intros Hwf Hne; [contradiction|].
  apply wf_cons in Hwf. destruct Hwf as [Hx Ht]. cbn [rem_word_loop].
  destruct t as [|y t'].
  - rewrite div1by1_ok by assumption. cbn [snd value]. f_equal. lia.
  - rewrite IH by (auto; discriminate). set (t := y :: t') in *.
    destruct Hd as [Hd1 Hd2].
    pose proof (Z.mod_pos_bound (value t) d ltac:(lia)) as Hmb.
    rewrite div2by1_ok by (unfold norm1; try split; nia). cbn [snd value]. fold t.
    rewrite <- (Zplus_mod_idemp_r (B * (value t mod d))).
    rewrite <- (Zmult_mod_idemp_r (value t mod d)). rewrite Z.mod_mod by lia.
    rewrite Zmult_mod_idemp_r, Zplus_mod_idemp_r. reflexivity.
Qed.

Theorem rem_by_word_correct ws rhs : wf ws -> ws <> [] -> 0 < rhs < B ->
  rem_by_word w div1by1 div2by1 ws rhs = value ws mod rhs.
Proof.
  intros Hwf Hne Hrhs. unfold rem_by_word. pose proof Bpos as HB.
  destruct (is_pow2 rhs) eqn:Ep.
  - destruct (is_pow2_true rhs ltac:(lia) Ep) as [Hr2 Hk0]. pose proof (log2_word rhs Hrhs) as Hk.
    set (k := Z.log2 rhs) in *. destruct ws as [|x t]; [contradiction|]. cbn [hd value].
    apply wf_cons in Hwf. destruct Hwf as [Hx Ht].
    rewrite Hr2. replace (2 ^ k - 1) with (Z.ones k) by (rewrite Z.ones_equiv; lia). rewrite Z.land_ones by lia.
    assert (B = 2 ^ k * 2 ^ (w - k)) as HBk by (rewrite (B_split k) by lia; ring).
    rewrite HBk. rewrite <- Z.mul_assoc, Z.mul_comm, Z_mod_plus_full. reflexivity.
  - pose proof (lzw_spec 1 rhs ltac:(lia) ltac:(rewrite Z.pow_1_r; lia)) as (Hs & Hn1 & Hn2).
    rewrite Z.pow_1_r, Z.mul_1_l in *.
    set (s := lzw w 1 rhs) in *. set (d := rhs * 2 ^ s) in *.
    assert (norm1 d) as Hd by (unfold norm1; lia).
    rewrite (rem_word_loop_spec d ws Hd Hwf Hne).
    pose proof (pow2_pos s ltac:(lia)) as Hp.
    pose proof (Z.mod_pos_bound (value ws) d ltac:(lia)) as Hmb.
    assert (2 ^ s <= B) as HsB by (unfold d in *; nia).
    rewrite div2by1_ok by (auto; nia). cbn [snd].
    unfold d at 2. rewrite Z.mul_mod_distr_r by lia. rewrite Z.div_mul by lia.
    symmetry. rewrite (Z.div_mod (value ws) d) at 1 by lia.
    replace (d * (value ws / d) + value ws mod d) with (value ws mod d + (2 ^ s * (value ws / d)) * rhs) by (unfold d; ring).
    apply Z.mod_add. lia.
Qed.

(** *** division by a double word *)
Fixpoint value_be (be : list Z) : Z :=
  match be with [] => 0 | x :: r => x * B ^ len r + value_be r end.

Lemma value_be_rev be : value_be be = value (rev be).
Proof.
  induction be as [|x r IH]; [reflexivity|]. cbn [value_be rev]. rewrite value_app, IH. cbn [value].
  fold B. unfold len. rewrite rev_length. ring.
Qed.

Lemma wf_rev l : wf l -> wf (rev l).
Proof. unfold Words.wf. intros H. apply Forall_rev. exact H. Qed.

Lemma dword_chunks_spec d : norm2 d -> forall n be rem, (length be <= n)%nat -> wf be -> 0 <= rem < d ->
  forall qs r, dword_chunks w div3by2 div4by2 d be rem = (qs, r) ->
  value_be qs * d + r = rem * B ^ len be + value_be be /\ 0 <= r < d /\ wf qs /\ length qs = length be.
Proof.
  pose proof Bpos as HB. intros Hd.
  induction n as [|n IH]; intros be rem Hn Hwf Hrem qs r E.
  - destruct be; [|cbn [length] in Hn; lia]. cbn [dword_chunks] in E. inversion E; subst.
    cbn [value_be]. unfold len; cbn [length Z.of_nat]. rewrite Z.pow_0_r. repeat split; try lia. apply wf_nil.
  - destruct be as [|hi [|lo rest]].
    + cbn [dword_chunks] in E. inversion E; subst.
      cbn [value_be]. unfold len; cbn [length Z.of_nat]. rewrite Z.pow_0_r. repeat split; try lia. apply wf_nil.
    + cbn [dword_chunks] in E. apply wf_cons in Hwf. destruct Hwf as [Hx _].
      rewrite div3by2_ok in E by (auto; lia). inversion E; subst; clear E.
      destruct Hd as [Hd1 Hd2].
      pose proof (Z.div_mod (hi + B * rem) d ltac:(lia)) as Hdm.
      pose proof (Z.mod_pos_bound (hi + B * rem) d ltac:(lia)) as Hmb.
      assert (0 <= (hi + B * rem) / d < B) as Hq.
      { split; [apply Z.div_pos; nia | apply Z.div_lt_upper_bound; nia]. }
      cbn [value_be]. unfold len; cbn [length Z.of_nat]. rewrite Z.pow_0_r, Z.pow_1_r.
      repeat split; try lia. apply wf_cons. split; [lia | apply wf_nil].
    + cbn [dword_chunks] in E. apply wf_cons in Hwf. destruct Hwf as [Hhi Hwf].
      apply wf_cons in Hwf. destruct Hwf as [Hlo Hrest].
      destruct Hd as [Hd1 Hd2].
      rewrite div4by2_ok in E by (unfold norm2; auto; nia).
      set (a := lo + B * hi + B * B * rem) in *.
      destruct (dword_chunks w div3by2 div4by2 d rest (a mod d)) as [qs1 r1] eqn:E1. inversion E; subst; clear E.
      pose proof (Z.div_mod a d ltac:(lia)) as Hdm.
      pose proof (Z.mod_pos_bound a d ltac:(lia)) as Hmb.
      assert (0 <= a / d < B * B) as Hq.
      { split; [apply Z.div_pos; unfold a; nia | apply Z.div_lt_upper_bound; unfold a; nia]. }
      cbn [length] in Hn.
      destruct (IH rest (a mod d) ltac:(lia) Hrest Hmb _ _ E1) as (Hv & Hr & Hwq & Hlq).
      pose proof (Z.div_mod (a / d) B ltac:(lia)) as Hdm2.
      pose proof (Z.mod_pos_bound (a / d) B HB) as Hmb2.
      assert (0 <= a / d / B < B) as Hq2.
      { split; [apply Z.div_pos; lia | apply Z.div_lt_upper_bound; lia]. }
      assert (len qs1 = len rest) as Hlen by (unfold len; lia).
      cbn [value_be length]. rewrite !len_cons, Hlen.
      pose proof (len_nonneg rest) as Hl0. pose proof (Bpow_pos (len rest) Hl0) as HP.
      rewrite !Z.pow_add_r, !Z.pow_1_r by lia.
      split; [|split; [lia|split; [apply wf_cons; split; [lia|]; apply wf_cons; split; [lia | exact Hwq] | lia]]].
      set (P := B ^ len rest) in *. set (q := a / d) in *. set (V := value_be qs1) in *.
      replace ((q / B * (P * B) + (q mod B * P + V)) * d + r)
        with (P * ((B * (q / B) + q mod B) * d) + (V * d + r)) by ring.
      rewrite <- Hdm2, Hv.
      replace (P * (q * d) + (a mod d * P + value_be rest)) with (P * (d * q + a mod d) + value_be rest) by ring.
      rewrite <- Hdm. unfold a. ring.
Qed.

Lemma rev_top2 (ws : list Z) : (2 <= length ws)%nat -> exists hi lo be, rev ws = hi :: lo :: be /\ ws = rev be ++ [lo; hi].
Proof.
  intros H. destruct (rev ws) as [|hi [|lo be]] eqn:E.
  - apply (f_equal (@length Z)) in E. rewrite rev_length in E. cbn in E. lia.
  - apply (f_equal (@length Z)) in E. rewrite rev_length in E. cbn in E. lia.
  - exists hi, lo, be. split; [reflexivity|]. rewrite <- (rev_involutive ws), E. cbn [rev]. rewrite <- app_assoc. reflexivity.
Qed.

Lemma fast_div_by_dword_spec ws rhs : wf ws -> (2 <= length ws)%nat -> B <= rhs < B * B ->
  forall q r, fast_div_by_dword w div3by2 div4by2 ws (lzw w 2 rhs) (rhs * 2 ^ lzw w 2 rhs) = (q, r) ->
  value q = value ws / rhs /\ r = value ws mod rhs /\ wf q /\ length q = length ws.
Proof.
  intros Hwf Hlen Hrhs q r E. unfold fast_div_by_dword in E. pose proof Bpos as HB.
  assert (B ^ 2 = B * B) as HB2 by ring.
  pose proof (lzw_spec 2 rhs ltac:(lia) ltac:(rewrite HB2; lia)) as (Hs & Hn1 & Hn2). rewrite HB2 in *.
  set (s := lzw w 2 rhs) in *. set (d := rhs * 2 ^ s) in *.
  pose proof (pow2_pos s ltac:(lia)) as Hp.
  assert (s < w) as Hsw.
  { destruct (Z.lt_ge_cases s w) as [|Hge]; [assumption|exfalso].
    assert (2 ^ w <= 2 ^ s) by (apply Z.pow_le_mono_r; lia). unfold Words.B in *. unfold d in *. nia. }
  destruct (shl_in_place w ws s) as [ws1 hi] eqn:E1.
  destruct (shl_in_place_spec ws s Hwf ltac:(lia) _ _ E1) as (Hv1 & Hw1 & Hl1 & Hc).
  destruct (rev_top2 ws1 ltac:(lia)) as (top_hi & top_lo & be & Er & Ews1). rewrite Er in E.
  assert (wf (rev be) /\ (0 <= top_lo < B) /\ (0 <= top_hi < B)) as (Hwbe & Htl & Hth).
  { rewrite Ews1 in Hw1. apply wf_app in Hw1. destruct Hw1 as [H1 H2]. apply wf_cons in H2. destruct H2 as [H2 H3].
    apply wf_cons in H3. destruct H3 as [H3 _]. auto. }
  assert (wf be) as Hwbe' by (rewrite <- (rev_involutive be); apply wf_rev; exact Hwbe).
  assert (norm2 d) as Hd by (unfold norm2; lia).
  assert (2 ^ s * B <= d) as HsB by (unfold d; nia).
  assert (value ws1 = value_be be + B ^ len be * (top_lo + B * top_hi)) as Hvws1.
  { rewrite Ews1, value_app. cbn [value]. fold B. rewrite value_be_rev. unfold len. rewrite rev_length. ring. }
  assert (len ws = len be + 2) as Hlenws.
  { unfold len. rewrite <- Hl1, Ews1, app_length, rev_length. cbn [length]. lia. }
  rewrite div3by2_ok in E by (auto; nia).
  set (a3 := top_lo + B * (top_hi + B * hi)) in *.
  destruct (dword_chunks w div3by2 div4by2 d be (a3 mod d)) as [qs rem'] eqn:E2. inversion E; subst q r; clear E.
  destruct Hd as [Hd1 Hd2].
  pose proof (Z.div_mod a3 d ltac:(lia)) as Hdm. pose proof (Z.mod_pos_bound a3 d ltac:(lia)) as Hmb.
  assert (0 <= a3 / d < B) as Hq3.
  { split; [apply Z.div_pos; unfold a3; nia | apply Z.div_lt_upper_bound; unfold a3; nia]. }
  destruct (dword_chunks_spec d ltac:(unfold norm2; lia) (length be) be (a3 mod d) ltac:(lia) Hwbe' Hmb _ _ E2) as (Hv2 & Hr & Hwq & Hlq).
  pose proof (len_nonneg be) as Hl0. pose proof (Bpow_pos (len be) Hl0) as HP.
  set (Q := value (rev qs ++ [a3 / d; 0])).
  assert (Q = value_be qs + B ^ len be * (a3 / d)) as HQ.
  { unfold Q. rewrite value_app. cbn [value]. fold B. rewrite value_be_rev. unfold len. rewrite rev_length, Hlq. ring. }
  assert (Q * d + rem' = value ws * 2 ^ s) as Htot.
  { rewrite HQ, <- Hv1, Hvws1, Hlenws. rewrite Z.pow_add_r by lia. replace (B ^ 2) with (B * B) by ring.
    set (P := B ^ len be) in *. unfold a3 in *. nia. }
  assert (rem' = 2 ^ s * (value ws - Q * rhs)) as Hrem by (unfold d in *; nia).
  assert (rem' / 2 ^ s = value ws - Q * rhs) as Hrd.
  { rewrite Hrem. rewrite Z.mul_comm. apply Z.div_mul. lia. }
  assert (0 <= value ws - Q * rhs < rhs) as Hrange by (unfold d in *; nia).
  rewrite Hrd. split; [|split; [|split]].
  - apply Z.div_unique with (value ws - Q * rhs); [left; lia | ring].
  - apply Z.mod_unique with Q; [left; lia | ring].
  - apply wf_app. split; [apply wf_rev; exact Hwq|]. apply wf_cons. split; [lia|]. apply wf_cons. split; [lia | apply wf_nil].
  - rewrite app_length, rev_length, Hlq. cbn [length]. rewrite <- Hl1, Ews1, app_length, rev_length. cbn [length]. lia.
Qed.

(** the power-of-two shortcut and the general path: floor division by any double word *)
Theorem div_by_dword_correct ws rhs : wf ws -> (2 <= length ws)%nat -> B <= rhs < B * B ->
  forall q r, div_by_dword w div3by2 div4by2 ws rhs = (q, r) ->
  value q = value ws / rhs /\ r = value ws mod rhs /\ wf q /\ length q = length ws.
Proof.
  intros Hwf Hlen Hrhs q r E. unfold div_by_dword in E. pose proof Bpos as HB.
  destruct (is_pow2 rhs) eqn:Ep; [|apply (fast_div_by_dword_spec ws rhs Hwf Hlen Hrhs q r E)].
  destruct (is_pow2_true rhs ltac:(lia) Ep) as [Hr2 Hk0]. set (k := Z.log2 rhs) in *.
  assert (w <= k < 2 * w) as Hk.
  { unfold Words.B in Hrhs. rewrite <- Z.pow_add_r in Hrhs by lia. rewrite Hr2 in Hrhs. destruct Hrhs as [H1 H2].
    apply Z.pow_le_mono_r_iff in H1; try lia. apply Z.pow_lt_mono_r_iff in H2; lia. }
  destruct ws as [|first t]; [cbn [length] in Hlen; lia|]. cbn [shr_one_word] in E.
  apply wf_cons in Hwf. destruct Hwf as [Hf Ht].
  assert (wf (t ++ [0])) as Hw1 by (apply wf_app; split; [exact Ht | apply wf_cons; split; [lia | apply wf_nil]]).
  assert (value (t ++ [0]) = value t) as Hv1 by (rewrite value_app; cbn [value]; lia).
  assert (length (t ++ [0]) = length (first :: t)) as Hl1 by (rewrite app_length; cbn [length]; lia).
  assert (rhs = B * 2 ^ (k - w)) as HrB by (rewrite Hr2; unfold Words.B; rewrite <- Z.pow_add_r by lia; f_equal; lia).
  pose proof (pow2_pos (k - w) ltac:(lia)) as Hp.
  destruct (Z.eqb_spec (k - w) 0) as [E0|Hne].
  - inversion E; subst q r; clear E. rewrite E0, Z.pow_0_r, Z.mul_1_r in HrB. rewrite Hv1, HrB. cbn [value].
    split; [|split; [|split; assumption]].
    + apply Z.div_unique with first; [left; lia | ring].
    + apply Z.mod_unique with (value t); [left; lia | ring].
  - set (s := k - w) in *.
    destruct (shr_in_place w (t ++ [0]) s) as [ws2 n2] eqn:E2. inversion E; subst q r; clear E.
    destruct (shr_in_place_spec (t ++ [0]) s Hw1 ltac:(lia) _ _ E2) as (k' & -> & Hk' & Hv & Hwq & Hlq).
    rewrite Hv1 in Hv.
    pose proof (pow2_pos (w - s) ltac:(lia)) as Hq. pose proof (pow2_pos s ltac:(lia)) as Hps.
    pose proof (B_split s ltac:(lia)) as HBs.
    pose proof (Z.div_mod first (2 ^ s) ltac:(lia)) as Hdm. pose proof (Z.mod_pos_bound first (2 ^ s) Hps) as Hmb.
    assert ((first mod 2 ^ s * 2 ^ (w - s) + B * (first / 2 ^ s + k' * 2 ^ (w - s))) / 2 ^ (w - s) = first + B * k') as Hrem.
    { symmetry. apply Z.div_unique with 0; [left; lia|].
      rewrite Z.mul_add_distr_l.
      assert (B * (first / 2 ^ s) = 2 ^ (w - s) * (2 ^ s * (first / 2 ^ s))) as HA by (rewrite HBs; ring).
      rewrite HA. rewrite Hdm at 3. ring. }
    rewrite Hrem. cbn [value]. rewrite HrB. split; [|split; [|split; [exact Hwq | lia]]].
    + apply Z.div_unique with (first + B * k'); [left; nia | nia].
    + apply Z.mod_unique with (value ws2); [left; nia | nia].
Qed.

End DivWordProofs.
