(** C02 - as-is models of the word-level division kernels (integer/src/div/mod.rs, div/simple.rs,
    div/divide_conquer.rs, div_ops.rs::repr, div_const.rs::repr).  Definitions only.

    Numbers are little-endian lists of words in base B = 2^w (any w > 0).  The reciprocal-division
    primitives of the external crate num-modular (Normalized2by1Divisor / Normalized3by2Divisor)
    are section variables; their contracts are hypotheses of the theorems in DivWordProofs.v and
    the oracle instantiates them with exact division.  The divisor they were built for is passed
    explicitly as first argument. *)
From Dashu Require Import Base.Prelude Base.Words.
Open Scope Z_scope.

Section DivWordModel.
Variable w : Z.
Notation B := (Words.B w).
Notation value := (Words.value w).

Variable div1by1 : Z -> Z -> Z * Z.        (* d, word            -> (q, r)            *)
Variable div2by1 : Z -> Z -> Z * Z.        (* d, dword           -> (q, r)   hi < d    *)
Variable div2by2 : Z -> Z -> Z * Z.        (* d2, dword          -> (q, r)            *)
Variable div3by2 : Z -> Z -> Z -> Z * Z.   (* d2, lo word, hi dword -> (q word, r dword)   hi < d2 *)
Variable div4by2 : Z -> Z -> Z -> Z * Z.   (* d2, lo dword, hi dword -> (q dword, r dword) hi < d2 *)
(** mul::add_signed_mul(c, Negative, a, b): c -= a*b over len c words, returns the signed carry (C01) *)
Variable mul_sub : list Z -> list Z -> list Z -> list Z * Z.
(** THRESHOLD_SIMPLE (gen/Params.v: div_threshold_simple) *)
Variable T : nat.

(** *** primitive helpers *)
Definition is_pow2 (x : Z) : bool := x =? 2 ^ Z.log2 x.
(** leading_zeros of a non-zero value held in k words; trailing_zeros of a power of two is log2 *)
Definition lzw (k x : Z) : Z := k * w - 1 - Z.log2 x.

(** *** shift.rs *)
Fixpoint shl_loop (ws : list Z) (s carry : Z) : list Z * Z :=
  match ws with
  | [] => ([], carry)
  | x :: r => let v := x * 2 ^ s in
              let '(r', c) := shl_loop r s (v / B) in (v mod B + carry :: r', c)   (* `|` of disjoint bits *)
  end.
Definition shl_in_place (ws : list Z) (s : Z) : list Z * Z := if s =? 0 then (ws, 0) else shl_loop ws s 0.

(** shr_word x s = (x >> s, bits shifted out, kept in the HIGH bits of a word) *)
Fixpoint shr_loop (ws : list Z) (s carry : Z) : list Z * Z :=
  match ws with
  | [] => ([], carry)
  | x :: r => let '(r', c) := shr_loop r s carry in (x / 2 ^ s + c :: r', (x mod 2 ^ s) * 2 ^ (w - s))
  end.
Definition shr_one_word (ws : list Z) : list Z * Z :=
  match ws with [] => ([], 0) | x :: r => (r ++ [0], x) end.
Definition shr_in_place (ws : list Z) (s : Z) : list Z * Z :=
  if s =? w then shr_one_word ws else if s =? 0 then (ws, 0) else shr_loop ws s 0.

(** *** add.rs / mul.rs / cmp.rs kernels used by the schoolbook division *)
Fixpoint add_loop (ws rhs : list Z) (c : Z) : list Z * Z :=
  match ws, rhs with
  | a :: ws', b :: rhs' => let v := a + b + c in let '(r, c') := add_loop ws' rhs' (v / B) in (v mod B :: r, c')
  | _, _ => ([], c)
  end.
Definition add_same_len (ws rhs : list Z) := add_loop ws rhs 0.

Fixpoint sub_loop (ws rhs : list Z) (c : Z) : list Z * Z :=
  match ws, rhs with
  | a :: ws', b :: rhs' => let v := a - b - c in let '(r, c') := sub_loop ws' rhs' (- (v / B)) in (v mod B :: r, c')
  | _, _ => ([], c)
  end.
Definition sub_same_len (ws rhs : list Z) := sub_loop ws rhs 0.

(** add::sub_one_in_place: returns the borrow *)
Fixpoint sub_one (ws : list Z) : list Z * Z :=
  match ws with
  | [] => ([], 1)
  | x :: r => if x =? 0 then let '(r', b) := sub_one r in (B - 1 :: r', b) else (x - 1 :: r, 0)
  end.

(** mul::sub_mul_word_same_len_in_place with its carry_plus_max trick *)
Fixpoint sub_mul_loop (ws rhs : list Z) (mult cpm : Z) : list Z * Z :=
  match ws, rhs with
  | a :: ws', b :: rhs' =>
      let v := a + cpm + (B * (B - 1) - (B - 1)) - mult * b in
      let '(r, c) := sub_mul_loop ws' rhs' mult (v / B) in (v mod B :: r, c)
  | _, _ => ([], cpm)
  end.
Definition sub_mul_word (ws : list Z) (mult : Z) (rhs : list Z) : list Z * Z :=
  if mult =? 0 then (ws, 0) else let '(r, cpm) := sub_mul_loop ws rhs mult (B - 1) in (r, B - 1 - cpm).

(** cmp::cmp_same_len: from the most significant word down *)
Fixpoint cmp_same_len (a b : list Z) : comparison :=
  match a, b with
  | x :: a', y :: b' => match cmp_same_len a' b' with Eq => x ?= y | c => c end
  | _, _ => Eq
  end.

(** *** div/mod.rs: division by a word *)
Fixpoint div_word_loop (d : Z) (ws : list Z) (rem : Z) : list Z * Z :=   (* `for word in words.iter_mut().rev()` *)
  match ws with
  | [] => ([], rem)
  | x :: r => let '(qr, rem1) := div_word_loop d r rem in
              let '(q, rem2) := div2by1 d (x + B * rem1) in (q :: qr, rem2)
  end.

Definition fast_div_by_word (ws : list Z) (s d : Z) : list Z * Z :=
  let '(ws1, c) := shl_in_place ws s in
  let '(q, rem) := div_word_loop d ws1 c in (q, rem / 2 ^ s).

Definition div_by_word (ws : list Z) (rhs : Z) : list Z * Z :=
  if rhs =? 1 then (ws, 0)
  else if is_pow2 rhs then
    let s := Z.log2 rhs in let '(q, rem) := shr_in_place ws s in (q, rem / 2 ^ (w - s))
  else let s := lzw 1 rhs in fast_div_by_word ws s (rhs * 2 ^ s).

(** fast_rem_by_normalized_word: top word by 1by1, the rest by 2by1 *)
Fixpoint rem_word_loop (d : Z) (ws : list Z) : Z :=
  match ws with
  | [] => 0
  | x :: r => match r with
              | [] => snd (div1by1 d x)
              | _ => snd (div2by1 d (x + B * rem_word_loop d r))
              end
  end.

Definition rem_by_word (ws : list Z) (rhs : Z) : Z :=
  if is_pow2 rhs then Z.land (hd 0 ws) (rhs - 1)
  else let s := lzw 1 rhs in let d := rhs * 2 ^ s in
       let rem := rem_word_loop d ws in
       snd (div2by1 d (rem * 2 ^ s)) / 2 ^ s.

(** *** div/mod.rs: division by a double word *)
(** the 4by2 chunks (`rchunks_exact_mut(2)`) and the odd tail, on the big-endian rest of the words *)
Fixpoint dword_chunks (d : Z) (be : list Z) (rem : Z) : list Z * Z :=
  match be with
  | hi :: lo :: rest =>
      let '(q, r) := div4by2 d (lo + B * hi) rem in
      let '(qs, r') := dword_chunks d rest r in (q / B :: q mod B :: qs, r')
  | [x] => let '(q, r) := div3by2 d x rem in ([q], r)
  | [] => ([], rem)
  end.

Definition fast_div_by_dword (ws : list Z) (s d : Z) : list Z * Z :=
  let '(ws1, hi) := shl_in_place ws s in
  match rev ws1 with
  | top_hi :: top_lo :: be =>
      let '(q, rem) := div3by2 d top_lo (top_hi + B * hi) in
      let '(qs, rem') := dword_chunks d be rem in
      (rev qs ++ [q; 0], rem' / 2 ^ s)
  | _ => (ws1, 0)   (* len < 2: excluded by the caller (debug_assert) *)
  end.

Definition div_by_dword (ws : list Z) (rhs : Z) : list Z * Z :=
  if is_pow2 rhs then
    let '(ws1, first) := shr_one_word ws in
    let s := Z.log2 rhs - w in
    if s =? 0 then (ws1, first)
    else let '(ws2, n2) := shr_in_place ws1 s in
         let n1 := first / 2 ^ s in let n0 := (first mod 2 ^ s) * 2 ^ (w - s) in   (* shr_word(first, shift) *)
         (ws2, (n0 + B * (n1 + n2)) / 2 ^ (w - s))                                (* n1 | n2 *)
  else let s := lzw 2 rhs in fast_div_by_dword ws s (rhs * 2 ^ s).

Fixpoint rem_dword_chunks (d : Z) (be : list Z) (rem : Z) : Z :=
  match be with
  | hi :: lo :: rest => rem_dword_chunks d rest (snd (div4by2 d (lo + B * hi) rem))
  | [x] => snd (div3by2 d x rem)
  | [] => rem
  end.
Definition rem_dword_loop (d : Z) (ws : list Z) : Z :=     (* fast_rem_by_normalized_dword *)
  match rev ws with
  | hi :: lo :: be => rem_dword_chunks d be (snd (div2by2 d (lo + B * hi)))
  | _ => 0
  end.

Definition rem_by_dword (ws : list Z) (rhs : Z) : Z :=
  if is_pow2 rhs then Z.land (nth 0 ws 0 + B * nth 1 ws 0) (rhs - 1)
  else let s := lzw 2 rhs in let d := rhs * 2 ^ s in
       let rem := rem_dword_loop d ws in
       let v := rem * 2 ^ s in                         (* shl_dword(rem, shift) = (a0, a1, a2) *)
       snd (div3by2 d (v mod B) (v / B)) / 2 ^ s.

(** *** div/simple.rs: schoolbook division (Knuth 4.3.1 D) *)
Definition top_words (k : nat) (ws : list Z) : list Z := skipn (length ws - k) ws.
Definition highest_dword (ws : list Z) : Z := value (top_words 2 ws).
Definition highest_word (ws : list Z) : Z := value (top_words 1 ws).

(** one quotient word: [top :: lo] / rhs where the top [length rhs] words are smaller than rhs *)
Definition div_rem_highest_word (top : Z) (lo rhs : list Z) : Z * list Z :=
  let n := length rhs in let k := (length lo - n)%nat in
  let rhs_top := highest_word rhs in
  let hd := highest_dword lo in let lhs2 := hd mod B in let lhs1 := hd / B in
  let q := if top <? rhs_top then fst (div3by2 (highest_dword rhs) lhs2 (lhs1 + B * top)) else B - 1 in
  let '(win, borrow) := sub_mul_word (skipn k lo) q rhs in
  if borrow >? top then
    let '(win', _) := add_same_len win rhs in (q - 1, firstn k lo ++ win')
  else (q, firstn k lo ++ win).

Fixpoint simple_loop (k : nat) (lhs rhs : list Z) : list Z :=      (* length lhs = length rhs + k *)
  match k with
  | O => lhs
  | S k' => let top := last lhs 0 in let lo := removelast lhs in
            let '(q, lo') := div_rem_highest_word top lo rhs in
            simple_loop k' lo' rhs ++ [q]
  end.

(** simple::div_rem_in_place: lhs = [lhs % rhs, lhs / rhs], returns the quotient carry *)
Definition simple_div_rem (lhs rhs : list Z) : list Z * bool :=
  let n := length rhs in let k := (length lhs - n)%nat in
  let win := skipn k lhs in
  let carry := match cmp_same_len win rhs with Lt => false | _ => true end in
  let lhs1 := if carry then firstn k lhs ++ fst (sub_same_len win rhs) else lhs in
  (simple_loop k lhs1 rhs, carry).

(** *** div/divide_conquer.rs: Burnikel-Ziegler.  Not structurally recursive: fuel. *)
Fixpoint dc_fix_loop (fuel : nat) (rem q rhs : list Z) (ro qo : Z) : result (list Z * list Z * Z * Z) :=
  if ro <? 0 then
    match fuel with
    | O => OutOfFuel
    | S f => let '(rem', c) := add_same_len rem rhs in
             let '(q', b) := sub_one q in
             dc_fix_loop f rem' q' rhs (ro + c) (qo - b)
    end
  else Ok (rem, q, ro, qo).

(** The source comment says the quotient estimate "may be too large by at most 2"; that holds when the
    2m/m division did not overflow.  With q_overflow = 1 the estimate is >= B^m and up to 4 add-backs
    occur (observed: n = 65, m = 34, dividend all ones, divisor 2^63 B^64 + ...; corpus/C02.txt).
    The loop is a `while`, so this is not a defect; the model allows 6 rounds. *)
Definition dc_fix_fuel : nat := 6.

Fixpoint dc_small_quotient (fuel : nat) (lhs rhs : list Z) : result (list Z * bool) :=
  match fuel with
  | O => OutOfFuel
  | S f =>
    let n := length rhs in let m := (length lhs - n)%nat in
    if (m <=? T)%nat then Ok (simple_div_rem lhs rhs)
    else
      (* div_rem_in_place_same_len on (lhs[n-m..], rhs[n-m..]): a 2m / m division by two 3/2 halves *)
      let l := skipn (n - m) lhs in let r := skipn (n - m) rhs in
      let nlo := (m / 2)%nat in
      rbind (dc_small_quotient f (skipn nlo l) r) (fun '(hi, o) =>
      let l1 := firstn nlo l ++ hi in
      rbind (dc_small_quotient f (firstn (m + nlo) l1) r) (fun '(lo, _) =>
      let l2 := lo ++ skipn (m + nlo) l1 in
      let lhs1 := firstn (n - m) lhs ++ l2 in
      let rem := firstn n lhs1 in let q := skipn n lhs1 in
      let rhs_lo := firstn (n - m) rhs in
      let '(rem1, ro) := mul_sub rem q rhs_lo in
      let '(rem2, ro2) :=
        if o then let '(t, b) := sub_same_len (skipn m rem1) rhs_lo in (firstn m rem1 ++ t, ro - b)
        else (rem1, ro) in
      rbind (dc_fix_loop dc_fix_fuel rem2 q rhs ro2 (Z.b2z o)) (fun '(rem3, q3, _, qo3) =>
      Ok (rem3 ++ q3, negb (qo3 =? 0)))))
  end.

Definition dc_same_len (fuel : nat) (lhs rhs : list Z) : result (list Z * bool) :=
  let n := length rhs in let nlo := (n / 2)%nat in
  rbind (dc_small_quotient fuel (skipn nlo lhs) rhs) (fun '(hi, o) =>
  let l1 := firstn nlo lhs ++ hi in
  rbind (dc_small_quotient fuel (firstn (n + nlo) l1) rhs) (fun '(lo, _) =>
  Ok (lo ++ skipn (n + nlo) l1, o))).

(** the `while m >= 2n` loop: blocks of n quotient words from the top; j = number of such blocks *)
Fixpoint dc_blocks (fuel j : nat) (lhs rhs : list Z) (m : nat) (ov : bool) : result (list Z * bool * nat) :=
  match j with
  | O => Ok (lhs, ov, m)
  | S j' =>
      let n := length rhs in
      rbind (dc_same_len fuel (firstn (2 * n) (skipn (m - 2 * n) lhs)) rhs) (fun '(blk, o) =>
      dc_blocks fuel j' (firstn (m - 2 * n) lhs ++ blk ++ skipn m lhs) rhs (m - n) (ov || o))
  end.

Definition dc_div_rem (fuel : nat) (lhs rhs : list Z) : result (list Z * bool) :=
  let n := length rhs in let m0 := length lhs in
  let j := (m0 / n - 1)%nat in
  rbind (dc_blocks fuel j lhs rhs m0 false) (fun '(lhs1, ov, m) =>
  if (n <? m)%nat then
    rbind (dc_small_quotient fuel (firstn m lhs1) rhs) (fun '(lo, o) => Ok (lo ++ skipn m lhs1, ov || o))
  else Ok (lhs1, ov)).

(** div::div_rem_in_place: the algorithm switch *)
Definition div_rem_in_place (fuel : nat) (lhs rhs : list Z) : result (list Z * bool) :=
  if ((length rhs <=? T) || (length lhs - length rhs <=? T))%nat then Ok (simple_div_rem lhs rhs)
  else dc_div_rem fuel lhs rhs.

(** div::normalize + div::div_rem_unshifted_in_place: returns (lhs', q_top) *)
Definition div_rem_unshifted (fuel : nat) (lhs rhs : list Z) (s : Z) : result (list Z * Z) :=
  let '(lhs1, lhs_carry) := shl_in_place lhs s in
  let '(q_top, lhs2) := if lhs_carry >? 0 then div_rem_highest_word lhs_carry lhs1 rhs else (0, lhs1) in
  rbind (div_rem_in_place fuel lhs2 rhs) (fun '(lhs3, ov) => Ok (lhs3, q_top + Z.b2z ov)).

(** div_ops.rs::repr::div_rem_large: (quotient words incl. pushed q_top, remainder words shifted back) *)
Definition div_rem_large (fuel : nat) (lhs rhs : list Z) : result (list Z * list Z) :=
  let n := length rhs in
  let s := lzw 1 (highest_word rhs) in
  let '(rhs1, _) := shl_in_place rhs s in
  rbind (div_rem_unshifted fuel lhs rhs1 s) (fun '(lhs3, q_top) =>
  let '(r, _) := shr_in_place (firstn n lhs3) s in
  Ok (skipn n lhs3 ++ [q_top], r)).

(** *** div_ops.rs::repr - dispatch over the TypedRepr variants (Small = at most two words) *)
Definition nwords (v : Z) : nat := if v <=? 0 then O else Z.to_nat (Z.log2 v / w + 1).
Definition words_of (v : Z) : list Z := to_words w (nwords v) v.
Definition fuel_for (lhs : list Z) : nat := S (length lhs).

(** DivRem for TypedRepr (all four ownership variants run the same kernels on a copy of the words) *)
Definition repr_div_rem (a b : Z) : result (Z * Z) :=
  if b =? 0 then Panic DivideBy0                     (* div_rem_dword: checked_div; div_rem_large_dword *)
  else if a <? B * B then
    (if b <? B * B then Ok (a / b, a mod b)          (* primitive DoubleWord `/` and `%` *)
     else Ok (0, a))
  else if b <? B then let '(q, r) := div_by_word (words_of a) b in Ok (value q, r)
  else if b <? B * B then let '(q, r) := div_by_dword (words_of a) b in Ok (value q, r)
  else if (length (words_of b) <=? length (words_of a))%nat then
    rbind (div_rem_large (fuel_for (words_of a)) (words_of a) (words_of b)) (fun '(q, r) => Ok (value q, value r))
  else Ok (0, a).

(** Div for TypedRepr: div_large_dword = div_rem_large_dword, div_large = the quotient half *)
Definition repr_div (a b : Z) : result Z := rbind (repr_div_rem a b) (fun qr => Ok (fst qr)).

(** Rem for TypedRepr: rem_large_dword uses rem_by_word / rem_by_dword, rem_large the full division *)
Definition repr_rem (a b : Z) : result Z :=
  if b =? 0 then Panic DivideBy0
  else if a <? B * B then (if b <? B * B then Ok (a mod b) else Ok a)
  else if b <? B then Ok (rem_by_word (words_of a) b)
  else if b <? B * B then Ok (rem_by_dword (words_of a) b)
  else if (length (words_of b) <=? length (words_of a))%nat then
    rbind (div_rem_large (fuel_for (words_of a)) (words_of a) (words_of b)) (fun '(q, r) => Ok (value r))
  else Ok a.

(** *** div_const.rs::repr - TypedRepr x ConstDivisorRepr (the divisor is stored normalised with its shift) *)
Definition shl_dword (dw s : Z) : Z * Z * Z := let v := dw * 2 ^ s in (v mod B, (v / B) mod B, v / (B * B)).

Definition const_div_rem (a d : Z) : result (Z * Z) :=
  if d =? 0 then Panic DivideBy0                      (* ConstDivisor::new *)
  else if d <? B then
    let s := lzw 1 d in let dn := d * 2 ^ s in
    if a <? B * B then                                 (* div_rem_small_single *)
      let '(lo, mid, hi) := shl_dword a s in
      let '(q1, r1) := div2by1 dn (mid + B * hi) in
      let '(q0, r0) := div2by1 dn (lo + B * r1) in Ok (q0 + B * q1, r0 / 2 ^ s)
    else let '(q, r) := fast_div_by_word (words_of a) s dn in Ok (value q, r)
  else if d <? B * B then
    let s := lzw 2 d in let dn := d * 2 ^ s in
    if a <? B * B then                                 (* div_rem_small_double *)
      let '(lo, mid, hi) := shl_dword a s in
      let '(q, r) := div3by2 dn lo (mid + B * hi) in Ok (q, r / 2 ^ s)
    else let '(q, r) := fast_div_by_dword (words_of a) s dn in Ok (value q, r)
  else if a <? B * B then Ok (0, a)
  else if (length (words_of a) <? length (words_of d))%nat then Ok (0, a)
  else rbind (div_rem_large (fuel_for (words_of a)) (words_of a) (words_of d)) (fun '(q, r) => Ok (value q, value r)).

Definition const_rem (a d : Z) : result Z :=
  if d =? 0 then Panic DivideBy0
  else if d <? B then
    let s := lzw 1 d in let dn := d * 2 ^ s in
    if a <? B * B then                                 (* ConstSingleDivisor::rem_dword, then >> shift *)
      (if s =? 0 then
         let r1 := snd (div1by1 dn (a / B)) in         (* high word reduced first (repaired, finding F01) *)
         Ok (snd (div2by1 dn (a mod B + B * r1)))
       else let '(n0, n1, n2) := shl_dword a s in
            let r1 := snd (div2by1 dn (n1 + B * n2)) in
            Ok (snd (div2by1 dn (n0 + B * r1)) / 2 ^ s))
    else                                               (* ConstSingleDivisor::rem_large *)
      let rem := rem_word_loop dn (words_of a) in
      Ok ((if s =? 0 then rem else snd (div2by1 dn (rem * 2 ^ s))) / 2 ^ s)
  else if d <? B * B then
    let s := lzw 2 d in let dn := d * 2 ^ s in
    if a <? B * B then                                 (* ConstDoubleDivisor::rem_dword *)
      (if s =? 0 then Ok (snd (div2by2 dn a))
       else let '(n0, n1, n2) := shl_dword a s in Ok (snd (div3by2 dn n0 (n1 + B * n2)) / 2 ^ s))
    else                                               (* ConstDoubleDivisor::rem_large *)
      let rem := rem_dword_loop dn (words_of a) in
      Ok ((if s =? 0 then rem
           else let '(r0, r1, r2) := shl_dword rem s in snd (div3by2 dn r0 (r1 + B * r2))) / 2 ^ s)
  else if a <? B * B then Ok a
  else if (length (words_of a) <? length (words_of d))%nat then Ok a
  else rbind (div_rem_large (fuel_for (words_of a)) (words_of a) (words_of d)) (fun '(q, r) => Ok (value r)).

End DivWordModel.
