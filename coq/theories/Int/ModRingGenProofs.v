(** C13 (round 3) - the fragments regenerated from the Rust sources on every run (coq/gen/ModRingGen.v, written by
    tools/translate_c13_r3.py) are what the hand-written models use:
      large::choose_pow_window_len (cost closure, first size, guard, break test), table size and first bit of
      pow_nontrivial  = ModRingPowModel.choose_window_len / pow_window_with;
      the comparison methods of add_in_place / dbl_in_place / mul_normalized / sqr_normalized / is_valid / check
      = is_ge / is_lt of ModRingWords.v, the long-product switches = the strict test of the model;
      the IntoRing impls of the primitive types: signed types through IBig, unsigned through UBig, and the model of
      each impl returns the reduced form of every value of the type;
      the units of the one- and two-word rings.
    An edit of the source that changes one of these fragments breaks a proof below. *)
From Coq Require Import String.
From Dashu Require Import Base.Prelude Base.Words Int.ModRingSpec Int.ModRingPowModel Int.ModRingPowProofs
  Int.ModRingModel Int.ModRingProofs Int.ModRingWords.
From DashuGen Require Import ModRingGen.
Open Scope Z_scope.

(** ---------------- window length ---------------- *)
(** the model of large::pow runs the regenerated function (ModRingPowModel.pow_nontrivial_large); what the proofs need
    of it - a window length in [1, w) - is proved over the generated definition in ModRingPowProofs.v *)
Theorem gen_window_range w n : 2 <= w -> 1 <= gen_choose_window_len w n < w.
Proof. apply gen_choose_window_len_range. Qed.

(** the sliding-window exponentiation of the model IS the algorithm with the regenerated parameters: window length,
    number of table entries `(1 << (window_len - 1)) - 1`, first bit `bit_len - 2` *)
Theorem gen_pow_params w (T : Type) (sqr : T -> T) (mul : T -> T -> T) winf raw exp : 2 <= w ->
  pow_nontrivial_large w T sqr mul winf raw exp =
    let bl := Z.log2 exp + 1 in
    let wl := gen_choose_window_len w bl in
    let val := sqr raw in
    window_loop T sqr mul winf (Z.to_nat bl) raw (build_table T mul (Z.to_nat (gen_table_entries wl)) raw val) wl exp (gen_first_bit bl) val.
Proof.
  intros Hw. unfold pow_nontrivial_large, pow_window_with, gen_table_entries, gen_first_bit. cbv zeta.
  pose proof (gen_choose_window_len_range w (Z.log2 exp + 1) Hw) as Hc.
  replace ((1 <=? gen_choose_window_len w (Z.log2 exp + 1)) && (gen_choose_window_len w (Z.log2 exp + 1) <? w)) with true
    by (symmetry; apply andb_true_intro; split; [apply Z.leb_le | apply Z.ltb_lt]; lia).
  rewrite Z.mul_1_l. reflexivity.
Qed.

Lemma gen_table_loop_entries wl : gen_table_loop_end wl - 1 = gen_table_entries wl.
Proof. reflexivity. Qed.

(** the table (64-bit words, bit lengths 2 .. gen_window_table_max): finite domain, checked by evaluation *)
Fixpoint table_lookup (t : list (Z * Z * Z)) (n : Z) : option Z :=
  match t with
  | [] => None
  | (lo, hi, wl) :: r => if (lo <=? n) && (n <=? hi) then Some wl else table_lookup r n
  end.

Definition check_one (k : nat) : bool :=
  match table_lookup gen_window_table (Z.of_nat k) with
  | Some wl => wl =? gen_choose_window_len 64 (Z.of_nat k)
  | None => false
  end.
Definition table_range : list nat := seq 2 (Z.to_nat gen_window_table_max - 1).

Lemma window_table_check_ok : forallb check_one table_range = true.
Proof. vm_compute. reflexivity. Qed.

Lemma in_table_range n : 2 <= n <= gen_window_table_max -> In (Z.to_nat n) table_range.
Proof. intros Hn. unfold table_range. apply in_seq. unfold gen_window_table_max in *. lia. Qed.

Theorem gen_window_table_ok n : 2 <= n <= gen_window_table_max ->
  table_lookup gen_window_table n = Some (gen_choose_window_len 64 n).
Proof.
  intros Hn. pose proof (proj1 (forallb_forall check_one table_range) window_table_check_ok (Z.to_nat n) (in_table_range n Hn)) as H.
  unfold check_one in H. rewrite Z2Nat.id in H by lia.
  destruct (table_lookup gen_window_table n) as [wl|]; [|discriminate].
  apply Z.eqb_eq in H. subst wl. reflexivity.
Qed.

(** ---------------- comparison methods and product-length switches ---------------- *)
Theorem gen_comparisons c :
  gen_cmp_add_in_place c = is_ge c /\ gen_cmp_dbl_in_place c = is_ge c /\
  gen_cmp_mul_normalized c = is_ge c /\ gen_cmp_sqr_normalized c = is_ge c /\
  gen_cmp_is_valid_large c = is_lt c /\ gen_cmp_reducer_check c = is_lt c.
Proof. destruct c; repeat split; reflexivity. Qed.

Theorem gen_long_switch n s : gen_mul_long n s = (n <? s)%nat /\ gen_sqr_long n s = (n <? s)%nat.
Proof. split; reflexivity. Qed.

(** ---------------- the units ---------------- *)
Theorem gen_units w f2 r :
  raw_one w f2 r = match r_kind r with
                   | KSingle => if gen_one_word_reduced then s_rem_word w f2 r 1 else Ok (2 ^ r_shift r)
                   | KDouble => if gen_one_dword_reduced then Panic Undocumented else Ok (2 ^ r_shift r)
                   | KLarge => Ok (2 ^ r_shift r)
                   end.
Proof. unfold raw_one. destruct (r_kind r); reflexivity. Qed.

(** ---------------- IntoRing for the primitive types ---------------- *)
(** the model of `impl IntoRing for $t`: UBig::from(self).into_ring(ring) or IBig::from(self).into_ring(ring) *)
Definition prim_into_ring (w : Z) f2 f3 (via_ibig : bool) (r : ring) (v : Z) : result reduced :=
  if via_ibig then reduce_asis w f2 f3 r v else from_ubig w f2 f3 r v.

Definition prim_range (signed : bool) (bits v : Z) : Prop :=
  if signed then - 2 ^ (bits - 1) <= v < 2 ^ (bits - 1) else 0 <= v < 2 ^ bits.

(** signed types convert through IBig, unsigned ones through UBig (which only takes non-negative values) *)
Theorem gen_prims_via w t via bits sg : In (t, via, bits) (gen_into_ring_prims w) -> In (t, sg) gen_into_ring_signed -> via = sg.
Proof.
  intros H1 H2. cbn in H1, H2.
  repeat (destruct H1 as [H1|H1]; [inversion H1; subst; clear H1;
            repeat (destruct H2 as [H2|H2]; [inversion H2; subst; reflexivity || discriminate|]); contradiction|]).
  contradiction.
Qed.

Section Prims.
Variable w : Z.
Hypothesis w_ge : 2 <= w.
Variable f2 : Z -> Z -> Z * Z.
Variable f3 : Z -> Z -> Z -> Z * Z.
Hypothesis f2_ok : forall d a, 2 ^ w / 2 <= d < 2 ^ w -> 0 <= a -> a / 2 ^ w < d -> f2 d a = (a / d, a mod d).
Hypothesis f3_ok : forall d lo hi, 2 ^ w * 2 ^ w / 2 <= d < 2 ^ w * 2 ^ w -> 0 <= lo < 2 ^ w -> 0 <= hi < d ->
  f3 d lo hi = ((lo + 2 ^ w * hi) / d, (lo + 2 ^ w * hi) mod d).

(** every listed impl returns the reduced form of every value of its type (negative values: the canonical
    representative in [0, m)) *)
Theorem gen_prims_reduce r t via bits sg v : ring_wf w r ->
  In (t, via, bits) (gen_into_ring_prims w) -> In (t, sg) gen_into_ring_signed -> prim_range sg bits v ->
  exists e, prim_into_ring w f2 f3 via r v = Ok e /\ rep r v e /\ residue_asis e = Ok (v mod r_m r) /\ 0 <= v mod r_m r < r_m r.
Proof.
  intros Hwf H1 H2 Hr. rewrite (gen_prims_via w t via bits sg H1 H2). unfold prim_into_ring.
  assert (exists e, (if sg then reduce_asis w f2 f3 r v else from_ubig w f2 f3 r v) = Ok e /\ rep r v e) as (e & Ee & He).
  { destruct sg.
    - exact (reduce_ok w w_ge f2 f3 f2_ok f3_ok r v Hwf).
    - unfold prim_range in Hr. exact (from_ubig_ok w w_ge f2 f3 f2_ok f3_ok r v Hwf ltac:(lia)). }
  destruct (residue_ok w w_ge r v e Hwf He) as (Er & Hb & _). unfold reduce_spec in *.
  exists e. split; [exact Ee|]. split; [exact He|]. split; [exact Er | exact Hb].
Qed.
End Prims.

(** non-vacuity: the table is not empty and lists both kinds *)
Example gen_prims_nonvacuous : In ("u128"%string, false, 128) (gen_into_ring_prims 64) /\ In ("isize"%string, true, 64) (gen_into_ring_prims 64) /\
  prim_range true 64 (- 2 ^ 63) /\ table_lookup gen_window_table 300 = Some 5.
Proof. cbn. repeat split; try lia; tauto. Qed.
