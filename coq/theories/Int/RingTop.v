(** C01: the property-level statements.  The as-is models of the UBig / IBig operators
    + - * sqr cubic pow (Small/Large arms over the word kernels, thresholds of the source) return
    exactly the mathematical result for ALL operands, for every word size w >= 8 and every
    ownership form.  [trepr] is the typed view of a Repr (inline double word | heap words);
    operands satisfy [twf] (what repr.rs maintains) resp. the weaker [tok] (well-formed words). *)
From Dashu Require Import Base.Prelude Base.Words Int.RingSpec Int.RingAdd Int.RingAddProofs Int.RingMul Int.RingMulProofs
  Int.RingKaraProofs Int.RingToomProofs Int.RingDispatchProofs Int.RingSqrProofs Int.RingOps Int.RingOpsProofs
  Int.RingOpsMulProofs Int.RingPowProofs.
From DashuGen Require Import Params.
Open Scope Z_scope.

Definition src_SQR : nat := Z.to_nat sqr_max_len_simple.

Section Top.
Variable w : Z.
Hypothesis w_ge : 8 <= w.
Notation rv := (repr_value w).
Notation srv := (srepr_value w).
Notation TS := src_T_simple.
Notation TK := src_T_kara.
Notation CH := src_CHUNK.
Notation SQ := src_SQR.

Let A1 : (1 <= TS)%nat := proj1 source_thresholds_admissible.
Let A2 : (3 <= TK)%nat := proj1 (proj2 source_thresholds_admissible).
Let A3 : (1 <= CH)%nat := proj1 (proj2 (proj2 source_thresholds_admissible)).

Theorem sqr_kernel_exact a : wf w a ->
  exists r, sqr w TS TK SQ a = Ok r /\ length r = (2 * length a)%nat /\ wf w r /\ value w r = value w a * value w a.
Proof. intros Ha. exact (sqr_correct w w_ge TS TK CH SQ A1 A2 A3 a Ha). Qed.

Theorem ubig_add_exact o x y : twf w x -> twf w y ->
  Ok (rv (repr_add w o x y)) = ubig_add_spec (rv x) (rv y) /\ twf w (repr_add w o x y).
Proof. intros Hx Hy. destruct (repr_add_correct w w_ge o x y Hx Hy) as (V & T). unfold ubig_add_spec. rewrite V. auto. Qed.

(** a - b, or the documented panic exactly when a < b; never any other panic *)
Theorem ubig_sub_exact o x y : twf w x -> twf w y ->
  match repr_sub w o x y, ubig_sub_spec (rv x) (rv y) with
  | Ok r, Ok v => rv r = v /\ twf w r
  | Panic NegativeUBig, Panic NegativeUBig => True
  | _, _ => False
  end.
Proof.
  intros Hx Hy. pose proof (repr_sub_correct w w_ge o x y Hx Hy) as R. unfold sub_res in R. unfold ubig_sub_spec.
  destruct (rv x <? rv y); [rewrite R; exact I|]. destruct R as (r & E & V & T). rewrite E. auto.
Qed.

Theorem ibig_add_exact o s0 x s1 y : twf w x -> twf w y ->
  exists r, ibig_add_asis w o s0 x s1 y = Ok r /\ srv r = ibig_add_spec (signed s0 (rv x)) (signed s1 (rv y)) /\ twf w (snd r).
Proof. intros Hx Hy. exact (ibig_add_asis_correct w w_ge o s0 x s1 y Hx Hy). Qed.

Theorem ibig_sub_exact o s0 x s1 y : twf w x -> twf w y ->
  exists r, ibig_sub_asis w o s0 x s1 y = Ok r /\ srv r = ibig_sub_spec (signed s0 (rv x)) (signed s1 (rv y)) /\ twf w (snd r).
Proof. intros Hx Hy. exact (ibig_sub_asis_correct w w_ge o s0 x s1 y Hx Hy). Qed.

Theorem ubig_mul_exact x y : tok w x -> tok w y ->
  exists r, repr_mul w TS TK CH SQ x y = Ok r /\ Ok (rv r) = ubig_mul_spec (rv x) (rv y) /\ twf w r.
Proof.
  intros Hx Hy. destruct (repr_mul_correct w w_ge TS TK CH SQ A1 A2 A3 x y Hx Hy) as (r & E & V & T).
  exists r. unfold ubig_mul_spec. rewrite V. auto.
Qed.

Theorem ibig_mul_exact s0 x s1 y : tok w x -> tok w y ->
  exists r, ibig_mul_asis w TS TK CH SQ s0 x s1 y = Ok r /\ srv r = ibig_mul_spec (signed s0 (rv x)) (signed s1 (rv y)) /\ twf w (snd r).
Proof. intros Hx Hy. exact (ibig_mul_asis_correct w w_ge TS TK CH SQ A1 A2 A3 s0 x s1 y Hx Hy). Qed.

Theorem sqr_exact x : tok w x ->
  exists r, repr_sqr w TS TK SQ x = Ok r /\ rv r = sqr_spec (rv x) /\ twf w r.
Proof. intros Hx. exact (repr_sqr_correct w w_ge TS TK CH SQ A1 A2 A3 x Hx). Qed.

Theorem ubig_cubic_exact x : tok w x ->
  exists r, ubig_cubic_asis w TS TK CH SQ x = Ok r /\ rv r = cubic_spec (rv x) /\ twf w r.
Proof.
  intros Hx. unfold ubig_cubic_asis, cubic_spec.
  destruct (repr_sqr_correct w w_ge TS TK CH SQ A1 A2 A3 x Hx) as (q & E & V & T). rewrite E.
  destruct (repr_mul_correct w w_ge TS TK CH SQ A1 A2 A3 x q Hx (twf_tok w q T)) as (r & E' & V' & T').
  exists r. split; [exact E'|]. split; [rewrite V', V; ring | exact T'].
Qed.

Theorem ibig_cubic_exact s x : tok w x ->
  exists r, ibig_cubic_asis w TS TK CH SQ s x = Ok r /\ srv r = cubic_spec (signed s (rv x)) /\ twf w (snd r).
Proof.
  intros Hx. unfold ibig_cubic_asis, cubic_spec.
  destruct (repr_sqr_correct w w_ge TS TK CH SQ A1 A2 A3 x Hx) as (q & E & V & T). rewrite E.
  destruct (ibig_mul_asis_correct w w_ge TS TK CH SQ A1 A2 A3 s x Positive q Hx (twf_tok w q T)) as (r & E' & V' & T').
  exists r. split; [exact E'|]. split; [|exact T']. rewrite V', V. unfold signed. destruct s; cbn [sgnz]; ring.
Qed.

Theorem ubig_pow_exact x e : tok w x -> 0 <= e ->
  exists r, ubig_pow_asis w TS TK CH SQ x e = Ok r /\ rv r = pow_spec (rv x) e.
Proof.
  intros Hx He. destruct (ubig_pow_asis_correct w w_ge TS TK CH SQ A1 A2 A3 x e Hx He) as (r & E & V & _). exists r. auto.
Qed.

Theorem ibig_pow_exact s x e : tok w x -> 0 <= e ->
  exists r, ibig_pow_asis w TS TK CH SQ s x e = Ok r /\ srv r = pow_spec (signed s (rv x)) e.
Proof. intros Hx He. exact (ibig_pow_asis_correct w w_ge TS TK CH SQ A1 A2 A3 s x e Hx He). Qed.

End Top.

(** non-vacuity (64-bit words): a carry across the inline/heap boundary, a borrow back, a negative
    difference, a three-word square and a power *)
Example top_examples :
  repr_add 64 OVV (Small (2 ^ 128 - 1)) (Small 1) = Large [0; 0; 1] /\
  repr_sub 64 OVR (Large [0; 0; 1]) (Small 1) = Ok (Small (2 ^ 128 - 1)) /\
  repr_sub 64 OVV (Small 1) (Large [0; 0; 1]) = Panic NegativeUBig /\
  ibig_sub_asis 64 ORR Positive (Small 5) Positive (Large [0; 0; 1]) = Ok (Negative, Small (2 ^ 128 - 5)) /\
  repr_sqr 64 src_T_simple src_T_kara src_SQR (Large [1; 0; 1]) = Ok (Large [1; 0; 2; 0; 1]) /\
  ubig_pow_asis 64 src_T_simple src_T_kara src_CHUNK src_SQR (Small 6) 50 = Ok (Large [2 ^ 50 * (3 ^ 50 mod 2 ^ 14); 3 ^ 50 / 2 ^ 14 mod 2 ^ 64; 3 ^ 50 / 2 ^ 78]).
Proof. vm_compute. repeat split; reflexivity. Qed.
