(** C12 - primitive square / cube roots (base/src/ring/root.rs): the correction loops reach the exact root from
    ANY underestimate (all n, any width); an answer of the table/Newton routines for u16, u32, u64 and of the
    normalising wrappers is the exact root with its remainder (all inputs: the subtraction n - s^2 is checked);
    every u8 / u16 value is answered within the stated number of correction steps (finite, by computation);
    the tables and guard constants are those regenerated from the source. *)
From Dashu Require Import Base.Prelude Int.GrlSpec Int.GrlModel Int.GrlSqrtProof Int.GrlKsqrt Int.GrlKsqrtProof Int.GrlLehmer Int.GrlLog2Tab Int.GrlLog2TabProof Int.GrlPrimRoot.
From DashuGen Require Import RootTabs.
Open Scope Z_scope.

(** * the tables, guard constants and the Lehmer threshold are those of the source (regenerated on every run) *)
Theorem root_tabs_are_source :
  RSQRT_TAB = RSQRT_TAB_gen /\ RCBRT_TAB = RCBRT_TAB_gen /\ ROOT_GUARDS = ROOT_GUARDS_gen /\
  MIN_DWORD_GUESS_LEN = MIN_DWORD_GUESS_LEN_gen.
Proof. repeat split; reflexivity. Qed.

(** * the correction loops: from ANY underestimate to the exact root, for every n *)
Lemma fix_sqrt_loop_correct : forall fuel HB n s e elim s' e', 0 <= s -> e = n - s * s -> 0 <= e -> elim = 2 * s + 1 ->
  fix_sqrt_loop fuel HB s e elim = Ok (s', e') -> s' = Z.sqrt n /\ e' = n - s' * s'.
Proof.
  induction fuel as [|k IH]; intros HB n s e elim s' e' Hs He He0 Hl; [discriminate|].
  cbn [fix_sqrt_loop]. destruct (Z.leb_spec elim e).
  - destruct (_ <=? _); [discriminate|]. apply IH; lia.
  - intros E. injection E as <- <-. split; [|exact He]. symmetry. apply Z.sqrt_unique. unfold Z.succ. lia.
Qed.

Theorem fix_sqrt_correct : forall fuel HB n s s' e', 0 <= s ->
  fix_sqrt fuel HB n s = Ok (s', e') -> s' = Z.sqrt n /\ e' = n - s' * s'.
Proof.
  intros fuel HB n s s' e' Hs. unfold fix_sqrt. destruct (Z.ltb_spec n (s * s)); [discriminate|].
  apply fix_sqrt_loop_correct; lia.
Qed.

Lemma fix_sqrt_loop_total : forall fuel HB n s e elim, 0 <= s -> e = n - s * s -> 0 <= e -> elim = 2 * s + 1 ->
  Z.sqrt n < HB -> Z.sqrt n - s < Z.of_nat fuel -> exists r, fix_sqrt_loop fuel HB s e elim = Ok r.
Proof.
  induction fuel as [|k IH]; intros HB n s e elim Hs He He0 Hl HH Hf.
  - exfalso. assert (s <= Z.sqrt n) by (apply Z.sqrt_le_square; lia). lia.
  - cbn [fix_sqrt_loop]. destruct (Z.leb_spec elim e); [|eexists; reflexivity].
    assert (s + 1 <= Z.sqrt n) as Hle.
    { apply Z.sqrt_le_square; try lia. }
    destruct (Z.leb_spec HB (s + 1)); [lia|]. apply (IH HB n); lia.
Qed.

Theorem fix_sqrt_total : forall fuel HB n s, 0 <= s -> s * s <= n -> Z.sqrt n < HB ->
  Z.sqrt n - s < Z.of_nat fuel -> exists r, fix_sqrt fuel HB n s = Ok r.
Proof.
  intros fuel HB n s Hs Hn HH Hf. unfold fix_sqrt. destruct (Z.ltb_spec n (s * s)); [lia|].
  apply (fix_sqrt_loop_total fuel HB n); lia.
Qed.

(** cube roots: [cb c n] says c is the truncated cube root of n *)
Definition cb (c n : Z) : Prop := 0 <= c /\ c ^ 3 <= n < (c + 1) ^ 3.

Lemma cube_eq : forall c, c * c * c = c ^ 3. Proof. intros. ring. Qed.

Lemma fix_cbrt_loop_correct : forall fuel HB n c e elim c' e', 0 <= c -> e = n - c ^ 3 -> 0 <= e ->
  elim = 3 * (c * c + c) + 1 ->
  fix_cbrt_loop fuel HB c e elim = Ok (c', e') -> cb c' n /\ e' = n - c' ^ 3.
Proof.
  induction fuel as [|k IH]; intros HB n c e elim c' e' Hc He He0 Hl; [discriminate|].
  cbn [fix_cbrt_loop]. destruct (Z.leb_spec elim e).
  - destruct (_ <=? _); [discriminate|].
    assert ((c + 1) ^ 3 = c ^ 3 + elim) as E3 by (rewrite Hl; ring).
    apply IH; first [lia | rewrite E3; lia | rewrite Hl; ring].
  - intros E. injection E as <- <-. split; [|exact He]. unfold cb. split; [exact Hc|].
    replace ((c + 1) ^ 3) with (c ^ 3 + (3 * (c * c + c) + 1)) by ring. lia.
Qed.

Theorem fix_cbrt_correct : forall fuel HB n c c' e', 0 <= c ->
  fix_cbrt fuel HB n c = Ok (c', e') -> cb c' n /\ e' = n - c' ^ 3.
Proof.
  intros fuel HB n c c' e' Hc. unfold fix_cbrt. rewrite cube_eq. destruct (Z.ltb_spec n (c ^ 3)); [discriminate|].
  apply fix_cbrt_loop_correct; lia.
Qed.

Lemma cb_unique : forall c c' n, cb c n -> cb c' n -> c = c'.
Proof.
  intros c c' n [H0 H1] [H0' H1'].
  destruct (Z.lt_trichotomy c c') as [L|[E|L]]; [exfalso| exact E |exfalso].
  - assert ((c + 1) ^ 3 <= c' ^ 3) by (apply Z.pow_le_mono_l; lia). lia.
  - assert ((c' + 1) ^ 3 <= c ^ 3) by (apply Z.pow_le_mono_l; lia). lia.
Qed.

Lemma fix_cbrt_loop_total : forall fuel HB n c e elim r0, 0 <= c -> e = n - c ^ 3 -> 0 <= e ->
  elim = 3 * (c * c + c) + 1 -> cb r0 n -> r0 < HB -> r0 - c < Z.of_nat fuel ->
  exists r, fix_cbrt_loop fuel HB c e elim = Ok r.
Proof.
  induction fuel as [|k IH]; intros HB n c e elim r0 Hc He He0 Hl Hr HH Hf.
  - exfalso. destruct Hr as [Hr0 Hr1].
    destruct (Z.lt_ge_cases r0 c); [|lia]. assert ((r0 + 1) ^ 3 <= c ^ 3) by (apply Z.pow_le_mono_l; lia). lia.
  - cbn [fix_cbrt_loop]. destruct (Z.leb_spec elim e); [|eexists; reflexivity].
    assert ((c + 1) ^ 3 = c ^ 3 + elim) as E3 by (rewrite Hl; ring).
    assert (c + 1 <= r0) as Hle.
    { destruct Hr as [Hr0 Hr1]. destruct (Z.lt_ge_cases r0 (c + 1)); [exfalso|lia].
      assert ((r0 + 1) ^ 3 <= (c + 1) ^ 3) by (apply Z.pow_le_mono_l; lia). lia. }
    destruct (Z.leb_spec HB (c + 1)); [lia|]. apply (IH HB n _ _ _ r0); first [lia | rewrite E3; lia | rewrite Hl; ring | assumption].
Qed.

Theorem fix_cbrt_total : forall fuel HB n c r0, 0 <= c -> c ^ 3 <= n -> cb r0 n -> r0 < HB ->
  r0 - c < Z.of_nat fuel -> exists r, fix_cbrt fuel HB n c = Ok r.
Proof.
  intros fuel HB n c r0 Hc Hn Hr HH Hf. unfold fix_cbrt. rewrite cube_eq. destruct (Z.ltb_spec n (c ^ 3)); [lia|].
  apply (fix_cbrt_loop_total fuel HB n _ _ _ r0); first [lia | assumption | reflexivity].
Qed.

Lemma chk_ok : forall B v x, chk B v = Ok x -> x = v /\ 0 <= v < B.
Proof.
  intros B v x. unfold chk. destruct (Z.leb_spec 0 v); destruct (Z.ltb_spec v B); cbn [andb]; try discriminate.
  intros E. injection E as <-. lia.
Qed.

Ltac bind_inv H :=
  repeat match type of H with
  | rbind ?x _ = Ok _ => let E := fresh "E" in destruct x eqn:E; cbn [rbind] in H; [|discriminate H ..]
  | (if ?c then _ else _) = Ok _ => destruct c; [discriminate H|]
  end.

(** * whatever the Newton estimate, an answer of the normalised routines is the exact root with its remainder
      (the subtraction n - s^2 is checked, the correction loop runs from an underestimate) *)
Theorem nsqrt16_sound : forall fuel n s e, nsqrt16 fuel n = Ok (s, e) -> s = Z.sqrt n /\ e = n - s * s.
Proof.
  intros fuel n s e H. unfold nsqrt16 in H. bind_inv H.
  apply (fix_sqrt_correct _ _ _ _ _ _ (proj1 (Z.mod_pos_bound _ T8 eq_refl)) H).
Qed.

Theorem nsqrt32_sound : forall fuel n s e, nsqrt32 fuel n = Ok (s, e) -> s = Z.sqrt n /\ e = n - s * s.
Proof.
  intros fuel n s e H. unfold nsqrt32 in H. bind_inv H.
  match goal with E : chk T16 (_ + _) = Ok ?a |- _ => destruct (chk_ok _ _ _ E) as [-> [P _]] end.
  exact (fix_sqrt_correct _ _ _ _ _ _ P H).
Qed.

Theorem nsqrt64_sound : forall fuel n s e, nsqrt64 fuel n = Ok (s, e) -> s = Z.sqrt n /\ e = n - s * s.
Proof.
  intros fuel n s e H. unfold nsqrt64 in H. bind_inv H.
  match goal with E : chk T32 (_ + _) = Ok ?a |- _ => destruct (chk_ok _ _ _ E) as [-> [P _]] end.
  exact (fix_sqrt_correct _ _ _ _ _ _ P H).
Qed.

Theorem ncbrt16_sound : forall fuel n c e, ncbrt16 fuel n = Ok (c, e) -> cb c n /\ e = n - c ^ 3.
Proof.
  intros fuel n c e H. unfold ncbrt16 in H. bind_inv H.
  apply (fix_cbrt_correct _ _ _ _ _ _ (proj1 (Z.mod_pos_bound _ T8 eq_refl)) H).
Qed.

Lemma wmul_hi_nonneg : forall B a b, 0 < B -> 0 <= a -> 0 <= b -> 0 <= wmul_hi B a b.
Proof. intros. unfold wmul_hi. apply Z.div_pos; [apply Z.mul_nonneg_nonneg|]; lia. Qed.

Theorem ncbrt32_sound : forall fuel n c e, ncbrt32 fuel n = Ok (c, e) -> cb c n /\ e = n - c ^ 3.
Proof.
  intros fuel n c e H. unfold ncbrt32 in H. bind_inv H.
  match goal with E : chk T16 (_ - snd (fst ROOT_GUARDS)) = Ok ?a |- _ => destruct (chk_ok _ _ _ E) as [Ea [P _]]; rewrite <- Ea in P end.
  refine (fix_cbrt_correct _ _ _ _ _ _ _ H).
  apply Z.div_pos; [|reflexivity]. apply wmul_hi_nonneg; [reflexivity|exact P|].
  apply wmul_hi_nonneg; [reflexivity|exact P|]. apply Z.mod_pos_bound. reflexivity.
Qed.

Theorem ncbrt64_sound : forall fuel n c e, ncbrt64 fuel n = Ok (c, e) -> cb c n /\ e = n - c ^ 3.
Proof.
  intros fuel n c e H. unfold ncbrt64 in H. bind_inv H.
  match goal with E : chk T32 (_ - snd ROOT_GUARDS) = Ok ?a |- _ => destruct (chk_ok _ _ _ E) as [Ea [P _]]; rewrite <- Ea in P end.
  refine (fix_cbrt_correct _ _ _ _ _ _ _ H).
  apply wmul_hi_nonneg; [reflexivity|exact P|].
  apply wmul_hi_nonneg; [reflexivity|exact P|]. apply Z.mod_pos_bound. reflexivity.
Qed.

(** * the normalising wrappers *)
Lemma sqrt_unshift : forall n h, 0 <= n -> 0 <= h -> Z.sqrt (n * 2 ^ (2 * h)) / 2 ^ h = Z.sqrt n.
Proof.
  intros n h Hn Hh.
  assert (2 ^ (2 * h) = 2 ^ h * 2 ^ h) as E2 by (replace (2 * h) with (h + h) by lia; apply Z.pow_add_r; lia).
  assert (0 < 2 ^ h) by (apply Z.pow_pos_nonneg; lia).
  set (m := n * 2 ^ (2 * h)). assert (0 <= m) by (unfold m; apply Z.mul_nonneg_nonneg; lia).
  pose proof (Z.sqrt_spec m ltac:(lia)) as Hsp. unfold Z.succ in Hsp. pose proof (Z.sqrt_nonneg m) as Hs0.
  destruct (sqrt_post_algebra n h (Z.sqrt m) (m - Z.sqrt m * Z.sqrt m) Hh Hs0) as [_ [A2 A3]]; [unfold m; rewrite E2; lia | lia |].
  cbv zeta in A2, A3. symmetry. apply Z.sqrt_unique. unfold Z.succ. exact A2.
Qed.

Lemma Ok_inj : forall (A : Type) (a b : A), Ok a = Ok b -> a = b.
Proof. intros A a b E. injection E as E. exact E. Qed.

Lemma lzeros_nonneg : forall bits n, 0 < n < 2 ^ bits -> 0 <= lzeros bits n.
Proof.
  intros bits n Hn. unfold lzeros. assert (Z.log2 n < bits); [|lia].
  apply Z.log2_lt_pow2; lia.
Qed.

Theorem prim_sqrt_rem_sound : forall norm bits n r, 0 <= n < 2 ^ bits ->
  (forall m s e, norm m = Ok (s, e) -> s = Z.sqrt m /\ e = m - s * s) ->
  prim_sqrt_rem norm bits n = Ok r -> r = sqrt_rem_spec n.
Proof.
  intros norm bits n r Hn Hnorm. unfold prim_sqrt_rem, sqrt_rem_spec.
  destruct (Z.eqb_spec n 0) as [e|e]; [intros E; injection E as <-; subst n; reflexivity|].
  pose proof (lzeros_nonneg bits n ltac:(lia)) as Hlz.
  assert (0 <= lzeros bits n / 2) as Hh by (apply Z.div_pos; lia). set (h := lzeros bits n / 2) in *.
  destruct (norm (n * 2 ^ (2 * h))) as [[s e0]|?|?|] eqn:E; unfold rbind; try discriminate.
  destruct (Hnorm _ _ _ E) as [Es Ee].
  destruct (Z.eqb_spec (2 * h) 0) as [z|z].
  - intros E2. injection E2 as <-. rewrite z in *. rewrite Z.pow_0_r, Z.mul_1_r in *. subst s e0. reflexivity.
  - intros E2. apply Ok_inj in E2. rewrite <- E2. change (fst (s, e0)) with s.
    replace (2 * h / 2) with h by (symmetry; rewrite Z.mul_comm; apply Z.div_mul; lia).
    rewrite Es, sqrt_unshift by lia. reflexivity.
Qed.

Lemma cbrt_unshift : forall n h c, 0 <= n -> 0 <= h -> cb c (n * 2 ^ (3 * h)) -> cb (c / 2 ^ h) n.
Proof.
  intros n h c Hn Hh [Hc [H1 H2]].
  assert (0 < 2 ^ h) as HT by (apply Z.pow_pos_nonneg; lia). set (T := 2 ^ h) in *.
  assert (2 ^ (3 * h) = T ^ 3) as E3 by (unfold T; rewrite <- Z.pow_mul_r by lia; f_equal; lia).
  rewrite E3 in *.
  pose proof (Z.div_mod c T ltac:(lia)) as DM. pose proof (Z.mod_pos_bound c T HT) as MB.
  assert (0 <= c / T) as Hr by (apply Z.div_pos; lia). set (r := c / T) in *.
  assert (0 < T ^ 3) as HT3 by (apply Z.pow_pos_nonneg; lia).
  unfold cb. split; [exact Hr|]. split.
  - assert ((r * T) ^ 3 <= c ^ 3) by (apply Z.pow_le_mono_l; lia).
    rewrite Z.pow_mul_l in *. apply (Z.mul_le_mono_pos_r _ _ (T ^ 3)); lia.
  - assert ((c + 1) ^ 3 <= ((r + 1) * T) ^ 3) by (apply Z.pow_le_mono_l; lia).
    rewrite Z.pow_mul_l in *. apply (Z.mul_lt_mono_pos_r (T ^ 3)); lia.
Qed.

Theorem prim_cbrt_rem_sound : forall norm bits n c e, 0 <= n < 2 ^ bits ->
  (forall m c e, norm m = Ok (c, e) -> cb c m /\ e = m - c ^ 3) ->
  prim_cbrt_rem norm bits n = Ok (c, e) -> cb c n /\ e = n - c ^ 3.
Proof.
  intros norm bits n c e Hn Hnorm. unfold prim_cbrt_rem.
  destruct (Z.eqb_spec n 0) as [z|z]; [intros E; injection E as <- <-; subst n; unfold cb; cbn; lia|].
  pose proof (lzeros_nonneg bits n ltac:(lia)) as Hlz. set (lz := lzeros bits n) in *.
  pose proof (Z.div_mod lz 3 ltac:(lia)) as D3. pose proof (Z.mod_pos_bound lz 3 ltac:(lia)) as M3.
  assert (0 <= lz / 3) as Hh by (apply Z.div_pos; lia).
  replace (lz - lz mod 3) with (3 * (lz / 3)) by lia. set (h := lz / 3) in *.
  destruct (norm (n * 2 ^ (3 * h))) as [[c0 e0]|?|?|] eqn:E; unfold rbind; try discriminate.
  destruct (Hnorm _ _ _ E) as [Hc He].
  destruct (Z.eqb_spec (3 * h) 0) as [z0|z0].
  - intros E2. injection E2 as <- <-. rewrite z0 in *. rewrite Z.pow_0_r, Z.mul_1_r in *. auto.
  - intros E2. apply Ok_inj in E2. change (fst (c0, e0)) with c0 in E2.
    assert (c = c0 / 2 ^ (3 * h / 3) /\ e = n - c0 / 2 ^ (3 * h / 3) * (c0 / 2 ^ (3 * h / 3)) * (c0 / 2 ^ (3 * h / 3))) as [-> ->] by (split; congruence).
    replace (3 * h / 3) with h by (symmetry; rewrite Z.mul_comm; apply Z.div_mul; lia).
    split; [apply cbrt_unshift; [lia|lia|exact Hc] | rewrite cube_eq; reflexivity].
Qed.

(** all widths whose normalised routine checks its subtraction: u8, u16, u32, u64 *)
Theorem prim_sqrt_rem_asis_sound : forall fuel bits n r, (bits = 8 \/ bits = 16 \/ bits = 32 \/ bits = 64) ->
  0 <= n < 2 ^ bits -> prim_sqrt_rem_asis fuel bits n = Ok r -> r = sqrt_rem_spec n.
Proof.
  intros fuel bits n r Hb Hn. unfold prim_sqrt_rem_asis.
  destruct Hb as [-> | [-> | [-> | ->]]]; cbn [Z.eqb Pos.eqb].
  - unfold sqrt_rem_u8. destruct r as [s e]. intros E. destruct (fix_sqrt_correct _ _ _ _ _ _ (Z.le_refl 0) E) as [-> ->]. reflexivity.
  - apply prim_sqrt_rem_sound; [exact Hn|]. apply nsqrt16_sound.
  - apply prim_sqrt_rem_sound; [exact Hn|]. apply nsqrt32_sound.
  - apply prim_sqrt_rem_sound; [exact Hn|]. apply nsqrt64_sound.
Qed.

Theorem prim_cbrt_rem_asis_sound : forall fuel bits n c e, (bits = 8 \/ bits = 16 \/ bits = 32 \/ bits = 64) ->
  0 <= n < 2 ^ bits -> prim_cbrt_rem_asis fuel bits n = Ok (c, e) -> cb c n /\ e = n - c ^ 3.
Proof.
  intros fuel bits n c e Hb Hn. unfold prim_cbrt_rem_asis.
  destruct Hb as [-> | [-> | [-> | ->]]]; cbn [Z.eqb Pos.eqb].
  - unfold cbrt_rem_u8. apply fix_cbrt_correct. lia.
  - apply prim_cbrt_rem_sound; [exact Hn|]. apply ncbrt16_sound.
  - apply prim_cbrt_rem_sound; [exact Hn|]. apply ncbrt32_sound.
  - apply prim_cbrt_rem_sound; [exact Hn|]. apply ncbrt64_sound.
Qed.

(** * finite domains, by computation: EVERY u8 and u16 value; the stated fuel is the fixed iteration count
      (u16: at most 3 corrections after the table estimate - the "at most 2 steps" of the source comment is
      exceeded by 12 square root and 293 cube root inputs, harmlessly, the loop runs as long as needed;
      u8: brute force, 16 resp. 7 steps) *)
Definition sqrt16_check (n : Z) : bool :=
  match prim_sqrt_rem_asis 4 16 n with Ok (s, e) => (s =? Z.sqrt n) && (e =? n - s * s) | _ => false end.
Definition cbrt16_check (n : Z) : bool :=
  match prim_cbrt_rem_asis 4 16 n with Ok (c, e) => (c ^ 3 <=? n) && (n <? (c + 1) ^ 3) && (e =? n - c ^ 3) | _ => false end.
Definition sqrt8_check (n : Z) : bool :=
  match prim_sqrt_rem_asis 17 8 n with Ok (s, e) => (s =? Z.sqrt n) && (e =? n - s * s) | _ => false end.
Definition cbrt8_check (n : Z) : bool :=
  match prim_cbrt_rem_asis 8 8 n with Ok (c, e) => (c ^ 3 <=? n) && (n <? (c + 1) ^ 3) && (e =? n - c ^ 3) | _ => false end.

Lemma sqrt16_check_all : forallb sqrt16_check (zrange 0 (Z.to_nat 65536)) = true.
Proof. vm_cast_no_check (eq_refl true). Qed.
Lemma cbrt16_check_all : forallb cbrt16_check (zrange 0 (Z.to_nat 65536)) = true.
Proof. vm_cast_no_check (eq_refl true). Qed.
Lemma sqrt8_check_all : forallb sqrt8_check (zrange 0 (Z.to_nat 256)) = true.
Proof. vm_cast_no_check (eq_refl true). Qed.
Lemma cbrt8_check_all : forallb cbrt8_check (zrange 0 (Z.to_nat 256)) = true.
Proof. vm_cast_no_check (eq_refl true). Qed.

Theorem prim_sqrt_rem_u16_total : forall n, 0 <= n <= 65535 -> prim_sqrt_rem_asis 4 16 n = Ok (sqrt_rem_spec n).
Proof.
  intros n Hn. pose proof sqrt16_check_all as A. rewrite forallb_forall in A.
  specialize (A n (zrange_in' 65536 0 n ltac:(lia) ltac:(lia))). unfold sqrt16_check in A.
  destruct (prim_sqrt_rem_asis 4 16 n) as [[s e]|?|?|]; try discriminate.
  apply andb_prop in A. destruct A as [A1 A2]. apply Z.eqb_eq in A1, A2. unfold sqrt_rem_spec. subst s e. reflexivity.
Qed.

Theorem prim_sqrt_rem_u8_total : forall n, 0 <= n <= 255 -> prim_sqrt_rem_asis 17 8 n = Ok (sqrt_rem_spec n).
Proof.
  intros n Hn. pose proof sqrt8_check_all as A. rewrite forallb_forall in A.
  specialize (A n (zrange_in' 256 0 n ltac:(lia) ltac:(lia))). unfold sqrt8_check in A.
  destruct (prim_sqrt_rem_asis 17 8 n) as [[s e]|?|?|]; try discriminate.
  apply andb_prop in A. destruct A as [A1 A2]. apply Z.eqb_eq in A1, A2. unfold sqrt_rem_spec. subst s e. reflexivity.
Qed.

Theorem prim_cbrt_rem_u16_total : forall n, 0 <= n <= 65535 ->
  exists c, prim_cbrt_rem_asis 4 16 n = Ok (c, n - c ^ 3) /\ cb c n.
Proof.
  intros n Hn. pose proof cbrt16_check_all as A. rewrite forallb_forall in A.
  specialize (A n (zrange_in' 65536 0 n ltac:(lia) ltac:(lia))). unfold cbrt16_check in A.
  destruct (prim_cbrt_rem_asis 4 16 n) as [[c e]|?|?|] eqn:E; try discriminate.
  apply andb_prop in A. destruct A as [A12 A3]. apply andb_prop in A12. destruct A12 as [A1 A2].
  apply Z.eqb_eq in A3. apply Z.leb_le in A1. apply Z.ltb_lt in A2. subst e. exists c. split; [reflexivity|].
  destruct (prim_cbrt_rem_asis_sound 4 16 n c _ ltac:(lia) ltac:(lia) E) as [C _]. exact C.
Qed.

Theorem prim_cbrt_rem_u8_total : forall n, 0 <= n <= 255 ->
  exists c, prim_cbrt_rem_asis 8 8 n = Ok (c, n - c ^ 3) /\ cb c n.
Proof.
  intros n Hn. pose proof cbrt8_check_all as A. rewrite forallb_forall in A.
  specialize (A n (zrange_in' 256 0 n ltac:(lia) ltac:(lia))). unfold cbrt8_check in A.
  destruct (prim_cbrt_rem_asis 8 8 n) as [[c e]|?|?|] eqn:E; try discriminate.
  apply andb_prop in A. destruct A as [A12 A3]. apply Z.eqb_eq in A3. subst e. exists c. split; [reflexivity|].
  destruct (prim_cbrt_rem_asis_sound 8 8 n c _ ltac:(lia) ltac:(lia) E) as [C _]. exact C.
Qed.

Example u16_third_correction : prim_sqrt_rem_asis 3 16 4225 = OutOfFuel /\ prim_cbrt_rem_asis 3 16 32768 = OutOfFuel.
Proof. vm_compute. split; reflexivity. Qed.

(** non-vacuity of the soundness theorems: the routines do answer *)
Example prim_root_examples :
  prim_sqrt_rem_asis 3 32 4000000000 = Ok (63245, 69975) /\
  prim_sqrt_rem_asis 3 64 (2 ^ 63 + 12345) = Ok (3037000499, 5928539152) /\
  prim_cbrt_rem_asis 4 32 4000000000 = Ok (1587, 3030997).
Proof. vm_compute. repeat split; reflexivity. Qed.

(** * u128: the Karatsuba step over the u64 routine *)

(** u128: one Karatsuba step (KBITS = 32) over the u64 routine - an answer is the exact root and remainder *)
Theorem nsqrt128_sound : forall fuel A S R, A < 2 ^ 128 -> nsqrt128 fuel A = Ok (S, R) -> S = Z.sqrt A /\ R = A - S * S.
Proof.
  intros fuel A S R HA2. unfold nsqrt128.
  destruct (Z.ltb_spec A (2 ^ 126)) as [|HA1]; [discriminate|].
  set (W := 2 ^ 32). set (H := 2 ^ 31).
  assert (W = 2 * H) as EW by reflexivity. assert (2 <= H) as HH by (unfold H; lia).
  assert (4 <= W) as HW4 by (unfold W; lia).
  change T64 with (W * W). change T128 with ((W * W) * (W * W)).
  change (2 ^ 128) with ((W * W) * (W * W)) in HA2. change (2 ^ 126) with (H * H * (W * W)) in HA1.
  assert (0 <= A) as HA0.
  { assert (0 <= H * H * (W * W)) by (apply Z.mul_nonneg_nonneg; apply Z.square_nonneg). lia. }
  set (hd := A / (W * W)). set (b := A mod (W * W)).
  assert (0 <= b < W * W) as Hb by (apply Z.mod_pos_bound; lia).
  assert (A = hd * (W * W) + b) as EA0 by (unfold hd, b; rewrite Z.mul_comm; apply Z.div_mod; lia).
  assert (H * H <= hd < W * W) as Hhd.
  { unfold hd. split; [apply Z.div_le_lower_bound; lia | apply Z.div_lt_upper_bound; lia]. }
  destruct (nsqrt64 fuel hd) as [[s1 r1]|?|?|] eqn:E64; cbn [rbind]; try discriminate.
  destruct (nsqrt64_sound _ _ _ _ E64) as [Es1 Er1].
  assert (H <= s1 < W) as Hs1.
  { rewrite Es1. split; [apply Z.sqrt_le_square; lia | apply Z.sqrt_lt_square; lia]. }
  pose proof (Z.sqrt_spec hd ltac:(lia)) as Hsp. rewrite <- Es1 in Hsp. unfold Z.succ in Hsp.
  assert (0 <= r1 <= 2 * s1) as Hr1 by lia.
  assert (hd = s1 * s1 + r1) as Ehd by lia.
  clear Hsp Es1 Er1 E64. clearbody hd b.
  (* the two words of b *)
  pose proof (Z.div_mod b W ltac:(lia)) as Db. pose proof (Z.mod_pos_bound b W ltac:(lia)) as Ha0.
  assert (0 <= b / W < W) as Ha1 by (split; [apply Z.div_pos; lia | apply Z.div_lt_upper_bound; lia]).
  set (a0 := b mod W) in *. set (a1 := b / W) in *.
  assert (A = hd * (W * W) + a1 * W + a0) as EA by lia.
  pose proof (Z.div_mod a1 2 ltac:(lia)) as Da1. pose proof (Z.mod_pos_bound a1 2 ltac:(lia)) as Ha1p.
  set (a1h := a1 / 2) in *. set (bit := a1 mod 2) in *.
  assert (b / 2 ^ 33 = a1h) as Eb33.
  { change (2 ^ 33) with (W * 2). rewrite <- Z.div_div by lia. reflexivity. }
  assert (b mod 2 ^ 33 = bit * W + a0) as Ebm.
  { change (2 ^ 33) with (W * 2). rewrite Z.rem_mul_r by lia. fold a0 a1 bit. ring. }
  rewrite Eb33, Ebm. clearbody a0 a1 a1h bit. clear Eb33 Ebm Db.
  (* r0 *)
  rewrite (Z.mod_small (r1 * 2 ^ 31)) by (fold H; assert (r1 * H <= (2 * s1) * H) by (apply Z.mul_le_mono_nonneg_r; lia);
     assert (0 <= r1 * H) by (apply Z.mul_nonneg_nonneg; lia); assert ((2 * s1) * H < W * W) by (rewrite EW; nia); lia).
  rewrite (lor_disjoint r1 a1h 31) by (fold H; lia). fold H.
  set (r0 := r1 * H + a1h).
  assert (2 * r0 + bit = r1 * W + a1) as Er0 by (unfold r0; rewrite EW; lia).
  assert (0 <= r0) as Hr0 by (unfold r0; assert (0 <= r1 * H) by (apply Z.mul_nonneg_nonneg; lia); lia).
  clearbody r0.
  assert (s1 =? 0 = false) as E0 by (apply Z.eqb_neq; lia). rewrite E0. cbv iota. clear E0.
  pose proof (Z.div_mod r0 s1 ltac:(lia)) as Dq. pose proof (Z.mod_pos_bound r0 s1 ltac:(lia)) as Hu0.
  assert (0 <= r0 / s1 <= W) as Hq0.
  { split; [apply Z.div_pos; lia|]. assert (r0 / s1 < W + 1); [|lia]. apply Z.div_lt_upper_bound; [lia|].
    assert (r1 * W <= (2 * s1) * W) by (apply Z.mul_le_mono_nonneg_r; lia). lia. }
  set (q0 := r0 / s1) in *. set (u0 := r0 mod s1) in *. clearbody q0 u0.
  change (2 ^ 32) with W.
  assert (exists q u', (if 0 <? q0 / W then (q0 - 1, u0 + s1) else (q0, u0)) = (q, u')
     /\ r0 = s1 * q + u' /\ 0 <= q <= W - 1 /\ 0 <= u' < 2 * s1
     /\ (u' < s1 \/ (q = W - 1 /\ 2 * (u' - s1) + bit <= W - 1))) as [q [u' [Eq [Er0q [Hq [Hu' Hcase]]]]]].
  { destruct (Z.eq_dec q0 W) as [e|e].
    - rewrite e, Z.div_same by lia. change (0 <? 1) with true. cbv iota.
      eexists; eexists; split; [reflexivity|]. split; [lia|]. split; [lia|]. split; [lia|]. right. split; [reflexivity|].
      assert (r1 * W <= (2 * s1) * W) by (apply Z.mul_le_mono_nonneg_r; lia). lia.
    - rewrite Z.div_small by lia. change (0 <? 0) with false. cbv iota.
      eexists; eexists; split; [reflexivity|]. split; [lia|]. split; [lia|]. split; [lia|]. left. lia. }
  rewrite Eq. cbv beta iota.
  assert (4 * W <= W * W) as H4W by (apply Z.mul_le_mono_nonneg_r; lia).
  assert (W * W <=? u' = false) as Eov by (apply Z.leb_gt; lia).
  rewrite Eov. cbv iota.
  (* s = s1*W + q *)
  assert (s1 * W <= (W - 1) * W) as Hs1W by (apply Z.mul_le_mono_nonneg_r; lia).
  assert (H * W <= s1 * W) as Hs1W' by (apply Z.mul_le_mono_nonneg_r; lia).
  rewrite (Z.mod_small (s1 * W)) by lia.
  assert (forall hi lo, 0 <= lo < W -> Z.lor (hi * W) lo = hi * W + lo) as LorW by (intros hi lo Hlo; apply (lor_disjoint hi lo 32); [lia|exact Hlo]).
  rewrite (LorW s1 q) by lia.
  (* r = u_lo * W + a0 with u = 2u' + bit *)
  set (u := u' * 2 + bit).
  pose proof (Z.div_mod u' H ltac:(lia)) as Du'. pose proof (Z.mod_pos_bound u' H ltac:(lia)) as Hum.
  assert (u / W = u' / H /\ u mod W = 2 * (u' mod H) + bit) as [Euh Eul].
  { assert (u = W * (u' / H) + (2 * (u' mod H) + bit)) as Eu by (unfold u; rewrite EW; lia).
    split; [symmetry; apply (Z.div_unique_pos _ _ _ (2 * (u' mod H) + bit)); lia
           | symmetry; apply (Z.mod_unique_pos _ _ (u' / H)); lia]. }
  assert ((u' * 2 ^ 33) mod (W * W) = (u' mod H) * 2 ^ 33) as Em33.
  { change (W * W) with (H * 2 ^ 33). apply Z.mul_mod_distr_r; lia. }
  rewrite Em33. rewrite (lor_disjoint (u' mod H) (bit * W + a0) 33) by (change (2 ^ 33) with (2 * W); lia).
  replace (u' mod H * 2 ^ 33 + (bit * W + a0)) with (a0 + (u mod W) * W) by (rewrite Eul; change (2 ^ 33) with (2 * W); ring).
  change (2 ^ 31) with H. rewrite <- Euh.
  assert (r1 * W + a1 = 2 * s1 * q + u) as Hid by (unfold u; lia).
  assert (0 <= u < 4 * s1) as Hu by (unfold u; lia).
  pose proof (Z.div_mod u W ltac:(lia)) as Du. pose proof (Z.mod_pos_bound u W ltac:(lia)) as Hul.
  assert (0 <= u / W <= 3) as Huh.
  { split; [apply Z.div_pos; lia|]. assert (u / W < 4) by (apply Z.div_lt_upper_bound; lia). lia. }
  rewrite as_i8_small by lia.
  set (ul := u mod W) in *. set (uh := u / W) in *.
  assert (0 <= q * q <= (W - 1) * (W - 1)) as Hqq.
  { split; [apply Z.square_nonneg | apply Z.mul_le_mono_nonneg; lia]. }
  assert (chk (W * W) (q * q) = Ok (q * q)) as Echk.
  { unfold chk. assert (0 <=? q * q = true) as -> by (apply Z.leb_le; lia).
    assert (q * q <? W * W = true) as -> by (apply Z.ltb_lt; lia). reflexivity. }
  rewrite Echk. cbn [rbind].
  assert (0 <= a0 + ul * W < W * W) as Hx.
  { assert (ul * W <= (W - 1) * W) by (apply Z.mul_le_mono_nonneg_r; lia).
    assert (0 <= ul * W) by (apply Z.mul_nonneg_nonneg; lia). lia. }
  assert ((a0 + ul * W - q * q) mod (W * W) = a0 + ul * W - q * q + W * W * GrlKsqrt.b2z (a0 + ul * W <? q * q)) as Esub.
  { pose proof (sub_ip_spec (W * W) (a0 + ul * W) (q * q) ltac:(lia) ltac:(lia)) as E. exact (f_equal fst E). }
  rewrite Esub. clear Esub.
  set (bo := GrlKsqrt.b2z (a0 + ul * W <? q * q)). assert (0 <= bo <= 1) as Hbo by apply b2z_range.
  set (r := a0 + ul * W - q * q + W * W * bo).
  assert (0 <= r < W * W) as Hr.
  { unfold r, bo. destruct (Z.ltb_spec (a0 + ul * W) (q * q)); cbn [GrlKsqrt.b2z]; lia. }
  set (c := uh - bo).
  set (Rm := u * W + a0 - q * q).
  assert (Rm = c * (W * W) + r) as ER by (unfold Rm, c, r; rewrite Du; ring).
  set (Sm := s1 * W + q).
  assert (A = Sm * Sm + Rm) as EAS.
  { rewrite EA, Ehd. unfold Rm, Sm.
    replace ((s1 * s1 + r1) * (W * W) + a1 * W + a0) with (s1 * s1 * W * W + (r1 * W + a1) * W + a0) by ring.
    rewrite Hid. ring. }
  assert (0 < Sm < W * W) as HS by (unfold Sm; lia).
  assert (0 < W * W) as HWW by lia.
  assert (forall cc lo RR SS, 0 <= lo < W * W -> RR = cc * (W * W) + lo -> 0 <= RR <= 2 * SS -> SS < W * W ->
            (cc mod (W * W * (W * W)) * (W * W)) mod (W * W * (W * W)) + lo = RR) as Hpack.
  { intros cc lo RR SS Hlo ERR HRR HSS.
    assert (cc = 0 \/ cc = 1) as [-> | ->].
    { destruct (Z.lt_ge_cases cc 0); [exfalso; assert (cc * (W * W) <= (-1) * (W * W)) by (apply Z.mul_le_mono_nonneg_r; lia); lia|].
      destruct (Z.lt_ge_cases cc 2); [lia|exfalso]. assert (2 * (W * W) <= cc * (W * W)) by (apply Z.mul_le_mono_nonneg_r; lia). lia. }
    - rewrite Zmod_0_l; try rewrite Z.mul_0_l; try rewrite Zmod_0_l; lia.
    - assert (1 < W * W * (W * W)) by (assert (W * W * 1 < W * W * (W * W)) by (apply Z.mul_lt_mono_pos_l; lia); lia).
      rewrite (Z.mod_small 1) by lia. rewrite Z.mul_1_l.
      rewrite Z.mod_small by (assert (W * W * 1 < W * W * (W * W)) by (apply Z.mul_lt_mono_pos_l; lia); lia). lia. }
  destruct (Z.ltb_spec c 0) as [Cn|Cp].
  - assert (Rm < 0) as HRn by (assert (c * (W * W) <= (-1) * (W * W)) by (apply Z.mul_le_mono_nonneg_r; lia); lia).
    replace (q + s1 * W) with Sm by (unfold Sm; ring).
    rewrite add_ip_spec by lia. cbv beta iota.
    assert (Sm =? 0 = false) as E0 by (apply Z.eqb_neq; lia). rewrite E0. cbv iota.
    set (c1 := GrlKsqrt.b2z (W * W <=? r + Sm)). assert (0 <= c1 <= 1) as Hc1 by apply b2z_range.
    set (r2 := r + Sm - W * W * c1).
    assert (0 <= r2 < W * W) as Hr2.
    { unfold r2, c1. destruct (Z.leb_spec (W * W) (r + Sm)); cbn [GrlKsqrt.b2z]; lia. }
    rewrite add_ip_spec by lia. cbv beta iota.
    set (c2 := GrlKsqrt.b2z (W * W <=? r2 + (Sm - 1))). assert (0 <= c2 <= 1) as Hc2 by apply b2z_range.
    set (r3 := r2 + (Sm - 1) - W * W * c2).
    assert (0 <= r3 < W * W) as Hr3.
    { unfold r3, c2. destruct (Z.leb_spec (W * W) (r2 + (Sm - 1))); cbn [GrlKsqrt.b2z]; lia. }
    set (R' := Rm + 2 * Sm - 1).
    assert (R' = (c + c1 + c2) * (W * W) + r3) as ER' by (unfold R', r3, r2; rewrite ER; ring).
    assert (0 <= R') as HR'.
    { unfold R', Rm, Sm. assert (0 <= u * W) by (apply Z.mul_nonneg_nonneg; lia).
      replace ((W - 1) * (W - 1)) with (W * W - 2 * W + 1) in Hqq by ring.
      assert (2 * H * W = W * W) by (rewrite EW; ring). lia. }
    intros E. apply Ok_inj in E.
    rewrite (Hpack (c + c1 + c2) r3 R' (Sm - 1) Hr3 ER' ltac:(unfold R' in *; lia) ltac:(lia)) in E.
    assert (S = Sm - 1 /\ R = R') as [-> ->] by (split; congruence).
    assert (A = (Sm - 1) * (Sm - 1) + R') as EA' by (unfold R'; rewrite EAS; ring).
    split; [symmetry; apply (sqrt_by_rem A (Sm - 1) R'); [lia | exact EA' | unfold R' in *; lia] | lia].
  - assert (0 <= Rm) as HRp by (assert (0 <= c * (W * W)) by (apply Z.mul_nonneg_nonneg; lia); lia).
    replace (q + s1 * W) with Sm by (unfold Sm; ring).
    assert (Rm <= 2 * Sm) as HRle.
    { unfold Rm, Sm. destruct Hcase as [Hc|[Hc1 Hc2]].
      + assert ((u + 1) * W <= (2 * s1) * W) by (apply Z.mul_le_mono_nonneg_r; unfold u; lia). lia.
      + rewrite Hc1. unfold u.
        assert ((2 * (u' - s1) + bit) * W <= (W - 1) * W) by (apply Z.mul_le_mono_nonneg_r; lia). lia. }
    intros E. apply Ok_inj in E.
    rewrite (Hpack c r Rm Sm Hr ER ltac:(lia) ltac:(lia)) in E.
    assert (S = Sm /\ R = Rm) as [-> ->] by (split; congruence).
    split; [symmetry; apply (sqrt_by_rem A Sm Rm); [lia | exact EAS | lia] | lia].
Qed.

(** the wrapper with a normalised routine that is only specified on values of the type *)
Theorem prim_sqrt_rem_sound_bounded : forall norm bits n r, 0 <= n < 2 ^ bits ->
  (forall m s e, m < 2 ^ bits -> norm m = Ok (s, e) -> s = Z.sqrt m /\ e = m - s * s) ->
  prim_sqrt_rem norm bits n = Ok r -> r = sqrt_rem_spec n.
Proof.
  intros norm bits n r Hn Hnorm. unfold prim_sqrt_rem, sqrt_rem_spec.
  destruct (Z.eqb_spec n 0) as [e|e]; [intros E; apply Ok_inj in E; subst n r; reflexivity|].
  pose proof (lzeros_nonneg bits n ltac:(lia)) as Hlz.
  assert (0 <= lzeros bits n / 2) as Hh by (apply Z.div_pos; lia).
  pose proof (Z.div_mod (lzeros bits n) 2 ltac:(lia)) as D2. pose proof (Z.mod_pos_bound (lzeros bits n) 2 ltac:(lia)) as M2.
  set (h := lzeros bits n / 2) in *.
  assert (n * 2 ^ (2 * h) < 2 ^ bits) as Hm.
  { pose proof (Z.log2_spec n ltac:(lia)) as [_ L2]. unfold lzeros in D2, M2.
    assert (2 ^ Z.succ (Z.log2 n) * 2 ^ (2 * h) <= 2 ^ bits).
    { rewrite <- Z.pow_add_r by (pose proof (Z.log2_nonneg n); lia). apply Z.pow_le_mono_r; lia. }
    assert (0 < 2 ^ (2 * h)) by (apply Z.pow_pos_nonneg; lia).
    assert (n * 2 ^ (2 * h) < 2 ^ Z.succ (Z.log2 n) * 2 ^ (2 * h)) by (apply Z.mul_lt_mono_pos_r; lia). lia. }
  destruct (norm (n * 2 ^ (2 * h))) as [[s e0]|?|?|] eqn:E; unfold rbind; try discriminate.
  destruct (Hnorm _ _ _ Hm E) as [Es Ee].
  destruct (Z.eqb_spec (2 * h) 0) as [z|z].
  - intros E2. apply Ok_inj in E2. rewrite <- E2. rewrite z in *. rewrite Z.pow_0_r, Z.mul_1_r in *. subst s e0. reflexivity.
  - intros E2. apply Ok_inj in E2. rewrite <- E2. change (fst (s, e0)) with s.
    replace (2 * h / 2) with h by (symmetry; rewrite Z.mul_comm; apply Z.div_mul; lia).
    rewrite Es, sqrt_unshift by lia. reflexivity.
Qed.

(** every width, u128 included *)
Theorem prim_sqrt_rem_asis_sound_all : forall fuel bits n r,
  (bits = 8 \/ bits = 16 \/ bits = 32 \/ bits = 64 \/ bits = 128) ->
  0 <= n < 2 ^ bits -> prim_sqrt_rem_asis fuel bits n = Ok r -> r = sqrt_rem_spec n.
Proof.
  intros fuel bits n r Hb Hn. destruct Hb as [B|[B|[B|[B|B]]]]; try (apply prim_sqrt_rem_asis_sound; [tauto|exact Hn]).
  subst bits. unfold prim_sqrt_rem_asis. cbn [Z.eqb Pos.eqb].
  apply prim_sqrt_rem_sound_bounded; [exact Hn|]. intros m s e Hm. apply nsqrt128_sound. exact Hm.
Qed.

Example nsqrt128_example : prim_sqrt_rem_asis 3 128 (2 ^ 127 + 12345) = Ok (sqrt_rem_spec (2 ^ 127 + 12345)).
Proof. vm_compute. reflexivity. Qed.
