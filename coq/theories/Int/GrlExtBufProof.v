(** C12 round 5 - the repaired cofactor update of the Euclidean step of gcd_ext_in_place on the BUFFER (GrlExtBuf.v):
    for every word size, every capacity and EVERY relation between t0_len and qt1_len = q_lo.len() + t1_len
    (t0 shorter, equal, one word longer, many words longer) an answer is  t0 + q*t1  with the exact new length, and the
    step answers whenever the sum fits the buffer and the carry fits a word (always when q_top = 0). *)
From Dashu Require Import Base.Prelude Int.GrlKsqrt Int.GrlModel Int.GrlPrimRoot Int.GrlPrimRootProof Int.GrlLogProof.
From Dashu Require Import Int.GrlExtBuf.
Open Scope Z_scope.

Lemma pow_split : forall W a b, 0 < W -> 0 <= a -> 0 <= b -> W ^ (a + b) = W ^ a * W ^ b.
Proof. intros. apply Z.pow_add_r; lia. Qed.

Lemma bslice_0 : forall W T n, 0 < W -> 0 <= n -> 0 <= T < W ^ n -> bslice W T 0 n = T.
Proof. intros W T n HW Hn HT. unfold bslice. rewrite Z.pow_0_r, Z.div_1_r, Z.sub_0_r. apply Z.mod_small. exact HT. Qed.

Lemma div_small_pow : forall W T a b, 0 < W -> 0 <= a <= b -> 0 <= T < W ^ b -> 0 <= T / W ^ a < W ^ (b - a).
Proof.
  intros W T a b HW Hab HT. assert (0 < W ^ a) by (apply Z.pow_pos_nonneg; lia).
  split; [apply Z.div_pos; lia|]. apply Z.div_lt_upper_bound; [lia|].
  rewrite <- pow_split by lia. replace (a + (b - a)) with b by lia. lia.
Qed.

Section Step.
  Variable w : Z.
  Hypothesis Hw : 1 <= w.
  Let W := 2 ^ w.
  Lemma W_pos : 0 < W. Proof. unfold W. apply Z.pow_pos_nonneg; lia. Qed.
  Lemma W_ge2 : 2 <= W. Proof. unfold W. change 2 with (2 ^ 1) at 1. apply Z.pow_le_mono_r; lia. Qed.

  Lemma wlen_exact : forall v, 0 <= v -> v < W ^ wlen w v /\ (0 < wlen w v -> W ^ (wlen w v - 1) <= v) /\ 0 <= wlen w v.
  Proof.
    intros v Hv. destruct (Z.eq_dec v 0) as [->|NZ].
    - change (wlen w 0) with 0. rewrite Z.pow_0_r. lia.
    - destruct (wlen_bounds w ltac:(lia) v ltac:(lia)) as [L [B1 B2]]. fold W in B1, B2. lia.
  Qed.

  (** the arithmetic core: the three partial sums recombine to t0 + q*t1 *)
  Lemma recombine : forall N Tt Q hi low lo0 mid mid' low1 c1 c2 q_lo q_top T1 high' tc',
    low + q_lo * T1 = low1 + c1 * (N * Tt) ->
    low1 = lo0 + mid * N ->
    mid + q_top * T1 = mid' + c2 * Tt ->
    hi + (c1 + c2) = high' + tc' * Q ->
    lo0 + mid' * N + high' * (N * Tt) + tc' * (N * Tt * Q) = (low + (N * Tt) * hi) + (q_top * N + q_lo) * T1.
  Proof.
    intros N Tt Q hi low lo0 mid mid' low1 c1 c2 q_lo q_top T1 high' tc' E1 E2 E3 E4.
    assert ((mid + q_top * T1) * N = (mid' + c2 * Tt) * N) as E3N by (rewrite E3; reflexivity).
    assert ((hi + (c1 + c2)) * (N * Tt) = (high' + tc' * Q) * (N * Tt)) as E4P by (rewrite E4; reflexivity).
    clear E3 E4. subst low1. lia.
  Qed.

  Lemma recombine2 : forall P Q low2 tc low qT T0 hi m d,
    low2 + tc * P = low + qT -> T0 = P * hi + low -> hi + tc = Q * d + m -> low2 + m * P + d * (P * Q) = T0 + qT.
  Proof.
    intros P Q low2 tc low qT T0 hi m d E1 E2 E3.
    assert ((hi + tc) * P = (Q * d + m) * P) as E3P by (rewrite E3; reflexivity). clear E3. lia.
  Qed.

  Section Mul.
    Variables (lhs_len T0 T1 t1_len q_lo qlo_len q_top : Z).
    Hypotheses (H1 : 0 <= t1_len) (Hq : 0 <= qlo_len) (HT0 : 0 <= T0) (HT1 : 0 <= T1 < W ^ t1_len)
               (Hql : 0 <= q_lo < W ^ qlo_len) (Hqt : 0 <= q_top < W).
    Let L := qlo_len + t1_len.
    Let low := T0 mod W ^ L.
    Let q := q_top * W ^ qlo_len + q_lo.

    (** the products: an answer is (low + q*t1) split at W^L, the carry is a word *)
    Lemma ebuf_mul_spec :
      match ebuf_mul w lhs_len T0 T1 t1_len q_lo qlo_len q_top with
      | Ok (low2, tc) => 0 <= low2 < W ^ L /\ 0 <= tc < W /\ low2 + tc * W ^ L = low + q * T1
      | OutOfFuel | Err _ => False
      | Panic _ => 0 < q_top /\ (lhs_len < L \/ W * W ^ L <= low + q * T1)
      end.
    Proof.
      pose proof W_pos as HW. pose proof W_ge2 as HW2. unfold ebuf_mul. fold W. fold L. fold low.
      rewrite (bslice_0 W T1 t1_len HW H1 HT1).
      assert (0 < W ^ L) as HP by (apply Z.pow_pos_nonneg; unfold L; lia).
      assert (0 < W ^ qlo_len) as HN by (apply Z.pow_pos_nonneg; lia).
      assert (0 < W ^ t1_len) as HTt by (apply Z.pow_pos_nonneg; lia).
      assert (W ^ L = W ^ qlo_len * W ^ t1_len) as EP by (apply pow_split; lia).
      set (s1 := low + q_lo * T1).
      pose proof (Z.mod_pos_bound T0 (W ^ L) HP) as BA. fold low in BA.
      pose proof (Z.div_mod s1 (W ^ L) ltac:(lia)) as DB. pose proof (Z.mod_pos_bound s1 (W ^ L) HP) as BB.
      set (low1 := s1 mod W ^ L) in *. set (c1 := s1 / W ^ L) in *.
      assert (s1 = low + q_lo * T1) as Es1 by reflexivity.
      assert (0 <= q_lo * T1) by (apply Z.mul_nonneg_nonneg; lia).
      assert (0 <= c1) as Hc1 by (apply Z.div_pos; lia).
      assert (c1 < 2) as Hc12.
      { apply Z.div_lt_upper_bound; [lia|].
        assert (q_lo * T1 <= W ^ qlo_len * T1) by (apply Z.mul_le_mono_nonneg_r; lia).
        assert (W ^ qlo_len * T1 <= W ^ qlo_len * W ^ t1_len) by (apply Z.mul_le_mono_nonneg_l; lia). lia. }
      destruct (Z.ltb_spec 0 q_top) as [Qp|Qz].
      - destruct (Z.ltb_spec (Z.min L lhs_len) qlo_len); [split; [lia|left; unfold L in *; lia]|].
        destruct (Z.ltb_spec (Z.min L lhs_len - qlo_len) t1_len); [split; [lia|left; unfold L in *; lia]|].
        assert (Z.min L lhs_len = L) as EM by (unfold L in *; lia). rewrite EM.
        replace (L - qlo_len) with t1_len by (unfold L; lia).
        unfold bslice. replace (L - qlo_len) with t1_len by (unfold L; lia).
        pose proof (div_small_pow W low1 qlo_len L HW ltac:(unfold L; lia) BB) as Bm.
        replace (L - qlo_len) with t1_len in Bm by (unfold L; lia).
        rewrite (Z.mod_small (low1 / W ^ qlo_len)) by exact Bm.
        rewrite (Z.div_small low1 (W ^ L)) by exact BB.
        set (mid := low1 / W ^ qlo_len) in *. set (s2 := mid + q_top * T1).
        assert (s2 = mid + q_top * T1) as Es2 by reflexivity.
        pose proof (Z.div_mod low1 (W ^ qlo_len) ltac:(lia)) as DC. pose proof (Z.mod_pos_bound low1 (W ^ qlo_len) HN) as BC.
        pose proof (Z.div_mod s2 (W ^ t1_len) ltac:(lia)) as DD. pose proof (Z.mod_pos_bound s2 (W ^ t1_len) HTt) as BD.
        fold mid in DC.
        assert (0 <= q_top * T1) by (apply Z.mul_nonneg_nonneg; lia).
        assert (0 <= s2 / W ^ t1_len) by (apply Z.div_pos; lia).
        pose proof (recombine (W ^ qlo_len) (W ^ t1_len) 1 0 low (low1 mod W ^ qlo_len) mid (s2 mod W ^ t1_len) low1 c1 (s2 / W ^ t1_len)
                      q_lo q_top T1 0 (c1 + s2 / W ^ t1_len)) as R.
        rewrite <- EP in R. specialize (R ltac:(lia) ltac:(lia) ltac:(lia) ltac:(lia)).
        assert (s2 mod W ^ t1_len * W ^ qlo_len <= (W ^ t1_len - 1) * W ^ qlo_len) by (apply Z.mul_le_mono_nonneg_r; lia).
        assert (0 <= s2 mod W ^ t1_len * W ^ qlo_len) by (apply Z.mul_nonneg_nonneg; lia).
        assert (low1 mod W ^ qlo_len + s2 mod W ^ t1_len * W ^ qlo_len + (c1 + s2 / W ^ t1_len) * W ^ L = low + q * T1) as EV
          by (unfold q; lia).
        unfold chk. destruct (Z.leb_spec 0 (c1 + s2 / W ^ t1_len)); [|lia].
        destruct (Z.ltb_spec (c1 + s2 / W ^ t1_len) W) as [Lt|Ge]; cbn [andb rbind].
        + rewrite Z.mul_0_l, Z.add_0_r. split; [rewrite EP; lia|split; [lia|exact EV]].
        + split; [lia|right].
          assert (W * W ^ L <= (c1 + s2 / W ^ t1_len) * W ^ L) by (apply Z.mul_le_mono_nonneg_r; lia). lia.
      - assert (q_top = 0) as E0 by lia. split; [exact BB|split; [lia|]]. unfold q. rewrite E0. lia.
    Qed.
  End Mul.

  Section Carry.
    Variables (cap T0 t0_len L low2 tc S : Z).
    Hypotheses (H0 : 0 <= t0_len) (HL : 0 <= L) (HT0 : 0 <= T0 < W ^ t0_len)
               (Bl2 : 0 <= low2 < W ^ L) (Btc : 0 <= tc < W) (E2 : low2 + tc * W ^ L = T0 mod W ^ L + S).

    (** the carry into the upper words, EVERY relation of t0_len and L: an answer is t0 + q*t1 with its exact length;
        the only panic is a sum that needs more words than the buffer has *)
    Lemma ebuf_carry_spec :
      match ebuf_carry true w cap T0 t0_len L low2 tc with
      | Ok (T', len') => T' = T0 + S /\ T' < W ^ len' /\ (0 < len' -> W ^ (len' - 1) <= T') /\ 0 <= len' <= Z.max t0_len L + 1
      | OutOfFuel | Err _ => False
      | Panic _ => W ^ cap <= T0 + S
      end.
    Proof.
      pose proof W_pos as HW. pose proof W_ge2 as HW2. unfold ebuf_carry. fold W.
      assert (0 < W ^ L) as HP by (apply Z.pow_pos_nonneg; lia).
      set (low := T0 mod W ^ L) in *.
      pose proof (Z.div_mod T0 (W ^ L) ltac:(lia)) as DA. pose proof (Z.mod_pos_bound T0 (W ^ L) HP) as BA. fold low in DA, BA.
      set (t0_top := Z.max t0_len L) in *.
      assert (0 <= t0_top) as Htop by (unfold t0_top; lia).
      assert (0 < W ^ t0_top) as HPT by (apply Z.pow_pos_nonneg; lia).
      assert (T0 < W ^ t0_top) as HT0top.
      { assert (W ^ t0_len <= W ^ t0_top) by (apply Z.pow_le_mono_r; unfold t0_top; lia). lia. }
      assert (T0 / W ^ t0_top = 0) as EZ by (apply Z.div_small; lia).
      destruct (Z.ltb_spec L t0_top) as [Lt|Le]; cbv beta iota zeta.
      - assert (0 < W ^ (t0_top - L)) as HQ by (apply Z.pow_pos_nonneg; lia).
        assert (W ^ t0_top = W ^ L * W ^ (t0_top - L)) as EQ by (rewrite <- pow_split by lia; f_equal; lia).
        unfold bslice.
        assert (0 <= T0 / W ^ L < W ^ (t0_top - L)) as Bh by (apply div_small_pow; [exact HW|lia|lia]).
        rewrite (Z.mod_small (T0 / W ^ L)) by exact Bh.
        set (hi := T0 / W ^ L) in *. set (s3 := hi + tc).
        assert (s3 = hi + tc) as Es3 by reflexivity.
        pose proof (Z.div_mod s3 (W ^ (t0_top - L)) ltac:(lia)) as DE. pose proof (Z.mod_pos_bound s3 (W ^ (t0_top - L)) HQ) as BE.
        set (m := s3 mod W ^ (t0_top - L)) in *. set (d := s3 / W ^ (t0_top - L)) in *.
        assert (0 <= d) as Hd by (apply Z.div_pos; lia).
        assert (low2 + m * W ^ L + d * W ^ t0_top = T0 + S) as EV.
        { rewrite EQ. apply (recombine2 (W ^ L) (W ^ (t0_top - L)) low2 tc low S T0 hi m d); lia. }
        assert (m * W ^ L <= (W ^ (t0_top - L) - 1) * W ^ L) as BM by (apply Z.mul_le_mono_nonneg_r; lia).
        assert (0 <= m * W ^ L) as BM0 by (apply Z.mul_nonneg_nonneg; lia).
        destruct (Z.ltb_spec 0 d) as [Cp|Cz].
        + assert (1 * W ^ t0_top <= d * W ^ t0_top) by (apply Z.mul_le_mono_nonneg_r; lia).
          destruct (Z.leb_spec cap t0_top) as [Cc|Cc].
          { assert (W ^ cap <= W ^ t0_top) by (apply Z.pow_le_mono_r; lia). lia. }
          split; [exact EV|]. replace (t0_top + 1 - 1) with t0_top by lia.
          assert (d < W) as HdW.
          { apply Z.div_lt_upper_bound; [lia|].
            assert (0 <= (W ^ (t0_top - L) - 1) * (W - 1)) by (apply Z.mul_nonneg_nonneg; lia). lia. }
          assert (d * W ^ t0_top <= (W - 1) * W ^ t0_top) by (apply Z.mul_le_mono_nonneg_r; lia).
          split; [|split; [intros _|lia]].
          * rewrite pow_split by lia. rewrite Z.pow_1_r. rewrite EQ in *. lia.
          * lia.
        + rewrite EZ, ?Z.mul_0_l, ?Z.add_0_r.
          assert (d = 0) as E0 by lia. rewrite E0, Z.mul_0_l, Z.add_0_r in EV.
          split; [exact EV|]. destruct (wlen_exact (low2 + m * W ^ L) ltac:(lia)) as [A1 [A2 A3]].
          split; [exact A1|split; [exact A2|split; [exact A3|]]].
          destruct (Z.le_gt_cases (wlen w (low2 + m * W ^ L)) (t0_top + 1)); [assumption|exfalso].
          assert (W ^ (t0_top + 1) <= W ^ (wlen w (low2 + m * W ^ L) - 1)) by (apply Z.pow_le_mono_r; lia).
          specialize (A2 ltac:(lia)). rewrite pow_split, Z.pow_1_r in * by lia. rewrite EQ in *. nia.
      - assert (t0_top = L) as ET by (unfold t0_top in *; lia).
        assert (T0 / W ^ L = 0) as EZ2 by (rewrite <- ET; exact EZ).
        assert (low = T0) as EL by lia.
        destruct (Z.ltb_spec 0 tc) as [Cp|Cz].
        + assert (1 * W ^ L <= tc * W ^ L) by (apply Z.mul_le_mono_nonneg_r; lia).
          destruct (Z.leb_spec cap t0_top) as [Cc|Cc].
          { assert (W ^ cap <= W ^ L) by (apply Z.pow_le_mono_r; lia). lia. }
          rewrite ?Z.mul_0_l, ?Z.add_0_r, ET. split; [lia|]. replace (L + 1 - 1) with L by lia.
          assert (tc * W ^ L <= (W - 1) * W ^ L) by (apply Z.mul_le_mono_nonneg_r; lia).
          split; [|split; [intros _|lia]].
          * rewrite pow_split by lia. rewrite Z.pow_1_r. lia.
          * lia.
        + rewrite EZ, ?Z.mul_0_l, ?Z.add_0_r.
          assert (tc = 0) as E0 by lia. rewrite E0 in *. split; [lia|].
          destruct (wlen_exact low2 ltac:(lia)) as [A1 [A2 A3]].
          split; [exact A1|split; [exact A2|split; [exact A3|]]].
          destruct (Z.le_gt_cases (wlen w low2) (t0_top + 1)); [assumption|exfalso].
          assert (W ^ (L + 1) <= W ^ (wlen w low2 - 1)) by (apply Z.pow_le_mono_r; lia).
          specialize (A2 ltac:(lia)). rewrite pow_split, Z.pow_1_r in * by lia. nia.
    Qed.
  End Carry.

  (** the whole step, every length relation: an answer is t0 + q*t1 with its exact length *)
  Theorem ebuf_step_correct : forall cap lhs_len T0 t0_len T1 t1_len q_lo qlo_len q_top T' len',
    0 <= t0_len -> 0 <= t1_len -> 0 <= qlo_len ->
    0 <= T0 < W ^ t0_len -> 0 <= T1 < W ^ t1_len -> 0 <= q_lo < W ^ qlo_len -> 0 <= q_top < W ->
    ebuf_step true w cap lhs_len T0 t0_len T1 t1_len q_lo qlo_len q_top = Ok (T', len') ->
    T' = T0 + (q_top * W ^ qlo_len + q_lo) * T1 /\ T' < W ^ len' /\ (0 < len' -> W ^ (len' - 1) <= T') /\ 0 <= len'.
  Proof.
    intros cap lhs_len T0 t0_len T1 t1_len q_lo qlo_len q_top T' len' H0 H1 Hq HT0 HT1 Hql Hqt H.
    unfold ebuf_step in H. destruct (_ <? _); [discriminate|].
    pose proof (ebuf_mul_spec lhs_len T0 T1 t1_len q_lo qlo_len q_top H1 Hq HT1 Hql Hqt) as M.
    destruct (ebuf_mul w lhs_len T0 T1 t1_len q_lo qlo_len q_top) as [[low2 tc]|?|?|]; cbn [rbind fst snd] in H; try discriminate.
    destruct M as (B1 & B2 & E).
    pose proof (ebuf_carry_spec cap T0 t0_len (qlo_len + t1_len) low2 tc ((q_top * W ^ qlo_len + q_lo) * T1)
                  H0 ltac:(lia) HT0 B1 B2 E) as C.
    rewrite H in C. destruct C as (C1 & C2 & C3 & C4). repeat split; try assumption; lia.
  Qed.

  (** ... and the step ANSWERS whenever the sum fits the buffer, the product slice exists and the carry is a word
      (the last two always hold for a one-part quotient, q_top = 0: the case of finding F09) *)
  Theorem ebuf_step_total : forall cap lhs_len T0 t0_len T1 t1_len q_lo qlo_len q_top,
    0 <= t0_len -> 0 <= t1_len -> 0 <= qlo_len ->
    0 <= T0 < W ^ t0_len -> 0 <= T1 < W ^ t1_len -> 0 <= q_lo < W ^ qlo_len -> 0 <= q_top < W ->
    qlo_len + t1_len <= cap ->
    T0 + (q_top * W ^ qlo_len + q_lo) * T1 < W ^ cap ->
    (0 < q_top -> qlo_len + t1_len <= lhs_len /\
                  T0 mod W ^ (qlo_len + t1_len) + (q_top * W ^ qlo_len + q_lo) * T1 < W * W ^ (qlo_len + t1_len)) ->
    exists r, ebuf_step true w cap lhs_len T0 t0_len T1 t1_len q_lo qlo_len q_top = Ok r.
  Proof.
    intros cap lhs_len T0 t0_len T1 t1_len q_lo qlo_len q_top H0 H1 Hq HT0 HT1 Hql Hqt Hcap Hfit Htop.
    unfold ebuf_step. destruct (Z.ltb_spec cap (qlo_len + t1_len)); [lia|].
    pose proof (ebuf_mul_spec lhs_len T0 T1 t1_len q_lo qlo_len q_top H1 Hq HT1 Hql Hqt) as M.
    destruct (ebuf_mul w lhs_len T0 T1 t1_len q_lo qlo_len q_top) as [[low2 tc]|?|?|]; cbn [rbind fst snd]; try contradiction.
    - destruct M as (B1 & B2 & E).
      pose proof (ebuf_carry_spec cap T0 t0_len (qlo_len + t1_len) low2 tc ((q_top * W ^ qlo_len + q_lo) * T1)
                    H0 ltac:(lia) HT0 B1 B2 E) as C.
      destruct (ebuf_carry true w cap T0 t0_len (qlo_len + t1_len) low2 tc) as [r|?|?|]; try contradiction; [eexists; reflexivity|lia].
    - destruct M as [Qp [M|M]]; specialize (Htop Qp); lia.
  Qed.
End Step.

(** the three length relations on 64-bit words: t0 as long as q*t1, one word longer (the shape of finding F09: after a Lehmer
    step that ends with x <= y), three words longer with a carry that ripples through all of them *)
Example ebuf_step_len_relations :
  ebuf_step true 64 4 3 (2 ^ 64 - 1) 1 (2 ^ 64 - 1) 1 0 0 1 = Ok (2 ^ 65 - 2, 2) /\
  ebuf_step true 64 4 3 (2 ^ 128 - 1) 2 (2 ^ 64 - 1) 1 0 0 1 = Ok (2 ^ 128 + 2 ^ 64 - 2, 3) /\
  ebuf_step true 64 5 4 (2 ^ 256 - 1) 4 1 1 0 0 1 = Ok (2 ^ 256, 5).
Proof. vm_compute. repeat split; reflexivity. Qed.

(** before the repair the same inputs lose the upper words of t0 (the length comes back too short / a word is overwritten) *)
Example ebuf_step_prefix_refuted :
  ebuf_step false 64 4 3 (2 ^ 128 - 1) 2 (2 ^ 64 - 1) 1 0 0 1 = Ok (2 ^ 64 - 2 + 2 ^ 64 + 0, 2) /\
  ebuf_step false 64 3 2 (2 ^ 64) 2 1 1 0 0 1 = Ok (1 + 2 ^ 64, 1).
Proof. vm_compute. repeat split; reflexivity. Qed.

Example ebuf_step_total_example : exists r, ebuf_step true 64 4 3 (2 ^ 128 - 1) 2 (2 ^ 64 - 1) 1 0 0 1 = Ok r.
Proof. eexists. vm_compute. reflexivity. Qed.
