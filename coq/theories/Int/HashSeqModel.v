(** C05, deepening round 4: the CALL SEQUENCE of `Hash::hash` for UBig / IBig / RBig - DEFINITIONS (proofs:
    HashSeqProofs.v).

    integer/src/repr.rs            impl Hash for Repr { let (sign, arr) = self.as_sign_slice(); sign.hash(state); [deref arr].hash(state); }
    integer/src/{ubig,ibig}.rs     #[derive(Hash)] struct UBig(Repr) / IBig(Repr): the one field is hashed
    base/src/sign.rs               #[derive(Hash)] enum Sign { Positive, Negative }: `discriminant_value(self)` (an isize) is hashed
                                   -> Hasher::write_isize(0 | 1)
    core::hash  impl Hash for [T]  state.write_length_prefix(len) (default: write_usize(len)), then T::hash_slice; for the
                                   integer types hash_slice is ONE Hasher::write of the whole slice reinterpreted as bytes,
                                   i.e. every word in NATIVE byte order, WORD_BITS / 8 bytes each
    rational/src/cmp.rs            impl Hash for RBig: numerator.hash(state); denominator.hash(state)

    A call sequence is a list of [hcall]; a Hasher is ANY state machine with the three methods (the remaining
    write_* methods of the trait are never called by these impls: the recording hasher of the harness overrides all of
    them and reports which one was used).  [le]: byte order of the target (true = little endian); [w]: word size. *)
From Dashu Require Import Base.Prelude Base.Words Int.ReprOrdModel.
From Dashu Require Int.IoSpec.
Open Scope Z_scope.

Inductive hcall :=
| HWrite (bytes : list Z)
| HWriteUsize (n : Z)
| HWriteIsize (n : Z).

(** the two things `impl Hash for Repr` hashes, in the order of the source (regenerated: DashuGen.HashGen) *)
Inductive hfield := HFSign | HFSlice.

(** vocabulary of the regenerated facts about integer/src/cmp.rs (DashuGen.HashGen.int_cmp_impls_gen): which trait is
    implemented for which pair of types and how each operand is read
      VMagTyped   .as_typed() / .as_sign_typed().1 / .repr()   the magnitude as TypedReprRef
      VMagSlice   .as_slice() / .as_sign_slice().1             the magnitude as a word slice
      VSignSlice  .as_sign_slice()                             sign and word slice
      VSignTyped  .as_sign_repr()                              sign and TypedReprRef
      VWhole      the operand itself (forwarding to another impl of the same type) *)
Inductive cmp_trait := TrPartialEq | TrEq | TrPartialOrd | TrOrd | TrAbsEq | TrAbsOrd | TrHash.
Inductive itype := TUBig | TIBig | TOther.
Inductive view := VMagTyped | VMagSlice | VSignSlice | VSignTyped | VWhole.
Record cmp_impl := MkImpl { ci_trait : cmp_trait; ci_self : itype; ci_rhs : itype; ci_lhs_view : view; ci_rhs_view : view }.

Definition cmp_trait_eqb (a b : cmp_trait) : bool :=
  match a, b with
  | TrPartialEq, TrPartialEq | TrEq, TrEq | TrPartialOrd, TrPartialOrd | TrOrd, TrOrd | TrAbsEq, TrAbsEq
  | TrAbsOrd, TrAbsOrd | TrHash, TrHash => true
  | _, _ => false
  end.
Definition itype_eqb (a b : itype) : bool :=
  match a, b with TUBig, TUBig | TIBig, TIBig | TOther, TOther => true | _, _ => false end.
Definition view_eqb (a b : view) : bool :=
  match a, b with
  | VMagTyped, VMagTyped | VMagSlice, VMagSlice | VSignSlice, VSignSlice | VSignTyped, VSignTyped | VWhole, VWhole => true
  | _, _ => false
  end.

(** one word as bytes in native order *)
Definition word_bytes (le : bool) (w x : Z) : list Z :=
  let bs := IoSpec.le_bytes_n (Z.to_nat (w / 8)) x in if le then bs else rev bs.
Definition slice_bytes (le : bool) (w : Z) (ws : list Z) : list Z := flat_map (word_bytes le w) ws.

Definition field_calls (le : bool) (w : Z) (r : repr) (f : hfield) : list hcall :=
  match f with
  | HFSign => [HWriteIsize (sign_disc (rsign r))]
  | HFSlice => [HWriteUsize (len (as_slice r)); HWrite (slice_bytes le w (as_slice r))]
  end.

Definition hash_fields (le : bool) (w : Z) (r : repr) (fs : list hfield) : list hcall := flat_map (field_calls le w r) fs.

(** impl Hash for Repr = for UBig = for IBig *)
Definition repr_hash (le : bool) (w : Z) (r : repr) : list hcall := hash_fields le w r [HFSign; HFSlice].

(** impl Hash for RBig *)
Definition rbig_hash (le : bool) (w : Z) (num den : repr) : list hcall := repr_hash le w num ++ repr_hash le w den.

(* ---------------------------------------------------------------- any Hasher *)

Record hasher (S : Type) := MkHasher {
  h_write : S -> list Z -> S;
  h_write_usize : S -> Z -> S;
  h_write_isize : S -> Z -> S;
  h_finish : S -> Z }.
Arguments h_write {S}. Arguments h_write_usize {S}. Arguments h_write_isize {S}. Arguments h_finish {S}.

Definition feed1 {S} (H : hasher S) (st : S) (c : hcall) : S :=
  match c with
  | HWrite bs => h_write H st bs
  | HWriteUsize n => h_write_usize H st n
  | HWriteIsize n => h_write_isize H st n
  end.
Definition feed {S} (H : hasher S) (st : S) (cs : list hcall) : S := fold_left (feed1 H) cs st.

(** a hasher that keeps the trait's DEFAULT write_usize / write_isize (both forward the native-endian bytes of the
    pointer-sized integer, [pw] bits, to `write`) sees this byte stream; isize: two's complement *)
Definition int_bytes (le : bool) (pw v : Z) : list Z :=
  let bs := IoSpec.le_bytes_n (Z.to_nat (pw / 8)) (v mod 2 ^ pw) in if le then bs else rev bs.
Definition byte_stream (le : bool) (pw : Z) (cs : list hcall) : list Z :=
  flat_map (fun c => match c with
                     | HWrite bs => bs
                     | HWriteUsize n => int_bytes le pw n
                     | HWriteIsize n => int_bytes le pw n
                     end) cs.
