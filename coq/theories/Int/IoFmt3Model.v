(** C07 (round 3): the formatting entry points of fmt/mod.rs read through the REGENERATED tables of
    coq/gen/IoTables3.v (trait -> radix / prefix / DigitCase for UBig and IBig, the digit-case rule of
    `impl Display for InRadix`) and the DigitCase offsets of coq/gen/IoTables.v.  Definitions only. *)
From Dashu Require Import Base.Prelude Base.Words Int.IoSpec Int.IoModel.
From DashuGen Require Import IoTables IoTables3.
Open Scope Z_scope.

Definition trait_id (k : fkind) : option Z :=
  match k with
  | KDisplay => Some 0 | KBinary => Some 1 | KOctal => Some 2 | KLowerHex => Some 3 | KUpperHex => Some 4
  | KInRadix _ => None
  end.

Fixpoint trait_lookup (t y : Z) (tbl : list (Z * Z * Z * list Z * Z)) : option (Z * list Z * Z) :=
  match tbl with
  | [] => None
  | (t', y', r, p, c) :: rest => if (t =? t') && (y =? y') then Some (r, p, c) else trait_lookup t y rest
  end.

(** `digit_case as Word`: 0 NoLetters, 1 Lower, 2 Upper *)
Definition case_offset (c : Z) : Z := if c =? 1 then gen_case_lower else if c =? 2 then gen_case_upper else 0.

(** what DigitWriter emits for a raw digit (arch::digits::digit_chunk_raw_to_ascii, C07_swar_chunk): with
    NoLetters a digit >= 10 would come out as a wrong character - the theorems show it never gets one *)
Definition case_char (c d : Z) : Z := gen_swar_zero + d + (if d <? 2 ^ gen_swar_shift - gen_swar_bias then 0 else case_offset c).

(** impl Display for InRadix: the digit case *)
Definition inradix_case (r : Z) (alt : bool) : Z :=
  if r <=? gen_inradix_noletters_max then gen_inradix_case_small
  else if alt then gen_inradix_case_alt else gen_inradix_case_plain.

(** Display / Binary / Octal / LowerHex / UpperHex for UBig ([y] = 0) or IBig ([y] = 1), and
    in_radix(r) (the radix check of UBig::in_radix / IBig::in_radix, then Display for InRadix) *)
Definition fmt_tables_asis (w y : Z) (k : fkind) (f : fmtflags) (v : Z) : result (list Z) :=
  let neg := v <? 0 in
  let m := Z.abs v in
  match k with
  | KInRadix r =>
    if (gen_min_radix <=? r) && (r <=? gen_max_radix)
    then Ok (format_prepared_asis f neg [] (map (case_char (inradix_case r (f_alt f))) (digits_asis w r m)))
    else Panic InvalidRadix
  | _ =>
    match trait_id k with
    | Some t =>
      match trait_lookup t y gen_fmt_traits with
      | Some (r, p, c) => Ok (format_prepared_asis f neg (if f_alt f then p else []) (map (case_char c) (digits_asis w r m)))
      | None => Panic Undocumented
      end
    | None => Panic Undocumented
    end
  end.
