(** C07 (round 4): convert.rs words_to_chunks / TypedReprRef::to_chunks (RefLarge) at word level.
    Per chunk the code copies a window of the word array into a zeroed buffer of
    ceil(chunk_bits / WORD_BITS) + 1 words (`copy_from_slice` on sub-slices: every slice bound and the
    length equality are checks that can panic), masks the top word (`&= ones_word(end_bits)`) and shifts
    the window right in place (shift::shr_in_place = C09's model BitsKernels.shr_in_place, its returned
    carry is not looked at).  Definitions only (proofs: IoToChunks.v). *)
From Dashu Require Import Base.Prelude Base.Words Int.IoSpec Int.IoModel.
From Dashu Require Int.BitsKernels.
Open Scope Z_scope.

Section W2C.
Variable w : Z.

(** `&ws[a..b]`: panics when a > b or b > ws.len() *)
Definition slice (ws : list Z) (a b : Z) : result (list Z) :=
  if (a <? 0) || (b <? a) || (len ws <? b) then Panic Undocumented
  else Ok (firstn (Z.to_nat (b - a)) (skipn (Z.to_nat a) ws)).

(** `dst[..n].copy_from_slice(src)`: panics when n > dst.len() or src.len() != n *)
Definition store_prefix (dst src : list Z) (n : Z) : result (list Z) :=
  if (n <? 0) || (len dst <? n) || negb (len src =? n) then Panic Undocumented
  else Ok (src ++ skipn (Z.to_nat n) dst).

(** `l[k] &= mask` (k is in range where it is used: l[..=k] was sliced just before) *)
Definition and_at (l : list Z) (k mask : Z) : list Z :=
  firstn (Z.to_nat k) l ++ match skipn (Z.to_nat k) l with [] => [] | x :: t => Z.land x mask :: t end.

(** the word-aligned loop body: chunk i = words[i*wpc .. min((i+1)*wpc, len)] *)
Definition w2c_aligned (words : list Z) (wpc i : Z) (out : list Z) : result (list Z) :=
  let sp := i * wpc in
  let ep := Z.min (sp + wpc) (len words) in
  if ep <? sp then Panic Undocumented                              (* end_pos - start_pos on usize *)
  else rbind (slice words sp ep) (fun src => store_prefix out src (ep - sp)).

(** the general loop body *)
Definition w2c_unaligned (words : list Z) (cb bit_len i : Z) (out : list Z) : result (list Z) :=
  let start := i * cb in
  let stop := Z.min bit_len (start + cb) in
  if negb (start <? stop) then Panic Undocumented                  (* debug_assert!(start < end) *)
  else
    let sp := start / w in
    let ep := stop / w in
    let eb := stop mod w in
    rbind (if negb (eb =? 0) then
             let ln := ep - sp in
             rbind (slice words sp (ep + 1)) (fun src =>            (* &words[start_pos..=end_pos] *)
             rbind (store_prefix out src (ln + 1)) (fun o =>        (* chunk_out[..=len].copy_from_slice *)
             Ok (ln, and_at o ln (Z.ones eb))))                     (* chunk_out[len] &= ones_word(end_bits) *)
           else
             let ln := ep - sp - 1 in
             if ln <? 0 then Panic Undocumented                     (* usize underflow *)
             else rbind (slice words sp ep) (fun src =>
                  rbind (store_prefix out src (ln + 1)) (fun o => Ok (ln, o))))
          (fun lo =>
             let n1 := Z.to_nat (fst lo + 1) in
             let '(sh, _) := BitsKernels.shr_in_place w (firstn n1 (snd lo)) (start mod w) in
             Ok (sh ++ skipn n1 (snd lo))).

Fixpoint w2c_loop (f : Z -> list Z -> result (list Z)) (i : Z) (outs : list (list Z)) : result (list (list Z)) :=
  match outs with
  | [] => Ok []
  | o :: rest => rbind (f i o) (fun o' => rbind (w2c_loop f (i + 1) rest) (fun r => Ok (o' :: r)))
  end.

(** words.len() * WORD_BITS - words.last().leading_zeros() *)
Definition words_bit_len (words : list Z) : Z := len words * w - lzw w (last words 0).

Definition words_to_chunks (words : list Z) (outs : list (list Z)) (cb : Z) : result (list (list Z)) :=
  match words with
  | [] => Panic Undocumented                                        (* assert!(!words.is_empty()) *)
  | _ => if cb mod w =? 0 then w2c_loop (w2c_aligned words (cb / w)) 0 outs
         else w2c_loop (w2c_unaligned words cb (words_bit_len words)) 0 outs
  end.

(** math::ceil_div *)
Definition ceil_div (a b : Z) : Z := if a =? 0 then 0 else (a - 1) / b + 1.

(** TypedReprRef::to_chunks, RefLarge(words): one chunk = the number itself; otherwise chunk_count
    zeroed buffers of ceil(chunk_bits / WORD_BITS) + 1 words ("an extra word for shifting") *)
Definition to_chunks_large_words (words : list Z) (cb : Z) : result (list (list Z)) :=
  if cb <=? 0 then Panic Undocumented                               (* assert!(chunk_bits > 0) *)
  else
    let count := ceil_div (words_bit_len words) cb in
    if count =? 1 then Ok [words]
    else let wpc := ceil_div cb w in
         words_to_chunks words (repeat (repeat 0 (Z.to_nat (wpc + 1))) (Z.to_nat count)) cb.

(** UBig::to_chunks: the double-word representation by shift and mask (IoModel), the word array by the
    loops above; Repr::from_buffer reads each buffer as its value *)
Definition to_chunks_words_z (v cb : Z) : result (list Z) :=
  if v <? Bw w * Bw w then to_chunks_asis w v cb
  else rmap (map (Words.value w)) (to_chunks_large_words (to_words w (nwords w v) v) cb).

End W2C.
