(** C09: basic facts used by the proofs about the word-level kernels (Int/BitsKernels.v):
    normalisation (pop_zeros / from_buffer), bitwise operations on x + B * v, disjoint or = add,
    masks, complements. *)
From Dashu Require Import Base.Prelude Base.Words Int.BitsSpec Int.BitsWords Int.BitsKernels.
Open Scope Z_scope.

Section Base.
Variable w : Z.
Hypothesis w_pos : 0 < w.
Notation B := (B w).
Notation value := (value w).
Notation wf := (wf w).

Lemma B_pow : B = 2 ^ w. Proof. reflexivity. Qed.
Lemma BB_pow : B * B = 2 ^ (2 * w).
Proof. rewrite B_pow, <- Z.pow_add_r by lia. f_equal. lia. Qed.

(* ---------------------------------------------------------------- normalisation *)

Lemma pop_zeros_ok ws : wf ws ->
  wf (pop_zeros ws) /\ value (pop_zeros ws) = value ws /\
  (pop_zeros ws = [] \/ last (pop_zeros ws) 0 <> 0) /\ (length (pop_zeros ws) <= length ws)%nat.
Proof.
  induction ws as [|x r IH]; intros H.
  - cbn. repeat split; auto.
  - apply wf_cons in H. destruct H as [Hx Hr]. destruct (IH Hr) as (W & V & L & N).
    cbn [pop_zeros Words.value]. destruct (pop_zeros r) as [|y r'] eqn:E.
    + cbn [Words.value] in V. destruct (Z.eqb_spec x 0) as [->|Hne].
      * repeat split; [constructor | cbn; lia | left; reflexivity | cbn; lia].
      * repeat split; [apply wf_cons; split; [assumption | constructor] | cbn [Words.value]; lia
                      | right; cbn; assumption | cbn; lia].
    + repeat split.
      * apply wf_cons; auto.
      * rewrite <- V. reflexivity.
      * right. destruct L as [L|L]; [discriminate|]. exact L.
      * cbn [length] in *. lia.
Qed.

Lemma from_buffer_ok ws : wf ws -> bvalue w (from_buffer w ws) = value ws /\ brepr_ok w (from_buffer w ws).
Proof.
  intros H. destruct (pop_zeros_ok ws H) as (W & V & L & _). unfold from_buffer. rewrite <- V.
  pose proof (B_pos w w_pos) as HB.
  destruct (pop_zeros ws) as [|x [|y [|z t]]].
  - cbn. split; [reflexivity | nia].
  - apply wf_cons in W. destruct W as [Hx _]. cbn. split; [lia | nia].
  - apply wf_cons in W. destruct W as [Hx W]. apply wf_cons in W. destruct W as [Hy _]. cbn. split; [lia | nia].
  - split; [reflexivity|]. cbn [brepr_ok]. split; [exact W|]. split; [cbn [length]; lia|].
    destruct L as [L|L]; [discriminate | exact L].
Qed.

Lemma from_buffer_value ws : wf ws -> bvalue w (from_buffer w ws) = value ws.
Proof. intros H. apply from_buffer_ok; assumption. Qed.

Lemma brepr_ok_nonneg r : brepr_ok w r -> 0 <= bvalue w r.
Proof. destruct r as [d|ws]; cbn; [lia | intros (W & _); apply value_nonneg; assumption]. Qed.

(** a heap magnitude is at least B^2 *)
Lemma value_last_lower ws : wf ws -> ws <> [] -> last ws 0 <> 0 -> B ^ (len ws - 1) <= value ws.
Proof.
  pose proof (B_pos w w_pos) as HB. induction ws as [|x r IH]; intros H Hne Hl; [contradiction|].
  apply wf_cons in H. destruct H as [Hx Hr]. unfold len. cbn [length]. rewrite Nat2Z.inj_succ.
  replace (Z.succ (Z.of_nat (length r)) - 1) with (Z.of_nat (length r)) by lia.
  destruct r as [|y s].
  - cbn. cbn in Hl. lia.
  - assert (Hl' : last (y :: s) 0 <> 0) by exact Hl.
    specialize (IH Hr ltac:(discriminate) Hl'). unfold len in IH. cbn [length] in *.
    rewrite Nat2Z.inj_succ in *. replace (Z.succ (Z.of_nat (length s)) - 1) with (Z.of_nat (length s)) in IH by lia.
    rewrite Z.pow_succ_r by lia. change (Words.value w (x :: y :: s)) with (x + B * value (y :: s)). nia.
Qed.

Lemma brepr_large_lower ws : brepr_ok w (BLarge ws) -> B * B <= value ws.
Proof.
  intros (W & L & T). pose proof (B_pos w w_pos) as HB.
  assert (ws <> []) by (destruct ws; [cbn in L; lia | discriminate]).
  pose proof (value_last_lower ws W H T) as Hv.
  assert (B ^ 2 <= B ^ (len ws - 1)) by (apply Z.pow_le_mono_r; unfold len; lia).
  replace (B ^ 2) with (B * B) in * by ring. lia.
Qed.

(* ---------------------------------------------------------------- bitwise operations, word by word *)

Lemma word_lt_pow x : 0 <= x < B -> x < 2 ^ w. Proof. rewrite B_pow. lia. Qed.

Section BitOp.
Variable op : Z -> Z -> Z.
Variable fb : bool -> bool -> bool.
Hypothesis op_spec : forall a b i, 0 <= i -> Z.testbit (op a b) i = fb (Z.testbit a i) (Z.testbit b i).
Hypothesis fb_ff : fb false false = false.
Hypothesis op_nonneg : forall a b, 0 <= a -> 0 <= b -> 0 <= op a b.

Lemma op_word x y : 0 <= x < B -> 0 <= y < B -> 0 <= op x y < B.
Proof.
  intros Hx Hy. split; [apply op_nonneg; lia|].
  destruct (Z.eq_dec (op x y) 0) as [E|E]; [rewrite E; apply (B_pos w w_pos)|].
  assert (0 < op x y) by (pose proof (op_nonneg x y); lia).
  rewrite B_pow. apply Z.log2_lt_pow2; [assumption|].
  destruct (Z.lt_ge_cases (Z.log2 (op x y)) w) as [C|C]; [exact C|].
  pose proof (Z.bit_log2 (op x y) H) as Hb. rewrite op_spec in Hb by (apply Z.log2_nonneg).
  rewrite (word_bits_above w x), (word_bits_above w y) in Hb by lia.
  rewrite fb_ff in Hb. discriminate.
Qed.

Lemma op_split x y u v : 0 <= x < B -> 0 <= y < B ->
  op (x + B * u) (y + B * v) = op x y + B * op u v.
Proof.
  intros Hx Hy. pose proof (op_word x y Hx Hy) as Hxy.
  apply Z.bits_inj'. intros i Hi. rewrite op_spec by assumption.
  destruct (Z.lt_ge_cases i w) as [C|C].
  - rewrite !(testbit_low w w_pos) by lia. rewrite op_spec by assumption. reflexivity.
  - rewrite !(testbit_high w w_pos) by lia. rewrite op_spec by lia. reflexivity.
Qed.

Lemma op_0_0 : op 0 0 = 0.
Proof. apply Z.bits_inj'. intros i Hi. rewrite op_spec, !Z.bits_0 by assumption. exact fb_ff. Qed.

(** the buffer and rhs of equal length *)
Lemma zip_same a : forall b, wf a -> wf b -> length a = length b ->
  wf (zip_in_place op a b) /\ value (zip_in_place op a b) = op (value a) (value b).
Proof.
  induction a as [|x r IH]; intros [|y s] Ha Hb Hl; try discriminate.
  - cbn. split; [constructor | symmetry; apply op_0_0].
  - apply wf_cons in Ha. apply wf_cons in Hb. destruct Ha as [Hx Hr], Hb as [Hy Hs].
    cbn [length] in Hl. destruct (IH s Hr Hs ltac:(lia)) as [W V].
    cbn [zip_in_place Words.value]. split.
    + apply wf_cons. split; [apply op_word; assumption | exact W].
    + rewrite V. symmetry. apply op_split; assumption.
Qed.

Lemma zip_length a : forall b, length (zip_in_place op a b) = length a.
Proof. induction a as [|x r IH]; intros [|y s]; cbn [zip_in_place length]; auto. Qed.

(** general lengths: the result is the combination on the common prefix followed by the
    untouched tail of the buffer *)
Lemma zip_prefix a : forall b, zip_in_place op a b =
  zip_in_place op (firstn (length b) a) (firstn (length a) b) ++ skipn (length b) a.
Proof.
  induction a as [|x r IH]; intros [|y s]; cbn [zip_in_place length firstn skipn app]; auto.
  f_equal. apply IH.
Qed.
End BitOp.

(* ---------------------------------------------------------------- disjoint or *)

Lemma low_bits_of_multiple a s i : 0 <= s -> a mod 2 ^ s = 0 -> 0 <= i < s -> Z.testbit a i = false.
Proof.
  intros Hs Hm Hi. rewrite <- (Z.mod_pow2_bits_low a s i) by lia. rewrite Hm. apply Z.bits_0.
Qed.

Lemma high_bits_of_small c s i : 0 <= c < 2 ^ s -> s <= i -> Z.testbit c i = false.
Proof.
  intros Hc Hi. assert (0 <= s) by (destruct (Z.lt_ge_cases s 0); [rewrite Z.pow_neg_r in Hc by lia; lia | lia]).
  rewrite <- (Z.mod_small c (2 ^ s)) by lia. apply Z.mod_pow2_bits_high. lia.
Qed.

Lemma lor_disjoint a c s : 0 <= s -> a mod 2 ^ s = 0 -> 0 <= c < 2 ^ s -> Z.lor a c = a + c.
Proof.
  intros Hs Ha Hc.
  assert (Hland : Z.land a c = 0).
  { apply Z.bits_inj'. intros i Hi. rewrite Z.land_spec, Z.bits_0.
    destruct (Z.lt_ge_cases i s); [rewrite (low_bits_of_multiple a s i) by (assumption || lia); reflexivity|].
    rewrite (high_bits_of_small c s i) by (assumption || lia). apply andb_false_r. }
  rewrite Z.add_nocarry_lxor by exact Hland.
  apply Z.bits_inj'. intros i Hi. rewrite Z.lor_spec, Z.lxor_spec.
  assert (Hb : Z.testbit (Z.land a c) i = false) by (rewrite Hland; apply Z.bits_0).
  rewrite Z.land_spec in Hb. destruct (Z.testbit a i), (Z.testbit c i); try reflexivity; discriminate.
Qed.

(* ---------------------------------------------------------------- masks and complements *)

Lemma ones_word_ok n : 0 <= n <= w -> ones_word w n = Z.ones n.
Proof.
  intros Hn. unfold ones_word. destruct (Z.eqb_spec n 0) as [->|Hne]; [reflexivity|].
  replace (B - 1) with (Z.ones w) by (rewrite Z.ones_equiv, B_pow; lia).
  rewrite Z.shiftr_div_pow2, !Z.ones_equiv by lia.
  replace w with ((w - n) + n) at 1 by lia. rewrite Z.pow_add_r by lia.
  assert (0 < 2 ^ (w - n)) by (apply Z.pow_pos_nonneg; lia).
  assert (0 < 2 ^ n) by (apply Z.pow_pos_nonneg; lia).
  symmetry. apply Z.div_unique_pos with (r := 2 ^ (w - n) - 1); [lia | nia].
Qed.

Lemma ones_dword_ok n : 0 <= n <= 2 * w -> ones_dword w n = Z.ones n.
Proof.
  intros Hn. unfold ones_dword. destruct (Z.eqb_spec n 0) as [->|Hne]; [reflexivity|].
  rewrite BB_pow. replace (2 ^ (2 * w) - 1) with (Z.ones (2 * w)) by (rewrite Z.ones_equiv; lia).
  rewrite Z.shiftr_div_pow2, !Z.ones_equiv by lia.
  replace (2 * w) with ((2 * w - n) + n) at 1 by lia. rewrite Z.pow_add_r by lia.
  assert (0 < 2 ^ (2 * w - n)) by (apply Z.pow_pos_nonneg; lia).
  assert (0 < 2 ^ n) by (apply Z.pow_pos_nonneg; lia).
  symmetry. apply Z.div_unique_pos with (r := 2 ^ (2 * w - n) - 1); [lia | nia].
Qed.

(** x & !y on machine integers of k bits is ldiff *)
Lemma land_compl k x y : 0 <= k -> 0 <= x < 2 ^ k -> 0 <= y < 2 ^ k -> Z.land x (2 ^ k - 1 - y) = Z.ldiff x y.
Proof.
  intros Hk Hx Hy. apply Z.bits_inj'. intros i Hi. rewrite Z.land_spec, Z.ldiff_spec.
  destruct (Z.lt_ge_cases i k) as [C|C].
  - replace (2 ^ k - 1 - y) with (Z.lnot y + 1 * 2 ^ k) by (unfold Z.lnot; rewrite <- Z.sub_1_r; lia).
    rewrite <- (Z.mod_pow2_bits_low (Z.lnot y + 1 * 2 ^ k) k i) by lia.
    rewrite Z.mod_add by (apply Z.pow_nonzero; lia). rewrite Z.mod_pow2_bits_low by lia.
    rewrite Z.lnot_spec by lia. reflexivity.
  - rewrite (high_bits_of_small x k i) by lia. reflexivity.
Qed.

Lemma land_word_not x y : 0 <= x < B -> 0 <= y < B -> Z.land x (word_not w y) = Z.ldiff x y.
Proof. intros Hx Hy. unfold word_not. rewrite B_pow in *. apply land_compl; lia. Qed.

Lemma land_dword_not x y : 0 <= x < B * B -> 0 <= y < B * B -> Z.land x (dword_not w y) = Z.ldiff x y.
Proof. intros Hx Hy. unfold dword_not. rewrite BB_pow in *. apply land_compl; lia. Qed.

Lemma ldiff_nonneg a b : 0 <= a -> 0 <= b -> 0 <= Z.ldiff a b.
Proof. intros Ha Hb. apply Z.ldiff_nonneg. left. assumption. Qed.

(** 1 << n *)
Lemma shiftl_1 n : 0 <= n -> Z.shiftl 1 n = 2 ^ n.
Proof. intros Hn. rewrite Z.shiftl_mul_pow2 by assumption. lia. Qed.

Lemma pow_word_bit m : 0 <= m < w -> 0 <= 2 ^ m < B.
Proof. intros Hm. rewrite B_pow. split; [apply Z.pow_nonneg; lia | apply Z.pow_lt_mono_r; lia]. Qed.

(** value of a list with an updated word *)
Lemma upd_length ws : forall idx f, length (upd ws idx f) = length ws.
Proof. induction ws as [|x r IH]; intros [|k] f; cbn [upd length]; auto. Qed.

Lemma upd_value ws : forall idx f, (idx < length ws)%nat ->
  value (upd ws idx f) = value ws + B ^ Z.of_nat idx * (f (nth idx ws 0) - nth idx ws 0).
Proof.
  induction ws as [|x r IH]; intros [|k] f Hl; cbn [length] in Hl; try lia.
  - cbn [upd Words.value nth Z.of_nat]. rewrite Z.pow_0_r. ring.
  - cbn [upd Words.value nth]. rewrite IH by lia. rewrite Nat2Z.inj_succ, Z.pow_succ_r by lia. ring.
Qed.

Lemma upd_wf ws : forall idx f, wf ws -> (forall x, 0 <= x < B -> 0 <= f x < B) -> wf (upd ws idx f).
Proof.
  induction ws as [|x r IH]; intros [|k] f H Hf; cbn [upd]; try assumption.
  - apply wf_cons in H. destruct H. apply wf_cons. split; auto.
  - apply wf_cons in H. destruct H. apply wf_cons. split; auto.
Qed.

Lemma wf_nth ws i : wf ws -> 0 <= nth i ws 0 < B.
Proof.
  intros H. pose proof (B_pos w w_pos). destruct (Nat.lt_ge_cases i (length ws)) as [C|C].
  - unfold Words.wf in H. rewrite Forall_forall in H. apply H. apply nth_In. exact C.
  - rewrite nth_overflow by lia. lia.
Qed.

Lemma wf_firstn n ws : wf ws -> wf (firstn n ws).
Proof. intros H. rewrite <- (firstn_skipn n ws) in H. apply wf_app in H. tauto. Qed.
Lemma wf_skipn n ws : wf ws -> wf (skipn n ws).
Proof. intros H. rewrite <- (firstn_skipn n ws) in H. apply wf_app in H. tauto. Qed.

Lemma value_firstn_skipn n ws : value ws = value (firstn n ws) + B ^ len (firstn n ws) * value (skipn n ws).
Proof. rewrite <- value_app, firstn_skipn. reflexivity. Qed.

Lemma wf_repeat x n : 0 <= x < B -> wf (repeat x n).
Proof. intros Hx. induction n; cbn [repeat]; [constructor | apply wf_cons; auto]. Qed.

Lemma len_app {A} (a b : list A) : len (a ++ b) = len a + len b.
Proof. unfold len. rewrite app_length. lia. Qed.
Lemma len_repeat {A} (x : A) n : len (repeat x n) = Z.of_nat n.
Proof. unfold len. rewrite repeat_length. reflexivity. Qed.

Lemma Bpow_pow k : 0 <= k -> B ^ k = 2 ^ (w * k).
Proof. intros Hk. rewrite B_pow, <- Z.pow_mul_r by lia. reflexivity. Qed.

End Base.
