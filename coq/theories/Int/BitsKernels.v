(** C09: word-level as-is models of the magnitude kernels of integer/src/bits.rs, shift.rs,
    shift_ops.rs, math.rs (ones_word / ones_dword / shl_dword / shr_word) and repr.rs (Repr::ones,
    Repr::from_buffer) over little-endian word lists of an arbitrary word size [w].
    A [Repr] magnitude is modelled by its typed view: an inline double word or a heap word list.
    Primitive operations of the machine integer types (`&`, `|`, `^`, `!`, `<<`, `>>` on Word /
    DoubleWord, leading_zeros, count_ones, is_power_of_two, checked_next_power_of_two,
    trailing_zeros) are modelled by the function of the same meaning on Z restricted to the word.
    Definitions only; the proofs are in Bits*Proofs.v. *)
From Dashu Require Import Base.Prelude Base.Words Int.BitsSpec Int.BitsWords.
Open Scope Z_scope.

Inductive brepr := BSmall (d : Z) | BLarge (ws : list Z).
(** how the two operands of a binary operator are passed: V = by value, R = by reference *)
Inductive bown := VV | VR | RV | RR.

(** the loop over buffer.iter_mut().zip(rhs.iter()) that combines each buffer word with the
    word of rhs at the same index: the words of the buffer beyond the shorter length stay *)
Fixpoint zip_in_place (f : Z -> Z -> Z) (buf rhs : list Z) : list Z :=
  match buf, rhs with
  | x :: b, y :: r => f x y :: zip_in_place f b r
  | _, _ => buf
  end.

(** buffer[idx] = f(buffer[idx]) *)
Fixpoint upd (ws : list Z) (idx : nat) (f : Z -> Z) : list Z :=
  match ws, idx with
  | [], _ => []
  | x :: r, O => f x :: r
  | x :: r, S k => x :: upd r k f
  end.

(** Buffer::pop_zeros: drop most significant zero words *)
Fixpoint pop_zeros (ws : list Z) : list Z :=
  match ws with
  | [] => []
  | x :: r => match pop_zeros r with [] => if x =? 0 then [] else [x] | r' => x :: r' end
  end.

Section BitsKernels.
Variable w : Z.
Notation B := (B w).
Notation value := (value w).

Definition bvalue (r : brepr) : Z := match r with BSmall d => d | BLarge ws => value ws end.

(** the invariant of a Repr magnitude: at most two words inline, otherwise at least three words
    on the heap and the top word non-zero *)
Definition brepr_ok (r : brepr) : Prop :=
  match r with
  | BSmall d => 0 <= d < B * B
  | BLarge ws => wf w ws /\ (3 <= length ws)%nat /\ last ws 0 <> 0
  end.

(** Repr::from_word / from_dword / from_buffer *)
Definition from_word (x : Z) : brepr := BSmall x.
Definition from_dword (d : Z) : brepr := BSmall d.
Definition from_buffer (ws : list Z) : brepr :=
  match pop_zeros ws with
  | [] => BSmall 0
  | [x] => BSmall x
  | [x; y] => BSmall (x + B * y)
  | t => BLarge t
  end.

(** primitive::lowest_dword / Buffer::lowest_dword (a heap buffer has at least two words) *)
Definition lowest_dword (ws : list Z) : Z :=
  match ws with x :: y :: _ => x + B * y | [x] => x | [] => 0 end.

(** `!x` on Word / DoubleWord *)
Definition word_not (x : Z) : Z := B - 1 - x.
Definition dword_not (d : Z) : Z := B * B - 1 - d.

(** math.rs ones_word / ones_dword *)
Definition ones_word (n : Z) : Z := if n =? 0 then 0 else Z.shiftr (B - 1) (w - n).
Definition ones_dword (n : Z) : Z := if n =? 0 then 0 else Z.shiftr (B * B - 1) (2 * w - n).

(** Word::leading_zeros / DoubleWord::leading_zeros *)
Definition word_lz (x : Z) : Z := w - bit_len_spec x.
Definition dword_lz (d : Z) : Z := 2 * w - bit_len_spec d.

(* ------------------------------------------------------------------ bits.rs: & | ^ and_not *)

Definition bitand_large (buf rhs : list Z) : brepr :=
  let buf := if (length rhs <? length buf)%nat then firstn (length rhs) buf else buf in
  from_buffer (zip_in_place Z.land buf rhs).

Definition bitor_large (buf rhs : list Z) : brepr :=
  let buf' := zip_in_place Z.lor buf rhs in
  from_buffer (if (length buf <? length rhs)%nat then buf' ++ skipn (length buf) rhs else buf').

Definition bitxor_large (buf rhs : list Z) : brepr :=
  let buf' := zip_in_place Z.lxor buf rhs in
  from_buffer (if (length buf <? length rhs)%nat then buf' ++ skipn (length buf) rhs else buf').

Definition and_not_large (buf rhs : list Z) : brepr :=
  from_buffer (zip_in_place (fun x y => Z.land x (word_not y)) buf rhs).

(** the *_large_dword kernels: the two lowest words of the buffer are combined with the halves
    of the double word (debug_assert!(buffer.len() >= 2)) *)
Definition large_dword (f : Z -> Z -> Z) (buf : list Z) (d : Z) : brepr :=
  match buf with
  | x :: y :: r => from_buffer (f x (d mod B) :: f y (d / B) :: r)
  | _ => from_buffer buf
  end.
Definition bitor_large_dword := large_dword Z.lor.
Definition bitxor_large_dword := large_dword Z.lxor.
Definition and_not_large_dword := large_dword (fun x y => Z.land x (word_not y)).

Definition repr_bitand (o : bown) (a b : brepr) : brepr :=
  match a, b with
  | BSmall d0, BSmall d1 => from_dword (Z.land d0 d1)
  | BSmall d0, BLarge b1 => from_dword (Z.land d0 (lowest_dword b1))
  | BLarge b0, BSmall d1 => from_dword (Z.land (lowest_dword b0) d1)
  | BLarge b0, BLarge b1 =>
      match o with
      | VV | RR => if (length b0 <=? length b1)%nat then bitand_large b0 b1 else bitand_large b1 b0
      | VR => bitand_large b0 b1
      | RV => bitand_large b1 b0
      end
  end.

Definition repr_bitor (o : bown) (a b : brepr) : brepr :=
  match a, b with
  | BSmall d0, BSmall d1 => from_dword (Z.lor d0 d1)
  | BSmall d0, BLarge b1 => bitor_large_dword b1 d0
  | BLarge b0, BSmall d1 => bitor_large_dword b0 d1
  | BLarge b0, BLarge b1 =>
      match o with
      | VV | RR => if (length b1 <=? length b0)%nat then bitor_large b0 b1 else bitor_large b1 b0
      | VR => bitor_large b0 b1
      | RV => bitor_large b1 b0
      end
  end.

Definition repr_bitxor (o : bown) (a b : brepr) : brepr :=
  match a, b with
  | BSmall d0, BSmall d1 => from_dword (Z.lxor d0 d1)
  | BSmall d0, BLarge b1 => bitxor_large_dword b1 d0
  | BLarge b0, BSmall d1 => bitxor_large_dword b0 d1
  | BLarge b0, BLarge b1 =>
      match o with
      | VV | RR => if (length b1 <=? length b0)%nat then bitxor_large b0 b1 else bitxor_large b1 b0
      | VR => bitxor_large b0 b1
      | RV => bitxor_large b1 b0
      end
  end.

(** AndNot: the same arms for the four ownership combinations *)
Definition repr_and_not (a b : brepr) : brepr :=
  match a, b with
  | BSmall d0, BSmall d1 => from_dword (Z.land d0 (dword_not d1))
  | BSmall d0, BLarge b1 => from_dword (Z.land d0 (dword_not (lowest_dword b1)))
  | BLarge b0, BSmall d1 => and_not_large_dword b0 d1
  | BLarge b0, BLarge b1 => and_not_large b0 b1
  end.

(* ------------------------------------------------------------------ shift.rs *)

(** shl_in_place: (new_word, new_carry) = split_dword(extend_word(word) << shift);
    word = new_word | carry, from the lowest word upwards *)
Fixpoint shl_loop (s : Z) (ws : list Z) (carry : Z) : list Z * Z :=
  match ws with
  | [] => ([], carry)
  | x :: r => let d := Z.shiftl x s in
              let '(r', c) := shl_loop s r (d / B) in (Z.lor (d mod B) carry :: r', c)
  end.
Definition shl_in_place (ws : list Z) (s : Z) : list Z * Z :=
  if s =? 0 then (ws, 0) else shl_loop s ws 0.

(** math.rs shr_word: split_dword(double_word(0, w) >> shift) = (shifted-out bits at the top of a
    word, result) *)
Definition shr_word (x s : Z) : Z * Z := let d := Z.shiftr (B * x) s in (d / B, d mod B).

(** shr_in_place_with_carry: from the highest word downwards *)
Fixpoint shr_loop (s : Z) (ws : list Z) (carry : Z) : list Z * Z :=
  match ws with
  | [] => ([], carry)
  | x :: r => let '(r', c) := shr_loop s r carry in
              let '(nw, nc) := shr_word x s in (Z.lor nw c :: r', nc)
  end.
Definition shr_in_place_with_carry (ws : list Z) (s carry : Z) : list Z * Z :=
  if s =? 0 then (ws, 0) else shr_loop s ws carry.
Definition shr_in_place_one_word (ws : list Z) : list Z * Z :=
  match ws with [] => ([], 0) | x :: r => (r ++ [0], x) end.
Definition shr_in_place (ws : list Z) (s : Z) : list Z * Z :=
  if s =? w then shr_in_place_one_word ws else shr_in_place_with_carry ws s 0.

(* ------------------------------------------------------------------ shift_ops.rs, mod repr *)

Definition shl_one_spilled (rhs : Z) : brepr :=
  from_buffer (repeat 0 (Z.to_nat (rhs / w)) ++ [Z.shiftl 1 (rhs mod w)]).

(** math.rs shl_dword *)
Definition math_shl_dword (dw s : Z) : Z * Z * Z :=
  let lo := dw mod B in let hi := dw / B in
  let d0 := Z.shiftl lo s in
  let d1 := Z.lor (Z.shiftl hi s) (d0 / B) in
  (d0 mod B, d1 mod B, d1 / B).

Definition shl_dword_spilled (dw rhs : Z) : brepr :=
  let '(n0, n1, n2) := math_shl_dword dw (rhs mod w) in
  from_buffer (repeat 0 (Z.to_nat (rhs / w)) ++ [n0; n1; n2]).

Definition shl_dword (dw rhs : Z) : brepr :=
  if rhs <=? dword_lz dw then from_dword (Z.shiftl dw rhs)
  else if dw =? 1 then shl_one_spilled rhs
  else shl_dword_spilled dw rhs.

Definition shl_large_ref (ws : list Z) (rhs : Z) : brepr :=
  let '(r, c) := shl_in_place ws (rhs mod w) in
  from_buffer ((repeat 0 (Z.to_nat (rhs / w)) ++ r) ++ [c]).

(** [has_capacity]: the outcome of the test buffer.capacity() >= len + shift_words + 1, which
    selects between shifting in place and the copying version *)
Definition shl_large (has_capacity : bool) (buf : list Z) (rhs : Z) : brepr :=
  if negb has_capacity then shl_large_ref buf rhs
  else let '(r, c) := shl_in_place buf (rhs mod w) in
       from_buffer (repeat 0 (Z.to_nat (rhs / w)) ++ (r ++ [c])).

Definition repr_shl (has_capacity : bool) (r : brepr) (rhs : Z) : brepr :=
  match r with
  | BSmall d => if d =? 0 then BSmall 0 else shl_dword d rhs
  | BLarge b => shl_large has_capacity b rhs
  end.
Definition repr_shl_ref (r : brepr) (rhs : Z) : brepr :=
  match r with
  | BSmall d => if d =? 0 then BSmall 0 else shl_dword d rhs
  | BLarge b => shl_large_ref b rhs
  end.

Definition shr_dword (dw rhs : Z) : brepr :=
  if rhs <? 2 * w then from_dword (Z.shiftr dw rhs) else BSmall 0.

Definition shr_large (buf : list Z) (rhs : Z) : brepr :=
  let sw := rhs / w in
  if sw >=? len buf then BSmall 0
  else from_buffer (fst (shr_in_place (skipn (Z.to_nat sw) buf) (rhs mod w))).

Definition shr_large_ref (ws : list Z) (rhs : Z) : brepr :=
  let sw := rhs / w in let sb := rhs mod w in
  match skipn (Z.to_nat (Z.min sw (len ws))) ws with
  | [] => BSmall 0
  | [x] => from_word (Z.shiftr x sb)
  | [lo; hi] => from_dword (Z.shiftr (lo + B * hi) sb)
  | ws' => from_buffer (fst (shr_in_place ws' sb))
  end.

Definition repr_shr (r : brepr) (rhs : Z) : brepr :=
  match r with BSmall d => shr_dword d rhs | BLarge b => shr_large b rhs end.
Definition repr_shr_ref (r : brepr) (rhs : Z) : brepr :=
  match r with BSmall d => shr_dword d rhs | BLarge b => shr_large_ref b rhs end.

(** bits.rs are_dword_low_bits_nonzero (as repaired: clamp to the double word) and
    are_slice_low_bits_nonzero *)
Definition dword_low_bits_nonzero (d n : Z) : bool :=
  let n := Z.min n (2 * w) in negb (Z.land d (ones_dword n) =? 0).
Definition slice_low_bits_nonzero (ws : list Z) (n : Z) : bool :=
  let n_words := n / w in
  if n_words >=? len ws then true
  else existsb (fun x => negb (x =? 0)) (firstn (Z.to_nat n_words) ws)
       || negb (Z.land (nth (Z.to_nat n_words) ws 0) (ones_word (n mod w)) =? 0).
Definition are_low_bits_nonzero (r : brepr) (n : Z) : bool :=
  match r with BSmall d => dword_low_bits_nonzero d n | BLarge ws => slice_low_bits_nonzero ws n end.

(** shift_ops.rs Shr<usize> for IBig / &IBig on (sign, magnitude); the negation and the
    subtraction of the correction bit are taken at value level *)
Definition ibig_shr_asis (s : sign) (r : brepr) (n : Z) : Z :=
  match s with
  | Positive => bvalue (repr_shr r n)
  | Negative => let b := are_low_bits_nonzero r n in - bvalue (repr_shr r n) - Z.b2z b
  end.
Definition ibig_shr_ref_asis (s : sign) (r : brepr) (n : Z) : Z :=
  match s with
  | Positive => bvalue (repr_shr_ref r n)
  | Negative => let b := are_low_bits_nonzero r n in - bvalue (repr_shr_ref r n) - Z.b2z b
  end.
Definition ibig_shl_asis (s : sign) (has_capacity : bool) (r : brepr) (n : Z) : Z :=
  signed s (bvalue (repr_shl has_capacity r n)).

(* ------------------------------------------------------------------ bits.rs: single bits *)

Definition repr_bit (r : brepr) (n : Z) : bool :=
  match r with
  | BSmall d => (n <? 2 * w) && negb (Z.land d (Z.shiftl 1 n) =? 0)
  | BLarge ws => bit_large w ws n
  end.

Definition repr_trailing_zeros (r : brepr) : option Z :=
  match r with BSmall d => trailing_zeros_spec d | BLarge ws => Some (trailing_zeros_large w ws) end.

(** BitTest::bit for IBig *)
Definition ibig_bit (s : sign) (r : brepr) (n : Z) : bool :=
  match s with
  | Positive => repr_bit r n
  | Negative =>
      match repr_trailing_zeros r with
      | None => false (* unwrap() of None: the magnitude of a negative number is not zero *)
      | Some zeros => match n ?= zeros with Eq => true | Gt => negb (repr_bit r n) | Lt => false end
      end
  end.

Definition with_bit_dword_spilled (d n : Z) : brepr :=
  let idx := n / w in
  from_buffer ([d mod B; d / B] ++ repeat 0 (Z.to_nat (idx - 2)) ++ [Z.shiftl 1 (n mod w)]).

Definition with_bit_large (buf : list Z) (n : Z) : brepr :=
  let idx := n / w in
  if idx <? len buf then from_buffer (upd buf (Z.to_nat idx) (fun x => Z.lor x (Z.shiftl 1 (n mod w))))
  else from_buffer (buf ++ repeat 0 (Z.to_nat (idx - len buf)) ++ [Z.shiftl 1 (n mod w)]).

Definition repr_set_bit (r : brepr) (n : Z) : brepr :=
  match r with
  | BSmall d => if n <? 2 * w then from_dword (Z.lor d (Z.shiftl 1 n)) else with_bit_dword_spilled d n
  | BLarge b => with_bit_large b n
  end.

Definition repr_clear_bit (r : brepr) (n : Z) : brepr :=
  match r with
  | BSmall d => if n <? 2 * w then from_dword (Z.land d (dword_not (Z.shiftl 1 n))) else from_dword d
  | BLarge b =>
      let idx := n / w in
      from_buffer (if idx <? len b
                   then upd b (Z.to_nat idx) (fun x => Z.land x (word_not (Z.shiftl 1 (n mod w))))
                   else b)
  end.

(* ------------------------------------------------------------------ bits.rs: low / high parts *)

Definition ceil_div (a b : Z) : Z := if a =? 0 then 0 else (a - 1) / b + 1.

Definition clear_high_bits_large (buf : list Z) (n : Z) : brepr :=
  let n_words := ceil_div n w in
  if n_words >? len buf then from_buffer buf
  else let b := firstn (Z.to_nat n_words) buf in
       from_buffer (if n mod w =? 0 then b
                    else upd b (length b - 1) (fun x => Z.land x (ones_word (n mod w)))).

Definition repr_clear_high_bits (r : brepr) (n : Z) : brepr :=
  match r with
  | BSmall d => if n <? 2 * w then from_dword (Z.land d (ones_dword n)) else from_dword d
  | BLarge b => clear_high_bits_large b n
  end.

Definition repr_split_bits (r : brepr) (n : Z) : brepr * brepr :=
  match r with
  | BSmall d => if n <? 2 * w then (from_dword (Z.land d (ones_dword n)), from_dword (Z.shiftr d n))
                else (from_dword d, BSmall 0)
  | BLarge b => if n =? 0 then (BSmall 0, from_buffer b)
                else (clear_high_bits_large b n, shr_large_ref b n)
  end.

(* ------------------------------------------------------------------ bits.rs: counting *)

Definition repr_bit_len (r : brepr) : Z :=
  match r with
  | BSmall d => 2 * w - dword_lz d
  | BLarge ws => len ws * w - word_lz (last ws 0)
  end.

Definition sum_words (f : Z -> Z) (ws : list Z) : Z := fold_right (fun x acc => f x + acc) 0 ws.

Definition repr_count_ones (r : brepr) : Z :=
  match r with BSmall d => count_ones_spec d | BLarge ws => sum_words count_ones_spec ws end.

Definition repr_count_zeros (r : brepr) : option Z :=
  match r with
  | BSmall d => if d =? 0 then None else Some ((2 * w - count_ones_spec d) - dword_lz d)
  | BLarge ws => Some (sum_words (fun x => w - count_ones_spec x) ws - word_lz (last ws 0))
  end.

Definition repr_is_power_of_two (r : brepr) : bool :=
  match r with
  | BSmall d => is_power_of_two_spec d
  | BLarge ws => forallb (fun x => x =? 0) (removelast ws) && is_power_of_two_spec (last ws 0)
  end.

(** checked_next_power_of_two of an unsigned machine integer with [bound] = 2^bits values *)
Definition checked_npt (bound x : Z) : option Z :=
  let p := next_power_of_two_spec x in if p <? bound then Some p else None.

(** next_power_of_two_large: every word below the top one is zeroed; the top word is incremented
    when one of them was not zero, then rounded up to a power of two; overflow pushes a new word *)
Definition next_power_of_two_large (ws : list Z) : brepr :=
  let init := removelast ws in
  let lst := last ws 0 in
  let carry := if forallb (fun x => x =? 0) init then 0 else 1 in
  let zeros := repeat 0 (length init) in
  match (if lst + carry <? B then checked_npt B (lst + carry) else None) with
  | Some p => from_buffer (zeros ++ [p])
  | None => from_buffer (zeros ++ [0; 1])
  end.

Definition repr_next_power_of_two (r : brepr) : brepr :=
  match r with
  | BSmall d => match checked_npt (B * B) d with
                | Some p => from_dword p
                | None => from_buffer [0; 0; 1]
                end
  | BLarge ws => next_power_of_two_large ws
  end.

(** repr.rs Repr::ones (as repaired: n = 2 * WORD_BITS is a double word); the heap value is built
    without going through from_buffer *)
Definition repr_ones (n : Z) : brepr :=
  if n <? w then from_word (ones_word n)
  else if n <=? 2 * w then from_dword (ones_dword n)
  else BLarge (repeat (B - 1) (Z.to_nat (n / w)) ++ (if 0 <? n mod w then [ones_word (n mod w)] else [])).

(** typed view of a magnitude given by its value (what UBig::from_words builds) *)
Definition to_brepr (v : Z) : brepr :=
  if v <? B * B then BSmall v
  else BLarge (to_words w (Z.to_nat ((Z.log2 v) / w + 1)) v).

(* ------------------------------------------------------------------ bits.rs: & | ^ on IBig *)

(** Repr::sub_one().into_typed(): the subtraction itself belongs to C01 and is taken at value
    level; the result is viewed as a typed magnitude again *)
Definition sub_one_typed (r : brepr) : brepr := to_brepr (bvalue r - 1).

(** ownership after one operand was replaced by a temporary (passed by value) *)
Definition own_rhs_val (o : bown) : bown := match o with VV | VR => VV | RV | RR => RV end.
Definition own_lhs_val (o : bown) : bown := match o with VV | RV => VV | VR | RR => VR end.

(** impl_ibig_bitand / impl_ibig_bitor / impl_ibig_bitxor over the word-level kernels; the final
    `!` (Not for IBig) is taken at value level *)
Definition ibig_bitand_asis (o : bown) (s0 : sign) (r0 : brepr) (s1 : sign) (r1 : brepr) : Z :=
  match s0, s1 with
  | Positive, Positive => bvalue (repr_bitand o r0 r1)
  | Positive, Negative => bvalue (repr_and_not r0 (sub_one_typed r1))
  | Negative, Positive => bvalue (repr_and_not r1 (sub_one_typed r0))
  | Negative, Negative => Z.lnot (bvalue (repr_bitor VV (sub_one_typed r0) (sub_one_typed r1)))
  end.

Definition ibig_bitor_asis (o : bown) (s0 : sign) (r0 : brepr) (s1 : sign) (r1 : brepr) : Z :=
  match s0, s1 with
  | Positive, Positive => bvalue (repr_bitor o r0 r1)
  | Positive, Negative => Z.lnot (bvalue (repr_and_not (sub_one_typed r1) r0))
  | Negative, Positive => Z.lnot (bvalue (repr_and_not (sub_one_typed r0) r1))
  | Negative, Negative => Z.lnot (bvalue (repr_bitand VV (sub_one_typed r0) (sub_one_typed r1)))
  end.

Definition ibig_bitxor_asis (o : bown) (s0 : sign) (r0 : brepr) (s1 : sign) (r1 : brepr) : Z :=
  match s0, s1 with
  | Positive, Positive => bvalue (repr_bitxor o r0 r1)
  | Positive, Negative => Z.lnot (bvalue (repr_bitxor (own_rhs_val o) r0 (sub_one_typed r1)))
  | Negative, Positive => Z.lnot (bvalue (repr_bitxor (own_lhs_val o) (sub_one_typed r0) r1))
  | Negative, Negative => bvalue (repr_bitxor VV (sub_one_typed r0) (sub_one_typed r1))
  end.

(* ------------------------------------------------------------------ bits.rs: trailing ones *)

(** trailing_zeros_large_shifted_by_one: trailing zeros of the number shifted right by one bit.
    When the rest of word 0 is empty the scan restarts at word 1. *)
Definition trailing_zeros_large_shifted_by_one (ws : list Z) : Z :=
  match ws with
  | [] => 0
  | x :: r =>
      let zero_begin := word_tz w (Z.shiftr x 1) in
      if zero_begin <? w - 1 then zero_begin else trailing_zeros_large w r + zero_begin - 1
  end.

(** TypedReprRef::trailing_ones (DoubleWord::trailing_ones for the inline form) *)
Definition repr_trailing_ones (r : brepr) : Z :=
  match r with
  | BSmall d => match trailing_ones_spec d with Some k => k | None => 0 end
  | BLarge ws => trailing_ones_large w ws
  end.

(** TypedReprRef::trailing_ones_neg: number of trailing ones of -self *)
Definition repr_trailing_ones_neg (r : brepr) : option Z :=
  match r with
  | BSmall d => if d =? 0 then Some 0 else if d =? 1 then None
                else trailing_ones_spec ((dword_not d + 1) mod (B * B))
  | BLarge ws => if Z.land (nth 0 ws 0) 1 =? 0 then Some 0
                 else Some (trailing_zeros_large_shifted_by_one ws + 1)
  end.

(** IBig::trailing_ones *)
Definition ibig_trailing_ones (s : sign) (r : brepr) : option Z :=
  match s with Positive => Some (repr_trailing_ones r) | Negative => repr_trailing_ones_neg r end.

End BitsKernels.
