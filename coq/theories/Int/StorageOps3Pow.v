(** C17 (round 4) - the value-level fact round 3 left outside the machine: inside pow_large_base the multiplications
    mul_large(res, base) and square_large(res) carry debug_assert!(lhs.len() >= 2 && rhs.len() >= 2).  Here the loop is
    modelled WITH these assertions as guards ([pow_large_base_g]) and proved never to fail them for a normalized base of
    at least 3 words: every intermediate power is a normalized value of at least B^2 (in fact it only grows), hence has at
    least 3 words.  Word contents matter, so the operand is required to consist of word digits. *)
From Dashu Require Import Base.Prelude Base.Words Int.StorageModel Int.StorageProofs Int.StorageArith Int.StorageHistory
  Int.StorageOps2 Int.StorageOps2Proofs Int.StorageOps3 Int.StorageOps3Proofs Int.StorageOps3Sqrt.
From DashuGen Require Import StorageGen StorageGen4.
Open Scope Z_scope.

Section Ops3Pow.
Variable w : Z.
Variable M : Z.
Hypothesis w_big : 2 <= w.
Hypothesis M_big : 8 <= M.

Let w_pos : 0 < w. Proof. lia. Qed.

Notation ReprInv := (ReprInv M).
Notation BufOK := (BufOK M).
Notation RQ := (RQ M).
Notation B := (Words.B w).
Notation value := (Words.value w).
Notation wf := (Words.wf w).

Ltac lens := cbn [setws bws bcap bptr];
  repeat (rewrite len_app || rewrite len_cons || (rewrite len_repeat by lia) || (rewrite (len_tow' w) by lia)); lnil.

(** mul_ops::mul_large / square_large with their debug assertions, as pow_large_base calls them *)
Definition mul_large_g (lhs rhs : list Z) : M_ repr :=
  guard 13 ((2 <=? len lhs) && (2 <=? len rhs)) ;;; mul_large_nd w M lhs rhs.

Fixpoint pow_large_loop_g (p : nat) (e : Z) (base : list Z) (res : repr) : M_ repr :=
  res1 <- (if Z.testbit e (Z.of_nat p) then r <- mul_large_g (rwords res) base ;; repr_drop res ;;; ret r else ret res) ;;
  match p with
  | O => ret res1
  | S p' => r <- mul_large_g (rwords res1) (rwords res1) ;; repr_drop res1 ;;; pow_large_loop_g p' e base r
  end.

Definition pow_large_base_g (base : list Z) (e : Z) : M_ repr :=
  guard 13 (1 <? e) ;;;
  let p := Z.log2 e + 1 - 2 in
  guard 14 (0 <=? p) ;;;
  res <- mul_large_g base base ;;
  pow_large_loop_g (Z.to_nat p) e base res.

(** a value that is a normalized number of at least B^2 *)
Definition BigW (ws : list Z) : Prop := wf ws /\ B ^ 2 <= value ws.
Definition Big (r : repr) : Prop := BigW (rwords r).

Lemma BigW_len ws : BigW ws -> 3 <= len ws.
Proof.
  intros [Hw Hv]. pose proof (Words.value_bounds w w_pos ws Hw) as Hb. pose proof (len_nonneg ws).
  assert (1 < B) by (pose proof (Words.B_ge_2 w w_pos); lia).
  assert (2 < len ws) by (apply (Z.pow_lt_mono_r_iff B); lia). lia.
Qed.

Lemma BigW_mul a b n : BigW a -> BigW b -> n = len a + len b -> BigW (strip (tow w n (value a * value b))).
Proof.
  intros [Wa Va] [Wb Vb] ->. pose proof (Words.value_bounds w w_pos a Wa) as Ba. pose proof (Words.value_bounds w w_pos b Wb) as Bb.
  pose proof (len_nonneg a). pose proof (len_nonneg b).
  assert (0 < B ^ 2) as HB2 by (apply Z.pow_pos_nonneg; [apply (Words.B_pos w w_pos) | lia]).
  assert (1 <= B ^ 2) by lia.
  assert (B ^ 2 <= value a * value b) as Hlo.
  { apply Z.le_trans with (B ^ 2 * 1); [lia|]. apply Z.mul_le_mono_nonneg; lia. }
  assert (value a * value b < B ^ (len a + len b)) as Hhi.
  { rewrite Z.pow_add_r by lia. apply Z.mul_lt_mono_nonneg; lia. }
  split.
  - apply strip_wf. apply (Words.to_words_wf w w_pos).
  - rewrite (strip_value w). unfold tow. rewrite (Words.value_to_words w w_pos); [exact Hlo|].
    rewrite Z2Nat.id by lia. lia.
Qed.

Lemma wp_mul_large_g lhs rhs F m (Q : repr -> mem -> Prop) :
  Own F m -> BigW lhs -> BigW rhs ->
  (forall r m', Own (rblks r ++ F) m' -> ReprInv r -> Big r -> Q r m') -> safe (mul_large_g lhs rhs) m Q.
Proof.
  intros HO Hl Hr HQ. pose proof (BigW_len lhs Hl) as L1. pose proof (BigW_len rhs Hr) as L2.
  unfold mul_large_g. apply safe_bind. apply safe_guard; [apply andb_true_intro; split; apply Z.leb_le; lia|].
  unfold mul_large_nd, gen_mul_large_request. cbv zeta.
  apply safe_bind. eapply (wp_alloc M M_big); [exact HO | lia |]. intros b m1 HO1 E1 E2 HB.
  apply safe_bind. eapply wp_push_repeat; [rewrite E1; lnil; lia|].
  eapply (wp_from_buffer_w w M M_big); [exact HO1 | |].
  - apply BufOK_setws; [apply BufOK_setws; [exact HB|]|]; lens; [rewrite E1; lens|]; lia.
  - cbn [setws bws]. intros r m' HO' HR' Hwords.
    pose proof (BigW_mul lhs rhs (len lhs + len rhs) Hl Hr eq_refl) as HBig. unfold val in *.
    destruct (Hwords (BigW_len _ HBig)) as (b' & -> & Eb). apply HQ; auto. unfold Big. cbn [rwords]. rewrite Eb. exact HBig.
Qed.

Lemma wp_pow_large_loop_g p : forall e base res F m Q,
  Own (rblks res ++ F) m -> ReprInv res -> Big res -> BigW base -> RQ F Q -> safe (pow_large_loop_g p e base res) m Q.
Proof.
  induction p as [|p' IH]; intros e base res F m Q HO HR HB Hbase HQ; cbn [pow_large_loop_g].
  - apply safe_bind. destruct (Z.testbit e _).
    + apply safe_bind. eapply wp_mul_large_g; [exact HO | exact HB | exact Hbase |]. intros r m1 HO1 HR1 _.
      apply safe_bind. eapply wp_repr_drop; [apply Own_swap_app'; exact HO1|]. intros m2 HO2.
      apply safe_ret. apply safe_ret. apply HQ; auto.
    + apply safe_ret. apply safe_ret. apply HQ; auto.
  - apply safe_bind.
    apply (safe_mono _ _ (fun r1 m1 => Own (rblks r1 ++ F) m1 /\ ReprInv r1 /\ Big r1)).
    { destruct (Z.testbit e _).
      + apply safe_bind. eapply wp_mul_large_g; [exact HO | exact HB | exact Hbase |]. intros r m1 HO1 HR1 HB1.
        apply safe_bind. eapply wp_repr_drop; [apply Own_swap_app'; exact HO1|]. intros m2 HO2.
        apply safe_ret. auto.
      + apply safe_ret. auto. }
    intros r1 m1 (HO1 & HR1 & HB1).
    apply safe_bind. eapply wp_mul_large_g; [exact HO1 | exact HB1 | exact HB1 |]. intros r2 m2 HO2 HR2 HB2.
    apply safe_bind. eapply wp_repr_drop; [apply Own_swap_app'; exact HO2|]. intros m3 HO3.
    eapply IH; eauto.
Qed.

(** pow_large_base with the debug assertions of every multiplication: for a normalized base of >= 3 words none fails *)
Theorem wp_pow_large_base_g base e F m Q :
  Own F m -> wf base -> 3 <= len base -> last base 0 <> 0 -> 3 <= e -> RQ F Q -> safe (pow_large_base_g base e) m Q.
Proof.
  intros HO Hw Hl Hlast He HQ. unfold pow_large_base_g.
  assert (BigW base) as Hbase.
  { split; [exact Hw|]. assert (base <> []) as Hne by (intros E; rewrite E in Hl; cbn in Hl; lia).
    pose proof (value_lower w w_big base Hw Hne Hlast) as Hv.
    apply Z.le_trans with (B ^ (len base - 1)); [|exact Hv]. apply Z.pow_le_mono_r; [apply (Words.B_pos w w_pos) | lia]. }
  apply safe_bind. apply safe_guard; [apply Z.ltb_lt; lia|]. cbv zeta.
  assert (2 <= e) as He2 by lia. pose proof (log2_ge_1 _ He2) as Hlg.
  apply safe_bind. apply safe_guard; [apply Z.leb_le; lia|].
  apply safe_bind. eapply wp_mul_large_g; [exact HO | exact Hbase | exact Hbase |]. intros res m1 HO1 HR1 HB1.
  eapply wp_pow_large_loop_g; eauto.
Qed.

End Ops3Pow.

(** non-vacuity (64-bit words): (2^128 + 5)^5 through the guarded loop: the result (11 words, capacity 15) is the only live block *)
Example pow_large_g_example :
  match pow_large_base_g 64 (2 ^ 58) [5; 0; 1] 5 mem0 with
  | Ok (r, m) => nlive m = 1 /\ rcap r = 15 /\ len (rwords r) = 11
  | _ => False
  end.
Proof. vm_compute. repeat split; reflexivity. Qed.
