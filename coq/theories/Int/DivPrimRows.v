(** C02 - the rows of impl_div_primitive_with_ubig! / impl_div_primitive_with_ibig! as REGENERATED from
    div_ops.rs + helper_macros.rs (coq/gen/DivDispatch.v: g_prim_rows, g_prim_types_ubig/ibig) against the
    hand-written model Int/DivPrim.v: same trait set, same components converted back with
    try_into().unwrap(), same type pairing; and what a converted component means for the specification. *)
From Coq Require Import ZArith List Bool Lia.
From Dashu Require Import Base.Prelude Int.DivSpec Int.DivPrim Int.DivMemBase.
From DashuGen Require Import DivDispatch.
Import ListNotations.
Open Scope Z_scope.

(** the model's form for each generated trait implementation (the *Assign twins compute the same values) *)
Definition pform_of_trait (t : prim_trait) : pform :=
  match t with TDiv | TDivAssign => PDiv | TRDiv => PRDiv | TRem => PRem | TDivRem | TDivRemAssign => PDivRem end.
(** which components of the result the model converts to the primitive type *)
Definition pform_flags (k : pform) : list bool :=
  match k with PDiv => [false] | PRem => [true] | PDivRem => [false; true] | PRDiv => [true] end.
Definition pform_big (k : pform) : form := match k with PDiv | PRDiv => FDiv | PRem => FRem | PDivRem => FDivRem end.
Definition bigty_of (g : gbig) : bigty := match g with GU => BU | GI => BI end.

Definition flags_eqb (a b : list bool) : bool :=
  (length a =? length b)%nat && forallb (fun p => Bool.eqb (fst p) (snd p)) (combine a b).
Definition trait_eqb (a b : prim_trait) : bool :=
  match a, b with TDiv, TDiv | TRDiv, TRDiv | TRem, TRem | TDivAssign, TDivAssign | TDivRem, TDivRem | TDivRemAssign, TDivRemAssign => true | _, _ => false end.
Definition gbig_eqb (a b : gbig) : bool := match a, b with GU, GU | GI, GI => true | _, _ => false end.
Definition count_row (g : gbig) (t : prim_trait) : nat :=
  length (filter (fun r => gbig_eqb (fst (fst r)) g && trait_eqb (snd (fst r)) t) g_prim_rows).

Definition prim_rows_ok : bool :=
  (* every generated row converts exactly the components the model converts *)
  forallb (fun r => flags_eqb (snd r) (pform_flags (pform_of_trait (snd (fst r))))) g_prim_rows &&
  (* each big type gets each of the six traits exactly once *)
  forallb (fun g => forallb (fun t => (count_row g t =? 1)%nat) [TDiv; TRDiv; TRem; TDivAssign; TDivRem; TDivRemAssign]) [GU; GI] &&
  (* the type lists are inside the pairing of the model: UBig with unsigned primitives only, IBig with all twelve *)
  forallb (fun st => prim_pairing BU {| p_signed := fst st; p_bits := snd st |}) g_prim_types_ubig &&
  forallb (fun st => prim_pairing BI {| p_signed := fst st; p_bits := snd st |}) g_prim_types_ibig &&
  (length g_prim_types_ubig =? 6)%nat && (length g_prim_types_ibig =? 12)%nat &&
  forallb (fun st => existsb (Z.eqb (snd st)) [8; 16; 32; 64; 128]) (g_prim_types_ubig ++ g_prim_types_ibig).

Lemma prim_rows_consistent : prim_rows_ok = true.
Proof. vm_compute. reflexivity. Qed.

(** the specification in terms of the flags: the operation of the big type, then every flagged component
    must fit the primitive type (otherwise the unwrap panic) *)
Definition flagged_fit (pt : primty) (flags : list bool) (l : list Z) : bool :=
  forallb (fun i => negb (nth i flags false) || in_prim pt (nth i l 0)) (seq 0 (length flags)).
Definition prim_operands (k : pform) (x p : Z) : Z * Z := match k with PRDiv => (p, x) | _ => (x, p) end.

Theorem prim_spec_by_flags : forall k pt x p,
  prim_form_spec k pt x p =
  rbind (form_spec (pform_big k) (fst (prim_operands k x p)) (snd (prim_operands k x p)))
        (fun l => if flagged_fit pt (pform_flags k) l then Ok l else Panic Undocumented).
Proof.
  intros k pt x p. destruct k; cbn [prim_form_spec pform_big prim_operands fst snd pform_flags].
  - destruct (form_spec FDiv x p); reflexivity.
  - destruct (form_spec FRem x p) as [l| | |]; cbn [rbind]; [|reflexivity..].
    unfold flagged_fit. cbn [length seq forallb nth negb orb]. destruct l; cbn [hd nth]; rewrite andb_true_r; reflexivity.
  - destruct (form_spec FDivRem x p) as [l| | |]; cbn [rbind]; [|reflexivity..].
    unfold flagged_fit. cbn [length seq forallb nth negb orb andb]. rewrite andb_true_r. reflexivity.
  - destruct (form_spec FDiv p x) as [l| | |]; cbn [rbind]; [|reflexivity..].
    unfold flagged_fit. cbn [length seq forallb nth negb orb]. destruct l; cbn [hd nth]; rewrite andb_true_r; reflexivity.
Qed.
