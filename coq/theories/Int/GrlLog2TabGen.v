(** The hand-transcribed table of the no_std log2 estimator (GrlLog2Tab.LOG2_TAB, on which
    nostd_log2_u16_encloses is proved for every u8/u16 value) is the table the source contains now
    (DashuGen.Log2Tab, regenerated from base/src/math/log.rs on every run). *)
From Coq Require Import ZArith List.
From Dashu Require Import Int.GrlLog2Tab.
From DashuGen Require Import Log2Tab.
Theorem log2_tab_is_source : LOG2_TAB = LOG2_TAB_gen.
Proof. reflexivity. Qed.
