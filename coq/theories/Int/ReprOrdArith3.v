(** C05, integer part, arithmetic producers, third part (deepening round 4): PROOFS over ReprOrdArith3Model.v.
    gcd / gcd_ext / sqrt / sqrt_rem / nth_root / pow / from_str_radix composed with the full representation return a
    CANONICAL representation of the value the property demands, for every word size the cited development covers:
      gcd, gcd_ext, nth_root (n <> 2), parse: any w >= 8 (even for the parser); pow: any w >= 8 (C01 word level, total);
      sqrt and sqrt_rem: w in {8, 16, 32, 64} (the primitive routines exist for u8 .. u128 only; C12) .
    The value theorems are C12's (Lehmer, Karatsuba square root, Newton, primitive routines), C01's (pow.rs at word
    level) and C07's (word-level parser); what is proved HERE is the dispatch on the typed view, the reduction steps of
    the large / dword gcd forms (Bezout identity of gcd_ext_word / gcd_ext_dword included), the sign handling, and that
    whatever these models return is stored canonically - lifted to all finite histories. *)
From Coq Require Import Znumtheory.
From Dashu Require Import Base.Prelude Base.Words.
From Dashu Require Import Int.RingOps Int.RingSpec Int.RingTop Int.RingTopW Int.RingDispatchProofs.
From Dashu Require Int.RingPowW.
From Dashu Require Import Int.GrlSpec Int.GrlModel Int.GrlLehmer Int.GrlKsqrt Int.GrlPrimRoot.
From Dashu Require Import Int.GrlSpecProof Int.GrlGcdProof Int.GrlRootProof Int.GrlLehmerProof Int.GrlKsqrtProof Int.GrlPrimRootProof.
From Dashu Require Int.IoSpec Int.IoModel Int.IoBigModel Int.IoBig.
From Dashu Require Import Int.DivSpec.
From Dashu Require Import Int.ReprOrdModel Int.ReprOrdProofs Int.ReprOrdArith Int.ReprOrdArith2Model Int.ReprOrdArith2 Int.ReprOrdArith3Model.
Open Scope Z_scope.

Lemma rmap2_ok {A C} (f : A -> C) x r : rmap2 f x = Ok r -> exists a, x = Ok a /\ r = f a.
Proof. destruct x as [a| | |]; cbn [rmap2]; try discriminate. intros E. inversion E. eauto. Qed.

Lemma rbind_ok' {A C} (x : result A) (f : A -> result C) r : rbind x f = Ok r -> exists a, x = Ok a /\ f a = Ok r.
Proof. destruct x as [a| | |]; cbn [rbind]; try discriminate. eauto. Qed.

Section Arith3.
Variable w : Z.
Hypothesis w_ge : 8 <= w.
Let w_pos : 0 < w. Proof. lia. Qed.
Notation B := (Words.B w).
Notation value := (Words.value w).
Notation store_fit := (store_fit w).

Lemma B_pow : B = 2 ^ w. Proof. reflexivity. Qed.
Lemma B_gt1 : 256 <= B.
Proof. rewrite B_pow. change 256 with (2 ^ 8). apply Z.pow_le_mono_r; lia. Qed.

(** reading a canonical representation through the typed view *)
Lemma tmag_ok r : canonical w r ->
  tmag w (as_typed w r) = Z.abs (rvalue w r) /\
  match as_typed w r with RefSmall d => 0 <= d < B * B | RefLarge ws => B * B <= value ws end.
Proof.
  intros C. pose proof (typed_value w w_pos r C) as T. pose proof (slice_value_nonneg w w_pos r C) as N.
  assert (Z.abs (rvalue w r) = value (as_slice r)) as ->.
  { unfold rvalue, signed. destruct (rsign r); cbn [sgnz]; lia. }
  destruct (as_typed w r) as [d|ws]; cbn [tmag]; destruct T as [E R]; split; try exact R; [exact E | rewrite E; reflexivity].
Qed.

Lemma sgnz_sq s : sgnz s * sgnz s = 1. Proof. destruct s; reflexivity. Qed.

Lemma signed_mul_rvalue r x : canonical w r -> signed (rsign r) x * rvalue w r = x * Z.abs (rvalue w r).
Proof.
  intros C. rewrite <- (signed_abs_rvalue w w_ge r C) at 1. unfold signed.
  transitivity ((sgnz (rsign r) * sgnz (rsign r)) * (x * Z.abs (rvalue w r))); [ring|]. rewrite sgnz_sq. ring.
Qed.

(* ---------------------------------------------------------------- gcd *)

Lemma gcd_spec_ok_eq a b g : gcd_spec a b = Ok g -> g = Z.gcd a b.
Proof. unfold gcd_spec. destruct ((a =? 0) && (b =? 0)); [discriminate|]. intros E. inversion E. reflexivity. Qed.

Lemma gcd_reduce big rhs : rhs <> 0 -> Z.gcd (big mod rhs) rhs = Z.gcd big rhs.
Proof. intros H. rewrite Z.gcd_mod by exact H. apply Z.gcd_comm. Qed.

Lemma gcd_large_dword_val_ok fuel big rhs g : 0 <= big -> 0 <= rhs ->
  gcd_large_dword_val w fuel big rhs = Ok g -> g = Z.gcd big rhs.
Proof.
  intros Hb Hr. unfold gcd_large_dword_val. destruct (Z.eqb_spec rhs 0) as [->|NZ].
  - intros E. inversion E. rewrite Z.gcd_0_r. lia.
  - destruct (Z.eqb_spec (big mod rhs) 0) as [E0|NE].
    + intros E. inversion E. subst g. rewrite <- (gcd_reduce big rhs NZ), E0, Z.gcd_0_l. lia.
    + intros E. apply prim_gcd_asis_correct in E; [|apply Z.mod_pos_bound; lia | exact Hr].
      rewrite (gcd_spec_ok_eq _ _ _ E). apply gcd_reduce. exact NZ.
Qed.

Lemma gcd_val_ok fuel a b g : canonical w a -> canonical w b ->
  gcd_val w fuel (as_typed w a) (as_typed w b) = Ok g -> g = Z.gcd (rvalue w a) (rvalue w b).
Proof.
  intros Ca Cb. destruct (tmag_ok a Ca) as [Ma Ra]. destruct (tmag_ok b Cb) as [Mb Rb].
  rewrite <- Z.gcd_abs_l, <- Z.gcd_abs_r, <- Ma, <- Mb.
  pose proof B_gt1 as HB.
  destruct (as_typed w a) as [d0|ws0], (as_typed w b) as [d1|ws1]; cbn [gcd_val tmag] in *; intros E.
  - apply prim_gcd_asis_correct in E; [|lia|lia]. apply gcd_spec_ok_eq. exact E.
  - rewrite Z.gcd_comm. apply (gcd_large_dword_val_ok fuel); [nia | lia | exact E].
  - apply (gcd_large_dword_val_ok fuel); [nia | lia | exact E].
  - apply (lehmer_gcd_asis_correct fuel w); [lia | nia | nia | exact E].
Qed.

Theorem repr_gcd_ok fuel c a b r : canonical w a -> canonical w b -> repr_gcd w fuel c a b = Ok r ->
  canonical w r /\ rvalue w r = Z.gcd (rvalue w a) (rvalue w b).
Proof.
  intros Ca Cb E. unfold repr_gcd in E. apply rmap2_ok in E. destruct E as (g & E & ->).
  destruct (store_fit_ok w w_ge c g) as [C V]. split; [exact C|]. rewrite V. apply (gcd_val_ok fuel); assumption.
Qed.

(** the only documented panic of the inline form: gcd(0, 0) *)
Theorem repr_gcd_small_panics fuel c a b p : canonical w a -> canonical w b ->
  Z.abs (rvalue w a) < B * B -> Z.abs (rvalue w b) < B * B ->
  repr_gcd w fuel c a b = Panic p -> rvalue w a = 0 /\ rvalue w b = 0 /\ p = GcdZeroZero.
Proof.
  intros Ca Cb La Lb E. destruct (tmag_ok a Ca) as [Ma Ra]. destruct (tmag_ok b Cb) as [Mb Rb].
  unfold repr_gcd in E.
  destruct (as_typed w a) as [d0|ws0], (as_typed w b) as [d1|ws1]; cbn [tmag] in *; try lia.
  cbn [gcd_val] in E. destruct (prim_gcd_asis fuel (2 * w) d0 d1) as [g|q|e|] eqn:P; cbn [rmap2] in E; try discriminate.
  inversion E. subst q. apply prim_gcd_asis_panics in P. unfold gcd_spec in P.
  destruct (Z.eqb_spec d0 0), (Z.eqb_spec d1 0); cbn [andb] in P; try discriminate. inversion P. repeat split; lia.
Qed.

(* ---------------------------------------------------------------- gcd_ext *)

(** gcd_ext_word / gcd_ext_dword: the Bezout identity of the rebuilt cofactor |b| = q |t| + |s| *)
Lemma gcd_ext_small_val_ok fuel big rhs g s t : 0 <= big -> 0 <= rhs ->
  gcd_ext_small_val fuel big rhs = Ok (g, s, t) -> g = Z.gcd big rhs /\ s * big + t * rhs = g.
Proof.
  intros Hb Hr. unfold gcd_ext_small_val. destruct (Z.eqb_spec rhs 0) as [->|NZ].
  - intros E. injection E as <- <- <-. rewrite Z.gcd_0_r. split; lia.
  - destruct (Z.eqb_spec (big mod rhs) 0) as [E0|NE].
    + intros E. injection E as <- <- <-. split; [|lia]. rewrite <- (gcd_reduce big rhs NZ), E0, Z.gcd_0_l. lia.
    + intros E. apply rbind_ok' in E. destruct E as ([[r0 s0] t0] & P & E). injection E as <- <- <-.
      assert (0 <= big mod rhs) as Hm by (apply Z.mod_pos_bound; lia).
      pose proof (prim_gcd_ext_signs fuel _ _ _ _ _ Hr Hm P) as ST.
      apply prim_gcd_ext_asis_correct in P; [|exact Hr|exact Hm].
      apply gcd_ext_cert_complete in P. destruct P as [G Bz].
      split; [rewrite G, Z.gcd_comm; apply gcd_reduce; exact NZ|].
      pose proof (Z.div_mod big rhs NZ) as DM. set (q := big / rhs) in *. set (m := big mod rhs) in *.
      (* r0 = s0 * rhs + t0 * m, m = big - rhs * q: r0 = t0 * big + (s0 - t0 * q) * rhs *)
      assert (signed (if Z.abs s0 =? 0 then sign_neg (sign_of t0) else sign_of s0) (q * Z.abs t0 + Z.abs s0) = s0 - t0 * q) as ->.
      { unfold signed, sign_of. destruct (Z.eqb_spec (Z.abs s0) 0) as [Z0|NZ0].
        - assert (s0 = 0) by lia. subst s0. change (Z.abs 0) with 0. destruct (Z.ltb_spec t0 0); cbn [sign_neg sgnz].
          + rewrite Z.abs_neq by lia. ring.
          + rewrite Z.abs_eq by lia. ring.
        - destruct (Z.ltb_spec s0 0); cbn [sgnz].
          + assert (0 <= t0) by (destruct (Z.le_gt_cases 0 t0); [assumption|]; assert (0 < s0 * t0) by (apply Z.mul_neg_neg; lia); lia).
            rewrite (Z.abs_eq t0), (Z.abs_neq s0) by lia. ring.
          + assert (t0 <= 0) by (destruct (Z.le_gt_cases t0 0); [assumption|]; assert (0 < s0 * t0) by (apply Z.mul_pos_pos; lia); lia).
            rewrite (Z.abs_neq t0), (Z.abs_eq s0) by lia. ring. }
      rewrite <- Bz. replace big with (rhs * q + m) at 1 by lia. ring.
Qed.

Lemma gcd_ext_val_ok fuel a b g s t : canonical w a -> canonical w b ->
  gcd_ext_val w fuel (as_typed w a) (as_typed w b) = Ok (g, s, t) ->
  g = Z.gcd (rvalue w a) (rvalue w b) /\ s * Z.abs (rvalue w a) + t * Z.abs (rvalue w b) = g.
Proof.
  intros Ca Cb. destruct (tmag_ok a Ca) as [Ma Ra]. destruct (tmag_ok b Cb) as [Mb Rb].
  rewrite <- Z.gcd_abs_l, <- Z.gcd_abs_r, <- Ma, <- Mb. pose proof B_gt1 as HB.
  destruct (as_typed w a) as [d0|ws0], (as_typed w b) as [d1|ws1]; cbn [gcd_ext_val tmag] in *; intros E.
  - apply prim_gcd_ext_asis_correct in E; [|lia|lia]. apply gcd_ext_cert_complete in E. exact E.
  - apply rbind_ok' in E. destruct E as ([[g0 s0] t0] & P & E). inversion E. subst. clear E.
    apply gcd_ext_small_val_ok in P; [|nia|lia]. destruct P as [G Bz]. split; [rewrite Z.gcd_comm; exact G | lia].
  - apply gcd_ext_small_val_ok in E; [exact E | nia | lia].
  - apply lehmer_gcd_ext_asis_correct in E; [|lia|nia|nia]. apply gcd_ext_cert_complete in E. exact E.
Qed.

Theorem repr_gcd_ext_ok fuel c a b rs : canonical w a -> canonical w b -> repr_gcd_ext w fuel c a b = Ok rs ->
  exists g s t, rs = [g; s; t] /\ canonical w g /\ canonical w s /\ canonical w t /\
    rvalue w g = Z.gcd (rvalue w a) (rvalue w b) /\
    rvalue w s * rvalue w a + rvalue w t * rvalue w b = rvalue w g.
Proof.
  intros Ca Cb E. unfold repr_gcd_ext in E. apply rmap2_ok in E. destruct E as ([[g s] t] & E & ->).
  destruct (gcd_ext_val_ok fuel a b g s t Ca Cb E) as [G Bz].
  destruct (store_fit_ok w w_ge c g) as [C1 V1].
  destruct (store_fit_ok w w_ge c (signed (rsign a) s)) as [C2 V2].
  destruct (store_fit_ok w w_ge c (signed (rsign b) t)) as [C3 V3].
  do 3 eexists. split; [reflexivity|]. repeat (split; [assumption|]).
  rewrite V1, V2, V3. split; [exact G|]. rewrite !signed_mul_rvalue by assumption. exact Bz.
Qed.

(* ---------------------------------------------------------------- roots *)

Section Sqrt.
Hypothesis w_prim : w = 8 \/ w = 16 \/ w = 32 \/ w = 64.
Let w_even : w mod 2 = 0. Proof. destruct w_prim as [->|[->|[->| ->]]]; reflexivity. Qed.

Lemma sqrt_rem_val_ok fuel a sr : canonical w a -> sqrt_rem_val w fuel (as_typed w a) = Ok sr ->
  sr = sqrt_rem_spec (Z.abs (rvalue w a)).
Proof.
  intros Ca. destruct (tmag_ok a Ca) as [Ma Ra]. rewrite <- Ma.
  destruct (as_typed w a) as [d|ws]; cbn [sqrt_rem_val tmag] in *; intros E.
  - destruct (Z.ltb_spec d B) as [L|L].
    + apply (prim_sqrt_rem_asis_sound_all fuel w); [tauto | rewrite <- B_pow; lia | exact E].
    + apply (prim_sqrt_rem_asis_sound_all fuel (2 * w)); [lia | | exact E].
      replace (2 ^ (2 * w)) with (B * B) by (rewrite B_pow, <- Z.pow_add_r by lia; f_equal; lia). lia.
  - rewrite (sqrt_rem_large_asis_correct w ltac:(lia) w_even (value ws)) in E.
    + inversion E. reflexivity.
    + rewrite Z.pow_2_r. exact Ra.
Qed.

Theorem repr_sqrt_ok fuel c a : canonical w a ->
  match rsign a with
  | Negative => repr_sqrt w fuel c a = Panic RootNegative
  | Positive => forall r, repr_sqrt w fuel c a = Ok r -> canonical w r /\ rvalue w r = Z.sqrt (rvalue w a)
  end.
Proof.
  intros Ca. pose proof (rvalue_sign w w_pos a Ca) as S. unfold repr_sqrt. destruct (rsign a); [|reflexivity].
  intros r E. apply rmap2_ok in E. destruct E as (sr & E & ->).
  rewrite (sqrt_rem_val_ok fuel a sr Ca E). cbn [sqrt_rem_spec fst].
  destruct (store_fit_ok w w_ge c (Z.sqrt (Z.abs (rvalue w a)))) as [C V]. split; [exact C|]. rewrite V, Z.abs_eq by exact S. reflexivity.
Qed.

Theorem repr_sqrt_rem_ok fuel c a rs : canonical w a -> repr_sqrt_rem w fuel c a = Ok rs ->
  exists s r, rs = [s; r] /\ canonical w s /\ canonical w r /\
    rvalue w s = Z.sqrt (Z.abs (rvalue w a)) /\ rvalue w r = Z.abs (rvalue w a) - rvalue w s * rvalue w s.
Proof.
  intros Ca E. unfold repr_sqrt_rem in E. apply rmap2_ok in E. destruct E as (sr & E & ->).
  rewrite (sqrt_rem_val_ok fuel a sr Ca E). cbn [sqrt_rem_spec fst snd].
  set (x := Z.abs (rvalue w a)).
  destruct (store_fit_ok w w_ge c (Z.sqrt x)) as [C1 V1]. destruct (store_fit_ok w w_ge c (x - Z.sqrt x * Z.sqrt x)) as [C2 V2].
  do 2 eexists. split; [reflexivity|]. repeat (split; [assumption|]). rewrite V2, V1. reflexivity.
Qed.

(** nth_root for every n >= 1 (n = 2 runs the square root code) *)
Lemma nth_root_val_ok fuel a n r : canonical w a -> 0 < n ->
  nth_root_val w fuel (as_typed w a) n = Ok r -> root_cert n (Z.abs (rvalue w a)) r = true.
Proof.
  intros Ca Hn. destruct (tmag_ok a Ca) as [Ma _]. unfold nth_root_val. destruct (Z.eqb_spec n 2) as [->|N2].
  - intros E. apply rmap2_ok in E. destruct E as (sr & E & ->). rewrite (sqrt_rem_val_ok fuel a sr Ca E).
    cbn [sqrt_rem_spec fst]. set (x := Z.abs (rvalue w a)). assert (0 <= x) as Hx by (unfold x; lia).
    pose proof (Z.sqrt_spec x Hx) as S. pose proof (Z.sqrt_nonneg x). unfold root_cert.
    rewrite !Z.pow_2_r. unfold Z.succ in S.
    apply andb_true_intro. split; [apply andb_true_intro; split|]; [apply Z.leb_le | apply Z.leb_le | apply Z.ltb_lt]; lia.
  - rewrite Ma. intros E. apply (nth_root_asis_correct fuel); [lia | exact Hn | exact E].
Qed.

Theorem repr_nth_root_ok fuel c a n r : canonical w a -> 0 < n -> repr_nth_root w fuel c a n = Ok r ->
  canonical w r /\ iroot_cert n (rvalue w a) (rvalue w r) = true.
Proof.
  intros Ca Hn. pose proof (rvalue_sign w w_pos a Ca) as S. unfold repr_nth_root.
  destruct (Z.eqb_spec n 0); [lia|]. destruct (rsign a).
  - intros E. apply rmap2_ok in E. destruct E as (v & E & ->). pose proof (nth_root_val_ok fuel a n v Ca Hn E) as K.
    destruct (store_fit_ok w w_ge c v) as [C V]. split; [exact C|]. rewrite V.
    pose proof (root_cert_meaning _ _ _ K) as [V0 _]. unfold iroot_cert. rewrite (Z.abs_eq v) by exact V0. rewrite K. cbn [andb].
    apply Z.eqb_eq. destruct (Z.eq_dec (rvalue w a) 0) as [E0|NE0].
    + rewrite E0 in *. cbn [Z.sgn Z.abs] in *. unfold root_cert in K. apply andb_prop in K. destruct K as [K _]. apply andb_prop in K.
      destruct K as [_ K]. apply Z.leb_le in K.
      destruct (Z.eq_dec v 0) as [->|NV]; [reflexivity|]. assert (0 < v ^ n) by (apply Z.pow_pos_nonneg; lia). lia.
    + rewrite Z.sgn_pos by lia. lia.
  - destruct (Z.even n); [discriminate|]. intros E. apply rmap2_ok in E. destruct E as (v & E & ->).
    pose proof (nth_root_val_ok fuel a n v Ca Hn E) as K.
    destruct (store_fit_ok w w_ge c (- v)) as [C V]. split; [exact C|]. rewrite V.
    pose proof (root_cert_meaning _ _ _ K) as [V0 _]. unfold iroot_cert. rewrite Z.abs_opp, (Z.abs_eq v) by exact V0. rewrite K. cbn [andb].
    apply Z.eqb_eq. rewrite Z.sgn_neg by lia. lia.
Qed.

End Sqrt.

(** nth_root for n <> 2 needs no primitive routine: any word size *)
Theorem repr_nth_root_ok_any fuel c a n r : canonical w a -> 0 < n -> n <> 2 -> repr_nth_root w fuel c a n = Ok r ->
  canonical w r /\ iroot_cert n (rvalue w a) (rvalue w r) = true.
Proof.
  intros Ca Hn N2. pose proof (rvalue_sign w w_pos a Ca) as S. destruct (tmag_ok a Ca) as [Ma _]. unfold repr_nth_root, nth_root_val.
  destruct (Z.eqb_spec n 0); [lia|]. destruct (Z.eqb_spec n 2); [lia|]. rewrite Ma.
  assert (K0 : forall v, nth_root_asis fuel (Z.abs (rvalue w a)) n = Ok v -> root_cert n (Z.abs (rvalue w a)) v = true).
  { intros v E. apply (nth_root_asis_correct fuel); [lia | exact Hn | exact E]. }
  destruct (rsign a).
  - intros E. apply rmap2_ok in E. destruct E as (v & E & ->). pose proof (K0 v E) as K.
    destruct (store_fit_ok w w_ge c v) as [C V]. split; [exact C|]. rewrite V.
    pose proof (root_cert_meaning _ _ _ K) as [V0 _]. unfold iroot_cert. rewrite (Z.abs_eq v) by exact V0. rewrite K. cbn [andb].
    apply Z.eqb_eq. destruct (Z.eq_dec (rvalue w a) 0) as [E0|NE0].
    + rewrite E0 in *. cbn [Z.sgn Z.abs] in *. unfold root_cert in K. apply andb_prop in K. destruct K as [K _]. apply andb_prop in K.
      destruct K as [_ K]. apply Z.leb_le in K.
      destruct (Z.eq_dec v 0) as [->|NV]; [reflexivity|]. assert (0 < v ^ n) by (apply Z.pow_pos_nonneg; lia). lia.
    + rewrite Z.sgn_pos by lia. lia.
  - destruct (Z.even n); [discriminate|]. intros E. apply rmap2_ok in E. destruct E as (v & E & ->). pose proof (K0 v E) as K.
    destruct (store_fit_ok w w_ge c (- v)) as [C V]. split; [exact C|]. rewrite V.
    pose proof (root_cert_meaning _ _ _ K) as [V0 _]. unfold iroot_cert. rewrite Z.abs_opp, (Z.abs_eq v) by exact V0. rewrite K. cbn [andb].
    apply Z.eqb_eq. rewrite Z.sgn_neg by lia. lia.
Qed.

Theorem repr_nth_root_panics fuel c a : canonical w a ->
  repr_nth_root w fuel c a 0 = Panic RootZeroth /\
  (forall n, n <> 0 -> rvalue w a < 0 -> Z.even n = true -> repr_nth_root w fuel c a n = Panic RootNegative).
Proof.
  intros Ca. split; [reflexivity|]. intros n Hn Neg Ev. pose proof (rvalue_sign w w_pos a Ca) as S. unfold repr_nth_root.
  destruct (Z.eqb_spec n 0); [lia|]. destruct (rsign a); [lia|]. rewrite Ev. reflexivity.
Qed.

(* ---------------------------------------------------------------- pow *)

Lemma to_t3_eq r : to_t3 w r = to_t w r. Proof. reflexivity. Qed.
Lemma of_mag3_eq c s t : of_mag3 w c s t = of_mag w c s (of_t t). Proof. destruct t; reflexivity. Qed.
Lemma thr_eq : thr_simple = src_T_simple /\ thr_kara = src_T_kara /\ thr_chunk = src_CHUNK /\ thr_sqr = src_SQR.
Proof. repeat split. Qed.

(** total: pow.rs at word level never fails, and the result is the power *)
Theorem repr_ipow_ok cap c a e : canonical w a -> 0 <= e ->
  exists r, repr_ipow w cap c a e = Ok r /\ canonical w r /\ rvalue w r = rvalue w a ^ e.
Proof.
  intros Ca He. destruct (to_t_ok w w_ge a Ca) as [Ta Va]. unfold repr_ipow. rewrite to_t3_eq.
  destruct thr_eq as (-> & -> & -> & ->).
  destruct (ibig_pow_w_exact w w_ge d21 (fun d x _ _ => eq_refl) cap (rsign a) (to_t w a) e Ta He) as ([s t] & E & V & T).
  rewrite E. cbn [rmap2 fst snd] in *. rewrite of_mag3_eq.
  destruct (twf_mag_ok w t T) as [M Et]. destruct (of_mag_ok w w_ge c s (of_t t) M) as [C V'].
  eexists. split; [reflexivity|]. split; [exact C|]. rewrite V', Et. unfold srepr_value in V. cbn [fst snd] in V.
  rewrite V. unfold pow_spec. rewrite Va, (signed_abs_rvalue w w_ge a Ca). reflexivity.
Qed.

(* ---------------------------------------------------------------- from_str_radix *)

Theorem parse_val_is_spec sg r s : w mod 2 = 0 -> parse_val w sg r s = IoSpec.from_str_radix_spec sg r s.
Proof.
  intros We. unfold parse_val, IoSpec.from_str_radix_spec, IoSpec.from_str_radix_gen.
  destruct (IoSpec.radix_valid r) eqn:RV; [|reflexivity].
  unfold IoSpec.radix_valid in RV. apply andb_prop in RV. destruct RV as [R1 R2]. apply Z.leb_le in R1. apply Z.leb_le in R2.
  destruct (IoSpec.strip_sign sg s) as [sg0 b0].
  rewrite (IoBig.body_words_asis_correct w r b0) ; [reflexivity | exact w_ge | exact We | exact R1 |].
  unfold IoModel.Bw. pose proof B_gt1. rewrite <- B_pow. lia.
Qed.

Theorem repr_parse_ok sg c r s x : w mod 2 = 0 -> repr_parse w sg c r s = Ok x ->
  canonical w x /\ IoSpec.from_str_radix_spec sg r s = Ok (rvalue w x).
Proof.
  intros We E. unfold repr_parse in E. apply rmap2_ok in E. destruct E as (v & E & ->).
  destruct (store_fit_ok w w_ge c v) as [C V]. split; [exact C|]. rewrite V, <- (parse_val_is_spec sg r s We). exact E.
Qed.

(* ---------------------------------------------------------------- histories over every producer *)

Inductive aop3 :=
| A2 (o : aop2)                                   (* every step of ReprOrdArith2.v / ReprOrdArith.v *)
| AGcd (fuel : nat) (c : Z) (i j : nat)
| AGcdExt (fuel : nat) (c : Z) (i j : nat)         (* pushes g, s, t *)
| ASqrt (fuel : nat) (c : Z) (i : nat)
| ASqrtRem (fuel : nat) (c : Z) (i : nat)          (* pushes root and remainder *)
| ANthRoot (fuel : nat) (c : Z) (i : nat) (n : Z)
| APow (cap : bool) (c : Z) (i : nat) (e : Z)
| AParse (sg : bool) (c r : Z) (s : list Z).       (* a panic / error / missing fuel leaves the pool unchanged *)

Definition aop3_ok (o : aop3) : Prop :=
  match o with A2 a => aop2_ok w a | APow _ _ _ e => 0 <= e | _ => True end.

Definition pushl (p : list repr) (x : result (list repr)) : list repr := match x with Ok rs => p ++ rs | _ => p end.

Definition astep3 (p : list repr) (o : aop3) : list repr :=
  let g := pool_get p in
  match o with
  | A2 a => astep2 w p a
  | AGcd f c i j => push p (repr_gcd w f c (g i) (g j))
  | AGcdExt f c i j => pushl p (repr_gcd_ext w f c (g i) (g j))
  | ASqrt f c i => push p (repr_sqrt w f c (g i))
  | ASqrtRem f c i => pushl p (repr_sqrt_rem w f c (g i))
  | ANthRoot f c i n => push p (repr_nth_root w f c (g i) n)
  | APow cap c i e => push p (repr_ipow w cap c (g i) e)
  | AParse sg c r s => push p (repr_parse w sg c r s)
  end.

Definition arun3 (p : list repr) (os : list aop3) : list repr := fold_left astep3 os p.

(** canonicity does not depend on what the value-level models compute: whatever they return is stored through
    from_buffer / from_typed + with_sign *)
Lemma rmap2_store_canonical {A} c (f : A -> Z) x r : rmap2 (fun a => store_fit c (f a)) x = Ok r -> canonical w r.
Proof. intros E. apply rmap2_ok in E. destruct E as (a & _ & ->). apply (store_fit_ok w w_ge). Qed.

Lemma astep3_canonical p o : Forall (canonical w) p -> aop3_ok o -> Forall (canonical w) (astep3 p o).
Proof.
  intros Hp Ho.
  assert (G : forall i, canonical w (pool_get p i)) by (intro i; apply (pool_get_canonical w w_pos); exact Hp).
  destruct o as [a|f c i j|f c i j|f c i|f c i|f c i n|cap c i e|sg c r s]; cbn [astep3 aop3_ok] in *.
  - apply (astep2_canonical w w_ge); assumption.
  - apply (push_canonical w); [exact Hp|]. intros r E. unfold repr_gcd in E. apply (rmap2_store_canonical c (fun v => v) _ _ E).
  - unfold pushl, repr_gcd_ext. destruct (gcd_ext_val w f _ _) as [[[g s] t]| | |]; cbn [rmap2]; try exact Hp.
    apply Forall_app. split; [exact Hp|]. repeat constructor; apply (store_fit_ok w w_ge).
  - apply (push_canonical w); [exact Hp|]. intros r E. unfold repr_sqrt in E. destruct (rsign (pool_get p i)); [|discriminate].
    apply (rmap2_store_canonical c fst _ _ E).
  - unfold pushl, repr_sqrt_rem. destruct (sqrt_rem_val w f _) as [sr| | |]; cbn [rmap2]; try exact Hp.
    apply Forall_app. split; [exact Hp|]. repeat constructor; apply (store_fit_ok w w_ge).
  - apply (push_canonical w); [exact Hp|]. intros r E. unfold repr_nth_root in E.
    destruct (n =? 0); [discriminate|]. destruct (rsign (pool_get p i)).
    + apply (rmap2_store_canonical c (fun v => v) _ _ E).
    + destruct (Z.even n); [discriminate|]. apply (rmap2_store_canonical c (fun v => - v) _ _ E).
  - apply (push_canonical w); [exact Hp|]. intros r E.
    destruct (repr_ipow_ok cap c _ e (G i) Ho) as (r' & E' & C & _). rewrite E in E'. inversion E'. subst. exact C.
  - apply (push_canonical w); [exact Hp|]. intros x E. unfold repr_parse in E. apply (rmap2_store_canonical c (fun v => v) _ _ E).
Qed.

Theorem arun3_canonical os : forall p, Forall (canonical w) p -> Forall aop3_ok os -> Forall (canonical w) (arun3 p os).
Proof.
  induction os as [|o os IH]; intros p Hp Ho; [exact Hp|].
  inversion Ho; subst. cbn [arun3 fold_left]. apply IH; [|assumption]. apply astep3_canonical; assumption.
Qed.

(** whatever finite sequence of constructors, copies, sign changes, in-place updates, + - * sqr cubic, / % in all
    forms, & | ^ ! << >>, gcd, gcd_ext, sqrt, sqrt_rem, nth_root, pow and radix parsing produced the values:
    ==, cmp, abs_cmp, abs_eq and the hasher input follow the value *)
Theorem producer_history_values_compare os a b : Forall aop3_ok os ->
  In a (arun3 [] os) -> In b (arun3 [] os) ->
  (repr_eq a b = true <-> rvalue w a = rvalue w b) /\
  ibig_cmp w a b = (rvalue w a ?= rvalue w b) /\
  (ibig_cmp w a b = Eq <-> repr_eq a b = true) /\
  (rvalue w a = rvalue w b -> hash_input a = hash_input b) /\
  (abs_eq a b = true <-> Z.abs (rvalue w a) = Z.abs (rvalue w b)) /\
  abs_cmp w a b = (Z.abs (rvalue w a) ?= Z.abs (rvalue w b)).
Proof.
  intros Ho Ia Ib. pose proof (arun3_canonical os [] (Forall_nil _) Ho) as F. rewrite Forall_forall in F.
  pose proof (F a Ia) as Ca. pose proof (F b Ib) as Cb.
  split; [apply (repr_eq_correct w w_pos); assumption|].
  split; [apply (ibig_cmp_correct w w_pos); assumption|].
  split; [apply (cmp_eq_iff_eq w w_pos); assumption|].
  split; [apply (hash_input_eq w w_pos); assumption|].
  split; [apply (abs_eq_correct w w_pos); assumption|].
  apply (abs_cmp_correct w w_pos); assumption.
Qed.

End Arith3.

(** non-vacuity on 64-bit words: 2^130 reached as a power, as a parsed text, as gcd(2^130 * 3, 2^131), as the square root
    of 2^260 and as the cube root of 2^390; the Bezout cofactors of gcd_ext(2^130 + 1, 2^70) and the remainder of a
    square root: all canonical, equal values equal *)
Example producer_history_example :
  let fuel := 2000%nat in
  let os := [A2 (A1 (ABase (HFromWord 2)));                           (* 0: 2 *)
             APow false 0 0 130;                                      (* 1: 2^130 *)
             AParse false 0 16 (52 :: repeat 48 32);                  (* 2: "4" ++ 32 zeros in radix 16 = 2^130 *)
             A2 (A1 (ABase (HFromWord 3))); A2 (A1 (AMul 0 1 3));     (* 3: 3   4: 3 * 2^130 *)
             APow true 7 0 131;                                       (* 5: 2^131 *)
             AGcd fuel 0 4 5;                                         (* 6: 2^130 *)
             APow false 0 0 260; ASqrt fuel 0 7;                      (* 7: 2^260  8: 2^130 *)
             APow false 0 0 390; ANthRoot fuel 0 9 3;                 (* 9: 2^390  10: 2^130 *)
             ASqrtRem fuel 0 4;                                       (* 11, 12: isqrt(3 * 2^130) and the remainder *)
             AGcdExt fuel 0 1 3] in                                   (* 13, 14, 15: 1 = s * 2^130 + t * 3 *)
  Forall (aop3_ok 64) os /\
  let p := arun3 64 [] os in
  length p = 16%nat /\
  map (rvalue 64) [nth 1 p (from_word 0); nth 2 p (from_word 0); nth 6 p (from_word 0); nth 8 p (from_word 0); nth 10 p (from_word 0)]
    = [2 ^ 130; 2 ^ 130; 2 ^ 130; 2 ^ 130; 2 ^ 130] /\
  rvalue 64 (nth 11 p (from_word 0)) = Z.sqrt (3 * 2 ^ 130) /\
  rvalue 64 (nth 14 p (from_word 0)) * 2 ^ 130 + rvalue 64 (nth 15 p (from_word 0)) * 3 = 1 /\
  forallb (canonicalb 64) p = true /\
  repr_eq (nth 1 p (from_word 0)) (nth 10 p (from_word 0)) = true.
Proof.
  cbv zeta. split; [repeat constructor; cbn; lia|]. vm_compute. repeat split.
Qed.
