(** C09 (round 3): the tie between the word-level kernels of Int/BitsKernels.v and C17's storage machine
    (Int/StorageModel.v).  The machine follows every Buffer::allocate / push / push_zeros(_front) /
    ensure_capacity / from_buffer of shift_ops.rs and bits.rs with the capacity assertions as guards and is
    proved never to trip one (C17_shl, C17_set_bit); its word contents enter at value level.  Here: whenever
    the machine returns a Repr, the typed view of that Repr is WORD FOR WORD the result of the C09 kernel
    (<<, by value in place or copied, by reference; set_bit) - so the capacity discipline proved there is the
    capacity discipline of the kernels proved here. *)
From Dashu Require Import Base.Prelude Base.Words Int.BitsSpec Int.BitsWords Int.BitsKernels Int.BitsKernelsBase
  Int.BitsLogicProofs Int.BitsShiftProofs Int.BitsMiscProofs Int.BitsCountProofs Int.BitsForms Int.BitsFormsProofs.
From Dashu Require Int.StorageModel.
Module SM := Dashu.Int.StorageModel.
Open Scope Z_scope.

Section Tie.
Variable w : Z.
Variable M : Z.
Hypothesis w_pos : 0 < w.
Notation B := (B w).
Notation value := (value w).
Notation wf := (wf w).

(** the typed view of a machine Repr / of an operand *)
Definition brepr_of_repr (r : SM.repr) : brepr :=
  match r with SM.RInline _ lo hi _ => BSmall (lo + B * hi) | SM.RHeap _ b => BLarge (SM.bws b) end.
Definition brepr_of_targ (a : SM.targ) : brepr :=
  match a with
  | SM.TSmall d | SM.TRefSmall d => BSmall d
  | SM.TLarge b => BLarge (SM.bws b)
  | SM.TRefLarge ws => BLarge ws
  end.
Definition targ_is_ref (a : SM.targ) : bool :=
  match a with SM.TRefSmall _ | SM.TRefLarge _ => true | _ => false end.

(* ------------------------------------------------------------------ the monad, inverted *)
Lemma bind_ok {A C} (c : SM.M_ A) (f : A -> SM.M_ C) m b m2 :
  SM.bind c f m = Ok (b, m2) -> exists a m1, c m = Ok (a, m1) /\ f a m1 = Ok (b, m2).
Proof. unfold SM.bind. destruct (c m) as [[a m1]| | |]; try discriminate. eauto. Qed.

Lemma guard_ok k c m u m' : SM.guard k c m = Ok (u, m') -> c = true.
Proof. unfold SM.guard. destruct c; [reflexivity | discriminate]. Qed.

Ltac minv :=
  repeat match goal with
  | H : SM.bind _ _ _ = Ok _ |- _ => apply bind_ok in H; destruct H as (? & ? & ? & H)
  | H : SM.ret _ _ = Ok _ |- _ => unfold SM.ret in H; inversion H; subst; clear H
  | H : SM.guard _ _ _ = Ok _ |- _ => apply guard_ok in H
  | H : SM.throw _ _ = Ok _ |- _ => discriminate H
  | H : SM.bad _ _ = Ok _ |- _ => discriminate H
  end.

(** contents of a buffer after each primitive (capacities and addresses are the machine's business) *)
Lemma allocate_bws n m b m' : SM.allocate M n m = Ok (b, m') -> SM.bws b = [].
Proof.
  unfold SM.allocate, SM.default_capacity_chk, SM.allocate_exact. intros H. minv.
  destruct (_ >? M); minv. reflexivity.
Qed.

Lemma push_bws b x m b' m' : SM.push b x m = Ok (b', m') -> SM.bws b' = SM.bws b ++ [x].
Proof. unfold SM.push. intros H. minv. reflexivity. Qed.
Lemma push_repeat_bws b x n m b' m' : SM.push_repeat b x n m = Ok (b', m') -> SM.bws b' = SM.bws b ++ repeat x (Z.to_nat n).
Proof. unfold SM.push_repeat. intros H. minv. reflexivity. Qed.
Lemma push_zeros_front_bws b n m b' m' : SM.push_zeros_front b n m = Ok (b', m') -> SM.bws b' = repeat 0 (Z.to_nat n) ++ SM.bws b.
Proof. unfold SM.push_zeros_front. intros H. minv. reflexivity. Qed.
Lemma push_slice_bws b xs m b' m' : SM.push_slice b xs m = Ok (b', m') -> SM.bws b' = SM.bws b ++ xs.
Proof. unfold SM.push_slice. intros H. minv. reflexivity. Qed.

Lemma reallocate_bws b n m b' m' : SM.reallocate M b n m = Ok (b', m') -> SM.bws b' = SM.bws b.
Proof.
  unfold SM.reallocate, SM.default_capacity_chk, SM.reallocate_raw. intros H. minv. reflexivity.
Qed.
Lemma ensure_capacity_bws b n m b' m' : SM.ensure_capacity M b n m = Ok (b', m') -> SM.bws b' = SM.bws b.
Proof.
  unfold SM.ensure_capacity. destruct (_ && _); intros H; [eapply reallocate_bws; eassumption | minv; reflexivity].
Qed.
Lemma shrink_to_fit_bws b m b' m' : SM.shrink_to_fit M b m = Ok (b', m') -> SM.bws b' = SM.bws b.
Proof.
  unfold SM.shrink_to_fit, SM.max_compact_chk. intros H. minv.
  destruct (_ >? _); [eapply reallocate_bws; eassumption | minv; reflexivity].
Qed.

Lemma strip_is_pop_zeros ws : SM.strip ws = pop_zeros ws.
Proof. induction ws as [|x r IH]; cbn [SM.strip pop_zeros]; [reflexivity | rewrite IH; reflexivity]. Qed.

Lemma dword_view d : BSmall (d mod B + B * (d / B)) = BSmall d.
Proof. f_equal. pose proof (B_pos w w_pos). rewrite (Z.div_mod d B) at 3 by lia. ring. Qed.

(** Repr::from_buffer of the machine = from_buffer of the kernels *)
Lemma from_buffer_tie b m r m' : SM.from_buffer w M b m = Ok (r, m') -> brepr_of_repr r = from_buffer w (SM.bws b).
Proof.
  unfold SM.from_buffer, from_buffer. rewrite strip_is_pop_zeros.
  destruct (pop_zeros (SM.bws b)) as [|x [|y [|z t]]]; intros H; minv; cbn [brepr_of_repr SM.from_word SM.from_dword].
  - f_equal. ring.
  - f_equal. ring.
  - apply dword_view.
  - match goal with A : SM.shrink_to_fit _ _ _ = _ |- _ => apply shrink_to_fit_bws in A; cbn [SM.setws SM.bws] in A; rewrite A end.
    reflexivity.
Qed.

(** a machine result built from a well-formed buffer with value v is the canonical view of v *)
Lemma from_buffer_canon b m r m' v : SM.from_buffer w M b m = Ok (r, m') -> wf (SM.bws b) -> value (SM.bws b) = v ->
  brepr_of_repr r = to_brepr w v.
Proof.
  intros H W V. rewrite (from_buffer_tie _ _ _ _ H). apply (canonical_of w w_pos). subst v. apply (from_buffer_ok w w_pos). exact W.
Qed.

Lemma from_dword_canon d : 0 <= d < B * B -> brepr_of_repr (SM.from_dword w d) = to_brepr w d.
Proof.
  intros H. cbn [brepr_of_repr SM.from_dword]. rewrite dword_view. apply (canonical_of w w_pos). cbn [bvalue brepr_ok]. split; [reflexivity | exact H].
Qed.

Lemma tow_ok n v : 0 <= n -> 0 <= v < B ^ n -> wf (SM.tow w n v) /\ value (SM.tow w n v) = v.
Proof.
  intros Hn Hv. unfold SM.tow. split; [apply (to_words_wf w w_pos) | apply (value_to_words w w_pos)]. rewrite Z2Nat.id by lia. exact Hv.
Qed.

Lemma pow2_mod_lt n : 0 <= n -> 0 < 2 ^ (n mod w) < B.
Proof.
  intros Hn. pose proof (Z.mod_pos_bound n w w_pos). split; [apply Z.pow_pos_nonneg; lia|].
  unfold Words.B. apply Z.pow_lt_mono_r; lia.
Qed.

(** value * 2^n fits len + n/w + 1 words *)
Lemma shifted_fits ws n : 0 <= n -> wf ws -> 0 <= value ws * 2 ^ n < B ^ (len ws + n / w + 1).
Proof.
  intros Hn W. pose proof (value_bounds w w_pos ws W) as Hb. pose proof (pow2_mod_lt n Hn) as Hp.
  pose proof (B_pos w w_pos) as HB.
  assert (Q : 0 <= n / w) by (apply Z.div_pos; lia).
  assert (L : 0 <= len ws) by (unfold len; lia).
  rewrite (rhs_split w w_pos n Hn).
  rewrite Z.pow_add_r, Z.pow_1_r, Z.pow_add_r by lia.
  assert (P1 : 0 < B ^ (n / w)) by (apply Z.pow_pos_nonneg; lia).
  assert (P2 : 0 < B ^ len ws) by (apply Z.pow_pos_nonneg; lia).
  split; [apply Z.mul_nonneg_nonneg; [lia|]; apply Z.mul_nonneg_nonneg; lia|].
  assert (E : value ws * (B ^ (n / w) * 2 ^ (n mod w)) = (value ws * 2 ^ (n mod w)) * B ^ (n / w)) by ring.
  rewrite E. clear E.
  assert (F : B ^ len ws * B ^ (n / w) * B = (B ^ len ws * B) * B ^ (n / w)) by ring. rewrite F. clear F.
  apply Z.mul_lt_mono_pos_r; [exact P1|].
  apply Z.le_lt_trans with (value ws * B).
  - apply Z.mul_le_mono_nonneg_l; lia.
  - apply Z.mul_lt_mono_pos_r; lia.
Qed.

(* ------------------------------------------------------------------ << *)

Lemma shl_large_ref_tie ws n m r m' : 0 <= n -> wf ws -> SM.shl_large_ref w M ws n m = Ok (r, m') ->
  brepr_of_repr r = to_brepr w (Z.shiftl (value ws) n).
Proof.
  intros Hn W H. unfold SM.shl_large_ref in H. minv.
  match goal with A : SM.allocate _ _ _ = _ |- _ => apply allocate_bws in A; rename A into A0 end.
  match goal with A : SM.push_repeat _ _ _ _ = _ |- _ => apply push_repeat_bws in A; rename A into A1 end.
  match goal with A : SM.push_slice _ _ _ = _ |- _ => apply push_slice_bws in A; rename A into A2 end.
  match goal with A : SM.push _ _ _ = _ |- _ => apply push_bws in A; rename A into A3 end.
  assert (Q : 0 <= n / w) by (apply Z.div_pos; lia).
  assert (L : len (SM.bws x5) = len ws + n / w + 1).
  { rewrite A3, A2, A1, A0. cbn [app]. unfold len. rewrite !app_length, repeat_length. cbn [length]. lia. }
  rewrite Z.shiftl_mul_pow2 by lia.
  destruct (tow_ok (len ws + n / w + 1) (value ws * 2 ^ n)) as [TW TV]; [unfold len; lia | apply shifted_fits; assumption|].
  eapply from_buffer_canon; [exact H | |]; cbn [SM.setws SM.bws]; rewrite L; assumption.
Qed.

Lemma shl_large_tie b n m r m' : 0 <= n -> wf (SM.bws b) -> SM.shl_large w M b n m = Ok (r, m') ->
  brepr_of_repr r = to_brepr w (Z.shiftl (value (SM.bws b)) n).
Proof.
  intros Hn W H. unfold SM.shl_large in H. destruct (_ <? _).
  - minv. eapply shl_large_ref_tie; eassumption.
  - minv.
    match goal with A : SM.push _ _ _ = _ |- _ => apply push_bws in A; rename A into A1 end.
    match goal with A : SM.push_zeros_front _ _ _ = _ |- _ => apply push_zeros_front_bws in A; rename A into A2 end.
    assert (Q : 0 <= n / w) by (apply Z.div_pos; lia).
    assert (L : len (SM.bws x1) = len (SM.bws b) + n / w + 1).
    { rewrite A2, A1. unfold len. rewrite !app_length, repeat_length. cbn [length]. lia. }
    rewrite Z.shiftl_mul_pow2 by lia.
    destruct (tow_ok (len (SM.bws b) + n / w + 1) (value (SM.bws b) * 2 ^ n)) as [TW TV];
      [unfold len; lia | apply shifted_fits; assumption|].
    eapply from_buffer_canon; [exact H | |]; cbn [SM.setws SM.bws]; rewrite L; assumption.
Qed.

Lemma value_zeros_then k xs : value (repeat 0 k ++ xs) = B ^ Z.of_nat k * value xs.
Proof. apply (value_zeros_app w). Qed.

Lemma shl_dword_tie d n m r m' : 0 <= n -> 0 <= d < B * B -> SM.shl_dword w M d n m = Ok (r, m') ->
  brepr_of_repr r = to_brepr w (Z.shiftl d n).
Proof.
  intros Hn Hd H. unfold SM.shl_dword in H. change (SM.Bw w) with B in *. minv. rewrite Z.shiftl_mul_pow2 by lia.
  pose proof (B_pos w w_pos) as HB. pose proof (pow2_mod_lt n Hn) as Hp.
  assert (Q : 0 <= n / w) by (apply Z.div_pos; lia).
  assert (P2 : 0 < 2 ^ n) by (apply Z.pow_pos_nonneg; lia).
  destruct (Z.ltb_spec (d * 2 ^ n) (B * B)) as [C|C].
  - minv. apply from_dword_canon. split; [apply Z.mul_nonneg_nonneg; lia | exact C].
  - destruct (Z.eqb_spec d 1) as [E|E].
    + minv.
      match goal with A : SM.allocate _ _ _ = _ |- _ => apply allocate_bws in A; rename A into A0 end.
      match goal with A : SM.push_repeat _ _ _ _ = _ |- _ => apply push_repeat_bws in A; rename A into A1 end.
      match goal with A : SM.push _ _ _ = _ |- _ => apply push_bws in A; rename A into A2 end.
      eapply from_buffer_canon; [exact H | |]; rewrite A2, A1, A0; cbn [app].
      * apply (wf_zeros_app w w_pos). apply wf_cons. split; [lia | constructor].
      * rewrite value_zeros_then. cbn [Words.value]. rewrite Z2Nat.id by lia. subst d.
        rewrite (rhs_split w w_pos n Hn). ring.
    + minv.
      match goal with A : SM.allocate _ _ _ = _ |- _ => apply allocate_bws in A; rename A into A0 end.
      match goal with A : SM.push_repeat _ _ _ _ = _ |- _ => apply push_repeat_bws in A; rename A into A1 end.
      repeat match goal with A : SM.push _ _ _ = _ |- _ => apply push_bws in A end.
      set (v := d * 2 ^ (n mod w)) in *.
      assert (Hv : 0 <= v < B * B * B).
      { unfold v. split; [apply Z.mul_nonneg_nonneg; lia|].
        apply Z.le_lt_trans with (d * B); [apply Z.mul_le_mono_nonneg_l; lia|]. apply Z.mul_lt_mono_pos_r; lia. }
      assert (D1 : 0 <= v / B) by (apply Z.div_pos; lia).
      assert (D2 : v / B ^ 2 < B).
      { apply Z.div_lt_upper_bound; [apply Z.pow_pos_nonneg; lia|]. replace (B ^ 2 * B) with (B * B * B) by ring. lia. }
      assert (D3 : 0 <= v / B ^ 2) by (apply Z.div_pos; [lia | apply Z.pow_pos_nonneg; lia]).
      eapply from_buffer_canon; [exact H | |].
      * repeat match goal with A : SM.bws _ = _ |- _ => rewrite A; clear A end. cbn [app].
        rewrite <- !app_assoc. cbn [app]. apply (wf_zeros_app w w_pos).
        repeat (apply wf_cons; split; [try (apply Z.mod_pos_bound; lia); lia|]). constructor.
      * repeat match goal with A : SM.bws _ = _ |- _ => rewrite A; clear A end. cbn [app].
        rewrite <- !app_assoc. cbn [app]. rewrite value_zeros_then. cbn [Words.value]. rewrite Z2Nat.id by lia.
        rewrite (rhs_split w w_pos n Hn).
        assert (S3 : v mod B + B * ((v / B) mod B + B * (v / B ^ 2 + B * 0)) = v).
        { replace (v / B ^ 2) with (v / B / B) by (rewrite Z.div_div by lia; f_equal; ring).
          rewrite (Z.div_mod v B) at 4 by lia. rewrite (Z.div_mod (v / B) B) at 3 by lia. ring. }
        rewrite S3. unfold v. ring.
Qed.

Lemma zero_case d n m r m' : d = 0 -> SM.ret SM.zero m = Ok (r, m') -> brepr_of_repr r = to_brepr w (Z.shiftl d n).
Proof.
  intros E H. minv. rewrite Z.shiftl_0_l. cbn [brepr_of_repr SM.zero]. apply (canonical_of w w_pos).
  cbn [bvalue brepr_ok]. pose proof (B_pos w w_pos). assert (0 < B * B) by (apply Z.mul_pos_pos; lia).
  replace (0 + B * 0) with 0 by ring. split; [reflexivity | lia].
Qed.

(** << on a magnitude, every form: the Repr the capacity-checked machine returns is the Repr the word-level
    kernel computes (shifted in place or copied, by value or by reference) *)
Theorem shl_machine_is_kernel a n m r m' : 0 <= n -> brepr_ok w (brepr_of_targ a) ->
  SM.shl_mag w M a n m = Ok (r, m') ->
  forall cap, brepr_of_repr r = ubig_shl_form w (targ_is_ref a) cap (brepr_of_targ a) n.
Proof.
  intros Hn Ha H cap. rewrite (ubig_shl_form_canonical w w_pos _ cap _ n Hn Ha).
  destruct a as [d|b|d|ws]; cbn [SM.shl_mag brepr_of_targ bvalue brepr_ok] in *.
  - revert H. destruct (Z.eqb_spec d 0) as [E|E]; intros H; [eapply zero_case; eassumption|].
    eapply shl_dword_tie; eassumption.
  - eapply shl_large_tie; [exact Hn | apply Ha | exact H].
  - revert H. destruct (Z.eqb_spec d 0) as [E|E]; intros H; [eapply zero_case; eassumption|].
    eapply shl_dword_tie; eassumption.
  - eapply shl_large_ref_tie; [exact Hn | apply Ha | exact H].
Qed.

(* ------------------------------------------------------------------ set_bit *)

Lemma lor_lt_pow2 k a b : 0 < k -> 0 <= a < 2 ^ k -> 0 <= b < 2 ^ k -> 0 <= Z.lor a b < 2 ^ k.
Proof. intros Hk Ha Hb. exact (op_word k Hk Z.lor orb lor_spec' eq_refl lor_nn a b Ha Hb). Qed.

(** set_bit, every path (inline, spilled out of the double word, inside the buffer, grown buffer): the
    machine's Repr is the kernel's Repr; in the two growing paths even the buffers handed to from_buffer
    are the same word lists *)
Theorem set_bit_machine_is_kernel a n m r m' : 0 <= n -> brepr_ok w (brepr_of_targ a) ->
  SM.set_bit w M a n m = Ok (r, m') -> brepr_of_repr r = repr_set_bit w (brepr_of_targ a) n.
Proof.
  intros Hn Ha H. pose proof (B_pos w w_pos) as HB. pose proof (Z.mod_pos_bound n w w_pos) as Hm.
  assert (small : forall d, 0 <= d < B * B -> SM.set_bit w M (SM.TSmall d) n m = Ok (r, m') ->
            brepr_of_repr r = repr_set_bit w (BSmall d) n).
  { intros d Hd H1. cbn [SM.set_bit] in H1. cbn [repr_set_bit]. revert H1. destruct (Z.ltb_spec n (2 * w)) as [C|C]; intros H1.
    - minv. rewrite (shiftl_1 n Hn). rewrite from_dword_canon.
      + symmetry. apply (canonical_of w w_pos). cbn [from_dword bvalue brepr_ok]. split; [reflexivity|].
        rewrite (BB_pow w w_pos) in *. apply lor_lt_pow2; [lia | lia |]. split; [apply Z.pow_nonneg; lia | apply Z.pow_lt_mono_r; lia].
      + rewrite (BB_pow w w_pos) in *. apply lor_lt_pow2; [lia | lia |]. split; [apply Z.pow_nonneg; lia | apply Z.pow_lt_mono_r; lia].
    - cbv zeta in H1. minv.
      match goal with A : SM.allocate _ _ _ = _ |- _ => apply allocate_bws in A; rename A into A0 end.
      match goal with A : SM.push_repeat _ _ _ _ = _ |- _ => apply push_repeat_bws in A; rename A into A1 end.
      repeat match goal with A : SM.push _ _ _ = _ |- _ => apply push_bws in A end.
      rewrite (from_buffer_tie _ _ _ _ H1). unfold with_bit_dword_spilled. rewrite (shiftl_1 (n mod w)) by lia.
      f_equal. repeat match goal with A : SM.bws _ = _ |- _ => rewrite A; clear A end.
      cbn [app]. rewrite <- ?app_assoc. reflexivity. }
  destruct a as [d|b|d|ws]; cbn [SM.set_bit brepr_of_targ brepr_ok] in *.
  - apply small; assumption.
  - destruct Ha as (W & L3 & T). cbn [repr_set_bit]. unfold with_bit_large. revert H.
    destruct (Z.ltb_spec (n / w) (len (SM.bws b))) as [C|C]; intros H.
    + (* inside the buffer: the machine stores the words of the exact result *)
      assert (Hlen : 0 <= len (SM.bws b)) by (unfold len; lia).
      assert (Hnw : n < w * len (SM.bws b)).
      { rewrite (Z.div_mod n w) by lia. nia. }
      assert (Hb : 0 <= Z.lor (value (SM.bws b)) (2 ^ n) < B ^ len (SM.bws b)).
      { rewrite (Bpow_pow w w_pos) by lia. apply lor_lt_pow2; [nia | |].
        - rewrite <- (Bpow_pow w w_pos) by lia. apply (value_bounds w w_pos). exact W.
        - split; [apply Z.pow_nonneg; lia | apply Z.pow_lt_mono_r; lia]. }
      destruct (tow_ok (len (SM.bws b)) _ Hlen Hb) as [TW TV].
      rewrite (from_buffer_canon _ _ _ _ _ H TW TV).
      symmetry. apply (canonical_of w w_pos).
      pose proof (proj1 (repr_set_clear_bit_canonical w w_pos (BLarge (SM.bws b)) n Hn (conj W (conj L3 T)))) as K.
      cbn [repr_set_bit bvalue] in K. unfold with_bit_large in K.
      destruct (Z.ltb_spec (n / w) (len (SM.bws b))) as [_|C']; [|lia].
      rewrite K. apply (to_brepr_ok w w_pos). unfold set_bit_spec. lia.
    + minv.
      match goal with A : SM.ensure_capacity _ _ _ _ = _ |- _ => apply ensure_capacity_bws in A; rename A into A0 end.
      match goal with A : SM.push_repeat _ _ _ _ = _ |- _ => apply push_repeat_bws in A; rename A into A1 end.
      match goal with A : SM.push _ _ _ = _ |- _ => apply push_bws in A; rename A into A2 end.
      rewrite (from_buffer_tie _ _ _ _ H). rewrite (shiftl_1 (n mod w)) by lia.
      f_equal. rewrite A2, A1, A0. rewrite <- app_assoc. reflexivity.
  - apply small; [assumption | exact H].
  - discriminate H.
Qed.

End Tie.
