(** C13 - the word-level layout of the multi-word ring refines the value-level model:
    ReducedLarge::is_valid characterises exactly the reduced forms (len = modulus len, raw = residue << shift,
    residue < m), and add_in_place / sub_in_place(_swap) / dbl_in_place / negate_in_place / residue / one on
    word lists (built from the kernels add_same_len / sub_same_len / cmp_same_len / shl / shr, whose
    carry / borrow contracts are proved in DivWordProofs.v) return, for ALL well-formed word lists, exactly
    what the value-level model of ModRingModel.v returns - panics included. *)
From Dashu Require Import Base.Prelude Base.Words Int.DivWordModel Int.DivWordProofs
  Int.ModRingSpec Int.ModRingModel Int.ModRingProofs Int.ModRingWords.
Open Scope Z_scope.

Section WordLevelProofs.
Variable w : Z.
Hypothesis w_ge : 2 <= w.
Local Notation B := (Words.B w).
Local Notation value := (Words.value w).
Local Notation wf := (Words.wf w).

Local Lemma w_pos : 0 < w. Proof. lia. Qed.
Local Lemma Bp : 0 < B. Proof. apply B_pos; lia. Qed.

(** word-level result [res] of length [n] refines the value-level result [vres] *)
Definition refines (n : nat) (res : result (list Z)) (vres : result Z) : Prop :=
  match vres with
  | Ok v => exists l, res = Ok l /\ wf l /\ length l = n /\ value l = v
  | Panic p => res = Panic p
  | _ => False
  end.

Lemma carry_unique v T c s : 0 < T -> 0 <= v < T -> v + T * c = s -> v = s mod T /\ c = s / T.
Proof.
  intros HT Hv E. split.
  - apply (Z.mod_unique s T c v); lia.
  - apply (Z.div_unique s T c v); lia.
Qed.

Lemma borrow_unique v T c s : 0 < T -> 0 <= v < T -> v - T * c = s -> v = s mod T /\ c = - (s / T).
Proof.
  intros HT Hv E. split.
  - apply (Z.mod_unique s T (- c) v); lia.
  - assert (- c = s / T) by (apply (Z.div_unique s T (- c) v); lia). lia.
Qed.

Lemma land_ones_word x s : 0 <= s -> Z.land x (ones_word s) = x mod 2 ^ s.
Proof.
  intros Hs. unfold ones_word. rewrite <- Z.land_ones by lia. f_equal. rewrite Z.ones_equiv. lia.
Qed.

Lemma hd_mod raw s : 0 <= s < w -> (hd 0 raw) mod 2 ^ s = value raw mod 2 ^ s.
Proof.
  intros Hs. destruct raw as [|x t]; cbn [hd Words.value]; [reflexivity|].
  rewrite (B_split w s) by lia.
  replace (x + 2 ^ (w - s) * 2 ^ s * value t) with (x + (2 ^ (w - s) * value t) * 2 ^ s) by ring.
  rewrite Z_mod_plus_full. reflexivity.
Qed.

Lemma tsize_len R r : lring_ok w R r -> tsize w r = B ^ len (lr_nd R).
Proof. intros (_ & _ & _ & El & _). unfold tsize. rewrite El. reflexivity. Qed.

Lemma Tpos R : 0 < B ^ len (lr_nd R).
Proof. apply Z.pow_pos_nonneg; [apply Bp | unfold len; lia]. Qed.

(** ---------------- is_valid ---------------- *)
Theorem wl_is_valid_value R r raw : lring_ok w R r -> ring_wf w r -> wf raw -> length raw = length (lr_nd R) ->
  wl_is_valid R raw = is_valid r (value raw).
Proof.
  intros (Hk & Hwn & En & El & Es) (Hm & Hs & _) Hwr Hl. unfold wl_is_valid, is_valid.
  rewrite Hl, Nat.eqb_refl. cbn [andb].
  rewrite (cmp_same_len_spec w w_pos raw (lr_nd R) Hwr Hwn Hl), En.
  rewrite Es, land_ones_word, hd_mod by lia.
  pose proof (value_nonneg w w_pos raw Hwr) as H0.
  replace (0 <=? value raw) with true by (symmetry; apply Z.leb_le; lia). cbn [andb].
  rewrite andb_comm. f_equal.
Qed.

(** is_valid holds exactly for the reduced forms: right length, value = residue << shift, residue < m *)
Theorem wl_is_valid_iff R r raw : lring_ok w R r -> ring_wf w r -> wf raw ->
  (wl_is_valid R raw = true <->
   length raw = length (lr_nd R) /\ exists x, 0 <= x < r_m r /\ value raw = x * 2 ^ r_shift r).
Proof.
  intros HR Hwf Hwr. pose proof (wf_facts w w_ge r Hwf) as (P & _).
  pose proof HR as (Hk & Hwn & En & El & Es). pose proof Hwf as (Hm & Hs & _).
  split.
  - intros H. assert (length raw = length (lr_nd R)) as Hl.
    { unfold wl_is_valid in H. apply andb_prop in H. destruct H as [H _]. apply andb_prop in H. destruct H as [H _].
      apply Nat.eqb_eq. exact H. }
    split; [exact Hl|]. rewrite (wl_is_valid_value R r raw HR Hwf Hwr Hl) in H. unfold is_valid, nd in H.
    apply andb_prop in H. destruct H as [H H3]. apply andb_prop in H. destruct H as [H1 H2].
    apply Z.leb_le in H1. apply Z.eqb_eq in H2. apply Z.ltb_lt in H3.
    exists (value raw / 2 ^ r_shift r).
    pose proof (Z.div_mod (value raw) (2 ^ r_shift r) ltac:(lia)) as D. rewrite H2 in D.
    split; [|lia]. split; [apply Z.div_pos; lia|]. apply Z.div_lt_upper_bound; lia.
  - intros (Hl & x & Hx & Ev). rewrite (wl_is_valid_value R r raw HR Hwf Hwr Hl), Ev.
    unfold is_valid, nd. rewrite Z.mod_mul by lia.
    replace (0 <=? x * 2 ^ r_shift r) with true by (symmetry; apply Z.leb_le; nia).
    replace (x * 2 ^ r_shift r <? r_m r * 2 ^ r_shift r) with true by (symmetry; apply Z.ltb_lt; nia).
    reflexivity.
Qed.

(** the pre-repair test (is_le) accepted the normalised divisor itself, which is not a reduced form *)
Theorem wl_is_valid_prefix_refuted R r : lring_ok w R r -> ring_wf w r ->
  wl_is_valid_prefix R (lr_nd R) = true /\ wl_is_valid R (lr_nd R) = false.
Proof.
  intros HR Hwf. pose proof HR as (Hk & Hwn & En & El & Es). pose proof Hwf as (Hm & Hs & _).
  pose proof (wf_facts w w_ge r Hwf) as (P & _).
  split.
  - unfold wl_is_valid_prefix. rewrite Nat.eqb_refl. cbn [andb].
    rewrite (cmp_same_len_spec w w_pos _ _ Hwn Hwn eq_refl), Z.compare_refl. cbn [is_le andb].
    rewrite Es, land_ones_word, hd_mod, En by lia. unfold nd. rewrite Z.mod_mul by lia. reflexivity.
  - rewrite (wl_is_valid_value R r _ HR Hwf Hwn eq_refl), En. unfold is_valid.
    rewrite Z.ltb_irrefl. apply andb_false_r.
Qed.

(** ---------------- add_in_place / dbl_in_place ---------------- *)
(** the shared tail: conditional subtraction with the two overflow flags *)
Definition cond_sub (R : lring) (l1 : list Z) (overflow : Z) : result (list Z) :=
  if (overflow =? 1) || is_ge (cmp_same_len l1 (lr_nd R)) then
    let '(l2, overflow2) := sub_same_len w l1 (lr_nd R) in
    if overflow =? overflow2 then Ok l2 else Panic Undocumented
  else Ok l1.

Lemma cond_sub_refines R r l1 c l rr : lring_ok w R r -> wf l1 -> length l1 = length (lr_nd R) ->
  0 <= c <= 1 -> value l1 + B ^ len (lr_nd R) * c = l + rr ->
  refines (length (lr_nd R)) (cond_sub R l1 c) (vanilla_add (tsize w r) (nd r) l rr).
Proof.
  intros HR Hw1 Hl1 Hc E. pose proof HR as (Hk & Hwn & En & El & Es).
  pose proof (Tpos R) as HT. pose proof (value_bounds w w_pos l1 Hw1) as Hb1.
  unfold len in Hb1. rewrite Hl1 in Hb1. fold (len (lr_nd R)) in Hb1.
  destruct (carry_unique (value l1) (B ^ len (lr_nd R)) c (l + rr) HT Hb1 E) as [Ev Ec].
  unfold cond_sub, vanilla_add. rewrite (tsize_len R r HR).
  rewrite (cmp_same_len_spec w w_pos l1 (lr_nd R) Hw1 Hwn Hl1), En, <- Ev.
  assert ((c =? 1) = (B ^ len (lr_nd R) <=? l + rr)) as Eov.
  { destruct (Z.leb_spec (B ^ len (lr_nd R)) (l + rr)); [apply Z.eqb_eq | apply Z.eqb_neq]; nia. }
  rewrite Eov.
  assert (is_ge (value l1 ?= nd r) = (nd r <=? value l1)) as Ege.
  { unfold is_ge, Z.leb. rewrite (Z.compare_antisym (value l1) (nd r)). destruct (value l1 ?= nd r); reflexivity. }
  rewrite Ege.
  destruct ((B ^ len (lr_nd R) <=? l + rr) || (nd r <=? value l1)) eqn:Eb.
  - destruct (sub_same_len w l1 (lr_nd R)) as [l2 c2] eqn:Es2.
    destruct (sub_same_len_spec w w_pos l1 (lr_nd R) Hw1 Hwn Hl1 l2 c2 Es2) as (E2 & Hw2 & Hl2 & Hc2).
    pose proof (value_bounds w w_pos l2 Hw2) as Hb2. unfold len in Hb2. rewrite Hl2, Hl1 in Hb2. fold (len (lr_nd R)) in Hb2.
    unfold len in E2. rewrite Hl1 in E2. fold (len (lr_nd R)) in E2. rewrite En in E2.
    destruct (borrow_unique (value l2) (B ^ len (lr_nd R)) c2 (value l1 - nd r) HT Hb2 E2) as [Ev2 Ec2].
    assert ((c =? c2) = Bool.eqb (B ^ len (lr_nd R) <=? l + rr) (value l1 <? nd r)) as Eflag.
    { rewrite <- Eov. clear Ec2 Ev2 Eov Eb.
      destruct (Z.ltb_spec (value l1) (nd r)) as [Hlt|Hge].
      - assert (c2 = 1) as K by nia. destruct (Z.eqb_spec c 1); destruct (Z.eqb_spec c c2); cbn [Bool.eqb]; try reflexivity; lia.
      - assert (c2 = 0) as K by nia. destruct (Z.eqb_spec c 1); destruct (Z.eqb_spec c c2); cbn [Bool.eqb]; try reflexivity; lia. }
    rewrite Eflag. destruct (Bool.eqb _ _); cbn [refines]; [|reflexivity].
    exists l2. split; [reflexivity|]. split; [exact Hw2|]. split; [lia | exact Ev2].
  - cbn [refines]. exists l1. split; [reflexivity|]. split; [exact Hw1|]. split; [exact Hl1 | reflexivity].
Qed.

Definition abs (r : ring) (ws : list Z) : reduced := mkred (value ws) r.
Definition raw_of (x : result reduced) : result Z := rbind x (fun c => Ok (e_raw c)).

Lemma same_ring_abs r a b : same_ring (abs r a) (abs r b) = true.
Proof. apply (same_ring_refl (abs r a) (abs r b) r); reflexivity. Qed.

Theorem wl_add_refines R r lhs rhs : lring_ok w R r -> ring_wf w r -> wf lhs -> wf rhs ->
  length lhs = length (lr_nd R) -> length rhs = length (lr_nd R) ->
  refines (length (lr_nd R)) (wl_add_in_place w R lhs rhs) (raw_of (add_asis w (abs r lhs) (abs r rhs))).
Proof.
  intros HR Hwf Hwl Hwr Hll Hlr. pose proof HR as (Hk & Hwn & En & El & Es).
  unfold wl_add_in_place, add_asis. rewrite same_ring_abs. unfold valid2, abs. cbn [e_ring e_raw]. rewrite Hk.
  rewrite <- (wl_is_valid_value R r lhs HR Hwf Hwl Hll), <- (wl_is_valid_value R r rhs HR Hwf Hwr Hlr).
  destruct (wl_is_valid R lhs && wl_is_valid R rhs); [|reflexivity].
  destruct (add_same_len w lhs rhs) as [l1 c] eqn:Ea.
  destruct (add_same_len_spec w w_pos lhs rhs Hwl Hwr ltac:(congruence) l1 c Ea) as (E1 & Hw1 & Hl1 & Hc).
  unfold len in E1. rewrite Hll in E1. fold (len (lr_nd R)) in E1.
  pose proof (cond_sub_refines R r l1 c (value lhs) (value rhs) HR Hw1 ltac:(congruence) Hc E1) as H.
  unfold cond_sub in H. unfold raw_of.
  destruct (vanilla_add (tsize w r) (nd r) (value lhs) (value rhs)); cbn [rbind e_raw refines] in *; exact H.
Qed.

Lemma raw_of_bind (x : result Z) r : raw_of (rbind x (mk r)) = rbind x (fun v => raw_of (mk r v)).
Proof. destruct x; reflexivity. Qed.

Lemma from_large_refines R r res vres : lring_ok w R r -> ring_wf w r ->
  refines (length (lr_nd R)) res vres ->
  refines (length (lr_nd R)) (rbind res (wl_from_large R)) (rbind vres (fun v => raw_of (mk r v))).
Proof.
  intros HR Hwf H. destruct vres as [v|p|e|]; cbn [refines rbind] in *; try contradiction.
  - destruct H as (l & -> & Hwl & Hll & Ev). cbn [rbind]. unfold wl_from_large, mk.
    rewrite (wl_is_valid_value R r l HR Hwf Hwl Hll), Ev.
    destruct (is_valid r v); cbn [raw_of rbind e_raw refines]; [|reflexivity].
    exists l. repeat split; assumption.
  - rewrite H. reflexivity.
Qed.

Theorem wl_dbl_refines R r raw : lring_ok w R r -> ring_wf w r -> wf raw -> length raw = length (lr_nd R) ->
  refines (length (lr_nd R)) (wl_dbl w R raw) (raw_of (dbl_asis w (abs r raw))).
Proof.
  intros HR Hwf Hwr Hl. pose proof HR as (Hk & Hwn & En & El & Es).
  unfold wl_dbl, dbl_asis. unfold abs. cbn [e_ring e_raw]. rewrite Hk.
  destruct (is_valid r (value raw)) eqn:Ev.
  - rewrite raw_of_bind. apply (from_large_refines R r _ _ HR Hwf).
    unfold wl_dbl_in_place. rewrite (wl_is_valid_value R r raw HR Hwf Hwr Hl), Ev.
    destruct (shl_in_place w raw 1) as [l1 c] eqn:Ea.
    destruct (shl_in_place_spec w w_pos raw 1 Hwr ltac:(lia) l1 c Ea) as (E1 & Hw1 & Hl1 & Hc).
    unfold len in E1. rewrite Hl in E1. fold (len (lr_nd R)) in E1. rewrite Z.pow_1_r in E1, Hc.
    assert ((if 0 <? c then 1 else 0) = c) as Ec by (destruct (Z.ltb_spec 0 c); lia). rewrite Ec.
    exact (cond_sub_refines R r l1 c (value raw) (value raw) HR Hw1 ltac:(congruence) ltac:(lia) ltac:(lia)).
  - unfold wl_dbl_in_place. rewrite (wl_is_valid_value R r raw HR Hwf Hwr Hl), Ev. reflexivity.
Qed.

(** ---------------- sub_in_place / sub_in_place_swap ---------------- *)
Theorem wl_sub_refines R r lhs rhs : lring_ok w R r -> ring_wf w r -> wf lhs -> wf rhs ->
  length lhs = length (lr_nd R) -> length rhs = length (lr_nd R) ->
  refines (length (lr_nd R)) (wl_sub_in_place w R lhs rhs) (raw_of (sub_asis w (abs r lhs) (abs r rhs))).
Proof.
  intros HR Hwf Hwl Hwr Hll Hlr. pose proof HR as (Hk & Hwn & En & El & Es). pose proof (Tpos R) as HT.
  unfold wl_sub_in_place, sub_asis. rewrite same_ring_abs. unfold valid2, abs. cbn [e_ring e_raw]. rewrite Hk.
  rewrite <- (wl_is_valid_value R r lhs HR Hwf Hwl Hll), <- (wl_is_valid_value R r rhs HR Hwf Hwr Hlr).
  destruct (wl_is_valid R lhs && wl_is_valid R rhs); [|reflexivity].
  destruct (sub_same_len w lhs rhs) as [l1 c] eqn:Ea.
  destruct (sub_same_len_spec w w_pos lhs rhs Hwl Hwr ltac:(congruence) l1 c Ea) as (E1 & Hw1 & Hl1 & Hc).
  unfold len in E1. rewrite Hll in E1. fold (len (lr_nd R)) in E1.
  pose proof (value_bounds w w_pos l1 Hw1) as Hb1. unfold len in Hb1. rewrite Hl1, Hll in Hb1. fold (len (lr_nd R)) in Hb1.
  destruct (borrow_unique (value l1) (B ^ len (lr_nd R)) c (value lhs - value rhs) HT Hb1 E1) as [Ev Ec].
  pose proof (value_bounds w w_pos lhs Hwl) as Hbl. unfold len in Hbl. rewrite Hll in Hbl. fold (len (lr_nd R)) in Hbl.
  pose proof (value_bounds w w_pos rhs Hwr) as Hbr. unfold len in Hbr. rewrite Hlr in Hbr. fold (len (lr_nd R)) in Hbr.
  unfold large_sub. rewrite (tsize_len R r HR), <- Ev.
  assert ((c =? 1) = (value lhs <? value rhs)) as Eov.
  { destruct (Z.ltb_spec (value lhs) (value rhs)); [apply Z.eqb_eq | apply Z.eqb_neq]; nia. }
  rewrite Eov. destruct (value lhs <? value rhs); cbn [raw_of rbind e_raw refines].
  - destruct (add_same_len w l1 (lr_nd R)) as [l2 c2] eqn:Es2.
    destruct (add_same_len_spec w w_pos l1 (lr_nd R) Hw1 Hwn ltac:(congruence) l2 c2 Es2) as (E2 & Hw2 & Hl2 & Hc2).
    unfold len in E2. rewrite Hl1, Hll in E2. fold (len (lr_nd R)) in E2. rewrite En in E2.
    pose proof (value_bounds w w_pos l2 Hw2) as Hb2. unfold len in Hb2. rewrite Hl2, Hl1, Hll in Hb2. fold (len (lr_nd R)) in Hb2.
    destruct (carry_unique (value l2) (B ^ len (lr_nd R)) c2 (value l1 + nd r) HT Hb2 E2) as [Ev2 Ec2].
    assert ((c2 =? 1) = (B ^ len (lr_nd R) <=? value l1 + nd r)) as Eov2.
    { destruct (Z.leb_spec (B ^ len (lr_nd R)) (value l1 + nd r)); [apply Z.eqb_eq | apply Z.eqb_neq]; nia. }
    rewrite Eov2. destruct (B ^ len (lr_nd R) <=? value l1 + nd r); cbn [raw_of rbind e_raw refines]; [|reflexivity].
    exists l2. split; [reflexivity|]. split; [exact Hw2|]. split; [lia | exact Ev2].
  - exists l1. split; [reflexivity|]. split; [exact Hw1|]. split; [lia | reflexivity].
Qed.

(** ---------------- negate_in_place ---------------- *)
Lemma all_zero_value ws : wf ws -> all_zero ws = (value ws =? 0).
Proof.
  pose proof Bp as HB. induction ws as [|x t IH]; intros H; cbn [all_zero forallb Words.value]; [reflexivity|].
  apply wf_cons in H. destruct H as [Hx Ht]. fold (all_zero t). rewrite (IH Ht).
  pose proof (value_nonneg w w_pos t Ht) as H0.
  destruct (Z.eqb_spec x 0) as [->|Nx]; cbn [andb].
  - destruct (Z.eqb_spec (value t) 0) as [Et|Nt]; symmetry; [apply Z.eqb_eq; lia | apply Z.eqb_neq; nia].
  - symmetry. apply Z.eqb_neq. nia.
Qed.

Theorem wl_neg_refines R r raw : lring_ok w R r -> ring_wf w r -> wf raw -> length raw = length (lr_nd R) ->
  refines (length (lr_nd R)) (wl_neg w R raw) (raw_of (neg_asis (abs r raw))).
Proof.
  intros HR Hwf Hwr Hl. pose proof HR as (Hk & Hwn & En & El & Es). pose proof (Tpos R) as HT.
  unfold wl_neg, neg_asis. unfold abs. cbn [e_ring e_raw]. rewrite Hk.
  destruct (is_valid r (value raw)) eqn:Ev.
  - rewrite raw_of_bind. apply (from_large_refines R r _ _ HR Hwf).
    unfold wl_negate_in_place. rewrite (wl_is_valid_value R r raw HR Hwf Hwr Hl), Ev.
    unfold large_neg. rewrite (all_zero_value raw Hwr).
    destruct (Z.eqb_spec (value raw) 0) as [Ez|Nz]; cbn [refines].
    + exists raw. repeat split; assumption.
    + destruct (sub_same_len w (lr_nd R) raw) as [l1 c] eqn:Ea.
      destruct (sub_same_len_spec w w_pos (lr_nd R) raw Hwn Hwr ltac:(congruence) l1 c Ea) as (E1 & Hw1 & Hl1 & Hc).
      rewrite En in E1.
      pose proof (value_bounds w w_pos l1 Hw1) as Hb1. unfold len in Hb1. rewrite Hl1 in Hb1. fold (len (lr_nd R)) in Hb1.
      destruct (borrow_unique (value l1) (B ^ len (lr_nd R)) c (nd r - value raw) HT Hb1 E1) as [Ev1 Ec].
      pose proof (value_bounds w w_pos raw Hwr) as Hbr. unfold len in Hbr. rewrite Hl in Hbr. fold (len (lr_nd R)) in Hbr.
      pose proof (value_bounds w w_pos _ Hwn) as Hbn. rewrite En in Hbn.
      assert ((c =? 0) = negb (nd r <? value raw)) as Eov.
      { destruct (Z.ltb_spec (nd r) (value raw)); cbn [negb]; [apply Z.eqb_neq | apply Z.eqb_eq]; nia. }
      rewrite Eov. destruct (Z.ltb_spec (nd r) (value raw)); cbn [negb refines]; [reflexivity|].
      exists l1. split; [reflexivity|]. split; [exact Hw1|]. split; [exact Hl1|]. nia.
  - unfold wl_negate_in_place. rewrite (wl_is_valid_value R r raw HR Hwf Hwr Hl), Ev. reflexivity.
Qed.

(** ---------------- residue, one, equality ---------------- *)
Theorem wl_residue_refines R r raw : lring_ok w R r -> ring_wf w r -> wf raw -> length raw = length (lr_nd R) ->
  is_valid r (value raw) = true ->
  refines (length (lr_nd R)) (wl_residue w R raw) (residue_asis (abs r raw)).
Proof.
  intros HR Hwf Hwr Hl Ev. pose proof HR as (Hk & Hwn & En & El & Es). pose proof Hwf as (Hm & Hs & _).
  pose proof (wf_facts w w_ge r Hwf) as (P & _).
  unfold wl_residue, residue_asis, abs. cbn [e_ring e_raw]. rewrite Ev. cbn [refines].
  unfold is_valid in Ev. apply andb_prop in Ev. destruct Ev as [Ev V3]. apply andb_prop in Ev. destruct Ev as [V1 V2].
  apply Z.eqb_eq in V2. rewrite Es.
  destruct (Z.eq_dec (r_shift r) 0) as [S0|Sn].
  - unfold shr_in_place. rewrite S0. replace (0 =? w) with false by (symmetry; apply Z.eqb_neq; lia). cbn [Z.eqb].
    exists raw. rewrite Z.pow_0_r, Z.div_1_r. repeat split; assumption.
  - destruct (shr_in_place w raw (r_shift r)) as [l1 c] eqn:Ea.
    destruct (shr_in_place_spec w w_pos raw (r_shift r) Hwr ltac:(lia) l1 c Ea) as (k & Ec & Hk' & E1 & Hw1 & Hl1).
    assert (k = 0) as K0.
    { assert (k = value raw mod 2 ^ r_shift r) as Ek by (apply (Z.mod_unique (value raw) (2 ^ r_shift r) (value l1) k); lia). lia. }
    subst k. rewrite Ec. cbn [Z.mul Z.eqb].
    exists l1. split; [reflexivity|]. split; [exact Hw1|]. split; [lia|].
    apply (Z.div_unique (value raw) (2 ^ r_shift r) (value l1) 0); lia.
Qed.

Theorem wl_one_ok R r f2 : lring_ok w R r -> ring_wf w r ->
  wf (wl_one R) /\ length (wl_one R) = length (lr_nd R) /\ raw_one w f2 r = Ok (value (wl_one R)).
Proof.
  intros HR Hwf. pose proof HR as (Hk & Hwn & En & El & Es). pose proof Hwf as (Hm & Hs & Hn & _).
  pose proof (wf_facts w w_ge r Hwf) as (P & P2 & _). rewrite Hk in Hn. unfold len in El.
  unfold wl_one, raw_one. rewrite Hk, Es. cbn [Words.value length]. rewrite value_repeat_zero.
  split; [|split].
  - apply wf_cons. split; [unfold Words.B; lia|]. apply Forall_forall. intros x Hx. apply repeat_spec in Hx. subst x.
    pose proof Bp. lia.
  - rewrite repeat_length. lia.
  - f_equal. lia.
Qed.

Theorem words_eqb_value a : forall b, wf a -> wf b -> length a = length b -> words_eqb a b = (value a =? value b).
Proof.
  pose proof Bp as HB. induction a as [|x t IH]; intros [|y s] Ha Hb Hl; cbn [length] in Hl; try discriminate; cbn [words_eqb Words.value].
  - reflexivity.
  - apply wf_cons in Ha. apply wf_cons in Hb. destruct Ha as [Hx Ht], Hb as [Hy Hs].
    rewrite (IH s Ht Hs ltac:(lia)).
    destruct (Z.eqb_spec x y) as [->|Nxy]; cbn [andb].
    + destruct (Z.eqb_spec (value t) (value s)) as [->|N]; [symmetry; apply Z.eqb_refl | symmetry; apply Z.eqb_neq; nia].
    + symmetry. apply Z.eqb_neq. intros E. apply Nxy.
      assert (x mod B = y mod B) as Em.
      { replace x with ((x + B * value t) - value t * B) by ring. rewrite E.
        replace (y + B * value s - value t * B) with (y + (value s - value t) * B) by ring. rewrite Z_mod_plus_full. reflexivity. }
      rewrite !Z.mod_small in Em by lia. exact Em.
Qed.

(** ---------------- property level: the word-level operations on reduced forms ---------------- *)
(** a word list IS the reduced form of x: right length, words in range, value = (x mod m) << shift *)
Definition wrep (R : lring) (r : ring) (x : Z) (ws : list Z) : Prop :=
  wf ws /\ length ws = length (lr_nd R) /\ value ws = (x mod r_m r) * 2 ^ r_shift r.

Lemma wrep_rep R r x ws : wrep R r x ws -> rep r x (abs r ws).
Proof. intros (_ & _ & E). split; [reflexivity | exact E]. Qed.

Lemma wrep_valid R r x ws : lring_ok w R r -> ring_wf w r -> wrep R r x ws -> wl_is_valid R ws = true.
Proof.
  intros HR Hwf (H1 & H2 & H3). rewrite (wl_is_valid_value R r ws HR Hwf H1 H2), H3. apply (rep_valid w w_ge); exact Hwf.
Qed.

Lemma refines_rep R r res (vres : result reduced) y : 
  refines (length (lr_nd R)) res (raw_of vres) -> (exists c, vres = Ok c /\ rep r y c) ->
  exists l, res = Ok l /\ wrep R r y l.
Proof.
  intros H (c & -> & _ & Ec). cbn [raw_of rbind refines] in H. destruct H as (l & E & H1 & H2 & H3).
  exists l. split; [exact E|]. split; [exact H1|]. split; [exact H2|]. rewrite H3. exact Ec.
Qed.

Theorem wl_ring_ops R r x y a b : lring_ok w R r -> ring_wf w r -> wrep R r x a -> wrep R r y b ->
  (exists c, wl_add_in_place w R a b = Ok c /\ wrep R r (x + y) c) /\
  (exists c, wl_sub_in_place w R a b = Ok c /\ wrep R r (x - y) c) /\
  (exists c, wl_dbl w R a = Ok c /\ wrep R r (2 * x) c) /\
  (exists c, wl_neg w R a = Ok c /\ wrep R r (- x) c) /\
  (exists c, wl_residue w R a = Ok c /\ wf c /\ value c = x mod r_m r) /\
  words_eqb a b = (x mod r_m r =? y mod r_m r).
Proof.
  intros HR Hwf Ha Hb. pose proof Ha as (Ha1 & Ha2 & Ha3). pose proof Hb as (Hb1 & Hb2 & Hb3).
  pose proof (wrep_rep R r x a Ha) as Ra. pose proof (wrep_rep R r y b Hb) as Rb.
  pose proof (wf_facts w w_ge r Hwf) as (P & _).
  split; [|split; [|split; [|split; [|split]]]].
  - apply (refines_rep R r _ (add_asis w (abs r a) (abs r b))); [apply wl_add_refines; assumption | apply (add_ok w w_ge); assumption].
  - apply (refines_rep R r _ (sub_asis w (abs r a) (abs r b))); [apply wl_sub_refines; assumption | apply (sub_ok w w_ge); assumption].
  - apply (refines_rep R r _ (dbl_asis w (abs r a))); [apply wl_dbl_refines; assumption | apply (dbl_ok w w_ge); assumption].
  - apply (refines_rep R r _ (neg_asis (abs r a))); [apply wl_neg_refines; assumption | apply (neg_ok w w_ge); assumption].
  - assert (is_valid r (value a) = true) as Ev by (rewrite Ha3; apply (rep_valid w w_ge); exact Hwf).
    pose proof (wl_residue_refines R r a HR Hwf Ha1 Ha2 Ev) as H. unfold residue_asis, abs in H. cbn [e_ring e_raw] in H.
    rewrite Ev in H. cbn [refines] in H. destruct H as (l & E & H1 & H2 & H3). exists l. split; [exact E|]. split; [exact H1|].
    rewrite H3, Ha3. apply Z.div_mul. lia.
  - rewrite (words_eqb_value a b Ha1 Hb1 ltac:(congruence)), Ha3, Hb3.
    destruct (Z.eqb_spec (x mod r_m r) (y mod r_m r)) as [->|N]; [apply Z.eqb_refl | apply Z.eqb_neq; nia].
Qed.

End WordLevelProofs.

(** non-vacuity: the ring of modulus 2^128 + 1 on 64-bit words (3 words, shift 63) and the reduced form of 5 *)
Example wl_example :
  let R := mklring [2 ^ 63; 0; 2 ^ 63] 63 in
  let r := mkring KLarge (2 ^ 128 + 1) 63 3 0 in
  lring_ok 64 R r /\ ring_wf 64 r /\ wrep 64 R r 5 [2 ^ 63; 2; 0] /\
  wl_is_valid R [2 ^ 63; 2; 0] = true /\
  wl_add_in_place 64 R [2 ^ 63; 2; 0] [0; 2 ^ 64 - 2; 2 ^ 63 - 1] = Ok [0; 0; 0] /\
  wl_neg 64 R [2 ^ 63; 2; 0] = Ok [0; 2 ^ 64 - 2; 2 ^ 63 - 1] /\
  wl_residue 64 R [2 ^ 63; 2; 0] = Ok [5; 0; 0].
Proof.
  cbv zeta. split; [|split; [|split; [|split; [|split; [|split]]]]].
  - unfold lring_ok, nd, Words.wf. cbn [r_kind lr_nd r_m r_shift r_n lr_shift]. split; [reflexivity|].
    split; [repeat constructor; vm_compute; intuition discriminate|]. split; [vm_compute; reflexivity|]. split; reflexivity.
  - unfold ring_wf, tsize, nd. cbn [r_kind r_m r_shift r_n]. split; [lia|]. split; [lia|]. split; [lia|].
    split; [vm_compute; reflexivity|]. vm_compute. intuition discriminate.
  - unfold wrep, Words.wf. split; [repeat constructor; vm_compute; intuition discriminate|]. split; [reflexivity | vm_compute; reflexivity].
  - vm_compute. reflexivity.
  - vm_compute. reflexivity.
  - vm_compute. reflexivity.
  - vm_compute. reflexivity.
Qed.
