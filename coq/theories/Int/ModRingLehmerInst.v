(** C13 (round 4) - the THIRD as-is run of inverse / division the oracle makes: the multi-word ring on word lists with the
    extended gcd of the source (ModRingLehmer.gcd_src 64: gcd_ext_word / gcd_ext_dword transcribed, C12's as-is model of
    gcd_ext_in_place with the Lehmer guess, all with logarithmic fuel).  Definitions only (proofs: ModRingLehmerSrc.v).
    One- and two-word rings do not call the multi-word gcd (invm): they run as in ModRingConvInst.v. *)
From Dashu Require Import Base.Prelude Base.Words Int.ModRingSpec Int.ModRingPowModel Int.ModRingModel Int.ModRingInst
  Int.ModRingWords Int.ModRingConv Int.ModRingConvInst Int.ModRingGcdSmall Int.GrlLehmer Int.ModRingLehmer.
Open Scope Z_scope.

Definition w_div_src (R : lring) (a b : list Z) : result (list Z) :=
  rbind (wl_inv 64 (gcd_src 64) R b) (fun o =>
    match o with None => Panic NonInvertible | Some ib => wl_mul_in_place 64 KM KS KD R ib a end).

Definition hrun_inv_src (m a : Z) : result (option Z) :=
  if is_large m then
    rbind (wl_new 64 m) (fun R => rbind (w_reduce R a) (fun x => rbind (wl_inv 64 (gcd_src 64) R x) (fun o =>
    match o with None => Ok None | Some y => rbind (w_residue R y) (fun v => Ok (Some v)) end)))
  else hrun_inv m a.

Definition hrun_div_src (m a b : Z) : result Z :=
  if is_large m then
    rbind (wl_new 64 m) (fun R => rbind (w_reduce R a) (fun x => rbind (w_reduce R b) (fun y =>
    rbind (w_div_src R x y) (w_residue R))))
  else hrun_bin ODiv m a b.

(** what the gcd code itself returned on (modulus, residue): branch (1 word / 2 words / Lehmer), g, |b|, sign - a Panic
    here is a debug assertion or checked word operation of the gcd code (proved impossible: C13_gcd_ext_src) *)
Definition hrun_gcd_probe (m a : Z) : result (Z * Z * Z * sign) :=
  let r := a mod m in
  if r =? 0 then Ok (0, m, 0, Positive)
  else rbind (gcd_ext_src 64 m r) (fun '(g, b, s) => Ok (gcd_src_branch 64 r, g, b, s)).
