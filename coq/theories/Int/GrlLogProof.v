(** C12 - the estimate-then-correct loops of integer/src/log.rs return floor(log_base target) for EVERY
    estimate that passes the code's own assertion (base^est <= target); termination bounds. *)
From Dashu Require Import Base.Prelude Int.GrlSpec Int.GrlModel Int.GrlSpecProof.
Open Scope Z_scope.

Section LogLoops.
Variables target base : Z.
Hypothesis Hb : 2 <= base.
Hypothesis Ht : 1 <= target.

Definition log_ok (e p : Z) : Prop := 0 <= e /\ p = base ^ e /\ base ^ e <= target < base ^ (e + 1).

Lemma pow_succ' : forall e, 0 <= e -> base ^ (e + 1) = base ^ e * base.
Proof. intros e He. rewrite Z.pow_add_r, Z.pow_1_r by lia. reflexivity. Qed.

Lemma pow_pos' : forall e, 0 <= e -> 1 <= base ^ e.
Proof. intros e He. assert (0 < base ^ e) by (apply Z.pow_pos_nonneg; lia). lia. Qed.

Lemma log_ok_cert : forall e p, log_ok e p -> ilog_cert target base e = true.
Proof.
  intros e p [H0 [_ [H1 H2]]]. unfold ilog_cert. rewrite Z.abs_eq by lia.
  apply andb_true_intro. split; [apply andb_true_intro; split|]; [apply Z.leb_le | apply Z.leb_le | apply Z.ltb_lt]; assumption.
Qed.

(** log_large *)
Lemma log_large_loop_correct : forall fuel est est_pow e p,
  0 <= est -> est_pow = base ^ est -> est_pow <= target ->
  log_large_loop fuel target base est est_pow = Ok (e, p) -> log_ok e p.
Proof.
  induction fuel as [|k IH]; intros est est_pow e p He Hp Hle H; cbn [log_large_loop] in H; [discriminate|].
  pose proof (pow_succ' est He) as PS. pose proof (pow_pos' est He) as PP.
  destruct (Z.ltb_spec (est_pow * base) target) as [L|L].
  - apply (IH (est + 1) (est_pow * base)); [lia | subst est_pow; lia | lia | exact H].
  - destruct (Z.eqb_spec (est_pow * base) target) as [E|NE]; injection H as <- <-.
    + unfold log_ok. split; [lia|]. split; [subst est_pow; lia|].
      pose proof (pow_succ' (est + 1) ltac:(lia)). subst est_pow. nia.
    + unfold log_ok. split; [lia|]. split; [exact Hp|]. subst est_pow. lia.
Qed.

Lemma log_large_loop_terminates : forall fuel est est_pow, 1 <= est_pow -> Z.max 0 (target - est_pow) < Z.of_nat fuel ->
  exists r, log_large_loop fuel target base est est_pow = Ok r.
Proof.
  induction fuel as [|k IH]; intros est est_pow Hp Hf; cbn [log_large_loop]; [cbn in Hf; lia|].
  destruct (Z.ltb_spec (est_pow * base) target) as [L|L].
  - apply IH; nia.
  - destruct (est_pow * base =? target); eauto.
Qed.

Theorem log_large_asis_correct : forall fuel est0 e p,
  log_large_asis fuel est0 target base = Ok (e, p) -> ilog_cert target base e = true /\ p = base ^ e.
Proof.
  intros fuel est0 e p H. unfold log_large_asis in H.
  destruct (Z.ltb_spec target (base ^ Z.max est0 1)) as [L|L]; [discriminate|].
  apply log_large_loop_correct in H; [|lia|reflexivity|exact L].
  split; [eapply log_ok_cert; exact H | apply H].
Qed.

(** log_dword *)
Lemma log_dword_loop_correct : forall fuel D est est_pow e p, target < D ->
  0 <= est -> est_pow = base ^ est -> est_pow <= target ->
  log_dword_loop fuel D target base est est_pow = Ok (e, p) -> log_ok e p.
Proof.
  induction fuel as [|k IH]; intros D est est_pow e p HD He Hp Hle H; cbn [log_dword_loop] in H; [discriminate|].
  pose proof (pow_succ' est He) as PS. pose proof (pow_pos' est He) as PP.
  destruct (Z.leb_spec D (est_pow * base)) as [O|O].
  { injection H as <- <-. unfold log_ok. split; [lia|]. split; [exact Hp|]. subst est_pow. lia. }
  destruct (Z.ltb_spec (est_pow * base) target) as [L|L].
  - apply (IH D (est + 1) (est_pow * base)); [exact HD | lia | subst est_pow; lia | lia | exact H].
  - destruct (Z.eqb_spec (est_pow * base) target) as [E|NE]; injection H as <- <-.
    + unfold log_ok. split; [lia|]. split; [subst est_pow; lia|].
      pose proof (pow_succ' (est + 1) ltac:(lia)). subst est_pow. nia.
    + unfold log_ok. split; [lia|]. split; [exact Hp|]. subst est_pow. lia.
Qed.

Theorem log_dword_asis_correct : forall fuel D est e p, target < D -> 0 <= est ->
  log_dword_asis fuel D est target base = Ok (e, p) -> ilog_cert target base e = true /\ p = base ^ e.
Proof.
  intros fuel D est e p HD He H. unfold log_dword_asis in H.
  destruct (Z.eqb_spec target 0); [discriminate|].
  assert (forall e0 p0, log_ok e0 p0 -> ilog_cert target base e0 = true /\ p0 = base ^ e0) as K.
  { intros e0 p0 K0. split; [eapply log_ok_cert; exact K0 | apply K0]. }
  destruct (Z.eqb_spec target 1) as [E1|N1].
  { injection H as <- <-. apply K. unfold log_ok. rewrite Z.pow_0_r, Z.pow_1_r. lia. }
  destruct (Z.ltb_spec target base) as [L|L].
  { injection H as <- <-. apply K. unfold log_ok. rewrite Z.pow_0_r, Z.pow_1_r. lia. }
  destruct (Z.eqb_spec target base) as [Eb|Nb].
  { injection H as <- <-. apply K. unfold log_ok. rewrite Z.pow_1_r. change (1 + 1) with 2. rewrite Z.pow_2_r. nia. }
  destruct (Z.ltb_spec target (base ^ est)) as [L2|L2]; [discriminate|].
  apply K. eapply log_dword_loop_correct; [exact HD | exact He | reflexivity | exact L2 | exact H].
Qed.

(** log_word_base, stage B: multiply until reached or passed, divide once when passed *)
Lemma lwb_stage_b_correct : forall fuel est est_pow e p,
  0 <= est -> est_pow = base ^ est -> (est_pow <= target \/ (1 <= est /\ base ^ (est - 1) <= target)) ->
  lwb_stage_b fuel target base est est_pow = Ok (e, p) -> log_ok e p.
Proof.
  induction fuel as [|k IH]; intros est est_pow e p He Hp Hpre H; cbn [lwb_stage_b] in H; [discriminate|].
  pose proof (pow_succ' est He) as PS. pose proof (pow_pos' est He) as PP.
  destruct (Z.ltb_spec est_pow target) as [L|L].
  - apply (IH (est + 1) (est_pow * base)); [lia | subst est_pow; lia | | exact H].
    right. split; [lia|]. replace (est + 1 - 1) with est by lia. subst est_pow. lia.
  - destruct (Z.eqb_spec est_pow target) as [E|NE]; injection H as <- <-.
    + unfold log_ok. split; [lia|]. split; [exact Hp|]. subst est_pow. nia.
    + destruct Hpre as [Hpre|[H1 H2]]; [lia|].
      pose proof (pow_succ' (est - 1) ltac:(lia)) as PS'. replace (est - 1 + 1) with est in PS' by lia.
      assert (est_pow / base = base ^ (est - 1)) as Ed.
      { subst est_pow. rewrite PS'. apply Z.div_mul. lia. }
      unfold log_ok. split; [lia|]. split; [exact Ed|]. replace (est - 1 + 1) with est by lia. subst est_pow. lia.
Qed.

Lemma lwb_stage_b_terminates : forall fuel est est_pow, 1 <= est_pow -> Z.max 0 (target - est_pow) < Z.of_nat fuel ->
  exists r, lwb_stage_b fuel target base est est_pow = Ok r.
Proof.
  induction fuel as [|k IH]; intros est est_pow Hp Hf; cbn [lwb_stage_b]; [cbn in Hf; lia|].
  destruct (Z.ltb_spec est_pow target) as [L|L].
  - apply IH; nia.
  - destruct (est_pow =? target); eauto.
Qed.

(** stage A: whole-word steps *)
Variable w : Z.
Hypothesis Hw : 0 < w.

Lemma wlen_bounds : forall v, 0 < v -> 1 <= wlen w v /\ (2 ^ w) ^ (wlen w v - 1) <= v < (2 ^ w) ^ wlen w v.
Proof.
  intros v Hv. unfold wlen. destruct (Z.eqb_spec v 0); [lia|].
  pose proof (Z.log2_spec v Hv) as [L U]. pose proof (Z.log2_nonneg v) as Hl.
  set (l := Z.log2 v) in *. pose proof (Z.div_mod l w ltac:(lia)) as DM.
  pose proof (Z.mod_pos_bound l w Hw) as MB. assert (0 <= l / w) by (apply Z.div_pos; lia).
  split; [lia|]. rewrite <- !Z.pow_mul_r by lia. replace (l / w + 1 - 1) with (l / w) by lia.
  assert (2 ^ (w * (l / w)) <= 2 ^ l) by (apply Z.pow_le_mono_r; lia).
  assert (2 ^ Z.succ l <= 2 ^ (w * (l / w + 1))) by (apply Z.pow_le_mono_r; lia). lia.
Qed.

Variables wbase wexp : Z.
Hypothesis Hwexp : 0 <= wexp.
Hypothesis Hwbase : wbase = base ^ wexp.
Hypothesis Hwb : wbase < 2 ^ w.

Lemma lwb_stage_a_correct : forall fuel est est_pow e p, 2 <= wlen w target ->
  0 <= est -> est_pow = base ^ est -> est_pow <= target ->
  lwb_stage_a fuel w target wbase wexp est est_pow = Ok (e, p) -> 0 <= e /\ p = base ^ e /\ p <= target.
Proof.
  induction fuel as [|k IH]; intros est est_pow e p Hlt He Hp Hle H; cbn [lwb_stage_a] in H; [discriminate|].
  pose proof (pow_pos' est He) as PP.
  destruct (Z.ltb_spec (wlen w est_pow) (wlen w target)) as [L|L]; [|injection H as <- <-; auto].
  match type of H with (if ?c then _ else _) = _ => destruct c eqn:C end; [injection H as <- <-; auto|].
  apply (IH (est + wexp) (est_pow * wbase)); [exact Hlt | lia | subst est_pow wbase; rewrite Z.pow_add_r by lia; reflexivity | | exact H].
  pose proof (wlen_bounds est_pow ltac:(lia)) as [E1 [E2 E3]].
  pose proof (wlen_bounds target ltac:(lia)) as [T1 [T2 T3]].
  assert (1 <= wbase) as W1 by (rewrite Hwbase; apply pow_pos'; exact Hwexp).
  set (B := 2 ^ w) in *. assert (0 < B) as HB by (apply Z.pow_pos_nonneg; lia).
  set (le := wlen w est_pow) in *. set (lt := wlen w target) in *.
  apply andb_false_iff in C. destruct C as [C|C].
  - apply Z.eqb_neq in C. assert (le + 1 <= lt - 1) as Hl by lia.
    assert (B ^ (le + 1) <= B ^ (lt - 1)) by (apply Z.pow_le_mono_r; lia).
    rewrite Z.pow_add_r, Z.pow_1_r in H0 by lia.
    assert (0 < B ^ le) by (apply Z.pow_pos_nonneg; lia). nia.
  - apply Z.ltb_ge in C. destruct (Z.eq_dec le (lt - 1)) as [El|Nl].
    + unfold top_word, highest_dword in C. fold le lt in C.
      rewrite !Z.pow_mul_r in C by lia. fold B in C.
      replace (lt - 2) with (le - 1) in C by lia.
      assert (0 < B ^ (le - 1)) as HJ by (apply Z.pow_pos_nonneg; lia).
      set (J := B ^ (le - 1)) in *.
      pose proof (Z.div_mod est_pow J ltac:(lia)) as D1. pose proof (Z.mod_pos_bound est_pow J HJ) as M1.
      pose proof (Z.div_mod target J ltac:(lia)) as D2. pose proof (Z.mod_pos_bound target J HJ) as M2.
      assert (0 <= est_pow / J) by (apply Z.div_pos; lia).
      nia.
    + assert (le + 1 <= lt - 1) as Hl by lia.
      assert (B ^ (le + 1) <= B ^ (lt - 1)) by (apply Z.pow_le_mono_r; lia).
      rewrite Z.pow_add_r, Z.pow_1_r in H0 by lia.
      assert (0 < B ^ le) by (apply Z.pow_pos_nonneg; lia). nia.
Qed.

Theorem log_word_base_asis_correct : forall fuel est e p, 2 <= wlen w target -> 0 <= est ->
  log_word_base_asis fuel w est wexp target base = Ok (e, p) -> ilog_cert target base e = true /\ p = base ^ e.
Proof.
  intros fuel est e p Hlt He H. unfold log_word_base_asis in H.
  destruct (Z.ltb_spec target (base ^ est)) as [L|L]; [discriminate|].
  rewrite <- Hwbase in H.
  destruct (lwb_stage_a fuel w target wbase wexp est (base ^ est)) as [[e1 p1]| | |] eqn:A; cbn [rbind fst snd] in H; try discriminate.
  apply lwb_stage_a_correct in A; [|exact Hlt | exact He | reflexivity | exact L]. destruct A as [A0 [A1 A2]].
  apply lwb_stage_b_correct in H; [|exact A0 | exact A1 | left; exact A2].
  split; [eapply log_ok_cert; exact H | apply H].
Qed.

End LogLoops.

Example log_large_asis_ex : log_large_asis 50 1 (3 ^ 40 + 5) 3 = Ok (40, 3 ^ 40).
Proof. vm_compute. reflexivity. Qed.
Example log_word_base_asis_ex : log_word_base_asis 50 8 2 3 (7 ^ 20 - 1) 7 = Ok (19, 7 ^ 19).
Proof. vm_compute. reflexivity. Qed.
Example log_dword_asis_ex : log_dword_asis 50 (2 ^ 16) 1 65535 3 = Ok (10, 3 ^ 10).
Proof. vm_compute. reflexivity. Qed.

(** the shortcuts of TypedReprRef::log: zero / base < 2 panic, powers of two by bit length *)
Theorem ilog_shortcuts_correct : forall x b r, 0 <= x -> ilog_shortcuts x b = Some r ->
  match r with
  | Ok e => ilog_cert x b e = true
  | Panic LogOperand => ilog_panic x b = true
  | _ => False
  end.
Proof.
  intros x b r Hx H. unfold ilog_shortcuts in H. unfold ilog_panic.
  destruct (Z.eqb_spec x 0) as [E0|N0]; [injection H as <-; reflexivity|].
  destruct (Z.ltb_spec b 2) as [L2|L2]; [injection H as <-; reflexivity|].
  assert (0 < x) as Hx' by lia. pose proof (Z.log2_spec x Hx') as [S1 S2]. pose proof (Z.log2_nonneg x) as S0.
  assert (bit_len x - 1 = Z.log2 x) as BL by (unfold bit_len; destruct (Z.eqb_spec x 0); lia).
  destruct (Z.eqb_spec b 2) as [E2|N2].
  { injection H as <-. subst b. rewrite BL. unfold ilog_cert. rewrite Z.abs_eq by lia.
    apply andb_true_intro. split; [apply andb_true_intro; split|]; [apply Z.leb_le | apply Z.leb_le | apply Z.ltb_lt]; unfold Z.succ in *; lia. }
  destruct (is_pow2 b) eqn:P; [|discriminate]. injection H as <-. rewrite BL.
  unfold is_pow2 in P. apply andb_prop in P. destruct P as [_ P]. apply Z.eqb_eq in P.
  set (k := Z.log2 b) in *. assert (1 <= k).
  { destruct (Z_lt_le_dec k 1); [|assumption]. assert (k = 0) by (pose proof (Z.log2_nonneg b); lia).
    rewrite H in P. change (2 ^ 0) with 1 in P. lia. }
  set (l := Z.log2 x) in *. pose proof (Z.div_mod l k ltac:(lia)) as DM. pose proof (Z.mod_pos_bound l k ltac:(lia)) as MB.
  assert (0 <= l / k) by (apply Z.div_pos; lia).
  unfold ilog_cert. rewrite Z.abs_eq by lia. rewrite P. rewrite <- !Z.pow_mul_r by lia.
  assert (2 ^ (k * (l / k)) <= 2 ^ l) by (apply Z.pow_le_mono_r; lia).
  assert (2 ^ Z.succ l <= 2 ^ (k * (l / k + 1))) by (apply Z.pow_le_mono_r; lia).
  apply andb_true_intro. split; [apply andb_true_intro; split|]; [apply Z.leb_le | apply Z.leb_le | apply Z.ltb_lt]; lia.
Qed.
