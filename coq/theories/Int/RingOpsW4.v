(** C01 round 4 (L1): the Small x Large arms of mul_ops.rs entirely at word level.
    - repr::mul_large_dword: 0 / 1 shortcuts; a word that is a power of two goes through shift::shl_in_place - here the
      WORD-LEVEL model of C09 (Int/BitsKernels.v; coq/gen/WordKernelsGen.v regenerates the same loop from shift.rs) instead
      of the by-value definition of RingOps.v; other words through mul_word_in_place; double words through mul_dword_in_place
      with the two-word spill of the carry
    - repr::mul_large: the `x * x` square shortcut is decided by cmp::cmp_in_place (word-level model of C05,
      Int/ReprOrdModel.v: lengths first, then words from the top) instead of a list equality
    Definitions only. *)
From Dashu Require Import Base.Prelude Base.Words Int.RingAdd Int.RingMul Int.RingOps Int.RingMulW Int.RingOpsW.
From Dashu Require Int.BitsKernels Int.ReprOrdModel.
Open Scope Z_scope.

Section OpsW4.
Variable w : Z.
Variable div2by1 : Z -> Z -> Z * Z.
Variable T_simple T_kara CHUNK SQR_SIMPLE : nat.

Definition mul_large_dword_w (buffer : list Z) (rhs : Z) : trepr :=
  if rhs =? 0 then Small 0
  else if rhs =? 1 then from_buffer w buffer
  else if rhs <? B w then
    let '(r, carry) := if is_power_of_two rhs then BitsKernels.shl_in_place w buffer (Z.log2 rhs)   (* dw.trailing_zeros() *)
                       else mul_word_in_place w buffer rhs in
    from_buffer w (r ++ [carry])                                                                   (* push_resizing(carry) *)
  else
    let '(r, carry) := mul_dword_in_place w buffer rhs in
    if carry =? 0 then from_buffer w r else from_buffer w (r ++ [carry mod B w; carry / B w]).

Definition mul_large_w4 (lhs rhs : list Z) : result trepr :=
  match ReprOrdModel.cmp_in_place lhs rhs with
  | Eq => square_large_w w div2by1 T_simple T_kara SQR_SIMPLE lhs
  | _ => match multiply_w w div2by1 T_simple T_kara CHUNK lhs rhs with
         | Ok r => Ok (from_buffer w r)
         | Panic p => Panic p | Err e => Err e | OutOfFuel => OutOfFuel
         end
  end.

Definition repr_mul_w4 (x y : trepr) : result trepr :=
  match x, y with
  | Small d0, Small d1 => Ok (mul_dword w d0 d1)
  | Small d0, Large b1 => Ok (mul_large_dword_w b1 d0)
  | Large b0, Small d1 => Ok (mul_large_dword_w b0 d1)
  | Large b0, Large b1 => mul_large_w4 b0 b1
  end.

End OpsW4.
