(** C02 round 5 - the RECURSION of integer/src/div/divide_conquer.rs regenerated (coq/gen/DivBodiesGen.v: the two mutually
    recursive bodies with the callee as a function parameter, the knot through fuel, the blocked loop `while m >= 2 * n`) is
    the hand model of Int/DivWordModel.v (dc_small_quotient / dc_same_len / dc_blocks / dc_div_rem), for every word size
    w > 0 and every instance P of the primitives that meets the 3-by-2 and multiply-subtract contracts, on well-formed
    operands with a normalised divisor (what div_rem_unshifted_in_place hands over).  Whenever the hand model does not run
    out of fuel (DivDCTotal.v: never, with fuel_for), the generated function returns the same words and carry. *)
From Dashu Require Import Base.Prelude Base.Words Int.RingAdd Int.WordPrims Int.DivWordModel Int.DivWordProofs Int.DivSimpleProofs
  Int.DivLargeProofs Int.DivDCProofs Int.DivDCTotal Int.DivContracts Int.DivKernelsBase Int.DivKernelsGenProofs Int.DivKernelsInst Int.DivOwn.
From DashuGen Require Import Params DivKernelsGen DivBodiesGen.
Open Scope Z_scope.

Section Bodies.
Variable w : Z.
Hypothesis w_pos : 0 < w.
Variable P : div_prims.
Hypothesis P3 : contract_3by2 w (p3by2 P).
Hypothesis Pms : contract_mul_sub w (pmul_sub P).
Notation B := (Words.B w).
Notation wf := (Words.wf w).
Notation T := div_threshold_simple_nat.
Notation kernel_pre := (DivLargeProofs.kernel_pre w).
Notation kernel_post := (DivLargeProofs.kernel_post w).
Notation dsq := (dc_small_quotient w (p3by2 P) (pmul_sub P) T).

Lemma T_ge : (2 <= T)%nat. Proof. vm_compute. lia. Qed.

(** the correction `while` of the whole body is the one of the round-4 tail *)
Lemma sq_while_eq rhs : forall fuel rem ro q qo,
  div_rem_in_place_small_quotient_open_while_gen P w rhs fuel rem ro q qo = dc_small_quotient_tail_while_gen P w rhs fuel rem ro q qo.
Proof.
  induction fuel as [|f IH]; intros; [reflexivity|].
  cbn [div_rem_in_place_small_quotient_open_while_gen dc_small_quotient_tail_while_gen].
  destruct (ro <? 0); [|reflexivity]. destruct (k_add_same_len w rem rhs) as [rem' c]. destruct (k_sub_one w q) as [q' b]. apply IH.
Qed.

(** the generated body = threshold test, schoolbook kernel, recursive 2m/m division on the top parts, round-4 tail *)
Lemma sq_open_unfold rec lhs rhs d :
  div_rem_in_place_small_quotient_open_gen P w rec lhs rhs d =
  (let n := length rhs in let m := (length lhs - n)%nat in
   if (m <=? T)%nat then simple_div_rem_in_place_gen P w lhs rhs d
   else let '(t, r1) := rec (skipn (n - m) lhs) (skipn (n - m) rhs) d in
        dc_small_quotient_tail_gen P w (firstn (n - m) lhs ++ t) rhs n m (b2z r1)).
Proof.
  unfold div_rem_in_place_small_quotient_open_gen, dc_small_quotient_tail_gen. cbv zeta.
  destruct (length lhs - length rhs <=? T)%nat.
  - destruct (simple_div_rem_in_place_gen P w lhs rhs d). reflexivity.
  - destruct (rec _ _ d) as [t r1]. destruct (k_add_signed_mul P w _ Negative _ _) as [rem r2].
    match goal with |- (let '(_, _) := ?c in _) = _ => destruct c as [rem0 ro] end.
    rewrite sq_while_eq. reflexivity.
Qed.

Lemma highest_dword_skipn k (l : list Z) : (k + 2 <= length l)%nat -> highest_dword w (skipn k l) = highest_dword w l.
Proof.
  intros H. unfold highest_dword, top_words. rewrite skipn_length, skipn_skipn. do 2 f_equal. lia.
Qed.

Lemma half_le m : (m / 2 <= m)%nat. Proof. apply Nat.div_le_upper_bound; lia. Qed.
Lemma half_ge m : (2 <= m)%nat -> (1 <= m / 2)%nat. Proof. intros H. apply Nat.div_le_lower_bound; lia. Qed.

(** the two 3/2 divisions of div_rem_in_place_same_len, given what the recursive calls return *)
Lemma same_len_open_eq (rec : list Z -> list Z -> Z -> list Z * bool) f l r d hi o1 lo o2 :
  let nlo := (length r / 2)%nat in
  length l = (2 * length r)%nat -> length hi = length (skipn nlo l) ->
  rec (skipn nlo l) r d = (hi, o1) ->
  rec (firstn (length r + nlo) (firstn nlo l ++ hi)) r d = (lo, o2) ->
  f = rec ->
  div_rem_in_place_same_len_open_gen P w f l r d = (lo ++ skipn (length r + nlo) (firstn nlo l ++ hi), o1).
Proof.
  intros nlo Hl Hhi E1 E2 ->. unfold div_rem_in_place_same_len_open_gen. cbv zeta. fold nlo. rewrite E1, E2. reflexivity.
Qed.

Theorem dc_small_quotient_gen_eq : forall fuel lhs rhs d r,
  kernel_pre lhs rhs -> (length lhs - length rhs <= length rhs)%nat -> d = highest_dword w rhs ->
  dsq fuel lhs rhs = Ok r -> dc_small_quotient_gen P w fuel lhs rhs d = r.
Proof.
  induction fuel as [|f IH]; intros lhs rhs d res Hpre Hmn Hd E; [discriminate|].
  pose proof Hpre as (Hwl & Hwr & Hn2 & Hnl & Hnorm).
  cbn [dc_small_quotient_gen]. rewrite sq_open_unfold. rewrite dc_small_quotient_tail_unfold in E. cbv zeta in E |- *.
  set (n := length rhs) in *. set (m := (length lhs - n)%nat) in *.
  destruct (Nat.leb_spec m T) as [Hle|Hgt].
  { rewrite simple_div_rem_in_place_gen_eq by (try assumption; try lia; intros E0; unfold n in Hn2; rewrite E0 in Hn2; cbn in Hn2; lia). congruence. }
  pose proof T_ge as HT.
  set (l := skipn (n - m) lhs) in *. set (r := skipn (n - m) rhs) in *. set (nlo := (m / 2)%nat) in *.
  assert (Hnlo : (nlo <= m)%nat) by apply half_le.
  assert (Hll : length l = (2 * m)%nat) by (unfold l; rewrite skipn_length; unfold m; lia).
  assert (Hlr : length r = m) by (unfold r; rewrite skipn_length; unfold n; lia).
  assert (Hwl' : wf l) by (apply DivSimpleProofs.wf_skipn; exact Hwl).
  assert (Hwr' : wf r) by (apply DivSimpleProofs.wf_skipn; exact Hwr).
  assert (Hnr : DivSimpleProofs.normalized_top w r) by (apply (normalized_top_suffix w w_pos); [exact Hwr | exact Hnorm | fold n; lia]).
  assert (Hdr : d = highest_dword w r) by (unfold r; rewrite highest_dword_skipn by (fold n; lia); exact Hd).
  assert (Hpre1 : kernel_pre (skipn nlo l) r).
  { repeat split; try assumption; try lia. apply DivSimpleProofs.wf_skipn; exact Hwl'. rewrite skipn_length. lia. }
  destruct (dsq f (skipn nlo l) r) as [[hi o1]| | |] eqn:E1; cbn [rbind] in E; try discriminate.
  pose proof (dc_small_quotient_sound w w_pos (p3by2 P) P3 (pmul_sub P) Pms T HT _ _ _ _ _ Hpre1 ltac:(rewrite skipn_length; lia) E1) as (Hwhi & Hlhi & _ & _).
  pose proof (IH _ _ d _ Hpre1 ltac:(rewrite skipn_length; lia) Hdr E1) as G1.
  set (l1 := firstn nlo l ++ hi) in *.
  assert (Hll1 : length l1 = (2 * m)%nat) by (unfold l1; rewrite app_length, firstn_length_le, Hlhi, skipn_length; lia).
  assert (Hwl1 : wf l1) by (unfold l1; apply wf_app; split; [apply DivSimpleProofs.wf_firstn; exact Hwl' | exact Hwhi]).
  assert (Hpre2 : kernel_pre (firstn (m + nlo) l1) r).
  { repeat split; try assumption; try lia. apply DivSimpleProofs.wf_firstn; exact Hwl1. rewrite firstn_length_le; lia. }
  destruct (dsq f (firstn (m + nlo) l1) r) as [[lo o2]| | |] eqn:E2; cbn [rbind] in E; try discriminate.
  pose proof (dc_small_quotient_sound w w_pos (p3by2 P) P3 (pmul_sub P) Pms T HT _ _ _ _ _ Hpre2 ltac:(rewrite firstn_length_le; lia) E2) as (Hwlo & Hllo & _ & _).
  pose proof (IH _ _ d _ Hpre2 ltac:(rewrite firstn_length_le; lia) Hdr E2) as G2.
  rewrite firstn_length_le in Hllo by lia.
  fold l r.
  rewrite (same_len_open_eq (dc_small_quotient_gen P w f) _ l r d hi o1 lo o2); fold nlo; rewrite ?Hlr; try assumption; try reflexivity; try lia.
  fold l1.
  assert (Hwf2 : wf (firstn (n - m) lhs ++ lo ++ skipn (m + nlo) l1)).
  { apply wf_app. split; [apply DivSimpleProofs.wf_firstn; exact Hwl|]. apply wf_app. split; [exact Hwlo | apply DivSimpleProofs.wf_skipn; exact Hwl1]. }
  assert (Hl2 : length (firstn (n - m) lhs ++ lo ++ skipn (m + nlo) l1) = (n + m)%nat).
  { rewrite !app_length, firstn_length_le, skipn_length by lia. lia. }
  rewrite b2z_Zb2z.
  exact (dc_small_quotient_tail_gen_eq w w_pos P _ rhs m o1 res Pms Hwf2 Hwr ltac:(fold n; lia) Hl2 E).
Qed.

Theorem dc_same_len_gen_eq fuel lhs rhs d r :
  kernel_pre lhs rhs -> length lhs = (2 * length rhs)%nat -> d = highest_dword w rhs ->
  dc_same_len w (p3by2 P) (pmul_sub P) T fuel lhs rhs = Ok r -> dc_same_len_gen P w fuel lhs rhs d = r.
Proof.
  intros Hpre Hl Hd E. pose proof Hpre as (Hwl & Hwr & Hn2 & Hnl & Hnorm). pose proof T_ge as HT.
  unfold dc_same_len in E. cbv zeta in E. set (n := length rhs) in *. set (nlo := (n / 2)%nat) in *.
  assert (Hnlo : (nlo <= n)%nat) by apply half_le.
  assert (Hpre1 : kernel_pre (skipn nlo lhs) rhs).
  { repeat split; try assumption. apply DivSimpleProofs.wf_skipn; exact Hwl. rewrite skipn_length. fold n. lia. }
  destruct (dsq fuel (skipn nlo lhs) rhs) as [[hi o1]| | |] eqn:E1; cbn [rbind] in E; try discriminate.
  pose proof (dc_small_quotient_sound w w_pos (p3by2 P) P3 (pmul_sub P) Pms T HT _ _ _ _ _ Hpre1 ltac:(rewrite skipn_length; fold n; lia) E1) as (Hwhi & Hlhi & _ & _).
  pose proof (dc_small_quotient_gen_eq fuel _ _ d _ Hpre1 ltac:(rewrite skipn_length; fold n; lia) Hd E1) as G1.
  set (l1 := firstn nlo lhs ++ hi) in *.
  assert (Hll1 : length l1 = (2 * n)%nat) by (unfold l1; rewrite app_length, firstn_length_le, Hlhi, skipn_length; lia).
  assert (Hwl1 : wf l1) by (unfold l1; apply wf_app; split; [apply DivSimpleProofs.wf_firstn; exact Hwl | exact Hwhi]).
  assert (Hpre2 : kernel_pre (firstn (n + nlo) l1) rhs).
  { repeat split; try assumption. apply DivSimpleProofs.wf_firstn; exact Hwl1. rewrite firstn_length_le; fold n; lia. }
  destruct (dsq fuel (firstn (n + nlo) l1) rhs) as [[lo o2]| | |] eqn:E2; cbn [rbind] in E; try discriminate.
  pose proof (dc_small_quotient_gen_eq fuel _ _ d _ Hpre2 ltac:(rewrite firstn_length_le; fold n; lia) Hd E2) as G2.
  unfold dc_same_len_gen.
  rewrite (same_len_open_eq (dc_small_quotient_gen P w fuel) _ lhs rhs d hi o1 lo o2); fold n nlo; try assumption; try reflexivity.
  fold l1. congruence.
Qed.

(** *** the blocked loop `while m >= 2 * n` of divide_conquer::div_rem_in_place *)
Lemma or_true_if (o ov : bool) : (if o then true else ov) = ov || o.
Proof. destruct o, ov; reflexivity. Qed.

Lemma blocks_while rfuel rhs d : wf rhs -> (2 <= length rhs)%nat -> DivSimpleProofs.normalized_top w rhs -> d = highest_dword w rhs ->
  forall j fuel lhs m ov res, wf lhs -> (m <= length lhs)%nat ->
  ((j + 1) * length rhs <= m)%nat -> (m < (j + 2) * length rhs)%nat -> (j < fuel)%nat ->
  dc_blocks w (p3by2 P) (pmul_sub P) T rfuel j lhs rhs m ov = Ok res ->
  dc_div_rem_in_place_while_gen P w (length rhs) rfuel rhs d fuel lhs ov m =
    (let '(l1, ov1, m1) := res in (l1, ov1, m1, false)) /\
  (let '(l1, ov1, m1) := res in wf l1 /\ length l1 = length lhs /\ m1 = (m - j * length rhs)%nat).
Proof.
  intros Hwr Hn2 Hnorm Hd. set (n := length rhs) in *. pose proof T_ge as HT.
  induction j as [|j IH]; intros fuel lhs m ov res Hwl Hml Hlo Hhi Hfuel E.
  - cbn [dc_blocks] in E. inversion E; subst res. destruct fuel as [|fuel]; [lia|].
    cbn [dc_div_rem_in_place_while_gen]. destruct (Nat.leb_spec (2 * n) m) as [H|H]; [exfalso; clear - H Hhi; lia|]. split; [reflexivity|]. split; [exact Hwl|]. split; [reflexivity|lia].
  - destruct fuel as [|fuel]; [lia|]. cbn [dc_blocks] in E. fold n in E. cbn [dc_div_rem_in_place_while_gen].
    assert (H2 : (2 * n <= m)%nat) by nia.
    destruct (Nat.leb_spec (2 * n) m) as [_|H]; [|exfalso; lia].
    replace (m - (m - 2 * n))%nat with (2 * n)%nat by lia.
    set (X := firstn (2 * n) (skipn (m - 2 * n) lhs)) in *.
    assert (HlX : length X = (2 * n)%nat) by (unfold X; rewrite firstn_length_le; [reflexivity | rewrite skipn_length; lia]).
    assert (HpreX : kernel_pre X rhs).
    { repeat split; try assumption. apply DivSimpleProofs.wf_firstn, DivSimpleProofs.wf_skipn; exact Hwl. fold n. lia. }
    destruct (dc_same_len w (p3by2 P) (pmul_sub P) T rfuel X rhs) as [[blk o]| | |] eqn:E1; cbn [rbind] in E; try discriminate.
    pose proof (dc_same_len_sound w w_pos (p3by2 P) P3 (pmul_sub P) Pms T HT _ _ _ _ _ HpreX HlX E1) as (Hwb & Hlb & _ & _).
    rewrite (dc_same_len_gen_eq rfuel X rhs d _ HpreX HlX Hd E1). rewrite or_true_if.
    set (lhs' := firstn (m - 2 * n) lhs ++ blk ++ skipn m lhs) in *.
    assert (Hl' : length lhs' = length lhs).
    { unfold lhs'. rewrite !app_length, firstn_length_le, skipn_length, Hlb, HlX by lia. lia. }
    assert (Hw' : wf lhs').
    { unfold lhs'. apply wf_app. split; [apply DivSimpleProofs.wf_firstn; exact Hwl|]. apply wf_app. split; [exact Hwb | apply DivSimpleProofs.wf_skipn; exact Hwl]. }
    destruct (IH fuel lhs' (m - n)%nat (ov || o) res Hw' ltac:(lia) ltac:(nia) ltac:(nia) ltac:(lia) E) as (G & Hres).
    split; [exact G|]. destruct res as [[l1 ov1] m1]. destruct Hres as (? & ? & ?). split; [assumption|]. split; [lia|nia].
Qed.

Theorem dc_div_rem_in_place_gen_eq rfuel lhs rhs d r :
  kernel_pre lhs rhs -> d = highest_dword w rhs ->
  dc_div_rem w (p3by2 P) (pmul_sub P) T rfuel lhs rhs = Ok r -> dc_div_rem_in_place_gen P w rfuel lhs rhs d = r.
Proof.
  intros Hpre Hd E. pose proof Hpre as (Hwl & Hwr & Hn2 & Hnl & Hnorm). pose proof T_ge as HT.
  unfold dc_div_rem in E. cbv zeta in E. unfold dc_div_rem_in_place_gen. cbv zeta.
  set (n := length rhs) in *. set (m0 := length lhs) in *. set (j := (m0 / n - 1)%nat) in *.
  assert (Hq : (1 <= m0 / n)%nat) by (apply Nat.div_le_lower_bound; lia).
  pose proof (Nat.div_mod m0 n ltac:(lia)) as Hdm. pose proof (Nat.mod_upper_bound m0 n ltac:(lia)) as Hmb.
  destruct (dc_blocks w (p3by2 P) (pmul_sub P) T rfuel j lhs rhs m0 false) as [[[lhs1 ov] m]| | |] eqn:Eb; cbn [rbind] in E; try discriminate.
  destruct (blocks_while rfuel rhs d Hwr Hn2 Hnorm Hd j (S m0) lhs m0 false _ Hwl ltac:(lia) ltac:(fold n; nia) ltac:(fold n; nia) ltac:(nia) Eb)
    as (G & Hw1 & Hl1 & Hm).
  fold n in G, Hm. rewrite G. cbn iota.
  destruct (Nat.ltb_spec n m) as [Hlt|Hge].
  - assert (Hpre2 : kernel_pre (firstn m lhs1) rhs).
    { repeat split; try assumption. apply DivSimpleProofs.wf_firstn; exact Hw1. rewrite firstn_length_le; fold n; lia. }
    destruct (dsq rfuel (firstn m lhs1) rhs) as [[lo o]| | |] eqn:E2; cbn [rbind] in E; try discriminate.
    rewrite (dc_small_quotient_gen_eq rfuel _ _ d _ Hpre2 ltac:(rewrite firstn_length_le; fold n; nia) Hd E2).
    rewrite or_true_if. congruence.
  - congruence.
Qed.

(** *** the algorithm switch of div/mod.rs over the generated divide-and-conquer kernel *)
Theorem div_rem_in_place_full_gen_eq lhs rhs d r :
  kernel_pre lhs rhs -> d = highest_dword w rhs ->
  div_rem_in_place w (p3by2 P) (pmul_sub P) T (fuel_for lhs) lhs rhs = Ok r -> div_rem_in_place_full_gen P w lhs rhs d = r.
Proof.
  intros Hpre Hd E. pose proof Hpre as (Hwl & Hwr & Hn2 & Hnl & Hnorm).
  unfold div_rem_in_place in E. unfold div_rem_in_place_full_gen.
  destruct ((length rhs <=? T)%nat || (length lhs - length rhs <=? T)%nat).
  - rewrite simple_div_rem_in_place_gen_eq by (try assumption; intros E0; rewrite E0 in Hn2; cbn in Hn2; lia).
    destruct (simple_div_rem w (p3by2 P) lhs rhs). congruence.
  - replace (length lhs + 1)%nat with (fuel_for lhs) by (unfold fuel_for; lia).
    rewrite (dc_div_rem_in_place_gen_eq (fuel_for lhs) lhs rhs d r Hpre Hd E). destruct r. reflexivity.
Qed.

(** nothing left to assume about fuel: on every well-formed dividend and normalised divisor the function made of generated
    code only (switch, schoolbook kernel, Burnikel-Ziegler recursion, correction loop) returns the remainder in the low
    and the quotient in the high words, with the carry *)
Theorem div_rem_in_place_full_gen_correct lhs rhs :
  kernel_pre lhs rhs ->
  exists res c, div_rem_in_place_full_gen P w lhs rhs (highest_dword w rhs) = (res, c) /\ kernel_post lhs rhs res c /\
                div_rem_in_place_gen P w lhs rhs (highest_dword w rhs) = (res, c).
Proof.
  intros Hpre. pose proof Hpre as (Hwl & Hwr & Hn2 & Hnl & Hnorm).
  destruct (div_rem_in_place_correct w w_pos (p3by2 P) P3 (pmul_sub P) Pms T T_ge (fuel_for lhs) lhs rhs Hpre ltac:(unfold fuel_for; lia))
    as (res & c & E & Hpost).
  exists res, c. split; [apply div_rem_in_place_full_gen_eq; [exact Hpre | reflexivity | exact E]|]. split; [exact Hpost|].
  rewrite div_rem_in_place_gen_eq by (try assumption; try reflexivity; intros E0; rewrite E0 in Hn2; cbn in Hn2; lia).
  rewrite E. reflexivity.
Qed.

End Bodies.

(** *** div_ops.rs::repr: the helpers behind the Large x Small arms (zero test -> panic, shrink_dword, word / double-word kernel)
    regenerated = the transcriptions of Int/DivOwn.v.  Premises: what a Large dividend is (well-formed, at least two words) and
    that the divisor is a DoubleWord. *)
Section Dword.
Variable w : Z.
Hypothesis w_pos : 0 < w.
Variable P : div_prims.
Notation B := (Words.B w).

Theorem div_rem_large_dword_gen_eq buf rhs : Words.wf w buf -> (1 <= length buf)%nat -> 0 <= rhs < B * B ->
  div_rem_large_dword_chk_gen P w buf rhs = div_rem_large_dword w (p2by1 P) (p3by2 P) (p4by2 P) buf rhs.
Proof.
  intros Hw Hl Hr. unfold div_rem_large_dword_chk_gen, div_rem_large_dword, div_rem_large_dword_gen.
  destruct (Z.eqb_spec rhs 0) as [|Hz]; [reflexivity|]. destruct (Z.ltb_spec rhs B) as [Hlt|Hge].
  - rewrite div_by_word_gen_eq by lia. destruct (div_by_word w (p2by1 P) buf rhs). reflexivity.
  - rewrite div_by_dword_gen_eq by (assumption || lia). destruct (div_by_dword w (p3by2 P) (p4by2 P) buf rhs). reflexivity.
Qed.

Theorem div_large_dword_gen_eq buf rhs : Words.wf w buf -> (1 <= length buf)%nat -> 0 <= rhs < B * B ->
  div_large_dword_chk_gen P w buf rhs = div_large_dword w (p2by1 P) (p3by2 P) (p4by2 P) buf rhs.
Proof.
  intros Hw Hl Hr. unfold div_large_dword. rewrite <- (div_rem_large_dword_gen_eq buf rhs Hw Hl Hr).
  unfold div_large_dword_chk_gen, div_rem_large_dword_chk_gen, div_large_dword_gen.
  destruct (rhs =? 0); [reflexivity|]. cbn [rbind]. destruct (div_rem_large_dword_gen P w buf rhs). reflexivity.
Qed.

Theorem rem_large_dword_gen_eq ws rhs : (2 <= length ws)%nat -> 0 <= rhs < B * B ->
  rem_large_dword_chk_gen P w ws rhs = rem_large_dword w (p1by1 P) (p2by1 P) (p2by2 P) (p3by2 P) (p4by2 P) ws rhs.
Proof.
  intros Hl Hr. unfold rem_large_dword_chk_gen, rem_large_dword, rem_large_dword_gen.
  destruct (Z.eqb_spec rhs 0) as [|Hz]; [reflexivity|]. destruct (Z.ltb_spec rhs B) as [Hlt|Hge].
  - rewrite rem_by_word_gen_eq by lia. reflexivity.
  - rewrite rem_by_dword_gen_eq by lia. reflexivity.
Qed.
End Dword.

Example large_dword_examples :
  let P := Px 8 in
  div_rem_large_dword_chk_gen P 8 [5; 7; 9] 0 = Panic DivideBy0 /\ rem_large_dword_chk_gen P 8 [5; 7; 9] 0 = Panic DivideBy0 /\
  match div_rem_large_dword_chk_gen P 8 [5; 7; 9] 10 with Ok (q, r) => tvalue 8 q = 591621 / 10 /\ tvalue 8 r = 591621 mod 10 | _ => False end /\
  div_large_dword_chk_gen P 8 [5; 7; 9] 300 = Ok (TSmall (591621 / 300)) /\
  rem_large_dword_chk_gen P 8 [5; 7; 9] 300 = Ok (TSmall (591621 mod 300)).
Proof. vm_compute. repeat split. Qed.

(** non-vacuity (exact-arithmetic instance, w = 8, THRESHOLD_SIMPLE = 32): a 75/40-word division takes the recursive branch of
    div_rem_in_place_small_quotient (quotient of 35 words > 32), a 130/40-word one the blocked loop (one block) and the final
    small-quotient step; the hand model answers Ok with changed words and the generated function returns the same *)
Example dc_gen_examples :
  let P := Px 8 in
  let rhs := repeat 1 39 ++ [200] in
  let l1 := repeat 255 75 in let l2 := repeat 255 129 ++ [100] in
  (exists r, dc_small_quotient 8 (p3by2 P) (pmul_sub P) div_threshold_simple_nat (fuel_for l1) l1 rhs = Ok r /\ fst r <> l1 /\
             dc_small_quotient_gen P 8 (fuel_for l1) l1 rhs (highest_dword 8 rhs) = r) /\
  (exists r, dc_div_rem 8 (p3by2 P) (pmul_sub P) div_threshold_simple_nat (fuel_for l2) l2 rhs = Ok r /\ fst r <> l2 /\
             dc_div_rem_in_place_gen P 8 (fuel_for l2) l2 rhs (highest_dword 8 rhs) = r /\
             div_rem_in_place_full_gen P 8 l2 rhs (highest_dword 8 rhs) = r).
Proof.
  cbv zeta. split.
  - eexists. split; [vm_compute; reflexivity|]. split; [vm_compute; discriminate | vm_compute; reflexivity].
  - eexists. split; [vm_compute; reflexivity|]. split; [vm_compute; discriminate|]. split; vm_compute; reflexivity.
Qed.
