(** C02 - sign layer: the regenerated macro bodies of div_ops.rs equal the specifications for every
    sign combination and every magnitude; the specifications have the properties the statement
    demands (division identity, sign / range of the remainder). *)
From Coq Require Import Zquot.
From Dashu Require Import Base.Prelude Int.DivSpec.
From DashuGen Require Import SignTables.
Open Scope Z_scope.

(** *** the specifications have the demanded properties *)

Lemma trunc_spec_props a b : b <> 0 ->
  exists q r, trunc_div_rem_spec a b = Ok (q, r) /\ a = q * b + r /\ Z.abs r < Z.abs b /\ (r = 0 \/ Z.sgn r = Z.sgn a).
Proof.
  intros Hb. exists (Z.quot a b), (Z.rem a b). unfold trunc_div_rem_spec.
  destruct (Z.eqb_spec b 0) as [|_]; [contradiction|]. split; [reflexivity|].
  split; [rewrite (Z.quot_rem a b Hb) at 1; ring|].
  split; [apply Z.rem_bound_abs; exact Hb|].
  destruct (Z.eq_dec (Z.rem a b) 0) as [E|NE]; [left; exact E | right; apply Z.rem_sign_nz; assumption].
Qed.

Lemma euclid_spec_props a b : b <> 0 ->
  exists q r, euclid_div_rem_spec a b = Ok (q, r) /\ a = q * b + r /\ 0 <= r < Z.abs b.
Proof.
  intros Hb. exists (euclid_quot a b), (euclid_rem a b). unfold euclid_div_rem_spec, euclid_quot, euclid_rem.
  destruct (Z.eqb_spec b 0) as [|_]; [contradiction|]. split; [reflexivity|].
  assert (0 < Z.abs b) as Hpos by lia. split; [|apply Z.mod_pos_bound; exact Hpos].
  pose proof (Z.div_mod a (Z.abs b) ltac:(lia)) as E.
  replace (Z.sgn b * (a / Z.abs b) * b) with (Z.abs b * (a / Z.abs b)); [lia|].
  destruct (Z.abs_spec b) as [[? ->]|[? ->]]; [replace (Z.sgn b) with 1 by lia | replace (Z.sgn b) with (-1) by lia]; ring.
Qed.

(** quotient and remainder with these properties are unique, so the specification IS the property *)
Lemma euclid_unique b q r q' r' : q * b + r = q' * b + r' -> 0 <= r < Z.abs b -> 0 <= r' < Z.abs b -> q = q' /\ r = r'.
Proof.
  intros E H1 H2. assert ((q - q') * b = r' - r) as E2 by lia.
  assert (q - q' = 0) as Hq.
  { destruct (Z.eq_dec (q - q') 0) as [|NE]; [assumption|exfalso].
    assert (Z.abs b <= Z.abs ((q - q') * b)) as H by (rewrite Z.abs_mul; nia). lia. }
  split; nia.
Qed.

Lemma trunc_unique a b q r : b <> 0 -> a = q * b + r -> Z.abs r < Z.abs b -> (r = 0 \/ Z.sgn r = Z.sgn a) ->
  q = Z.quot a b /\ r = Z.rem a b.
Proof.
  intros Hb E Hr Hs. rewrite Z.mul_comm in E.
  assert (Zquot.Remainder a b r) as HR.
  { unfold Zquot.Remainder. destruct Hs as [->|Hs].
    - destruct (Z.le_gt_cases 0 a); [left | right]; lia.
    - destruct (Z.sgn_spec r) as [[? ?]|[[? ?]|[? ?]]], (Z.sgn_spec a) as [[? ?]|[[? ?]|[? ?]]]; try lia; ((left; lia) || (right; lia)). }
  split; [apply (Zquot.Zquot_unique_full a b q r HR E) | apply (Zquot.Zrem_unique_full a b q r HR E)].
Qed.

Lemma is_multiple_of_spec_iff a b : b <> 0 ->
  exists v, is_multiple_of_spec a b = Ok v /\ (v = true <-> Z.rem a b = 0) /\ (v = true <-> exists k, a = k * b).
Proof.
  intros Hb. unfold is_multiple_of_spec. destruct (Z.eqb_spec b 0) as [|_]; [contradiction|].
  exists (Z.rem a b =? 0). split; [reflexivity|]. rewrite Z.eqb_eq. split; [tauto|].
  split.
  - intros E. exists (Z.quot a b). pose proof (Z.quot_rem a b Hb). lia.
  - intros [k ->]. apply Z.rem_mul. exact Hb.
Qed.

(** *** the tables *)

Lemma abs_sign a : a = signed (sign_of a) (Z.abs a).
Proof. unfold signed, sign_of, sgnz. destruct (Z.ltb_spec a 0); lia. Qed.

Lemma quot_signed s0 m0 s1 m1 : 0 <= m0 -> 0 < m1 ->
  Z.quot (signed s0 m0) (signed s1 m1) = signed (sign_mul s0 s1) (m0 / m1).
Proof.
  intros H0 H1. unfold signed, sgnz, sign_mul.
  destruct s0, s1; rewrite ?Z.mul_1_l;
    replace (-1 * m0) with (- m0) by ring; replace (-1 * m1) with (- m1) by ring;
    rewrite ?Z.quot_opp_l, ?Z.quot_opp_r, ?Z.quot_opp_opp by lia; rewrite Z.quot_div_nonneg by lia; ring.
Qed.

Lemma rem_signed s0 m0 s1 m1 : 0 <= m0 -> 0 < m1 ->
  Z.rem (signed s0 m0) (signed s1 m1) = signed s0 (m0 mod m1).
Proof.
  intros H0 H1. unfold signed, sgnz.
  destruct s0, s1; rewrite ?Z.mul_1_l;
    replace (-1 * m0) with (- m0) by ring; replace (-1 * m1) with (- m1) by ring;
    rewrite ?Z.rem_opp_l, ?Z.rem_opp_r, ?Z.rem_opp_opp by lia; rewrite Z.rem_mod_nonneg by lia; ring.
Qed.

Lemma euclid_rem_signed s0 m0 s1 m1 : 0 <= m0 -> 0 < m1 ->
  euclid_rem (signed s0 m0) (signed s1 m1) = ibig_rem_euclid_gen s0 m0 s1 m1.
Proof.
  intros H0 H1. unfold euclid_rem, ibig_rem_euclid_gen.
  replace (Z.abs (signed s1 m1)) with m1 by (unfold signed, sgnz; destruct s1; lia).
  unfold signed, sgnz. destruct s0; [f_equal; lia|].
  replace (-1 * m0) with (- m0) by ring.
  destruct (Z.eqb_spec (m0 mod m1) 0) as [E|NE].
  - rewrite Z_mod_zero_opp_full by exact E. symmetry; exact E.
  - rewrite Z_mod_nz_opp_full by exact NE. reflexivity.
Qed.

Lemma euclid_quot_signed s0 m0 s1 m1 : 0 <= m0 -> 0 < m1 ->
  euclid_quot (signed s0 m0) (signed s1 m1) = ibig_div_euclid_gen s0 m0 s1 m1.
Proof.
  intros H0 H1. unfold euclid_quot, ibig_div_euclid_gen.
  replace (Z.abs (signed s1 m1)) with m1 by (unfold signed, sgnz; destruct s1; lia).
  replace (Z.sgn (signed s1 m1)) with (sgnz s1) by (unfold signed, sgnz; destruct s1; lia).
  unfold signed at 1. destruct s0; cbn [sgnz].
  - rewrite Z.mul_1_l. unfold signed, sign_mul, sgnz. destruct s1; reflexivity.
  - replace (-1 * m0) with (- m0) by ring.
    destruct (Z.eqb_spec (m0 mod m1) 0) as [E|NE].
    + rewrite Z_div_zero_opp_full by exact E. unfold signed, sign_mul, sgnz. destruct s1; ring.
    + rewrite Z_div_nz_opp_full by (lia || exact NE). unfold signed, sign_mul, sgnz. destruct s1; ring.
Qed.

Lemma divrem_euclid_gen_split s0 m0 s1 m1 :
  ibig_divrem_euclid_gen s0 m0 s1 m1 = (ibig_div_euclid_gen s0 m0 s1 m1, ibig_rem_euclid_gen s0 m0 s1 m1).
Proof.
  unfold ibig_divrem_euclid_gen, ibig_div_euclid_gen, ibig_rem_euclid_gen.
  destruct s0; [destruct s1; reflexivity|].
  destruct (m0 mod m1 =? 0); cbn [negb]; unfold signed, sign_mul, sign_neg, sgnz; destruct s1; reflexivity.
Qed.

Lemma sign_abs_pos b : b <> 0 -> 0 < Z.abs b. Proof. lia. Qed.

(** the whole IBig family: every form, every sign combination, every magnitude, including the panic *)
Theorem ibig_form_correct f a b : ibig_form_asis f a b = form_spec f a b.
Proof.
  unfold ibig_form_asis, mag_guard.
  destruct (Z.eqb_spec (Z.abs b) 0) as [E|NE].
  - assert (b = 0) as -> by lia.
    destruct f; cbn [form_spec]; unfold trunc_div_rem_spec, euclid_div_rem_spec, is_multiple_of_spec; reflexivity.
  - assert (b <> 0) as Hb by lia. assert (0 <= Z.abs a) as H0 by lia. assert (0 < Z.abs b) as H1 by lia.
    pose proof (quot_signed (sign_of a) (Z.abs a) (sign_of b) (Z.abs b) H0 H1) as Q.
    pose proof (rem_signed (sign_of a) (Z.abs a) (sign_of b) (Z.abs b) H0 H1) as R.
    pose proof (euclid_quot_signed (sign_of a) (Z.abs a) (sign_of b) (Z.abs b) H0 H1) as EQ.
    pose proof (euclid_rem_signed (sign_of a) (Z.abs a) (sign_of b) (Z.abs b) H0 H1) as ER.
    rewrite <- !abs_sign in Q, R, EQ, ER.
    destruct f; cbn [form_spec]; unfold trunc_div_rem_spec, euclid_div_rem_spec, is_multiple_of_spec;
      destruct (Z.eqb_spec b 0) as [|_]; try contradiction; cbn [rbind fst snd];
      rewrite ?divrem_euclid_gen_split; unfold ibig_divrem_gen, ibig_div_gen, ibig_rem_gen in *; cbn [fst snd];
      rewrite ?Q, ?R, ?EQ, ?ER; reflexivity.
Qed.

Theorem ibig_form_zero f a : ibig_form_asis f a 0 = Panic DivideBy0.
Proof. reflexivity. Qed.

Theorem ubig_form_correct f m0 m1 : 0 <= m0 -> 0 <= m1 -> ubig_form_asis f m0 m1 = form_spec f m0 m1.
Proof.
  intros H0 H1. unfold ubig_form_asis, mag_guard.
  destruct f; cbn [form_spec]; unfold trunc_div_rem_spec, euclid_div_rem_spec, is_multiple_of_spec, euclid_quot, euclid_rem;
    destruct (Z.eqb_spec m1 0) as [E|NE]; try reflexivity; cbn [rbind fst snd];
    rewrite ?Z.quot_div_nonneg, ?Z.rem_mod_nonneg by lia; rewrite ?Z.abs_eq by lia;
    replace (Z.sgn m1) with 1 by lia; rewrite ?Z.mul_1_l; reflexivity.
Qed.

Definition plain_form (f : form) : Prop := f = FDiv \/ f = FRem \/ f = FDivRem.

Theorem ubig_ibig_form_correct f m0 b : plain_form f -> 0 <= m0 -> ubig_ibig_form_asis f m0 b = form_spec f m0 b.
Proof.
  intros Hf H0. unfold ubig_ibig_form_asis, mag_guard.
  destruct (Z.eqb_spec (Z.abs b) 0) as [E|NE].
  - assert (b = 0) as -> by lia. destruct Hf as [->|[->| ->]]; reflexivity.
  - assert (b <> 0) as Hb by lia. assert (0 < Z.abs b) as H1 by lia.
    pose proof (quot_signed Positive m0 (sign_of b) (Z.abs b) H0 H1) as Q.
    pose proof (rem_signed Positive m0 (sign_of b) (Z.abs b) H0 H1) as R.
    rewrite <- !abs_sign in Q, R. unfold signed at 1 in Q. unfold signed at 1 in R. cbn [sgnz] in Q, R.
    rewrite Z.mul_1_l in Q, R.
    destruct Hf as [->|[->| ->]]; cbn [form_spec]; unfold trunc_div_rem_spec;
      destruct (Z.eqb_spec b 0) as [|_]; try contradiction; cbn [rbind fst snd];
      unfold ubig_ibig_divrem_gen, ubig_ibig_rem_gen, ibig_div_gen; cbn [fst snd]; rewrite ?Q, ?R;
      unfold signed, sign_mul, sgnz; destruct (sign_of b); rewrite ?Z.mul_1_l; reflexivity.
Qed.

Theorem ibig_ubig_form_correct f a m1 : plain_form f -> 0 <= m1 -> ibig_ubig_form_asis f a m1 = form_spec f a m1.
Proof.
  intros Hf H1. unfold ibig_ubig_form_asis, mag_guard.
  destruct (Z.eqb_spec m1 0) as [E|NE].
  - subst m1. destruct Hf as [->|[->| ->]]; reflexivity.
  - assert (0 < m1) as H1' by lia. assert (0 <= Z.abs a) as H0 by lia.
    pose proof (quot_signed (sign_of a) (Z.abs a) Positive m1 H0 H1') as Q.
    pose proof (rem_signed (sign_of a) (Z.abs a) Positive m1 H0 H1') as R.
    rewrite <- !abs_sign in Q, R. unfold signed at 1 in Q. unfold signed at 1 in R. cbn [sgnz] in Q, R.
    rewrite Z.mul_1_l in Q, R.
    destruct Hf as [->|[->| ->]]; cbn [form_spec]; unfold trunc_div_rem_spec;
      destruct (Z.eqb_spec m1 0) as [|_]; try contradiction; cbn [rbind fst snd];
      unfold ibig_divrem_gen, ibig_rem_gen, ibig_div_gen; cbn [fst snd]; rewrite ?Q, ?R; reflexivity.
Qed.

(** ConstDivisor forms = plain division by the same (positive) divisor *)
Theorem const_ubig_form_correct f m0 d : plain_form f -> 0 <= m0 -> 0 <= d -> const_ubig_form_asis f m0 d = form_spec f m0 d.
Proof.
  intros Hf H0 H1. rewrite <- ubig_form_correct by assumption.
  destruct Hf as [->|[->| ->]]; reflexivity.
Qed.

Theorem const_ibig_form_correct f a d : plain_form f -> 0 <= d -> const_ibig_form_asis f a d = form_spec f a d.
Proof.
  intros Hf H1. rewrite <- ibig_ubig_form_correct by assumption.
  unfold const_ibig_form_asis, ibig_ubig_form_asis, ibig_div_gen, ibig_rem_gen, ibig_divrem_gen.
  replace (sign_mul (sign_of a) Positive) with (sign_of a) by (destruct (sign_of a); reflexivity).
  destruct Hf as [->|[->| ->]]; reflexivity.
Qed.

(** non-vacuity *)
Example ibig_form_example :
  ibig_form_asis FDivRem (-7) 2 = Ok [-3; -1] /\ ibig_form_asis FDivRemEuclid (-7) (-2) = Ok [4; 1] /\
  ibig_form_asis FIsMultipleOf (-6) 3 = Ok [1] /\ ubig_ibig_form_asis FDivRem 7 (-2) = Ok [-3; 1] /\
  const_ibig_form_asis FDivRem (-7) 2 = Ok [-3; -1].
Proof. repeat split. Qed.
