(** C17 (round 5) - non-vacuity: a history whose parse steps run through parse_word, parse_chunk and the divide-and-conquer
    recursion (300 one-digit groups: chunk_bytes = 256, one radix power), once with an invalid last byte (the `?` exit of the
    low half: the high half and the power are dropped); the premises of the history theorem hold and the run ends with the
    parsed values, the error leaves its slot unchanged.  (Texts over two and three powers run in the correspondence phase.) *)
From Dashu Require Import Base.Prelude Base.Words Int.StorageModel Int.StorageProofs Int.StorageArith Int.StorageHistory
  Int.StorageOps2 Int.StorageOps3 Int.StorageOps3History Int.StorageOps3Examples Int.StorageOps5 Int.StorageOps5Proofs.
Open Scope Z_scope.

Definition digs (n : nat) : list (option Z) := map (fun i => Some (Z.of_nat i mod 10)) (seq 1 n).
Definition dval (n : nat) : Z := fold_left (fun acc i => acc * 10 + Z.of_nat i mod 10) (seq 1 n) 0.

Definition example_ops5 : list op5 :=
  [ OParseL 0%nat Positive 10 1 10 (digs 300);                (* parse_large: one radix power, both halves *)
    OParseL 2%nat Positive 10 1 10 (digs 40);                 (* parse_chunk *)
    OParseL 3%nat Negative 10 19 (10 ^ 19) (digs 19);         (* parse_word *)
    OParseL 1%nat Positive 10 1 10 (digs 259 ++ [None]);      (* invalid digit in the low half: Err, slot unchanged *)
    O3 (O2 (O1 (ODrop 2%nat))) ].

Lemma digs_ok n : digits_ok 10 (digs n).
Proof.
  unfold digits_ok, digs. apply Forall_forall. intros o H. apply in_map_iff in H. destruct H as (i & <- & _).
  cbn [digit_ok]. apply Z.mod_pos_bound. lia.
Qed.

Lemma len_digs n : len (digs n) = Z.of_nat n.
Proof. unfold len, digs. rewrite map_length, seq_length. reflexivity. Qed.

Lemma ten_fits : 10 ^ 1 < Bw 64.
Proof. reflexivity. Qed.
Lemma ten19_fits : 10 ^ 19 < Bw 64.
Proof. reflexivity. Qed.

Lemma parse_op_ok d s dpw rpw bs :
  (d < 4)%nat -> (dpw = 1 \/ dpw = 19) -> digits_ok 10 bs -> len bs < 1000 -> op5_ok 64 M64 4 (OParseL d s 10 dpw rpw bs) /\ no_sqrt5 (OParseL d s 10 dpw rpw bs).
Proof.
  intros Hd Hp Hb Hl. split; [|exact I]. cbn [op5_ok]. split; [exact Hd|]. split; [lia|]. split; [lia|].
  split; [destruct Hp as [-> | ->]; [exact ten_fits | exact ten19_fits]|]. split; [exact Hb|].
  assert (2 ^ 10 < 2 ^ (64 - 1)) as HB by (apply Z.pow_lt_mono_r; lia). change (2 ^ 10) with 1024 in HB. lia.
Qed.

Lemma example5_ok : Forall (fun o => op5_ok 64 M64 4 o /\ no_sqrt5 o) example_ops5.
Proof.
  unfold example_ops5.
  apply Forall_cons; [apply parse_op_ok; [lia | auto | apply digs_ok | rewrite len_digs; reflexivity]|].
  apply Forall_cons; [apply parse_op_ok; [lia | auto | apply digs_ok | rewrite len_digs; reflexivity]|].
  apply Forall_cons; [apply parse_op_ok; [lia | auto | apply digs_ok | rewrite len_digs; reflexivity]|].
  apply Forall_cons; [apply parse_op_ok; [lia | auto | apply Forall_app; split; [apply digs_ok | apply Forall_cons; [exact I | apply Forall_nil]]
                                          | rewrite len_app, len_digs; reflexivity]|].
  apply Forall_cons; [|apply Forall_nil]. split; [|exact I]. cbn. lia.
Qed.

(** the last three digits of the four values and the number of live blocks at the end *)
Definition example5_values :=
  match run5 64 M64 gk0 jv0 example_ops5 (repeat zero 4) mem0 with
  | Ok (pool, m) => Some (map (fun r => rvalue 64 r mod 1000) pool ++ [nlive m])
  | _ => None
  end.
Definition example5_expected : list Z := [890; 0; 0; 211; 1].

Lemma example5_runs : example5_values = Some example5_expected.
Proof. vm_compute. reflexivity. Qed.
