(** C01 (L1): pow.rs at word level (Int/RingPowW.v) returns exactly base^exp, canonical, for ALL bases and
    exponents, every word size w >= 8 - and none of its storage assertions can fire: every push stays within
    the capacity the code asked for ("result is at most exp + 1 words" for a word base, 2 * exp for a double-word
    base; push_resizing never resizes), push_zeros before each squaring has the room it asserts, the copy of
    res and the squaring's scratch fit the MemoryAllocation.
    The length invariant mirrors the value invariant of the binary method: with d = words added per multiply,
        len res * 2^p + d * (e mod 2^(p+1)) <= N      (N = q for a word base, 2 e for a double-word base)
    holds at the head of iteration p; it starts as N = N (top_bit_split) and is preserved by both steps. *)
From Dashu Require Import Base.Prelude Base.Words Int.RingSpec Int.RingAdd Int.RingAddProofs Int.RingMul Int.RingMulProofs
  Int.RingDispatchProofs Int.RingSqrProofs Int.RingOps Int.RingOpsProofs Int.RingOpsMulProofs Int.RingPowProofs
  Int.DivWordProofs Int.RingMulW Int.RingMulWProofs Int.RingOpsW Int.RingOpsWProofs Int.RingScratch Int.RingPowW.
From Dashu Require Int.BitsSpec Int.BitsKernels Int.BitsMiscProofs Int.BitsShiftProofs.
From DashuGen Require Import Params MulMemory.
Open Scope Z_scope.

Section PowWProofs.
Variable w : Z.
Hypothesis w_ge : 8 <= w.
Let w_pos : 0 < w. Proof. lia. Qed.
Variable div2by1 : Z -> Z -> Z * Z.
Hypothesis div2by1_ok : forall d a, norm1 w d -> 0 <= a < d * B w -> div2by1 d a = (a / d, a mod d).
Variable T_simple T_kara CHUNK SQR_SIMPLE : nat.
Hypothesis T_simple_ok : (1 <= T_simple)%nat.
Hypothesis T_kara_ok : (15 <= T_kara)%nat.
Hypothesis CHUNK_ok : (1 <= CHUNK)%nat.
(** what Int/RingScratchProofs.v proves at the thresholds of the source *)
Hypothesis scratch_ok : forall n, 0 <= n ->
  0 <= sqr_need (Z.of_nat T_simple) (Z.of_nat T_kara) (Z.of_nat SQR_SIMPLE) n <= sqr_memory_words n.
Hypothesis sqr_mem_mono : forall a b, 0 <= a <= b -> sqr_memory_words a <= sqr_memory_words b.
Let T_kara_ok3 : (3 <= T_kara)%nat. Proof. lia. Qed.
Notation BB := (B w).
Notation val := (value w).
Notation wfw := (wf w).
Notation rv := (repr_value w).
Notation srv := (srepr_value w).
Let HB : 0 < BB := B_pos w w_pos.
Let HB256 : 256 <= BB := B_ge_256 w w_ge.

Lemma len_nonneg {A} (l : list A) : 0 <= len l. Proof. unfold len. lia. Qed.
Lemma len_snoc {A} (l : list A) x : len (l ++ [x]) = len l + 1.
Proof. unfold len. rewrite app_length. cbn [length]. lia. Qed.

(* the value-level lemmas of RingPowProofs.v, at this section's thresholds *)
Let max_exp_spec := max_exp_in_word_spec w w_ge T_simple T_kara CHUNK T_simple_ok T_kara_ok3 CHUNK_ok.
Let bit_len_log2' := bit_len_log2 T_simple T_kara CHUNK T_simple_ok T_kara_ok3 CHUNK_ok.
Let pow_le_base' := pow_le_base T_simple T_kara CHUNK T_simple_ok T_kara_ok3 CHUNK_ok.
Let as_slice_spec' := as_slice_spec w w_ge T_simple T_kara CHUNK T_simple_ok T_kara_ok3 CHUNK_ok.

Lemma bpush_ok cap buf x : len buf < cap -> bpush cap buf x = Ok (buf ++ [x]).
Proof. intros H. unfold bpush. destruct (Z.ltb_spec (len buf) cap); [reflexivity | lia]. Qed.

(** push_resizing of a carry word: at most one word longer, same value as appending the carry *)
Lemma bpush_resizing_ok cap x c : wfw x -> 0 <= c < BB -> len x + 1 <= cap ->
  exists r, bpush_resizing cap x c = Ok r /\ wfw r /\ val r = val x + BB ^ len x * c /\ len x <= len r <= len x + 1.
Proof.
  intros Wx Bc Hc. unfold bpush_resizing. destruct (Z.eqb_spec c 0) as [->|N].
  - exists x. split; [reflexivity|]. split; [exact Wx|]. split; lia.
  - rewrite bpush_ok by lia. exists (x ++ [c]). split; [reflexivity|]. split; [apply wf_snoc; auto|].
    rewrite val_snoc, len_snoc. split; lia.
Qed.

(** one squaring inside the result buffer *)
Lemma square_in_buffer_ok cap tmpw sl res : wfw res -> 2 * len res <= cap -> len res <= tmpw -> len res <= sl ->
  exists r, square_in_buffer w div2by1 T_simple T_kara SQR_SIMPLE cap (tmpw + sqr_memory_words sl) res = Ok r /\
            wfw r /\ len r = 2 * len res /\ val r = val res * val res.
Proof.
  intros Wr Hcap Htmp Hsl. unfold square_in_buffer. cbv zeta. pose proof (len_nonneg res) as Hn.
  pose proof (scratch_ok (len res) Hn) as S1. pose proof (sqr_mem_mono (len res) sl ltac:(lia)) as S2.
  destruct (Z.ltb_spec (tmpw + sqr_memory_words sl) (len res + sqr_need (Z.of_nat T_simple) (Z.of_nat T_kara) (Z.of_nat SQR_SIMPLE) (len res))); [lia|].
  destruct (Z.ltb_spec (cap - len res) (len res)); [lia|].
  destruct (sqr_w_correct w w_ge div2by1 div2by1_ok T_simple T_kara CHUNK SQR_SIMPLE T_simple_ok T_kara_ok CHUNK_ok res Wr) as (r & E & Lr & Wr' & V).
  exists r. split; [exact E|]. split; [exact Wr'|]. split; [unfold len; lia | exact V].
Qed.

(** ------------------------------------------------------------------ the loop on the result buffer *)
Section Loop.
Variable cap tmpw sl d N base e : Z.
Variable mulstep : list Z -> result (list Z).
Hypothesis d_nonneg : 0 <= d.
Hypothesis N_cap : N <= cap.
Hypothesis N_tmp : N <= 2 * tmpw.
Hypothesis N_sl : N <= 2 * sl.
Hypothesis mulstep_ok : forall res, wfw res -> len res + d <= cap ->
  exists r, mulstep res = Ok r /\ wfw r /\ val r = val res * base /\ len res <= len r <= len res + d.

Lemma powb_loop_spec : forall p res, wfw res ->
  len res * 2 ^ Z.of_nat p + d * (e mod 2 ^ (Z.of_nat p + 1)) <= N ->
  exists r, powb_loop p e mulstep (square_in_buffer w div2by1 T_simple T_kara SQR_SIMPLE cap (tmpw + sqr_memory_words sl)) res = Ok r /\
            wfw r /\ val r = val res ^ (2 ^ Z.of_nat p) * base ^ (e mod 2 ^ (Z.of_nat p + 1)) /\ len r <= N.
Proof.
  induction p as [|p' IH]; intros res Wres Hinv; cbn [powb_loop].
  - change (Z.of_nat 0) with 0 in Hinv. rewrite Z.pow_0_r in Hinv. cbn [Z.add] in Hinv. rewrite Z.pow_1_r in Hinv.
    pose proof (Z.bit0_mod e) as Bm. change (Z.testbit e 0) with (Z.testbit e (Z.of_nat 0)) in Bm.
    destruct (Z.testbit e (Z.of_nat 0)) eqn:Eb; cbn [Z.b2z] in Bm.
    + destruct (mulstep_ok res Wres ltac:(lia)) as (r & E & W & V & L). rewrite E. cbn [rbind].
      exists r. split; [reflexivity|]. split; [exact W|]. split; [|lia].
      rewrite V. rewrite <- (binary_last (val res) base e true) by (symmetry; exact Eb). cbn [Z.b2z]. rewrite Z.pow_1_r. reflexivity.
    + cbn [rbind]. exists res. split; [reflexivity|]. split; [exact Wres|]. split; [|lia].
      rewrite <- (binary_last (val res) base e false) by (symmetry; exact Eb). cbn [Z.b2z]. rewrite Z.pow_0_r. ring.
  - set (bb := Z.testbit e (Z.of_nat (S p'))).
    pose proof (testbit_split e (Z.of_nat (S p')) ltac:(lia)) as TS. fold bb in TS.
    assert (P1 : 0 < 2 ^ Z.of_nat p') by (apply Z.pow_pos_nonneg; lia).
    assert (P2 : 2 ^ Z.of_nat (S p') = 2 * 2 ^ Z.of_nat p') by (rewrite Nat2Z.inj_succ, Z.pow_succ_r by lia; reflexivity).
    assert (M0 : 0 <= e mod 2 ^ Z.of_nat (S p')) by (apply mod_pow2_nonneg; lia).
    assert (E1 : Z.of_nat (S p') = Z.of_nat p' + 1) by lia.
    pose proof (len_nonneg res) as Ln.
    rewrite TS in Hinv.
    set (P := 2 ^ Z.of_nat p') in *. set (Q := 2 ^ Z.of_nat (S p')) in *. set (R := e mod Q) in *.
    assert (H' : exists res', (if bb then mulstep res else Ok res) = Ok res' /\ wfw res' /\
                   val res' = val res * base ^ Z.b2z bb /\ len res' <= len res + d * Z.b2z bb).
    { destruct bb; cbn [Z.b2z] in *.
      - assert (len res + d <= cap) by (clear - Hinv P1 P2 M0 Ln d_nonneg N_cap; nia).
        destruct (mulstep_ok res Wres H) as (r & E & W & V & L). exists r. rewrite Z.pow_1_r. repeat split; auto; lia.
      - exists res. rewrite Z.pow_0_r. repeat split; auto; lia. }
    destruct H' as (res' & E' & W' & V' & L'). rewrite E'. cbn [rbind].
    pose proof (len_nonneg res') as Ln'.
    assert (Hinv' : 2 * len res' * P + d * R <= N).
    { clear - Hinv P1 P2 M0 Ln Ln' L' d_nonneg. destruct bb; cbn [Z.b2z] in *; nia. }
    assert (H2 : 2 * len res' <= N) by (clear - Hinv' P1 Ln' M0 d_nonneg; nia).
    destruct (square_in_buffer_ok cap tmpw sl res' W' ltac:(lia) ltac:(lia) ltac:(lia)) as (r1 & Es & W1 & L1 & V1).
    rewrite Es. cbn [rbind].
    destruct (IH r1 W1) as (r & E & Wr & Vr & Lr).
    { rewrite L1. replace (Z.of_nat p' + 1) with (Z.of_nat (S p')) by lia. fold P Q R. exact Hinv'. }
    exists r. split; [exact E|]. split; [exact Wr|]. split; [|exact Lr].
    rewrite Vr, V1, V'. subst P Q R. apply binary_step. reflexivity.
Qed.
End Loop.

(** ------------------------------------------------------------------ C01 typed view <-> C09 typed view *)
Lemma last_is_nth (ws : list Z) : last ws 0 = nth (length ws - 1) ws 0.
Proof.
  induction ws as [|x t IH]; [reflexivity|]. destruct t as [|y t']; [reflexivity|].
  change (last (x :: y :: t') 0) with (last (y :: t') 0). rewrite IH. cbn [length].
  replace (S (S (length t')) - 1)%nat with (S (length t')) by lia.
  replace (S (length t') - 1)%nat with (length t') by lia. reflexivity.
Qed.

Lemma twf_brepr_ok r : twf w r <-> BitsKernels.brepr_ok w (to_b r).
Proof. destruct r as [d|ws]; cbn [twf to_b BitsKernels.brepr_ok]; [tauto|]. rewrite last_is_nth. tauto. Qed.

Lemma brepr_ok_twf b : BitsKernels.brepr_ok w b <-> twf w (of_b b).
Proof. destruct b as [d|ws]; cbn [twf of_b BitsKernels.brepr_ok]; [tauto|]. rewrite last_is_nth. tauto. Qed.

Lemma to_b_value r : BitsKernels.bvalue w (to_b r) = rv r. Proof. destruct r; reflexivity. Qed.
Lemma of_b_value b : rv (of_b b) = BitsKernels.bvalue w b. Proof. destruct b; reflexivity. Qed.
Lemma to_of_b b : to_b (of_b b) = b. Proof. destruct b; reflexivity. Qed.

(** ------------------------------------------------------------------ pow_word_base *)
Lemma set_bit_zero_spec k : 0 <= k ->
  rv (of_b (BitsKernels.repr_set_bit w (BitsKernels.BSmall 0) k)) = 2 ^ k /\ twf w (of_b (BitsKernels.repr_set_bit w (BitsKernels.BSmall 0) k)).
Proof.
  intros Hk.
  destruct (BitsMiscProofs.repr_set_bit_correct w w_pos (BitsKernels.BSmall 0) k Hk) as (V & K).
  { cbn [BitsKernels.brepr_ok]. nia. }
  cbn [BitsKernels.bvalue] in V. unfold BitsSpec.set_bit_spec in V. rewrite Z.lor_0_l in V.
  split; [rewrite of_b_value; exact V | apply brepr_ok_twf; exact K].
Qed.

Lemma top_split_pow q : 2 <= q ->
  let p := Z.to_nat (Z.log2 q - 1) in
  2 * 2 ^ Z.of_nat p + q mod 2 ^ (Z.of_nat p + 1) = q /\ 0 < 2 ^ Z.of_nat p.
Proof.
  intros Hq p. subst p. assert (1 <= Z.log2 q) by (apply Z.log2_le_pow2; cbn; lia).
  rewrite Z2Nat.id by lia. replace (Z.log2 q - 1 + 1) with (Z.log2 q) by ring.
  assert (0 < 2 ^ (Z.log2 q - 1)) by (apply Z.pow_pos_nonneg; lia).
  split; [|assumption].
  replace (2 * 2 ^ (Z.log2 q - 1)) with (2 ^ Z.log2 q).
  2:{ replace (Z.log2 q) with (Z.log2 q - 1 + 1) at 1 by ring. rewrite Z.pow_add_r, Z.pow_1_r by lia. ring. }
  symmetry. apply top_bit_split. lia.
Qed.

Theorem pow_word_base_w_correct base e : 0 <= base < BB -> 3 <= e ->
  exists r, pow_word_base_w w div2by1 T_simple T_kara SQR_SIMPLE base e = Ok r /\ rv r = base ^ e /\ twf w r.
Proof.
  intros Hb He. unfold pow_word_base_w.
  destruct (Z.eqb_spec base 0) as [->|N0].
  { eexists. split; [reflexivity|]. cbn [repr_value twf]. rewrite Z.pow_0_l by lia. split; [reflexivity | nia]. }
  destruct (Z.eqb_spec base 1) as [->|N1].
  { eexists. split; [reflexivity|]. cbn [repr_value twf]. rewrite Z.pow_1_l by lia. split; [reflexivity | nia]. }
  destruct (Z.eqb_spec base 2) as [->|N2].
  { destruct (set_bit_zero_spec e ltac:(lia)) as (V & T). eexists. split; [reflexivity|]. split; [exact V | exact T]. }
  destruct (is_power_of_two base) eqn:Ep.
  { destruct (is_power_of_two_spec base Ep) as (_ & Hpow). pose proof (Z.log2_nonneg base).
    destruct (set_bit_zero_spec (e * Z.log2 base) ltac:(nia)) as (V & T).
    eexists. split; [reflexivity|]. split; [|exact T]. rewrite V. rewrite Hpow at 2. rewrite <- Z.pow_mul_r by lia. f_equal. ring. }
  destruct (max_exp_spec base ltac:(lia)) as (wexp & wbase & E & Hwe & Vwb & Bwb). rewrite E. cbn [rbind].
  assert (Hb1 : 1 <= base) by lia.
  assert (Hwb3 : 3 <= wbase).
  { subst wbase. transitivity (base ^ 1); [rewrite Z.pow_1_r; lia | apply pow_le_base'; lia]. }
  destruct (Z.ltb_spec e wexp) as [H1|H1].
  { eexists. split; [reflexivity|]. cbn [repr_value twf]. split; [reflexivity|].
    split; [apply Z.pow_nonneg; lia|]. pose proof (pow_le_base' base e wexp Hb1 ltac:(lia)). nia. }
  destruct (Z.ltb_spec e (2 * wexp)) as [H2|H2].
  { eexists. split; [reflexivity|]. cbn [repr_value twf]. rewrite Vwb, <- Z.pow_add_r by lia.
    split; [f_equal; lia|]. rewrite Z.pow_add_r by lia. rewrite <- Vwb.
    pose proof (pow_le_base' base (e - wexp) wexp Hb1 ltac:(lia)). assert (0 < base ^ (e - wexp)) by (apply Z.pow_pos_nonneg; lia). nia. }
  cbv zeta. set (q := e / wexp). set (r := e mod wexp).
  assert (Hq : 2 <= q) by (subst q; apply Z.div_le_lower_bound; lia).
  pose proof (Z.div_mod e wexp ltac:(lia)) as DM. fold q r in DM. pose proof (Z.mod_pos_bound e wexp ltac:(lia)) as Br. fold r in Br.
  set (sq := wbase * wbase).
  assert (Bsq : 0 <= sq < BB * BB) by (subst sq; nia).
  destruct (dword_split w w_pos sq Bsq) as (S1 & S2 & S3).
  assert (Winit : wfw [sq mod BB; sq / BB]) by (apply wf_cons; split; [lia|]; apply wf_cons; split; [lia | apply wf_nil]).
  assert (Vinit : val [sq mod BB; sq / BB] = wbase * wbase) by (cbn [value]; subst sq; lia).
  change (pow_word_capacity q) with (q + 1).
  change (pow_word_memory_words q) with ((q / 2 + 1) + sqr_memory_words (q / 2 + 1)).
  rewrite bpush_ok by (unfold len; cbn [length]; lia). cbn [rbind app].
  rewrite bpush_ok by (unfold len; cbn [length]; lia). cbn [rbind app].
  set (mulstep := fun res : list Z => let '(x, c) := mul_word_in_place w res wbase in bpush_resizing (q + 1) x c).
  assert (Hstep : forall res, wfw res -> len res + 1 <= q + 1 ->
            exists r, mulstep res = Ok r /\ wfw r /\ val r = val res * wbase /\ len res <= len r <= len res + 1).
  { intros res Hres Hl. subst mulstep. cbv beta. destruct (mul_word_in_place w res wbase) as [x c] eqn:Em.
    destruct (mul_word_in_place_spec w w_ge res wbase Hres ltac:(lia) _ _ Em) as (Lx & Wx & Bc & Vx).
    pose proof (len_eq x res Lx) as Lx'.
    destruct (bpush_resizing_ok (q + 1) x c Wx Bc ltac:(lia)) as (r0 & E0 & W0 & V0 & L0).
    exists r0. split; [exact E0|]. split; [exact W0|]. split; [rewrite V0, Lx'; lia | lia]. }
  pose proof (Z.div_mod q 2 ltac:(lia)) as Dq. pose proof (Z.mod_pos_bound q 2 ltac:(lia)) as Mq.
  rewrite bit_len_log2' by lia. replace (Z.log2 q + 1 - 2) with (Z.log2 q - 1) by ring.
  destruct (top_split_pow q Hq) as (Tq & Pq). cbv zeta in Tq, Pq.
  destruct (powb_loop_spec (q + 1) (q / 2 + 1) (q / 2 + 1) 1 q wbase q mulstep ltac:(lia) ltac:(lia) ltac:(lia) ltac:(lia) Hstep
              (Z.to_nat (Z.log2 q - 1)) [sq mod BB; sq / BB] Winit) as (res & El & Wres & Vres & Lres).
  { change (len [sq mod BB; sq / BB]) with 2. lia. }
  rewrite El. cbn [rbind]. rewrite Vinit in Vres. rewrite binary_total in Vres by lia.
  assert (Bbr : 0 < base ^ r < BB).
  { split; [apply Z.pow_pos_nonneg; lia|]. pose proof (pow_le_base' base r wexp Hb1 ltac:(lia)). lia. }
  destruct (mul_word_in_place w res (base ^ r)) as [x c] eqn:Em.
  destruct (mul_word_in_place_spec w w_ge res (base ^ r) Wres Bbr _ _ Em) as (Lx & Wx & Bc & Vx).
  pose proof (len_eq x res Lx) as Lx'.
  destruct (bpush_resizing_ok (q + 1) x c Wx Bc ltac:(lia)) as (r0 & E0 & W0 & V0 & L0). rewrite E0. cbn [rbind].
  destruct (from_buffer_spec w w_ge r0 W0) as (V' & T).
  eexists. split; [reflexivity|]. split; [|exact T].
  rewrite V', V0, Lx'. replace (val x + BB ^ len res * c) with (val res * base ^ r) by lia.
  rewrite Vres, Vwb, <- Z.pow_mul_r, <- Z.pow_add_r by lia. f_equal. lia.
Qed.

Theorem pow_dword_base_w_correct base e : BB <= base < BB * BB -> 3 <= e ->
  exists r, pow_dword_base_w w div2by1 T_simple T_kara SQR_SIMPLE base e = Ok r /\ rv r = base ^ e /\ twf w r.
Proof.
  intros Hb He. unfold pow_dword_base_w. cbv zeta.
  change (pow_dword_capacity e) with (2 * e).
  change (pow_dword_memory_words e) with (e + sqr_memory_words e).
  destruct (mul_add_carry_dword w base base 0) as [lo hi] eqn:E.
  destruct (mul_add_carry_dword_spec w w_ge base base 0 lo hi ltac:(lia) ltac:(lia) ltac:(nia) E) as (Blo & Bhi & V).
  destruct (dword_split w w_pos lo Blo) as (L1 & L2 & L3). destruct (dword_split w w_pos hi Bhi) as (H1 & H2 & H3).
  assert (Winit : wfw [lo mod BB; lo / BB; hi mod BB; hi / BB]) by (repeat (apply wf_cons; split; [lia|]); apply wf_nil).
  assert (Vinit : val [lo mod BB; lo / BB; hi mod BB; hi / BB] = base * base) by (cbn [value]; nia).
  do 4 (rewrite bpush_ok by (unfold len; cbn [length]; lia); cbn [rbind app]).
  set (mulstep := fun res : list Z =>
    let '(x, c) := mul_dword_in_place w res base in
    if 0 <? c then rbind (bpush (2 * e) x (c mod BB)) (fun x1 => bpush_resizing (2 * e) x1 (c / BB)) else Ok x).
  assert (Hstep : forall res, wfw res -> len res + 2 <= 2 * e ->
            exists r, mulstep res = Ok r /\ wfw r /\ val r = val res * base /\ len res <= len r <= len res + 2).
  { intros res Hres Hl. subst mulstep. cbv beta. destruct (mul_dword_in_place w res base) as [x c] eqn:Em.
    destruct (mul_dword_in_place_spec w w_ge res base Hres ltac:(lia) _ _ Em) as (Lx & Wx & Bc & Vx).
    pose proof (len_eq x res Lx) as Lx'.
    destruct (Z.ltb_spec 0 c) as [Hc|Hc].
    - destruct (dword_split w w_pos c Bc) as (C1 & C2 & C3).
      rewrite bpush_ok by lia. cbn [rbind].
      destruct (bpush_resizing_ok (2 * e) (x ++ [c mod BB]) (c / BB) (wf_snoc w x _ Wx C1) C2 ltac:(rewrite len_snoc; lia)) as (r0 & E0 & W0 & V0 & L0).
      exists r0. split; [exact E0|]. split; [exact W0|]. rewrite len_snoc in *. split; [|lia].
      rewrite V0, val_snoc, Lx'. rewrite Z.pow_add_r, Z.pow_1_r by (pose proof (len_nonneg res); lia). nia.
    - assert (c = 0) by lia. subst c. exists x. split; [reflexivity|]. split; [exact Wx|]. split; lia. }
  rewrite bit_len_log2' by lia. replace (Z.log2 e + 1 - 2) with (Z.log2 e - 1) by ring.
  destruct (top_split_pow e ltac:(lia)) as (Tq & Pq). cbv zeta in Tq, Pq.
  destruct (powb_loop_spec (2 * e) e e 2 (2 * e) base e mulstep ltac:(lia) ltac:(lia) ltac:(lia) ltac:(lia) Hstep
              (Z.to_nat (Z.log2 e - 1)) [lo mod BB; lo / BB; hi mod BB; hi / BB] Winit) as (res & El & Wres & Vres & Lres).
  { change (len [lo mod BB; lo / BB; hi mod BB; hi / BB]) with 4. lia. }
  rewrite El. cbn [rbind]. rewrite Vinit in Vres. rewrite binary_total in Vres by lia.
  destruct (from_buffer_spec w w_ge res Wres) as (V' & T). eexists. split; [reflexivity|]. split; [lia | exact T].
Qed.

(** ------------------------------------------------------------------ pow_large_base *)
Lemma mul_large_w_correct lhs rhs : wfw lhs -> wfw rhs ->
  exists r, mul_large_w w div2by1 T_simple T_kara CHUNK SQR_SIMPLE lhs rhs = Ok r /\ rv r = val lhs * val rhs /\ twf w r.
Proof.
  intros Hl Hr. rewrite (mul_large_w_eq w w_ge div2by1 div2by1_ok T_simple T_kara CHUNK SQR_SIMPLE T_simple_ok T_kara_ok CHUNK_ok) by auto.
  apply (mul_large_correct w w_ge T_simple T_kara CHUNK SQR_SIMPLE T_simple_ok T_kara_ok3 CHUNK_ok); auto.
Qed.

Lemma square_large_w_correct ws : wfw ws ->
  exists r, square_large_w w div2by1 T_simple T_kara SQR_SIMPLE ws = Ok r /\ rv r = val ws * val ws /\ twf w r.
Proof.
  intros Hw. rewrite (square_large_w_eq w w_ge div2by1 div2by1_ok T_simple T_kara CHUNK SQR_SIMPLE T_simple_ok T_kara_ok CHUNK_ok) by auto.
  apply (square_large_correct w w_ge T_simple T_kara CHUNK SQR_SIMPLE T_simple_ok T_kara_ok3 CHUNK_ok); auto.
Qed.

Lemma pow_large_loop_w_spec base e : wfw base -> forall p res, twf w res ->
  exists r, pow_large_loop_w w div2by1 T_simple T_kara CHUNK SQR_SIMPLE p e base res = Ok r /\ twf w r /\
            rv r = rv res ^ (2 ^ Z.of_nat p) * val base ^ (e mod 2 ^ (Z.of_nat p + 1)).
Proof.
  intros Hbase. induction p as [|p' IH]; intros res Hres; cbn [pow_large_loop_w];
    destruct (as_slice_spec' res (twf_tok w res Hres)) as (Ws & Vs).
  - destruct (Z.testbit e (Z.of_nat 0)) eqn:Eb.
    + destruct (mul_large_w_correct _ base Ws Hbase) as (r & E & V & T).
      rewrite E. cbn [rbind]. eexists. split; [reflexivity|]. split; [exact T|].
      rewrite V, Vs. rewrite <- (binary_last (rv res) (val base) e true) by (symmetry; exact Eb). cbn [Z.b2z]. rewrite Z.pow_1_r. reflexivity.
    + cbn [rbind]. eexists. split; [reflexivity|]. split; [exact Hres|].
      rewrite <- (binary_last (rv res) (val base) e false) by (symmetry; exact Eb). cbn [Z.b2z]. rewrite Z.pow_0_r. ring.
  - assert (H' : exists res', (if Z.testbit e (Z.of_nat (S p')) then mul_large_w w div2by1 T_simple T_kara CHUNK SQR_SIMPLE (as_slice w res) base else Ok res) = Ok res' /\
                  twf w res' /\ rv res' = rv res * val base ^ Z.b2z (Z.testbit e (Z.of_nat (S p')))).
    { destruct (Z.testbit e (Z.of_nat (S p'))); cbn [Z.b2z].
      - destruct (mul_large_w_correct _ base Ws Hbase) as (r & E & V & T).
        exists r. rewrite Z.pow_1_r, V, Vs. auto.
      - exists res. rewrite Z.pow_0_r. repeat split; auto. ring. }
    destruct H' as (res' & E' & T' & V'). rewrite E'. cbn [rbind].
    destruct (as_slice_spec' res' (twf_tok w res' T')) as (Ws' & Vs').
    destruct (square_large_w_correct _ Ws') as (r1 & E1 & V1 & T1).
    rewrite E1. cbn [rbind]. destruct (IH r1 T1) as (r & E & Tr & Vr). exists r. split; [exact E|]. split; [exact Tr|].
    rewrite Vr, V1, Vs', V'. apply binary_step. reflexivity.
Qed.

Theorem pow_large_base_w_correct base e : wfw base -> 3 <= e ->
  exists r, pow_large_base_w w div2by1 T_simple T_kara CHUNK SQR_SIMPLE base e = Ok r /\ rv r = val base ^ e /\ twf w r.
Proof.
  intros Hbase He. unfold pow_large_base_w.
  destruct (square_large_w_correct _ Hbase) as (r1 & E1 & V1 & T1).
  rewrite E1. cbn [rbind]. rewrite bit_len_log2' by lia. replace (Z.log2 e + 1 - 2) with (Z.log2 e - 1) by ring.
  destruct (pow_large_loop_w_spec base e Hbase (Z.to_nat (Z.log2 e - 1)) r1 T1) as (r & E & Tr & Vr).
  exists r. split; [exact E|]. split; [|exact Tr]. rewrite Vr, V1. apply binary_total. lia.
Qed.

(** ------------------------------------------------------------------ TypedReprRef::pow *)
Theorem repr_pow_w_correct x e : twf w x -> 0 <= e ->
  exists r, repr_pow_w w div2by1 T_simple T_kara CHUNK SQR_SIMPLE x e = Ok r /\ rv r = rv x ^ e /\ twf w r.
Proof.
  intros Hx He. unfold repr_pow_w. pose proof (twf_tok w x Hx) as Hx'.
  destruct (Z.eqb_spec e 0) as [->|N0].
  { eexists. split; [reflexivity|]. cbn [repr_value twf]. rewrite Z.pow_0_r. split; [reflexivity | nia]. }
  destruct (Z.eqb_spec e 1) as [->|N1].
  { exists x. rewrite Z.pow_1_r. auto. }
  destruct (Z.eqb_spec e 2) as [->|N2].
  { destruct (repr_sqr_w_correct w w_ge div2by1 div2by1_ok T_simple T_kara CHUNK SQR_SIMPLE T_simple_ok T_kara_ok CHUNK_ok x Hx') as (r & E & V & T).
    exists r. split; [exact E|]. split; [rewrite V, Z.pow_2_r; reflexivity | exact T]. }
  destruct x as [d|ws]; cbn [twf tok repr_value] in *.
  - destruct (Z.ltb_spec d BB).
    + apply pow_word_base_w_correct; lia.
    + apply pow_dword_base_w_correct; lia.
  - apply pow_large_base_w_correct; [tauto | lia].
Qed.

(** ------------------------------------------------------------------ UBig::pow / IBig::pow *)
Lemma tz_spec_of_pos v k : 0 < v -> BitsSpec.trailing_zeros_spec v = Some k -> 0 <= k /\ Z.shiftr v k * 2 ^ k = v.
Proof.
  intros Hv E. destruct (BitsSpec.trailing_zeros_spec_ok v k E) as (Hk & T1 & T0).
  split; [exact Hk|]. rewrite Z.shiftr_div_pow2 by lia.
  assert (P : 0 < 2 ^ k) by (apply Z.pow_pos_nonneg; lia).
  assert (v mod 2 ^ k = 0).
  { apply Z.bits_inj'. intros i Hi. rewrite Z.bits_0. destruct (Z.ltb_spec i k).
    - rewrite Z.mod_pow2_bits_low by lia. apply T0. lia.
    - rewrite Z.mod_pow2_bits_high by lia. reflexivity. }
  pose proof (Z.div_mod v (2 ^ k) ltac:(lia)). lia.
Qed.

Theorem ubig_pow_w_correct cap x e : twf w x -> 0 <= e ->
  exists r, ubig_pow_w w div2by1 T_simple T_kara CHUNK SQR_SIMPLE cap x e = Ok r /\ rv r = rv x ^ e /\ twf w r.
Proof.
  intros Hx He. unfold ubig_pow_w. cbv zeta.
  pose proof (proj1 (twf_brepr_ok x) Hx) as Kx.
  rewrite (BitsMiscProofs.repr_trailing_zeros_correct w w_pos (to_b x) Kx). rewrite to_b_value.
  assert (Hv : 0 <= rv x).
  { destruct x as [d|ws]; cbn [twf repr_value] in *; [lia | apply value_nonneg; [exact w_pos | tauto]]. }
  destruct (BitsSpec.trailing_zeros_spec (rv x)) as [k|] eqn:Etz; cbn [Z.eqb negb]; [|apply repr_pow_w_correct; auto].
  destruct (Z.eqb_spec k 0) as [->|Nk]; cbn [negb]; [apply repr_pow_w_correct; auto|].
  assert (Hpos : 0 < rv x).
  { destruct (Z.eq_dec (rv x) 0) as [Z0|]; [|lia]. rewrite Z0 in Etz. discriminate. }
  destruct (tz_spec_of_pos (rv x) k Hpos Etz) as (Hk & Vs).
  destruct (BitsShiftProofs.repr_shr_ref_correct w w_pos (to_b x) k Hk Kx) as (Vq & Kq). rewrite to_b_value in Vq.
  destruct (repr_pow_w_correct _ e (proj1 (brepr_ok_twf _) Kq) He) as (r & E & V & T). rewrite E. cbn [rbind].
  rewrite of_b_value, Vq in V.
  destruct (BitsShiftProofs.repr_shl_correct w w_pos cap (to_b r) (e * k) ltac:(nia) (proj1 (twf_brepr_ok r) T)) as (Vr & Kr).
  rewrite to_b_value in Vr.
  eexists. split; [reflexivity|]. split; [|apply brepr_ok_twf; exact Kr].
  rewrite of_b_value, Vr, Z.shiftl_mul_pow2 by nia. rewrite V. rewrite <- Vs at 2.
  rewrite Z.pow_mul_l. f_equal. rewrite (Z.mul_comm e k), Z.pow_mul_r by lia. reflexivity.
Qed.

Theorem ibig_pow_w_correct cap s x e : twf w x -> 0 <= e ->
  exists r, ibig_pow_w w div2by1 T_simple T_kara CHUNK SQR_SIMPLE cap s x e = Ok r /\
    srv r = signed s (rv x) ^ e /\ twf w (snd r).
Proof.
  intros Hx He. unfold ibig_pow_w. destruct (ubig_pow_w_correct cap x e Hx He) as (r & E & V & T). rewrite E. cbn [rbind].
  eexists. split; [reflexivity|]. destruct (with_sign_value w (match s with Negative => if Z.odd e then Negative else Positive | Positive => Positive end) r) as (V' & S').
  rewrite S'. split; [|exact T]. rewrite V', V. unfold signed.
  destruct s; cbn [sgnz].
  - rewrite !Z.mul_1_l. reflexivity.
  - replace (-1 * rv x) with (- rv x) by ring. destruct (Z.odd e) eqn:Eo; cbn [sgnz].
    + rewrite Z.pow_opp_odd; [ring | apply Z.odd_spec; exact Eo].
    + rewrite Z.pow_opp_even; [ring | apply Z.even_spec; rewrite <- Z.negb_odd, Eo; reflexivity].
Qed.

End PowWProofs.
