(** C17 (round 5) - proofs for FmtBounds5.v: for EVERY word base B >= 2, every radix >= 2 with its max_exp_in_word data
    (rpw = radix^dpw < B <= radix * rpw) and every value, no guard of the printer models fails and the stated fuel suffices. *)
From Dashu Require Import Base.Prelude Int.FmtBounds5.
From DashuGen Require Import StorageGen5.
From Coq Require Import ZArith List Lia.
Import ListNotations.
Open Scope Z_scope.

Section FmtProofs.
Variable B : Z.
Variable radix dpw rpw : Z.
Hypothesis B_big : 2 <= B.
Hypothesis radix_big : 2 <= radix.
Hypothesis dpw_pos : 1 <= dpw.
Hypothesis rpw_def : rpw = radix ^ dpw.
Hypothesis rpw_fits : rpw < B.
Hypothesis rpw_max : B <= radix * rpw.

Let CL := gen5_fmt_chunk_len.
Let cp := rpw ^ gen5_fmt_chunk_power_exp.

Lemma rpw_big : 2 <= rpw.
Proof. subst rpw. replace dpw with (1 + (dpw - 1)) by lia. rewrite Z.pow_add_r by lia. rewrite Z.pow_1_r.
  pose proof (Z.pow_pos_nonneg radix (dpw - 1) ltac:(lia) ltac:(lia)). nia. Qed.

Lemma B_le_pow : B <= radix ^ (dpw + 1).
Proof. rewrite Z.pow_add_r by lia. rewrite Z.pow_1_r. rewrite <- rpw_def. lia. Qed.

Lemma pow_step k : 0 <= k -> rpw ^ (k + 1) = rpw * rpw ^ k.
Proof. intros H. rewrite Z.pow_add_r by lia. rewrite Z.pow_1_r. ring. Qed.

(* ------------------------------------------------------------------ PreparedMedium::new *)
Lemma medium_loop_ok fuel : forall x n,
  0 <= n <= 15 -> 0 <= x < rpw ^ (16 - n) -> 16 <= Z.of_nat fuel + n ->
  exists top k, medium_loop B rpw fuel x n = Ok (top, k) /\ n <= k < gen5_fmt_low_groups_len /\ 0 <= top < B.
Proof.
  pose proof rpw_big as R2.
  induction fuel as [|f IH]; intros x n Hn Hx Hf; cbn [medium_loop]; destruct (Z.ltb_spec x B) as [Hb|Hb];
    try (exists x, n; split; [reflexivity | unfold gen5_fmt_low_groups_len, gen5_fmt_chunk_len; lia]).
  - lia.
  - assert (n <= 14) as Hn14.
    { destruct (Z.eq_dec n 15) as [->|]; [|lia]. change (16 - 15) with 1 in Hx. rewrite Z.pow_1_r in Hx. lia. }
    unfold gen5_fmt_low_groups_len, gen5_fmt_chunk_len. destruct (Z.ltb_spec n 16) as [_|]; [|lia].
    assert (1 <= x / rpw) as Hq by (apply Z.div_le_lower_bound; lia).
    destruct (Z.eqb_spec (x / rpw) 0) as [E|_]; [lia|].
    assert (x / rpw < rpw ^ (16 - (n + 1))) as Hq2.
    { apply Z.div_lt_upper_bound; [lia|]. rewrite <- pow_step by lia. replace (16 - (n + 1) + 1) with (16 - n) by lia. lia. }
    destruct (IH (x / rpw) (n + 1)) as (top & k & E & Hk & Ht); [lia | lia | lia |].
    exists top, k. split; [exact E|]. unfold gen5_fmt_low_groups_len, gen5_fmt_chunk_len in *. lia.
Qed.

(** every word count a value below the chunk power can have fits the chunk buffer *)
Lemma chunk_len_fits len x : 0 <= x < rpw ^ 16 -> (0 < x -> B ^ (len - 1) <= x) -> (x = 0 -> len <= 1) -> len <= 16.
Proof.
  intros Hx Hl H0. destruct (Z.eq_dec x 0) as [E|NE]; [specialize (H0 E); lia|].
  specialize (Hl ltac:(lia)). destruct (Z_le_gt_dec len 16) as [|Hgt]; [assumption|exfalso].
  assert (rpw ^ 16 <= B ^ 16) as H1 by (apply Z.pow_le_mono_l; pose proof rpw_big; lia).
  assert (B ^ 16 <= B ^ (len - 1)) as H2 by (apply Z.pow_le_mono_r; lia). lia.
Qed.

Theorem medium_new_ok len x :
  0 <= x < rpw ^ 16 -> (0 < x -> B ^ (len - 1) <= x) -> (x = 0 -> len <= 1) ->
  exists top k, medium_new B rpw len x = Ok (top, k) /\ 0 <= k < gen5_fmt_low_groups_len /\ 0 <= top < B.
Proof.
  intros Hx Hl H0. unfold medium_new. pose proof (chunk_len_fits len x Hx Hl H0) as H16.
  unfold gen5_fmt_chunk_buffer_len at 1, gen5_fmt_chunk_len at 1. destruct (Z.leb_spec len 16) as [_|]; [|lia].
  destruct (medium_loop_ok (Z.to_nat gen5_fmt_low_groups_len) x 0) as (top & k & E & Hk & Ht);
    [lia | exact Hx | unfold gen5_fmt_low_groups_len, gen5_fmt_chunk_len; lia |].
  exists top, k. auto.
Qed.

(** the dispatch test of fmt_non_power_two: a value of [len] words with len * (dpw + 1) <= CHUNK_LEN * dpw is below the chunk power *)
Theorem dispatch_medium len x : 1 <= len -> 0 <= x < B ^ len -> fmt_dispatch dpw len = true -> x < rpw ^ 16.
Proof.
  intros Hl Hx Hd. unfold fmt_dispatch, gen5_fmt_medium_test, gen5_fmt_max_digits, gen5_fmt_chunk_len in Hd. apply Z.leb_le in Hd.
  assert (B ^ len <= (radix ^ (dpw + 1)) ^ len) as H1 by (apply Z.pow_le_mono_l; pose proof B_le_pow; lia).
  rewrite <- Z.pow_mul_r in H1 by lia.
  assert (radix ^ ((dpw + 1) * len) <= radix ^ (16 * dpw)) as H2 by (apply Z.pow_le_mono_r; lia).
  replace (16 * dpw) with (dpw * 16) in H2 by lia. rewrite (Z.pow_mul_r radix dpw 16) in H2 by lia. rewrite <- rpw_def in H2. lia.
Qed.

(* ------------------------------------------------------------------ write_chunk *)
Lemma chunk_loop_div c : forall x, 0 <= x -> chunk_loop rpw c x = x / rpw ^ Z.of_nat c.
Proof.
  pose proof rpw_big as R2.
  induction c as [|c IH]; intros x Hx; cbn [chunk_loop]; [change (Z.of_nat 0) with 0; rewrite Z.pow_0_r, Z.div_1_r; reflexivity|].
  rewrite IH by (apply Z.div_pos; lia). rewrite Z.div_div by (try apply Z.pow_pos_nonneg; lia).
  rewrite Nat2Z.inj_succ. unfold Z.succ. rewrite pow_step by lia. reflexivity.
Qed.

Theorem write_chunk_ok len x :
  0 <= x < rpw ^ 16 -> (0 < x -> B ^ (len - 1) <= x) -> (x = 0 -> len <= 1) -> write_chunk rpw len x = Ok tt.
Proof.
  intros Hx Hl H0. unfold write_chunk. pose proof (chunk_len_fits len x Hx Hl H0) as H16.
  unfold gen5_fmt_chunk_buffer_len, gen5_fmt_chunk_len. destruct (Z.leb_spec len 16) as [_|]; [|lia].
  rewrite chunk_loop_div by lia. change (Z.of_nat (Z.to_nat 16)) with 16. rewrite Z.div_small by lia. reflexivity.
Qed.

(* ------------------------------------------------------------------ PreparedWord::new *)
Lemma word_digits_ok cap min_digits fuel : forall word start,
  0 <= min_digits <= dpw -> dpw + 1 <= cap -> 0 <= start <= cap ->
  cap - dpw - 1 <= start -> 0 <= word < radix ^ (start - (cap - dpw - 1)) -> start < Z.of_nat fuel ->
  exists width, word_digits radix fuel cap min_digits word start = Ok width /\ min_digits <= width <= cap.
Proof.
  induction fuel as [|f IH]; intros word start Hm Hc Hs Hs2 Hw Hf; [lia|]. cbn [word_digits].
  destruct ((start >? cap - min_digits) || negb (word =? 0)) eqn:E.
  - assert (1 <= start - (cap - dpw - 1)) as Hs3.
    { apply Bool.orb_true_iff in E. destruct E as [E|E]; [rewrite Z.gtb_ltb in E; apply Z.ltb_lt in E; lia|].
      apply Bool.negb_true_iff in E. apply Z.eqb_neq in E.
      destruct (Z.eq_dec (start - (cap - dpw - 1)) 0) as [E0|]; [rewrite E0, Z.pow_0_r in Hw; lia | lia]. }
    destruct (Z.ltb_spec 0 start) as [_|]; [|lia].
    apply IH; try lia. split; [apply Z.div_pos; lia|].
    apply Z.div_lt_upper_bound; [lia|].
    replace (start - (cap - dpw - 1)) with ((start - 1 - (cap - dpw - 1)) + 1) in Hw by lia.
    rewrite Z.pow_add_r, Z.pow_1_r in Hw by lia. lia.
  - apply Bool.orb_false_iff in E. destruct E as [E _]. rewrite Z.gtb_ltb in E. apply Z.ltb_ge in E.
    exists (cap - start). split; [reflexivity | lia].
Qed.

Theorem prepared_word_ok cap min_digits word :
  0 <= min_digits <= dpw -> dpw + 1 <= cap -> 0 <= word < B ->
  exists width, prepared_word radix cap min_digits word = Ok width /\ min_digits <= width <= cap.
Proof.
  intros Hm Hc Hw. unfold prepared_word. apply word_digits_ok; try lia.
  replace (cap - (cap - dpw - 1)) with (dpw + 1) by lia. pose proof B_le_pow. lia.
Qed.

(** MAX_WORD_DIGITS_NON_POW_2 = max_exp_in_word(base).0 + inc is large enough for every radix >= base *)
Theorem max_word_digits_enough d3 :
  gen5_max_word_digits_base <= radix -> B <= gen5_max_word_digits_base * gen5_max_word_digits_base ^ d3 -> 0 <= d3 ->
  dpw + 1 <= d3 + gen5_max_word_digits_inc.
Proof.
  unfold gen5_max_word_digits_base, gen5_max_word_digits_inc. intros Hr Hb Hd.
  assert (3 ^ dpw <= radix ^ dpw) as H1 by (apply Z.pow_le_mono_l; lia).
  assert (3 ^ dpw < 3 ^ (d3 + 1)) as H2 by (rewrite (Z.pow_add_r 3 d3 1) by lia; rewrite Z.pow_1_r; lia).
  apply Z.pow_lt_mono_r_iff in H2; lia.
Qed.

(* ------------------------------------------------------------------ PreparedLarge *)
Variable wl : Z -> Z.
Hypothesis wl_ok : forall x, 0 <= x -> 0 <= wl x /\ (x = 0 -> wl x <= 1) /\ (0 < x -> B ^ (wl x - 1) <= x < B ^ wl x).

(** [Desc q ps]: ps = radix_powers[i - 1], ..., radix_powers[0] and q = radix_powers[i] *)
Fixpoint Desc (q : Z) (ps : list Z) : Prop :=
  match ps with [] => q = cp | p :: rest => q = p * p /\ Desc p rest end.

Lemma cp_big : 2 <= cp.
Proof. subst cp. unfold gen5_fmt_chunk_power_exp, gen5_fmt_chunk_len. pose proof rpw_big. change 16 with (1 + 15). rewrite Z.pow_add_r, Z.pow_1_r by lia.
  pose proof (Z.pow_pos_nonneg rpw 15 ltac:(lia) ltac:(lia)). nia. Qed.

Lemma Desc_big ps : forall q, Desc q ps -> 2 <= q.
Proof. induction ps as [|p rest IH]; intros q H; cbn [Desc] in H; [subst q; apply cp_big|]. destruct H as [-> H]. specialize (IH p H). nia. Qed.

Theorem write_big_ok ps : forall q x, Desc q ps -> 0 <= x < q -> write_big rpw wl ps x = Ok tt.
Proof.
  induction ps as [|p rest IH]; intros q x HD Hx; cbn [write_big Desc] in *.
  - subst q. destruct (wl_ok x ltac:(lia)) as (W0 & W1 & W2). apply write_chunk_ok; [exact Hx | intros H; apply W2; exact H | exact W1].
  - destruct HD as [-> HD]. pose proof (Desc_big rest p HD) as Hp.
    rewrite (IH p (x / p) HD); [apply (IH p (x mod p) HD); apply Z.mod_pos_bound; lia|].
    split; [apply Z.div_pos; lia | apply Z.div_lt_upper_bound; lia].
Qed.

Lemma ladder_ok number fuel : forall p rest,
  Desc p rest -> p <= number -> number < p + Z.of_nat fuel ->
  exists p' rest', ladder fuel number (wl number) wl (p :: rest) = Ok (p' :: rest') /\ Desc p' rest' /\ p' <= number < p' * p'.
Proof.
  induction fuel as [|f IH]; intros p rest HD Hle Hf; cbn [ladder]; pose proof (Desc_big rest p HD) as Hp;
    destruct (wl_ok p ltac:(lia)) as (W0 & _ & W2); specialize (W2 ltac:(lia));
    destruct (wl_ok number ltac:(lia)) as (N0 & _ & N2); specialize (N2 ltac:(lia));
    assert (1 <= wl p) as Hw1 by (destruct (Z_le_gt_dec 1 (wl p)); [assumption|]; exfalso; assert (wl p = 0) as E0 by lia; rewrite E0, Z.pow_0_r in W2; lia);
    (destruct (Z.leb_spec 1 (2 * wl p)) as [_|]; [|lia]);
    unfold gen5_fmt_len_break; destruct (Z.gtb_spec (2 * wl p - 1) (wl number)) as [Hbr|Hbr];
    try (exists p, rest; split; [reflexivity|]; split; [exact HD|]; split; [exact Hle|];
         assert (B ^ wl number <= B ^ (2 * (wl p - 1))) as H1 by (apply Z.pow_le_mono_r; lia);
         replace (2 * (wl p - 1)) with ((wl p - 1) + (wl p - 1)) in H1 by lia; rewrite Z.pow_add_r in H1 by lia;
         assert (B ^ (wl p - 1) * B ^ (wl p - 1) <= p * p) by (apply Z.mul_le_mono_nonneg; try lia; apply Z.pow_nonneg; lia); lia);
    destruct (Z.gtb_spec (p * p) number) as [Hsq|Hsq];
    try (exists p, rest; split; [reflexivity|]; split; [exact HD|]; lia).
  - exfalso. nia.
  - apply IH; [cbn [Desc]; split; [reflexivity | exact HD] | lia | nia].
Qed.

Lemma chain_ok ps : forall q x acc,
  Desc q ps -> 0 <= x < q -> Forall (fun pr => 0 <= snd pr < fst pr) acc ->
  0 <= fst (chain ps x acc) < cp /\ Forall (fun pr => 0 <= snd pr < fst pr) (snd (chain ps x acc)).
Proof.
  induction ps as [|p rest IH]; intros q x acc HD Hx Ha; cbn [chain Desc] in *.
  - subst q. cbn [fst snd]. auto.
  - destruct HD as [-> HD]. pose proof (Desc_big rest p HD) as Hp.
    destruct (Z.geb_spec x p) as [Hge|Hlt].
    + apply (IH p); [exact HD | split; [apply Z.div_pos; lia | apply Z.div_lt_upper_bound; lia] |].
      constructor; [cbn [fst snd]; apply Z.mod_pos_bound; lia | exact Ha].
    + apply (IH p); [exact HD | lia | exact Ha].
Qed.

(** PreparedLarge::new: the top chunk is below the chunk power (PreparedMedium's bound, medium_new_ok), every big chunk is below
    its power (write_big_ok); the fuel [number] suffices for the ladder of squares *)
Theorem large_new_ok number : 0 <= number ->
  exists top chunks, large_new rpw (Z.to_nat number) wl number = Ok (top, chunks) /\ 0 <= top < rpw ^ 16 /\
                     Forall (fun pr => 0 <= snd pr < fst pr) chunks.
Proof.
  intros Hn. unfold large_new. fold cp. cbv zeta. pose proof cp_big as Hc.
  destruct (Z.gtb_spec cp number) as [Hgt|Hle].
  - exists number, []. split; [reflexivity|]. change (rpw ^ 16) with cp. split; [lia | constructor].
  - destruct (ladder_ok number (Z.to_nat number) cp []) as (p & rest & E & HD & Hp); [reflexivity | exact Hle | lia |].
    rewrite E. pose proof (Desc_big rest p HD) as Hp2.
    destruct (chain_ok rest p (number / p) [(p, number mod p)] HD) as [H1 H2].
    + split; [apply Z.div_pos; lia | apply Z.div_lt_upper_bound; lia].
    + constructor; [cbn [fst snd]; apply Z.mod_pos_bound; lia | constructor].
    + destruct (chain rest (number / p) [(p, number mod p)]) as [top chunks]. exists top, chunks. split; [reflexivity|].
      cbn [fst snd] in *. change (rpw ^ 16) with cp. split; [exact H1 | exact H2].
Qed.

End FmtProofs.

(** non-vacuity: 64-bit words, radix 10 (digits_per_word = 19) and radix 3 (40) meet the premises; a 15-word value takes the
    medium route with 15 low groups *)
Example fmt_premises_radix10 : 2 <= 2 ^ 64 /\ 10 ^ 19 = 10 ^ 19 /\ 10 ^ 19 < 2 ^ 64 /\ 2 ^ 64 <= 10 * 10 ^ 19.
Proof. repeat split; vm_compute; congruence. Qed.
Example fmt_medium_example :
  fmt_dispatch 19 15 = true /\ fmt_dispatch 19 16 = false /\
  medium_new (2 ^ 64) (10 ^ 19) 15 (2 ^ 959) = Ok (2 ^ 959 / (10 ^ 19) ^ 15, 15) /\
  write_chunk (10 ^ 19) 16 ((10 ^ 19) ^ 16 - 1) = Ok tt /\ prepared_word 10 41 1 (2 ^ 64 - 1) = Ok 20 /\ prepared_word 3 41 40 (2 ^ 64 - 1) = Ok 41.
Proof. vm_compute. repeat split; reflexivity. Qed.

(** power-of-two printer of a value of len >= 1 words whose top word has lz < w leading zeros: neither subtraction underflows, and the
    first `bits` lies in (0, w + log_radix) - it fits u32 and the loop starts inside the top word *)
Theorem pow2_first_bits_ok len w lz lr :
  1 <= len -> 0 <= lz < w -> 1 <= lr -> w + lr <= 2 ^ 32 ->
  exists bits, pow2_first_bits len w lz lr = Ok bits /\ 0 < bits < w + lr.
Proof.
  intros Hl Hz Hr Hw. unfold pow2_first_bits, pow2_width, gen5_fmt_pow2_bits, gen5_fmt_pow2_min_width, gen5_fmt_pow2_first_bits, ceil_div5.
  assert (lz < len * w) as H0 by nia.
  destruct (Z.leb_spec lz (len * w)) as [_|]; [|lia].
  set (a := len * w - lz) in *. assert (1 <= a) as Ha by lia.
  destruct (Z.eqb_spec a 0) as [|_]; [lia|].
  pose proof (Z.mul_div_le (a - 1) lr ltac:(lia)) as D1. pose proof (Z.mul_succ_div_gt (a - 1) lr ltac:(lia)) as D2.
  assert (0 <= (a - 1) / lr) as D0 by (apply Z.div_pos; lia).
  set (q := (a - 1) / lr) in *. rewrite Z.max_l by lia.
  assert ((len - 1) * w < (q + 1) * lr) as L1 by (subst a; nia).
  assert ((q + 1) * lr < (len - 1) * w + w + lr) as L2 by (subst a; nia).
  destruct (Z.leb_spec ((len - 1) * w) ((q + 1) * lr)) as [_|]; [|lia].
  destruct (Z.ltb_spec ((q + 1) * lr - (len - 1) * w) (2 ^ 32)) as [_|]; [|lia].
  eexists. split; [reflexivity | lia].
Qed.
Example pow2_first_bits_example : pow2_first_bits 3 64 63 3 = Ok 1 /\ pow2_first_bits 3 64 0 5 = Ok 67 /\ pow2_first_bits 1 64 63 4 = Ok 4.
Proof. vm_compute. repeat split; reflexivity. Qed.
