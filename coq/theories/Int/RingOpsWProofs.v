(** C01 (L1): * sqr cubic over the word-level kernels return exactly the mathematical result, normalised and
    inline iff <= 2 words, for all operands, every word size w >= 8 and every admissible threshold set.
    Proof: on well-formed operands the word-level kernels ARE the kernels of RingMul.v (RingMulWProofs:
    the contract determines the answer), so each operator arm equals its RingOps.v twin. *)
From Dashu Require Import Base.Prelude Base.Words Int.RingSpec Int.RingAdd Int.RingAddProofs Int.RingMul Int.RingMulProofs
  Int.RingDispatchProofs Int.RingSqrProofs Int.RingOps Int.RingOpsProofs Int.RingOpsMulProofs
  Int.DivWordProofs Int.RingMulW Int.RingMulWProofs Int.RingOpsW.
Open Scope Z_scope.

Section OpsWProofs.
Variable w : Z.
Hypothesis w_ge : 8 <= w.
Variable div2by1 : Z -> Z -> Z * Z.
Hypothesis div2by1_ok : forall d a, norm1 w d -> 0 <= a < d * B w -> div2by1 d a = (a / d, a mod d).
Variable T_simple T_kara CHUNK SQR_SIMPLE : nat.
Hypothesis T_simple_ok : (1 <= T_simple)%nat.
Hypothesis T_kara_ok : (15 <= T_kara)%nat.
Hypothesis CHUNK_ok : (1 <= CHUNK)%nat.
Notation rv := (repr_value w).
Notation srv := (srepr_value w).
Let T_kara_ok3 : (3 <= T_kara)%nat. Proof. lia. Qed.

Lemma square_large_w_eq ws : wf w ws ->
  square_large_w w div2by1 T_simple T_kara SQR_SIMPLE ws = square_large w T_simple T_kara SQR_SIMPLE ws.
Proof.
  intros H. unfold square_large_w, square_large.
  rewrite (sqr_w_eq w w_ge div2by1 div2by1_ok T_simple T_kara CHUNK SQR_SIMPLE T_simple_ok T_kara_ok CHUNK_ok ws H). reflexivity.
Qed.

Lemma mul_large_w_eq lhs rhs : wf w lhs -> wf w rhs ->
  mul_large_w w div2by1 T_simple T_kara CHUNK SQR_SIMPLE lhs rhs = mul_large w T_simple T_kara CHUNK SQR_SIMPLE lhs rhs.
Proof.
  intros Hl Hr. unfold mul_large_w, mul_large. rewrite square_large_w_eq by exact Hl.
  rewrite (multiply_w_eq w w_ge div2by1 div2by1_ok T_simple T_kara CHUNK T_simple_ok T_kara_ok CHUNK_ok lhs rhs Hl Hr). reflexivity.
Qed.

Lemma repr_mul_w_eq x y : tok w x -> tok w y ->
  repr_mul_w w div2by1 T_simple T_kara CHUNK SQR_SIMPLE x y = repr_mul w T_simple T_kara CHUNK SQR_SIMPLE x y.
Proof. intros Hx Hy. destruct x, y; cbn [repr_mul_w repr_mul tok] in *; try reflexivity. apply mul_large_w_eq; auto. Qed.

Lemma repr_sqr_w_eq x : tok w x ->
  repr_sqr_w w div2by1 T_simple T_kara SQR_SIMPLE x = repr_sqr w T_simple T_kara SQR_SIMPLE x.
Proof. intros Hx. destruct x; cbn [repr_sqr_w repr_sqr tok] in *; try reflexivity. apply square_large_w_eq; auto. Qed.

Theorem repr_mul_w_correct x y : tok w x -> tok w y ->
  exists r, repr_mul_w w div2by1 T_simple T_kara CHUNK SQR_SIMPLE x y = Ok r /\
    Ok (rv r) = ubig_mul_spec (rv x) (rv y) /\ twf w r.
Proof.
  intros Hx Hy. rewrite repr_mul_w_eq by auto.
  destruct (repr_mul_correct w w_ge T_simple T_kara CHUNK SQR_SIMPLE T_simple_ok T_kara_ok3 CHUNK_ok x y Hx Hy) as (r & E & V & T).
  exists r. unfold ubig_mul_spec. rewrite V. auto.
Qed.

Theorem repr_sqr_w_correct x : tok w x ->
  exists r, repr_sqr_w w div2by1 T_simple T_kara SQR_SIMPLE x = Ok r /\ rv r = sqr_spec (rv x) /\ twf w r.
Proof.
  intros Hx. rewrite repr_sqr_w_eq by auto.
  exact (repr_sqr_correct w w_ge T_simple T_kara CHUNK SQR_SIMPLE T_simple_ok T_kara_ok3 CHUNK_ok x Hx).
Qed.

Theorem ibig_mul_asis_w_correct s0 x s1 y : tok w x -> tok w y ->
  exists r, ibig_mul_asis_w w div2by1 T_simple T_kara CHUNK SQR_SIMPLE s0 x s1 y = Ok r /\
    srv r = ibig_mul_spec (signed s0 (rv x)) (signed s1 (rv y)) /\ twf w (snd r).
Proof.
  intros Hx Hy. unfold ibig_mul_asis_w. rewrite repr_mul_w_eq by auto.
  exact (ibig_mul_asis_correct w w_ge T_simple T_kara CHUNK SQR_SIMPLE T_simple_ok T_kara_ok3 CHUNK_ok s0 x s1 y Hx Hy).
Qed.

Theorem ubig_cubic_asis_w_correct x : tok w x ->
  exists r, ubig_cubic_asis_w w div2by1 T_simple T_kara CHUNK SQR_SIMPLE x = Ok r /\ rv r = cubic_spec (rv x) /\ twf w r.
Proof.
  intros Hx. unfold ubig_cubic_asis_w, cubic_spec.
  destruct (repr_sqr_w_correct x Hx) as (q & E & V & T). rewrite E.
  destruct (repr_mul_w_correct x q Hx (twf_tok w q T)) as (r & E' & V' & T').
  exists r. split; [exact E'|]. split; [|exact T']. unfold ubig_mul_spec in V'. inversion V' as [V'']. rewrite V'', V. unfold sqr_spec. ring.
Qed.

Theorem ibig_cubic_asis_w_correct s x : tok w x ->
  exists r, ibig_cubic_asis_w w div2by1 T_simple T_kara CHUNK SQR_SIMPLE s x = Ok r /\
    srv r = cubic_spec (signed s (rv x)) /\ twf w (snd r).
Proof.
  intros Hx. unfold ibig_cubic_asis_w, cubic_spec.
  destruct (repr_sqr_w_correct x Hx) as (q & E & V & T). rewrite E.
  destruct (ibig_mul_asis_w_correct s x Positive q Hx (twf_tok w q T)) as (r & E' & V' & T').
  exists r. split; [exact E'|]. split; [|exact T']. rewrite V', V. unfold ibig_mul_spec, sqr_spec, signed. destruct s; cbn [sgnz]; ring.
Qed.

End OpsWProofs.
