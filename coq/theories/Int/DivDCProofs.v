(** C02 - div/divide_conquer.rs (Burnikel-Ziegler) as modelled in DivWordModel.v: every result the
    recursion returns satisfies the kernel contract `lhs = [lhs % rhs, lhs / rhs]` + carry
    (soundness, any fuel), relative to the contract of the multiplication kernel
    mul::add_signed_mul (C01) and of num-modular's 3-by-2 division.  Every word size, every length. *)
From Dashu Require Import Base.Prelude Base.Words Int.DivWordModel Int.DivWordProofs Int.DivSimpleProofs Int.DivLargeProofs.
Open Scope Z_scope.

Section DivDC.
Variable w : Z.
Hypothesis w_pos : 0 < w.
Notation B := (Words.B w).
Notation value := (Words.value w).
Notation wf := (Words.wf w).
Notation normalized_top := (DivSimpleProofs.normalized_top w).
Notation kernel_pre := (DivLargeProofs.kernel_pre w).
Notation kernel_post := (DivLargeProofs.kernel_post w).

Local Lemma Bpos : 0 < B. Proof. apply B_pos; lia. Qed.
Local Notation Bpow_pos := (DivWordProofs.Bpow_pos w w_pos).
Local Notation value_lt := (DivSimpleProofs.value_lt w w_pos).
Local Notation value_split := (DivSimpleProofs.value_split w).
Local Notation wf_firstn := (DivSimpleProofs.wf_firstn w).
Local Notation wf_skipn := (DivSimpleProofs.wf_skipn w).

Lemma Bpow_add a b : B ^ Z.of_nat (a + b) = B ^ Z.of_nat a * B ^ Z.of_nat b.
Proof. rewrite Nat2Z.inj_add, Z.pow_add_r by lia. reflexivity. Qed.

Lemma Bpow_even m : (1 <= m)%nat -> exists h, B ^ Z.of_nat m = 2 * h.
Proof.
  intros Hm. exists (2 ^ (w - 1) * B ^ Z.of_nat (m - 1)).
  replace m with (1 + (m - 1))%nat at 1 by lia. rewrite Bpow_add. change (Z.of_nat 1) with 1. rewrite Z.pow_1_r.
  unfold Words.B at 1. replace w with (Z.succ (w - 1)) at 1 by lia. rewrite Z.pow_succ_r by lia. ring.
Qed.

Lemma skipn_app_plus {A} (a b : list A) j : skipn (length a + j) (a ++ b) = skipn j b.
Proof. rewrite skipn_app. rewrite skipn_all2 by lia. replace (length a + j - length a)%nat with j by lia. reflexivity. Qed.

(** the top words of a normalised divisor are a normalised divisor *)
Lemma normalized_top_suffix rhs j : wf rhs -> normalized_top rhs -> (j < length rhs)%nat ->
  normalized_top (skipn j rhs).
Proof.
  intros Hwf Hn Hj. unfold DivSimpleProofs.normalized_top in *. unfold len in *. rewrite skipn_length.
  pose proof (value_split j rhs ltac:(lia)) as Hsp.
  pose proof (value_lt (firstn j rhs) (wf_firstn _ _ Hwf)) as Hlo. unfold len in Hlo. rewrite firstn_length_le in Hlo by lia.
  replace (length rhs) with (j + (length rhs - j))%nat in Hn at 1 by lia. rewrite Bpow_add in Hn.
  destruct (Bpow_even (length rhs - j) ltac:(lia)) as [h Hh]. rewrite Hh in *.
  pose proof (Bpow_pos (Z.of_nat j) ltac:(lia)). nia.
Qed.

(** *** a 2m-by-m division from two (3m/2)-by-m divisions (div_rem_in_place_same_len) *)
Lemma same_len_combine l r nlo hi o lo o2 :
  wf l -> length l = (2 * length r)%nat -> (nlo <= length r)%nat -> 0 < value r ->
  kernel_post (skipn nlo l) r hi o ->
  kernel_post (firstn (length r + nlo) (firstn nlo l ++ hi)) r lo o2 ->
  kernel_post l r (lo ++ skipn (length r + nlo) (firstn nlo l ++ hi)) o.
Proof.
  intros Hwl Hll Hnlo HV (Hwhi & Hlhi & Hrh & Hqh) (Hwlo & Hllo & Hrl & Hql). pose proof Bpos as HB.
  set (m := length r) in *. set (Vr := value r) in *.
  set (A := firstn nlo l) in *. set (l' := skipn nlo l) in *.
  assert (length A = nlo) as HlA by (unfold A; rewrite firstn_length_le; lia).
  assert (length l' = (2 * m - nlo)%nat) as Hll' by (unfold l'; rewrite skipn_length; lia).
  assert (wf A) as HwA by (apply wf_firstn; exact Hwl).
  pose proof (value_split nlo l ltac:(lia)) as Hsp. fold A l' in Hsp.
  pose proof (value_lt A HwA) as HA0. unfold len in HA0. rewrite HlA in HA0.
  rewrite Hll' in Hlhi. replace (length l' - m)%nat with (m - nlo)%nat in Hqh by lia.
  assert (firstn (m + nlo) (A ++ hi) = A ++ firstn m hi) as Ef.
  { replace (m + nlo)%nat with (length A + m)%nat by lia. apply firstn_app_2. }
  assert (skipn (m + nlo) (A ++ hi) = skipn m hi) as Es.
  { replace (m + nlo)%nat with (length A + m)%nat by lia. apply skipn_app_plus. }
  rewrite Ef in *. rewrite Es.
  assert (length (A ++ firstn m hi) = (nlo + m)%nat) as Hl2 by (rewrite app_length, firstn_length_le; lia).
  rewrite Hl2 in Hllo, Hql. replace (nlo + m - m)%nat with nlo in Hql by lia.
  rewrite value_app in Hrl, Hql. unfold len in Hrl, Hql. rewrite HlA in Hrl, Hql.
  set (Rh := value (firstn m hi)) in *. set (Qh := value (skipn m hi)) in *.
  set (Rl := value (firstn m lo)) in *. set (Ql := value (skipn m lo)) in *.
  pose proof (Z.div_mod (value l') Vr ltac:(lia)) as Hdm1. pose proof (Z.mod_pos_bound (value l') Vr HV) as Hmb1.
  pose proof (Z.div_mod (value A + B ^ Z.of_nat nlo * Rh) Vr ltac:(lia)) as Hdm2.
  pose proof (Z.mod_pos_bound (value A + B ^ Z.of_nat nlo * Rh) Vr HV) as Hmb2.
  pose proof (Bpow_pos (Z.of_nat nlo) ltac:(lia)) as HBn.
  pose proof (value_lt (skipn m lo) (wf_skipn _ _ Hwlo)) as HQl. fold Ql in HQl.
  unfold len in HQl. rewrite skipn_length, Hllo in HQl. replace (Z.of_nat (nlo + m - m)) with (Z.of_nat nlo) in HQl by lia.
  assert ((value A + B ^ Z.of_nat nlo * Rh) / Vr < B ^ Z.of_nat nlo) as Hlt.
  { apply Z.div_lt_upper_bound; [lia|]. nia. }
  assert (o2 = false) as -> by (destruct o2; [cbn [Z.b2z] in Hql; lia | reflexivity]).
  cbn [Z.b2z] in Hql. rewrite Z.mul_0_r, Z.add_0_r in Hql.
  assert (B ^ Z.of_nat m = B ^ Z.of_nat nlo * B ^ Z.of_nat (m - nlo)) as HBm.
  { rewrite <- Bpow_add. f_equal. lia. }
  assert (value l = Vr * (Ql + B ^ Z.of_nat nlo * Qh + B ^ Z.of_nat m * Z.b2z o) + Rl) as Htot.
  { rewrite <- Hrh, <- Hqh in Hdm1. rewrite <- Hrl, <- Hql in Hdm2. rewrite Hsp, Hdm1, HBm.
    set (P := B ^ Z.of_nat nlo) in *. set (P2 := B ^ Z.of_nat (m - nlo)) in *.
    replace (value A + P * (Vr * (Qh + P2 * Z.b2z o) + Rh)) with ((value A + P * Rh) + Vr * P * (Qh + P2 * Z.b2z o)) by ring.
    rewrite Hdm2. ring. }
  unfold DivLargeProofs.kernel_post. fold m Vr.
  split; [apply wf_app; split; [exact Hwlo | apply wf_skipn; exact Hwhi]|].
  split; [rewrite app_length, skipn_length; lia|].
  rewrite firstn_app. replace (m - length lo)%nat with 0%nat by lia. cbn [firstn]. rewrite app_nil_r. fold Rl.
  rewrite skipn_app. replace (m - length lo)%nat with 0%nat by lia. cbn [skipn]. rewrite value_app. fold Ql Qh.
  unfold len. rewrite skipn_length, Hllo. replace (Z.of_nat (nlo + m - m)) with (Z.of_nat nlo) by lia.
  replace (length l - m)%nat with m by lia.
  split.
  - apply Z.mod_unique with (Ql + B ^ Z.of_nat nlo * Qh + B ^ Z.of_nat m * Z.b2z o); [left; lia | exact Htot].
  - apply Z.div_unique with Rl; [left; lia | exact Htot].
Qed.

(** *** the add-back loop: sound for every fuel *)
Lemma dc_fix_loop_sound rhs n m X : wf rhs -> length rhs = n -> 0 < value rhs ->
  forall fuel rem q ro qo rem' q' ro' qo',
  wf rem -> length rem = n -> wf q -> length q = m ->
  value rem + B ^ Z.of_nat n * ro = X - (value q + B ^ Z.of_nat m * qo) * value rhs ->
  X - (value q + B ^ Z.of_nat m * qo) * value rhs < value rhs ->
  dc_fix_loop w fuel rem q rhs ro qo = Ok (rem', q', ro', qo') ->
  wf rem' /\ length rem' = n /\ wf q' /\ length q' = m /\
  value rem' = X - (value q' + B ^ Z.of_nat m * qo') * value rhs /\ 0 <= value rem' < value rhs.
Proof.
  intros Hwr Hlr HV. pose proof Bpos as HB. set (V := value rhs) in *.
  pose proof (value_lt rhs Hwr) as HVlt. unfold len in HVlt. rewrite Hlr in HVlt. fold V in HVlt.
  pose proof (Bpow_pos (Z.of_nat n) ltac:(lia)) as HBn.
  assert (forall rem q ro qo rem' q' ro' qo', wf rem -> length rem = n -> wf q -> length q = m ->
    value rem + B ^ Z.of_nat n * ro = X - (value q + B ^ Z.of_nat m * qo) * V ->
    X - (value q + B ^ Z.of_nat m * qo) * V < V -> 0 <= ro ->
    Ok (rem, q, ro, qo) = Ok (rem', q', ro', qo') ->
    wf rem' /\ length rem' = n /\ wf q' /\ length q' = m /\
    value rem' = X - (value q' + B ^ Z.of_nat m * qo') * V /\ 0 <= value rem' < V) as Hexit.
  { intros rem q ro qo rem' q' ro' qo' Hw1 Hl1 Hw2 Hl2 Hinv Hup Hro E. inversion E; subst; clear E.
    pose proof (value_lt rem' Hw1) as Hr. unfold len in Hr. rewrite Hl1 in Hr.
    assert (ro' = 0) by nia. subst ro'. repeat split; try assumption; lia. }
  induction fuel as [|f IH]; intros rem q ro qo rem' q' ro' qo' Hw1 Hl1 Hw2 Hl2 Hinv Hup E; cbn [dc_fix_loop] in E.
  - destruct (Z.ltb_spec ro 0) as [Hneg|Hnn]; [discriminate|]. apply (Hexit rem q ro qo rem' q' ro' qo'); assumption.
  - destruct (Z.ltb_spec ro 0) as [Hneg|Hnn]; [|apply (Hexit rem q ro qo rem' q' ro' qo'); assumption].
    destruct (add_same_len w rem rhs) as [rem1 c] eqn:Ea.
    destruct (sub_one w q) as [q1 b] eqn:Es.
    destruct (add_same_len_spec w w_pos rem rhs Hw1 Hwr ltac:(lia) _ _ Ea) as (Ha & Hwa & Hla & Hc).
    destruct (sub_one_spec w w_pos q Hw2 _ _ Es) as (Hs & Hws & Hls & Hb).
    unfold len in Ha, Hs. rewrite Hl1 in Ha. rewrite Hl2 in Hs. fold V in Ha.
    pose proof (value_lt rem Hw1) as Hr. unfold len in Hr. rewrite Hl1 in Hr.
    apply (IH rem1 q1 (ro + c) (qo - b) rem' q' ro' qo'); try assumption; try lia; nia.
Qed.

Variable div3by2 : Z -> Z -> Z -> Z * Z.
Hypothesis div3by2_ok : forall d lo hi, norm2 w d -> 0 <= lo < B -> 0 <= hi < d ->
  div3by2 d lo hi = ((lo + B * hi) / d, (lo + B * hi) mod d).
(** contract of mul::add_signed_mul(c, Negative, a, b) (C01): c -= a * b, signed carry returned *)
Variable mul_sub : list Z -> list Z -> list Z -> list Z * Z.
Hypothesis mul_sub_ok : forall c a b c' k, wf c -> wf a -> wf b -> length c = (length a + length b)%nat ->
  mul_sub c a b = (c', k) ->
  wf c' /\ length c' = length c /\ value c' + B ^ len c * k = value c - value a * value b.
Variable T : nat.
Hypothesis T_ge : (2 <= T)%nat.     (* const_assert!(THRESHOLD_SIMPLE >= 3) in the source *)
Notation dsq := (dc_small_quotient w div3by2 mul_sub T).

(** *** div_rem_in_place_small_quotient: quotient not longer than the divisor *)
Lemma dc_small_quotient_sound : forall fuel lhs rhs res o,
  kernel_pre lhs rhs -> (length lhs - length rhs <= length rhs)%nat ->
  dsq fuel lhs rhs = Ok (res, o) -> kernel_post lhs rhs res o.
Proof.
  pose proof Bpos as HB.
  induction fuel as [|f IH]; intros lhs rhs res o Hpre Hmn E; [discriminate|].
  pose proof Hpre as (Hwl & Hwr & Hn2 & Hnl & Hnorm).
  cbn [dc_small_quotient] in E. cbv zeta in E.
  set (n := length rhs) in *. set (m := (length lhs - n)%nat) in *.
  destruct (Nat.leb_spec m T) as [Hle|Hgt].
  { destruct (simple_div_rem w div3by2 lhs rhs) as [res' c'] eqn:Es. inversion E; subst res' c'.
    exact (simple_div_rem_correct w w_pos div3by2 div3by2_ok lhs rhs Hwl Hwr Hn2 Hnl Hnorm res o Es). }
  set (l := skipn (n - m) lhs) in *. set (r := skipn (n - m) rhs) in *. set (nlo := (m / 2)%nat) in *.
  assert (nlo <= m)%nat as Hnlo by (unfold nlo; apply Nat.div_le_upper_bound; lia).
  assert (length l = (2 * m)%nat) as Hll by (unfold l; rewrite skipn_length; unfold m; lia).
  assert (length r = m) as Hlr by (unfold r; rewrite skipn_length; unfold n; lia).
  assert (wf l) as Hwl' by (apply wf_skipn; exact Hwl).
  assert (wf r) as Hwr' by (apply wf_skipn; exact Hwr).
  assert (normalized_top r) as Hnr by (apply normalized_top_suffix; [exact Hwr | exact Hnorm | fold n; lia]).
  pose proof (DivLargeProofs.normalized_top_pos w w_pos r Hnr) as HVr.
  (* first (3m/2)-by-m division *)
  assert (kernel_pre (skipn nlo l) r) as Hpre1.
  { repeat split; try assumption; try lia. apply wf_skipn; exact Hwl'. rewrite skipn_length. lia. }
  destruct (dsq f (skipn nlo l) r) as [[hi o1]| | |] eqn:E1; cbn [rbind] in E; try discriminate.
  pose proof (IH _ _ _ _ Hpre1 ltac:(rewrite skipn_length; lia) E1) as Hpost1.
  pose proof Hpost1 as (Hwhi & Hlhi & _ & _). rewrite skipn_length in Hlhi.
  (* second one *)
  set (l1 := firstn nlo l ++ hi) in *.
  assert (length l1 = (2 * m)%nat) as Hll1 by (unfold l1; rewrite app_length, firstn_length_le; lia).
  assert (wf l1) as Hwl1 by (unfold l1; apply wf_app; split; [apply wf_firstn; exact Hwl' | exact Hwhi]).
  assert (kernel_pre (firstn (m + nlo) l1) r) as Hpre2.
  { repeat split; try assumption; try lia. apply wf_firstn; exact Hwl1. rewrite firstn_length_le; lia. }
  destruct (dsq f (firstn (m + nlo) l1) r) as [[lo o2]| | |] eqn:E2; cbn [rbind] in E; try discriminate.
  pose proof (IH _ _ _ _ Hpre2 ltac:(rewrite firstn_length_le; lia) E2) as Hpost2.
  rewrite <- Hlr in Hpost2 at 1.
  pose proof (same_len_combine l r nlo hi o1 lo o2 Hwl' ltac:(lia) ltac:(lia) HVr Hpost1 Hpost2) as Hcomb.
  rewrite Hlr in Hcomb. fold l1 in Hcomb.
  set (l2 := lo ++ skipn (m + nlo) l1) in *.
  destruct Hcomb as (Hwl2 & Hll2 & Hrl2 & Hql2). rewrite Hlr in Hrl2, Hql2. rewrite Hll in Hll2, Hql2.
  replace (2 * m - m)%nat with m in Hql2 by lia.
  (* the multiply-subtract with the low words of the divisor *)
  set (L0 := firstn (n - m) lhs) in *. set (rhs_lo := firstn (n - m) rhs) in *.
  assert (length L0 = (n - m)%nat) as HlL0 by (unfold L0; rewrite firstn_length_le; lia).
  assert (length rhs_lo = (n - m)%nat) as Hlrl by (unfold rhs_lo; rewrite firstn_length_le; lia).
  assert (wf L0) as HwL0 by (apply wf_firstn; exact Hwl).
  assert (wf rhs_lo) as Hwrl by (apply wf_firstn; exact Hwr).
  assert (firstn n (L0 ++ l2) = L0 ++ firstn m l2) as Ef.
  { replace n with (length L0 + m)%nat at 1 by lia. apply firstn_app_2. }
  assert (skipn n (L0 ++ l2) = skipn m l2) as Esk.
  { replace n with (length L0 + m)%nat at 1 by lia. apply skipn_app_plus. }
  rewrite Ef, Esk in E.
  set (rem := L0 ++ firstn m l2) in *. set (q := skipn m l2) in *.
  assert (wf rem) as Hwrem by (unfold rem; apply wf_app; split; [exact HwL0 | apply wf_firstn; exact Hwl2]).
  assert (wf q) as Hwq by (apply wf_skipn; exact Hwl2).
  assert (length rem = n) as Hlrem by (unfold rem; rewrite app_length, firstn_length_le; lia).
  assert (length q = m) as Hlq by (unfold q; rewrite skipn_length; lia).
  destruct (mul_sub rem q rhs_lo) as [rem1 ro] eqn:E3.
  destruct (mul_sub_ok rem q rhs_lo rem1 ro Hwrem Hwq Hwrl ltac:(lia) E3) as (Hwrem1 & Hlrem1 & Hms).
  unfold len in Hms. rewrite Hlrem in Hms, Hlrem1.
  (* values *)
  set (V := value rhs) in *. set (Vr := value r) in *. set (V0 := value rhs_lo) in *.
  set (P := B ^ Z.of_nat (n - m)) in *.
  assert (0 < P) as HP by (apply Bpow_pos; lia).
  pose proof (Bpow_pos (Z.of_nat m) ltac:(lia)) as HBm.
  assert (B ^ Z.of_nat n = B ^ Z.of_nat m * P) as HBnm.
  { unfold P. rewrite <- Bpow_add. f_equal. lia. }
  pose proof (value_split (n - m) rhs ltac:(lia)) as HspV. fold rhs_lo r V V0 Vr P in HspV.
  pose proof (value_split (n - m) lhs ltac:(lia)) as HspL. fold L0 l P in HspL.
  pose proof (value_lt L0 HwL0) as HL0. unfold len in HL0. rewrite HlL0 in HL0. fold P in HL0.
  pose proof (value_lt rhs_lo Hwrl) as HV0. unfold len in HV0. rewrite Hlrl in HV0. fold V0 P in HV0.
  pose proof (value_lt q Hwq) as Hq0. unfold len in Hq0. rewrite Hlq in Hq0.
  assert (value rem = value L0 + P * value (firstn m l2)) as Hvrem.
  { unfold rem. rewrite value_app. unfold len. rewrite HlL0. reflexivity. }
  fold q in Hql2.
  pose proof (Z.div_mod (value l) Vr ltac:(lia)) as Hdm. pose proof (Z.mod_pos_bound (value l) Vr HVr) as Hmb.
  rewrite <- Hrl2, <- Hql2 in Hdm. rewrite <- Hrl2 in Hmb.
  set (Rl := value (firstn m l2)) in *. set (Qh := value q + B ^ Z.of_nat m * Z.b2z o1) in *.
  assert (0 <= Qh) as HQh by (unfold Qh; destruct o1; cbn [Z.b2z]; lia).
  assert (0 < V) as HVpos by (apply (DivLargeProofs.normalized_top_pos w w_pos); exact Hnorm).
  assert (value lhs - Qh * V = value rem - Qh * V0) as Hkey by (rewrite HspL, Hdm, HspV, Hvrem; ring).
  assert (value lhs - Qh * V < V) as Hup by nia.
  (* the extra subtraction when the quotient estimate overflowed *)
  assert (exists rem2 ro2, (if o1 then let '(t, b) := sub_same_len w (skipn m rem1) rhs_lo in (firstn m rem1 ++ t, ro - b)
                            else (rem1, ro)) = (rem2, ro2) /\
          wf rem2 /\ length rem2 = n /\ value rem2 + B ^ Z.of_nat n * ro2 = value lhs - Qh * V) as (rem2 & ro2 & E4 & Hwrem2 & Hlrem2 & Hinv).
  { destruct o1.
    - destruct (sub_same_len w (skipn m rem1) rhs_lo) as [t b] eqn:E4.
      assert (wf (skipn m rem1)) as Hws by (apply wf_skipn; exact Hwrem1).
      destruct (sub_same_len_spec w w_pos (skipn m rem1) rhs_lo Hws Hwrl ltac:(rewrite skipn_length; lia) _ _ E4) as (Hsub & Hwt & Hlt & Hb).
      unfold len in Hsub. rewrite skipn_length, Hlrem1 in Hsub. rewrite skipn_length, Hlrem1 in Hlt. fold V0 P in Hsub.
      pose proof (value_split m rem1 ltac:(lia)) as Hsp1.
      exists (firstn m rem1 ++ t), (ro - b). split; [reflexivity|].
      split; [apply wf_app; split; [apply wf_firstn; exact Hwrem1 | exact Hwt]|].
      split; [rewrite app_length, firstn_length_le; lia|].
      rewrite value_app. unfold len. rewrite firstn_length_le by lia.
      rewrite Hkey. unfold Qh in *. cbn [Z.b2z] in *. rewrite HBnm. nia.
    - exists rem1, ro. split; [reflexivity|]. split; [exact Hwrem1|]. split; [exact Hlrem1|].
      rewrite Hkey. unfold Qh in *. cbn [Z.b2z] in *. lia. }
  rewrite E4 in E.
  destruct (dc_fix_loop w dc_fix_fuel rem2 q rhs ro2 (Z.b2z o1)) as [[[[rem3 q3] ro3] qo3]| | |] eqn:E5; cbn [rbind] in E; try discriminate.
  inversion E; subst res o; clear E.
  destruct (dc_fix_loop_sound rhs n m (value lhs) Hwr eq_refl HVpos _ _ _ _ _ _ _ _ _ Hwrem2 Hlrem2 Hwq Hlq Hinv Hup E5)
    as (Hw3 & Hl3 & Hwq3 & Hlq3 & Hv3 & Hr3).
  fold V in Hv3, Hr3.
  pose proof (value_lt q3 Hwq3) as Hq3. unfold len in Hq3. rewrite Hlq3 in Hq3.
  set (Q := value q3 + B ^ Z.of_nat m * qo3) in *.
  assert (Q = value lhs / V) as HQ by (apply Z.div_unique with (value rem3); [left; lia | lia]).
  assert (0 <= Q < 2 * B ^ Z.of_nat m) as HQr.
  { rewrite HQ. split; [apply Z.div_pos; [apply (value_nonneg w w_pos); exact Hwl | lia]|].
    apply Z.div_lt_upper_bound; [lia|].
    pose proof (value_lt lhs Hwl) as HL. unfold len in HL. replace (length lhs) with (n + m)%nat in HL by (unfold m; lia).
    rewrite Bpow_add in HL. unfold DivSimpleProofs.normalized_top in Hnorm. fold V in Hnorm.
    replace (len rhs) with (Z.of_nat n) in Hnorm by reflexivity.
    assert (B ^ Z.of_nat n * B ^ Z.of_nat m <= (2 * V) * B ^ Z.of_nat m) by (apply Z.mul_le_mono_nonneg_r; lia). lia. }
  assert (qo3 = 0 \/ qo3 = 1) as Hqo.
  { unfold Q in HQr.
    assert (qo3 < 2).
    { apply Z.lt_nge. intros Hge. assert (B ^ Z.of_nat m * 2 <= B ^ Z.of_nat m * qo3) by (apply Z.mul_le_mono_nonneg_l; lia). lia. }
    assert (-1 < qo3).
    { apply Z.lt_nge. intros Hge. assert (B ^ Z.of_nat m * qo3 <= B ^ Z.of_nat m * (-1)) by (apply Z.mul_le_mono_nonneg_l; lia). lia. }
    lia. }
  unfold DivLargeProofs.kernel_post. fold n V.
  split; [apply wf_app; split; assumption|].
  split; [rewrite app_length; unfold m; lia|].
  rewrite (DivLargeProofs.firstn_app_exact rem3 q3 n Hl3), (DivLargeProofs.skipn_app_exact rem3 q3 n Hl3).
  fold m. split.
  - apply Z.mod_unique with Q; [left; lia | lia].
  - rewrite <- HQ. unfold Q. destruct Hqo as [-> | ->]; cbn; lia.
Qed.

(** *** div_rem_in_place_same_len at the top level: quotient length = divisor length *)
Lemma dc_same_len_sound fuel lhs rhs res o :
  kernel_pre lhs rhs -> length lhs = (2 * length rhs)%nat ->
  dc_same_len w div3by2 mul_sub T fuel lhs rhs = Ok (res, o) -> kernel_post lhs rhs res o.
Proof.
  intros Hpre Hll E. pose proof Hpre as (Hwl & Hwr & Hn2 & Hnl & Hnorm).
  unfold dc_same_len in E. cbv zeta in E. set (n := length rhs) in *. set (nlo := (n / 2)%nat) in *.
  assert (nlo <= n)%nat as Hnlo by (unfold nlo; apply Nat.div_le_upper_bound; lia).
  pose proof (DivLargeProofs.normalized_top_pos w w_pos rhs Hnorm) as HV.
  assert (kernel_pre (skipn nlo lhs) rhs) as Hpre1.
  { repeat split; try assumption; try lia. apply wf_skipn; exact Hwl. rewrite skipn_length. fold n. lia. }
  destruct (dsq fuel (skipn nlo lhs) rhs) as [[hi o1]| | |] eqn:E1; cbn [rbind] in E; try discriminate.
  pose proof (dc_small_quotient_sound _ _ _ _ _ Hpre1 ltac:(rewrite skipn_length; fold n; lia) E1) as Hpost1.
  pose proof Hpost1 as (Hwhi & Hlhi & _ & _). rewrite skipn_length in Hlhi.
  set (l1 := firstn nlo lhs ++ hi) in *.
  assert (length l1 = (2 * n)%nat) as Hll1 by (unfold l1; rewrite app_length, firstn_length_le; lia).
  assert (wf l1) as Hwl1 by (unfold l1; apply wf_app; split; [apply wf_firstn; exact Hwl | exact Hwhi]).
  assert (kernel_pre (firstn (n + nlo) l1) rhs) as Hpre2.
  { repeat split; try assumption; try lia. apply wf_firstn; exact Hwl1. rewrite firstn_length_le; fold n; lia. }
  destruct (dsq fuel (firstn (n + nlo) l1) rhs) as [[lo o2]| | |] eqn:E2; cbn [rbind] in E; try discriminate.
  pose proof (dc_small_quotient_sound _ _ _ _ _ Hpre2 ltac:(rewrite firstn_length_le; fold n; lia) E2) as Hpost2.
  inversion E; subst res o; clear E.
  exact (same_len_combine lhs rhs nlo hi o1 lo o2 Hwl Hll ltac:(fold n; lia) HV Hpost1 Hpost2).
Qed.

(** *** the `while m >= 2n` loop *)
Lemma blocks_lists (cur blk : list Z) m n :
  (2 * n <= m)%nat -> (m <= length cur)%nat -> length blk = (2 * n)%nat ->
  let X := firstn (2 * n) (skipn (m - 2 * n) cur) in
  let cur' := firstn (m - 2 * n) cur ++ blk ++ skipn m cur in
  length X = (2 * n)%nat /\ length cur' = length cur /\
  firstn m cur = firstn (m - 2 * n) cur ++ X /\
  skipn (m - n) (firstn m cur) = skipn n X /\
  firstn (m - n) cur' = firstn (m - 2 * n) cur ++ firstn n blk /\
  skipn (m - n) cur' = skipn n blk ++ skipn m cur /\
  skipn (m - n - n) (firstn (m - n) cur') = firstn n blk.
Proof.
  intros H2n Hm Hlb X cur'. set (p := (m - 2 * n)%nat) in *.
  assert (length (firstn p cur) = p) as Hlp by (rewrite firstn_length_le; lia).
  assert (length X = (2 * n)%nat) as HlX by (unfold X; rewrite firstn_length_le; [reflexivity | rewrite skipn_length; lia]).
  assert (firstn m cur = firstn p cur ++ X) as E1.
  { rewrite <- (firstn_skipn p cur) at 1. rewrite firstn_app, firstn_firstn, Hlp.
    replace (min m p) with p by lia. replace (m - p)%nat with (2 * n)%nat by lia. reflexivity. }
  assert (firstn (m - n) cur' = firstn p cur ++ firstn n blk) as E4.
  { unfold cur'. replace (m - n)%nat with (length (firstn p cur) + n)%nat by lia. rewrite firstn_app_2.
    f_equal. rewrite firstn_app. replace (n - length blk)%nat with 0%nat by lia. cbn [firstn]. apply app_nil_r. }
  split; [exact HlX|]. split.
  { unfold cur'. rewrite !app_length, Hlp, Hlb, skipn_length. lia. }
  split; [exact E1|]. split.
  { rewrite E1. replace (m - n)%nat with (length (firstn p cur) + n)%nat by lia. apply skipn_app_plus. }
  split; [exact E4|]. split.
  { unfold cur'. replace (m - n)%nat with (length (firstn p cur) + n)%nat by lia. rewrite skipn_app_plus.
    rewrite skipn_app. replace (n - length blk)%nat with 0%nat by lia. reflexivity. }
  rewrite E4. apply DivLargeProofs.skipn_app_exact. lia.
Qed.

Definition blocks_inv (rhs : list Z) (m0 : nat) (X0 : Z) (cur : list Z) (m : nat) (ov : bool) : Prop :=
  let n := length rhs in
  wf cur /\ length cur = m0 /\ (n <= m <= m0)%nat /\
  X0 = value (firstn m cur) + value rhs * B ^ Z.of_nat (m - n) * (value (skipn m cur) + B ^ Z.of_nat (m0 - m) * Z.b2z ov) /\
  ((m < m0)%nat -> value (skipn (m - n) (firstn m cur)) < value rhs) /\
  (m = m0 -> ov = false).

Lemma blocks_step fuel rhs m0 X0 cur m ov blk o :
  wf rhs -> (2 <= length rhs)%nat -> normalized_top rhs ->
  blocks_inv rhs m0 X0 cur m ov -> (2 * length rhs <= m)%nat ->
  dc_same_len w div3by2 mul_sub T fuel (firstn (2 * length rhs) (skipn (m - 2 * length rhs) cur)) rhs = Ok (blk, o) ->
  blocks_inv rhs m0 X0 (firstn (m - 2 * length rhs) cur ++ blk ++ skipn m cur) (m - length rhs) (ov || o).
Proof.
  intros Hwr Hn2 Hnorm (Hwc & Hlc & Hm & HX0 & Htop & Hov) H2n E. pose proof Bpos as HB.
  set (n := length rhs) in *. set (V := value rhs) in *.
  pose proof (DivLargeProofs.normalized_top_pos w w_pos rhs Hnorm) as HV. fold V in HV.
  set (X := firstn (2 * n) (skipn (m - 2 * n) cur)) in *.
  assert (wf X) as HwX by (apply wf_firstn, wf_skipn; exact Hwc).
  assert (length X = (2 * n)%nat) as HlX by (unfold X; rewrite firstn_length_le; [reflexivity | rewrite skipn_length; lia]).
  assert (kernel_pre X rhs) as Hpre by (repeat split; try assumption; fold n; lia).
  pose proof (dc_same_len_sound fuel X rhs blk o Hpre HlX E) as Hpost.
  pose proof Hpost as (Hwb & Hlb & Hrem & Hquo). rewrite HlX in Hlb. fold n V in Hrem, Hquo. rewrite HlX in Hquo.
  replace (2 * n - n)%nat with n in Hquo by lia.
  destruct (blocks_lists cur blk m n H2n ltac:(lia) Hlb) as (_ & Hlc' & E1 & E2 & E4 & E5 & E6). fold X in E1, E2.
  set (cur' := firstn (m - 2 * n) cur ++ blk ++ skipn m cur) in *.
  set (A := firstn (m - 2 * n) cur) in *.
  assert (length A = (m - 2 * n)%nat) as HlA by (unfold A; rewrite firstn_length_le; lia).
  assert (o = false \/ m = m0) as Ho.
  { destruct (Nat.eq_dec m m0) as [|Hne]; [right; assumption | left].
    apply (DivLargeProofs.kernel_post_no_carry w w_pos X rhs blk o HwX ltac:(fold n; lia) HV); [|exact Hpost].
    fold n. rewrite HlX. replace (2 * n - n)%nat with n by lia. rewrite <- E2. apply Htop. lia. }
  pose proof (Z.div_mod (value X) V ltac:(lia)) as Hdm. pose proof (Z.mod_pos_bound (value X) V HV) as Hmb.
  rewrite <- Hrem, <- Hquo in Hdm. rewrite <- Hrem in Hmb.
  unfold blocks_inv. fold n V cur'.
  split; [unfold cur'; apply wf_app; split; [apply wf_firstn; exact Hwc | apply wf_app; split; [exact Hwb | apply wf_skipn; exact Hwc]]|].
  split; [lia|]. split; [lia|].
  rewrite E6, E4, E5. rewrite !value_app. unfold len. rewrite HlA, skipn_length, Hlb.
  replace (2 * n - n)%nat with n by lia.
  rewrite E1, value_app in HX0. unfold len in HX0. rewrite HlA in HX0.
  split; [|split; [intros _; exact (proj2 Hmb) | intros; lia]].
  rewrite HX0, Hdm.
  replace (m - n)%nat with (m - 2 * n + n)%nat by lia. rewrite Bpow_add.
  replace (m - 2 * n + n - n)%nat with (m - 2 * n)%nat by lia.
  destruct Ho as [-> | ->].
  - rewrite orb_false_r. cbn [Z.b2z].
    replace (m0 - (m - 2 * n + n))%nat with (n + (m0 - m))%nat by lia. rewrite Bpow_add. ring.
  - rewrite (Hov eq_refl). cbn [orb]. rewrite Nat.sub_diag.
    replace (m0 - (m0 - 2 * n + n))%nat with n by lia. change (Z.of_nat 0) with 0. rewrite Z.pow_0_r. cbn [Z.b2z]. ring.
Qed.

Lemma dc_blocks_sound fuel rhs m0 X0 : wf rhs -> (2 <= length rhs)%nat -> normalized_top rhs ->
  forall j cur m ov cur' ov' m',
  blocks_inv rhs m0 X0 cur m ov -> ((j + 1) * length rhs <= m)%nat ->
  dc_blocks w div3by2 mul_sub T fuel j cur rhs m ov = Ok (cur', ov', m') ->
  blocks_inv rhs m0 X0 cur' m' ov' /\ m' = (m - j * length rhs)%nat.
Proof.
  intros Hwr Hn2 Hnorm. induction j as [|j IH]; intros cur m ov cur' ov' m' Hinv Hjm E; cbn [dc_blocks] in E.
  - inversion E; subst. split; [exact Hinv | lia].
  - cbv zeta in E. set (n := length rhs) in *.
    destruct (dc_same_len w div3by2 mul_sub T fuel (firstn (2 * n) (skipn (m - 2 * n) cur)) rhs) as [[blk o]| | |] eqn:E1;
      cbn [rbind] in E; try discriminate.
    pose proof (blocks_step fuel rhs m0 X0 cur m ov blk o Hwr Hn2 Hnorm Hinv ltac:(fold n; lia) E1) as Hinv'. fold n in Hinv'.
    destruct (IH _ _ _ _ _ _ Hinv' ltac:(fold n; lia) E) as (Hfin & Hm'). fold n in Hm'.
    split; [exact Hfin | lia].
Qed.

(** *** divide_conquer::div_rem_in_place *)
Theorem dc_div_rem_sound fuel lhs rhs res c :
  kernel_pre lhs rhs -> (length rhs < length lhs)%nat ->
  dc_div_rem w div3by2 mul_sub T fuel lhs rhs = Ok (res, c) -> kernel_post lhs rhs res c.
Proof.
  intros Hpre Hlt E. pose proof Hpre as (Hwl & Hwr & Hn2 & Hnl & Hnorm). pose proof Bpos as HB.
  unfold dc_div_rem in E. cbv zeta in E. set (n := length rhs) in *. set (m0 := length lhs) in *.
  set (V := value rhs) in *.
  pose proof (DivLargeProofs.normalized_top_pos w w_pos rhs Hnorm) as HV. fold V in HV.
  set (d := (m0 / n)%nat) in *.
  pose proof (Nat.div_mod m0 n ltac:(lia)) as Hdm. fold d in Hdm.
  pose proof (Nat.mod_upper_bound m0 n ltac:(lia)) as Hmu.
  assert (1 <= d)%nat as Hd1 by (destruct d; [lia | lia]).
  assert (blocks_inv rhs m0 (value lhs) lhs m0 false) as Hinv0.
  { unfold blocks_inv. fold n V. split; [exact Hwl|]. split; [reflexivity|]. split; [lia|].
    replace (firstn m0 lhs) with lhs by (symmetry; apply firstn_all).
    replace (skipn m0 lhs) with (@nil Z) by (symmetry; apply skipn_all).
    cbn [value Z.b2z]. split; [ring|]. split; [lia | reflexivity]. }
  destruct (dc_blocks w div3by2 mul_sub T fuel (d - 1) lhs rhs m0 false) as [[[lhs1 ov] m]| | |] eqn:E1; cbn [rbind] in E; try discriminate.
  assert ((d - 1 + 1) * n <= m0)%nat as Hjm.
  { replace (d - 1 + 1)%nat with d by lia. rewrite Hdm. rewrite (Nat.mul_comm d n). lia. }
  destruct (dc_blocks_sound fuel rhs m0 (value lhs) Hwr Hn2 Hnorm _ _ _ _ _ _ _ Hinv0 Hjm E1) as (Hinv & Hm).
  fold n in Hm.
  assert (m = (n + m0 mod n)%nat) as Hm'.
  { assert ((d - 1) * n + n = d * n)%nat as Hx by (destruct d; [lia | cbn; lia]).
    rewrite (Nat.mul_comm n d) in Hdm. lia. }
  destruct Hinv as (Hw1 & Hl1 & Hmr & HX0 & Htop & Hov). fold n V in HX0, Htop.
  destruct (Nat.ltb_spec n m) as [Hnm|Hnm].
  - (* a last block with a short quotient *)
    set (X := firstn m lhs1) in *.
    assert (wf X) as HwX by (apply wf_firstn; exact Hw1).
    assert (length X = m) as HlX by (unfold X; rewrite firstn_length_le; lia).
    assert (kernel_pre X rhs) as HpreX by (repeat split; try assumption; fold n; lia).
    destruct (dsq fuel X rhs) as [[lo o]| | |] eqn:E2; cbn [rbind] in E; try discriminate.
    inversion E; subst res c; clear E.
    pose proof (dc_small_quotient_sound _ _ _ _ _ HpreX ltac:(fold n; lia) E2) as Hpost.
    assert (o = false \/ m = m0) as Ho.
    { destruct (Nat.eq_dec m m0) as [|Hne]; [right; assumption | left].
      apply (DivLargeProofs.kernel_post_no_carry w w_pos X rhs lo o HwX ltac:(fold n; lia) HV); [|exact Hpost].
      fold n. rewrite HlX. apply Htop. lia. }
    destruct Hpost as (Hwlo & Hllo & Hrem & Hquo). fold n V in Hrem, Hquo. rewrite HlX in Hllo, Hquo.
    pose proof (Z.div_mod (value X) V ltac:(lia)) as HdmX. pose proof (Z.mod_pos_bound (value X) V HV) as Hmb.
    rewrite <- Hrem, <- Hquo in HdmX. rewrite <- Hrem in Hmb.
    unfold DivLargeProofs.kernel_post. fold n V m0.
    split; [apply wf_app; split; [exact Hwlo | apply wf_skipn; exact Hw1]|].
    split; [rewrite app_length, skipn_length; lia|].
    rewrite firstn_app. replace (n - length lo)%nat with 0%nat by lia. cbn [firstn]. rewrite app_nil_r.
    rewrite skipn_app. replace (n - length lo)%nat with 0%nat by lia. cbn [skipn]. rewrite value_app.
    unfold len. rewrite skipn_length, Hllo.
    assert (value lhs = V * (value (skipn n lo) + B ^ Z.of_nat (m - n) * value (skipn m lhs1)
                             + B ^ Z.of_nat (m0 - n) * Z.b2z (ov || o)) + value (firstn n lo)) as Htot.
    { rewrite HX0, HdmX. destruct Ho as [-> | ->].
      - rewrite orb_false_r. cbn [Z.b2z]. replace (m0 - n)%nat with (m - n + (m0 - m))%nat by lia. rewrite Bpow_add. ring.
      - rewrite (Hov eq_refl). cbn [orb]. rewrite Nat.sub_diag. change (Z.of_nat 0) with 0. rewrite Z.pow_0_r. cbn [Z.b2z]. ring. }
    split.
    + apply Z.mod_unique with (value (skipn n lo) + B ^ Z.of_nat (m - n) * value (skipn m lhs1) + B ^ Z.of_nat (m0 - n) * Z.b2z (ov || o));
        [left; lia | exact Htot].
    + apply Z.div_unique with (value (firstn n lo)); [left; lia | exact Htot].
  - inversion E; subst res c; clear E.
    assert (m = n) as Hmn by lia. clear Hm Hm' Hnm. subst m. rewrite Nat.sub_diag in *. cbn [skipn] in Htop.
    change (Z.of_nat 0) with 0 in HX0. rewrite Z.pow_0_r in HX0.
    pose proof (value_lt (firstn n lhs1) (wf_firstn _ _ Hw1)) as Hr.
    specialize (Htop ltac:(lia)).
    unfold DivLargeProofs.kernel_post. fold n V m0.
    split; [exact Hw1|]. split; [exact Hl1|]. split.
    + apply Z.mod_unique with (value (skipn n lhs1) + B ^ Z.of_nat (m0 - n) * Z.b2z ov); [left; lia | rewrite HX0; ring].
    + apply Z.div_unique with (value (firstn n lhs1)); [left; lia | rewrite HX0; ring].
Qed.

(** *** div::div_rem_in_place (the algorithm switch): every result satisfies the kernel contract *)
Theorem div_rem_in_place_sound fuel lhs rhs res c :
  kernel_pre lhs rhs ->
  div_rem_in_place w div3by2 mul_sub T fuel lhs rhs = Ok (res, c) -> kernel_post lhs rhs res c.
Proof.
  intros Hpre E. unfold div_rem_in_place in E.
  destruct ((length rhs <=? T)%nat || (length lhs - length rhs <=? T)%nat) eqn:Esw.
  - assert (simple_div_rem w div3by2 lhs rhs = (res, c)) as Es by congruence.
    destruct Hpre as (Hwl & Hwr & Hn2 & Hnl & Hnorm).
    exact (simple_div_rem_correct w w_pos div3by2 div3by2_ok lhs rhs Hwl Hwr Hn2 Hnl Hnorm res c Es).
  - apply orb_false_iff in Esw. destruct Esw as [_ H2]. apply Nat.leb_gt in H2.
    apply (dc_div_rem_sound fuel lhs rhs res c Hpre ltac:(lia) E).
Qed.

End DivDC.
