(** C12 round 5 - the size dispatch of integer/src/gcd_ops.rs (Gcd, the four ownership forms of ExtendedGcd),
    log.rs (TypedReprRef::log after the shortcuts) and root_ops.rs (nth_root's match on n), as TABLES regenerated from
    the sources on every run (coq/gen/GrlDispatchGen.v, tools/translate_c12_r5.py), an interpreter of the tables, and
    the hand-written dispatch (the shape C12's and C19's models use: Serde/WordRunsModel2.v wr_gcd / wr_gcdext /
    wr_ilog / wr_nthroot) proved equal to the interpreted tables FOR ANY KERNELS - the kernels are parameters, so the
    theorems can be instantiated with the value-level kernels of C12 and the word-size-specific ones of C19
    (Int/GrlDispatchC19.v does the latter).  An arm that calls another kernel, passes the operands in the other order or
    forgets to swap the cofactors back changes the table and breaks these proofs. *)
From Coq Require Import List Bool.
From Dashu Require Import Base.Prelude.
From DashuGen Require Import GrlDispatchGen.
Import ListNotations.
Open Scope Z_scope.

Definition arm := (Z * Z * Z * bool)%type.
Fixpoint lookup2 (t : list (bool * bool * arm)) (sx sy : bool) : option arm :=
  match t with
  | [] => None
  | (a, b, r) :: t' => if Bool.eqb a sx && Bool.eqb b sy then Some r else lookup2 t' sx sy
  end.
Definition pick (i x y : Z) : Z := if i =? 0 then x else y.
Definition rmap' {A C} (f : A -> C) (x : result A) : result C := rbind x (fun a => Ok (f a)).

Section Pair.
  Context {A : Type}.
  (** kernels by callee number; [swap] exchanges the two cofactors of an extended gcd answer *)
  Variables k0 k1 k2 : Z -> Z -> result A.
  Variable swap : A -> A.

  Definition run_arm (a : option arm) (x y : Z) : result A :=
    match a with
    | Some (c, i, j, sw) =>
        let r := if c =? 0 then k0 (pick i x y) (pick j x y)
                 else if c =? 1 then k1 (pick i x y) (pick j x y)
                 else if c =? 2 then k2 (pick i x y) (pick j x y)
                 else Panic Undocumented in
        if sw then rmap' swap r else r
    | None => Panic Undocumented
    end.

  (** the hand-written dispatch of Gcd: small/small -> primitive, one large -> gcd_large_dword(large, small),
      large/large -> gcd_large *)
  Definition gcd_dispatch (sx sy : bool) (x y : Z) : result A :=
    match sx, sy with
    | true, true => k0 x y
    | true, false => k1 y x
    | false, true => k1 x y
    | false, false => k2 x y
    end.

  (** ... of ExtendedGcd: the small/large arm calls gcd_ext_large_dword(large, small) and swaps the cofactors back *)
  Definition gcd_ext_dispatch (sx sy : bool) (x y : Z) : result A :=
    match sx, sy with
    | true, true => k0 x y
    | false, true => k1 x y
    | true, false => rmap' swap (k1 y x)
    | false, false => k2 x y
    end.

  Theorem gcd_dispatch_is_source : forall sx sy x y,
    gcd_dispatch sx sy x y = run_arm (lookup2 gcd_dispatch_gen sx sy) x y.
  Proof. intros [|] [|] x y; reflexivity. Qed.

  Theorem gcd_ext_dispatch_is_source : forall sx sy x y,
    gcd_ext_dispatch sx sy x y = run_arm (lookup2 gcd_ext_dispatch_gen_0 sx sy) x y /\
    gcd_ext_dispatch sx sy x y = run_arm (lookup2 gcd_ext_dispatch_gen_1 sx sy) x y /\
    gcd_ext_dispatch sx sy x y = run_arm (lookup2 gcd_ext_dispatch_gen_2 sx sy) x y /\
    gcd_ext_dispatch sx sy x y = run_arm (lookup2 gcd_ext_dispatch_gen_3 sx sy) x y.
  Proof. intros [|] [|] x y; repeat split; reflexivity. Qed.
End Pair.

Section Log.
  Context {A : Type}.
  (** log_dword, the constant answer (0, 1) of a target below the base, the word / double-word base arm
      (shrink_dword -> log_word_base | log_large on a two-word buffer), the three-way comparison arm *)
  Variables (k_dword k_wordbase k_large : Z -> Z -> result A) (zero one : result A) (is_word : Z -> bool).

  Definition run_log_arm (a : option arm) (x b : Z) : result A :=
    match a with
    | Some (c, i, j, _) =>
        let u := pick i x b in let v := pick j x b in
        if c =? 0 then k_dword u v
        else if c =? 3 then zero
        else if c =? 4 then (if is_word v then k_wordbase u v else k_large u v)
        else if c =? 5 then (if u <? v then zero else if u =? v then one else k_large u v)
        else Panic Undocumented
    | None => Panic Undocumented
    end.

  Definition log_dispatch (sx sb : bool) (x b : Z) : result A :=
    match sx, sb with
    | true, true => k_dword x b
    | true, false => zero
    | false, true => if is_word b then k_wordbase x b else k_large x b
    | false, false => if x <? b then zero else if x =? b then one else k_large x b
    end.

  Theorem log_dispatch_is_source : forall sx sb x b,
    log_dispatch sx sb x b = run_log_arm (lookup2 log_dispatch_gen sx sb) x b.
  Proof. intros [|] [|] x b; reflexivity. Qed.
End Log.

Section Nth.
  Context {A : Type}.
  Variables (self sqrt rest : result A).
  Fixpoint lookup_n (t : list (Z * Z)) (n : Z) : Z :=
    match t with
    | [] => 3
    | (p, act) :: t' => if (p =? -1) || (p =? n) then act else lookup_n t' n
    end.
  Definition run_nth (act : Z) : result A :=
    if act =? 0 then Panic RootZeroth else if act =? 1 then self else if act =? 2 then sqrt else rest.
  Definition nth_dispatch (n : Z) : result A :=
    if n =? 0 then Panic RootZeroth else if n =? 1 then self else if n =? 2 then sqrt else rest.

  Theorem nth_dispatch_is_source : forall n, nth_dispatch n = run_nth (lookup_n nth_root_dispatch_gen n).
  Proof.
    intros n. unfold nth_dispatch, nth_root_dispatch_gen. cbn [lookup_n].
    destruct (Z.eqb_spec n 0) as [->|?]; [reflexivity|]. destruct (Z.eqb_spec 0 n); [lia|].
    destruct (Z.eqb_spec n 1) as [->|?]; [reflexivity|]. destruct (Z.eqb_spec 1 n); [lia|].
    destruct (Z.eqb_spec n 2) as [->|?]; [reflexivity|]. destruct (Z.eqb_spec 2 n); [lia|].
    reflexivity.
  Qed.
End Nth.

(** non-vacuity: the tables are the expected ones (a reading aid; the theorems above do not depend on it) *)
Example gcd_ext_small_large_swaps : lookup2 gcd_ext_dispatch_gen_0 true false = Some (1, 1, 0, true).
Proof. reflexivity. Qed.
