(** C07: the parsers of parse/non_power_two.rs (per-word Horner, 256-group chunks, divide and
    conquer over squared radix powers) and the front end of parse/mod.rs compute exactly the
    specification [body_spec] - value, acceptance and error kind - for texts of any length. *)
From Dashu Require Import Base.Prelude Base.Words Int.IoSpec Int.IoModel Int.IoDigits.
From DashuGen Require Import Params.
Open Scope Z_scope.

(** digits of an underscore-free text *)
Fixpoint raw_digits (r : Z) (s : list Z) : option (list Z) :=
  match s with
  | [] => Some []
  | c :: t => match digit_from_ascii r c, raw_digits r t with
              | Some d, Some ds => Some (d :: ds)
              | _, _ => None
              end
  end.

Definition pw (r : Z) (s : list Z) : result Z :=
  match raw_digits r s with Some ds => Ok (digits_value r ds) | None => Err E_InvalidDigit end.

Definition nonus (c : Z) : bool := negb (c =? 95).

Section Parse.
Variables w r dpw R : Z.
Hypothesis r_ge_2 : 2 <= r.
Hypothesis Hinfo : radix_info w r = (dpw, R).
Hypothesis dpw_pos : 0 < dpw.
Hypothesis HR : R = r ^ dpw.

Lemma raw_digits_app a : forall b,
  raw_digits r (a ++ b) = match raw_digits r a, raw_digits r b with Some x, Some y => Some (x ++ y) | _, _ => None end.
Proof.
  induction a as [|c t IH]; intros b; cbn [app raw_digits].
  - destruct (raw_digits r b); reflexivity.
  - rewrite IH. destruct (digit_from_ascii r c); [|reflexivity].
    destruct (raw_digits r t); [|reflexivity]. destruct (raw_digits r b); reflexivity.
Qed.

Lemma raw_digits_length s : forall ds, raw_digits r s = Some ds -> length ds = length s.
Proof.
  induction s as [|c t IH]; intros ds H; cbn [raw_digits] in H.
  - inversion H. reflexivity.
  - destruct (digit_from_ascii r c); [|discriminate]. destruct (raw_digits r t) as [ds'|]; [|discriminate].
    inversion H. cbn [length]. f_equal. apply IH. reflexivity.
Qed.

Lemma pw_app a b :
  pw r (a ++ b) = rbind (pw r a) (fun x => rbind (pw r b) (fun y => Ok (x * r ^ len b + y))).
Proof.
  unfold pw. rewrite raw_digits_app.
  destruct (raw_digits r a) as [x|]; [|reflexivity].
  destruct (raw_digits r b) as [y|] eqn:Eb; cbn [rbind]; [|reflexivity].
  rewrite (value_app r). unfold len. rewrite (raw_digits_length b y Eb). reflexivity.
Qed.

Lemma pw_nil : pw r [] = Ok 0. Proof. reflexivity. Qed.

(* ---------------------------------------------------------------- parse_word *)
Let step := (fun (acc : result Z) (c : Z) => rbind acc (fun a =>
     match digit_from_ascii r c with Some d => Ok (a * r + d) | None => Err E_InvalidDigit end)).

Lemma fold_step_err s : forall e, fold_left step s (Err e) = Err e.
Proof. induction s; intros e; cbn [fold_left]; [reflexivity | apply IHs]. Qed.

Lemma fold_step_ok s : forall a, fold_left step s (Ok a) =
  match raw_digits r s with Some ds => Ok (a * r ^ len ds + digits_value r ds) | None => Err E_InvalidDigit end.
Proof.
  induction s as [|c t IH]; intros a; cbn [fold_left raw_digits].
  - unfold len. cbn. f_equal. lia.
  - unfold step at 2. cbn [rbind]. destruct (digit_from_ascii r c) as [d|].
    + rewrite IH. destruct (raw_digits r t) as [ds|]; [|reflexivity].
      rewrite (value_cons r), len_cons. rewrite Z.pow_add_r, Z.pow_1_r by (pose proof (len_nonneg ds); lia).
      f_equal. ring.
    + rewrite fold_step_err. reflexivity.
Qed.

Theorem parse_word_np2_correct s : parse_word_np2 r s = pw r s.
Proof.
  unfold parse_word_np2. fold step. rewrite fold_step_ok. unfold pw.
  destruct (raw_digits r s); [f_equal; lia | reflexivity].
Qed.

(* ---------------------------------------------------------------- parse_chunk *)
Let kd : nat := Z.to_nat dpw.
Let stepg := (fun (acc : result Z) (g : list Z) =>
     rbind acc (fun a => rbind (parse_word_np2 r g) (fun n => Ok (a * R + n)))).

Lemma fold_stepg_err gs : forall e, fold_left stepg gs (Err e) = Err e.
Proof. induction gs; intros e; cbn [fold_left]; [reflexivity | apply IHgs]. Qed.

Lemma fold_stepg_ok gs : forall a, Forall (fun g => length g = kd) gs ->
  fold_left stepg gs (Ok a) = rbind (pw r (concat gs)) (fun v => Ok (a * r ^ len (concat gs) + v)).
Proof.
  induction gs as [|g t IH]; intros a Hf; cbn [fold_left concat].
  - rewrite pw_nil. cbn [rbind]. unfold len. cbn. f_equal. lia.
  - apply Forall_cons_iff in Hf. destruct Hf as [Hg Ht]. unfold stepg at 2. cbn [rbind].
    rewrite parse_word_np2_correct, pw_app.
    destruct (pw r g) as [n| | |] eqn:Eg; cbn [rbind]; try (rewrite ?fold_stepg_err; reflexivity).
    + rewrite IH by exact Ht. destruct (pw r (concat t)) as [v| | |]; cbn [rbind]; try reflexivity.
      f_equal. rewrite len_app, Z.pow_add_r by apply len_nonneg.
      replace (len g) with dpw by (unfold len; rewrite Hg; unfold kd; lia). rewrite HR. ring.
    + unfold pw in Eg. destruct (raw_digits r g); discriminate.
    + unfold pw in Eg. destruct (raw_digits r g); discriminate.
Qed.

Lemma chunks_of_ok c : forall fuel s, (0 < kd)%nat -> length s = (kd * c)%nat -> (length s <= fuel)%nat ->
  concat (chunks_of fuel kd s) = s /\ Forall (fun g => length g = kd) (chunks_of fuel kd s).
Proof.
  induction c as [|c IH]; intros fuel s Hk Hl Hf.
  - rewrite Nat.mul_0_r in Hl. destruct s; [|discriminate]. destruct fuel; cbn [chunks_of concat]; split; constructor.
  - destruct s as [|x s']; [cbn [length] in Hl; lia|]. destruct fuel as [|fuel]; [cbn [length] in Hf; lia|].
    cbn [chunks_of concat]. set (s := x :: s') in *.
    assert (Hfl : length (firstn kd s) = kd) by (rewrite firstn_length; lia).
    assert (Hsl : length (skipn kd s) = (kd * c)%nat) by (rewrite skipn_length; lia).
    destruct (IH fuel (skipn kd s) Hk Hsl ltac:(lia)) as [Hc Hfa]. split.
    + rewrite Hc. apply firstn_skipn.
    + constructor; assumption.
Qed.

Theorem parse_chunk_correct s : parse_chunk w r s = pw r s.
Proof.
  unfold parse_chunk. rewrite Hinfo. fold kd. fold stepg. unfold rchunks.
  assert (Hk : (0 < kd)%nat) by (unfold kd; lia).
  set (h := Nat.modulo (length s) kd).
  assert (Hh : length s = (kd * (length s / kd) + h)%nat) by (apply Nat.div_mod; lia).
  assert (Hsk : length (skipn h s) = (kd * (length s / kd))%nat) by (rewrite skipn_length; lia).
  destruct (chunks_of_ok (length s / kd) (length s) (skipn h s) Hk Hsk ltac:(rewrite skipn_length; lia)) as [Hc Hfa].
  rewrite fold_left_app.
  assert (Hrest : forall a, fold_left stepg (chunks_of (length s) kd (skipn h s)) (Ok a)
                  = rbind (pw r (skipn h s)) (fun v => Ok (a * r ^ len (skipn h s) + v))).
  { intros a. rewrite fold_stepg_ok by exact Hfa. rewrite Hc. reflexivity. }
  destruct (Nat.eqb h 0) eqn:Eh.
  - apply Nat.eqb_eq in Eh. cbn [fold_left]. rewrite Hrest. rewrite Eh. cbn [skipn].
    destruct (pw r s); cbn [rbind]; try reflexivity; try (f_equal; lia).
  - cbn [fold_left]. unfold stepg at 2. cbn [rbind]. rewrite parse_word_np2_correct.
    replace (pw r s) with (pw r (firstn h s ++ skipn h s)) by (rewrite firstn_skipn; reflexivity). rewrite pw_app.
    destruct (pw r (firstn h s)) as [n| | |] eqn:Eg; cbn [rbind]; try (rewrite ?fold_stepg_err; reflexivity).
    + replace (0 * R + n) with n by lia. apply Hrest.
    + unfold pw in Eg. destruct (raw_digits r (firstn h s)); discriminate.
    + unfold pw in Eg. destruct (raw_digits r (firstn h s)); discriminate.
Qed.

(* ---------------------------------------------------------------- divide and conquer *)
Variable cb : Z.                                  (* chunk_bytes = CHUNK_LEN * digits_per_word *)
Hypothesis cb_pos : 0 < cb.

Fixpoint ppowers_ok (ps : list Z) : Prop :=
  match ps with [] => True | p :: rest => p = r ^ (cb * 2 ^ len rest) /\ ppowers_ok rest end.

Theorem parse_dc_correct ps : forall s, ppowers_ok ps -> parse_dc w r cb ps s = pw r s.
Proof.
  induction ps as [|p rest IH]; intros s Hok; cbn [parse_dc]; [apply parse_chunk_correct|].
  destruct Hok as [Hp Hrest].
  destruct (Z.leb_spec (len s) (cb * 2 ^ len rest)) as [Hle|Hgt]; [apply IH; exact Hrest|].
  rewrite !IH by exact Hrest.
  set (k := Z.to_nat (len s - cb * 2 ^ len rest)).
  replace (pw r s) with (pw r (firstn k s ++ skipn k s)) by (rewrite firstn_skipn; reflexivity). rewrite pw_app.
  assert (El : len (skipn k s) = cb * 2 ^ len rest).
  { unfold len in *. rewrite skipn_length. unfold k.
    assert (0 < 2 ^ Z.of_nat (length rest)) by (apply Z.pow_pos_nonneg; lia). nia. }
  rewrite El, <- Hp. reflexivity.
Qed.

Lemma parse_powers_ok f : forall n ps, ppowers_ok ps -> ppowers_ok (parse_powers f cb n ps).
Proof.
  induction f as [|f IH]; intros n ps Hok; cbn [parse_powers]; [destruct ps; exact Hok|].
  destruct ps as [|prev rest]; [exact Hok|].
  destruct (cb <=? (n - 1) / 2 ^ len (prev :: rest)); [|exact Hok].
  apply IH. split; [|exact Hok]. destruct Hok as [Hp _].
  rewrite len_cons, Z.pow_add_r, Z.pow_1_r by (pose proof (len_nonneg rest); lia).
  rewrite Hp, <- Z.pow_add_r by (assert (0 < 2 ^ len rest) by (apply Z.pow_pos_nonneg; apply len_nonneg || lia); nia).
  f_equal. ring.
Qed.

End Parse.

(* ------------------------------------------------------------------------------------------ *)
Section Body.
Variables w r dpw R : Z.
Hypothesis r_ge_2 : 2 <= r.
Hypothesis Hinfo : radix_info w r = (dpw, R).
Hypothesis dpw_pos : 0 < dpw.
Hypothesis HR : R = r ^ dpw.

Theorem parse_large_np2_correct s : parse_large_np2 w r s = pw r s.
Proof.
  unfold parse_large_np2. rewrite Hinfo.
  assert (Hcb : 0 < parse_chunk_len * dpw) by (unfold parse_chunk_len; lia).
  apply (parse_dc_correct w r dpw R r_ge_2 Hinfo dpw_pos HR (parse_chunk_len * dpw) Hcb).
  apply (parse_powers_ok r dpw r_ge_2 dpw_pos _ Hcb). split; [|exact I].
  unfold len. cbn [length Z.of_nat]. rewrite Z.pow_0_r, Z.mul_1_r, HR, <- Z.pow_mul_r by (unfold parse_chunk_len; lia).
  f_equal. ring.
Qed.

Lemma filter_no_us s : existsb (fun c => c =? 95) s = false -> filter (fun c => negb (c =? 95)) s = s.
Proof.
  induction s as [|c t IH]; cbn [existsb filter]; [reflexivity|]. intros H.
  apply orb_false_iff in H. destruct H as [H1 H2]. rewrite H1. cbn [negb]. f_equal. apply IH. exact H2.
Qed.

Theorem parse_np2_correct s : parse_np2 w r s = pw r (filter nonus s).
Proof.
  unfold parse_np2. rewrite Hinfo.
  assert (E : (if existsb (fun c => c =? 95) s then filter (fun c => negb (c =? 95)) s else s) = filter nonus s).
  { destruct (existsb (fun c => c =? 95) s) eqn:Ex; [reflexivity | symmetry; apply filter_no_us; exact Ex]. }
  rewrite E.
  destruct (len (filter nonus s) <=? dpw); [apply (parse_word_np2_correct r 0)|].
  destruct (len (filter nonus s) <=? parse_chunk_len * dpw).
  - apply (parse_chunk_correct w r dpw R r_ge_2 Hinfo dpw_pos HR).
  - apply parse_large_np2_correct.
Qed.

(** the specification in terms of the underscore-free text *)
Lemma body_digits_filter s : body_digits r s = raw_digits r (filter nonus s).
Proof.
  induction s as [|c t IH]; cbn [body_digits filter]; [reflexivity|]. unfold nonus at 1.
  destruct (c =? 95); cbn [negb]; [exact IH|]. cbn [raw_digits]. rewrite IH. reflexivity.
Qed.

Lemma digit_zero : digit_from_ascii r 48 = Some 0.
Proof. unfold digit_from_ascii. cbn. destruct (Z.ltb_spec 0 r) as [|Hc]; [reflexivity | clear - r_ge_2 Hc; lia]. Qed.

Lemma strip_zeros_48 t : strip_zeros (48 :: t) = strip_zeros t.
Proof. reflexivity. Qed.

Lemma strip_zeros_other c t : c <> 48 -> strip_zeros (c :: t) = c :: t.
Proof.
  intros NE. destruct c as [|p|p]; try reflexivity.
  repeat (destruct p as [p|p|]; try reflexivity). contradiction NE. reflexivity.
Qed.

Lemma pw_cons_zero u : pw r (48 :: u) = pw r u.
Proof.
  unfold pw. change (raw_digits r (48 :: u)) with
    (match digit_from_ascii r 48, raw_digits r u with Some d, Some ds => Some (d :: ds) | _, _ => None end).
  rewrite digit_zero. destruct (raw_digits r u) as [ds|]; [|reflexivity].
  rewrite (value_cons r), Z.mul_0_l, Z.add_0_l. reflexivity.
Qed.

Lemma pw_strip_zeros s : pw r (filter nonus (strip_zeros s)) = pw r (filter nonus s).
Proof.
  induction s as [|c t IH]; [reflexivity|].
  destruct (Z.eq_dec c 48) as [->|NE].
  - rewrite strip_zeros_48, IH.
    change (filter nonus (48 :: t)) with (48 :: filter nonus t). symmetry. apply pw_cons_zero.
  - rewrite strip_zeros_other by exact NE. reflexivity.
Qed.

Lemma all_us_filter s : forallb (fun c => c =? 95) s = true -> filter nonus s = [].
Proof.
  induction s as [|c t IH]; cbn [forallb filter]; [reflexivity|]. intros H.
  apply andb_prop in H. destruct H as [H1 H2]. unfold nonus at 1. rewrite H1. cbn [negb]. apply IH. exact H2.
Qed.

Lemma not_all_us_filter s : forallb (fun c => c =? 95) s = false -> filter nonus s <> [].
Proof.
  induction s as [|c t IH]; cbn [forallb filter]; [discriminate|]. intros H. unfold nonus at 1.
  destruct (c =? 95); cbn [negb andb] in *; [apply IH; exact H | discriminate].
Qed.

(** from_str_radix_no_sign for a radix that is not a power of two *)
Theorem body_asis_np2_correct s : is_pow2 r = false -> body_asis w r s = body_spec r s.
Proof.
  intros Hp. unfold body_asis, body_spec. rewrite body_digits_filter, Hp.
  destruct (forallb (fun c => c =? 95) s) eqn:Eu.
  - rewrite all_us_filter by exact Eu. reflexivity.
  - rewrite parse_np2_correct, pw_strip_zeros. unfold pw.
    destruct (raw_digits r (filter nonus s)) as [ds|] eqn:Ed; [|reflexivity].
    destruct ds; [|reflexivity].
    apply raw_digits_length in Ed. apply not_all_us_filter in Eu.
    destruct (filter nonus s); [contradiction | discriminate].
Qed.

End Body.
