(** C01 (L1): the primitive-operand forms of + - * (helper_macros.rs impl_commutative_binop_with_primitive /
    impl_binop_assign_with_primitive as instantiated in add_ops.rs and mul_ops.rs):
        big op prim  =  big.op(<Big>::from(prim))          prim op big  =  <Big>::from(prim).op(big)
    (the trailing `.try_into().unwrap()` converts Big to Big, the identity; the assign forms call the same method),
    with UBig::from(u8..u128) = Repr::from_unsigned, IBig::from(u8..u128) likewise, IBig::from(i8..i128) = to_sign_magnitude +
    Repr::from_unsigned(mag).with_sign(sign).  Repr::from_unsigned keeps a double word inline and otherwise
    builds the heap words from the little-endian bytes (from_le_bytes_large, by value here: it belongs to C07).
    The big operand is taken by value or by reference, the converted primitive always by value.
    Multiplication uses the word-level kernels.  Definitions only. *)
From Dashu Require Import Base.Prelude Base.Words Int.RingSpec Int.RingAdd Int.RingMul Int.RingOps Int.RingMulW Int.RingOpsW.
Open Scope Z_scope.

Inductive pop := PAdd | PSub | PMul.
Inductive pside := PLeft | PRight.     (* big op prim | prim op big *)

Section Prim.
Variable w : Z.
Variable div2by1 : Z -> Z -> Z * Z.
Variable T_simple T_kara CHUNK SQR_SIMPLE : nat.

Definition repr_from_unsigned (x : Z) : trepr := typed_of_value w x.

(** PrimitiveSigned::to_sign_magnitude of a [bits]-bit signed integer:
    (Positive, self as U) or (Negative, (self as U).wrapping_neg()) *)
Definition to_sign_magnitude (bits x : Z) : sign * Z :=
  if 0 <=? x then (Positive, x)
  else let u := x mod 2 ^ bits in (Negative, (2 ^ bits - u) mod 2 ^ bits).

Definition ibig_from_unsigned (x : Z) : sign * trepr := (Positive, repr_from_unsigned x).
Definition ibig_from_signed (bits x : Z) : sign * trepr :=
  let '(s, m) := to_sign_magnitude bits x in with_sign s (repr_from_unsigned m).

Definition prim_own (side : pside) (byref : bool) : own :=
  match side with PLeft => if byref then ORV else OVV | PRight => if byref then OVR else OVV end.

Definition ubig_prim (op : pop) (side : pside) (byref : bool) (x : trepr) (p : Z) : result trepr :=
  let q := repr_from_unsigned p in
  let o := prim_own side byref in
  let '(l, r) := match side with PLeft => (x, q) | PRight => (q, x) end in
  match op with
  | PAdd => Ok (repr_add w o l r)
  | PSub => repr_sub w o l r
  | PMul => repr_mul_w w div2by1 T_simple T_kara CHUNK SQR_SIMPLE l r
  end.

Definition ibig_prim (op : pop) (side : pside) (byref : bool) (x q : sign * trepr) : result (sign * trepr) :=
  let o := prim_own side byref in
  let '(l, r) := match side with PLeft => (x, q) | PRight => (q, x) end in
  match op with
  | PAdd => ibig_add_asis w o (fst l) (snd l) (fst r) (snd r)
  | PSub => ibig_sub_asis w o (fst l) (snd l) (fst r) (snd r)
  | PMul => ibig_mul_asis_w w div2by1 T_simple T_kara CHUNK SQR_SIMPLE (fst l) (snd l) (fst r) (snd r)
  end.

End Prim.

Definition ubig_prim_spec (op : pop) (a b : Z) : result Z :=
  match op with PAdd => ubig_add_spec a b | PSub => ubig_sub_spec a b | PMul => ubig_mul_spec a b end.
Definition ibig_prim_spec (op : pop) (a b : Z) : Z :=
  match op with PAdd => ibig_add_spec a b | PSub => ibig_sub_spec a b | PMul => ibig_mul_spec a b end.
