(** C01 (L0): value contracts of the multiplication kernels, for every word size w >= 8, every
    length and every admissible threshold triple. *)
From Dashu Require Import Base.Prelude Base.Words Int.RingAdd Int.RingAddProofs Int.RingMul.
Open Scope Z_scope.

Section MulProofs.
Variable w : Z.
Hypothesis w_ge : 8 <= w.
Let w_pos : 0 < w. Proof. lia. Qed.
Notation BB := (B w).
Notation val := (value w).
Notation wfw := (wf w).
Notation updw := (upd w).

Let HB : 0 < BB := B_pos w w_pos.
Lemma B_ge_256 : 256 <= BB.
Proof. unfold B. change 256 with (2 ^ 8). apply Z.pow_le_mono_r; lia. Qed.

Lemma pow_nat_pos (k : nat) : 0 < BB ^ Z.of_nat k.
Proof. apply Z.pow_pos_nonneg; lia. Qed.

Lemma pow_nat_add (a b : nat) : BB ^ Z.of_nat (a + b) = BB ^ Z.of_nat a * BB ^ Z.of_nat b.
Proof. rewrite Nat2Z.inj_add, Z.pow_add_r by lia. reflexivity. Qed.

Lemma pow_nat_S (a : nat) : BB ^ Z.of_nat (S a) = BB * BB ^ Z.of_nat a.
Proof. rewrite Nat2Z.inj_succ, Z.pow_succ_r by lia. reflexivity. Qed.

Lemma pcons {A} (x : A) r : BB ^ len (x :: r) = BB * BB ^ len r.
Proof. apply pow_cons. Qed.
Lemma plen_pos {A} (a : list A) : 0 < BB ^ len a.
Proof. apply pow_len_pos. exact w_pos. Qed.

Ltac wfs := repeat (first [ apply wf_nil | assumption | apply wf_cons; split; [lia|] | apply wf_app; split
                          | apply wf_firstn | apply wf_skipn ]).
Ltac fin := repeat split; try lia; try solve [wfs]; try nia.

(** ------------------------------------------------------------------ slices *)
Lemma skipn_skipn_add {A} (a b : nat) (l : list A) : skipn a (skipn b l) = skipn (b + a) l.
Proof.
  revert l. induction b as [|b IH]; intros l; [reflexivity|].
  destruct l as [|x l]; cbn [skipn Nat.add]; [now rewrite skipn_nil | apply IH].
Qed.

Lemma split3 (lo n : nat) (l : list Z) : l = firstn lo l ++ slice lo n l ++ skipn (lo + n) l.
Proof. unfold slice. rewrite <- skipn_skipn_add, firstn_skipn, firstn_skipn. reflexivity. Qed.

Lemma slice_length lo n l : (lo + n <= length l)%nat -> length (slice lo n l) = n.
Proof. intros H. unfold slice. rewrite firstn_length_le; [reflexivity | rewrite skipn_length; lia]. Qed.

Lemma wf_slice lo n l : wfw l -> wfw (slice lo n l).
Proof. intros H. unfold slice. apply wf_firstn, wf_skipn. exact H. Qed.

Lemma splice_length lo s l : (lo + length s <= length l)%nat -> length (splice lo s l) = length l.
Proof. intros H. unfold splice. rewrite !app_length, firstn_length_le, skipn_length by lia. lia. Qed.

Lemma wf_splice lo s l : wfw l -> wfw s -> wfw (splice lo s l).
Proof.
  intros H Hs. unfold splice. apply wf_app. split; [apply wf_firstn; auto|].
  apply wf_app. split; [auto | apply wf_skipn; auto].
Qed.

Lemma val_splice lo s l : (lo + length s <= length l)%nat ->
  val (splice lo s l) = val l + BB ^ Z.of_nat lo * (val s - val (slice lo (length s) l)).
Proof.
  intros H. rewrite (split3 lo (length s) l) at 2. unfold splice.
  rewrite !value_app. unfold len. rewrite firstn_length_le, slice_length by lia. ring.
Qed.

(** one in-place step on the slice [lo, lo+n) of c *)
Lemma step_upd c lo n s' k d : (lo + n <= length c)%nat -> wfw c -> updw (slice lo n c) s' k d ->
  length (splice lo s' c) = length c /\ wfw (splice lo s' c) /\
  val (splice lo s' c) = val c + BB ^ Z.of_nat lo * (d - k * BB ^ Z.of_nat n).
Proof.
  intros H Hc (L & W & V). rewrite slice_length in L by lia. unfold len in V. rewrite slice_length in V by lia.
  split; [apply splice_length; lia|]. split; [apply wf_splice; auto|].
  rewrite val_splice by lia. rewrite L. f_equal. f_equal. lia.
Qed.

Lemma wf_nth k l : wfw l -> (k < length l)%nat -> 0 <= nth k l 0 < BB.
Proof. intros H Hk. unfold wf in H. rewrite Forall_forall in H. apply H, nth_In, Hk. Qed.

Lemma val_at k l : (k < length l)%nat ->
  val l = val (firstn k l) + BB ^ Z.of_nat k * (nth k l 0 + BB * val (skipn (S k) l)).
Proof.
  intros H. rewrite (firstn_skipn_val w k l), (skipn_S_val w k l) by lia.
  rewrite (len_firstn k l) by lia. reflexivity.
Qed.

Lemma val_lt_pow l n : wfw l -> length l = n -> 0 <= val l < BB ^ Z.of_nat n.
Proof. intros H L. pose proof (value_bounds w w_pos l H) as Hb. unfold len in Hb. rewrite L in Hb. exact Hb. Qed.

(** ------------------------------------------------------------------ word products *)
Lemma split_dword_spec d lo hi : 0 <= d < BB * BB -> split_dword w d = (lo, hi) ->
  0 <= lo < BB /\ 0 <= hi < BB /\ d = lo + BB * hi.
Proof.
  intros H E. unfold split_dword in E. inversion E; subst; clear E.
  destruct (dword_split w w_pos d H) as (A & C & D). auto.
Qed.

Lemma mul_add_carry_spec a b c lo hi : 0 <= a < BB -> 0 <= b < BB -> 0 <= c < BB ->
  mul_add_carry w a b c = (lo, hi) -> 0 <= lo < BB /\ 0 <= hi < BB /\ a * b + c = lo + BB * hi.
Proof. intros Ha Hb Hc E. unfold mul_add_carry in E. apply split_dword_spec in E; [exact E | nia]. Qed.

Lemma mul_add_2carry_spec a b c0 c1 lo hi : 0 <= a < BB -> 0 <= b < BB -> 0 <= c0 < BB -> 0 <= c1 < BB ->
  mul_add_2carry w a b c0 c1 = (lo, hi) -> 0 <= lo < BB /\ 0 <= hi < BB /\ a * b + c0 + c1 = lo + BB * hi.
Proof. intros Ha Hb Hc Hd E. unfold mul_add_2carry in E. apply split_dword_spec in E; [exact E | nia]. Qed.

Lemma mul_add_carry_dword_spec lhs rhs carry lo hi :
  0 <= lhs < BB * BB -> 0 <= rhs < BB * BB -> 0 <= carry < BB * BB ->
  mul_add_carry_dword w lhs rhs carry = (lo, hi) ->
  0 <= lo < BB * BB /\ 0 <= hi < BB * BB /\ lhs * rhs + carry = lo + BB * BB * hi.
Proof.
  intros Hl Hr Hc E. unfold mul_add_carry_dword in E.
  destruct (split_dword w lhs) as [x0 x1] eqn:E1. apply split_dword_spec in E1; [|lia].
  destruct (split_dword w rhs) as [y0 y1] eqn:E2. apply split_dword_spec in E2; [|lia].
  destruct (split_dword w carry) as [i0 i1] eqn:E3. apply split_dword_spec in E3; [|lia].
  destruct E1 as (X0 & X1 & EX). destruct E2 as (Y0 & Y1 & EY). destruct E3 as (I0 & I1 & EI).
  destruct (mul_add_carry w x0 y0 i0) as [z0 c0] eqn:M1. apply mul_add_carry_spec in M1; try lia.
  destruct (mul_add_carry w x1 y0 c0) as [z1 c1a] eqn:M2. apply mul_add_carry_spec in M2; try lia.
  destruct (mul_add_2carry w x0 y1 z1 i1) as [z1' c1b] eqn:M3. apply mul_add_2carry_spec in M3; try lia.
  destruct (mul_add_2carry w x1 y1 c1a c1b) as [z2 z3] eqn:M4. apply mul_add_2carry_spec in M4; try lia.
  inversion E; subst lo hi; clear E.
  destruct M1 as (A1 & A2 & A3), M2 as (B1 & B2 & B3), M3 as (C1 & C2 & C3), M4 as (D1 & D2 & D3).
  split; [nia|]. split; [nia|].
  subst lhs rhs carry.
  replace ((x0 + BB * x1) * (y0 + BB * y1) + (i0 + BB * i1))
    with ((x0 * y0 + i0) + BB * ((x1 * y0 + c0) + (x0 * y1 + z1 + i1) - c0 - z1) + BB * BB * (x1 * y1)) by ring.
  rewrite A3, B3, C3. replace (BB * BB * (x1 * y1)) with (BB * BB * (x1 * y1 + c1a + c1b) - BB * BB * (c1a + c1b)) by ring.
  rewrite D3. ring.
Qed.

(** mul_word_in_place_with_carry, rhs <> 0 *)
Lemma mul_word_loop_spec ws : forall rhs carry, wfw ws -> 0 <= rhs < BB -> 0 <= carry < BB ->
  forall r c, mul_word_loop w ws rhs carry = (r, c) ->
  length r = length ws /\ wfw r /\ 0 <= c < BB /\ val r + c * BB ^ len ws = val ws * rhs + carry.
Proof.
  induction ws as [|a t IH]; intros rhs carry Hw Hr Hc r c E; cbn [mul_word_loop] in E.
  - inversion E; subst. cbn [value]. change (len (@nil Z)) with 0. rewrite Z.pow_0_r. fin.
  - apply wf_cons in Hw. destruct Hw as [Ha Ht].
    destruct (mul_add_carry w a rhs carry) as [lo hi] eqn:E1. apply mul_add_carry_spec in E1; try lia.
    destruct E1 as (L1 & L2 & L3).
    destruct (mul_word_loop w t rhs hi) as [t' c'] eqn:E2. inversion E; subst r c; clear E.
    destruct (IH rhs hi Ht Hr L2 _ _ E2) as (A & C & D & V).
    cbn [length value]. rewrite pcons. fin.
Qed.

Lemma mul_word_in_place_spec ws rhs : wfw ws -> 0 < rhs < BB ->
  forall r c, mul_word_in_place w ws rhs = (r, c) ->
  length r = length ws /\ wfw r /\ 0 <= c < BB /\ val r + c * BB ^ len ws = val ws * rhs.
Proof.
  intros Hw Hr r c E. unfold mul_word_in_place, mul_word_in_place_with_carry in E.
  destruct (Z.eqb_spec rhs 0); [lia|].
  destruct (mul_word_loop_spec ws rhs 0 Hw ltac:(lia) ltac:(lia) _ _ E) as (A & C & D & V).
  repeat split; auto; lia.
Qed.

(** as-is remark: with rhs = 0 the words are left unchanged (the documented contract would need
    them cleared); unreachable from the C01 operators *)
Lemma mul_word_in_place_zero_keeps_words ws : mul_word_in_place w ws 0 = (ws, 0).
Proof. reflexivity. Qed.

(** mul_dword_in_place *)
Lemma mul_dword_loop_spec n : forall ws rhs carry, (length ws <= n)%nat -> wfw ws ->
  0 <= rhs < BB * BB -> 0 <= carry < BB * BB ->
  forall r c, mul_dword_loop w ws rhs carry = (r, c) ->
  length r = length ws /\ wfw r /\ 0 <= c < BB * BB /\ val r + c * BB ^ len ws = val ws * rhs + carry.
Proof.
  induction n as [|n IH]; intros ws rhs carry Ln Hw Hr Hc r c E.
  - destruct ws; [|cbn [length] in Ln; lia]. cbn [mul_dword_loop] in E. inversion E; subst.
    cbn [value]. change (len (@nil Z)) with 0. rewrite Z.pow_0_r. fin.
  - destruct ws as [|lo [|hi t]]; cbn [mul_dword_loop] in E.
    + inversion E; subst. cbn [value]. change (len (@nil Z)) with 0. rewrite Z.pow_0_r. fin.
    + apply wf_cons in Hw. destruct Hw as [Hlo _].
      destruct (split_dword w rhs) as [m_lo m_hi] eqn:E1. apply split_dword_spec in E1; [|lia].
      destruct (split_dword w carry) as [c_lo c_hi] eqn:E2. apply split_dword_spec in E2; [|lia].
      destruct E1 as (M0 & M1 & EM). destruct E2 as (C0 & C1 & EC).
      destruct (mul_add_carry w lo m_lo c_lo) as [n_lo nc_lo] eqn:E3. apply mul_add_carry_spec in E3; try lia.
      destruct (mul_add_2carry w lo m_hi nc_lo c_hi) as [n_hi nc_hi] eqn:E4. apply mul_add_2carry_spec in E4; try lia.
      inversion E; subst r c; clear E. destruct E3 as (A1 & A2 & A3), E4 as (B1 & B2 & B3).
      cbn [length value]. rewrite pcons. change (len (@nil Z)) with 0. rewrite Z.pow_0_r.
      fin.
    + apply wf_cons in Hw. destruct Hw as [Hlo Hw]. apply wf_cons in Hw. destruct Hw as [Hhi Ht].
      destruct (mul_add_carry_dword w (lo + BB * hi) rhs carry) as [p nc] eqn:E1.
      apply mul_add_carry_dword_spec in E1; try nia. destruct E1 as (P1 & P2 & P3).
      destruct (split_dword w p) as [nlo nhi] eqn:E2. apply split_dword_spec in E2; [|lia]. destruct E2 as (N0 & N1 & EN).
      destruct (mul_dword_loop w t rhs nc) as [t' c'] eqn:E3. inversion E; subst r c; clear E.
      cbn [length] in Ln. destruct (IH t rhs nc ltac:(lia) Ht Hr P2 _ _ E3) as (A & C & D & V).
      cbn [length value]. rewrite !pcons.
      fin.
Qed.

Lemma mul_dword_in_place_spec ws rhs : wfw ws -> 0 <= rhs < BB * BB ->
  forall r c, mul_dword_in_place w ws rhs = (r, c) ->
  length r = length ws /\ wfw r /\ 0 <= c < BB * BB /\ val r + c * BB ^ len ws = val ws * rhs.
Proof.
  intros Hw Hr r c E. unfold mul_dword_in_place in E.
  destruct (mul_dword_loop_spec (length ws) ws rhs 0 (le_n _) Hw Hr ltac:(nia) _ _ E) as (A & C & D & V).
  repeat split; auto; lia.
Qed.

(** add_mul_word_same_len_in_place *)
Lemma add_mul_word_loop_spec ws : forall mult rhs carry, length ws = length rhs -> wfw ws -> wfw rhs ->
  0 <= mult < BB -> 0 <= carry < BB ->
  forall r c, add_mul_word_loop w ws mult rhs carry = (r, c) ->
  length r = length ws /\ wfw r /\ 0 <= c < BB /\ val r + c * BB ^ len ws = val ws + mult * val rhs + carry.
Proof.
  induction ws as [|a t IH]; intros mult [|b u] carry L Hw Hr Hm Hc r c E; try discriminate; cbn [add_mul_word_loop] in E.
  - inversion E; subst. cbn [value]. change (len (@nil Z)) with 0. rewrite Z.pow_0_r. fin.
  - apply wf_cons in Hw. destruct Hw as [Ha Ht]. apply wf_cons in Hr. destruct Hr as [Hb Hu].
    destruct (mul_add_2carry w mult b a carry) as [lo hi] eqn:E1. apply mul_add_2carry_spec in E1; try lia.
    destruct E1 as (L1 & L2 & L3).
    destruct (add_mul_word_loop w t mult u hi) as [t' c'] eqn:E2. inversion E; subst r c; clear E.
    cbn [length] in L. destruct (IH mult u hi ltac:(lia) Ht Hu Hm L2 _ _ E2) as (A & C & D & V).
    cbn [length value]. rewrite pcons. fin.
Qed.

Lemma add_mul_word_same_len_spec ws mult rhs : length ws = length rhs -> wfw ws -> wfw rhs -> 0 <= mult < BB ->
  forall r c, add_mul_word_same_len_in_place w ws mult rhs = (r, c) ->
  length r = length ws /\ wfw r /\ 0 <= c < BB /\ val r + c * BB ^ len ws = val ws + mult * val rhs.
Proof.
  intros L Hw Hr Hm r c E. unfold add_mul_word_same_len_in_place in E.
  destruct (Z.eqb_spec mult 0) as [->|Hne].
  - inversion E; subst. repeat split; auto; lia.
  - destruct (add_mul_word_loop_spec ws mult rhs 0 L Hw Hr Hm ltac:(lia) _ _ E) as (A & C & D & V).
    repeat split; auto; lia.
Qed.

(** sub_mul_word_same_len_in_place: the value kept in [cpm] is MAX - borrow; the intermediate
    [v] "fits exactly in a DoubleWord" *)
Lemma sub_mul_word_loop_spec ws : forall mult rhs cpm, length ws = length rhs -> wfw ws -> wfw rhs ->
  0 <= mult < BB -> 0 <= cpm < BB ->
  forall r c, sub_mul_word_loop w ws mult rhs cpm = (r, c) ->
  length r = length ws /\ wfw r /\ 0 <= c < BB /\
  val r - (BB - 1 - c) * BB ^ len ws = val ws - mult * val rhs - (BB - 1 - cpm).
Proof.
  induction ws as [|a t IH]; intros mult [|b u] cpm L Hw Hr Hm Hc r c E; try discriminate; cbn [sub_mul_word_loop] in E.
  - inversion E; subst. cbn [value]. change (len (@nil Z)) with 0. rewrite Z.pow_0_r. fin.
  - apply wf_cons in Hw. destruct Hw as [Ha Ht]. apply wf_cons in Hr. destruct Hr as [Hb Hu].
    destruct (split_dword w (a + cpm + (BB * (BB - 1) - (BB - 1)) - mult * b)) as [lo hi] eqn:E1.
    apply split_dword_spec in E1; [|nia]. destruct E1 as (L1 & L2 & L3).
    destruct (sub_mul_word_loop w t mult u hi) as [t' c'] eqn:E2. inversion E; subst r c; clear E.
    cbn [length] in L. destruct (IH mult u hi ltac:(lia) Ht Hu Hm L2 _ _ E2) as (A & C & D & V).
    cbn [length value]. rewrite pcons. fin.
Qed.

Lemma sub_mul_word_same_len_spec ws mult rhs : length ws = length rhs -> wfw ws -> wfw rhs -> 0 <= mult < BB ->
  forall r c, sub_mul_word_same_len_in_place w ws mult rhs = (r, c) ->
  length r = length ws /\ wfw r /\ 0 <= c < BB /\ val r - c * BB ^ len ws = val ws - mult * val rhs.
Proof.
  intros L Hw Hr Hm r c E. unfold sub_mul_word_same_len_in_place in E.
  destruct (Z.eqb_spec mult 0) as [->|Hne].
  - inversion E; subst. repeat split; auto; lia.
  - destruct (sub_mul_word_loop w ws mult rhs (BB - 1)) as [r' cpm] eqn:E1. inversion E; subst r c; clear E.
    destruct (sub_mul_word_loop_spec ws mult rhs (BB - 1) L Hw Hr Hm ltac:(lia) _ _ E1) as (A & C & D & V).
    repeat split; auto; try lia.
Qed.

(** ------------------------------------------------------------------ schoolbook rows *)
Lemma add_mul_chunk_spec a : wfw a -> forall b c carry, length c = (length a + length b)%nat -> wfw c -> wfw b ->
  forall r cf, add_mul_chunk w c a b carry = (r, cf) ->
  length r = length c /\ wfw r /\
  val r + b2z cf * BB ^ len c = val c + val a * val b + b2z carry * BB ^ len a.
Proof.
  intros Ha. induction b as [|m b' IH]; intros c carry L Hc Hb r cf E; cbn [add_mul_chunk] in E.
  - injection E as <- <-. cbn [value]. rewrite (len_eq c a) by (cbn [length] in L; lia). repeat split; auto. lia.
  - apply wf_cons in Hb. destruct Hb as [Hm Hb']. cbn [length] in L.
    set (la := length a) in *.
    assert (Lf : length (firstn la c) = length a) by (rewrite firstn_length_le; lia).
    destruct (add_mul_word_same_len_in_place w (firstn la c) m a) as [lo cw] eqn:E1.
    destruct (add_mul_word_same_len_spec _ m a Lf (wf_firstn w la c Hc) Ha Hm _ _ E1) as (A1 & W1 & C1 & V1).
    pose proof (wf_nth la c Hc ltac:(lia)) as Hn.
    destruct (add_with_carry w (nth la c 0) cw carry) as [top cn] eqn:E2.
    destruct (add_with_carry_spec w w_pos _ _ _ _ _ Hn C1 E2) as (T1 & T2).
    pose proof (val_at la c ltac:(lia)) as Vc.
    rewrite (len_eq (firstn la c) a Lf) in V1.
    assert (VL : val (lo ++ top :: skipn (S la) c) = val lo + BB ^ len a * (top + BB * val (skipn (S la) c))).
    { rewrite value_app. cbn [value]. rewrite (len_eq lo a) by lia. reflexivity. }
    assert (LL : length (lo ++ top :: skipn (S la) c) = length c).
    { rewrite app_length. cbn [length]. rewrite skipn_length. lia. }
    assert (WL : wfw (lo ++ top :: skipn (S la) c)).
    { apply wf_app. split; [auto|]. apply wf_cons. split; [lia | apply wf_skipn; auto]. }
    destruct (lo ++ top :: skipn (S la) c) as [|x c1]; [cbn [length] in LL; lia|].
    apply wf_cons in WL. destruct WL as [Hx Wc1]. cbn [length] in LL. cbn [value] in VL.
    destruct (add_mul_chunk w c1 a b' cn) as [r' cf'] eqn:E3. inversion E; subst r cf; clear E.
    destruct (IH c1 cn ltac:(lia) Wc1 Hb' _ _ E3) as (A3 & W3 & V3).
    cbn [length value]. split; [lia|]. split; [apply wf_cons; auto|].
    assert (P1 : BB ^ len c = BB * BB ^ len c1).
    { unfold len. replace (length c) with (S (length c1)) by lia. apply pow_nat_S. }
    assert (P2 : BB ^ Z.of_nat la = BB ^ len a) by reflexivity.
    rewrite P2 in Vc. pose proof (plen_pos a).
    rewrite P1. nia.
Qed.

Lemma sub_mul_chunk_spec a : wfw a -> forall b c borrow, length c = (length a + length b)%nat -> wfw c -> wfw b ->
  forall r bf, sub_mul_chunk w c a b borrow = (r, bf) ->
  length r = length c /\ wfw r /\
  val r - b2z bf * BB ^ len c = val c - val a * val b - b2z borrow * BB ^ len a.
Proof.
  intros Ha. induction b as [|m b' IH]; intros c borrow L Hc Hb r bf E; cbn [sub_mul_chunk] in E.
  - injection E as <- <-. cbn [value]. rewrite (len_eq c a) by (cbn [length] in L; lia). repeat split; auto. lia.
  - apply wf_cons in Hb. destruct Hb as [Hm Hb']. cbn [length] in L.
    set (la := length a) in *.
    assert (Lf : length (firstn la c) = length a) by (rewrite firstn_length_le; lia).
    destruct (sub_mul_word_same_len_in_place w (firstn la c) m a) as [lo bw] eqn:E1.
    destruct (sub_mul_word_same_len_spec _ m a Lf (wf_firstn w la c Hc) Ha Hm _ _ E1) as (A1 & W1 & C1 & V1).
    pose proof (wf_nth la c Hc ltac:(lia)) as Hn.
    destruct (sub_with_borrow w (nth la c 0) bw borrow) as [top bn] eqn:E2.
    destruct (sub_with_borrow_spec w w_pos _ _ _ _ _ Hn C1 E2) as (T1 & T2).
    pose proof (val_at la c ltac:(lia)) as Vc.
    rewrite (len_eq (firstn la c) a Lf) in V1.
    assert (VL : val (lo ++ top :: skipn (S la) c) = val lo + BB ^ len a * (top + BB * val (skipn (S la) c))).
    { rewrite value_app. cbn [value]. rewrite (len_eq lo a) by lia. reflexivity. }
    assert (LL : length (lo ++ top :: skipn (S la) c) = length c).
    { rewrite app_length. cbn [length]. rewrite skipn_length. lia. }
    assert (WL : wfw (lo ++ top :: skipn (S la) c)).
    { apply wf_app. split; [auto|]. apply wf_cons. split; [lia | apply wf_skipn; auto]. }
    destruct (lo ++ top :: skipn (S la) c) as [|x c1]; [cbn [length] in LL; lia|].
    apply wf_cons in WL. destruct WL as [Hx Wc1]. cbn [length] in LL. cbn [value] in VL.
    destruct (sub_mul_chunk w c1 a b' bn) as [r' bf'] eqn:E3. inversion E; subst r bf; clear E.
    destruct (IH c1 bn ltac:(lia) Wc1 Hb' _ _ E3) as (A3 & W3 & V3).
    cbn [length value]. split; [lia|]. split; [apply wf_cons; auto|].
    assert (P1 : BB ^ len c = BB * BB ^ len c1).
    { unfold len. replace (length c) with (S (length c1)) by lia. apply pow_nat_S. }
    assert (P2 : BB ^ Z.of_nat la = BB ^ len a) by reflexivity.
    rewrite P2 in Vc. pose proof (plen_pos a).
    rewrite P1. nia.
Qed.

(** ------------------------------------------------------------------ the kernel contract *)
(** [c += sign * a * b], returns the carry: the contract of every multiplier *)
Definition mul_ok (f : mulfn) (c : list Z) (s : sign) (a b : list Z) : Prop :=
  exists r carry, f c s a b = Ok (r, carry) /\ length r = length c /\ wfw r /\
                  val r + carry * BB ^ len c = val c + sgnz s * (val a * val b).

Definition pre (c a b : list Z) : Prop :=
  wfw c /\ wfw a /\ wfw b /\ length c = (length a + length b)%nat.

(** the carry of a kernel that met its contract is -1, 0 or 1 (what the code debug_asserts) *)
Lemma contract_carry_range c s a b r carry : pre c a b -> length r = length c -> wfw r ->
  val r + carry * BB ^ len c = val c + sgnz s * (val a * val b) -> -1 <= carry <= 1.
Proof.
  intros (Hc & Ha & Hb & L) Lr Wr V.
  pose proof (value_bounds w w_pos c Hc) as Bc. pose proof (value_bounds w w_pos r Wr) as Br.
  pose proof (value_bounds w w_pos a Ha) as Ba. pose proof (value_bounds w w_pos b Hb) as Bb.
  rewrite (len_eq r c Lr) in Br.
  assert (P : BB ^ len c = BB ^ len a * BB ^ len b).
  { unfold len. rewrite L. apply pow_nat_add. }
  pose proof (plen_pos a). pose proof (plen_pos b).
  assert (0 <= val a * val b < BB ^ len c) by nia.
  destruct s; cbn [sgnz] in V; nia.
Qed.

Lemma simple_chunk_ok c s a b : pre c a b -> mul_ok (simple_chunk_fn w) c s a b.
Proof.
  intros (Hc & Ha & Hb & L). unfold mul_ok, simple_chunk_fn, add_signed_mul_chunk. destruct s.
  - destruct (add_mul_chunk w c a b false) as [r k] eqn:E.
    destruct (add_mul_chunk_spec a Ha b c false L Hc Hb _ _ E) as (A & C & V).
    exists r, (b2z k). cbn [b2z sgnz] in *. repeat split; auto. lia.
  - destruct (sub_mul_chunk w c a b false) as [r k] eqn:E.
    destruct (sub_mul_chunk_spec a Ha b c false L Hc Hb _ _ E) as (A & C & V).
    exists r, (- b2z k). cbn [b2z sgnz] in *. repeat split; auto. lia.
Qed.

(** ------------------------------------------------------------------ steps on slices *)
Lemma sgnz_mul x y : sgnz (sign_mul x y) = sgnz x * sgnz y.
Proof. destruct x, y; reflexivity. Qed.
Lemma sgnz_neg x : sgnz (sign_neg x) = - sgnz x.
Proof. destruct x; reflexivity. Qed.

Lemma step_signed_same c lo n s rhs r k : (lo + n <= length c)%nat -> wfw c -> wfw rhs -> length rhs = n ->
  add_signed_same_len_in_place w (slice lo n c) s rhs = (r, k) ->
  length (splice lo r c) = length c /\ wfw (splice lo r c) /\ -1 <= k <= 1 /\
  val (splice lo r c) = val c + BB ^ Z.of_nat lo * (sgnz s * val rhs - k * BB ^ Z.of_nat n).
Proof.
  intros H Hc Hr L E.
  destruct (add_signed_same_len_in_place_spec w w_pos (slice lo n c) s rhs ltac:(rewrite slice_length; lia) (wf_slice lo n c Hc) Hr _ _ E) as (U & K).
  destruct (step_upd c lo n r k _ H Hc U) as (A & C & V). auto.
Qed.

Lemma step_signed c lo n s rhs r k : (lo + n <= length c)%nat -> wfw c -> wfw rhs -> (length rhs <= n)%nat ->
  add_signed_in_place w (slice lo n c) s rhs = (r, k) ->
  length (splice lo r c) = length c /\ wfw (splice lo r c) /\ -1 <= k <= 1 /\
  val (splice lo r c) = val c + BB ^ Z.of_nat lo * (sgnz s * val rhs - k * BB ^ Z.of_nat n).
Proof.
  intros H Hc Hr L E.
  destruct (add_signed_in_place_spec w w_pos (slice lo n c) s rhs ltac:(rewrite slice_length; lia) (wf_slice lo n c Hc) Hr _ _ E) as (U & K).
  destruct (step_upd c lo n r k _ H Hc U) as (A & C & V). auto.
Qed.

Lemma step_signed_word c lo n rhs r k : (lo + n <= length c)%nat -> wfw c -> - BB < rhs < BB ->
  add_signed_word_in_place w (slice lo n c) rhs = (r, k) ->
  length (splice lo r c) = length c /\ wfw (splice lo r c) /\ ((0 < n)%nat -> -1 <= k <= 1) /\ (n = O -> k = rhs) /\
  val (splice lo r c) = val c + BB ^ Z.of_nat lo * (rhs - k * BB ^ Z.of_nat n).
Proof.
  intros H Hc Hr E.
  destruct (add_signed_word_in_place_spec w w_pos (slice lo n c) rhs (wf_slice lo n c Hc) Hr _ _ E) as (U & K1 & K2).
  destruct (step_upd c lo n r k _ H Hc U) as (A & C & V).
  pose proof (slice_length lo n c H) as SL.
  refine (conj A (conj C (conj _ (conj _ V)))).
  - intros Hn. apply K1. intros Z0. rewrite Z0 in SL. cbn [length] in SL. lia.
  - intros Hn. apply K2. subst n. destruct (slice lo 0 c); [reflexivity | discriminate].
Qed.

Lemma step_mul (f : mulfn) c lo n s a b : (lo + n <= length c)%nat -> wfw c -> wfw a -> wfw b -> n = (length a + length b)%nat ->
  mul_ok f (slice lo n c) s a b ->
  exists r k, f (slice lo n c) s a b = Ok (r, k) /\
  length (splice lo r c) = length c /\ wfw (splice lo r c) /\ -1 <= k <= 1 /\
  val (splice lo r c) = val c + BB ^ Z.of_nat lo * (sgnz s * (val a * val b) - k * BB ^ Z.of_nat n).
Proof.
  intros H Hc Ha Hb L (r & k & E & Lr & Wr & V). exists r, k. split; [exact E|].
  pose proof (slice_length lo n c H) as SL.
  assert (K : -1 <= k <= 1).
  { apply (contract_carry_range (slice lo n c) s a b r k); auto. repeat split; auto; [apply wf_slice; auto | lia]. }
  assert (U : updw (slice lo n c) r k (sgnz s * (val a * val b))) by (repeat split; auto).
  destruct (step_upd c lo n r k _ H Hc U) as (A & C & V'). auto.
Qed.

(** a product into a zero-filled buffer has no carry: debug_assert_zero!(..) never fires *)
Lemma product_ok (f : mulfn) m a b : wfw a -> wfw b -> m = (length a + length b)%nat ->
  mul_ok f (repeat 0 m) Positive a b ->
  exists r, assert_zero (f (repeat 0 m) Positive a b) = Ok r /\ length r = m /\ wfw r /\ val r = val a * val b.
Proof.
  intros Ha Hb L (r & k & E & Lr & Wr & V). rewrite repeat_length in Lr.
  rewrite value_repeat_zero in V. cbn [sgnz] in V. unfold len in V. rewrite repeat_length in V.
  pose proof (val_lt_pow r m Wr Lr) as Br. pose proof (val_lt_pow a _ Ha eq_refl) as Ba. pose proof (val_lt_pow b _ Hb eq_refl) as Bb.
  rewrite L, pow_nat_add in *. pose proof (pow_nat_pos (length a)). pose proof (pow_nat_pos (length b)).
  assert (k = 0) by nia. subst k.
  exists r. rewrite E. cbn [assert_zero Z.eqb]. repeat split; auto. lia.
Qed.

(** ------------------------------------------------------------------ split into chunks *)
Lemma chunks_loop_ok (f rec_gen : mulfn) (chunk_len N : nat) (b : list Z) :
  (0 < chunk_len)%nat -> wfw b ->
  (forall c s a', pre c a' b -> length a' = chunk_len -> mul_ok f c s a' b) ->
  (forall c s a' b', pre c a' b' -> (length a' + length b' < N)%nat -> mul_ok rec_gen c s a' b') ->
  forall k c s a carry_n, pre c a b -> (length a <= k)%nat -> (length a + length b <= N)%nat ->
  ((length a + length b < N)%nat \/ (chunk_len <= length a)%nat) -> -2 <= carry_n <= 2 ->
  exists r carry, chunks_loop w k f rec_gen chunk_len c s a b carry_n = Ok (r, carry) /\
    length r = length c /\ wfw r /\
    val r + carry * BB ^ len c = val c + sgnz s * (val a * val b) + carry_n * BB ^ len b.
Proof.
  intros Hch Hb Hf Hrec. pose proof B_ge_256 as HB256.
  induction k as [|k IH]; intros c s a carry_n (Hc & Ha & _ & L) Lk LN Hdisj Hcn.
  - (* no fuel: only the tail can run *)
    cbn [chunks_loop]. destruct (Nat.leb_spec chunk_len (length a)) as [Hle|Hlt]; [lia|].
    assert (length a = O) by lia. destruct a; [|discriminate]. cbn [length] in *.
    destruct (add_signed_word_in_place w (skipn (length b) c) carry_n) as [hi carry] eqn:E1.
    destruct (add_signed_word_in_place_spec w w_pos _ carry_n (wf_skipn w _ c Hc) ltac:(lia) _ _ E1) as ((A1 & W1 & V1) & _ & K).
    destruct (Nat.leb_spec (length b) 0) as [Hb0|Hb0].
    + (* b empty as well *)
      assert (length b = O) by lia. destruct b; [|discriminate]. cbn [length skipn firstn app] in *.
      destruct Hdisj as [Hd|Hd]; [|lia].
      destruct (Hrec hi s [] [] ltac:(repeat split; auto; try apply wf_nil; cbn [length] in *; lia) ltac:(cbn [length]; lia)) as (r & cf & E & Lr & Wr & V).
      rewrite E. exists r, (carry + cf). cbn [value] in *. repeat split; auto; try lia.
      rewrite (len_eq hi c A1) in V. change (len (@nil Z)) with 0. rewrite Z.pow_0_r. lia.
    + cbn [Nat.ltb Nat.leb]. exists (firstn (length b) c ++ hi), carry.
      assert (Lsk : length (skipn (length b) c) = O) by (rewrite skipn_length; lia).
      destruct (skipn (length b) c) eqn:Esk; [|discriminate]. cbn [length] in A1. destruct hi; [|discriminate].
      rewrite app_nil_r. cbn [value] in *. change (len (@nil Z)) with 0 in V1. rewrite Z.pow_0_r in V1.
      rewrite firstn_all2 by lia. repeat split; auto. rewrite (len_eq c b) by lia. lia.
  - cbn [chunks_loop]. destruct (Nat.leb_spec chunk_len (length a)) as [Hle|Hlt].
    + (* one chunk *)
      set (n := length b) in *.
      destruct (add_signed_word_in_place w (slice n chunk_len c) carry_n) as [m1 cn1] eqn:E1.
      destruct (step_signed_word c n chunk_len carry_n m1 cn1 ltac:(lia) Hc ltac:(lia) E1) as (L1 & W1 & K1 & _ & V1).
      specialize (K1 Hch). set (c1 := splice n m1 c) in *.
      assert (Pre1 : pre (firstn (chunk_len + n) c1) (firstn chunk_len a) b).
      { repeat split; [apply wf_firstn; auto | apply wf_firstn; auto | auto | rewrite !firstn_length_le; lia]. }
      destruct (Hf _ s _ Pre1 ltac:(rewrite firstn_length_le; lia)) as (lo & cf & E2 & L2 & W2 & V2).
      rewrite E2. rewrite firstn_length_le in L2 by lia.
      pose proof (contract_carry_range _ s _ _ lo cf Pre1 ltac:(rewrite firstn_length_le; lia) W2 V2) as K2.
      set (c2 := lo ++ skipn (chunk_len + n) c1) in *.
      assert (Lc2 : length c2 = length c) by (subst c2; rewrite app_length, skipn_length; lia).
      assert (Wc2 : wfw c2) by (subst c2; apply wf_app; split; [auto | apply wf_skipn; auto]).
      assert (Vc2 : val c2 = val c1 + sgnz s * (val (firstn chunk_len a) * val b) - cf * BB ^ Z.of_nat (chunk_len + n)).
      { subst c2. rewrite value_app, (firstn_skipn_val w (chunk_len + n) c1).
        unfold len in *. rewrite firstn_length_le in * by lia. rewrite L2. lia. }
      assert (Pre3 : pre (skipn chunk_len c2) (skipn chunk_len a) b).
      { repeat split; [apply wf_skipn; auto | apply wf_skipn; auto | auto | rewrite !skipn_length; lia]. }
      destruct (IH (skipn chunk_len c2) s (skipn chunk_len a) (cn1 + cf) Pre3 ltac:(rewrite skipn_length; lia)
                  ltac:(rewrite skipn_length; lia) ltac:(left; rewrite skipn_length; lia) ltac:(lia))
        as (r & carry & E3 & L3 & W3 & V3).
      rewrite E3. exists (firstn chunk_len c2 ++ r), carry. split; [reflexivity|].
      rewrite skipn_length in L3.
      split; [rewrite app_length, firstn_length_le; lia|]. split; [apply wf_app; split; [apply wf_firstn; auto | auto]|].
      rewrite value_app. pose proof (firstn_skipn_val w chunk_len c2) as S2. pose proof (firstn_skipn_val w chunk_len a) as Sa.
      unfold len in *. rewrite firstn_length_le in * by lia. rewrite skipn_length in V3.
      replace (length c) with (chunk_len + (length c2 - chunk_len))%nat by lia.
      rewrite pow_nat_add in *. fold n in V3 |- *.
      set (Pch := BB ^ Z.of_nat chunk_len) in *. set (Pn := BB ^ Z.of_nat n) in *.
      set (Pr := BB ^ Z.of_nat (length c2 - chunk_len)) in *.
      rewrite Sa. nia.
    + (* tail *)
      destruct Hdisj as [Hd|Hd]; [|lia].
      set (n := length b) in *.
      destruct (add_signed_word_in_place w (skipn n c) carry_n) as [hi carry] eqn:E1.
      destruct (add_signed_word_in_place_spec w w_pos _ carry_n (wf_skipn w n c Hc) ltac:(lia) _ _ E1) as ((A1 & W1 & V1) & _ & _).
      set (c1 := firstn n c ++ hi) in *.
      rewrite skipn_length in A1.
      assert (Lc1 : length c1 = length c) by (subst c1; rewrite app_length, firstn_length_le; lia).
      assert (Wc1 : wfw c1) by (subst c1; apply wf_app; split; [apply wf_firstn; auto | auto]).
      assert (Vc1 : val c1 + carry * BB ^ len c = val c + carry_n * BB ^ Z.of_nat n).
      { subst c1. rewrite value_app, (firstn_skipn_val w n c). unfold len in *. rewrite firstn_length_le in * by lia.
        rewrite skipn_length in V1. replace (Z.of_nat (length c)) with (Z.of_nat (n + (length c - n))) by (f_equal; lia). rewrite pow_nat_add. nia. }
      destruct (Nat.leb_spec n (length a)) as [Hba|Hba].
      * destruct (Hrec c1 s a b ltac:(repeat split; auto; lia) ltac:(lia)) as (r & cf & E & Lr & Wr & V).
        rewrite E. exists r, (carry + cf). rewrite (len_eq c1 c Lc1) in V. repeat split; auto; try lia.
        change (len b) with (Z.of_nat n). lia.
      * destruct (Nat.ltb_spec 0 (length a)) as [Ha0|Ha0].
        -- destruct (Hrec c1 s b a ltac:(repeat split; auto; lia) ltac:(lia)) as (r & cf & E & Lr & Wr & V).
           rewrite E. exists r, (carry + cf). rewrite (len_eq c1 c Lc1) in V. repeat split; auto; try lia.
           change (len b) with (Z.of_nat n). lia.
        -- exists c1, carry. assert (length a = O) by lia. destruct a; [|discriminate]. cbn [value].
           repeat split; auto. change (len b) with (Z.of_nat n). lia.
Qed.

Lemma split_into_chunks_ok (f rec_gen : mulfn) (chunk_len N : nat) c s a b :
  (0 < chunk_len)%nat -> pre c a b ->
  (forall c s a', pre c a' b -> length a' = chunk_len -> mul_ok f c s a' b) ->
  (forall c s a' b', pre c a' b' -> (length a' + length b' < N)%nat -> mul_ok rec_gen c s a' b') ->
  (length a + length b <= N)%nat -> ((length a + length b < N)%nat \/ (chunk_len <= length a)%nat) ->
  mul_ok (split_into_chunks w f rec_gen chunk_len) c s a b.
Proof.
  intros Hch Hpre Hf Hrec LN Hd. unfold split_into_chunks, mul_ok.
  destruct Hpre as (Hc & Ha & Hb & L).
  destruct (chunks_loop_ok f rec_gen chunk_len N b Hch Hb Hf Hrec (length a) c s a 0 ltac:(repeat split; auto) (le_n _) LN Hd ltac:(lia))
    as (r & carry & E & Lr & Wr & V).
  exists r, carry. repeat split; auto. lia.
Qed.

End MulProofs.
