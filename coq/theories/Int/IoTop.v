(** C07: top-level statements about the public entry points of the text I/O, assembled from
    IoRadix (table), IoPrint / IoPow2 (digit generators), IoLayout (padding), IoParse / IoPow2
    (parsers), IoRound (specification round trip). *)
From Dashu Require Import Base.Prelude Base.Words Int.IoSpec Int.IoModel Int.IoDigits Int.IoPrint Int.IoParse
  Int.IoRadix Int.IoLayout Int.IoBytes Int.IoRound Int.IoPow2.
Open Scope Z_scope.

(** Display / Binary / Octal / LowerHex / UpperHex / in_radix(r): the model of the whole formatting
    path (dispatch on radix kind and size, digit generation, sign, prefix, padding) returns the
    specification text - or the documented panic for an invalid radix - for every integer, every
    flag combination, every word size that is even and holds the radix 36 *)
Theorem fmt_asis_correct w k f v : 0 < w -> w mod 2 = 0 -> 36 < Bw w -> fmt_asis w k f v = fmt_spec k f v.
Proof.
  intros Hw He HB. destruct (radix_valid (kind_radix k)) eqn:Ev.
  - apply fmt_asis_correct_if. apply radix_valid_range in Ev. apply digits_asis_correct; lia.
  - unfold fmt_asis, fmt_spec. rewrite Ev. reflexivity.
Qed.

(** print with the model, parse with the model: the integer comes back (IBig, any radix, any
    flags without padding) *)
Theorem print_parse_asis w r f v t : 0 < w -> w mod 2 = 0 -> 36 < Bw w -> 2 <= r <= 36 -> f_width f = None ->
  fmt_asis w (KInRadix r) f v = Ok t -> from_str_radix_asis w true r t = Ok v.
Proof.
  intros Hw He HB Hr Hf H. rewrite fmt_asis_correct in H by assumption.
  rewrite from_str_radix_asis_correct by assumption.
  apply (from_str_radix_roundtrip r ltac:(lia) ltac:(lia) f v t Hf H).
Qed.

(** instances for the three word sizes of the library *)
Example word_sizes_ok : (0 < 16 /\ 16 mod 2 = 0 /\ 36 < Bw 16) /\ (0 < 32 /\ 32 mod 2 = 0 /\ 36 < Bw 32) /\ (0 < 64 /\ 64 mod 2 = 0 /\ 36 < Bw 64).
Proof. repeat split; vm_compute; reflexivity. Qed.

Example fmt_asis_big_example :
  fmt_asis 64 KLowerHex (mkflags false true false None None [32]) (- (2 ^ 200 + 255)) = fmt_spec KLowerHex (mkflags false true false None None [32]) (- (2 ^ 200 + 255)).
Proof. apply fmt_asis_correct; vm_compute; reflexivity. Qed.
