(** C02 - div_ops.rs::repr with its ownership arms: `impl DivRem / Div / Rem <TypedRepr | TypedReprRef> for
    TypedRepr | TypedReprRef` (12 implementations), the helpers they call (div_rem_dword, div_rem_large_dword,
    div_rem_large, div_dword, div_large_dword, div_large, rem_dword, rem_large_dword, rem_large, div_rem_in_lhs)
    and the construction of the canonical result (Repr::from_buffer with Buffer::pop_zeros, from_dword,
    from_word, zero; Buffer::push_resizing, erase_front, clone_from_slice).  Definitions only.

    WHICH helper an arm calls, with which operand in which position, is REGENERATED from the source
    (coq/gen/DivDispatch.v: g_repr_divrem_arm / g_repr_div_arm / g_repr_rem_arm); the helpers are transcribed
    here over the word-level kernels of DivWordModel.v. *)
From Dashu Require Import Base.Prelude Base.Words Int.DivWordModel Int.DivMemBase Int.DivNumModular Int.DivSrcInst.
From DashuGen Require Import DivDispatch.
Open Scope Z_scope.

Section DivOwn.
Variable w : Z.
Notation B := (Words.B w).
Notation value := (Words.value w).
Variable div1by1 div2by1 div2by2 : Z -> Z -> Z * Z.
Variable div3by2 div4by2 : Z -> Z -> Z -> Z * Z.
Variable mul_sub : list Z -> list Z -> list Z -> list Z * Z.
Variable T : nat.

(** what a TypedRepr / TypedReprRef holds: a double word or a word slice (at least 3 words, top word non-zero) *)
Inductive trepr := TSmall (dw : Z) | TLarge (ws : list Z).
Definition kind_of (t : trepr) : rkind := match t with TSmall _ => KSmall | TLarge _ => KLarge end.
Definition dw_of (t : trepr) : Z := match t with TSmall d => d | TLarge _ => 0 end.
Definition ws_of (t : trepr) : list Z := match t with TLarge ws => ws | TSmall _ => [] end.
Definition tvalue (t : trepr) : Z := match t with TSmall d => d | TLarge ws => value ws end.
Definition pick (r : role) (a b : trepr) : trepr := match r with RL => a | RR => b end.

(** Buffer::pop_zeros: drop the zero words at the top (the end of the little-endian list) *)
Fixpoint strip_be (be : list Z) : list Z :=
  match be with x :: r => if x =? 0 then strip_be r else be | [] => [] end.
Definition pop_zeros (ws : list Z) : list Z := rev (strip_be (rev ws)).

(** Repr::from_buffer: pop_zeros, then 0 / 1 / 2 words are stored inline *)
Definition from_buffer (ws : list Z) : trepr :=
  match pop_zeros ws with
  | [] => TSmall 0
  | [a] => TSmall a
  | [a; b] => TSmall (a + B * b)                 (* double_word(buffer[0], buffer[1]) *)
  | l => TLarge l
  end.
Definition from_dword (d : Z) : trepr := TSmall d.
Definition from_word (x : Z) : trepr := TSmall x.
Definition r_zero : trepr := TSmall 0.

(** Buffer::push_resizing pushes a non-zero word only; erase_front(n); clone_from_slice(src) *)
Definition push_resizing (ws : list Z) (x : Z) : list Z := if x =? 0 then ws else ws ++ [x].
Definition erase_front (ws : list Z) (n : nat) : list Z := skipn n ws.
Definition clone_from_slice (dst src : list Z) : list Z := src.

(** *** helpers of the DivRem arms *)
Definition div_rem_dword (l r : Z) : result (trepr * trepr) :=          (* lhs.checked_div(rhs), lhs % rhs *)
  if r =? 0 then Panic DivideBy0 else Ok (from_dword (l / r), from_dword (l mod r)).

Definition div_rem_large_dword (buf : list Z) (rhs : Z) : result (trepr * trepr) :=
  if rhs =? 0 then Panic DivideBy0
  else if rhs <? B then                                                   (* shrink_dword(rhs) = Some(word) *)
    let '(q, r) := div_by_word w div2by1 buf rhs in Ok (from_buffer q, from_word r)
  else let '(q, r) := div_by_dword w div3by2 div4by2 buf rhs in Ok (from_buffer q, from_dword r).

(** div_rem_in_lhs: normalize(rhs), div_rem_unshifted_in_place, push_resizing(quo_carry);
    returns (lhs, the normalised rhs, shift) *)
Definition div_rem_in_lhs (fuel : nat) (lhs rhs : list Z) : result (list Z * list Z * Z) :=
  let s := lzw w 1 (highest_word w rhs) in
  let '(rhs1, _) := shl_in_place w rhs s in
  rbind (div_rem_unshifted w div3by2 mul_sub T fuel lhs rhs1 s) (fun '(lhs3, q_top) =>
  Ok (push_resizing lhs3 q_top, rhs1, s)).

Definition t_div_rem_large (lhs rhs : list Z) : result (trepr * trepr) :=
  rbind (div_rem_in_lhs (fuel_for lhs) lhs rhs) (fun '(l, rhs1, s) =>
  let n := length rhs1 in
  let '(r, _) := shr_in_place w (firstn n l) s in                         (* rhs.copy_from_slice(&lhs[..n]); shr_in_place *)
  Ok (from_buffer (erase_front l n), from_buffer r)).

(** *** Div arms *)
Definition div_dword (l r : Z) : result trepr := if r =? 0 then Panic DivideBy0 else Ok (from_dword (l / r)).
Definition div_large_dword (buf : list Z) (rhs : Z) : result trepr :=
  rbind (div_rem_large_dword buf rhs) (fun qr => Ok (fst qr)).
Definition t_div_large (lhs rhs : list Z) : result trepr :=                (* no copy, no shift back *)
  rbind (div_rem_in_lhs (fuel_for lhs) lhs rhs) (fun '(l, rhs1, _) => Ok (from_buffer (erase_front l (length rhs1)))).

(** *** Rem arms *)
Definition rem_dword (l r : Z) : result trepr := if r =? 0 then Panic DivideBy0 else Ok (from_dword (l mod r)).
Definition rem_large_dword (ws : list Z) (rhs : Z) : result trepr :=
  if rhs =? 0 then Panic DivideBy0
  else if rhs <? B then Ok (from_word (rem_by_word w div1by1 div2by1 ws rhs))
  else Ok (from_dword (rem_by_dword w div2by2 div3by2 div4by2 ws rhs)).
Definition t_rem_large (lhs rhs : list Z) : result trepr :=                (* no erase_front *)
  rbind (div_rem_in_lhs (fuel_for lhs) lhs rhs) (fun '(l, rhs1, s) =>
  let '(r, _) := shr_in_place w (firstn (length rhs1) l) s in Ok (from_buffer r)).

(** *** the dividend is shorter than the divisor: the remainder is the dividend *)
Definition short_rem (s : short_arm) (a b : trepr) : trepr :=
  match s with
  | ShortZero => r_zero
  | ShortDword r => from_dword (dw_of (pick r a b))
  | ShortBuffer r => from_buffer (ws_of (pick r a b))
  | ShortCloneInto src dst => from_buffer (clone_from_slice (ws_of (pick dst a b)) (ws_of (pick src a b)))
  end.

Definition len_ge (c0 c1 : role) (a b : trepr) : bool :=
  (length (ws_of (pick c1 a b)) <=? length (ws_of (pick c0 a b)))%nat.

(** *** the 12 implementations: the arm comes from the regenerated table *)
Definition typed_div_rem (o0 o1 : own) (a b : trepr) : result (trepr * trepr) :=
  match g_repr_divrem_arm o0 o1 (kind_of a) (kind_of b) with
  | ArmDword x y => div_rem_dword (dw_of (pick x a b)) (dw_of (pick y a b))
  | ArmLargeDword x y => div_rem_large_dword (ws_of (pick x a b)) (dw_of (pick y a b))
  | ArmShort s => Ok (r_zero, short_rem s a b)
  | ArmLargeLarge c0 c1 x y s =>
      if len_ge c0 c1 a b then t_div_rem_large (ws_of (pick x a b)) (ws_of (pick y a b)) else Ok (r_zero, short_rem s a b)
  end.

Definition typed_div (o0 o1 : own) (a b : trepr) : result trepr :=
  match g_repr_div_arm o0 o1 (kind_of a) (kind_of b) with
  | ArmDword x y => div_dword (dw_of (pick x a b)) (dw_of (pick y a b))
  | ArmLargeDword x y => div_large_dword (ws_of (pick x a b)) (dw_of (pick y a b))
  | ArmShort s => Ok (short_rem s a b)
  | ArmLargeLarge c0 c1 x y s =>
      if len_ge c0 c1 a b then t_div_large (ws_of (pick x a b)) (ws_of (pick y a b)) else Ok (short_rem s a b)
  end.

Definition typed_rem (o0 o1 : own) (a b : trepr) : result trepr :=
  match g_repr_rem_arm o0 o1 (kind_of a) (kind_of b) with
  | ArmDword x y => rem_dword (dw_of (pick x a b)) (dw_of (pick y a b))
  | ArmLargeDword x y => rem_large_dword (ws_of (pick x a b)) (dw_of (pick y a b))
  | ArmShort s => Ok (short_rem s a b)
  | ArmLargeLarge c0 c1 x y s =>
      if len_ge c0 c1 a b then t_rem_large (ws_of (pick x a b)) (ws_of (pick y a b)) else Ok (short_rem s a b)
  end.

(** the canonical representation of a magnitude, and what "canonical" means for an operand *)
Definition repr_of (v : Z) : trepr := if v <? B * B then TSmall v else TLarge (words_of w v).
Definition canon (t : trepr) : Prop :=
  match t with
  | TSmall d => 0 <= d < B * B
  | TLarge ws => Words.wf w ws /\ (3 <= length ws)%nat /\ 0 < highest_word w ws
  end.

End DivOwn.

(** the fully transcribed instance (num-modular as in barrett.rs, C01's add_signed_mul) *)
Definition s_typed_div_rem (w : Z) := typed_div_rem w (nm2by1 w) (nm3by2 w) (nm4by2 w) (c01_mul_sub w) Ts.
Definition s_typed_div (w : Z) := typed_div w (nm2by1 w) (nm3by2 w) (nm4by2 w) (c01_mul_sub w) Ts.
Definition s_typed_rem (w : Z) := typed_rem w (nm1by1 w) (nm2by1 w) (nm2by2 w) (nm3by2 w) (nm4by2 w) (c01_mul_sub w) Ts.

(** what the oracle evaluates: the values of the results of DivRem / Div / Rem for the ownership combinations
    selected by [sel] (0..3 = one of Owned/Borrowed x Owned/Borrowed, anything else = all four) *)
Definition own_pairs (sel : Z) : list (own * own) :=
  if sel =? 0 then [(Owned, Owned)] else if sel =? 1 then [(Owned, Borrowed)] else if sel =? 2 then [(Borrowed, Owned)]
  else if sel =? 3 then [(Borrowed, Borrowed)] else [(Owned, Owned); (Owned, Borrowed); (Borrowed, Owned); (Borrowed, Borrowed)].
Definition typed_values (w sel a b : Z) : list (result (list Z)) :=
  flat_map (fun oo => let '(o0, o1) := oo in
    [ rbind (s_typed_div_rem w o0 o1 (repr_of w a) (repr_of w b)) (fun qr => Ok [tvalue w (fst qr); tvalue w (snd qr)]);
      rbind (s_typed_div w o0 o1 (repr_of w a) (repr_of w b)) (fun q => Ok [tvalue w q]);
      rbind (s_typed_rem w o0 o1 (repr_of w a) (repr_of w b)) (fun r => Ok [tvalue w r]) ])
    (own_pairs sel).
