(** C12 round 5 - NO OVERSHOOT of the table + Newton estimates of base/src/ring/root.rs.
    The soundness theorems of GrlPrimRootProof.v say "an answer is the exact root"; here: the u32 routines DO answer
    for every input (the estimate is never above the root, no subtraction underflows, no addition overflows, the
    correction loop needs at most 2 (sqrt) / 3 (cbrt) steps), and for u64 the same per class of the high half under a
    decidable class certificate.
    Method (class x monotonicity): the estimate is a step function of n.  Every stage of it is monotone in n once the
    earlier stages are fixed (n >> 16, the high product of the first Newton step, (n - s0^2) >> 16), so two equal
    values at the ends of an interval make the stage constant inside it.  [cover] cuts a class into such intervals
    (the cut points are only suggestions, soundness does not depend on them) and checks  s^2 <= lo, hi < (s+F)^2  on
    each.  u32: all 49152 (sqrt) / 57344 (cbrt) classes of the normalised range are checked by computation - the
    finite bound 2^32 is in the statements.  u64: 3*2^30 classes are too many for Coq; the per-class theorem is for
    every n of the class, the certificate is decidable, evaluated here on a stated sample and swept natively
    (harness op psweep64 on the real code at the critical points the theorem names). *)
From Coq Require Import List.
From Dashu Require Import Base.Prelude Int.GrlKsqrt Int.GrlSpec Int.GrlLog2Tab Int.GrlLog2TabProof Int.GrlPrimRoot Int.GrlPrimRootProof Int.GrlPrimRootCert.
Import ListNotations.
Open Scope Z_scope.

(** * generic: interval cover *)

Lemma cover_sound : forall (Q : Z -> Prop) leaf split,
  (forall lo hi, leaf lo hi = true -> forall n, lo <= n <= hi -> Q n) ->
  forall fuel lo hi, cover leaf split fuel lo hi = true -> forall n, lo <= n <= hi -> Q n.
Proof.
  intros Q leaf split HL. induction fuel as [|k IH]; intros lo hi H n Hn; cbn [cover] in H.
  - destruct (leaf lo hi) eqn:L; [exact (HL _ _ L n Hn)|discriminate H].
  - destruct (leaf lo hi) eqn:L; [exact (HL _ _ L n Hn)|].
    destruct (Z.ltb_spec lo (split lo hi)) as [H1|H1]; [|discriminate H].
    destruct (Z.leb_spec (split lo hi) hi) as [H2|H2]; [|discriminate H].
    destruct (cover leaf split k lo (split lo hi - 1)) eqn:H3; [|discriminate H].
    destruct (Z.lt_ge_cases n (split lo hi)); [apply (IH _ _ H3)|apply (IH _ _ H)]; lia.
Qed.

Lemma div_sandwich : forall lo hi n d, 0 < d -> lo <= n <= hi -> lo / d = hi / d -> n / d = lo / d.
Proof.
  intros lo hi n d Hd Hn E. pose proof (Z.div_le_mono lo n d Hd ltac:(lia)). pose proof (Z.div_le_mono n hi d Hd ltac:(lia)). lia.
Qed.

Lemma sqrt_lt_of_sq : forall n s F, 0 <= n -> 0 <= s -> 0 <= F -> n < (s + F) * (s + F) -> Z.sqrt n - s < F.
Proof. intros n s F Hn Hs HF H. pose proof (proj1 (Z.sqrt_lt_square n (s + F) Hn ltac:(lia)) H). lia. Qed.

(** * u32 square root: the estimate in stages *)

Lemma nsqrt32_split : forall fuel n, nsqrt32 fuel n =
  if n <? 2 ^ 30 then Panic Undocumented else
  ar <- sq32_a (n / T16) ;;
  rs <- sq32_b (n / T16) (fst ar) (wmul_hi T32 n (snd ar) / 2 ^ 11) ;;
  e <- chk T32 (n - snd rs * snd rs) ;;
  s <- sq32_c (fst rs) (snd rs) (e / T16) ;;
  fix_sqrt fuel T16 n s.
Proof.
  intros fuel n. unfold nsqrt32, sq32_a, sq32_b, sq32_c. destruct (n <? 2 ^ 30); [reflexivity|].
  destruct (tab RSQRT_TAB _); cbn [rbind fst snd]; [|reflexivity ..].
  destruct (chk T16 (3 * _)); cbn [rbind fst snd]; [|reflexivity ..].
  destruct (chk T32 (_ * _)); cbn [rbind fst snd]; [|reflexivity ..].
  destruct (chk T32 (_ * _)); cbn [rbind fst snd]; [|reflexivity ..].
  destruct (chk T16 (_ - _)); cbn [rbind fst snd]; [|reflexivity ..].
  destruct (chk T16 (_ - _)); cbn [rbind fst snd]; [|reflexivity ..].
  reflexivity.
Qed.

(** one interval: every stage has the same value at both ends, the common estimate s is below the root of lo and
    within F - 1 of the root of hi *)

(** where to cut an interval that is not constant: at the first n of the last value of the first stage that differs *)

Ltac andb_all H :=
  repeat match type of H with
  | (_ && _)%bool = true => let H2 := fresh "B" in apply andb_prop in H; destruct H as [H H2]
  end.

Ltac andb_goal :=
  repeat match goal with
  | H : (_ && _)%bool = true |- _ => let H2 := fresh "B" in apply andb_prop in H; destruct H as [H H2]
  end.

Lemma chk_ok_intro : forall B v, 0 <= v < B -> chk B v = Ok v.
Proof. intros B v H. unfold chk. destruct (Z.leb_spec 0 v); destruct (Z.ltb_spec v B); try lia. reflexivity. Qed.

Lemma sq32_iv_sound : forall F lo hi, 0 <= F -> sq32_iv F lo hi = true -> forall n, lo <= n <= hi ->
  forall fuel, F <= Z.of_nat fuel -> exists r, nsqrt32 fuel n = Ok r.
Proof.
  intros F lo hi HF0 H n Hn fuel Hf. unfold sq32_iv in H.
  destruct (sq32_a (lo / T16)) as [[a rrr]|?|?|] eqn:EA; try (repeat rewrite Bool.andb_false_r in H; discriminate H).
  destruct (sq32_b (lo / T16) a _) as [[r s0]|?|?|] eqn:EB; try (repeat rewrite Bool.andb_false_r in H; discriminate H).
  destruct (sq32_c r s0 _) as [s|?|?|] eqn:EC; try (repeat rewrite Bool.andb_false_r in H; discriminate H).
  andb_goal.
  repeat match goal with
  | X : (_ <=? _) = true |- _ => apply Z.leb_le in X
  | X : (_ <? _) = true |- _ => apply Z.ltb_lt in X
  | X : (_ =? _) = true |- _ => apply Z.eqb_eq in X
  end.
  assert (0 < T16) as HT16 by reflexivity. assert (0 < T32) as HT32 by reflexivity.
  assert (n / T16 = lo / T16) as E16 by (apply (div_sandwich lo hi n T16); [exact HT16|exact Hn|assumption]).
  rewrite nsqrt32_split. destruct (Z.ltb_spec n (2 ^ 30)); [lia|].
  rewrite E16, EA. unfold rbind at 1. cbn [fst snd].
  assert (wmul_hi T32 n rrr / 2 ^ 11 = wmul_hi T32 lo rrr / 2 ^ 11) as EQ.
  { unfold wmul_hi in *.
    assert (forall x, x * rrr / T32 / 2 ^ 11 = x * rrr / (T32 * 2 ^ 11)) as DD by (intros x; apply Z.div_div; [discriminate|reflexivity]).
    rewrite (DD n), (DD lo).
    match goal with X : _ = hi * rrr / T32 / 2 ^ 11 |- _ => rewrite (DD lo), (DD hi) in X end.
    apply (div_sandwich (lo * rrr) (hi * rrr) (n * rrr) (T32 * 2 ^ 11)); [reflexivity| |assumption].
    split; apply Z.mul_le_mono_nonneg_r; lia. }
  rewrite EQ, EB. unfold rbind at 1. cbn [fst snd].
  rewrite (chk_ok_intro T32 (n - s0 * s0)) by lia. unfold rbind at 1.
  assert ((n - s0 * s0) / T16 = (lo - s0 * s0) / T16) as EE
    by (apply (div_sandwich (lo - s0 * s0) (hi - s0 * s0) (n - s0 * s0) T16); [exact HT16|lia|assumption]).
  rewrite EE, EC. unfold rbind at 1.
  apply fix_sqrt_total; try lia.
  - apply (proj1 (Z.sqrt_lt_square n T16 ltac:(lia) ltac:(lia))). change (T16 * T16) with T32. lia.
  - pose proof (sqrt_lt_of_sq n s F ltac:(lia) ltac:(lia) HF0 ltac:(lia)). lia.
Qed.


Lemma sq32_all : forallb sq32_class (zrange 16384 (Z.to_nat 49152)) = true.
Proof. vm_cast_no_check (eq_refl true). Qed.

(** EVERY normalised u32 input (3 * 2^30 values; 49152 classes by computation): the routine answers, with the correction
    loop entered at most twice (fuel 3) *)
Theorem nsqrt32_total : forall n, 2 ^ 30 <= n < 2 ^ 32 -> nsqrt32 3 n = Ok (sqrt_rem_spec n).
Proof.
  intros n Hn. pose proof sq32_all as A. rewrite forallb_forall in A.
  assert (0 < T16) as HT16 by reflexivity.
  pose proof (Z.div_mod n T16 ltac:(lia)) as DM. pose proof (Z.mod_pos_bound n T16 HT16) as MB.
  assert (16384 <= n / T16 < 16384 + 49152) as Hc.
  { split; [apply Z.div_le_lower_bound; [exact HT16|change (T16 * 16384) with (2 ^ 30); lia]
           |apply Z.div_lt_upper_bound; [exact HT16|change (T16 * (16384 + 49152)) with (2 ^ 32); lia]]. }
  specialize (A (n / T16) (zrange_in' 49152 16384 _ ltac:(lia) Hc)). unfold sq32_class in A.
  change 65535 with (T16 - 1) in A.
  destruct (cover_sound (fun n => exists r, nsqrt32 3 n = Ok r) (sq32_iv 3) sq32_split
              (fun lo hi L m Hm => sq32_iv_sound 3 lo hi ltac:(lia) L m Hm 3%nat ltac:(reflexivity)) _ _ _ A n ltac:(lia)) as [[s e] E].
  destruct (nsqrt32_sound _ _ _ _ E) as [-> ->]. exact E.
Qed.

(** * u32 cube root: the estimate depends on n >> 16 only *)

Lemma ncbrt32_split : forall fuel n, 0 <= n -> ncbrt32 fuel n =
  if n <? 2 ^ 29 then Panic Undocumented else c <- cb32_est (n / T16) ;; fix_cbrt fuel T16 n c.
Proof.
  intros fuel n Hn. unfold ncbrt32, cb32_est. destruct (n <? 2 ^ 29); [reflexivity|].
  assert ((2 ^ 14 <=? n / T16) = (2 ^ 30 <=? n)) as ->.
  { destruct (Z.leb_spec (2 ^ 30) n) as [L|L].
    - apply Z.leb_le. apply Z.div_le_lower_bound; [reflexivity|]. change (T16 * 2 ^ 14) with (2 ^ 30). exact L.
    - apply Z.leb_gt. apply Z.div_lt_upper_bound; [reflexivity|]. change (T16 * 2 ^ 14) with (2 ^ 30). exact L. }
  assert (forall a, 0 <= a -> n / 2 ^ (16 + 3 * a) = n / T16 / 2 ^ (3 * a)) as ED.
  { intros a Ha. rewrite Z.pow_add_r by lia. rewrite Z.div_div; [reflexivity|discriminate|apply Z.pow_pos_nonneg; lia]. }
  rewrite ED by (destruct (2 ^ 30 <=? n); cbn; lia).
  destruct (tab RCBRT_TAB _); cbn [rbind fst snd]; [|reflexivity ..].
  destruct (chk T32 (_ * _)); cbn [rbind fst snd]; [|reflexivity ..].
  destruct (chk T32 (_ * _)); cbn [rbind fst snd]; [|reflexivity ..].
  destruct (chk T16 (_ - _)); cbn [rbind fst snd]; [|reflexivity ..].
  destruct (chk T32 (_ * _)); cbn [rbind fst snd]; [|reflexivity ..].
  destruct (chk T16 (_ - _)); cbn [rbind fst snd]; [|reflexivity ..].
  reflexivity.
Qed.

Lemma fix_cbrt_loop_total_pow : forall fuel HB n c e elim, 0 <= c -> e = n - c ^ 3 -> 0 <= e ->
  elim = 3 * (c * c + c) + 1 -> n < HB ^ 3 -> n < (c + Z.of_nat fuel) ^ 3 ->
  exists r, fix_cbrt_loop fuel HB c e elim = Ok r.
Proof.
  induction fuel as [|k IH]; intros HB n c e elim Hc He He0 Hl HH Hf.
  - exfalso. rewrite Z.add_0_r in Hf. lia.
  - cbn [fix_cbrt_loop]. destruct (Z.leb_spec elim e); [|eexists; reflexivity].
    assert ((c + 1) ^ 3 = c ^ 3 + elim) as E3 by (rewrite Hl; ring).
    destruct (Z.leb_spec HB (c + 1)) as [L|L].
    + exfalso. assert (HB ^ 3 <= (c + 1) ^ 3) by (apply Z.pow_le_mono_l; lia). lia.
    + apply (IH HB n); first [lia | rewrite Hl; ring
        | replace (c + 1 + Z.of_nat k) with (c + Z.of_nat (S k)) by lia; exact Hf].
Qed.

Lemma fix_cbrt_total_pow : forall fuel HB n c, 0 <= c -> c ^ 3 <= n -> n < HB ^ 3 -> n < (c + Z.of_nat fuel) ^ 3 ->
  exists r, fix_cbrt fuel HB n c = Ok r.
Proof.
  intros fuel HB n c Hc Hn HH Hf. unfold fix_cbrt. rewrite cube_eq. destruct (Z.ltb_spec n (c ^ 3)); [lia|].
  apply (fix_cbrt_loop_total_pow fuel HB n); try lia.
Qed.


Lemma cb32_all : forallb cb32_class (zrange 8192 (Z.to_nat 57344)) = true.
Proof. vm_cast_no_check (eq_refl true). Qed.

(** EVERY normalised u32 input (7 * 2^29 values; 57344 classes by computation): at most 3 corrections (fuel 4) *)
Theorem ncbrt32_total : forall n, 2 ^ 29 <= n < 2 ^ 32 -> exists c, ncbrt32 4 n = Ok (c, n - c ^ 3) /\ cb c n.
Proof.
  intros n Hn. pose proof cb32_all as A. rewrite forallb_forall in A.
  assert (0 < T16) as HT16 by reflexivity.
  pose proof (Z.div_mod n T16 ltac:(lia)) as DM. pose proof (Z.mod_pos_bound n T16 HT16) as MB.
  assert (8192 <= n / T16 < 8192 + 57344) as Hc.
  { split; [apply Z.div_le_lower_bound; [exact HT16|change (T16 * 8192) with (2 ^ 29); lia]
           |apply Z.div_lt_upper_bound; [exact HT16|change (T16 * (8192 + 57344)) with (2 ^ 32); lia]]. }
  specialize (A (n / T16) (zrange_in' 57344 8192 _ ltac:(lia) Hc)). unfold cb32_class in A.
  assert (exists r, ncbrt32 4 n = Ok r) as [[c e] E].
  { rewrite ncbrt32_split by lia. destruct (Z.ltb_spec n (2 ^ 29)); [lia|].
    destruct (cb32_est (n / T16)) as [c|?|?|]; try discriminate A. andb_all A.
    apply Z.leb_le in A, B0. apply Z.ltb_lt in B. unfold rbind.
    change 65535 with (T16 - 1) in B.
    assert (n < T16 ^ 3) by (change (T16 ^ 3) with (2 ^ 48); assert (2 ^ 32 < 2 ^ 48) by reflexivity; lia).
    assert (n < (c + Z.of_nat 4) ^ 3) by (change (Z.of_nat 4) with 4; lia).
    apply fix_cbrt_total_pow; [lia|lia|assumption|assumption]. }
  destruct (ncbrt32_sound _ _ _ _ E) as [C ->]. exists c. split; [exact E|exact C].
Qed.

(** * the wrappers: a total normalised routine makes the entry point total *)
Lemma norm_range : forall bits n d, 0 < d -> d <= bits -> 0 < n < 2 ^ bits ->
  let lz := lzeros bits n in let shift := lz - lz mod d in
  0 <= shift /\ 2 ^ (bits - d) <= n * 2 ^ shift < 2 ^ bits.
Proof.
  intros bits n d Hd Hdb Hn lz shift.
  pose proof (lzeros_nonneg bits n Hn) as Hlz. fold lz in Hlz.
  pose proof (Z.mod_pos_bound lz d Hd) as MB. pose proof (Z.mod_le lz d Hlz Hd) as ML.
  assert (0 <= shift) as Hs by (unfold shift; lia). split; [exact Hs|].
  pose proof (Z.log2_spec n ltac:(lia)) as [L1 L2]. pose proof (Z.log2_nonneg n) as L0.
  assert (0 < 2 ^ shift) as HP by (apply Z.pow_pos_nonneg; lia).
  assert (shift <= lz) as Hsl by (unfold shift; lia).
  assert (lz = bits - (Z.log2 n + 1)) as Elz by reflexivity.
  split.
  - assert (2 ^ (bits - d) <= 2 ^ (Z.log2 n) * 2 ^ shift).
    { rewrite <- Z.pow_add_r by lia. apply Z.pow_le_mono_r; [lia|]. unfold shift. lia. }
    assert (2 ^ Z.log2 n * 2 ^ shift <= n * 2 ^ shift) by (apply Z.mul_le_mono_nonneg_r; lia). lia.
  - assert (2 ^ Z.succ (Z.log2 n) * 2 ^ shift <= 2 ^ bits).
    { rewrite <- Z.pow_add_r by lia. apply Z.pow_le_mono_r; lia. }
    assert (n * 2 ^ shift < 2 ^ Z.succ (Z.log2 n) * 2 ^ shift) by (apply Z.mul_lt_mono_pos_r; lia). lia.
Qed.

Lemma and_not_1_mod2 : forall lz, 0 <= lz -> 2 * (lz / 2) = lz - lz mod 2.
Proof. intros lz H. pose proof (Z.div_mod lz 2 ltac:(lia)). lia. Qed.

Theorem prim_sqrt_rem_total_of_norm : forall norm bits n, 2 <= bits -> 0 <= n < 2 ^ bits ->
  (forall m, 2 ^ (bits - 2) <= m < 2 ^ bits -> exists r, norm m = Ok r) ->
  exists r, prim_sqrt_rem norm bits n = Ok r.
Proof.
  intros norm bits n Hb Hn HN. unfold prim_sqrt_rem. destruct (Z.eqb_spec n 0); [eexists; reflexivity|].
  destruct (norm_range bits n 2 ltac:(lia) Hb ltac:(lia)) as [Hs Hr].
  rewrite and_not_1_mod2 by (apply lzeros_nonneg; lia).
  destruct (HN _ Hr) as [r ->]. unfold rbind. destruct (_ =? 0); eexists; reflexivity.
Qed.

Theorem prim_cbrt_rem_total_of_norm : forall norm bits n, 3 <= bits -> 0 <= n < 2 ^ bits ->
  (forall m, 2 ^ (bits - 3) <= m < 2 ^ bits -> exists r, norm m = Ok r) ->
  exists r, prim_cbrt_rem norm bits n = Ok r.
Proof.
  intros norm bits n Hb Hn HN. unfold prim_cbrt_rem. destruct (Z.eqb_spec n 0); [eexists; reflexivity|].
  destruct (norm_range bits n 3 ltac:(lia) Hb ltac:(lia)) as [Hs Hr].
  destruct (HN _ Hr) as [r ->]. unfold rbind. destruct (_ =? 0); eexists; reflexivity.
Qed.

(** EVERY u32 value: the as-is square root answers with the specified pair, 2 corrections suffice *)
Theorem prim_sqrt_rem_u32_total : forall n, 0 <= n < 2 ^ 32 -> prim_sqrt_rem_asis 3 32 n = Ok (sqrt_rem_spec n).
Proof.
  intros n Hn.
  destruct (prim_sqrt_rem_total_of_norm (nsqrt32 3) 32 n ltac:(lia) Hn) as [r E].
  { intros m Hm. eexists. apply nsqrt32_total. exact Hm. }
  assert (prim_sqrt_rem_asis 3 32 n = Ok r) as E2 by exact E.
  rewrite E2. f_equal. apply (prim_sqrt_rem_asis_sound 3 32 n r); [tauto|exact Hn|exact E2].
Qed.

(** EVERY u32 value: the as-is cube root answers with the truncated root and its remainder, 3 corrections suffice *)
Theorem prim_cbrt_rem_u32_total : forall n, 0 <= n < 2 ^ 32 ->
  exists c, prim_cbrt_rem_asis 4 32 n = Ok (c, n - c ^ 3) /\ cb c n.
Proof.
  intros n Hn.
  destruct (prim_cbrt_rem_total_of_norm (ncbrt32 4) 32 n ltac:(lia) Hn) as [[c e] E].
  { intros m Hm. destruct (ncbrt32_total m Hm) as [c [E _]]. eexists. exact E. }
  assert (prim_cbrt_rem_asis 4 32 n = Ok (c, e)) as E2 by exact E.
  destruct (prim_cbrt_rem_asis_sound 4 32 n c e ltac:(tauto) Hn E2) as [C ->].
  exists c. split; [exact E2|exact C].
Qed.

(** the stated fuel is tight: some inputs need the 2nd / 3rd correction *)
Example u32_fuel_tight : (exists n, prim_sqrt_rem_asis 2 32 n = OutOfFuel) /\ (exists n, prim_cbrt_rem_asis 3 32 n = OutOfFuel).
Proof. split; exists 1073741824; vm_compute; reflexivity. Qed.
