(** C01 round 5: the regenerated multiplication stack (coq/gen/MulBodiesGen.v: dispatch, chunk loop, Karatsuba step,
    wrappers, sqr, tied by the generated fuel knot) as the correspondence run evaluates it - Toom-3 step = the hand
    word-level model (not regenerated).  Definitions only. *)
From Dashu Require Import Base.Prelude Base.Words Int.RingAdd Int.RingMul Int.RingToomW Int.DivWordModel Int.RingMulW.
From DashuGen Require Import WordKernelsGen MulBodiesGen.
Open Scope Z_scope.

Section Run.
Variable w : Z.
Variable div2by1 : Z -> Z -> Z * Z.
Definition gen_toom : mulfn -> mulfn := toom3x_same_len w div2by1.
Definition gen_rec_same : mulfn := mul_add_signed_mul_same_len_gen w gen_toom.
Definition gen_rec_gen : mulfn := mul_add_signed_mul_gen w gen_toom.
(** verif_hooks::mul_kernel which = 0 (dispatch), 1, 2, 3 through the generated bodies *)
Definition kmul_bodies_gen (which : Z) : mulfn :=
  if which =? 0 then gen_rec_gen
  else if which =? 1 then simple_add_signed_mul_gen w gen_rec_same gen_rec_gen
  else if which =? 2 then karatsuba_add_signed_mul_gen w gen_rec_same gen_rec_gen
  else toom_3_add_signed_mul_gen w gen_toom gen_rec_same gen_rec_gen.
Definition ksqr_bodies_gen (a : list Z) : result (list Z) :=
  sqr_sqr_gen w gen_rec_same gen_rec_gen (repeat 0 (2 * length a)) a.
End Run.
