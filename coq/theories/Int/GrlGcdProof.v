(** C12 - the primitive gcd / extended gcd of base/src/ring/gcd.rs (as-is models of GrlModel.v)
    equal the specification for all inputs and every type width. *)
From Dashu Require Import Base.Prelude Int.GrlSpec Int.GrlModel Int.GrlSpecProof Int.GrlRemoveProof.
From Coq Require Import Znumtheory.
Open Scope Z_scope.

(** * odd numbers and powers of two *)
Lemma odd_divisor : forall q b, Z.odd b = true -> (q | b) -> Z.odd q = true.
Proof.
  intros q b Hb [c Hc]. subst b. rewrite Z.odd_mul in Hb. apply andb_prop in Hb. tauto.
Qed.

Lemma odd_gcd2 : forall q, Z.odd q = true -> Z.gcd q 2 = 1.
Proof.
  intros q Hq. pose proof (Z.gcd_nonneg q 2) as G0.
  destruct (Z.gcd_divide_r q 2) as [c Hc]. destruct (Z.gcd_divide_l q 2) as [d Hd].
  set (g := Z.gcd q 2) in *.
  assert (g <= 2) by (apply Z.divide_pos_le; [lia | exists c; exact Hc]).
  assert (g <> 0) by (intros Z0; rewrite Z0 in Hc; lia).
  assert (g = 1 \/ g = 2) as [E|E] by lia; [exact E|exfalso].
  rewrite E in Hd. rewrite Hd, Z.odd_mul in Hq. cbn in Hq. rewrite andb_false_r in Hq. discriminate.
Qed.

Lemma gcd_odd_mul2 : forall m b, Z.odd b = true -> Z.gcd (2 * m) b = Z.gcd m b.
Proof.
  intros m b Hb. apply Z.gcd_unique.
  - apply Z.gcd_nonneg.
  - apply Z.divide_mul_r. apply Z.gcd_divide_l.
  - apply Z.gcd_divide_r.
  - intros q Hq1 Hq2. apply Z.gcd_greatest; [|exact Hq2].
    apply (Z.gauss q 2 m Hq1). apply odd_gcd2. exact (odd_divisor q b Hb Hq2).
Qed.

Lemma gcd_odd_pow2 : forall k m b, 0 <= k -> Z.odd b = true -> Z.gcd (m * 2 ^ k) b = Z.gcd m b.
Proof.
  intros k m b Hk Hb. revert m. pattern k. apply natlike_ind; [| |exact Hk].
  - intros m. rewrite Z.pow_0_r, Z.mul_1_r. reflexivity.
  - intros j Hj IH m. rewrite Z.pow_succ_r by exact Hj.
    replace (m * (2 * 2 ^ j)) with (2 * (m * 2 ^ j)) by ring. rewrite gcd_odd_mul2 by exact Hb. apply IH.
Qed.

Lemma odd_pos_mul_pow2_odd : forall m k, Z.odd (m * 2 ^ k) = true -> 0 <= k -> k = 0.
Proof.
  intros m k H Hk. destruct (Z.eq_dec k 0) as [E|NE]; [exact E|exfalso].
  replace k with (Z.succ (k - 1)) in H by lia. rewrite Z.pow_succ_r in H by lia.
  replace (m * (2 * 2 ^ (k - 1))) with (2 * (m * 2 ^ (k - 1))) in H by ring.
  rewrite Z.odd_mul in H. cbn in H. discriminate.
Qed.

(** the decomposition odd * 2^k is unique *)
Lemma odd_pow2_unique : forall m k m' k', Z.odd m = true -> Z.odd m' = true -> 0 <= k -> 0 <= k' ->
  m * 2 ^ k = m' * 2 ^ k' -> k = k'.
Proof.
  assert (forall m k m' k', Z.odd m = true -> 0 <= k -> k < k' -> m * 2 ^ k = m' * 2 ^ k' -> False) as K.
  { intros m k m' k' Hm Hk Hlt E.
    replace k' with (k + (k' - k)) in E by lia. rewrite Z.pow_add_r in E by lia.
    assert (0 < 2 ^ k) by (apply Z.pow_pos_nonneg; lia).
    assert (m = m' * 2 ^ (k' - k)) as Em by nia.
    rewrite Em in Hm. apply odd_pos_mul_pow2_odd in Hm; lia. }
  intros m k m' k' Hm Hm' Hk Hk' E.
  destruct (Z.lt_trichotomy k k') as [L|[L|L]]; [exfalso|exact L|exfalso].
  - exact (K m k m' k' Hm Hk L E).
  - exact (K m' k' m k Hm' Hk' L (eq_sym E)).
Qed.

Lemma tz_unique : forall m k, Z.odd m = true -> 0 < m -> 0 <= k -> tz (m * 2 ^ k) = k.
Proof.
  intros m k Hm Hp Hk. assert (0 < m * 2 ^ k) as Hx by (apply Z.mul_pos_pos; [lia | apply Z.pow_pos_nonneg; lia]).
  destruct (tz_spec _ Hx) as [m' [M1 [M2 [M3 M4]]]].
  symmetry. exact (odd_pow2_unique m k m' _ Hm M1 Hk M3 M4).
Qed.

Lemma strip2_spec : forall x, 0 < x -> Z.odd (strip2 x) = true /\ 0 < strip2 x /\ x = strip2 x * 2 ^ tz x /\ 0 <= tz x.
Proof.
  intros x Hx. destruct (tz_spec x Hx) as [m [M1 [M2 [M3 M4]]]]. unfold strip2.
  assert (x / 2 ^ tz x = m) as E.
  { rewrite M4 at 1. apply Z.div_mul. apply Z.pow_nonzero; lia. }
  rewrite E. auto.
Qed.

Lemma strip2_le : forall x, 0 < x -> strip2 x <= x.
Proof.
  intros x Hx. destruct (strip2_spec x Hx) as [_ [P [E T]]].
  assert (1 <= 2 ^ tz x) by (pose proof (Z.pow_pos_nonneg 2 (tz x)); lia). nia.
Qed.

Lemma gcd_strip2_l : forall x b, 0 < x -> Z.odd b = true -> Z.gcd (strip2 x) b = Z.gcd x b.
Proof.
  intros x b Hx Hb. destruct (strip2_spec x Hx) as [_ [_ [E T]]].
  rewrite E at 2. symmetry. apply gcd_odd_pow2; assumption.
Qed.

(** * UncheckedGcd::unchecked_gcd - the binary algorithm *)
Theorem binary_gcd_correct : forall fuel a b g, 0 < a -> 0 < b -> Z.odd a = true -> Z.odd b = true ->
  binary_gcd fuel a b = Ok g -> g = Z.gcd a b.
Proof.
  induction fuel as [|k IH]; intros a b g Ha Hb Oa Ob H; cbn [binary_gcd] in H; [discriminate|].
  destruct (Z.eqb_spec a b) as [E|NE].
  - injection H as <-. subst b. rewrite Z.gcd_diag. lia.
  - destruct (Z.ltb_spec b a) as [L|L].
    + destruct (strip2_spec (a - b) ltac:(lia)) as [O1 [P1 _]].
      rewrite (IH _ _ _ P1 Hb O1 Ob H). rewrite gcd_strip2_l by (try lia; assumption).
      rewrite Z.gcd_comm, Z.gcd_sub_diag_r. apply Z.gcd_comm.
    + destruct (strip2_spec (b - a) ltac:(lia)) as [O1 [P1 _]].
      rewrite (IH _ _ _ Ha P1 Oa O1 H). rewrite (Z.gcd_comm a (strip2 (b - a))), gcd_strip2_l by (try lia; assumption).
      rewrite Z.gcd_comm. apply Z.gcd_sub_diag_r.
Qed.

(** the sum of the operands strictly decreases: fuel a + b is enough *)
Theorem binary_gcd_terminates : forall fuel a b, 0 < a -> 0 < b -> a + b <= Z.of_nat fuel ->
  exists g, binary_gcd fuel a b = Ok g.
Proof.
  induction fuel as [|k IH]; intros a b Ha Hb Hf; [cbn in Hf; lia|].
  cbn [binary_gcd]. destruct (Z.eqb_spec a b) as [E|NE]; [eauto|].
  destruct (Z.ltb_spec b a) as [L|L].
  - pose proof (strip2_le (a - b) ltac:(lia)). destruct (strip2_spec (a - b) ltac:(lia)) as [_ [P1 _]].
    apply IH; lia.
  - pose proof (strip2_le (b - a) ltac:(lia)). destruct (strip2_spec (b - a) ltac:(lia)) as [_ [P1 _]].
    apply IH; lia.
Qed.

(** * Gcd::gcd for primitives: common power of two, division shortcut, binary algorithm *)
Lemma tz_lor : forall a b, 0 < a -> 0 < b -> tz (Z.lor a b) = Z.min (tz a) (tz b).
Proof.
  assert (forall a b, 0 < a -> 0 < b -> tz a <= tz b -> tz (Z.lor a b) = tz a) as K.
  { intros a b Ha Hb L.
    destruct (strip2_spec a Ha) as [Oa [Pa [Ea Ta]]]. destruct (strip2_spec b Hb) as [Ob [Pb [Eb Tb]]].
    set (ma := strip2 a) in *. set (mb := strip2 b) in *. set (ka := tz a) in *. set (kb := tz b) in *.
    assert (Z.lor a b = Z.lor ma (mb * 2 ^ (kb - ka)) * 2 ^ ka) as E.
    { rewrite <- !Z.shiftl_mul_pow2 by lia. rewrite Z.shiftl_lor. rewrite !Z.shiftl_mul_pow2 by lia.
      f_equal; [exact Ea|]. rewrite Eb. rewrite <- Z.mul_assoc, <- Z.pow_add_r by lia. do 2 f_equal. lia. }
    rewrite E. apply tz_unique; [| |exact Ta].
    - rewrite <- Z.bit0_odd, Z.lor_spec, Z.bit0_odd, Oa. reflexivity.
    - assert (0 <= mb * 2 ^ (kb - ka)) by (apply Z.mul_nonneg_nonneg; [lia | apply Z.pow_nonneg; lia]).
      pose proof (Z.lor_nonneg ma (mb * 2 ^ (kb - ka))) as LN.
      assert (Z.lor ma (mb * 2 ^ (kb - ka)) <> 0).
      { intros C. apply Z.lor_eq_0_iff in C. lia. }
      lia. }
  intros a b Ha Hb. destruct (Z_le_gt_dec (tz a) (tz b)) as [L|L].
  - rewrite Z.min_l by exact L. apply K; assumption.
  - rewrite Z.min_r by lia. rewrite Z.lor_comm. apply K; [assumption | assumption | lia].
Qed.

Lemma gcd_common_pow2 : forall a b, 0 < a -> 0 < b ->
  Z.gcd a b = Z.gcd (strip2 a) (strip2 b) * 2 ^ tz (Z.lor a b).
Proof.
  assert (forall a b, 0 < a -> 0 < b -> tz a <= tz b ->
            Z.gcd a b = Z.gcd (strip2 a) (strip2 b) * 2 ^ tz a) as K.
  { intros a b Ha Hb L.
    destruct (strip2_spec a Ha) as [Oa [Pa [Ea Ta]]]. destruct (strip2_spec b Hb) as [Ob [Pb [Eb Tb]]].
    set (ma := strip2 a) in *. set (mb := strip2 b) in *. set (ka := tz a) in *. set (kb := tz b) in *.
    rewrite Ea at 1. rewrite Eb at 1.
    replace (mb * 2 ^ kb) with (mb * 2 ^ (kb - ka) * 2 ^ ka)
      by (rewrite <- Z.mul_assoc, <- Z.pow_add_r by lia; do 2 f_equal; lia).
    rewrite Z.gcd_mul_mono_r_nonneg by (apply Z.pow_nonneg; lia). f_equal.
    rewrite Z.gcd_comm, gcd_odd_pow2 by (try lia; assumption). apply Z.gcd_comm. }
  intros a b Ha Hb. rewrite tz_lor by assumption. destruct (Z_le_gt_dec (tz a) (tz b)) as [L|L].
  - rewrite Z.min_l by exact L. apply K; assumption.
  - rewrite Z.min_r by lia. rewrite Z.gcd_comm, (Z.gcd_comm (strip2 a)). apply K; [assumption | assumption | lia].
Qed.

Theorem prim_gcd_asis_correct : forall fuel bits a b g, 0 <= a -> 0 <= b ->
  prim_gcd_asis fuel bits a b = Ok g -> gcd_spec a b = Ok g.
Proof.
  intros fuel bits a b g Ha Hb H. unfold prim_gcd_asis, gcd_spec in *.
  destruct (Z.eqb_spec a 0) as [A0|A0]; destruct (Z.eqb_spec b 0) as [B0|B0]; cbn [orb andb] in *; try discriminate.
  - injection H as <-. subst a. rewrite Z.lor_0_l, Z.gcd_0_l, Z.abs_eq by lia. reflexivity.
  - injection H as <-. subst b. rewrite Z.lor_0_r, Z.gcd_0_r, Z.abs_eq by lia. reflexivity.
  - assert (0 < a) as Pa by lia. assert (0 < b) as Pb by lia.
    rewrite (gcd_common_pow2 a b Pa Pb).
    destruct (strip2_spec a Pa) as [Oa [Pa1 _]]. destruct (strip2_spec b Pb) as [Ob [Pb1 _]].
    set (a1 := strip2 a) in *. set (b1 := strip2 b) in *. set (sh := tz (Z.lor a b)) in *.
    assert (forall x y g0, 0 < x -> 0 < y -> Z.odd x = true -> Z.odd y = true ->
              rbind (binary_gcd fuel x y) (fun g => Ok (g * 2 ^ sh)) = Ok g0 -> g0 = Z.gcd x y * 2 ^ sh) as BG.
    { intros x y g0 Hx Hy Ox Oy HB. destruct (binary_gcd fuel x y) as [g1| | |] eqn:E; cbn [rbind] in HB; try discriminate.
      injection HB as <-. f_equal. exact (binary_gcd_correct _ _ _ _ Hx Hy Ox Oy E). }
    destruct (bits - bit_len b1 + 3 <? bits - bit_len a1).
    { pose proof (Z.mod_pos_bound b1 a1 Pa1) as MB.
      destruct (Z.eqb_spec (b1 mod a1) 0) as [R0|R0].
      - injection H as <-. do 2 f_equal. apply Z.mod_divide in R0; [|lia].
        apply Z.gcd_unique; [lia | apply Z.divide_refl | exact R0 | auto].
      - destruct (strip2_spec (b1 mod a1) ltac:(lia)) as [Or [Pr _]].
        apply BG in H; try assumption. rewrite H. do 2 f_equal. symmetry.
        rewrite (Z.gcd_comm a1 (strip2 (b1 mod a1))), gcd_strip2_l by (try lia; assumption).
        rewrite Z.gcd_mod by lia. reflexivity. }
    destruct (bits - bit_len a1 + 4 <? bits - bit_len b1).
    { pose proof (Z.mod_pos_bound a1 b1 Pb1) as MB.
      destruct (Z.eqb_spec (a1 mod b1) 0) as [R0|R0].
      - injection H as <-. do 2 f_equal. apply Z.mod_divide in R0; [|lia].
        apply Z.gcd_unique; [lia | exact R0 | apply Z.divide_refl | auto].
      - destruct (strip2_spec (a1 mod b1) ltac:(lia)) as [Or [Pr _]].
        apply BG in H; try assumption. rewrite H. do 2 f_equal. symmetry.
        rewrite gcd_strip2_l by (try lia; assumption). rewrite Z.gcd_mod by lia. apply Z.gcd_comm. }
    apply BG in H; try assumption. rewrite H. reflexivity.
Qed.

Theorem prim_gcd_asis_panics : forall fuel bits a b r,
  prim_gcd_asis fuel bits a b = Panic r -> gcd_spec a b = Panic r.
Proof.
  intros fuel bits a b r H. unfold prim_gcd_asis, gcd_spec in *.
  assert (forall k x y, binary_gcd k x y <> Panic r) as NB.
  { induction k; intros x y; cbn [binary_gcd]; [discriminate|].
    destruct (x =? y); [discriminate|]. destruct (y <? x); apply IHk. }
  assert (forall x y sh, rbind (binary_gcd fuel x y) (fun g => Ok (g * 2 ^ sh)) <> Panic r) as NR.
  { intros x y sh C. destruct (binary_gcd fuel x y) eqn:E; cbn [rbind] in C; try discriminate.
    injection C as ->. exact (NB _ _ _ E). }
  destruct ((a =? 0) || (b =? 0)).
  - destruct ((a =? 0) && (b =? 0)); [exact H|discriminate].
  - exfalso. repeat match type of H with
    | (if ?c then _ else _) = _ => destruct c
    end; try discriminate; exact (NR _ _ _ H).
Qed.

Theorem prim_gcd_asis_terminates : forall fuel bits a b, 0 <= a -> 0 <= b -> a + b <= Z.of_nat fuel ->
  prim_gcd_asis fuel bits a b <> OutOfFuel.
Proof.
  intros fuel bits a b Ha Hb Hf. unfold prim_gcd_asis.
  destruct (Z.eqb_spec a 0) as [A0|A0]; destruct (Z.eqb_spec b 0) as [B0|B0]; cbn [orb andb]; try discriminate.
  assert (0 < a) as Pa by lia. assert (0 < b) as Pb by lia.
  destruct (strip2_spec a Pa) as [Oa [Pa1 _]]. destruct (strip2_spec b Pb) as [Ob [Pb1 _]].
  pose proof (strip2_le a Pa). pose proof (strip2_le b Pb).
  set (a1 := strip2 a) in *. set (b1 := strip2 b) in *. set (sh := tz (Z.lor a b)) in *.
  assert (forall x y, 0 < x -> 0 < y -> x + y <= a + b ->
            rbind (binary_gcd fuel x y) (fun g => Ok (g * 2 ^ sh)) <> OutOfFuel) as BG.
  { intros x y Hx Hy Hs. destruct (binary_gcd_terminates fuel x y Hx Hy ltac:(lia)) as [g ->]. discriminate. }
  destruct (bits - bit_len b1 + 3 <? bits - bit_len a1).
  { pose proof (Z.mod_pos_bound b1 a1 Pa1) as MB.
    destruct (Z.eqb_spec (b1 mod a1) 0) as [R0|R0]; [discriminate|].
    pose proof (strip2_le (b1 mod a1) ltac:(lia)). destruct (strip2_spec (b1 mod a1) ltac:(lia)) as [_ [Pr _]].
    pose proof (Z.mod_le b1 a1 ltac:(lia) Pa1). apply BG; lia. }
  destruct (bits - bit_len a1 + 4 <? bits - bit_len b1).
  { pose proof (Z.mod_pos_bound a1 b1 Pb1) as MB.
    destruct (Z.eqb_spec (a1 mod b1) 0) as [R0|R0]; [discriminate|].
    pose proof (strip2_le (a1 mod b1) ltac:(lia)). destruct (strip2_spec (a1 mod b1) ltac:(lia)) as [_ [Pr _]].
    pose proof (Z.mod_le a1 b1 ltac:(lia) Pb1). apply BG; lia. }
  apply BG; lia.
Qed.

Example prim_gcd_asis_ex : prim_gcd_asis 100 8 12 18 = Ok 6 /\ prim_gcd_asis 3000 16 16 2032 = Ok 16 /\
  prim_gcd_asis 10 8 0 0 = Panic GcdZeroZero.
Proof. repeat split; vm_compute; reflexivity. Qed.

(** * UncheckedExtendedGcd::unchecked_gcd_ext - Euclid with cofactors *)
Theorem euclid_ext_correct : forall fuel a b last_r r last_s s last_t t g cs ct,
  0 < r -> 0 <= last_r ->
  last_r = a * last_s + b * last_t -> r = a * s + b * t -> Z.gcd last_r r = Z.gcd a b ->
  euclid_ext fuel last_r r last_s s last_t t = Ok (g, cs, ct) ->
  g = Z.gcd a b /\ cs * a + ct * b = g.
Proof.
  induction fuel as [|k IH]; intros a b last_r r last_s s last_t t g cs ct Hr Hl E1 E2 EG H;
    cbn [euclid_ext] in H; [discriminate|].
  pose proof (Z.div_mod last_r r ltac:(lia)) as DM. pose proof (Z.mod_pos_bound last_r r Hr) as MB.
  assert (last_r - last_r / r * r = last_r mod r) as EM by lia. rewrite EM in H.
  destruct (Z.eqb_spec (last_r mod r) 0) as [R0|R0].
  - injection H as <- <- <-. split; [|lia]. rewrite <- EG. symmetry.
    apply Z.mod_divide in R0; [|lia].
    apply Z.gcd_unique; [lia | exact R0 | apply Z.divide_refl | auto].
  - apply (IH a b) in H; [exact H | lia | lia | exact E2 | | ].
    + rewrite <- EM. rewrite E1 at 1. rewrite E2 at 2. ring.
    + rewrite <- EG. rewrite (Z.gcd_comm r (last_r mod r)), Z.gcd_mod by lia. apply Z.gcd_comm.
Qed.

Theorem euclid_ext_terminates : forall fuel last_r r last_s s last_t t, 0 < r -> r < Z.of_nat fuel ->
  exists res, euclid_ext fuel last_r r last_s s last_t t = Ok res.
Proof.
  induction fuel as [|k IH]; intros last_r r last_s s last_t t Hr Hf; [cbn in Hf; lia|].
  cbn [euclid_ext].
  pose proof (Z.div_mod last_r r ltac:(lia)) as DM. pose proof (Z.mod_pos_bound last_r r Hr) as MB.
  assert (last_r - last_r / r * r = last_r mod r) as EM by lia. rewrite EM.
  destruct (Z.eqb_spec (last_r mod r) 0) as [R0|R0]; [eauto|]. apply IH; lia.
Qed.

(** * ExtendedGcd::gcd_ext for primitives: the answer passes the complete certificate *)
Lemma mk_gcd_ext_cert : forall a b g s t, g = Z.gcd a b -> s * a + t * b = g -> gcd_ext_cert a b g s t = true.
Proof.
  intros a b g s t -> E. unfold gcd_ext_cert.
  destruct (Z.eq_dec (Z.gcd a b) 0) as [Z0|NZ].
  - rewrite Z0 in *. rewrite !Zmod_0_r. apply Z.gcd_eq_0 in Z0. destruct Z0 as [-> ->]. rewrite !Z.mul_0_r. reflexivity.
  - pose proof (Z.gcd_nonneg a b).
    rewrite (proj2 (Z.leb_le _ _)) by lia.
    rewrite (proj2 (Z.eqb_eq (a mod Z.gcd a b) 0)) by (apply Z.mod_divide; [exact NZ | apply Z.gcd_divide_l]).
    rewrite (proj2 (Z.eqb_eq (b mod Z.gcd a b) 0)) by (apply Z.mod_divide; [exact NZ | apply Z.gcd_divide_r]).
    rewrite (proj2 (Z.eqb_eq _ _)) by exact E. reflexivity.
Qed.

Lemma pow2_tz_divides : forall a k, 0 < a -> 0 <= k <= tz a -> a = a / 2 ^ k * 2 ^ k /\ 0 < a / 2 ^ k.
Proof.
  intros a k Ha Hk. destruct (strip2_spec a Ha) as [_ [Pm [E T]]]. set (m := strip2 a) in *.
  assert (0 < 2 ^ k) by (apply Z.pow_pos_nonneg; lia).
  assert (a = (m * 2 ^ (tz a - k)) * 2 ^ k) as E2.
  { rewrite <- Z.mul_assoc, <- Z.pow_add_r by lia. replace (tz a - k + k) with (tz a) by lia. exact E. }
  assert (a / 2 ^ k = m * 2 ^ (tz a - k)) as Q by (rewrite E2 at 1; apply Z.div_mul; lia).
  rewrite Q. split; [exact E2|]. apply Z.mul_pos_pos; [lia | apply Z.pow_pos_nonneg; lia].
Qed.

Theorem prim_gcd_ext_asis_correct : forall fuel a b g s t, 0 <= a -> 0 <= b ->
  prim_gcd_ext_asis fuel a b = Ok (g, s, t) -> gcd_ext_cert a b g s t = true.
Proof.
  intros fuel a b g s t Ha Hb H. unfold prim_gcd_ext_asis in H.
  destruct (Z.eqb_spec a 0) as [A0|A0]; destruct (Z.eqb_spec b 0) as [B0|B0]; cbn [andb] in H; try discriminate.
  - injection H as <- <- <-. subst a. apply mk_gcd_ext_cert; [rewrite Z.gcd_0_l, Z.abs_eq by lia; reflexivity | lia].
  - injection H as <- <- <-. subst b. apply mk_gcd_ext_cert; [rewrite Z.gcd_0_r, Z.abs_eq by lia; reflexivity | lia].
  - assert (0 < a) as Pa by lia. assert (0 < b) as Pb by lia.
    pose proof (tz_lor a b Pa Pb) as TL. destruct (strip2_spec a Pa) as [_ [_ [_ Ta]]]. destruct (strip2_spec b Pb) as [_ [_ [_ Tb]]].
    set (sh := tz (Z.lor a b)) in *.
    destruct (pow2_tz_divides a sh Pa ltac:(lia)) as [Ea Pa1]. destruct (pow2_tz_divides b sh Pb ltac:(lia)) as [Eb Pb1].
    set (a1 := a / 2 ^ sh) in *. set (b1 := b / 2 ^ sh) in *.
    assert (0 <= 2 ^ sh) as P2 by (apply Z.pow_nonneg; lia).
    assert (Z.gcd a b = Z.gcd a1 b1 * 2 ^ sh) as EG.
    { rewrite Ea at 1. rewrite Eb at 1. apply Z.gcd_mul_mono_r_nonneg. exact P2. }
    destruct (Z.leb_spec b1 a1) as [L|L].
    + destruct (Z.eqb_spec b1 1) as [B1|B1].
      * injection H as <- <- <-. apply mk_gcd_ext_cert; [|lia]. rewrite EG, B1, Z.gcd_1_r. lia.
      * destruct (euclid_ext fuel a1 b1 1 0 0 1) as [[[g1 ca] cb]| | |] eqn:E; cbn [rbind] in H; try discriminate.
        injection H as <- <- <-.
        apply (euclid_ext_correct fuel a1 b1) in E; try lia.
        destruct E as [G1 G2]. apply mk_gcd_ext_cert; [rewrite EG, G1; reflexivity|]. rewrite Ea at 1. rewrite Eb at 1. nia.
    + destruct (Z.eqb_spec a1 1) as [A1|A1].
      * injection H as <- <- <-. apply mk_gcd_ext_cert; [|lia]. rewrite EG, A1, Z.gcd_1_l. lia.
      * destruct (euclid_ext fuel b1 a1 1 0 0 1) as [[[g1 cb] ca]| | |] eqn:E; cbn [rbind] in H; try discriminate.
        injection H as <- <- <-.
        apply (euclid_ext_correct fuel b1 a1) in E; try lia.
        destruct E as [G1 G2]. apply mk_gcd_ext_cert; [rewrite EG, G1; apply f_equal2; [apply Z.gcd_comm|reflexivity]|].
        rewrite Ea at 1. rewrite Eb at 1. nia.
Qed.

Lemma euclid_ext_no_panic : forall r k lr r0 ls s lt t, euclid_ext k lr r0 ls s lt t <> Panic r.
Proof.
  induction k; intros lr r0 ls s lt t; cbn [euclid_ext]; cbv zeta; [discriminate|].
  destruct (lr - lr / r0 * r0 =? 0); [discriminate|apply IHk].
Qed.

Theorem prim_gcd_ext_asis_panics : forall fuel a b r,
  prim_gcd_ext_asis fuel a b = Panic r -> gcd_spec a b = Panic r.
Proof.
  intros fuel a b r H. unfold prim_gcd_ext_asis, gcd_spec in *.
  pose proof (euclid_ext_no_panic r) as NE.
  destruct ((a =? 0) && (b =? 0)); [injection H as ->; reflexivity|exfalso].
  destruct (a =? 0); [discriminate|]. destruct (b =? 0); [discriminate|].
  destruct (_ <=? _).
  - destruct (_ =? 1); [discriminate|].
    destruct (euclid_ext fuel _ _ 1 0 0 1) as [[[g1 ca] cb]| | |] eqn:E; cbn [rbind] in H; try discriminate.
    injection H as ->. exact (NE _ _ _ _ _ _ _ E).
  - destruct (_ =? 1); [discriminate|].
    destruct (euclid_ext fuel _ _ 1 0 0 1) as [[[g1 ca] cb]| | |] eqn:E; cbn [rbind] in H; try discriminate.
    injection H as ->. exact (NE _ _ _ _ _ _ _ E).
Qed.

Example prim_gcd_ext_asis_ex : prim_gcd_ext_asis 100 12 18 = Ok (6, -1, 1) /\ prim_gcd_ext_asis 100 16 2032 = Ok (16, 1, 0) /\
  prim_gcd_ext_asis 100 (2 ^ 30) 3486784401 = Ok (1, -569926925, 175506801).
Proof. repeat split; vm_compute; reflexivity. Qed.
