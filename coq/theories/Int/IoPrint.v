(** C07: the non-power-of-two printers of fmt/non_power_two.rs print exactly the specification
    digits, for every magnitude (no size bound): per-word extraction, the double-word split, the
    medium path (groups of digits_per_word) and the divide-and-conquer path with squared powers. *)
From Dashu Require Import Base.Prelude Base.Words Int.IoSpec Int.IoModel Int.IoDigits.
From DashuGen Require Import Params.
Open Scope Z_scope.

Lemma flat_map_ext_in' {A B} (f g : A -> list B) l : (forall a, In a l -> f a = g a) -> flat_map f l = flat_map g l.
Proof.
  induction l as [|x t IH]; intros H; cbn [flat_map]; [reflexivity|].
  rewrite H by (left; reflexivity). rewrite IH; [reflexivity|]. intros a Ha. apply H. right. exact Ha.
Qed.

Section Print.
Variables w r dpw R : Z.
Hypothesis r_ge_2 : 2 <= r.
Hypothesis w_pos : 0 < w.
Hypothesis Hinfo : radix_info w r = (dpw, R).
Hypothesis dpw_pos : 0 < dpw.
Hypothesis HR : R = r ^ dpw.
Hypothesis R_lt_B : R < Bw w.
Hypothesis B_le_RR : Bw w <= R * R.

Let kd : nat := Z.to_nat dpw.
Lemma kd_ok : Z.of_nat kd = dpw. Proof. unfold kd. lia. Qed.
Lemma HR' : R = r ^ Z.of_nat kd. Proof. rewrite kd_ok. exact HR. Qed.
Lemma R_ge_2 : 2 <= R.
Proof. rewrite HR. replace 2 with (2 ^ 1) by reflexivity. apply Z.le_trans with (r ^ 1); [rewrite !Z.pow_1_r; lia|].
  apply Z.pow_le_mono_r; lia. Qed.
Lemma Bw_pos : 0 < Bw w. Proof. unfold Bw. apply Z.pow_pos_nonneg; lia. Qed.
Lemma pow2_le_powr k : 0 <= k -> 2 ^ k <= r ^ k.
Proof. intros. apply Z.pow_le_mono_l. lia. Qed.

(* ---------------------------------------------------------------- PreparedWord *)
Lemma word_digits_nopad f : forall x min acc cnt, 0 <= x -> min <= cnt ->
  word_digits f r x min acc cnt = digits_fuel f r x acc.
Proof.
  induction f as [|f IH]; intros x min acc cnt Hx Hc; cbn [word_digits digits_fuel]; [reflexivity|].
  destruct (Z.ltb_spec cnt min); [lia|]. cbn [orb].
  destruct (Z.eqb_spec x 0) as [->|NE]; cbn [negb].
  - reflexivity.
  - destruct (Z.leb_spec x 0); [lia|]. apply IH; [apply Z.div_pos; lia | lia].
Qed.

Lemma word_digits_pad k : forall f x acc cnt, 0 <= x < r ^ Z.of_nat k -> (k <= f)%nat ->
  word_digits f r x (cnt + Z.of_nat k) acc cnt = digits_pad k r x ++ acc.
Proof.
  induction k as [|k IH]; intros f x acc cnt Hx Hf.
  - cbn [Z.of_nat] in *. rewrite Z.pow_0_r in Hx. assert (x = 0) by lia. subst.
    destruct f; cbn [word_digits]; [reflexivity|].
    destruct (Z.ltb_spec cnt (cnt + 0)); [lia|]. reflexivity.
  - destruct f as [|f]; [lia|]. cbn [word_digits].
    destruct (Z.ltb_spec cnt (cnt + Z.of_nat (S k))); [|lia]. cbn [orb].
    replace (cnt + Z.of_nat (S k)) with ((cnt + 1) + Z.of_nat k) by lia.
    rewrite IH; [| |lia].
    + rewrite digits_pad_S by lia. rewrite <- app_assoc. reflexivity.
    + rewrite Nat2Z.inj_succ, Z.pow_succ_r in Hx by lia.
      split; [apply Z.div_pos; lia | apply Z.div_lt_upper_bound; lia].
Qed.

(** a group of exactly digits_per_word digits *)
Lemma prepared_word_pad g : 0 <= g < R -> prepared_word w r g dpw = digits_pad kd r g.
Proof.
  intros Hg. unfold prepared_word. rewrite <- kd_ok at 2. replace (Z.of_nat kd) with (0 + Z.of_nat kd) by lia.
  rewrite word_digits_pad; [apply app_nil_r | rewrite <- HR'; lia | unfold kd; lia].
Qed.

(** the top group: the plain digits *)
Lemma prepared_word_top x : 0 <= x < Bw w -> prepared_word w r x 1 = digits_spec r x.
Proof.
  intros Hx. unfold prepared_word. replace (Z.to_nat (w + 1)) with (S (Z.to_nat w)) by lia.
  cbn [word_digits]. destruct (Z.ltb_spec 0 1); [|lia]. cbn [orb].
  rewrite word_digits_nopad by (try apply Z.div_pos; lia).
  destruct (Z.eq_dec x 0) as [->|NE].
  - rewrite Z.div_0_l, Z.mod_0_l by lia. destruct (Z.to_nat w); reflexivity.
  - rewrite <- (app_nil_r (digits_spec r x)). rewrite <- (digits_fuel_spec r r_ge_2 (S (Z.to_nat w)) x []).
    + cbn [digits_fuel]. destruct (Z.leb_spec x 0); [lia | reflexivity].
    + split; [lia|]. apply Z.lt_le_trans with (2 ^ Z.of_nat (S (Z.to_nat w))).
      * unfold Bw in Hx. apply Z.lt_le_trans with (2 ^ w); [lia|]. apply Z.pow_le_mono_r; lia.
      * apply pow2_le_powr. lia.
Qed.

(* ---------------------------------------------------------------- PreparedDword *)
Lemma dword_mid_zero k : forall p1 acc, 0 <= p1 -> snd (dword_mid k r p1 0 acc) = digits_fuel k r p1 acc.
Proof.
  induction k as [|k IH]; intros p1 acc H; cbn [dword_mid digits_fuel]; [reflexivity|].
  destruct (Z.eqb_spec p1 0) as [->|NE]; cbn [andb Z.eqb].
  - reflexivity.
  - destruct (Z.leb_spec p1 0); [lia|]. apply IH. apply Z.div_pos; lia.
Qed.

Lemma dword_mid_nonzero k : forall p1 p2 acc, p2 <> 0 -> snd (dword_mid k r p1 p2 acc) = digits_pad_acc k r p1 acc.
Proof.
  induction k as [|k IH]; intros p1 p2 acc H; cbn [dword_mid digits_pad_acc]; [reflexivity|].
  destruct (Z.eqb_spec p2 0); [contradiction|]. rewrite andb_false_r. apply IH. exact H.
Qed.

Theorem prepared_dword_correct x : Bw w <= x < Bw w * Bw w -> prepared_dword w r x = digits_spec r x.
Proof.
  intros Hx. unfold prepared_dword. rewrite Hinfo. fold kd.
  pose proof R_ge_2 as HR2. pose proof Bw_pos as HB.
  set (p0 := x mod R). set (q := x / R). set (p1 := q mod R). set (p2 := q / R).
  assert (Hq : 0 < q) by (apply Z.div_str_pos; lia).
  assert (Hp0 : 0 <= p0 < R) by (apply Z.mod_pos_bound; lia).
  assert (Hp1 : 0 <= p1 < R) by (apply Z.mod_pos_bound; lia).
  assert (Hp2 : 0 <= p2 < Bw w).
  { split; [apply Z.div_pos; lia|]. unfold p2, q. rewrite Z.div_div by lia.
    apply Z.div_lt_upper_bound; [nia|]. nia. }
  assert (Ex : x = q * R + p0) by (pose proof (Z.div_mod x R ltac:(lia)); unfold q, p0; lia).
  assert (Eq : q = p2 * R + p1) by (pose proof (Z.div_mod q R ltac:(lia)); unfold p2, p1; lia).
  rewrite digits_pad_acc_app by lia. rewrite app_nil_r.
  destruct (dword_mid kd r p1 p2 (digits_pad kd r p0)) as [p1' a1] eqn:Em.
  assert (Ea1 : a1 = snd (dword_mid kd r p1 p2 (digits_pad kd r p0))) by (rewrite Em; reflexivity).
  rewrite word_digits_nopad by lia.
  destruct (Z.eq_dec p2 0) as [Z2|NZ2].
  - (* top part empty: the middle part stops at its leading digit *)
    rewrite Z2 in *. rewrite dword_mid_zero in Ea1 by lia.
    assert (Hp1pos : 0 < p1) by lia.
    rewrite digits_fuel_spec in Ea1 by (try rewrite <- HR'; lia).
    replace (digits_fuel (Z.to_nat w) r 0 a1) with a1 by (destruct (Z.to_nat w); reflexivity).
    assert (Eq1 : q = p1) by lia.
    rewrite Ea1, Ex, Eq1, HR'. rewrite (digits_spec_split r r_ge_2 p1) by (try rewrite <- HR'; lia).
    reflexivity.
  - rewrite dword_mid_nonzero in Ea1 by lia. rewrite digits_pad_acc_app in Ea1 by lia.
    rewrite (digits_fuel_spec r r_ge_2).
    2:{ split; [lia|]. apply Z.lt_le_trans with (2 ^ Z.of_nat (Z.to_nat w)).
        - rewrite Z2Nat.id by lia. apply Hp2.
        - apply pow2_le_powr. lia. }
    rewrite Ea1, Ex, HR'. rewrite (digits_spec_split r r_ge_2 q) by (try rewrite <- HR'; lia).
    rewrite Eq, HR'. rewrite (digits_spec_split r r_ge_2 p2) by (try rewrite <- HR'; lia).
    rewrite <- app_assoc. reflexivity.
Qed.

(* ---------------------------------------------------------------- PreparedMedium *)
Let pad (g : Z) : list Z := prepared_word w r g dpw.

Lemma medium_groups_correct f : forall x gs, 0 <= x < 2 ^ Z.of_nat f ->
  let '(top, gs') := medium_groups w f R x gs in
  0 <= top < Bw w /\ digits_spec r top ++ flat_map pad gs' = digits_spec r x ++ flat_map pad gs.
Proof.
  pose proof R_ge_2 as HR2. pose proof Bw_pos as HB.
  induction f as [|f IH]; intros x gs Hx.
  - cbn [Z.of_nat] in Hx. rewrite Z.pow_0_r in Hx. assert (x = 0) by lia. subst. cbn [medium_groups].
    split; [lia | reflexivity].
  - cbn [medium_groups]. destruct (Z.ltb_spec x (Bw w)) as [Hlt|Hge]; [split; [lia | reflexivity]|].
    assert (Hdiv : 0 <= x / R < 2 ^ Z.of_nat f).
    { split; [apply Z.div_pos; lia|]. rewrite Nat2Z.inj_succ, Z.pow_succ_r in Hx by lia.
      apply Z.div_lt_upper_bound; [lia|]. assert (0 < 2 ^ Z.of_nat f) by (apply Z.pow_pos_nonneg; lia). nia. }
    specialize (IH (x / R) (x mod R :: gs) Hdiv).
    destruct (medium_groups w f R (x / R) (x mod R :: gs)) as [top gs'].
    destruct IH as [Ht IH]. split; [exact Ht|]. rewrite IH. cbn [flat_map].
    change (pad (x mod R)) with (prepared_word w r (x mod R) dpw). rewrite prepared_word_pad by (apply Z.mod_pos_bound; lia).
    rewrite app_assoc. f_equal. rewrite HR'. symmetry. apply digits_spec_divmod; [exact r_ge_2|]. rewrite <- HR'. lia.
Qed.

Lemma blen_bound x : 0 <= x -> x < 2 ^ Z.of_nat (Z.to_nat (blen x)).
Proof.
  intros Hx. unfold blen. destruct (Z.leb_spec x 0); [cbn; lia|].
  pose proof (Z.log2_nonneg x). rewrite Z2Nat.id by lia.
  pose proof (Z.log2_spec x ltac:(lia)). replace (Z.log2 x + 1) with (Z.succ (Z.log2 x)) by lia. lia.
Qed.

Theorem prepared_medium_correct x : 0 <= x -> prepared_medium w r x = digits_spec r x.
Proof.
  intros Hx. unfold prepared_medium. rewrite Hinfo.
  pose proof (medium_groups_correct (Z.to_nat (blen x)) x [] ltac:(split; [lia | apply blen_bound; lia])) as H.
  destruct (medium_groups w (Z.to_nat (blen x)) R x []) as [top gs]. destruct H as [Ht H].
  rewrite prepared_word_top by exact Ht. fold pad. rewrite H. cbn [flat_map]. apply app_nil_r.
Qed.

(* ---------------------------------------------------------------- PreparedLarge *)
Lemma groups_flat k : forall x, 0 <= x ->
  flat_map (digits_pad kd r) (digits_pad k R x) = digits_pad (k * kd) r x.
Proof.
  pose proof R_ge_2 as HR2.
  induction k as [|k IH]; intros x Hx; [reflexivity|].
  rewrite digits_pad_S by lia. rewrite flat_map_app. cbn [flat_map]. rewrite app_nil_r.
  rewrite IH by (apply Z.div_pos; lia).
  replace (S k * kd)%nat with (k * kd + kd)%nat by lia.
  rewrite digits_pad_split by lia. rewrite <- HR'. reflexivity.
Qed.

Let cl : nat := Z.to_nat fmt_chunk_len.
Definition ndig (ps : list Z) : nat := (cl * kd * 2 ^ length ps)%nat.

Theorem write_chunk_correct x : 0 <= x -> write_chunk w r x = digits_pad (cl * kd) r x.
Proof.
  intros Hx. unfold write_chunk. rewrite Hinfo. fold cl.
  rewrite (flat_map_ext_in' _ (digits_pad kd r)).
  - apply groups_flat. exact Hx.
  - intros g Hg. apply prepared_word_pad.
    pose proof (digits_pad_range R R_ge_2 cl x) as Hr. unfold in_range in Hr. rewrite Forall_forall in Hr. apply Hr. exact Hg.
Qed.

(** the cached powers, largest first: p_i = r^(chunk digits * 2^i) *)
Fixpoint powers_ok (ps : list Z) : Prop :=
  match ps with [] => True | p :: rest => p = r ^ Z.of_nat (ndig rest) /\ powers_ok rest end.

Lemma ndig_cons p ps : ndig (p :: ps) = (ndig ps + ndig ps)%nat.
Proof. unfold ndig. cbn [length]. rewrite Nat.pow_succ_r'. lia. Qed.

Theorem write_big_chunk_correct ps : forall x, powers_ok ps -> 0 <= x ->
  write_big_chunk w r ps x = digits_pad (ndig ps) r x.
Proof.
  induction ps as [|p rest IH]; intros x Hok Hx; cbn [write_big_chunk].
  - rewrite write_chunk_correct by exact Hx. unfold ndig. cbn [length]. f_equal. cbn. lia.
  - destruct Hok as [Hp Hrest].
    assert (0 < p) by (rewrite Hp; apply Z.pow_pos_nonneg; lia).
    rewrite !IH; auto; [|apply Z.mod_pos_bound; lia | apply Z.div_pos; lia].
    rewrite ndig_cons, digits_pad_split by lia. rewrite <- Hp. reflexivity.
Qed.

Theorem large_split_correct ps : forall first x tail, powers_ok ps -> 0 < x ->
  (first = true -> match ps with p :: _ => p <= x | [] => True end) ->
  large_split w r ps first x tail = digits_spec r x ++ tail.
Proof.
  induction ps as [|p rest IH]; intros first x tail Hok Hx Hfirst; cbn [large_split].
  - rewrite prepared_medium_correct by lia. reflexivity.
  - destruct Hok as [Hp Hrest].
    assert (Hppos : 0 < p) by (rewrite Hp; apply Z.pow_pos_nonneg; lia).
    assert (Hcase : (first || (x >=? p)) = true -> p <= x).
    { destruct first; cbn [orb]; [intros _; apply Hfirst; reflexivity|]. intros H. apply Z.geb_le in H. lia. }
    destruct (first || (x >=? p)) eqn:Ec.
    + specialize (Hcase eq_refl).
      rewrite IH; [| exact Hrest | apply Z.div_str_pos; lia | discriminate].
      rewrite write_big_chunk_correct by (try apply Z.mod_pos_bound; auto; lia).
      rewrite app_assoc. f_equal. rewrite Hp. symmetry. apply digits_spec_divmod; [exact r_ge_2|]. rewrite <- Hp. exact Hcase.
    + apply IH; [exact Hrest | exact Hx | discriminate].
Qed.

Lemma fmt_powers_ok f : forall x ps, powers_ok ps -> (match ps with p :: _ => p <= x | [] => False end) ->
  let ps' := fmt_powers w f x ps in powers_ok ps' /\ (match ps' with p :: _ => p <= x | [] => False end).
Proof.
  induction f as [|f IH]; intros x ps Hok Hle; cbn [fmt_powers].
  - destruct ps; split; auto.
  - destruct ps as [|prev rest]; [contradiction|].
    destruct (2 * wlen w prev - 1 >? wlen w x); [split; auto|].
    destruct (Z.gtb_spec (prev * prev) x) as [Hgt|Hle2]; [split; auto|].
    apply IH; [|exact Hle2]. split; [|exact Hok].
    destruct Hok as [Hp _]. rewrite ndig_cons, Nat2Z.inj_add, Z.pow_add_r by lia. rewrite <- Hp. reflexivity.
Qed.

Theorem prepared_large_correct x : 0 < x -> prepared_large w r x = digits_spec r x.
Proof.
  intros Hx. unfold prepared_large. rewrite Hinfo.
  destruct (Z.gtb_spec (R ^ fmt_chunk_len) x) as [Hgt|Hle]; [apply prepared_medium_correct; lia|].
  assert (Hok0 : powers_ok [R ^ fmt_chunk_len]).
  { split; [|exact I]. unfold ndig. cbn [length]. rewrite HR', <- Z.pow_mul_r by (unfold fmt_chunk_len; lia).
    f_equal. unfold cl. cbn [Nat.pow]. rewrite Nat.mul_1_r, Nat2Z.inj_mul. unfold fmt_chunk_len. lia. }
  pose proof (fmt_powers_ok (Z.to_nat (blen x)) x [R ^ fmt_chunk_len] Hok0 Hle) as [Hok Hhd].
  rewrite large_split_correct; [apply app_nil_r | exact Hok | exact Hx|].
  intros _. destruct (fmt_powers w (Z.to_nat (blen x)) x [R ^ fmt_chunk_len]); [contradiction | exact Hhd].
Qed.

(** InRadixWriter::fmt_non_power_two: every path prints the specification digits *)
Theorem digits_np2_asis_correct x : 0 <= x -> digits_np2_asis w r x = digits_spec r x.
Proof.
  intros Hx. unfold digits_np2_asis.
  destruct (Z.ltb_spec x (Bw w)); [apply prepared_word_top; lia|].
  destruct (Z.ltb_spec x (Bw w * Bw w)); [apply prepared_dword_correct; lia|].
  rewrite Hinfo. pose proof Bw_pos.
  destruct (wlen w x * (dpw + 1) <=? fmt_chunk_len * dpw);
    [apply prepared_medium_correct; lia | apply prepared_large_correct; lia].
Qed.

End Print.
