(** C01: the sign-case tables of the IBig operators + - * (regenerated from add_ops.rs / mul_ops.rs
    into DashuGen.SignTables on every run) compute Z.add / Z.sub / Z.mul on the signed values,
    given that the magnitude-level operations they call are exact ([add -> +], [sub_signed -> -],
    [mul -> *]: proved for the word-level models in Int/RingOpsProofs.v). *)
From Dashu Require Import Base.Prelude.
From DashuGen Require Import SignTables.
Open Scope Z_scope.

Theorem ibig_add_gen_correct s0 m0 s1 m1 : ibig_add_gen s0 m0 s1 m1 = signed s0 m0 + signed s1 m1.
Proof. destruct s0, s1; unfold ibig_add_gen, signed; cbn [sgnz]; lia. Qed.

Theorem ibig_sub_gen_correct s0 m0 s1 m1 : ibig_sub_gen s0 m0 s1 m1 = signed s0 m0 - signed s1 m1.
Proof. destruct s0, s1; unfold ibig_sub_gen, signed; cbn [sgnz]; lia. Qed.

Theorem ibig_mul_gen_correct s0 m0 s1 m1 : ibig_mul_gen s0 m0 s1 m1 = signed s0 m0 * signed s1 m1.
Proof. destruct s0, s1; unfold ibig_mul_gen, signed, sign_mul; cbn [sgnz]; lia. Qed.
