(** C01: the operator theorems restated over the integers.  Every non-negative integer has a
    typed representation satisfying the invariant [twf] ([typed_of_value]: inline iff < B^2, else
    the minimal word list), so the hypotheses of the operator theorems are met by ALL operands and
    the models of + - * sqr cubic pow, run on these representations, return the mathematical result. *)
From Dashu Require Import Base.Prelude Base.Words Int.RingSpec Int.RingAdd Int.RingAddProofs Int.RingMul Int.RingMulProofs
  Int.RingDispatchProofs Int.RingOps Int.RingOpsProofs Int.RingOpsMulProofs Int.RingPowProofs Int.RingTop.
Open Scope Z_scope.

Section Canon.
Variable w : Z.
Hypothesis w_ge : 8 <= w.
Let w_pos : 0 < w. Proof. lia. Qed.
Notation BB := (B w).
Notation rv := (repr_value w).
Notation srv := (srepr_value w).
Notation tv := (typed_of_value w).
Let HB : 0 < BB := B_pos w w_pos.

Lemma nth_to_words : forall n k v, (k < n)%nat -> 0 <= v -> nth k (to_words w n v) 0 = (v / BB ^ Z.of_nat k) mod BB.
Proof.
  induction n as [|n IH]; intros k v Hk Hv; [lia|]. cbn [to_words]. destruct k as [|k].
  - cbn [nth Z.of_nat]. rewrite Z.pow_0_r, Z.div_1_r. reflexivity.
  - cbn [nth]. rewrite IH; [|lia | apply Z.div_pos; lia].
    rewrite Nat2Z.inj_succ, Z.pow_succ_r by lia. rewrite Z.div_div by (try lia; apply Z.pow_pos_nonneg; lia). reflexivity.
Qed.

Lemma tv_value v : 0 <= v -> rv (tv v) = v.
Proof.
  intros Hv. unfold typed_of_value. destruct (Z.ltb_spec v (BB * BB)) as [H|H]; cbn [repr_value]; [lia|].
  apply value_to_words; [exact w_pos|].
  assert (0 < v) by nia. pose proof (Z.log2_nonneg v). assert (0 <= Z.log2 v / w) by (apply Z.div_pos; lia).
  split; [lia|]. rewrite Z2Nat.id by lia. unfold B. rewrite <- Z.pow_mul_r by lia.
  apply Z.lt_le_trans with (2 ^ Z.succ (Z.log2 v)); [apply Z.log2_spec; lia|].
  apply Z.pow_le_mono_r; [lia|]. pose proof (Z.div_mod (Z.log2 v) w ltac:(lia)). pose proof (Z.mod_pos_bound (Z.log2 v) w ltac:(lia)). nia.
Qed.

Theorem typed_of_value_twf v : 0 <= v -> rv (tv v) = v /\ twf w (tv v).
Proof.
  intros Hv. split; [apply tv_value; exact Hv|].
  unfold typed_of_value. destruct (Z.ltb_spec v (BB * BB)) as [H|H]; cbn [twf]; [lia|].
  assert (Hpos : 0 < v) by nia. pose proof (Z.log2_nonneg v) as Hl. assert (Hq : 0 <= Z.log2 v / w) by (apply Z.div_pos; lia).
  set (n := Z.to_nat (Z.log2 v / w + 1)).
  assert (Hn : Z.of_nat n = Z.log2 v / w + 1) by (subst n; rewrite Z2Nat.id; lia).
  destruct (Z.log2_spec v Hpos) as [Lo Hi].
  assert (Elen : length (to_words w n v) = n) by apply to_words_length.
  split; [apply to_words_wf; exact w_pos|]. rewrite Elen.
  (* B^(n-1) <= v < B^n *)
  assert (Plo : BB ^ Z.of_nat (n - 1) <= v).
  { unfold B. rewrite <- Z.pow_mul_r by lia. apply Z.le_trans with (2 ^ Z.log2 v); [|exact Lo].
    apply Z.pow_le_mono_r; [lia|]. replace (Z.of_nat (n - 1)) with (Z.log2 v / w) by lia. apply Z.mul_div_le. lia. }
  assert (Phi : v < BB ^ Z.of_nat n).
  { unfold B. rewrite <- Z.pow_mul_r by lia. apply Z.lt_le_trans with (2 ^ Z.succ (Z.log2 v)); [exact Hi|].
    apply Z.pow_le_mono_r; [lia|]. rewrite Hn. pose proof (Z.div_mod (Z.log2 v) w ltac:(lia)). pose proof (Z.mod_pos_bound (Z.log2 v) w ltac:(lia)). nia. }
  assert (Hn3 : (3 <= n)%nat).
  { destruct (Nat.le_gt_cases 3 n) as [G|G]; [exact G|exfalso].
    assert (BB ^ Z.of_nat n <= BB ^ 2) by (apply Z.pow_le_mono_r; lia). nia. }
  split; [exact Hn3|].
  rewrite nth_to_words by lia. set (P := BB ^ Z.of_nat (n - 1)) in *.
  assert (HP : 0 < P) by (subst P; apply Z.pow_pos_nonneg; lia).
  assert (EP : BB ^ Z.of_nat n = BB * P).
  { subst P. replace n with (S (n - 1)) at 1 by lia. rewrite Nat2Z.inj_succ, Z.pow_succ_r by lia. reflexivity. }
  assert (1 <= v / P) by (apply Z.div_le_lower_bound; lia).
  assert (v / P < BB) by (apply Z.div_lt_upper_bound; lia).
  rewrite Z.mod_small by lia. lia.
Qed.

(** ------------------------------------------------------------------ the property, over Z *)
Theorem ubig_add_Z o a b : 0 <= a -> 0 <= b -> Ok (rv (repr_add w o (tv a) (tv b))) = ubig_add_spec a b.
Proof.
  intros Ha Hb. destruct (typed_of_value_twf a Ha) as (Va & Ta). destruct (typed_of_value_twf b Hb) as (Vb & Tb).
  rewrite (proj1 (ubig_add_exact w w_ge o _ _ Ta Tb)), Va, Vb. reflexivity.
Qed.

Theorem ubig_sub_Z o a b : 0 <= a -> 0 <= b ->
  match repr_sub w o (tv a) (tv b) with
  | Ok r => a >= b /\ rv r = a - b
  | Panic NegativeUBig => a < b
  | _ => False
  end.
Proof.
  intros Ha Hb. destruct (typed_of_value_twf a Ha) as (Va & Ta). destruct (typed_of_value_twf b Hb) as (Vb & Tb).
  pose proof (repr_sub_correct w w_ge o _ _ Ta Tb) as R. unfold sub_res in R. rewrite Va, Vb in R.
  destruct (Z.ltb_spec a b); [rewrite R; lia|]. destruct R as (r & E & V & _). rewrite E. lia.
Qed.

Definition ityped (v : Z) : sign * trepr := (sign_of v, tv (Z.abs v)).

Lemma ityped_value v : signed (sign_of v) (rv (tv (Z.abs v))) = v.
Proof.
  destruct (typed_of_value_twf (Z.abs v) (Z.abs_nonneg v)) as (V & _). rewrite V.
  unfold signed, sign_of. destruct (Z.ltb_spec v 0); cbn [sgnz]; lia.
Qed.

Theorem ibig_add_Z o a b :
  exists r, ibig_add_asis w o (sign_of a) (tv (Z.abs a)) (sign_of b) (tv (Z.abs b)) = Ok r /\ srv r = ibig_add_spec a b.
Proof.
  destruct (typed_of_value_twf (Z.abs a) (Z.abs_nonneg a)) as (_ & Ta). destruct (typed_of_value_twf (Z.abs b) (Z.abs_nonneg b)) as (_ & Tb).
  destruct (ibig_add_exact w w_ge o (sign_of a) _ (sign_of b) _ Ta Tb) as (r & E & V & _). exists r. split; [exact E|].
  rewrite V, !ityped_value. reflexivity.
Qed.

Theorem ibig_sub_Z o a b :
  exists r, ibig_sub_asis w o (sign_of a) (tv (Z.abs a)) (sign_of b) (tv (Z.abs b)) = Ok r /\ srv r = ibig_sub_spec a b.
Proof.
  destruct (typed_of_value_twf (Z.abs a) (Z.abs_nonneg a)) as (_ & Ta). destruct (typed_of_value_twf (Z.abs b) (Z.abs_nonneg b)) as (_ & Tb).
  destruct (ibig_sub_exact w w_ge o (sign_of a) _ (sign_of b) _ Ta Tb) as (r & E & V & _). exists r. split; [exact E|].
  rewrite V, !ityped_value. reflexivity.
Qed.

Theorem ibig_mul_Z a b :
  exists r, ibig_mul_asis w src_T_simple src_T_kara src_CHUNK src_SQR (sign_of a) (tv (Z.abs a)) (sign_of b) (tv (Z.abs b)) = Ok r /\
            srv r = ibig_mul_spec a b.
Proof.
  destruct (typed_of_value_twf (Z.abs a) (Z.abs_nonneg a)) as (_ & Ta). destruct (typed_of_value_twf (Z.abs b) (Z.abs_nonneg b)) as (_ & Tb).
  destruct (ibig_mul_exact w w_ge (sign_of a) _ (sign_of b) _ (twf_tok w _ Ta) (twf_tok w _ Tb)) as (r & E & V & _). exists r. split; [exact E|].
  rewrite V, !ityped_value. reflexivity.
Qed.

Theorem ibig_sqr_cubic_Z a :
  (exists r, repr_sqr w src_T_simple src_T_kara src_SQR (tv (Z.abs a)) = Ok r /\ rv r = sqr_spec a) /\
  (exists r, ibig_cubic_asis w src_T_simple src_T_kara src_CHUNK src_SQR (sign_of a) (tv (Z.abs a)) = Ok r /\ srv r = cubic_spec a).
Proof.
  destruct (typed_of_value_twf (Z.abs a) (Z.abs_nonneg a)) as (Va & Ta). pose proof (twf_tok w _ Ta) as Ka. split.
  - destruct (sqr_exact w w_ge _ Ka) as (r & E & V & _). exists r. split; [exact E|]. rewrite V, Va. unfold sqr_spec. lia.
  - destruct (ibig_cubic_exact w w_ge (sign_of a) _ Ka) as (r & E & V & _). exists r. split; [exact E|]. rewrite V, ityped_value. reflexivity.
Qed.

Theorem ibig_pow_Z a e : 0 <= e ->
  exists r, ibig_pow_asis w src_T_simple src_T_kara src_CHUNK src_SQR (sign_of a) (tv (Z.abs a)) e = Ok r /\ srv r = pow_spec a e.
Proof.
  intros He. destruct (typed_of_value_twf (Z.abs a) (Z.abs_nonneg a)) as (_ & Ta).
  destruct (ibig_pow_exact w w_ge (sign_of a) _ e (twf_tok w _ Ta) He) as (r & E & V). exists r. split; [exact E|].
  rewrite V, ityped_value. reflexivity.
Qed.

End Canon.
