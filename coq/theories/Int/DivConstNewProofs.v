(** C02 round 4 - ConstDivisor construction (Int/DivConstNew.v) for all three sizes and every word size w > 0:
    a zero divisor is the DivideBy0 panic in new / from_word / from_dword; otherwise the stored shift is the number of leading
    zeros, the stored divisor is n << shift and normalised (so every precondition of the reciprocal-division primitives that the
    division paths rely on holds), the stored reciprocal is floor((B^2-1)/d) - B resp. floor((B^3-1)/d) - B, no debug assertion
    of num-modular's constructors fires, value() gives n back, and from_word / from_dword build the same value as new. *)
From Dashu Require Import Base.Prelude Base.Words Int.DivWordModel Int.DivWordProofs Int.DivSimpleProofs Int.DivLargeProofs
  Int.DivConstProofs Int.DivReprProofs Int.DivNumModular Int.DivNumModularProofs Int.DivKernelsBase Int.DivKernelsGenProofs Int.DivConstNew.
From DashuGen Require Import DivKernelsGen.
Open Scope Z_scope.

Section ConstNewProofs.
Variable w : Z.
Hypothesis w_pos : 0 < w.
Variable P : div_prims.
Notation B := (Words.B w).
Notation wf := (Words.wf w).
Notation value := (Words.value w).

Local Lemma Bpos : 0 < B. Proof. apply B_pos; lia. Qed.

(** what a well-formed ConstDivisor for n is *)
Definition cdiv_ok (n : Z) (c : cdiv) : Prop :=
  match c with
  | CSingle dv s => 0 < n < B /\ s = lzw w 1 n /\ 0 <= s < w /\ n1_divisor dv = n * 2 ^ s /\ norm1 w (n1_divisor dv) /\
                    n1_m dv = (B * B - 1) / n1_divisor dv - B /\ 0 <= n1_m dv < B /\ nm_invert_word_checks w (n1_divisor dv) = true
  | CDouble dv s => B <= n < B * B /\ s = lzw w 2 n /\ 0 <= s < w /\ n2_divisor dv = n * 2 ^ s /\ norm2 w (n2_divisor dv) /\
                    n2_m dv = (B * B * B - 1) / n2_divisor dv - B /\ 0 <= n2_m dv < B /\ nm_invert_double_word_checks w (n2_divisor dv) = true
  | CLarge ws s top => B * B <= n /\ 0 <= s < w /\ wf ws /\ (3 <= length ws)%nat /\ length ws = nwords w n /\ value ws = n * 2 ^ s /\
                    normalized_top w ws /\ n2_divisor top = highest_dword w ws /\ norm2 w (n2_divisor top) /\
                    n2_m top = (B * B * B - 1) / n2_divisor top - B /\ nm_invert_double_word_checks w (n2_divisor top) = true
  end.

Theorem const_new_zero :
  const_new w P 0 = Panic DivideBy0 /\ const_from_word w 0 = Panic DivideBy0 /\ const_from_dword w 0 = Panic DivideBy0.
Proof. repeat split. Qed.

Lemma premul1_ok n : 0 < n < B -> cdiv_ok n (premul1_new w n) /\ const_value w (premul1_new w n) = n.
Proof.
  intros Hn. destruct (lzw1_facts w w_pos n Hn) as (Hs & Hnorm & Hp & _).
  unfold premul1_new. cbv zeta. set (s := lzw w 1 n) in *. rewrite Z.shiftl_mul_pow2 by lia.
  destruct (invert_word_spec w w_pos (n * 2 ^ s) Hnorm) as (Em & Hm & Hc & _).
  split.
  - cbn [cdiv_ok nm_2by1_new n1_divisor n1_m]. repeat split; try lia; try assumption; apply Hnorm.
  - cbn [const_value nm_2by1_new n1_divisor]. rewrite Z.shiftr_div_pow2 by lia. apply Z.div_mul. lia.
Qed.

Lemma premul2_ok n : B <= n < B * B -> cdiv_ok n (premul2_new w n) /\ const_value w (premul2_new w n) = n.
Proof.
  intros Hn. destruct (lzw2_facts w w_pos n Hn) as (Hs & Hnorm & Hp & _).
  unfold premul2_new. cbv zeta. set (s := lzw w 2 n) in *. rewrite Z.shiftl_mul_pow2 by lia.
  destruct (invert_double_word_spec w w_pos (n * 2 ^ s) Hnorm) as (Hm & _ & Em & Hc).
  split.
  - cbn [cdiv_ok nm_3by2_new n2_divisor n2_m]. repeat split; try lia; try assumption; apply Hnorm.
  - cbn [const_value nm_3by2_new n2_divisor]. rewrite Z.shiftr_div_pow2 by lia. apply Z.div_mul. lia.
Qed.

(** the top two words of a normalised multi-word divisor are a normalised double word *)
Lemma normalized_top_norm2 ws : wf ws -> (2 <= length ws)%nat -> normalized_top w ws -> norm2 w (highest_dword w ws).
Proof.
  intros Hwf HL Hn. pose proof Bpos as HB. destruct (top2_split w w_pos ws Hwf HL) as (Ev & Hlo & Hhd).
  unfold normalized_top in Hn. unfold norm2. split; [|lia].
  set (k := len ws - 2) in *. set (L := value (firstn (length ws - 2) ws)) in *. set (h := highest_dword w ws) in *.
  assert (Hk : 0 <= k) by (unfold k, len; lia).
  assert (HP : 0 < B ^ k) by (apply Z.pow_pos_nonneg; lia).
  replace (len ws) with (k + 2) in Hn by (unfold k; lia). rewrite Z.pow_add_r, Z.pow_2_r in Hn by lia.
  rewrite Ev in Hn.
  (* B^k * (B*B) <= 2 L + 2 B^k h < 2 B^k (h + 1) *)
  assert (H1 : B ^ k * (B * B) < B ^ k * (2 * (h + 1))) by nia.
  assert (H2 : B * B < 2 * (h + 1)) by (apply Z.mul_lt_mono_pos_l in H1; lia).
  assert (Hev : exists j, B * B = 2 * j).
  { exists (2 ^ (w - 1) * B). unfold Words.B at 1. replace w with (1 + (w - 1)) at 1 by lia. rewrite Z.pow_add_r by lia. lia. }
  destruct Hev as (j & Ej). lia.
Qed.

Lemma const_large_ok n : B * B <= n -> cdiv_ok n (const_large_new w P (words_of w n)) /\ const_value w (const_large_new w P (words_of w n)) = n.
Proof.
  intros Hn. pose proof Bpos as HB. assert (Hpos : 0 < n) by nia.
  destruct (words_of_spec w w_pos n ltac:(lia)) as (Hwf & Hval & Hlen).
  pose proof (words_of_top w w_pos n Hpos) as Htop. pose proof (nwords_ge3 w w_pos n Hn) as H3.
  destruct (normalize_spec w w_pos (words_of w n) Hwf ltac:(lia) Htop) as (Hs & _ & rhs1 & E1 & Hw1 & Hl1 & Hv1 & Hnt).
  unfold const_large_new. rewrite (normalize_gen_eq w P). cbv zeta.
  set (s := lzw w 1 (highest_word w (words_of w n))) in *. rewrite E1. cbn [fst].
  pose proof (normalized_top_norm2 rhs1 Hw1 ltac:(lia) Hnt) as Hn2.
  destruct (invert_double_word_spec w w_pos (highest_dword w rhs1) Hn2) as (Hm & _ & Em & Hc).
  split.
  - cbn [cdiv_ok nm_3by2_new n2_divisor n2_m]. rewrite Hv1, Hval. repeat split; try lia; try assumption; apply Hn2.
  - cbn [const_value].
    destruct (Z.eq_dec s 0) as [E0|Hne].
    + unfold shr_in_place. rewrite E0. destruct (Z.eqb_spec 0 w); [lia|]. cbn [Z.eqb fst]. rewrite Hv1, Hval, E0, Z.pow_0_r. lia.
    + destruct (shr_in_place w rhs1 s) as [r c] eqn:E.
      destruct (shr_in_place_spec w w_pos rhs1 s Hw1 ltac:(lia) r c E) as (k' & _ & Hk & Hv & _).
      cbn [fst]. rewrite Hv1, Hval in Hv. assert (0 < 2 ^ s) by (apply Z.pow_pos_nonneg; lia).
      assert (value r = n /\ k' = 0) as [-> _]; [|reflexivity].
      assert (k' = 0). { assert ((n - value r) * 2 ^ s = k') by lia. destruct (Z.eq_dec (n - value r) 0) as [Ez|Hz]; [rewrite Ez in *; lia | nia]. }
      nia.
Qed.

Theorem const_new_ok n : 0 < n ->
  exists c, const_new w P n = Ok c /\ cdiv_ok n c /\ const_value w c = n.
Proof.
  intros Hn. pose proof Bpos as HB. unfold const_new. destruct (Z.eqb_spec n 0); [lia|].
  destruct (Z.ltb_spec n (B * B)).
  - destruct (Z.ltb_spec n B).
    + eexists. split; [reflexivity|]. apply premul1_ok. lia.
    + eexists. split; [reflexivity|]. apply premul2_ok. lia.
  - eexists. split; [reflexivity|]. apply const_large_ok. lia.
Qed.

(** from_word / from_dword build what new builds *)
Theorem const_from_agree n :
  (0 < n < B -> const_from_word w n = const_new w P n) /\ (0 < n < B * B -> const_from_dword w n = const_new w P n).
Proof.
  pose proof Bpos as HB. unfold const_from_word, const_from_dword, const_new. split; intros Hn.
  - destruct (Z.eqb_spec n 0); [lia|]. destruct (Z.ltb_spec n (B * B)); [|nia]. destruct (Z.ltb_spec n B); [reflexivity | lia].
  - destruct (Z.eqb_spec n 0); [lia|]. destruct (Z.ltb_spec n (B * B)); [reflexivity | lia].
Qed.

End ConstNewProofs.

Example const_new_examples :
  (exists c, const_new 64 (prims_of (fun _ _ => (0, 0)) (fun _ _ => (0, 0)) (fun _ _ => (0, 0)) (fun _ _ _ => (0, 0)) (fun _ _ _ => (0, 0)) (fun c _ _ => (c, 0))) 10 = Ok c /\
     const_fields 64 c = [1; 60; 10 * 2 ^ 60; (2 ^ 128 - 1) / (10 * 2 ^ 60) - 2 ^ 64]) /\
  const_new 64 (prims_of (fun _ _ => (0, 0)) (fun _ _ => (0, 0)) (fun _ _ => (0, 0)) (fun _ _ _ => (0, 0)) (fun _ _ _ => (0, 0)) (fun c _ _ => (c, 0))) 0 = Panic DivideBy0.
Proof. split; [eexists; split; [reflexivity | vm_compute; reflexivity] | reflexivity]. Qed.
