(** C02 - scratch memory of the division kernels: how many words of the `Memory` passed down by
    div_ops.rs::repr::div_rem_in_lhs the recursion really takes, against what
    div::memory_requirement_exact reserves.  Definitions only.

    Division itself allocates nothing; the only consumer is mul::add_signed_mul in
    divide_conquer::div_rem_in_place_small_quotient (q * low part of the divisor).  Everything depends on
    lengths only.  The requirement formulas, the kernel selection of mul/mod.rs and the allocation /
    recursive-call sequence of karatsuba.rs and toom_3.rs are REGENERATED (coq/gen/DivDispatch.v);
    helpers::add_signed_mul_split_into_chunks and the Burnikel-Ziegler recursion are transcribed here
    (the latter exactly as in DivWordModel.dc_small_quotient / dc_same_len / dc_div_rem, on lengths). *)
From Dashu Require Import Base.Prelude Int.DivMemBase.
From DashuGen Require Import Params DivDispatch.
Open Scope Z_scope.

(** peak number of words held while a trace runs: [cur] words are held now, [stack] = the amounts held when
    the enclosing blocks were entered, [P n] = peak of a recursive same-length multiplication *)
Fixpoint trace_peak (P : Z -> result Z) (evs : list mem_ev) (cur : Z) (stack : list Z) (peak : Z) : result Z :=
  match evs with
  | [] => Ok peak
  | EvOpen :: r => trace_peak P r cur (cur :: stack) peak
  | EvClose :: r => match stack with s :: st => trace_peak P r s st peak | [] => trace_peak P r cur [] peak end
  | EvAlloc n :: r => trace_peak P r (cur + n) stack (Z.max peak (cur + n))
  | EvCall n :: r => rbind (P n) (fun p => trace_peak P r cur stack (Z.max peak (cur + p)))
  end.

(** one kernel's add_signed_mul_same_len on n-word factors; [P] = the recursive mul::add_signed_mul_same_len *)
Definition kernel_same_peak (P : Z -> result Z) (k : mul_kernel) (n : Z) : result Z :=
  match k with
  | KSimple => Ok 0                                                          (* simple.rs: `_memory` unused *)
  | KKaratsuba => trace_peak P (g_karatsuba_events n) 0 [] 0
  | KToom3 => trace_peak P (g_toom3_events n) 0 [] 0
  end.

(** mul::add_signed_mul_same_len: the dispatch, then the kernel's own trace *)
Fixpoint mul_same_peak (fuel : nat) (n : Z) : result Z :=
  match fuel with
  | O => OutOfFuel
  | S f => kernel_same_peak (mul_same_peak f) (g_mul_same_len_kernel n) n
  end.
Definition mul_same_peak_auto (n : Z) : result Z := mul_same_peak (S (Z.to_nat n)) n.

(** mul::add_signed_mul on factors of la and lb words: swap so that b is the shorter one; the simple kernel
    needs nothing (its chunks and the rest stay below the threshold); karatsuba / toom_3::add_signed_mul go
    through helpers::add_signed_mul_split_into_chunks with chunk_len = b.len(): same-length chunks while
    a.len() >= chunk_len, then the rest (shorter than b) through mul::add_signed_mul(c, sign, b, a) again *)
Fixpoint mul_peak (fuel : nat) (la lb : Z) : result Z :=
  match fuel with
  | O => OutOfFuel
  | S f =>
    let a := Z.max la lb in let b := Z.min la lb in
    match g_mul_kernel b with
    | KSimple => Ok 0
    | k => rbind (kernel_same_peak (mul_same_peak (Z.to_nat b)) k b) (fun p1 =>   (* the kernel's own same_len *)
           let r := a mod b in
           if r =? 0 then Ok p1 else rbind (mul_peak f b r) (fun p2 => Ok (Z.max p1 p2)))
    end
  end.
Definition mul_peak_auto (la lb : Z) : result Z := mul_peak (S (Z.to_nat (Z.min la lb))) la lb.

(** divide_conquer::div_rem_in_place_small_quotient, lhs of l words, rhs of n words, m = l - n < n:
    the 2m/m division by two (m + m/2 .. )/m steps, then add_signed_mul(rem, Negative, q, rhs[..n-m]) *)
Fixpoint dc_small_peak (fuel : nat) (l n : Z) : result Z :=
  match fuel with
  | O => OutOfFuel
  | S f =>
    let m := l - n in
    if m <=? div_threshold_simple then Ok 0                                  (* simple::div_rem_in_place *)
    else
      let nlo := m / 2 in
      rbind (dc_small_peak f (2 * m - nlo) m) (fun p1 =>                      (* same_len: lhs[n_lo..] *)
      rbind (dc_small_peak f (m + nlo) m) (fun p2 =>                          (* same_len: lhs[..n + n_lo] *)
      rbind (mul_peak_auto m (n - m)) (fun p3 => Ok (Z.max (Z.max p1 p2) p3))))
  end.

(** div_rem_in_place_same_len: lhs of 2n words *)
Definition dc_same_peak (fuel : nat) (n : Z) : result Z :=
  let nlo := n / 2 in
  rbind (dc_small_peak fuel (2 * n - nlo) n) (fun p1 =>
  rbind (dc_small_peak fuel (n + nlo) n) (fun p2 => Ok (Z.max p1 p2))).

(** divide_conquer::div_rem_in_place: `while m >= 2n` blocks (l / n - 1 of them), then the rest if m > n *)
Definition dc_peak (fuel : nat) (l n : Z) : result Z :=
  let j := l / n - 1 in
  let m := l - j * n in
  rbind (if 1 <=? j then dc_same_peak fuel n else Ok 0) (fun p1 =>
  rbind (if n <? m then dc_small_peak fuel m n else Ok 0) (fun p2 => Ok (Z.max p1 p2))).

(** div::div_rem_in_place (the THRESHOLD_SIMPLE switch); div_rem_unshifted_in_place passes the same lengths *)
Definition div_peak (l n : Z) : result Z :=
  if (n <=? div_threshold_simple) || (l - n <=? div_threshold_simple) then Ok 0
  else dc_peak (S (Z.to_nat n)) l n.

(** hook level (verif_hooks::div_kernel_scratch): which = 0 dispatch, 1 schoolbook, 2 divide and conquer;
    (scratch words really needed, words the library reserves) *)
Definition hook_peak (which l n : Z) : result Z :=
  if which =? 1 then Ok 0 else if which =? 2 then dc_peak (S (Z.to_nat n)) l n else div_peak l n.
Definition hook_reserved (which l n : Z) : Z :=
  if which =? 1 then 0 else if which =? 2 then g_dc_mem_req l n else g_div_mem_req l n.
