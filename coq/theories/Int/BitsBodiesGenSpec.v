(** C09 (round 5): the REGENERATED bodies meet the specification directly - `generated = hand model` (Int/BitsBodiesGenProof.v)
    composed with the correctness theorems of the hand models: the text read from shift_ops.rs / bits.rs / repr.rs on this run,
    with its casts and machine shifts, computes Z.shiftl / Z.shiftr / set / clear / mask / split / next power of two / 2^n - 1
    and returns a normalised Repr, for every word size and every count. *)
From Dashu Require Import Base.Prelude Base.Words Int.BitsSpec Int.BitsWords Int.BitsKernels Int.BitsKernelsBase
  Int.BitsShiftProofs Int.BitsMiscProofs Int.BitsCountProofs Int.BitsBodiesPrims Int.BitsBodiesGenProof.
From DashuGen Require Import BitsBodiesGen.
Import ListNotations.
Open Scope Z_scope.

Section GenSpec.
Variable w uw : Z.
Hypothesis HW : widths_ok w uw.
Let Hw : 0 < w := proj1 HW.
Let H32 : 2 * w < 2 ^ 32 := proj1 (proj2 HW).
Let Huw : 2 * w < 2 ^ uw := proj2 (proj2 HW).

Theorem gen_shift_bodies_spec rhs : 0 <= rhs ->
  (forall d, 0 < d < B w * B w ->
     bvalue w (shl_dword_gen w uw d rhs) = Z.shiftl d rhs /\ brepr_ok w (shl_dword_gen w uw d rhs)) /\
  (forall cap buf, wf w buf ->
     bvalue w (shl_large_gen w uw cap buf rhs) = Z.shiftl (value w buf) rhs /\ brepr_ok w (shl_large_gen w uw cap buf rhs)) /\
  (forall ws, wf w ws ->
     bvalue w (shl_large_ref_gen w uw ws rhs) = Z.shiftl (value w ws) rhs /\ brepr_ok w (shl_large_ref_gen w uw ws rhs)) /\
  (forall d, 0 <= d < B w * B w ->
     bvalue w (shr_dword_gen w uw d rhs) = Z.shiftr d rhs /\ brepr_ok w (shr_dword_gen w uw d rhs)) /\
  (forall buf, wf w buf ->
     bvalue w (shr_large_gen w uw buf rhs) = Z.shiftr (value w buf) rhs /\ brepr_ok w (shr_large_gen w uw buf rhs)) /\
  (forall ws, wf w ws ->
     bvalue w (shr_large_ref_gen w uw ws rhs) = Z.shiftr (value w ws) rhs /\ brepr_ok w (shr_large_ref_gen w uw ws rhs)).
Proof.
  intros Hr. destruct (gen_shl_bodies w uw HW) as (_ & _ & E1 & E2 & E3). destruct (gen_shr_bodies w uw HW) as (E4 & E5 & E6).
  repeat apply conj.
  - intros d Hd. rewrite E1 by assumption. apply shl_dword_correct; assumption.
  - intros cap buf Hb. rewrite E3. apply shl_large_correct; assumption.
  - intros ws Hb. rewrite E2. apply shl_large_ref_correct; assumption.
  - intros d Hd. rewrite E4 by assumption. apply shr_dword_correct; assumption.
  - intros buf Hb. rewrite E5. apply shr_large_correct; assumption.
  - intros ws Hb. rewrite E6. apply shr_large_ref_correct; assumption.
Qed.

Theorem gen_bit_bodies_spec r n : 0 <= n -> brepr_ok w r ->
  (bvalue w (typed_set_bit_gen w uw r n) = set_bit_spec (bvalue w r) n /\ brepr_ok w (typed_set_bit_gen w uw r n)) /\
  (bvalue w (typed_clear_bit_gen w uw r n) = clear_bit_spec (bvalue w r) n /\ brepr_ok w (typed_clear_bit_gen w uw r n)) /\
  (bvalue w (typed_clear_high_bits_gen w uw r n) = clear_high_bits_spec (bvalue w r) n /\
     brepr_ok w (typed_clear_high_bits_gen w uw r n)) /\
  (let '(lo, hi) := typed_split_bits_gen w uw r n in
     (bvalue w lo, bvalue w hi) = split_bits_spec (bvalue w r) n /\ brepr_ok w lo /\ brepr_ok w hi) /\
  (bvalue w (typed_next_power_of_two_gen w uw r) = next_power_of_two_spec (bvalue w r) /\
     brepr_ok w (typed_next_power_of_two_gen w uw r)) /\
  (bvalue w (repr_ones_gen w uw n) = ones_spec n /\ brepr_ok w (repr_ones_gen w uw n)).
Proof.
  intros Hn Hr. destruct (gen_bit_bodies w uw HW) as (_ & _ & _ & E1 & E2 & E3 & E4).
  destruct (gen_npt_ones_bodies w uw HW) as (_ & E5 & E6).
  rewrite E1, E2, E3, E4, E5, E6 by assumption. repeat apply conj.
  1,2: apply repr_set_bit_correct; assumption.
  1,2: apply repr_clear_bit_correct; assumption.
  1,2: apply repr_clear_high_bits_correct; assumption.
  - apply repr_split_bits_correct; assumption.
  - apply repr_next_power_of_two_correct; assumption.
  - apply repr_next_power_of_two_correct; assumption.
  - apply repr_ones_correct; assumption.
  - apply repr_ones_correct; assumption.
Qed.
End GenSpec.

Example gen_bit_bodies_spec_nonvacuous : widths_ok 64 64 /\ 0 <= 200 /\ brepr_ok 64 (BSmall 5).
Proof. split; [exact widths_ok_64|]. cbn. unfold B. lia. Qed.
