(** C01 round 5: the REGENERATED multiplication stack as a whole (coq/gen/MulBodiesGen.v with its generated fuel knot
    [mul_fuel_gen]) equals the hand dispatchers [mulg_same] / [mulg_gen] of Int/RingMulW.v:
      - same-length family (schoolbook / Karatsuba / Toom-3 by size): for every fuel and EVERY word list, no hypothesis;
      - general family (operand swap, chunk loops): inside the length contract length c = length a + length b that the
        code debug_asserts.
    The premises of Int/MulBodiesGenProofs.v (chunk multipliers keep the length of their output) are discharged here from
    Int/MulBodiesLen.v.  Generic in the Toom-3 step [toom] (it must treat its argument extensionally and keep the length
    of c); both are proved for the word-level model toom3g_same_len, hence for toom3x_same_len. *)
From Dashu Require Import Base.Prelude Base.Words Int.RingAdd Int.RingMul Int.RingToomW Int.DivWordModel Int.RingMulW
  Int.WordKernelsGenProofs Int.RingDispatchProofs Int.RingTop Int.MulBodiesGenProofs Int.MulBodiesLen Int.MulBodiesRun.
From DashuGen Require Import WordKernelsGen MulBodiesGen.
Open Scope Z_scope.

Ltac ext_loop H :=
  repeat first
    [ rewrite H
    | match goal with |- context [rbind ?X _] => destruct X; cbn [rbind]; try reflexivity end
    | match goal with |- context [match ?X with Ok _ => _ | Panic _ => _ | Err _ => _ | OutOfFuel => _ end] =>
        destruct X; try reflexivity end
    | match goal with |- context [match ?X with pair _ _ => _ end] => destruct X as [? ?] end
    | match goal with |- context [match ?X with Positive => _ | Negative => _ end] => destruct X end
    | match goal with |- context [if ?X then _ else _] => destruct X; try reflexivity end ].

Section Ext.
Variable w : Z.

(** the Karatsuba and Toom-3 steps use the products they request only through their results *)
Lemma karatsuba_same_len_ext (r1 r2 : mulfn) : (forall c s a b, r1 c s a b = r2 c s a b) ->
  forall c s a b, karatsuba_same_len w r1 c s a b = karatsuba_same_len w r2 c s a b.
Proof. intros H c s a b. unfold karatsuba_same_len. cbv zeta. ext_loop H. all: reflexivity. Qed.

Lemma toom3g_same_len_ext div6 shr1 (r1 r2 : mulfn) : (forall c s a b, r1 c s a b = r2 c s a b) ->
  forall c s a b, toom3g_same_len w div6 shr1 r1 c s a b = toom3g_same_len w div6 shr1 r2 c s a b.
Proof. intros H c s a b. unfold toom3g_same_len. cbv zeta. ext_loop H. all: reflexivity. Qed.

End Ext.

Section Knot.
Variable w : Z.
Variable toom : mulfn -> mulfn.
Hypothesis toom_ext : forall r1 r2 : mulfn, (forall c s a b, r1 c s a b = r2 c s a b) ->
  forall c s a b, toom r1 c s a b = toom r2 c s a b.
Hypothesis toom_keeps : forall (rec_same : mulfn) c s a b r k, toom rec_same c s a b = Ok (r, k) -> length r = length c.
Notation TS := THRESHOLD_SIMPLE_gen.
Notation TK := THRESHOLD_KARATSUBA_gen.
Notation CH := CHUNK_LEN_gen.
Notation SQ := MAX_LEN_SIMPLE_gen.

(** mul::add_signed_mul_same_len: generated knot = hand dispatcher, every fuel, every input *)
Theorem mul_fuel_gen_same_eq : forall fuel c s a b, mul_fuel_gen w toom fuel true c s a b = mulg_same w toom TS TK fuel c s a b.
Proof.
  induction fuel as [|f IH]; intros c s a b; [reflexivity|].
  rewrite (mulg_same_unfold_gen w toom f (mul_fuel_gen w toom f false)). cbn [mul_fuel_gen].
  unfold mul_add_signed_mul_same_len_body_gen. cbv zeta.
  destruct (length a <=? TS)%nat; [reflexivity|].
  destruct (length a <=? TK)%nat.
  - rewrite !karatsuba_same_len_gen_eq. apply karatsuba_same_len_ext. exact IH.
  - apply toom_ext. exact IH.
Qed.

(** the hand same-length dispatcher keeps the length of c on same-length operands *)
Lemma mulg_same_keeps_len : forall fuel m, keeps_len (mulg_same w toom TS TK fuel) m m.
Proof.
  induction fuel as [|f IH]; intros m c s a b r k La Lb Lc E; [discriminate|].
  cbn [mulg_same] in E. destruct (length a <=? TS)%nat eqn:E1.
  - exact (simple_chunk_keeps_len w m m c s a b r k La Lb Lc E).
  - apply Nat.leb_gt in E1. destruct (length a <=? TK)%nat.
    + refine (karatsuba_keeps_len w _ IH m _ c s a b r k La Lb Lc E). unfold THRESHOLD_SIMPLE_gen in E1. lia.
    + exact (toom_keeps _ c s a b r k E).
Qed.

(** mul::add_signed_mul: one level of the generated code around the hand dispatchers, premises discharged *)
Theorem mulg_gen_unfold_gen_full f c s a b : length c = (length a + length b)%nat ->
  mulg_gen w toom TS TK CH (S f) c s a b
  = mul_add_signed_mul_body_gen w toom (mulg_same w toom TS TK f) (mulg_gen w toom TS TK CH f) c s a b.
Proof.
  apply mulg_gen_unfold_gen.
  - intros n. apply simple_chunk_keeps_len.
  - intros n Hn. apply karatsuba_keeps_len; [apply mulg_same_keeps_len|]. unfold THRESHOLD_SIMPLE_gen in Hn. lia.
  - intros n _ c0 s0 a0 b0 r k _ _ _ E. eapply toom_keeps; eauto.
Qed.

(** mul::add_signed_mul: generated knot = hand dispatcher inside the length contract *)
Theorem mul_fuel_gen_gen_eq : forall fuel c s a b, length c = (length a + length b)%nat ->
  mul_fuel_gen w toom fuel false c s a b = mulg_gen w toom TS TK CH fuel c s a b.
Proof.
  induction fuel as [|f IH]; intros c s a b L; [reflexivity|].
  rewrite (mulg_gen_unfold_gen_full f c s a b L). cbn [mul_fuel_gen].
  unfold mul_add_signed_mul_body_gen.
  assert (L' : forall a1 b1, (a1, b1) = (if (length a <? length b)%nat then (b, a) else (a, b)) ->
                             length c = (length a1 + length b1)%nat).
  { intros a1 b1 E. destruct (length a <? length b)%nat; inversion E; subst; lia. }
  destruct (if (length a <? length b)%nat then (b, a) else (a, b)) as [a1 b1]. specialize (L' a1 b1 eq_refl).
  assert (Hk : forall r1 r2 : mulfn, (forall c s a b, r1 c s a b = r2 c s a b) -> forall c s a b,
            karatsuba_add_signed_mul_same_len_gen w r1 (mul_fuel_gen w toom f false) c s a b
            = karatsuba_same_len w r2 c s a b).
  { intros r1 r2 H c0 s0 a0 b0. rewrite karatsuba_same_len_gen_eq. now apply karatsuba_same_len_ext. }
  unfold simple_add_signed_mul_gen, karatsuba_add_signed_mul_gen, toom_3_add_signed_mul_gen.
  destruct (length b1 <=? TS)%nat eqn:E1.
  - destruct (length a1 <=? CH)%nat; [reflexivity|].
    rewrite (split_into_chunks_gen_eq w _ (simple_chunk_fn w) _ _ (mulg_gen w toom TS TK CH f)); auto.
    + symmetry. apply split_into_chunks_gen_eq; auto. apply simple_chunk_keeps_len.
    + apply simple_chunk_keeps_len.
  - apply Nat.leb_gt in E1. assert (H2 : (2 <= length b1)%nat) by (unfold THRESHOLD_SIMPLE_gen in E1; lia).
    destruct (length b1 <=? TK)%nat.
    + rewrite (split_into_chunks_gen_eq w _ (karatsuba_same_len w (mulg_same w toom TS TK f)) _ _ (mulg_gen w toom TS TK CH f)); auto.
      * symmetry. apply split_into_chunks_gen_eq; auto.
        -- intros; apply karatsuba_same_len_gen_eq.
        -- apply karatsuba_keeps_len; [apply mulg_same_keeps_len|exact H2].
      * intros. apply Hk. apply mul_fuel_gen_same_eq.
      * apply karatsuba_keeps_len; [apply mulg_same_keeps_len|exact H2].
    + rewrite (split_into_chunks_gen_eq w _ (toom (mulg_same w toom TS TK f)) _ _ (mulg_gen w toom TS TK CH f)); auto.
      * symmetry. apply split_into_chunks_gen_eq; auto.
        intros c0 s0 a0 b0 r k _ _ _ E. eapply toom_keeps; eauto.
      * intros. apply toom_ext. apply mul_fuel_gen_same_eq.
      * intros c0 s0 a0 b0 r k _ _ _ E. eapply toom_keeps; eauto.
Qed.

End Knot.

(** ---- word level: Toom-3 step = toom3x_same_len (hand model, div_by_word / shr_in_place of C02), everything else regenerated *)
Section WordLevelGen.
Variable w : Z.
Variable div2by1 : Z -> Z -> Z * Z.
Notation TS := THRESHOLD_SIMPLE_gen.
Notation TK := THRESHOLD_KARATSUBA_gen.
Notation CH := CHUNK_LEN_gen.
Notation SQ := MAX_LEN_SIMPLE_gen.
Notation toomx := (toom3x_same_len w div2by1).

Lemma toomx_ext (r1 r2 : mulfn) : (forall c s a b, r1 c s a b = r2 c s a b) ->
  forall c s a b, toomx r1 c s a b = toomx r2 c s a b.
Proof. unfold toom3x_same_len. apply toom3g_same_len_ext. Qed.

Lemma toomx_keeps (rec_same : mulfn) c s a b r k : toomx rec_same c s a b = Ok (r, k) -> length r = length c.
Proof. unfold toom3x_same_len. apply toom3g_keeps_len. Qed.

Theorem gen_rec_same_eq c s a b : gen_rec_same w div2by1 c s a b = add_signed_mul_same_len_w w div2by1 TS TK c s a b.
Proof.
  unfold gen_rec_same, gen_toom, mul_add_signed_mul_same_len_gen, add_signed_mul_same_len_w, add_signed_mul_same_len_g.
  apply mul_fuel_gen_same_eq. exact toomx_ext.
Qed.

Theorem gen_rec_gen_eq c s a b : length c = (length a + length b)%nat ->
  gen_rec_gen w div2by1 c s a b = add_signed_mul_w w div2by1 TS TK CH c s a b.
Proof.
  intros L. unfold gen_rec_gen, gen_toom, mul_add_signed_mul_gen, add_signed_mul_w, add_signed_mul_g.
  apply mul_fuel_gen_gen_eq; [exact toomx_ext|exact toomx_keeps|exact L].
Qed.

Lemma same_len_w_keeps m : keeps_len (add_signed_mul_same_len_w w div2by1 TS TK) m m.
Proof.
  intros c s a b r k La Lb Lc E. unfold add_signed_mul_same_len_w, add_signed_mul_same_len_g in E.
  exact (mulg_same_keeps_len w toomx toomx_keeps _ m c s a b r k La Lb Lc E).
Qed.

(** the four entry points of verif_hooks::mul_kernel through the regenerated bodies = the hand word-level models *)
Theorem kmul_bodies_gen_eq which c s a b : length c = (length a + length b)%nat -> (which = 2 -> (2 <= length b)%nat) ->
  kmul_bodies_gen w div2by1 which c s a b =
  (if which =? 0 then add_signed_mul_w w div2by1 TS TK CH c s a b
   else if which =? 1 then simple_add_signed_mul_w w div2by1 TS TK CH c s a b
   else if which =? 2 then karatsuba_add_signed_mul_w w div2by1 TS TK CH c s a b
   else toom3_add_signed_mul_w w div2by1 TS TK CH c s a b).
Proof.
  intros L H2. unfold kmul_bodies_gen.
  assert (Hrg : forall c s a b, length c = (length a + length b)%nat ->
                gen_rec_gen w div2by1 c s a b = add_signed_mul_w w div2by1 TS TK CH c s a b)
    by (intros; now apply gen_rec_gen_eq).
  destruct (which =? 0); [now apply gen_rec_gen_eq|].
  destruct (which =? 1).
  { unfold simple_add_signed_mul_gen, simple_add_signed_mul_w.
    destruct (length a <=? CH)%nat.
    - unfold simple_chunk_fn. destruct (add_signed_mul_chunk w c s a b); reflexivity.
    - apply (split_into_chunks_gen_eq w _ (simple_chunk_fn w) _ _ _ CH c s a b Hrg); [reflexivity| |exact L].
      apply simple_chunk_keeps_len. }
  destruct (which =? 2) eqn:E2.
  { apply Z.eqb_eq in E2. specialize (H2 E2).
    unfold karatsuba_add_signed_mul_gen, karatsuba_add_signed_mul_w.
    apply (split_into_chunks_gen_eq w _ _ _ _ _ (length b) c s a b Hrg); [| |exact L].
    - intros. rewrite karatsuba_same_len_gen_eq. apply karatsuba_same_len_ext. apply gen_rec_same_eq.
    - apply karatsuba_keeps_len; [apply same_len_w_keeps|exact H2]. }
  unfold toom_3_add_signed_mul_gen, toom3_add_signed_mul_w.
  apply (split_into_chunks_gen_eq w _ _ _ _ _ (length b) c s a b Hrg); [| |exact L].
  - intros. apply toomx_ext. apply gen_rec_same_eq.
  - intros c0 s0 a0 b0 r k _ _ _ E. exact (toomx_keeps _ _ _ _ _ _ _ E).
Qed.

Theorem multiply_bodies_gen_eq a b :
  mul_multiply_gen (gen_rec_same w div2by1) (gen_rec_gen w div2by1) (repeat 0 (length a + length b)) a b
  = multiply_w w div2by1 TS TK CH a b.
Proof.
  unfold mul_multiply_gen, multiply_w, multiply_g. rewrite gen_rec_gen_eq by (rewrite repeat_length; reflexivity).
  unfold add_signed_mul_w.
  destruct (assert_zero (add_signed_mul_g w toomx TS TK CH (repeat 0 (length a + length b)) Positive a b)); reflexivity.
Qed.

Theorem ksqr_bodies_gen_eq a : ksqr_bodies_gen w div2by1 a = sqr_w w div2by1 TS TK SQ a.
Proof.
  unfold ksqr_bodies_gen, sqr_sqr_gen, sqr_w, sqr_g. cbv zeta.
  destruct (length a <=? SQ)%nat; [reflexivity|]. rewrite gen_rec_same_eq. unfold add_signed_mul_same_len_w.
  destruct (assert_zero (add_signed_mul_same_len_g w toomx TS TK (repeat 0 (2 * length a)) Positive a a)); reflexivity.
Qed.

End WordLevelGen.

(** the statements pinned as C01_chunk_multipliers_keep_length / C01_gen_multiply_sqr *)
Theorem chunk_multipliers_keep_length : forall w,
  (forall la lb, keeps_len (simple_chunk_fn w) la lb) /\
  (forall rec_same : mulfn, (forall m, keeps_len rec_same m m) -> forall n, (2 <= n)%nat -> keeps_len (karatsuba_same_len w rec_same) n n) /\
  (forall div6 shr1 (rec_same : mulfn) c s a b r k, toom3g_same_len w div6 shr1 rec_same c s a b = Ok (r, k) -> length r = length c).
Proof.
  intros w. split; [|split].
  - exact (simple_chunk_keeps_len w).
  - exact (karatsuba_keeps_len w).
  - exact (toom3g_keeps_len w).
Qed.

Theorem gen_multiply_sqr : forall w div2by1,
  (forall a b, mul_multiply_gen (gen_rec_same w div2by1) (gen_rec_gen w div2by1) (repeat 0 (length a + length b)) a b
               = multiply_w w div2by1 THRESHOLD_SIMPLE_gen THRESHOLD_KARATSUBA_gen CHUNK_LEN_gen a b) /\
  (forall a, ksqr_bodies_gen w div2by1 a = sqr_w w div2by1 THRESHOLD_SIMPLE_gen THRESHOLD_KARATSUBA_gen MAX_LEN_SIMPLE_gen a).
Proof.
  intros w d. split.
  - exact (multiply_bodies_gen_eq w d).
  - exact (ksqr_bodies_gen_eq w d).
Qed.
