(** C01: property-level statements for the WORD-LEVEL multiplication stack (RingMulW.v / RingOpsW.v) with the
    thresholds of the source, for every word size w >= 8 and every [div2by1] meeting num-modular's contract. *)
From Dashu Require Import Base.Prelude Base.Words Int.RingSpec Int.RingAdd Int.RingAddProofs Int.RingMul Int.RingMulProofs
  Int.RingKaraProofs Int.RingDispatchProofs Int.RingSqrProofs Int.RingOps Int.RingOpsProofs Int.RingOpsMulProofs
  Int.RingToomW Int.RingTop Int.DivWordModel Int.DivWordProofs Int.DivWordInst Int.DivWordInstProofs
  Int.RingMulW Int.RingMulWProofs Int.RingOpsW Int.RingOpsWProofs Int.RingScratch Int.RingScratchProofs Int.RingPowW Int.RingPowWProofs.
From DashuGen Require Import Params MulMemory.
Open Scope Z_scope.

Section TopW.
Variable w : Z.
Hypothesis w_ge : 8 <= w.
Variable div2by1 : Z -> Z -> Z * Z.
Hypothesis div2by1_ok : forall d a, norm1 w d -> 0 <= a < d * B w -> div2by1 d a = (a / d, a mod d).
Notation rv := (repr_value w).
Notation srv := (srepr_value w).
Notation TS := src_T_simple.
Notation TK := src_T_kara.
Notation CH := src_CHUNK.
Notation SQ := src_SQR.

Let A1 : (1 <= TS)%nat := proj1 source_thresholds_admissible_w.
Let A2 : (15 <= TK)%nat := proj1 (proj2 source_thresholds_admissible_w).
Let A3 : (1 <= CH)%nat := proj1 (proj2 (proj2 source_thresholds_admissible_w)).

Theorem sqr_kernel_w_exact a : wf w a ->
  exists r, sqr_w w div2by1 TS TK SQ a = Ok r /\ length r = (2 * length a)%nat /\ wf w r /\ value w r = value w a * value w a.
Proof. intros Ha. exact (sqr_w_correct w w_ge div2by1 div2by1_ok TS TK CH SQ A1 A2 A3 a Ha). Qed.

Theorem ubig_mul_w_exact x y : tok w x -> tok w y ->
  exists r, repr_mul_w w div2by1 TS TK CH SQ x y = Ok r /\ Ok (rv r) = ubig_mul_spec (rv x) (rv y) /\ twf w r.
Proof. apply (repr_mul_w_correct w w_ge div2by1 div2by1_ok TS TK CH SQ A1 A2 A3). Qed.

Theorem ibig_mul_w_exact s0 x s1 y : tok w x -> tok w y ->
  exists r, ibig_mul_asis_w w div2by1 TS TK CH SQ s0 x s1 y = Ok r /\
    srv r = ibig_mul_spec (signed s0 (rv x)) (signed s1 (rv y)) /\ twf w (snd r).
Proof. apply (ibig_mul_asis_w_correct w w_ge div2by1 div2by1_ok TS TK CH SQ A1 A2 A3). Qed.

Theorem sqr_w_exact x : tok w x ->
  exists r, repr_sqr_w w div2by1 TS TK SQ x = Ok r /\ rv r = sqr_spec (rv x) /\ twf w r.
Proof. apply (repr_sqr_w_correct w w_ge div2by1 div2by1_ok TS TK CH SQ A1 A2 A3). Qed.

Theorem ubig_cubic_w_exact x : tok w x ->
  exists r, ubig_cubic_asis_w w div2by1 TS TK CH SQ x = Ok r /\ rv r = cubic_spec (rv x) /\ twf w r.
Proof. apply (ubig_cubic_asis_w_correct w w_ge div2by1 div2by1_ok TS TK CH SQ A1 A2 A3). Qed.

Theorem ibig_cubic_w_exact s x : tok w x ->
  exists r, ibig_cubic_asis_w w div2by1 TS TK CH SQ s x = Ok r /\ srv r = cubic_spec (signed s (rv x)) /\ twf w (snd r).
Proof. apply (ibig_cubic_asis_w_correct w w_ge div2by1 div2by1_ok TS TK CH SQ A1 A2 A3). Qed.

(** pow.rs with its storage bookkeeping; the scratch facts are those of Int/RingScratchProofs.v *)
Let Sc : forall n, 0 <= n ->
  0 <= sqr_need (Z.of_nat TS) (Z.of_nat TK) (Z.of_nat SQ) n <= sqr_memory_words n := sqr_scratch_sufficient.

Theorem pow_word_base_w_exact base e : 0 <= base < B w -> 3 <= e ->
  exists r, pow_word_base_w w div2by1 TS TK SQ base e = Ok r /\ rv r = base ^ e /\ twf w r.
Proof. apply (pow_word_base_w_correct w w_ge div2by1 div2by1_ok TS TK CH SQ A1 A2 A3 Sc sqr_memory_words_mono). Qed.

Theorem pow_dword_base_w_exact base e : B w <= base < B w * B w -> 3 <= e ->
  exists r, pow_dword_base_w w div2by1 TS TK SQ base e = Ok r /\ rv r = base ^ e /\ twf w r.
Proof. apply (pow_dword_base_w_correct w w_ge div2by1 div2by1_ok TS TK CH SQ A1 A2 A3 Sc sqr_memory_words_mono). Qed.

Theorem ubig_pow_w_exact cap x e : twf w x -> 0 <= e ->
  exists r, ubig_pow_w w div2by1 TS TK CH SQ cap x e = Ok r /\ rv r = pow_spec (rv x) e /\ twf w r.
Proof. apply (ubig_pow_w_correct w w_ge div2by1 div2by1_ok TS TK CH SQ A1 A2 A3 Sc sqr_memory_words_mono). Qed.

Theorem ibig_pow_w_exact cap s x e : twf w x -> 0 <= e ->
  exists r, ibig_pow_w w div2by1 TS TK CH SQ cap s x e = Ok r /\ srv r = pow_spec (signed s (rv x)) e /\ twf w (snd r).
Proof. apply (ibig_pow_w_correct w w_ge div2by1 div2by1_ok TS TK CH SQ A1 A2 A3 Sc sqr_memory_words_mono). Qed.

End TopW.

(** non-vacuity: the contract of [div2by1] is met by exact division (the instance the oracle runs), and the
    fully word-level Toom-3 step runs on a 16-word instance (8-bit words), both signs *)
Lemma x2by1_meets_contract w : 0 < w -> forall d a, norm1 w d -> 0 <= a < d * B w -> x2by1 d a = (a / d, a mod d).
Proof. intros Hw d a _ _. reflexivity. Qed.

Example toom3x_runs :
  toom3x_same_len 8 x2by1 tw_rec tw_c Positive tw_a tw_b = toom3w_same_len 8 tw_rec tw_c Positive tw_a tw_b /\
  toom3x_same_len 8 x2by1 tw_rec tw_c Negative tw_a tw_b = toom3w_same_len 8 tw_rec tw_c Negative tw_a tw_b /\
  exists r k, toom3x_same_len 8 x2by1 tw_rec tw_c Negative tw_a tw_b = Ok (r, k).
Proof. vm_compute. repeat split; try reflexivity. eexists _, _. reflexivity. Qed.

Example multiply_w_example :
  multiply_w 64 x2by1 src_T_simple src_T_kara src_CHUNK [2 ^ 64 - 1; 5] [2 ^ 64 - 1] = Ok [1; 2 ^ 64 - 7; 5].
Proof. vm_compute. reflexivity. Qed.

(** non-vacuity (64-bit words): 6^50 through factor-2 removal, the lifted word base 3^40 (q = 1, shortcut), 3^200
    through the buffer loop (q = 5), a double-word base, a 3-word base *)
Example pow_w_examples :
  ubig_pow_w 64 x2by1 src_T_simple src_T_kara src_CHUNK src_SQR true (Small 6) 50 = Ok (typed_of_value 64 (6 ^ 50)) /\
  ubig_pow_w 64 x2by1 src_T_simple src_T_kara src_CHUNK src_SQR true (Small 3) 200 = Ok (typed_of_value 64 (3 ^ 200)) /\
  ubig_pow_w 64 x2by1 src_T_simple src_T_kara src_CHUNK src_SQR false (Small (2 ^ 64 + 1)) 7 = Ok (typed_of_value 64 ((2 ^ 64 + 1) ^ 7)) /\
  ibig_pow_w 64 x2by1 src_T_simple src_T_kara src_CHUNK src_SQR true Negative (Large [4; 0; 1]) 5 = Ok (Negative, typed_of_value 64 ((2 ^ 128 + 4) ^ 5)).
Proof. vm_compute. repeat split; reflexivity. Qed.
