(** C02 - the 12 `impl DivRem / Div / Rem` of div_ops.rs::repr (Int/DivOwn.v, arms regenerated into
    coq/gen/DivDispatch.v) return the CANONICAL representation of the floor quotient / remainder for every
    ownership combination, or the DivideBy0 panic - any word size, any length, relative to the contracts of
    num-modular's primitives and of mul::add_signed_mul (discharged for the transcribed instance below). *)
From Coq Require Import ZArith List Bool Lia.
From Dashu Require Import Base.Prelude Base.Words Int.DivWordModel Int.DivWordProofs Int.DivSimpleProofs
  Int.DivLargeProofs Int.DivDCProofs Int.DivReprProofs Int.DivDCTotal Int.DivConstProofs Int.DivMemBase Int.DivOwn.
From DashuGen Require Import DivDispatch.
Import ListNotations.
Open Scope Z_scope.

Section DivOwnProofs.
Variable w : Z.
Hypothesis w_pos : 0 < w.
Notation B := (Words.B w).
Notation value := (Words.value w).
Notation wf := (Words.wf w).

Local Lemma Bpos : 0 < B. Proof. apply B_pos; lia. Qed.
Local Notation Bpow_pos := (DivWordProofs.Bpow_pos w w_pos).

(** *** Buffer::pop_zeros and Repr::from_buffer produce the canonical representation *)
Lemma strip_be_app be : exists k, be = repeat 0 k ++ strip_be be /\
  (strip_be be = [] \/ exists x r, strip_be be = x :: r /\ x <> 0).
Proof.
  induction be as [|x r IH]; [exists O; split; [reflexivity|left; reflexivity]|].
  cbn [strip_be]. destruct (Z.eqb_spec x 0) as [->|Hne].
  - destruct IH as (k & E & H). exists (S k). split; [cbn [repeat app]; f_equal; exact E|exact H].
  - exists O. split; [reflexivity|]. right. eauto.
Qed.

Lemma rev_repeat_zero k : rev (repeat 0 k) = repeat 0 k.
Proof.
  induction k as [|k IH]; [reflexivity|]. cbn [repeat rev]. rewrite IH.
  clear IH. induction k as [|k IH]; [reflexivity|]. cbn [repeat app]. f_equal. exact IH.
Qed.

Lemma value_single x : value [x] = x.
Proof. cbn [Words.value]. lia. Qed.

(** a well-formed list with a non-zero top word is the word list of its value *)
Lemma canon_words p x : wf p -> 0 < x < B -> words_of w (value (p ++ [x])) = p ++ [x].
Proof.
  intros Hp Hx. pose proof Bpos as HB.
  assert (Hwl : wf (p ++ [x])) by (apply wf_app; split; [exact Hp|apply wf_cons; split; [lia|apply wf_nil]]).
  set (v := value (p ++ [x])).
  assert (Hv : B ^ len p <= v < B ^ (len p + 1)).
  { pose proof (value_bounds w ltac:(lia) (p ++ [x]) Hwl) as Hb. fold v in Hb.
    unfold v in *. rewrite value_app, value_single in *.
    pose proof (value_bounds w ltac:(lia) p Hp). pose proof (Bpow_pos (len p) ltac:(unfold len; lia)).
    replace (len (p ++ [x])) with (len p + 1) in Hb by (unfold len; rewrite app_length; cbn [length]; lia).
    split; [nia|lia]. }
  assert (Hv0 : 0 < v) by (pose proof (Bpow_pos (len p) ltac:(unfold len; lia)); lia).
  destruct (nwords_spec w w_pos v Hv0) as (Hn1 & Hlo & Hhi).
  destruct (words_of_spec w w_pos v ltac:(lia)) as (Hww & Hwv & Hwl').
  assert (Hlen : Z.of_nat (nwords w v) = len p + 1).
  { destruct (Z.lt_trichotomy (Z.of_nat (nwords w v)) (len p + 1)) as [Hlt|[Heq|Hgt]]; [exfalso|exact Heq|exfalso].
    - assert (B ^ Z.of_nat (nwords w v) <= B ^ len p) by (apply Z.pow_le_mono_r; unfold len in *; lia). lia.
    - assert (B ^ (len p + 1) <= B ^ (Z.of_nat (nwords w v) - 1)) by (apply Z.pow_le_mono_r; unfold len in *; lia). lia. }
  apply (value_inj w ltac:(lia)); [exact Hww|exact Hwl| |rewrite Hwv; reflexivity].
  rewrite Hwl', app_length. cbn [length]. unfold len in Hlen. lia.
Qed.

Lemma words_of_zero : words_of w 0 = [].
Proof. reflexivity. Qed.

Lemma pop_zeros_words ws : wf ws -> pop_zeros ws = words_of w (value ws).
Proof.
  intros Hwf. unfold pop_zeros.
  destruct (strip_be_app (rev ws)) as (k & E & H).
  assert (Ews : ws = rev (strip_be (rev ws)) ++ repeat 0 k).
  { rewrite <- (rev_involutive ws) at 1. rewrite E at 1. rewrite rev_app_distr, rev_repeat_zero. reflexivity. }
  assert (Hval : value ws = value (rev (strip_be (rev ws)))).
  { rewrite Ews at 1. rewrite value_app, value_repeat_zero. lia. }
  rewrite Hval.
  destruct H as [->|(x & r & Es & Hx)]; [reflexivity|].
  rewrite Es. cbn [rev]. symmetry. rewrite Ews, Es in Hwf. cbn [rev] in Hwf.
  apply wf_app in Hwf as [Hwf _]. apply wf_app in Hwf as [Hp Hx'].
  apply wf_cons in Hx' as [Hx' _]. apply canon_words; [exact Hp|lia].
Qed.

Theorem from_buffer_repr ws : wf ws -> from_buffer w ws = repr_of w (value ws).
Proof.
  intros Hwf. pose proof Bpos as HB. unfold from_buffer. rewrite (pop_zeros_words ws Hwf).
  pose proof (value_bounds w ltac:(lia) ws Hwf) as [Hv0 _]. set (v := value ws) in *.
  destruct (words_of_spec w w_pos v Hv0) as (Hww & Hwv & Hwl). unfold repr_of.
  destruct (words_of w v) as [|a [|b [|c l]]] eqn:E.
  - cbn [Words.value] in Hwv. rewrite <- Hwv. destruct (Z.ltb_spec 0 (B * B)); [reflexivity|nia].
  - rewrite value_single in Hwv. apply wf_cons in Hww as [Ha _]. subst a.
    destruct (Z.ltb_spec v (B * B)); [reflexivity|nia].
  - cbn [Words.value] in Hwv. apply wf_cons in Hww as [Ha Hww]. apply wf_cons in Hww as [Hb _].
    replace (a + B * b) with v by lia. destruct (Z.ltb_spec v (B * B)); [reflexivity|nia].
  - assert (Hv : 0 < v).
    { destruct (Z.eq_dec v 0) as [Hz|]; [|lia]. rewrite Hz in E. rewrite words_of_zero in E. discriminate. }
    destruct (nwords_spec w w_pos v Hv) as (_ & Hlo & _). cbn [length] in Hwl.
    assert (B ^ 2 <= B ^ (Z.of_nat (nwords w v) - 1)) by (apply Z.pow_le_mono_r; lia).
    replace (B ^ 2) with (B * B) in * by ring.
    destruct (Z.ltb_spec v (B * B)); [lia|reflexivity].
Qed.

Lemma repr_of_small v : 0 <= v < B * B -> repr_of w v = TSmall v.
Proof. intros H. unfold repr_of. destruct (Z.ltb_spec v (B * B)); [reflexivity|lia]. Qed.

Lemma repr_of_large v : B * B <= v -> repr_of w v = TLarge (words_of w v).
Proof. intros H. unfold repr_of. destruct (Z.ltb_spec v (B * B)); [lia|reflexivity]. Qed.

Lemma repr_of_words v : 0 <= v -> from_buffer w (words_of w v) = repr_of w v.
Proof.
  intros Hv. destruct (words_of_spec w w_pos v Hv) as (Hww & Hwv & _).
  rewrite (from_buffer_repr _ Hww), Hwv. reflexivity.
Qed.

(** every canonical operand is the representation of its value, so the theorems cover all of them *)
Lemma canon_repr_of t : canon w t -> t = repr_of w (tvalue w t) /\ 0 <= tvalue w t.
Proof.
  pose proof Bpos as HB. destruct t as [d|ws]; cbn [canon tvalue].
  - intros H. rewrite repr_of_small by lia. split; [reflexivity|lia].
  - intros (Hwf & Hlen & Htop).
    destruct (exists_last (l := ws)) as (p & x & ->); [intros ->; cbn in Hlen; lia|].
    apply wf_app in Hwf as [Hp Hx]. apply wf_cons in Hx as [Hx _].
    assert (Hx0 : 0 < x).
    { unfold highest_word, top_words in Htop. rewrite app_length in Htop. cbn [length] in Htop.
      replace (length p + 1 - 1)%nat with (length p) in Htop by lia.
      rewrite (skipn_app_exact p [x] (length p) eq_refl), value_single in Htop. exact Htop. }
    pose proof (canon_words p x Hp ltac:(lia)) as Hc.
    assert (Hwl : wf (p ++ [x])) by (apply wf_app; split; [exact Hp|apply wf_cons; split; [lia|apply wf_nil]]).
    pose proof (value_bounds w ltac:(lia) _ Hwl) as [Hv0 _]. split; [|exact Hv0].
    unfold repr_of. rewrite Hc.
    destruct (Z.ltb_spec (value (p ++ [x])) (B * B)) as [Hlt|]; [exfalso|reflexivity].
    rewrite value_app, value_single in Hlt. rewrite app_length in Hlen. cbn [length] in Hlen.
    pose proof (value_bounds w ltac:(lia) p Hp) as [Hp0 _].
    assert (B ^ 2 <= B ^ len p) by (apply Z.pow_le_mono_r; unfold len; lia).
    replace (B ^ 2) with (B * B) in * by ring. nia.
Qed.

(** *** the helpers, relative to the contracts *)
Variable div1by1 div2by1 div2by2 : Z -> Z -> Z * Z.
Variable div3by2 div4by2 : Z -> Z -> Z -> Z * Z.
Hypothesis div1by1_ok : forall d a, norm1 w d -> 0 <= a < B -> div1by1 d a = (a / d, a mod d).
Hypothesis div2by1_ok : forall d a, norm1 w d -> 0 <= a < d * B -> div2by1 d a = (a / d, a mod d).
Hypothesis div2by2_ok : forall d a, norm2 w d -> 0 <= a < B * B -> div2by2 d a = (a / d, a mod d).
Hypothesis div3by2_ok : forall d lo hi, norm2 w d -> 0 <= lo < B -> 0 <= hi < d ->
  div3by2 d lo hi = ((lo + B * hi) / d, (lo + B * hi) mod d).
Hypothesis div4by2_ok : forall d lo hi, norm2 w d -> 0 <= lo < B * B -> 0 <= hi < d ->
  div4by2 d lo hi = ((lo + B * B * hi) / d, (lo + B * B * hi) mod d).
Variable mul_sub : list Z -> list Z -> list Z -> list Z * Z.
Hypothesis mul_sub_ok : forall c a b c' k, wf c -> wf a -> wf b -> length c = (length a + length b)%nat ->
  mul_sub c a b = (c', k) ->
  wf c' /\ length c' = length c /\ value c' + B ^ len c * k = value c - value a * value b.
Variable T : nat.
Hypothesis T_ge : (2 <= T)%nat.

Notation t_div_rem := (typed_div_rem w div2by1 div3by2 div4by2 mul_sub T).
Notation t_div := (typed_div w div2by1 div3by2 div4by2 mul_sub T).
Notation t_rem := (typed_rem w div1by1 div2by1 div2by2 div3by2 div4by2 mul_sub T).
Notation in_lhs := (div_rem_in_lhs w div3by2 mul_sub T).

Lemma large_dword_spec a b : B * B <= a -> 0 < b < B * B ->
  div_rem_large_dword w div2by1 div3by2 div4by2 (words_of w a) b = Ok (repr_of w (a / b), repr_of w (a mod b)).
Proof.
  intros Ha Hb. pose proof Bpos as HB. unfold div_rem_large_dword.
  destruct (words_of_spec w w_pos a ltac:(nia)) as (Hwa & Hva & Hla).
  pose proof (nwords_ge3 w w_pos a Ha) as Hna.
  pose proof (Z.mod_pos_bound a b ltac:(lia)) as Hm.
  destruct (Z.eqb_spec b 0) as [|_]; [lia|].
  destruct (Z.ltb_spec b B) as [Hb1|Hb1].
  - destruct (div_by_word w div2by1 (words_of w a) b) as [q r] eqn:E.
    destruct (div_by_word_correct w w_pos div2by1 div2by1_ok _ b Hwa ltac:(lia) q r E) as (Hq & Hr & Hwq & _).
    rewrite Hva in *. rewrite (from_buffer_repr q Hwq), Hq. subst r. unfold from_word.
    rewrite (repr_of_small (a mod b)) by nia. reflexivity.
  - destruct (div_by_dword w div3by2 div4by2 (words_of w a) b) as [q r] eqn:E.
    destruct (div_by_dword_correct w w_pos div3by2 div4by2 div3by2_ok div4by2_ok _ b Hwa ltac:(lia) ltac:(lia) q r E)
      as (Hq & Hr & Hwq & _).
    rewrite Hva in *. rewrite (from_buffer_repr q Hwq), Hq. subst r. unfold from_dword.
    rewrite (repr_of_small (a mod b)) by lia. reflexivity.
Qed.

(** div_rem_in_lhs on two Large operands: the three ways its result is consumed *)
Lemma in_lhs_spec a b : B * B <= a -> B * B <= b -> (length (words_of w b) <= length (words_of w a))%nat ->
  exists l rhs1 s, in_lhs (fuel_for (words_of w a)) (words_of w a) (words_of w b) = Ok (l, rhs1, s) /\
    from_buffer w (erase_front l (length rhs1)) = repr_of w (a / b) /\
    from_buffer w (fst (shr_in_place w (firstn (length rhs1) l) s)) = repr_of w (a mod b).
Proof.
  intros Ha Hb Hle. pose proof Bpos as HB.
  destruct (words_of_spec w w_pos a ltac:(nia)) as (Hwa & Hva & Hla).
  destruct (words_of_spec w w_pos b ltac:(nia)) as (Hwb & Hvb & Hlb).
  pose proof (nwords_ge3 w w_pos b Hb) as Hnb.
  pose proof (words_of_top w w_pos b ltac:(nia)) as Htop.
  set (lhs := words_of w a) in *. set (rhs := words_of w b) in *.
  destruct (div_rem_large_correct w w_pos div3by2 div3by2_ok mul_sub mul_sub_ok T T_ge (fuel_for lhs) lhs rhs
              Hwa Hwb ltac:(lia) Hle Htop ltac:(unfold fuel_for; lia))
    as (q & r & E & Hq & Hr & Hwq & Hwr & Hlr & Hlq).
  destruct (normalize_spec w w_pos rhs Hwb ltac:(lia) Htop) as (Hs & _ & rhs1 & E1 & Hw1 & Hl1 & Hv1 & Hn1).
  unfold div_rem_large in E. unfold div_rem_in_lhs. set (s := lzw w 1 (highest_word w rhs)) in *.
  rewrite E1 in *.
  assert (Hpre : kernel_pre w lhs rhs1) by (repeat split; try assumption; lia).
  destruct (div_rem_unshifted_reduce w w_pos div3by2 div3by2_ok mul_sub T (fuel_for lhs) lhs rhs1 s Hpre Hs)
    as (lhs2 & qt0 & Hpre2 & Hl2 & Ered & _).
  destruct (div_rem_unshifted w div3by2 mul_sub T (fuel_for lhs) lhs rhs1 s) as [[lhs3 qt]| | |] eqn:E3;
    cbn [rbind] in E; try discriminate.
  assert (Hl3 : length lhs3 = length lhs).
  { destruct (div_rem_in_place w div3by2 mul_sub T (fuel_for lhs) lhs2 rhs1) as [[l3 ov]| | |] eqn:E4;
      cbn [rbind] in Ered; try discriminate.
    inversion Ered; subst lhs3 qt.
    destruct (div_rem_in_place_sound w w_pos div3by2 div3by2_ok mul_sub mul_sub_ok T T_ge _ _ _ _ _ Hpre2 E4) as (_ & Hl & _).
    lia. }
  cbn [rbind]. exists (push_resizing lhs3 qt), rhs1, s. split; [reflexivity|].
  rewrite Hl1. set (n := length rhs) in *.
  destruct (shr_in_place w (firstn n lhs3) s) as [r1 c1] eqn:E5. inversion E; subst q r; clear E.
  rewrite Hva, Hvb in *.
  apply wf_app in Hwq as [Hwsk Hwqt].
  assert (Hfirst : firstn n (push_resizing lhs3 qt) = firstn n lhs3).
  { unfold push_resizing. destruct (qt =? 0); [reflexivity|]. rewrite firstn_app.
    replace (n - length lhs3)%nat with O by lia. cbn [firstn]. apply app_nil_r. }
  rewrite Hfirst, E5. cbn [fst]. split; [|rewrite (from_buffer_repr r1 Hwr), Hr; reflexivity].
  unfold erase_front, push_resizing. rewrite <- Hq.
  destruct (Z.eqb_spec qt 0) as [->|Hne].
  - rewrite (from_buffer_repr _ Hwsk). f_equal. rewrite value_app. cbn [Words.value]. lia.
  - rewrite skipn_app. replace (n - length lhs3)%nat with O by lia. cbn [skipn].
    apply from_buffer_repr. apply wf_app. split; assumption.
Qed.

Lemma small_quot a b : 0 <= a -> a < b -> a / b = 0 /\ a mod b = a.
Proof. intros. split; [apply Z.div_small|apply Z.mod_small]; lia. Qed.

(** *** DivRem, all four ownership combinations *)
Theorem typed_div_rem_correct o0 o1 a b : 0 <= a -> 0 <= b ->
  t_div_rem o0 o1 (repr_of w a) (repr_of w b) =
  if b =? 0 then Panic DivideBy0 else Ok (repr_of w (a / b), repr_of w (a mod b)).
Proof.
  intros Ha Hb. pose proof Bpos as HB. unfold typed_div_rem.
  destruct (Z.ltb_spec a (B * B)) as [Hsa|Hla]; destruct (Z.ltb_spec b (B * B)) as [Hsb|Hlb];
    [rewrite (repr_of_small a), (repr_of_small b) by lia
    |rewrite (repr_of_small a), (repr_of_large b) by lia
    |rewrite (repr_of_large a), (repr_of_small b) by lia
    |rewrite (repr_of_large a), (repr_of_large b) by lia];
    cbn [kind_of]; destruct o0, o1; cbn [g_repr_divrem_arm pick dw_of ws_of short_rem len_ge].
  1-4: unfold div_rem_dword; destruct (Z.eqb_spec b 0) as [|Hne]; [reflexivity|];
       pose proof (Z.mod_pos_bound a b ltac:(lia)); pose proof (Z.div_pos a b ltac:(lia) ltac:(lia));
       assert (a / b <= a) by (apply Z.div_le_upper_bound; nia);
       unfold from_dword; rewrite !repr_of_small by lia; reflexivity.
  1-4: destruct (Z.eqb_spec b 0) as [|_]; [nia|]; destruct (small_quot a b Ha ltac:(lia)) as [-> ->];
       unfold r_zero, from_dword; rewrite !repr_of_small by nia; reflexivity.
  1-4: destruct (Z.eqb_spec b 0) as [->|Hne]; [unfold div_rem_large_dword; reflexivity|];
       apply large_dword_spec; lia.
  all: unfold len_ge; cbn [pick ws_of]; destruct (Z.eqb_spec b 0) as [|_]; [nia|];
       destruct (Nat.leb_spec (length (words_of w b)) (length (words_of w a))) as [Hle|Hgt].
  1,3,5,7: destruct (in_lhs_spec a b Hla Hlb Hle) as (l & rhs1 & s & E & Hq & Hr);
       unfold t_div_rem_large; rewrite E; cbn [rbind];
       destruct (shr_in_place w (firstn (length rhs1) l) s) as [r1 c1]; cbn [fst] in Hr; rewrite Hq, Hr; reflexivity.
  all: destruct (words_of_spec w w_pos a Ha) as (_ & _ & Hl1); destruct (words_of_spec w w_pos b Hb) as (_ & _ & Hl2);
       assert (a < b) by (apply (nwords_lt w w_pos); nia);
       destruct (small_quot a b Ha ltac:(lia)) as [-> ->]; unfold clone_from_slice;
       rewrite repr_of_words by lia; unfold r_zero; rewrite (repr_of_small 0) by nia; reflexivity.
Qed.

(** *** Div only: div_large never copies or shifts back the remainder *)
Theorem typed_div_correct o0 o1 a b : 0 <= a -> 0 <= b ->
  t_div o0 o1 (repr_of w a) (repr_of w b) = if b =? 0 then Panic DivideBy0 else Ok (repr_of w (a / b)).
Proof.
  intros Ha Hb. pose proof Bpos as HB. unfold typed_div.
  destruct (Z.ltb_spec a (B * B)) as [Hsa|Hla]; destruct (Z.ltb_spec b (B * B)) as [Hsb|Hlb];
    [rewrite (repr_of_small a), (repr_of_small b) by lia
    |rewrite (repr_of_small a), (repr_of_large b) by lia
    |rewrite (repr_of_large a), (repr_of_small b) by lia
    |rewrite (repr_of_large a), (repr_of_large b) by lia];
    cbn [kind_of]; destruct o0, o1; cbn [g_repr_div_arm pick dw_of ws_of short_rem len_ge].
  1-4: unfold div_dword; destruct (Z.eqb_spec b 0) as [|Hne]; [reflexivity|];
       pose proof (Z.div_pos a b ltac:(lia) ltac:(lia));
       assert (a / b <= a) by (apply Z.div_le_upper_bound; nia);
       unfold from_dword; rewrite !repr_of_small by lia; reflexivity.
  1-4: destruct (Z.eqb_spec b 0) as [|_]; [nia|]; destruct (small_quot a b Ha ltac:(lia)) as [-> _];
       unfold r_zero; rewrite !repr_of_small by nia; reflexivity.
  1-4: unfold div_large_dword; destruct (Z.eqb_spec b 0) as [->|Hne]; [unfold div_rem_large_dword; reflexivity|];
       rewrite large_dword_spec by lia; reflexivity.
  all: unfold len_ge; cbn [pick ws_of]; destruct (Z.eqb_spec b 0) as [|_]; [nia|];
       destruct (Nat.leb_spec (length (words_of w b)) (length (words_of w a))) as [Hle|Hgt].
  1,3,5,7: destruct (in_lhs_spec a b Hla Hlb Hle) as (l & rhs1 & s & E & Hq & _);
       unfold t_div_large; rewrite E; cbn [rbind]; rewrite Hq; reflexivity.
  all: destruct (words_of_spec w w_pos a Ha) as (_ & _ & Hl1); destruct (words_of_spec w w_pos b Hb) as (_ & _ & Hl2);
       assert (a < b) by (apply (nwords_lt w w_pos); nia);
       destruct (small_quot a b Ha ltac:(lia)) as [-> _]; unfold r_zero; rewrite (repr_of_small 0) by nia; reflexivity.
Qed.

(** *** Rem only: rem_by_word / rem_by_dword, rem_large without erase_front *)
Theorem typed_rem_correct o0 o1 a b : 0 <= a -> 0 <= b ->
  t_rem o0 o1 (repr_of w a) (repr_of w b) = if b =? 0 then Panic DivideBy0 else Ok (repr_of w (a mod b)).
Proof.
  intros Ha Hb. pose proof Bpos as HB. unfold typed_rem.
  destruct (Z.ltb_spec a (B * B)) as [Hsa|Hla]; destruct (Z.ltb_spec b (B * B)) as [Hsb|Hlb];
    [rewrite (repr_of_small a), (repr_of_small b) by lia
    |rewrite (repr_of_small a), (repr_of_large b) by lia
    |rewrite (repr_of_large a), (repr_of_small b) by lia
    |rewrite (repr_of_large a), (repr_of_large b) by lia];
    cbn [kind_of]; destruct o0, o1; cbn [g_repr_rem_arm pick dw_of ws_of short_rem len_ge].
  1-4: unfold rem_dword; destruct (Z.eqb_spec b 0) as [|Hne]; [reflexivity|];
       pose proof (Z.mod_pos_bound a b ltac:(lia));
       unfold from_dword; rewrite !repr_of_small by lia; reflexivity.
  1-4: destruct (Z.eqb_spec b 0) as [|_]; [nia|]; destruct (small_quot a b Ha ltac:(lia)) as [_ ->];
       unfold from_dword; rewrite !repr_of_small by nia; reflexivity.
  1-4: unfold rem_large_dword; destruct (Z.eqb_spec b 0) as [->|Hne]; [reflexivity|];
       destruct (words_of_spec w w_pos a Ha) as (Hwa & Hva & Hla'); pose proof (nwords_ge3 w w_pos a Hla) as Hna;
       pose proof (Z.mod_pos_bound a b ltac:(lia));
       destruct (Z.ltb_spec b B);
       [rewrite (rem_by_word_correct w w_pos div1by1 div2by1 div1by1_ok div2by1_ok _ b Hwa) by
          (try lia; intros E0; rewrite E0 in Hla'; cbn in Hla'; lia)
       |rewrite (rem_by_dword_correct w w_pos div2by2 div3by2 div4by2 div2by2_ok div3by2_ok div4by2_ok _ b Hwa) by lia];
       rewrite Hva; unfold from_word, from_dword; rewrite repr_of_small by nia; reflexivity.
  all: unfold len_ge; cbn [pick ws_of]; destruct (Z.eqb_spec b 0) as [|_]; [nia|];
       destruct (Nat.leb_spec (length (words_of w b)) (length (words_of w a))) as [Hle|Hgt].
  1,3,5,7: destruct (in_lhs_spec a b Hla Hlb Hle) as (l & rhs1 & s & E & _ & Hr);
       unfold t_rem_large; rewrite E; cbn [rbind];
       destruct (shr_in_place w (firstn (length rhs1) l) s) as [r1 c1]; cbn [fst] in Hr; rewrite Hr; reflexivity.
  all: destruct (words_of_spec w w_pos a Ha) as (_ & _ & Hl1); destruct (words_of_spec w w_pos b Hb) as (_ & _ & Hl2);
       assert (a < b) by (apply (nwords_lt w w_pos); nia);
       destruct (small_quot a b Ha ltac:(lia)) as [_ ->]; unfold clone_from_slice;
       rewrite repr_of_words by lia; reflexivity.
Qed.

End DivOwnProofs.

(** *** the fully transcribed instance (num-modular as in barrett.rs, C01's add_signed_mul): nothing assumed *)
From Dashu Require Import Int.DivNumModular Int.DivNumModularProofs Int.DivSrcInst Int.DivSrcInstProofs.

Theorem s_typed_unconditional w : 8 <= w -> forall o0 o1 a b, 0 <= a -> 0 <= b ->
  s_typed_div_rem w o0 o1 (repr_of w a) (repr_of w b) =
    (if b =? 0 then Panic DivideBy0 else Ok (repr_of w (a / b), repr_of w (a mod b))) /\
  s_typed_div w o0 o1 (repr_of w a) (repr_of w b) = (if b =? 0 then Panic DivideBy0 else Ok (repr_of w (a / b))) /\
  s_typed_rem w o0 o1 (repr_of w a) (repr_of w b) = (if b =? 0 then Panic DivideBy0 else Ok (repr_of w (a mod b))).
Proof.
  intros Hw o0 o1 a b Ha Hb. assert (w_pos : 0 < w) by lia.
  pose proof (c01_mul_sub_contract w Hw) as Hms.
  split; [|split].
  - exact (typed_div_rem_correct w w_pos (nm2by1 w) (nm3by2 w) (nm4by2 w) (nm2by1_contract w w_pos) (nm3by2_contract w w_pos)
             (nm4by2_contract w w_pos) (c01_mul_sub w) Hms Ts Ts_ge o0 o1 a b Ha Hb).
  - exact (typed_div_correct w w_pos (nm2by1 w) (nm3by2 w) (nm4by2 w) (nm2by1_contract w w_pos) (nm3by2_contract w w_pos)
             (nm4by2_contract w w_pos) (c01_mul_sub w) Hms Ts Ts_ge o0 o1 a b Ha Hb).
  - exact (typed_rem_correct w w_pos (nm1by1 w) (nm2by1 w) (nm2by2 w) (nm3by2 w) (nm4by2 w) (nm1by1_contract w) (nm2by1_contract w w_pos)
             (nm2by2_contract w) (nm3by2_contract w w_pos) (nm4by2_contract w w_pos) (c01_mul_sub w) Hms Ts Ts_ge o0 o1 a b Ha Hb).
Qed.

(** non-vacuity: the borrowed-dividend / owned-divisor arm that reuses the divisor's buffer, and a large pair *)
Example s_typed_example :
  let a := 2 ^ 200 + 5 in let b := 2 ^ 300 + 1 in
  s_typed_div_rem 64 Borrowed Owned (repr_of 64 a) (repr_of 64 b) = Ok (TSmall 0, repr_of 64 a) /\
  s_typed_rem 64 Owned Borrowed (repr_of 64 (b * 3 + 7)) (repr_of 64 b) = Ok (TSmall 7) /\
  s_typed_div 64 Borrowed Borrowed (repr_of 64 (b * b)) (repr_of 64 b) = Ok (repr_of 64 b).
Proof. vm_compute. repeat split. Qed.
