(** C01 round 4: the REGENERATED kernels (coq/gen/WordKernelsGen.v) by kernel number - the as-is model that the
    correspondence run evaluates on every `wk` case at the word size of the build (64 and 32).  Definitions only;
    Int/WordKernelRunProofs.v proves it equal to the hand-written dispatcher and correct against word_kernel_spec. *)
From Dashu Require Import Base.Prelude Base.Words Int.RingAdd Int.RingMul Int.WordPrims Int.WordKernelSpec.
From DashuGen Require Import WordKernelsGen.
Open Scope Z_scope.

Definition word_kernel_gen (w which : Z) (lhs rhs : list Z) (x sx : Z) : list Z * (Z * bool) :=
  let x0 := x mod B w in
  let s := wk_sign_of sx in
  match which with
  | 0 => let '(l, r) := add_one_in_place_gen w lhs in (l, wk_flag r)
  | 1 => let '(l, r) := sub_one_in_place_gen w lhs in (l, wk_flag r)
  | 2 => let '(l, r) := add_word_in_place_gen w lhs x0 in (l, wk_flag r)
  | 3 => let '(l, r) := sub_word_in_place_gen w lhs x0 in (l, wk_flag r)
  | 4 => let '(l, r) := add_dword_in_place_gen w lhs x in (l, wk_flag r)
  | 5 => let '(l, r) := sub_dword_in_place_gen w lhs x in (l, wk_flag r)
  | 6 => let '(l, r) := add_same_len_in_place_gen w lhs rhs in (l, wk_flag r)
  | 7 => let '(l, r) := sub_same_len_in_place_gen w lhs rhs in (l, wk_flag r)
  | 8 => let '(l, r) := add_in_place_gen w lhs rhs in (l, wk_flag r)
  | 9 => let '(l, r) := sub_in_place_gen w lhs rhs in (l, wk_flag r)
  | 10 => let '(l, r) := sub_same_len_in_place_swap_gen w rhs lhs in (l, wk_flag r)
  | 11 => let '(l, r) := sub_in_place_with_sign_gen w lhs rhs in (l, wk_sign r)
  | 12 => let '(l, r) := add_signed_word_in_place_gen w lhs sx in (l, wk_signed r)
  | 13 => let '(l, r) := add_signed_same_len_in_place_gen w lhs s rhs in (l, wk_signed r)
  | 14 => let '(l, r) := add_signed_in_place_gen w lhs s rhs in (l, wk_signed r)
  | 15 => let '(l, r) := mul_word_in_place_with_carry_gen w lhs x0 (x / B w) in (l, (r, false))
  | 16 => let '(l, r) := mul_word_in_place_gen w lhs x0 in (l, (r, false))
  | 17 => let '(l, r) := mul_dword_in_place_gen w lhs x in (l, (r, false))
  | 18 => let '(l, r) := add_mul_word_same_len_in_place_gen w lhs x0 rhs in (l, (r, false))
  | _ => let '(l, r) := sub_mul_word_same_len_in_place_gen w lhs x0 rhs in (l, (r, false))
  end.

(** simple::add_signed_mul_chunk, regenerated together with its rows add_mul_chunk / sub_mul_chunk (mul/simple.rs) *)
Definition signed_mul_chunk_gen (w : Z) (c : list Z) (s : sign) (a b : list Z) : list Z * Z := add_signed_mul_chunk_gen w c s a b.
